(* C13/StratProofs.v — every output strategy, as assembled from the generated scripts, follows the write-rename protocol
   for all inputs; the in-place decision; sequential signings. *)
From Relic Require Import Base.Prelude Generated.C13_gen C13.Fs C13.FsProofs C13.Stage C13.Strategies.

Lemma forallb_app' {A} (f : A -> bool) a b : forallb f (a ++ b) = forallb f a && forallb f b.
Proof. apply forallb_app. Qed.

Section S.
Variables (pt pd : path) (it iin : ino).
(* the environment of the run: ANY combination of failing calls; the destination is neither "-" nor a special file *)
Variables (en : oenv) (idest : ino).
Hypothesis Hdash : e_dash en = false.
Hypothesis Hspecial : e_special en = false.
Notation chk := (check pt pd it).
Notation ok1 := (step_ok1 pt it).
Notation mk := (mk_steps pt pd).
Notation itp := (interp pt pd).
Notation nz := (@nil Z).

Lemma cleanup_tt : cleanup_ops pt pd true true = [SNop K_CLOSE_TMP; SUnlink pt].
Proof. reflexivity. Qed.
Lemma cleanup_tf : cleanup_ops pt pd true false = [SUnlink pt].
Proof. reflexivity. Qed.
Lemma cleanup_f b : cleanup_ops pt pd false b = [].
Proof. reflexivity. Qed.
Lemma removes_tt : cleanup_removes pt [SNop K_CLOSE_TMP; SUnlink pt] = true.
Proof. unfold cleanup_removes. cbn. rewrite Z.eqb_refl. reflexivity. Qed.
Lemma removes_tf : cleanup_removes pt [SUnlink pt] = true.
Proof. unfold cleanup_removes. cbn. rewrite Z.eqb_refl. reflexivity. Qed.

(* ---------------------------------------------------------------- pieces of `check` *)
Lemma check_fill l : forall r, forallb ok1 l = true -> chk 1 (l ++ r) = chk 1 r.
Proof.
  induction l as [|st l IH]; intros r H; [reflexivity|].
  cbn [forallb] in H. apply andb_true_iff in H as [Hs Hl]. cbn [app Fs.check].
  destruct (p_op st) eqn:Eo; try (rewrite Hs; apply IH, Hl).
  unfold step_ok1 in Hs. rewrite Eo in Hs. discriminate.
Qed.
Definition pre_ok (st : pstep) : bool := is_nop (p_op st) && cleanup_none (p_cleanup st) && natfail_ok st.
Lemma check_pre l : forall r, forallb pre_ok l = true -> chk 0 (l ++ r) = chk 0 r.
Proof.
  induction l as [|st l IH]; intros r H; [reflexivity|].
  cbn [forallb] in H. apply andb_true_iff in H as [Hs Hl]. unfold pre_ok in Hs. apply andb_true_iff in Hs as [Hs H3]. apply andb_true_iff in Hs as [H1 H2].
  cbn [app Fs.check]. destruct (p_op st); try discriminate. rewrite H2, H3. apply IH, Hl.
Qed.
(* the open phase, whatever fails: New is one call, the creation of the sibling temporary; when it fails New stops there and
   returns the error.  WriteAny (destination not "-", not special) is isSpecial's stat and New, nothing else. *)
Lemma new_steps_staged : new_steps_e pt pd it en it false 1 = [mkP (SCreate pt it) Abort [] (f_temp en)].
Proof. clear Hdash Hspecial. destruct en as [d s f1 f2 f3 f4 f5 f6 op]. destruct f1; reflexivity. Qed.
Lemma new_steps_staged2 : new_steps_e pt pd it en it false 2 = [mkP (SCreate pt it) Abort [SNop K_CLOSE_TMP; SUnlink pt] (f_temp en)].
Proof. clear Hdash Hspecial. destruct en as [d s f1 f2 f3 f4 f5 f6 op]. destruct f1; reflexivity. Qed.
Lemma writeany_steps_staged : writeany_steps_e pt pd it en idest false 1 =
  [mkP (SNop K_STAT_DEST) Ignore [] false; mkP (SCreate pt it) Abort [] (f_temp en)].
Proof. destruct en as [d s f1 f2 f3 f4 f5 f6 op]. cbn in Hdash, Hspecial. subst d s. destruct f1; reflexivity. Qed.
Lemma staged_finish pl : finish_plan pt it (o_handle (writeany_result en)) idest pl = pl.
Proof. destruct en as [d s f1 f2 f3 f4 f5 f6 op]. cbn in Hdash, Hspecial. subst d s. destruct f1; reflexivity. Qed.
Lemma check_create b r : chk 0 (mkP (SCreate pt it) Abort [] b :: r) = chk 1 r.
Proof. cbn [Fs.check p_op p_onerr p_cleanup]. rewrite !Z.eqb_refl. reflexivity. Qed.
Lemma check_new r : chk 0 (new_steps_e pt pd it en it false 1 ++ r) = chk 1 r.
Proof. rewrite new_steps_staged. cbn [app]. apply check_create. Qed.
Lemma check_writeany r : chk 0 (writeany_steps_e pt pd it en idest false 1 ++ r) = chk 1 r.
Proof.
  rewrite writeany_steps_staged.
  change ([mkP (SNop K_STAT_DEST) Ignore [] false; mkP (SCreate pt it) Abort [] (f_temp en)] ++ r)
    with ([mkP (SNop K_STAT_DEST) Ignore [] false] ++ mkP (SCreate pt it) Abort [] (f_temp en) :: r).
  rewrite check_pre by reflexivity. apply check_create.
Qed.
Lemma commit_plan_true : commit_plan pt pd true =
  [mkP (SNop K_CHMOD) Ignore [SNop K_CLOSE_TMP; SUnlink pt] false;
   mkP (SNop K_CLOSE_TMP) Abort [SUnlink pt] false;
   mkP (SRename pt pd) Abort [SUnlink pt] false].
Proof. reflexivity. Qed.
Lemma check_commit : chk 1 (commit_plan pt pd true) = Some 2%nat.
Proof.
  rewrite commit_plan_true. cbn [Fs.check p_op p_onerr p_cleanup step_ok1 local_op is_nop andb is_abort].
  rewrite removes_tf, !Z.eqb_refl. reflexivity.
Qed.

(* a primitive may stay in the filling phase: it touches only the temporary, and is a no-effect call if its failure is ignored *)
Definition prim_ok (k : Z) (x : prim) : bool :=
  let '(o, ign, nf) := x in
  local_op it o && (match (if ign then Ignore else kind_onerr k) with Ignore => is_nop o && negb nf | Abort => true end).
Lemma mk_fill_ok armed k l : armed || (k =? 2) = true -> forallb (prim_ok k) l = true -> forallb ok1 (mk armed k l) = true.
Proof.
  intros Ha. induction l as [|[[o ign] nf] l IH]; intros H; [reflexivity|].
  cbn [forallb] in H. apply andb_true_iff in H as [Hx Hl]. cbn [mk_steps map forallb]. fold (mk armed k l).
  rewrite (IH Hl), andb_true_r. unfold step_ok1. cbn [p_op p_onerr p_cleanup]. rewrite Ha, cleanup_tt.
  unfold prim_ok in Hx. apply andb_true_iff in Hx as [H1 H2]. rewrite H1. cbn [andb].
  destruct (if ign then Ignore else kind_onerr k); [exact H2|apply removes_tt].
Qed.

(* ---------------------------------------------------------------- scripts *)
Lemma interp_app env g cc mc a : forall armed b,
  itp env g cc mc armed (a ++ b) = itp env g cc mc armed a ++ itp env g cc mc (armed_after g cc armed a) b.
Proof.
  induction a as [|e a IH]; intros armed b; [reflexivity|].
  cbn [app interp armed_after]. destruct (forallb g (e_cnd e)); cbn [negb andb].
  - destruct (e_kind e =? 9); cbn [andb].
    + rewrite IH. destruct (e_callee e =? cc); [rewrite orb_true_r|rewrite orb_false_r]; reflexivity.
    + destruct (e_callee e =? mc); rewrite IH, <- app_assoc; reflexivity.
  - apply IH.
Qed.
Lemma armed_after_true g cc es : armed_after g cc true es = true.
Proof. induction es as [|e es IH]; [reflexivity|]. cbn [armed_after]. destruct (_ && _); exact IH. Qed.

(* entries of the filling phase: not the Commit, and whatever they expand to stays in the filling phase *)
Lemma interp_fill_ok env g cc mc es :
  (forall e, In e es -> (e_callee e =? mc) = false /\ forallb ok1 (env (e_callee e) true (e_kind e)) = true) ->
  forallb ok1 (itp env g cc mc true es) = true.
Proof.
  induction es as [|e es IH]; intros H; [reflexivity|].
  cbn [interp]. destruct (negb _); [apply IH; intros; apply H; right; assumption|].
  destruct (e_kind e =? 9); [cbn [orb]; apply IH; intros; apply H; right; assumption|].
  destruct (H e (or_introl eq_refl)) as [H1 H2]. rewrite H1, forallb_app', H2. cbn [andb].
  apply IH; intros; apply H; right; assumption.
Qed.

Ltac entries H := repeat (destruct H as [<-|H]; [split; [reflexivity|]|]); try contradiction.
Ltac fill_piece := first [reflexivity | apply mk_fill_ok; [reflexivity|]; cbn [forallb prim_ok local_op is_nop kind_onerr andb map]; rewrite ?Z.eqb_refl; reflexivity].

(* ================================================================== whole file *)
Lemma writes_ok k (ws : list bytes) : kind_onerr k = Abort ->
  forallb (prim_ok k) (map (fun d => (SWrite it d, false, false)) ws) = true.
Proof.
  intros Hk. induction ws as [|w ws IH]; [reflexivity|]. cbn [map forallb prim_ok local_op]. rewrite Hk, Z.eqb_refl, IH. reflexivity.
Qed.

Theorem whole_protocol_e writes : chk 0 (whole_plan_e pt pd it en idest writes) = Some 2%nat.
Proof.
  unfold whole_plan_e. rewrite staged_finish.
  change whole_script with ([(5, 1, 0, [2]); (0, 1, 0, nz); (1, 9, 0, nz)] ++ [(2, 1, 0, nz); (3, 0, 0, nz)] ++ [(4, 1, 0, nz)]).
  rewrite !interp_app.
  change (itp (whole_env pt pd it en idest writes) (whole_guard false) 1 4 false [(5, 1, 0, [2]); (0, 1, 0, nz); (1, 9, 0, nz)])
    with (writeany_steps_e pt pd it en idest false 1 ++ []).
  change (armed_after (whole_guard false) 1 false [(5, 1, 0, [2]); (0, 1, 0, nz); (1, 9, 0, nz)]) with true.
  rewrite armed_after_true. rewrite <- !app_assoc.
  rewrite check_writeany. cbn [app].
  rewrite check_fill.
  - change (itp (whole_env pt pd it en idest writes) (whole_guard false) 1 4 true [(4, 1, 0, nz)]) with (commit_plan pt pd true ++ []).
    rewrite app_nil_r. apply check_commit.
  - apply interp_fill_ok. intros e H. entries H.
    + cbn [e_callee e_kind whole_env Z.eqb Pos.eqb]. apply mk_fill_ok; [reflexivity|]. apply writes_ok. reflexivity.
    + fill_piece.
Qed.

Theorem writefile_protocol_e data : chk 0 (writefile_plan_e pt pd it en idest data) = Some 2%nat.
Proof.
  unfold writefile_plan_e. rewrite staged_finish.
  change writefile_script with ([(0, 1, 0, nz); (1, 9, 0, nz)] ++ [(2, 1, 0, nz)] ++ [(3, 1, 0, nz)]).
  rewrite !interp_app.
  change (itp (writefile_env pt pd it en idest data) (fun _ => true) 1 3 false [(0, 1, 0, nz); (1, 9, 0, nz)])
    with (writeany_steps_e pt pd it en idest false 1 ++ []).
  change (armed_after (fun _ => true) 1 false [(0, 1, 0, nz); (1, 9, 0, nz)]) with true.
  rewrite armed_after_true. rewrite <- !app_assoc.
  rewrite check_writeany. cbn [app].
  rewrite check_fill.
  - change (itp (writefile_env pt pd it en idest data) (fun _ => true) 1 3 true [(3, 1, 0, nz)]) with (commit_plan pt pd true ++ []).
    rewrite app_nil_r. apply check_commit.
  - apply interp_fill_ok. intros e H. entries H. fill_piece.
Qed.

(* ================================================================== patch by rewrite *)
Lemma rw_body_eq : sc_body rewrite_script = [(8, 1, 1, [2]); (3, 1, 1, [4]); (0, 1, 1, nz); (4, 1, 1, nz)].
Proof. reflexivity. Qed.
Lemma rw_pre_eq : sc_pre rewrite_script = [(0, 1, 0, nz); (1, 1, 0, nz); (2, 9, 0, nz)].
Proof. reflexivity. Qed.
Lemma rw_post_eq : sc_post rewrite_script = [(5, 1, 0, nz); (6, 0, 0, nz)] ++ [(7, 1, 0, nz)].
Proof. reflexivity. Qed.

Lemma rw_loop_ok insize ps : forall pos,
  forallb ok1 (fst (rw_loop pt pd it iin en insize true (sc_body rewrite_script) pos ps)) = true.
Proof.
  induction ps as [|p ps IH]; intros pos; [reflexivity|].
  cbn [rw_loop]. specialize (IH (rw_next pos p)).
  destruct (rw_loop pt pd it iin en insize true (sc_body rewrite_script) (rw_next pos p) ps) as [l pos'].
  cbn [fst] in *. rewrite forallb_app', IH, andb_true_r.
  rewrite rw_body_eq. apply interp_fill_ok. intros e H. entries H; fill_piece.
Qed.

Theorem rewrite_protocol_e insize ps : chk 0 (rewrite_plan_e pt pd it iin en insize ps) = Some 2%nat.
Proof.
  unfold rewrite_plan_e. cbv zeta. rewrite rw_pre_eq.
  change (armed_after (rw_guard 0 None) 2 false [(0, 1, 0, nz); (1, 1, 0, nz); (2, 9, 0, nz)]) with true.
  pose proof (rw_loop_ok insize ps 0) as Hl.
  destruct (rw_loop pt pd it iin en insize true (sc_body rewrite_script) 0 ps) as [l pos]. cbn [fst] in Hl.
  change (itp (rw_env pt pd it iin en insize 0 None) (rw_guard 0 None) 2 7 false [(0, 1, 0, nz); (1, 1, 0, nz); (2, 9, 0, nz)])
    with (mk false 1 [(SNop K_SEEK_IN, false, false)] ++ new_steps_e pt pd it en it false 1 ++ []).
  rewrite <- !app_assoc. rewrite check_pre by reflexivity. rewrite check_new. cbn [app].
  rewrite check_fill by exact Hl.
  rewrite rw_post_eq, interp_app, armed_after_true. rewrite check_fill.
  - change (itp (rw_env pt pd it iin en insize pos None) (rw_guard 0 None) 2 7 true [(7, 1, 0, nz)]) with (commit_plan pt pd true ++ []).
    rewrite app_nil_r. apply check_commit.
  - apply interp_fill_ok. intros e H. entries H; fill_piece.
Qed.

(* ================================================================== MSI copy-then-edit *)
Lemma edits_ok k (es : list edit) : kind_onerr k = Abort ->
  forallb (prim_ok k) (map (fun e => (edit_sop it e, false, false)) es) = true.
Proof.
  intros Hk. induction es as [|e es IH]; [reflexivity|].
  cbn [map forallb prim_ok]. rewrite Hk, IH. destruct e; cbn [edit_sop local_op]; rewrite Z.eqb_refl; reflexivity.
Qed.
Lemma preads_ok k n : forallb (prim_ok k) (repeat (SNop K_PREAD_TMP, false, false) n) = true.
Proof. induction n as [|n IH]; [reflexivity|]. cbn [repeat forallb]. rewrite IH. cbn. destruct (kind_onerr k); reflexivity. Qed.

Lemma wip_plan_eq insize : wip_plan_e pt pd it iin en insize =
  new_steps_e pt pd it en it false 1 ++
  mk false 2 [(SNop K_SEEK_IN, false, false)] ++ mk false 2 [(SCopy iin it 0 insize, false, false)] ++
  mk false 2 [(SNop K_SEEK_TMP, false, false)] ++ mk false 2 [(SNop K_CLOSE_IN, false, false)] ++ [].
Proof. reflexivity. Qed.

Theorem msi_protocol_e insize nreads edits1 edits2 : chk 0 (msi_plan_e pt pd it iin en insize nreads edits1 edits2) = Some 2%nat.
Proof.
  unfold msi_plan_e.
  change msi_script with ([(0, 0, 0, nz); (1, 1, 0, nz); (2, 1, 0, nz); (3, 9, 0, nz)] ++ [(4, 1, 0, nz); (5, 1, 0, nz); (6, 1, 0, nz)] ++ [(7, 1, 0, nz)]).
  rewrite !interp_app.
  change (armed_after (fun _ => true) 3 false [(0, 0, 0, nz); (1, 1, 0, nz); (2, 1, 0, nz); (3, 9, 0, nz)]) with true.
  rewrite armed_after_true.
  change (itp (msi_env pt pd it iin en insize nreads edits1 edits2) (fun _ => true) 3 7 false [(0, 0, 0, nz); (1, 1, 0, nz); (2, 1, 0, nz); (3, 9, 0, nz)])
    with (mk false 1 [(SNop K_READ_RESULT, false, false)] ++ wip_plan_e pt pd it iin en insize ++ []).
  rewrite wip_plan_eq. rewrite <- !app_assoc.
  rewrite check_pre by reflexivity. rewrite check_new.
  rewrite check_fill by fill_piece. rewrite check_fill by fill_piece. rewrite check_fill by fill_piece. rewrite check_fill by fill_piece.
  cbn [app]. rewrite check_fill.
  - change (itp (msi_env pt pd it iin en insize nreads edits1 edits2) (fun _ => true) 3 7 true [(7, 1, 0, nz)]) with (commit_plan pt pd true ++ []).
    rewrite app_nil_r. apply check_commit.
  - apply interp_fill_ok. intros e H. entries H.
    + cbn [e_callee e_kind msi_env Z.eqb Pos.eqb]. apply mk_fill_ok; [reflexivity|]. apply preads_ok.
    + cbn [e_callee e_kind msi_env Z.eqb Pos.eqb]. apply mk_fill_ok; [reflexivity|]. apply edits_ok. reflexivity.
    + cbn [e_callee e_kind msi_env Z.eqb Pos.eqb]. apply mk_fill_ok; [reflexivity|]. apply edits_ok. reflexivity.
Qed.

(* ================================================================== PGP *)
Lemma merge_from_ok k io : kind_onerr k = Abort -> forall n, forallb (prim_ok k) (merge_prims_from it n io) = true.
Proof.
  intros Hk. induction io as [|[| |d|d] io IH]; intros n; [reflexivity| | | |]; cbn [merge_prims_from map forallb mio_prim prim_ok local_op next_seek orb];
    rewrite ?Hk, ?Z.eqb_refl, IH; try reflexivity.
  destruct (getsize_seek_ignored n); reflexivity.
Qed.
Lemma merge_ok k io : kind_onerr k = Abort -> forallb (prim_ok k) (merge_prims it io) = true.
Proof. intros Hk. apply merge_from_ok, Hk. Qed.
Lemma merge_prims_cs_false io : merge_prims_cs it false io = merge_prims it io.
Proof.
  unfold merge_prims_cs, merge_prims. generalize 0%nat. induction io as [|x io IH]; intros n; [reflexivity|].
  cbn [merge_prims_cs_from merge_prims_from andb]. rewrite IH. reflexivity.
Qed.

Theorem pgp_gen_protocol_e inline clearsign io : chk 0 (pgp_plan_gen_e pt pd it en idest false inline clearsign io) = Some 2%nat.
Proof.
  unfold pgp_plan_gen_e. rewrite staged_finish.
  change pgp_script with ([(0, 1, 0, nz); (1, 9, 0, nz)] ++
                          [(2, 1, 0, [2]); (3, 1, 0, [2]); (4, 1, 0, [2; 4]); (5, 1, 0, [2; 5]); (6, 1, 0, [3]); (7, 0, 0, nz)] ++ [(8, 1, 0, nz)]).
  rewrite !interp_app.
  assert (Ha : armed_after (pgp_guard inline clearsign) 1 false [(0, 1, 0, nz); (1, 9, 0, nz)] = true) by reflexivity.
  rewrite Ha, armed_after_true.
  change (itp (pgp_env pt pd it en idest false io) (pgp_guard inline clearsign) 1 8 false [(0, 1, 0, nz); (1, 9, 0, nz)])
    with (writeany_steps_e pt pd it en idest false 1 ++ []).
  rewrite <- !app_assoc. rewrite check_writeany. cbn [app].
  rewrite check_fill.
  - change (itp (pgp_env pt pd it en idest false io) (pgp_guard inline clearsign) 1 8 true [(8, 1, 0, nz)]) with (commit_plan pt pd true ++ []).
    rewrite app_nil_r. apply check_commit.
  - apply interp_fill_ok. intros e H. entries H; try fill_piece;
      cbn [e_callee e_kind pgp_env Z.eqb Pos.eqb orb]; rewrite ?merge_prims_cs_false; (apply mk_fill_ok; [reflexivity|]); apply merge_ok; reflexivity.
Qed.
(* on the current source the final Flush of MergeClearSign is returned, so this is the plan of every PGP variant *)
Lemma flush_not_dropped : clearsign_flush_dropped = false.
Proof. reflexivity. Qed.
Theorem pgp_protocol_e inline clearsign io : chk 0 (pgp_plan_e pt pd it en idest inline clearsign io) = Some 2%nat.
Proof. unfold pgp_plan_e. rewrite flush_not_dropped. apply pgp_gen_protocol_e. Qed.
End S.

(* nothing fails: the plans of the uninterrupted run *)
Section S0.
Variables (pt pd : path) (it iin : ino).
Theorem whole_protocol writes : check pt pd it 0 (whole_plan pt pd it writes) = Some 2%nat.
Proof. apply whole_protocol_e; reflexivity. Qed.
Theorem writefile_protocol data : check pt pd it 0 (writefile_plan pt pd it data) = Some 2%nat.
Proof. apply writefile_protocol_e; reflexivity. Qed.
Theorem rewrite_protocol insize ps : check pt pd it 0 (rewrite_plan pt pd it iin insize ps) = Some 2%nat.
Proof. apply rewrite_protocol_e. Qed.
Theorem msi_protocol insize nreads edits1 edits2 : check pt pd it 0 (msi_plan pt pd it iin insize nreads edits1 edits2) = Some 2%nat.
Proof. apply msi_protocol_e. Qed.
Theorem pgp_gen_protocol inline clearsign io : check pt pd it 0 (pgp_plan_gen pt pd it false inline clearsign io) = Some 2%nat.
Proof. apply pgp_gen_protocol_e; reflexivity. Qed.
Theorem pgp_protocol inline clearsign io : check pt pd it 0 (pgp_plan pt pd it inline clearsign io) = Some 2%nat.
Proof. unfold pgp_plan. rewrite flush_not_dropped. apply pgp_gen_protocol. Qed.
End S0.

(* ================================================================== per strategy: everything the property demands *)
Section Safe.
Variables (pt pd : path) (it iin : ino) (s0 : fsys).
Hypothesis Hneq : pt <> pd.
Hypothesis Hfresh : fresh pt it s0.

Theorem whole_safe writes : safe_plan pt pd it s0 (whole_plan pt pd it writes).
Proof. apply protocol_safe; [exact Hneq|exact Hfresh|apply whole_protocol]. Qed.
Theorem writefile_safe data : safe_plan pt pd it s0 (writefile_plan pt pd it data).
Proof. apply protocol_safe; [exact Hneq|exact Hfresh|apply writefile_protocol]. Qed.
Theorem rewrite_safe insize ps : safe_plan pt pd it s0 (rewrite_plan pt pd it iin insize ps).
Proof. apply protocol_safe; [exact Hneq|exact Hfresh|apply rewrite_protocol]. Qed.
Theorem msi_safe insize nreads e1 e2 : safe_plan pt pd it s0 (msi_plan pt pd it iin insize nreads e1 e2).
Proof. apply protocol_safe; [exact Hneq|exact Hfresh|apply msi_protocol]. Qed.
Theorem pgp_safe inline clearsign io : safe_plan pt pd it s0 (pgp_plan pt pd it inline clearsign io).
Proof. apply protocol_safe; [exact Hneq|exact Hfresh|apply pgp_protocol]. Qed.
End Safe.

(* ================================================================== binpatch.Apply: when is the input overwritten in place? *)
(* the shape of a patch set that can be applied by overwriting: every patch keeps its size, except that the last one may
   instead end exactly at the end of the file *)
Fixpoint shape_ok (ps : list patch) (in_size : Z) : Prop :=
  match ps with
  | [] => True
  | p :: r => match r with
              | [] => p_old p = zlen (p_blob p) \/ p_off p + p_old p = in_size
              | _ :: _ => p_old p = zlen (p_blob p) /\ shape_ok r in_size
              end
  end.

Lemma eligible_iff ps : forall i n in_size size, i + zlen ps = n ->
  (eligible_from i n ps in_size size <> None <-> shape_ok ps in_size).
Proof.
  induction ps as [|p r IH]; intros i n in_size size Hn.
  - cbn. split; [auto|discriminate].
  - cbn [eligible_from shape_ok]. unfold apply_same_size, apply_not_last, apply_not_at_eof, apply_old_end, apply_new_size.
    rewrite zlen_cons in Hn. pose proof (zlen_nonneg r) as Hr.
    destruct (p_old p =? zlen (p_blob p)) eqn:E1.
    + apply Z.eqb_eq in E1. rewrite (IH (i + 1) n in_size size) by lia.
      destruct r as [|x r']; [cbn; tauto|]. tauto.
    + apply Z.eqb_neq in E1. destruct r as [|x r'].
      * rewrite zlen_nil in Hn. replace (i =? n - 1) with true by (symmetry; apply Z.eqb_eq; lia). cbn [negb].
        destruct (p_off p + p_old p =? in_size) eqn:E2; cbn [negb eligible_from].
        -- apply Z.eqb_eq in E2. split; [intros _; right; exact E2|discriminate].
        -- apply Z.eqb_neq in E2. split; [intros H; contradiction|intros [H|H]; contradiction].
      * rewrite zlen_cons in Hn. pose proof (zlen_nonneg r') as Hr'.
        replace (i =? n - 1) with false by (symmetry; apply Z.eqb_neq; lia). cbn [negb].
        split; [intros H; contradiction|intros [H _]; contradiction].
Qed.

(* in place is chosen exactly when: the input could be stat'ed, Lstat(outpath) succeeded and found a regular file that is
   the same file as the input and has no other hard link, and the patch set has the overwritable shape *)
Theorem inplace_iff st lst reg same sys cw nlink ps n :
  apply_decision st lst reg same sys cw nlink ps n <> None <->
  st = true /\ lst = true /\ reg = true /\ same = true /\ cw = true /\ (sys = true -> nlink = 1) /\ shape_ok ps n.
Proof.
  unfold apply_decision, apply_fallback_first, can_overwrite, has_links.
  destruct st, lst, reg, same, cw; cbn [negb orb andb]; rewrite ?orb_true_r;
    try (split; [intros H; contradiction|intros (A & B & C & D & E & _); discriminate]).
  destruct sys; cbn [negb orb].
  - destruct (nlink =? 1) eqn:E; cbn [negb orb].
    + apply Z.eqb_eq in E. rewrite (eligible_iff ps 0 (zlen ps) n n) by lia. tauto.
    + apply Z.eqb_neq in E. split; [intros H; contradiction|intros (_ & _ & _ & _ & _ & H & _); specialize (H eq_refl); contradiction].
  - rewrite (eligible_iff ps 0 (zlen ps) n n) by lia. split; [intros H; repeat split; try reflexivity; [discriminate|exact H]|tauto].
Qed.

(* read off the file system: the destination NAME must be a hard name of the input's own inode (a symbolic link is not), and
   the input must have been opened for writing *)
Theorem inplace_needs_same_name pd iin s cw nlink ps n size :
  apply_decision_fs pd iin s cw nlink ps n = Some size -> dirent s pd = Some (EFile iin) /\ cw = true /\ nlink = 1 /\ shape_ok ps n.
Proof.
  unfold apply_decision_fs. intros H.
  assert (H' : apply_decision true (match dirent s pd with Some _ => true | None => false end)
                 (match dirent s pd with Some (EFile _) => true | _ => false end)
                 (match dirent s pd with Some (EFile i) => i =? iin | _ => false end) true cw nlink ps n <> None) by (rewrite H; discriminate).
  apply inplace_iff in H' as (_ & _ & H3 & H4 & H5 & H6 & H7).
  destruct (dirent s pd) as [[i| |]|]; try discriminate. apply Z.eqb_eq in H4. subst. auto.
Qed.

(* whenever in place is not chosen, Apply runs the write-rename protocol *)
Theorem apply_not_inplace_protocol_e pt pd it iin en insize ps :
  check pt pd it 0 (apply_plan_e pt pd it iin en None insize ps) = Some 2%nat.
Proof.
  unfold apply_plan_e. rewrite check_pre by reflexivity. apply rewrite_protocol_e.
Qed.
Theorem apply_not_inplace_protocol pt pd it iin insize ps :
  check pt pd it 0 (apply_plan pt pd it iin None insize ps) = Some 2%nat.
Proof. apply apply_not_inplace_protocol_e. Qed.
Theorem apply_not_inplace_safe pt pd it iin s0 st lst reg same sys cw nlink insize ps :
  pt <> pd -> fresh pt it s0 ->
  apply_decision st lst reg same sys cw nlink ps insize = None ->
  safe_plan pt pd it s0 (apply_plan pt pd it iin (apply_decision st lst reg same sys cw nlink ps insize) insize ps).
Proof. intros H1 H2 ->. apply protocol_safe; [exact H1|exact H2|apply apply_not_inplace_protocol]. Qed.

(* ================================================================== destination "-" *)
Definition is_stdout (o : sop) : bool := match o with SStdout _ => true | _ => false end.
Lemma srun_no_file_effect ops : forall s, forallb (fun o => is_nop o || is_stdout o) ops = true ->
  (forall q, dirent (srun ops s) q = dirent s q) /\ (forall i, idata (srun ops s) i = idata s i).
Proof.
  induction ops as [|o ops IH]; intros s H; [split; reflexivity|].
  cbn [forallb] in H. apply andb_true_iff in H as [Ho Hr]. rewrite srun_cons.
  destruct (IH (sstep s o) Hr) as [I1 I2]. destruct o; try discriminate; cbn [sstep] in *; split; auto.
Qed.
Lemma forallb_firstn {A} (f : A -> bool) k l : forallb f l = true -> forallb f (firstn k l) = true.
Proof.
  revert l; induction k as [|k IH]; intros [|x l] H; try reflexivity.
  cbn [forallb firstn] in *. apply andb_true_iff in H as [H1 H2]. rewrite H1, (IH l H2). reflexivity.
Qed.
Lemma stdout_ops pt pd prims : forallb stdout_prim_ok prims = true ->
  forallb (fun o => is_nop o || is_stdout o) (ops_of (stdout_plan pt pd prims)) = true.
Proof.
  intros H. unfold stdout_plan. rewrite ops_of_app, forallb_app'. apply andb_true_iff. split; [|reflexivity].
  induction prims as [|[[o i] n] l IH]; [reflexivity|]. cbn [forallb] in H. apply andb_true_iff in H as [H1 H2].
  cbn [map mk_steps ops_of forallb p_op]. unfold stdout_prim_ok in H1. cbn [fst] in H1.
  apply andb_true_iff. split; [destruct o; try discriminate; reflexivity|exact (IH H2)].
Qed.
Theorem stdout_no_file_effect pt pd prims k s0 :
  forallb stdout_prim_ok prims = true ->
  let s := scrash k (stdout_plan pt pd prims) s0 in
  (forall q, dirent s q = dirent s0 q) /\ (forall i, idata s i = idata s0 i).
Proof. intros H. cbv zeta. unfold scrash. apply srun_no_file_effect, forallb_firstn, stdout_ops, H. Qed.

(* ================================================================== WriteAny: which destinations get the protocol *)
Theorem writeany_dash s pd : writeany_strategy true s pd = 0.
Proof. reflexivity. Qed.
Theorem writeany_atomic_iff s pd : writeany_strategy false s pd = 2 <-> dest_is_special s pd = false.
Proof. unfold writeany_strategy, writeany_choice. destruct (dest_is_special s pd); cbn; split; intros H; try reflexivity; discriminate. Qed.
(* special = the name, followed through one symbolic link, exists and is not a regular file *)
Theorem dest_special_iff s pd :
  dest_is_special s pd = true <->
  dirent s pd = Some ESpecial \/
  exists q, dirent s pd = Some (ELink q) /\ (dirent s q = Some ESpecial \/ exists q', dirent s q = Some (ELink q')).
Proof.
  unfold dest_is_special, is_special.
  destruct (dirent s pd) as [[i|q|]|] eqn:E; cbn.
  - split; [discriminate|intros [H|[q [H _]]]; discriminate].
  - destruct (dirent s q) as [[i|q'|]|] eqn:E2; cbn.
    + split; [discriminate|]. intros [H|[q0 [H [H2|[q1 H2]]]]]; try discriminate; injection H as <-; rewrite E2 in H2; discriminate.
    + split; [intros _; right; exists q; split; [reflexivity|right; exists q'; exact E2]|reflexivity].
    + split; [intros _; right; exists q; split; [reflexivity|left; exact E2]|reflexivity].
    + split; [discriminate|]. intros [H|[q0 [H [H2|[q1 H2]]]]]; try discriminate; injection H as <-; rewrite E2 in H2; discriminate.
  - split; [intros _; left; reflexivity|reflexivity].
  - split; [discriminate|intros [H|[q [H _]]]; discriminate].
Qed.

(* the temporary is a sibling of the destination named <base>.tmp*, Commit renames it to the destination, Close unlinks it *)
Theorem temp_naming : temp_in_dest_dir && temp_prefix_base_tmp && commit_renames_temp && commit_renames_to_dest && close_removes_temp = true.
Proof. reflexivity. Qed.

(* ================================================================== witnesses *)
Definition s_demo : fsys :=
  mkFsys (fun q => if q =? 1 then Some (EFile 10) else if q =? 2 then Some (EFile 11) else None)
         (fun i => if i =? 10 then [1; 2] else if i =? 11 then [7] else []) [].

(* why in-place patching is exempted: a kill between two of its writes leaves neither the old nor the new content *)
Theorem inplace_torn_refuted :
  exists ps size k,
    apply_decision true true true true true true 1 ps 2 = Some size /\
    let pl := inplace_plan 3 1 10 ps size in
    let s := scrash k pl s_demo in
    sread s 1 <> sread s_demo 1 /\ sread s 1 <> sread (srun (ops_of pl) s_demo) 1.
Proof.
  exists [mkPatch 0 1 [9]; mkPatch 1 1 [8]], 2, 1%nat. split; [reflexivity|]. cbv zeta. split; vm_compute; discriminate.
Qed.

(* an error inside the error handler: when the unlink of the clean-up itself fails the temporary stays (nothing can remove it) *)
Theorem cleanup_unlink_failure_refuted :
  exists n, dirent (fault_unlink_fails n 0 (whole_plan 3 2 20 [[5]]) s_demo) 3 <> None /\
            dirent (fault n 0 (whole_plan 3 2 20 [[5]]) s_demo) 3 = None.
Proof. exists 2%nat. split; vm_compute; [discriminate|reflexivity]. Qed.

(* a patch set that is out of order, or reaches past the end of the input, fails by itself after the temporary exists *)
Example rewrite_natural_failures :
  natural_fault (rewrite_plan 3 2 20 10 2 [mkPatch 1 0 [9]; mkPatch 0 0 [8]]) <> None /\
  natural_fault (rewrite_plan 3 2 20 10 2 [mkPatch 5 0 [9]]) <> None /\
  natural_fault (rewrite_plan 3 2 20 10 2 [mkPatch 1 1 [9]]) = None.
Proof. repeat split; vm_compute; discriminate. Qed.

(* ================================================================== what "the complete new content" is, per strategy *)
Definition tmp_step (inp acc : bytes) (o : sop) : bytes :=
  match o with
  | SCreate _ _ => []
  | SWrite _ d => acc ++ d
  | SCopy _ _ off n => acc ++ zslice off (off + n) inp
  | SPWrite _ off d => pwrite_bytes acc off d
  | STrunc _ n => trunc_bytes n acc
  | _ => acc
  end.
Definition tmp_eval (ops : list sop) (inp acc : bytes) : bytes := fold_left (tmp_step inp) ops acc.
Lemma tmp_eval_cons o ops inp acc : tmp_eval (o :: ops) inp acc = tmp_eval ops inp (tmp_step inp acc o).
Proof. reflexivity. Qed.
Lemma tmp_eval_app a b inp acc : tmp_eval (a ++ b) inp acc = tmp_eval b inp (tmp_eval a inp acc).
Proof. unfold tmp_eval. apply fold_left_app. Qed.

Section Content.
Variables (pt pd : path) (it iin : ino).
Hypothesis Hio : iin <> it.

Definition good_op (o : sop) : bool :=
  match o with
  | SWrite i _ | SPWrite i _ _ | STrunc i _ | SCreate _ i => i =? it
  | SCopy src dst _ _ => (src =? iin) && (dst =? it)
  | SOpen _ _ _ _ => false
  | _ => true
  end.

Lemma srun_tmp ops : forall s, forallb good_op ops = true ->
  idata (srun ops s) it = tmp_eval ops (idata s iin) (idata s it) /\ idata (srun ops s) iin = idata s iin.
Proof.
  induction ops as [|o ops IH]; intros s H; [split; reflexivity|].
  cbn [forallb] in H. apply andb_true_iff in H as [Ho Hr]. rewrite srun_cons. destruct (IH (sstep s o) Hr) as [I1 I2].
  rewrite I1, I2. clear IH I1 I2. rewrite tmp_eval_cons.
  assert (E : idata (sstep s o) it = tmp_step (idata s iin) (idata s it) o /\ idata (sstep s o) iin = idata s iin).
  { destruct o; cbn [good_op] in Ho; try discriminate Ho; cbn [sstep tmp_step];
      try (apply Z.eqb_eq in Ho; subst; rewrite set_data_same, set_data_other by exact Hio; split; reflexivity);
      try (split; reflexivity).
    - apply andb_true_iff in Ho as [H1 H2]. apply Z.eqb_eq in H1, H2. subst. rewrite set_data_same, set_data_other by exact Hio. split; reflexivity.
    - destruct (a =? b); [split; reflexivity|]. destruct (dirent s a); split; reflexivity. }
  destruct E as [E1 E2]. rewrite E1, E2. split; reflexivity.
Qed.

Lemma ops_mk armed k l : ops_of (mk_steps pt pd armed k l) = map (fun x : prim => fst (fst x)) l.
Proof. unfold ops_of, mk_steps. rewrite map_map. apply map_ext. intros [[o i] n]. reflexivity. Qed.

Lemma tmp_writes ws inp : forall acc, tmp_eval (map (SWrite it) ws) inp acc = acc ++ concat ws.
Proof.
  induction ws as [|w ws IH]; intros acc; [cbn; now rewrite app_nil_r|].
  cbn [map concat]. rewrite tmp_eval_cons, IH. cbn [tmp_step]. rewrite app_assoc. reflexivity.
Qed.
Lemma good_writes ws : forallb good_op (map (SWrite it) ws) = true.
Proof. induction ws as [|w ws IH]; [reflexivity|]. cbn [map forallb good_op]. rewrite Z.eqb_refl. exact IH. Qed.

(* ---- whole file: the concatenation of what was written *)
Lemma whole_ops writes : ops_of (whole_plan pt pd it writes) =
  [SNop K_STAT_DEST; SCreate pt it] ++ map (SWrite it) writes ++ [SNop K_CLOSE_IN; SNop K_CHMOD; SNop K_CLOSE_TMP; SRename pt pd].
Proof.
  change (whole_plan pt pd it writes) with
    (mk_steps pt pd false 1 [(SNop K_STAT_DEST, true, false)] ++ new_steps pt pd it false 1 ++
     mk_steps pt pd true 1 (map (fun d => (SWrite it d, false, false)) writes) ++
     mk_steps pt pd true 0 [(SNop K_CLOSE_IN, false, false)] ++ commit_plan pt pd true).
  rewrite !ops_of_app, !ops_mk, map_map. reflexivity.
Qed.
Theorem whole_content writes s0 : idata (srun (ops_of (whole_plan pt pd it writes)) s0) it = spec_whole writes.
Proof.
  rewrite whole_ops. destruct (srun_tmp ([SNop K_STAT_DEST; SCreate pt it] ++ map (SWrite it) writes ++ [SNop K_CLOSE_IN; SNop K_CHMOD; SNop K_CLOSE_TMP; SRename pt pd]) s0) as [E _].
  { rewrite !forallb_app', good_writes. cbn. rewrite Z.eqb_refl. reflexivity. }
  rewrite E, !tmp_eval_app, tmp_writes. reflexivity.
Qed.

(* ---- PGP: what the copy or the merge wrote, in order *)
Lemma tmp_merge_from io inp : forall n acc, tmp_eval (map (fun x : prim => fst (fst x)) (merge_prims_from it n io)) inp acc = acc ++ spec_merge io.
Proof.
  unfold spec_merge. induction io as [|[| |d|d] io IH]; intros n acc; cbn [merge_prims_from map concat fst mio_prim next_seek].
  - cbn. now rewrite app_nil_r.
  - rewrite tmp_eval_cons, IH. reflexivity.
  - rewrite tmp_eval_cons, IH. reflexivity.
  - rewrite tmp_eval_cons, IH. cbn [tmp_step]. rewrite app_assoc. reflexivity.
  - rewrite tmp_eval_cons, IH. cbn [tmp_step]. rewrite app_assoc. reflexivity.
Qed.
Lemma tmp_merge io inp acc : tmp_eval (map (fun x : prim => fst (fst x)) (merge_prims it io)) inp acc = acc ++ spec_merge io.
Proof. apply tmp_merge_from. Qed.
Lemma good_merge_from io : forall n, forallb good_op (map (fun x : prim => fst (fst x)) (merge_prims_from it n io)) = true.
Proof.
  induction io as [|[| |d|d] io IH]; intros n; [reflexivity| | | |]; cbn [merge_prims_from map forallb fst mio_prim good_op next_seek]; rewrite ?Z.eqb_refl; apply IH.
Qed.
Lemma good_merge io : forallb good_op (map (fun x : prim => fst (fst x)) (merge_prims it io)) = true.
Proof. apply good_merge_from. Qed.
Lemma pgp_ops inline clearsign io : ops_of (pgp_plan pt pd it inline clearsign io) =
  [SNop K_STAT_DEST; SCreate pt it] ++ (if pgp_merges inline clearsign then [SNop K_SEEK_IN; SNop K_READ_RESULT] else []) ++
  map (fun x : prim => fst (fst x)) (merge_prims it io) ++ [SNop K_CLOSE_IN; SNop K_CHMOD; SNop K_CLOSE_TMP; SRename pt pd].
Proof.
  unfold pgp_plan. rewrite flush_not_dropped. unfold pgp_plan_gen, pgp_plan_gen_e.
  change (o_handle (writeany_result (env_ok false false))) with RAtomic. cbn [finish_plan].
  destruct inline, clearsign.
  all: cbv [pgp_script].
  all: cbn [interp e_cnd e_kind e_callee forallb pgp_guard pgp_merges pgp_merge_clearsign negb andb orb Z.eqb Pos.eqb pgp_env].
  all: change (writeany_steps_e pt pd it (env_ok false false) it false 1)
         with (mk_steps pt pd false 1 [(SNop K_STAT_DEST, true, false)] ++ mk_steps pt pd false 1 [(SCreate pt it, false, false)]).
  all: rewrite ?ops_of_app, ?ops_mk, ?merge_prims_cs_false.
  all: reflexivity.
Qed.
Theorem pgp_content inline clearsign io s0 : idata (srun (ops_of (pgp_plan pt pd it inline clearsign io)) s0) it = spec_merge io.
Proof.
  rewrite pgp_ops.
  match goal with |- idata (srun ?o s0) it = _ => destruct (srun_tmp o s0) as [E _] end.
  { rewrite !forallb_app', good_merge. destruct (pgp_merges inline clearsign); cbn; rewrite Z.eqb_refl; reflexivity. }
  rewrite E, !tmp_eval_app, tmp_merge. destruct (pgp_merges inline clearsign); reflexivity.
Qed.

(* ---- MSI: the edits applied to a copy of the input *)
Lemma tmp_edits es inp : forall acc, tmp_eval (map (edit_sop it) es) inp acc = fold_left apply_edit es acc.
Proof.
  induction es as [|e es IH]; intros acc; [reflexivity|].
  cbn [map fold_left]. rewrite tmp_eval_cons, IH. destruct e; reflexivity.
Qed.
Lemma good_edits es : forallb good_op (map (edit_sop it) es) = true.
Proof. induction es as [|e es IH]; [reflexivity|]. cbn [map forallb]. rewrite IH. destruct e; cbn; rewrite Z.eqb_refl; reflexivity. Qed.
Lemma tmp_nops n k inp acc : tmp_eval (repeat (SNop k) n) inp acc = acc.
Proof. induction n as [|n IH]; [reflexivity|]. exact IH. Qed.
Lemma good_nops n k : forallb good_op (repeat (SNop k) n) = true.
Proof. induction n as [|n IH]; [reflexivity|]. exact IH. Qed.
Lemma map_repeat' {A B} (f : A -> B) x n : map f (repeat x n) = repeat (f x) n.
Proof. induction n as [|n IH]; [reflexivity|]. cbn. now rewrite IH. Qed.
Lemma msi_ops insize nreads e1 e2 : ops_of (msi_plan pt pd it iin insize nreads e1 e2) =
  [SNop K_READ_RESULT; SCreate pt it; SNop K_SEEK_IN; SCopy iin it 0 insize; SNop K_SEEK_TMP; SNop K_CLOSE_IN] ++
  repeat (SNop K_PREAD_TMP) (Z.to_nat nreads) ++ map (edit_sop it) e1 ++ map (edit_sop it) e2 ++ [SNop K_CHMOD; SNop K_CLOSE_TMP; SRename pt pd].
Proof.
  change (msi_plan pt pd it iin insize nreads e1 e2) with
    (mk_steps pt pd false 1 [(SNop K_READ_RESULT, false, false)] ++ wip_plan pt pd it iin insize ++
     mk_steps pt pd true 1 (repeat (SNop K_PREAD_TMP, false, false) (Z.to_nat nreads)) ++
     mk_steps pt pd true 1 (map (fun e => (edit_sop it e, false, false)) e1) ++
     mk_steps pt pd true 1 (map (fun e => (edit_sop it e, false, false)) e2) ++ commit_plan pt pd true).
  rewrite !ops_of_app, !ops_mk, !map_map, map_repeat'. reflexivity.
Qed.
Theorem msi_content insize nreads e1 e2 s0 :
  idata (srun (ops_of (msi_plan pt pd it iin insize nreads e1 e2)) s0) it = spec_msi (zslice 0 insize (idata s0 iin)) (e1 ++ e2).
Proof.
  rewrite msi_ops.
  match goal with |- idata (srun ?o s0) it = _ => destruct (srun_tmp o s0) as [E _] end.
  { rewrite !forallb_app', good_nops, !good_edits. cbn. rewrite !Z.eqb_refl. reflexivity. }
  rewrite E, !tmp_eval_app, tmp_nops, !tmp_edits. unfold spec_msi. rewrite fold_left_app. reflexivity.
Qed.
End Content.

(* ================================================================== two ways out of the protocol, with witnesses *)
(* (1) a data call whose failure is dropped (MergeClearSign's deferred Flush before relic 168ab2b): the plan is rejected, and
   when that write fails the code goes on and commits a file that is neither the previous nor the complete new content *)
Theorem dropped_flush_refuted :
  exists io n,
    let pl := pgp_plan_gen 3 2 20 true false true io in
    check 3 2 20 0 pl = None /\
    (exists st, nth_error pl n = Some st /\ p_onerr st = Ignore) /\
    let s := fault n 0 pl s_demo in
    sread s 2 <> sread s_demo 2 /\ sread s 2 <> sread (srun (ops_of pl) s_demo) 2.
Proof.
  exists [MWrite [1]; MRead; MWrite [2]], 6%nat. cbv zeta. split; [vm_compute; reflexivity|]. split.
  - eexists. split; [vm_compute; reflexivity|reflexivity].
  - split; vm_compute; discriminate.
Qed.

(* (2) anything after the rename: the command line's Fixup of a pe-coff output *)
Theorem fixup_not_protocol pt pd it iin insize ps nreads off cksum :
  check pt pd it 0 (pe_sign_plan pt pd it iin insize ps nreads off cksum) = None.
Proof.
  unfold pe_sign_plan. rewrite check_app, apply_not_inplace_protocol. reflexivity.
Qed.
Theorem pe_fixup_refuted :
  exists ps nreads off cksum k,
    let pl := pe_sign_plan 3 2 20 10 2 ps nreads off cksum in
    let s := scrash k pl s_demo in
    sread s 2 <> sread s_demo 2 /\ sread s 2 <> sread (srun (ops_of pl) s_demo) 2.
Proof.
  exists [mkPatch 2 0 [5; 5]], 1, 1, [9], 18%nat. cbv zeta. split; vm_compute; discriminate.
Qed.

(* ================================================================== patch by rewrite: the content, as a function of input and patches *)
Section RwContent.
Variables (pt pd : path) (it iin : ino).
Hypothesis Hio : iin <> it.

Fixpoint rw_loop_ops (pos : Z) (ps : list patch) : list sop :=
  match ps with
  | [] => []
  | p :: r => [SNop K_CHECK] ++ (if rewrite_copy_before (rw_delta pos p) then [SCopy iin it pos (rw_delta pos p)] else [])
              ++ [SNop K_SEEK_IN; SWrite it (p_blob p)] ++ rw_loop_ops (rw_next pos p) r
  end.
Fixpoint rw_final_pos (pos : Z) (ps : list patch) : Z :=
  match ps with [] => pos | p :: r => rw_final_pos (rw_next pos p) r end.

Lemma rw_loop_eq insize ps : forall pos,
  ops_of (fst (rw_loop pt pd it iin (env_ok false false) insize true (sc_body rewrite_script) pos ps)) = rw_loop_ops pos ps /\
  snd (rw_loop pt pd it iin (env_ok false false) insize true (sc_body rewrite_script) pos ps) = rw_final_pos pos ps.
Proof.
  induction ps as [|p ps IH]; intros pos; [split; reflexivity|].
  cbn [rw_loop rw_loop_ops rw_final_pos]. destruct (IH (rw_next pos p)) as [I1 I2].
  destruct (rw_loop pt pd it iin (env_ok false false) insize true (sc_body rewrite_script) (rw_next pos p) ps) as [l pos'].
  cbn [fst snd] in *. split; [|exact I2].
  rewrite ops_of_app, I1, rw_body_eq.
  cbn [interp e_cnd e_kind e_callee forallb rw_guard negb andb Z.eqb Pos.eqb].
  destruct (rewrite_copy_before (rw_delta pos p)); cbn [negb andb rw_env Z.eqb Pos.eqb];
    rewrite ?ops_of_app, ?(ops_mk pt pd); reflexivity.
Qed.

Lemma rewrite_ops insize ps : ops_of (rewrite_plan pt pd it iin insize ps) =
  [SNop K_SEEK_IN; SCreate pt it] ++ rw_loop_ops 0 ps ++
  [SCopy iin it (rw_final_pos 0 ps) (Z.max 0 (insize - rw_final_pos 0 ps)); SNop K_CLOSE_IN; SNop K_CHMOD; SNop K_CLOSE_TMP; SRename pt pd].
Proof.
  unfold rewrite_plan, rewrite_plan_e. cbv zeta. rewrite rw_pre_eq.
  change (armed_after (rw_guard 0 None) 2 false [(0, 1, 0, @nil Z); (1, 1, 0, @nil Z); (2, 9, 0, @nil Z)]) with true.
  destruct (rw_loop_eq insize ps 0) as [E1 E2].
  destruct (rw_loop pt pd it iin (env_ok false false) insize true (sc_body rewrite_script) 0 ps) as [l pos]. cbn [fst snd] in *. subst pos.
  rewrite !ops_of_app, E1. rewrite rw_post_eq. reflexivity.
Qed.

Lemma zslice_to_end (a : Z) (l : bytes) : zslice a (a + Z.max 0 (zlen l - a)) l = zdrop a l.
Proof.
  unfold zslice. replace (a + Z.max 0 (zlen l - a) - a) with (Z.max 0 (zlen l - a)) by lia.
  apply ztake_all.
  destruct (Z.le_gt_cases a 0) as [H|H].
  - rewrite zdrop_neg by exact H. lia.
  - destruct (Z.le_gt_cases a (zlen l)) as [H2|H2].
    + rewrite zlen_zdrop by lia. lia.
    + rewrite zdrop_all by lia. rewrite zlen_nil. lia.
Qed.

Lemma tmp_rw inp ps : forall pos acc,
  tmp_eval (rw_loop_ops pos ps ++ [SCopy iin it (rw_final_pos pos ps) (Z.max 0 (zlen inp - rw_final_pos pos ps))]) inp acc
  = acc ++ spec_rewrite_from inp pos ps.
Proof.
  induction ps as [|p ps IH]; intros pos acc.
  - cbn [rw_loop_ops rw_final_pos app spec_rewrite_from]. rewrite tmp_eval_cons. cbn [tmp_step tmp_eval fold_left].
    rewrite zslice_to_end. reflexivity.
  - cbn [rw_loop_ops rw_final_pos spec_rewrite_from].
    change (rewrite_copy_before (rw_delta pos p)) with (rw_delta pos p >? 0).
    destruct (rw_delta pos p >? 0) eqn:E; cbn [app]; rewrite !tmp_eval_cons; cbn [tmp_step]; rewrite <- ?app_assoc; cbn [app].
    + rewrite IH. unfold rw_delta, rewrite_delta. replace (pos + (p_off p - pos)) with (p_off p) by lia. rewrite <- !app_assoc. reflexivity.
    + rewrite IH. rewrite <- !app_assoc. reflexivity.
Qed.

Lemma good_loop ps : forall pos, forallb (good_op it iin) (rw_loop_ops pos ps) = true.
Proof.
  induction ps as [|p ps IH]; intros pos; [reflexivity|].
  cbn [rw_loop_ops]. rewrite !forallb_app', IH. destruct (rewrite_copy_before (rw_delta pos p)); cbn; rewrite !Z.eqb_refl; reflexivity.
Qed.

Theorem rewrite_content insize ps s0 : insize = zlen (idata s0 iin) ->
  idata (srun (ops_of (rewrite_plan pt pd it iin insize ps)) s0) it = spec_rewrite_from (idata s0 iin) 0 ps.
Proof.
  intros ->. rewrite rewrite_ops.
  match goal with |- idata (srun ?o s0) it = _ => destruct (srun_tmp it iin Hio o s0) as [E _] end.
  { rewrite !forallb_app', good_loop. cbn. rewrite !Z.eqb_refl. reflexivity. }
  rewrite E. rewrite tmp_eval_app. cbn [tmp_eval fold_left tmp_step]. fold tmp_eval.
  change ([SCopy iin it (rw_final_pos 0 ps) (Z.max 0 (zlen (idata s0 iin) - rw_final_pos 0 ps)); SNop K_CLOSE_IN; SNop K_CHMOD; SNop K_CLOSE_TMP; SRename pt pd])
    with ([SCopy iin it (rw_final_pos 0 ps) (Z.max 0 (zlen (idata s0 iin) - rw_final_pos 0 ps))] ++ [SNop K_CLOSE_IN; SNop K_CHMOD; SNop K_CLOSE_TMP; SRename pt pd]).
  rewrite app_assoc, tmp_eval_app, tmp_rw. reflexivity.
Qed.
End RwContent.
