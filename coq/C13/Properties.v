(* C13/Properties.v — property theorems only. *)
From Relic Require Import Base.Prelude Generated.C13_gen C13.Model C13.Proofs.

(* killing the process after any number k of file-system operations of the output phase leaves the destination with
   its complete previous content or the complete new content, never missing where one existed, and the input unmodified *)
Theorem crash_safe : forall inp old writes edits k,
  let ops := success_ops writes edits in
  let s := crash k ops (mkFs inp old None) in
  (f_dest s = old \/ f_dest s = Some (final_content writes edits)) /\
  (old <> None -> f_dest s <> None) /\
  f_input s = inp.
Proof. exact C13.Proofs.crash_safe. Qed.

(* normal completion: new content in place, no temporary left *)
Theorem complete_run : forall inp old writes edits,
  run_ops (success_ops writes edits) (mkFs inp old None) = mkFs inp (Some (final_content writes edits)) None.
Proof. exact C13.Proofs.complete_run. Qed.

(* handled error in any of the strategies (each defers Close): destination untouched, no temporary left *)
Theorem handled_error_clean : forall inp old writes edits,
  run_ops (error_ops true writes edits) (mkFs inp old None) = mkFs inp old None.
Proof. exact C13.Proofs.handled_error_clean. Qed.
Theorem all_strategies_defer_close : forallb (fun b => b) strategies_defer_close = true.
Proof. exact C13.Proofs.all_strategies_defer_close. Qed.

(* the commit sequence the source implements (generated call table) *)
Theorem commit_sequence : commit_ops = [Chmod; CloseF; Rename].
Proof. exact C13.Proofs.commit_ops_eq. Qed.

(* why the order matters: removing the destination before the rename is refuted *)
Theorem remove_first_refuted :
  exists k, f_dest (crash k ([CreateTemp; Write [1]] ++ [Chmod; CloseF; RemoveDest; Rename]) (mkFs [] (Some [0]) None)) = None.
Proof. exact C13.Proofs.remove_first_refuted. Qed.

(* ===================================================================================================================
   Session 4: the file system with names, inodes and symbolic links; every strategy as a plan assembled from the
   generated scripts (C13/Fs.v, C13/Strategies.v); crash at every call boundary, error at every step.
   =================================================================================================================== *)
From Relic Require Import C13.Fs C13.FsProofs C13.Strategies C13.StratProofs.

(* any plan with the write-rename shape (create sibling temporary, touch only it, never ignore a failing data call, unlink it
   on every way out, rename it over the destination as the last call) satisfies everything the property says: killed after
   any number of calls the destination reads as before or as the complete new content and is never lost, no existing inode
   (the input, under any name) changes, every other name reads as before; after completion and after an error returned by
   ANY call no temporary is left and, on error, every name reads as before *)
Theorem protocol_safe : forall pt pd it s0 pl,
  pt <> pd -> fresh pt it s0 -> check pt pd it 0 pl = Some 2%nat -> safe_plan pt pd it s0 pl.
Proof. exact C13.FsProofs.protocol_safe. Qed.

(* also for a plan that stops early (the inputs make a step fail): killed at any point, same guarantees *)
Theorem protocol_crash_any : forall pt pd it s0, pt <> pd -> dirent s0 pt = None ->
  (forall q, dirent s0 q <> Some (EFile it)) -> (forall q, dirent s0 q <> Some (ELink pt)) ->
  forall pl ph' k, check pt pd it 0 pl = Some ph' ->
  let s := scrash k pl s0 in
  let new := idata (srun (ops_of pl) s0) it in
  spec_dest_old_or_new pd new s0 s /\ spec_dest_not_lost pd s0 s /\ spec_inodes_untouched it s0 s /\ spec_other_names pt pd s0 s.
Proof. exact C13.FsProofs.protocol_crash_read. Qed.

(* giving up may come late (a library drops a write error and keeps writing; relic's sticky writer reports it when the call
   returns): while only the temporary is touched in between, the outcome is the same *)
Theorem protocol_fault_delayed : forall pt pd it s0, pt <> pd -> dirent s0 pt = None ->
  forall pl ph' n m extra st,
  check pt pd it 0 pl = Some ph' -> nth_error pl n = Some st -> cleanup_removes pt (p_cleanup st) = true ->
  forallb (local_op it) (firstn extra (skipn (S n) (ops_of pl))) = true ->
  let s := fault_delayed n m extra pl s0 in
  (forall q, dirent s q = dirent s0 q) /\ (forall i, i <> it -> idata s i = idata s0 i).
Proof. exact C13.FsProofs.protocol_fault_delayed. Qed.

(* --- the strategies, for all inputs, every kind of destination (absent, regular, symbolic link, the input itself) --- *)
Theorem whole_safe : forall pt pd it s0, pt <> pd -> fresh pt it s0 ->
  forall writes, safe_plan pt pd it s0 (whole_plan pt pd it writes).
Proof. exact C13.StratProofs.whole_safe. Qed.
Theorem writefile_safe : forall pt pd it s0, pt <> pd -> fresh pt it s0 ->
  forall data, safe_plan pt pd it s0 (writefile_plan pt pd it data).
Proof. exact C13.StratProofs.writefile_safe. Qed.
Theorem rewrite_safe : forall pt pd it iin s0, pt <> pd -> fresh pt it s0 ->
  forall insize ps, safe_plan pt pd it s0 (rewrite_plan pt pd it iin insize ps).
Proof. exact C13.StratProofs.rewrite_safe. Qed.
Theorem msi_safe : forall pt pd it iin s0, pt <> pd -> fresh pt it s0 ->
  forall insize nreads e1 e2, safe_plan pt pd it s0 (msi_plan pt pd it iin insize nreads e1 e2).
Proof. exact C13.StratProofs.msi_safe. Qed.
Theorem pgp_safe : forall pt pd it s0, pt <> pd -> fresh pt it s0 ->
  forall inline clearsign io, safe_plan pt pd it s0 (pgp_plan pt pd it inline clearsign io).
Proof. exact C13.StratProofs.pgp_safe. Qed.

(* the complete new content, as a function of the inputs *)
Theorem whole_content : forall pt pd it iin, iin <> it -> forall writes s0,
  idata (srun (ops_of (whole_plan pt pd it writes)) s0) it = spec_whole writes.
Proof. exact C13.StratProofs.whole_content. Qed.
Theorem pgp_content : forall pt pd it iin, iin <> it -> forall inline clearsign io s0,
  idata (srun (ops_of (pgp_plan pt pd it inline clearsign io)) s0) it = spec_merge io.
Proof. exact C13.StratProofs.pgp_content. Qed.
Theorem msi_content : forall pt pd it iin, iin <> it -> forall insize nreads e1 e2 s0,
  idata (srun (ops_of (msi_plan pt pd it iin insize nreads e1 e2)) s0) it = spec_msi (zslice 0 insize (idata s0 iin)) (e1 ++ e2).
Proof. exact C13.StratProofs.msi_content. Qed.

Theorem rewrite_content : forall pt pd it iin, iin <> it -> forall insize ps s0, insize = zlen (idata s0 iin) ->
  idata (srun (ops_of (rewrite_plan pt pd it iin insize ps)) s0) it = spec_rewrite_from (idata s0 iin) 0 ps.
Proof. exact C13.StratProofs.rewrite_content. Qed.

(* --- binpatch.Apply: exactly when the input is overwritten in place; otherwise the protocol --- *)
Theorem inplace_iff : forall st lst reg same sys cw nlink ps n,
  apply_decision st lst reg same sys cw nlink ps n <> None <->
  st = true /\ lst = true /\ reg = true /\ same = true /\ cw = true /\ (sys = true -> nlink = 1) /\ shape_ok ps n.
Proof. exact C13.StratProofs.inplace_iff. Qed.
Theorem inplace_needs_same_name : forall pd iin s cw nlink ps n size,
  apply_decision_fs pd iin s cw nlink ps n = Some size -> dirent s pd = Some (EFile iin) /\ cw = true /\ nlink = 1 /\ shape_ok ps n.
Proof. exact C13.StratProofs.inplace_needs_same_name. Qed.
Theorem apply_not_inplace_safe : forall pt pd it iin s0 st lst reg same sys cw nlink insize ps,
  pt <> pd -> fresh pt it s0 ->
  apply_decision st lst reg same sys cw nlink ps insize = None ->
  safe_plan pt pd it s0 (apply_plan pt pd it iin (apply_decision st lst reg same sys cw nlink ps insize) insize ps).
Proof. exact C13.StratProofs.apply_not_inplace_safe. Qed.
(* the exemption is needed: in place is not crash safe *)
Theorem inplace_torn_refuted :
  exists ps size k,
    apply_decision true true true true true true 1 ps 2 = Some size /\
    let pl := inplace_plan 3 1 10 ps size in
    let s := scrash k pl s_demo in
    sread s 1 <> sread s_demo 1 /\ sread s 1 <> sread (srun (ops_of pl) s_demo) 1.
Proof. exact C13.StratProofs.inplace_torn_refuted. Qed.

(* --- WriteAny: "-" is standard output (no file is touched); special files are written directly; everything else,
   including a symbolic link to a regular file and a dangling link, gets the protocol --- *)
Theorem stdout_no_file_effect : forall pt pd prims k s0,
  forallb stdout_prim_ok prims = true ->
  let s := scrash k (stdout_plan pt pd prims) s0 in
  (forall q, dirent s q = dirent s0 q) /\ (forall i, idata s i = idata s0 i).
Proof. exact C13.StratProofs.stdout_no_file_effect. Qed.
Theorem writeany_dash : forall s pd, writeany_strategy true s pd = 0.
Proof. exact C13.StratProofs.writeany_dash. Qed.
Theorem writeany_atomic_iff : forall s pd, writeany_strategy false s pd = 2 <-> dest_is_special s pd = false.
Proof. exact C13.StratProofs.writeany_atomic_iff. Qed.
Theorem dest_special_iff : forall s pd,
  dest_is_special s pd = true <->
  dirent s pd = Some ESpecial \/
  exists q, dirent s pd = Some (ELink q) /\ (dirent s q = Some ESpecial \/ exists q', dirent s q = Some (ELink q')).
Proof. exact C13.StratProofs.dest_special_iff. Qed.
Theorem temp_naming : temp_in_dest_dir && temp_prefix_base_tmp && commit_renames_temp && commit_renames_to_dest && close_removes_temp = true.
Proof. exact C13.StratProofs.temp_naming. Qed.

(* --- sequential signings to one destination: the next one sees the complete output of the previous one, and killed at any
   point leaves that or its own complete output --- *)
Theorem history_complete : forall pd jobs j s0,
  jobs_ok pd (jobs ++ [j]) s0 ->
  sread (run_jobs (jobs ++ [j]) s0) pd = Some (job_content j (run_jobs jobs s0)).
Proof. exact C13.FsProofs.history_complete. Qed.
Theorem history_crash : forall pd jobs j s0 k,
  jobs_ok pd (jobs ++ [j]) s0 ->
  let s1 := run_jobs jobs s0 in
  let s := scrash k (j_plan j) s1 in
  spec_dest_old_or_new pd (job_content j s1) s1 s /\ spec_dest_not_lost pd s1 s /\ spec_inodes_untouched (j_it j) s1 s.
Proof. exact C13.FsProofs.history_crash. Qed.

(* --- the one way a temporary can stay behind after a handled error: the unlink in the error handler fails too --- *)
Theorem cleanup_unlink_failure_refuted :
  exists n, dirent (fault_unlink_fails n 0 (whole_plan 3 2 20 [[5]]) s_demo) 3 <> None /\
            dirent (fault n 0 (whole_plan 3 2 20 [[5]]) s_demo) 3 = None.
Proof. exact C13.StratProofs.cleanup_unlink_failure_refuted. Qed.

(* --- two ways out of the protocol, each with a witness --- *)
(* a data call whose failure is dropped (MergeClearSign's deferred Flush, before relic 168ab2b): when it fails the code goes on
   and commits a file that is neither the previous nor the complete new content; on the current source the flag is false *)
Theorem dropped_flush_refuted :
  exists io n,
    let pl := pgp_plan_gen 3 2 20 true false true io in
    check 3 2 20 0 pl = None /\
    (exists st, nth_error pl n = Some st /\ p_onerr st = Ignore) /\
    let s := fault n 0 pl s_demo in
    sread s 2 <> sread s_demo 2 /\ sread s 2 <> sread (srun (ops_of pl) s_demo) 2.
Proof. exact C13.StratProofs.dropped_flush_refuted. Qed.
Theorem flush_not_dropped : clearsign_flush_dropped = false.
Proof. exact C13.StratProofs.flush_not_dropped. Qed.
(* pe-coff from the command line: Apply commits by rename, THEN the destination is opened read-write and the checksum written
   into it (cmdline/*/signcmd.go, FixPEChecksum): not a protocol run, and killed before that last write the destination is
   neither the previous nor the final content.  Recorded finding C13:fixup-after-commit:pe-checksum. *)
Theorem fixup_not_protocol : forall pt pd it iin insize ps nreads off cksum,
  check pt pd it 0 (pe_sign_plan pt pd it iin insize ps nreads off cksum) = None.
Proof. exact C13.StratProofs.fixup_not_protocol. Qed.
Theorem pe_fixup_refuted :
  exists ps nreads off cksum k,
    let pl := pe_sign_plan 3 2 20 10 2 ps nreads off cksum in
    let s := scrash k pl s_demo in
    sread s 2 <> sread s_demo 2 /\ sread s 2 <> sread (srun (ops_of pl) s_demo) 2.
Proof. exact C13.StratProofs.pe_fixup_refuted. Qed.

(* --- non-vacuity --- *)
Example fresh_demo : fresh 3 20 s_demo /\ (3 <> 2).
Proof.
  split; [|discriminate]. repeat split.
  - intros q. cbn. repeat match goal with |- context [if ?c then _ else _] => destruct c end; discriminate.
  - intros q. cbn. repeat match goal with |- context [if ?c then _ else _] => destruct c end; discriminate.
Qed.
Example safe_demo : safe_plan 3 2 20 s_demo (rewrite_plan 3 2 20 10 2 [mkPatch 1 1 [9; 9]]).
Proof. destruct fresh_demo as [F N]. apply rewrite_safe; assumption. Qed.
(* destination = the input itself (sign in place by rewrite), a symbolic link, absent *)
Definition s_link : fsys :=
  mkFsys (fun q => if q =? 1 then Some (EFile 10) else if q =? 2 then Some (ELink 5) else if q =? 5 then Some (EFile 11) else None)
         (fun i => if i =? 10 then [1; 2] else if i =? 11 then [7] else []) [].
Example same_path_demo : safe_plan 3 1 20 s_demo (rewrite_plan 3 1 20 10 2 [mkPatch 1 0 [9]]) /\
  sread (srun (ops_of (rewrite_plan 3 1 20 10 2 [mkPatch 1 0 [9]])) s_demo) 1 = Some [1; 9; 2] /\
  idata (srun (ops_of (rewrite_plan 3 1 20 10 2 [mkPatch 1 0 [9]])) s_demo) 10 = [1; 2].
Proof.
  split; [|split; reflexivity]. apply rewrite_safe; [discriminate|]. repeat split.
  - intros q. cbn. repeat match goal with |- context [if ?c then _ else _] => destruct c end; discriminate.
  - intros q. cbn. repeat match goal with |- context [if ?c then _ else _] => destruct c end; discriminate.
Qed.
Example symlink_demo : safe_plan 3 2 20 s_link (whole_plan 3 2 20 [[4]; [5]]) /\
  sread s_link 2 = Some [7] /\
  sread (srun (ops_of (whole_plan 3 2 20 [[4]; [5]])) s_link) 2 = Some [4; 5] /\
  sread (srun (ops_of (whole_plan 3 2 20 [[4]; [5]])) s_link) 5 = Some [7].
Proof.
  split; [|repeat split; reflexivity]. apply whole_safe; [discriminate|]. repeat split.
  - intros q. cbn. repeat match goal with |- context [if ?c then _ else _] => destruct c end; discriminate.
  - intros q. cbn. repeat match goal with |- context [if ?c then _ else _] => destruct c end; discriminate.
Qed.
Example natural_failures_demo :
  natural_fault (rewrite_plan 3 2 20 10 2 [mkPatch 1 0 [9]; mkPatch 0 0 [8]]) <> None /\
  natural_fault (rewrite_plan 3 2 20 10 2 [mkPatch 5 0 [9]]) <> None /\
  natural_fault (rewrite_plan 3 2 20 10 2 [mkPatch 1 1 [9]]) = None.
Proof. exact C13.StratProofs.rewrite_natural_failures. Qed.
Example shape_demo : shape_ok [mkPatch 0 1 [9]; mkPatch 1 1 [8; 8]] 2 /\ ~ shape_ok [mkPatch 0 1 [9; 9]; mkPatch 1 1 [8]] 2.
Proof. split; [cbn; split; [reflexivity|right; reflexivity]|cbn; intros [H _]; discriminate]. Qed.
Example two_signings_demo :
  jobs_ok 2 ([mkJob 3 20 (whole_plan 3 2 20 [[5]])] ++ [mkJob 4 21 (rewrite_plan 4 2 21 20 1 [mkPatch 1 0 [6]])]) s_demo /\
  sread (run_jobs [mkJob 3 20 (whole_plan 3 2 20 [[5]]); mkJob 4 21 (rewrite_plan 4 2 21 20 1 [mkPatch 1 0 [6]])] s_demo) 2 = Some [5; 6].
Proof.
  split; [|reflexivity]. cbn [app jobs_ok j_pt j_it j_plan]. destruct fresh_demo as [F _].
  split; [discriminate|]. split; [exact F|]. split; [apply whole_protocol|].
  split; [discriminate|]. split; [|split; [apply rewrite_protocol|exact I]].
  repeat split.
  - intros q. cbn. repeat match goal with |- context [if ?c then _ else _] => destruct c end; discriminate.
  - intros q. cbn. repeat match goal with |- context [if ?c then _ else _] => destruct c end; discriminate.
Qed.

(* ===================================================================================================================
   Session 5: the open phase (atomicfile.WriteAny / atomicfile.New as generated decision trees, C13/Stage.v) under every
   environment of failing calls; what happens when the sibling temporary cannot be created.
   =================================================================================================================== *)
From Relic Require Import C13.Stage C13.StageProofs.

(* New is one call - the exclusive creation of the sibling - and returns its error; WriteAny on a destination that is neither
   "-" nor special is isSpecial's stat followed by New, whatever else would fail in the environment *)
Theorem new_result_cases : forall e,
  new_result e = ([EvOpen 1 1 194 (f_temp e)], (if f_temp e then RNil else RAtomic), f_temp e).
Proof. exact C13.StageProofs.new_result_cases. Qed.
Theorem writeany_result_cases : forall e, staged e ->
  writeany_result e = ([EvStat; EvOpen 1 1 194 (f_temp e)], (if f_temp e then RNil else RAtomic), f_temp e).
Proof. exact C13.StageProofs.writeany_result_cases. Qed.
(* when the temporary cannot be created: no handle, the error is returned, and the only calls made were the stat and the
   failed creation *)
Theorem stage_failure_returns_error : forall e, staged e -> f_temp e = true ->
  o_handle (writeany_result e) = RNil /\ o_err (writeany_result e) = true /\
  fail_aborts writeany_result e 1 = true /\
  forall pt pd it idest, map (ev_op pt pd it idest) (o_events (writeany_result e)) = [SNop K_STAT_DEST; SCreate pt it].
Proof. exact C13.StageProofs.stage_failure_returns_error. Qed.
Theorem temp_failure_always_aborts : forall e, staged e -> fail_aborts writeany_result e 1 = true /\ fail_aborts new_result e 1 = true.
Proof. exact C13.StageProofs.temp_failure_always_aborts. Qed.
(* in no environment does WriteAny (non-special destination) or New open, truncate, create or remove the destination itself *)
Theorem writeany_never_touches_dest : forall e, e_special e = false ->
  existsb ev_touches_dest (o_events (writeany_result e)) = false.
Proof. exact C13.StageProofs.writeany_never_touches_dest. Qed.
Theorem new_never_touches_dest : forall e, existsb ev_touches_dest (o_events (new_result e)) = false.
Proof. exact C13.StageProofs.new_never_touches_dest. Qed.
Theorem callers_os_calls_reviewed : whole_os_calls = [] /\ pgp_os_calls = [0] /\ writefile_os_calls = [].
Proof. exact C13.StageProofs.callers_os_calls_reviewed. Qed.

(* the protocol checker accepts no plan with a direct access to the destination: every step of an accepted plan is a call
   without effect, the creation of the temporary, a data call on the temporary's inode, or the final rename *)
Theorem protocol_rejects_direct : forall pt pd it pl ph ph',
  check pt pd it ph pl = Some ph' -> forall st, In st pl -> direct_op pt pd it (p_op st) = false.
Proof. exact C13.StageProofs.protocol_rejects_direct. Qed.
Theorem open_of_dest_rejected : forall pt pd it pl st p i c t,
  In st pl -> p_op st = SOpen p i c t -> check pt pd it 0 pl = None.
Proof. exact C13.StageProofs.open_of_dest_rejected. Qed.
Theorem write_to_dest_rejected : forall pt pd it pl st j d,
  In st pl -> p_op st = SWrite j d -> j <> it -> check pt pd it 0 pl = None.
Proof. exact C13.StageProofs.write_to_dest_rejected. Qed.

(* a run in which the temporary cannot be created, for every strategy, every environment, every destination and content: the
   creation is the step that fails by itself, its error ends the output phase, and at the end as well as at every instant up
   to it every name reads as before, no directory entry and no inode differs, no temporary exists; the plan as a whole is a
   protocol run (nothing in it opens or writes the destination) *)
Theorem whole_stage_failure : forall pt pd it s0 e idest, staged e -> f_temp e = true ->
  forall writes, stage_failure_ok pt pd it s0 (whole_plan_e pt pd it e idest writes).
Proof. exact C13.StageProofs.whole_stage_failure. Qed.
Theorem writefile_stage_failure : forall pt pd it s0 e idest, staged e -> f_temp e = true ->
  forall data, stage_failure_ok pt pd it s0 (writefile_plan_e pt pd it e idest data).
Proof. exact C13.StageProofs.writefile_stage_failure. Qed.
Theorem pgp_stage_failure : forall pt pd it s0 e idest, staged e -> f_temp e = true ->
  forall inline clearsign io, stage_failure_ok pt pd it s0 (pgp_plan_e pt pd it e idest inline clearsign io).
Proof. exact C13.StageProofs.pgp_stage_failure. Qed.
Theorem rewrite_stage_failure : forall pt pd it iin s0 e, f_temp e = true ->
  forall insize ps, stage_failure_ok pt pd it s0 (rewrite_plan_e pt pd it iin e insize ps).
Proof. exact C13.StageProofs.rewrite_stage_failure. Qed.
Theorem msi_stage_failure : forall pt pd it iin s0 e, f_temp e = true ->
  forall insize nreads e1 e2, stage_failure_ok pt pd it s0 (msi_plan_e pt pd it iin e insize nreads e1 e2).
Proof. exact C13.StageProofs.msi_stage_failure. Qed.

(* every environment: each strategy is a safe plan (crash at any call, completion, an error at any call, failures by itself) *)
Theorem whole_safe_e : forall pt pd it s0, pt <> pd -> fresh pt it s0 -> forall e idest, staged e ->
  forall writes, safe_plan pt pd it s0 (whole_plan_e pt pd it e idest writes).
Proof. exact C13.StageProofs.whole_safe_e. Qed.
Theorem writefile_safe_e : forall pt pd it s0, pt <> pd -> fresh pt it s0 -> forall e idest, staged e ->
  forall data, safe_plan pt pd it s0 (writefile_plan_e pt pd it e idest data).
Proof. exact C13.StageProofs.writefile_safe_e. Qed.
Theorem pgp_safe_e : forall pt pd it s0, pt <> pd -> fresh pt it s0 -> forall e idest, staged e ->
  forall inline clearsign io, safe_plan pt pd it s0 (pgp_plan_e pt pd it e idest inline clearsign io).
Proof. exact C13.StageProofs.pgp_safe_e. Qed.
Theorem rewrite_safe_e : forall pt pd it iin s0, pt <> pd -> fresh pt it s0 -> forall e,
  forall insize ps, safe_plan pt pd it s0 (rewrite_plan_e pt pd it iin e insize ps).
Proof. exact C13.StageProofs.rewrite_safe_e. Qed.
Theorem msi_safe_e : forall pt pd it iin s0, pt <> pd -> fresh pt it s0 -> forall e,
  forall insize nreads e1 e2, safe_plan pt pd it s0 (msi_plan_e pt pd it iin e insize nreads e1 e2).
Proof. exact C13.StageProofs.msi_safe_e. Qed.

(* the design that is not the protocol: WriteAny falling back to open(dest, O_WRONLY|O_CREATE|O_TRUNC) when the sibling cannot be
   created.  Rejected by the checker; killed after the open an empty file stands where a complete one existed; killed between
   two writes the destination is neither the previous nor the new content; with an absent destination a partial file appears;
   a handled error leaves the torn file behind *)
Theorem fallback_refuted :
  fail_aborts (writeany_result_t fallback_tree new_tree) (env_ok false false) 1 = false /\
  existsb ev_touches_dest (o_events (writeany_result_t fallback_tree new_tree e_temp_fails)) = true /\
  check 3 2 20 0 (fb_plan 11) = None /\
  (exists k, sread (scrash k (fb_plan 11) s_demo) 2 = Some []) /\
  (exists k, let s := scrash k (fb_plan 11) s_demo in
             sread s 2 <> sread s_demo 2 /\ sread s 2 <> sread (srun (ops_of (fb_plan 11)) s_demo) 2 /\ sread s 2 = Some [5]) /\
  (exists k, sread s_absent 2 = None /\ sread (scrash k (fb_plan 21) s_absent) 2 = Some [5] /\
             sread (srun (ops_of (fb_plan 21)) s_absent) 2 = Some [5; 6]) /\
  (exists n st, nth_error (fb_plan 11) n = Some st /\ p_onerr st = Abort /\ sread (fault n 0 (fb_plan 11) s_demo) 2 = Some [5]).
Proof. exact C13.StageProofs.fallback_refuted. Qed.

(* --- non-vacuity --- *)
Example staged_env_demo : staged e_temp_fails /\ f_temp e_temp_fails = true /\ staged (env_ok false false) /\ f_temp (env_ok false false) = false.
Proof. repeat split. Qed.
(* a concrete run in which the creation fails: destination name 2 (content [7]) of s_demo, two writes *)
Example stage_failure_demo :
  stage_failure_ok 3 2 20 s_demo (whole_plan_e 3 2 20 e_temp_fails 11 [[5]; [6]]) /\
  natural_fault (whole_plan_e 3 2 20 e_temp_fails 11 [[5]; [6]]) = Some 1%nat /\
  sread (outcome (whole_plan_e 3 2 20 e_temp_fails 11 [[5]; [6]]) s_demo) 2 = Some [7] /\
  (* and without the failure the same strategy completes with the new content *)
  natural_fault (whole_plan_e 3 2 20 (env_ok false false) 11 [[5]; [6]]) = None /\
  sread (outcome (whole_plan_e 3 2 20 (env_ok false false) 11 [[5]; [6]]) s_demo) 2 = Some [5; 6].
Proof.
  split; [apply whole_stage_failure; repeat split|]. repeat split; vm_compute; reflexivity.
Qed.
Example source_trees_accepted : check 3 2 20 0 (whole_plan_t 3 2 20 writeany_tree new_tree e_temp_fails 11 [[5]; [6]]) = Some 2%nat.
Proof. exact C13.StageProofs.source_trees_accepted. Qed.
(* the checker's rejection is about real plans: a plan that opens the destination *)
Example direct_open_demo : check 3 2 20 0 [mkP (SOpen 2 11 true true) Abort [] false] = None /\
  direct_op 3 2 20 (SOpen 2 11 true true) = true /\ direct_op 3 2 20 (SWrite 11 [5]) = true /\ direct_op 3 2 20 (SWrite 20 [5]) = false.
Proof. repeat split. Qed.
