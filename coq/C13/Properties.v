(* C13/Properties.v — property theorems only. *)
From Relic Require Import Base.Prelude Generated.C13_gen C13.Model C13.Proofs.

(* killing the process after any number k of file-system operations of the output phase leaves the destination with
   its complete previous content or the complete new content, never missing where one existed, and the input unmodified *)
Theorem crash_safe : forall inp old writes edits k,
  let ops := success_ops writes edits in
  let s := crash k ops (mkFs inp old None) in
  (f_dest s = old \/ f_dest s = Some (final_content writes edits)) /\
  (old <> None -> f_dest s <> None) /\
  f_input s = inp.
Proof. exact C13.Proofs.crash_safe. Qed.

(* normal completion: new content in place, no temporary left *)
Theorem complete_run : forall inp old writes edits,
  run_ops (success_ops writes edits) (mkFs inp old None) = mkFs inp (Some (final_content writes edits)) None.
Proof. exact C13.Proofs.complete_run. Qed.

(* handled error in any of the strategies (each defers Close): destination untouched, no temporary left *)
Theorem handled_error_clean : forall inp old writes edits,
  run_ops (error_ops true writes edits) (mkFs inp old None) = mkFs inp old None.
Proof. exact C13.Proofs.handled_error_clean. Qed.
Theorem all_strategies_defer_close : forallb (fun b => b) strategies_defer_close = true.
Proof. exact C13.Proofs.all_strategies_defer_close. Qed.

(* the commit sequence the source implements (generated call table) *)
Theorem commit_sequence : commit_ops = [Chmod; CloseF; Rename].
Proof. exact C13.Proofs.commit_ops_eq. Qed.

(* why the order matters: removing the destination before the rename is refuted *)
Theorem remove_first_refuted :
  exists k, f_dest (crash k ([CreateTemp; Write [1]] ++ [Chmod; CloseF; RemoveDest; Rename]) (mkFs [] (Some [0]) None)) = None.
Proof. exact C13.Proofs.remove_first_refuted. Qed.
