(* C13/Strategies.v — the output strategies of relic as plans, assembled from the scripts, call tables and decisions that
   srcgen extracts from lib/atomicfile, lib/binpatch, signers/transform.go, signers/msi and signers/pgp.
   A script entry is (callee, error handling kind, loop depth, enclosing plain-if branches); see gen_c13.go.
   What a library call does in system calls (io.Copy -> write / copy_file_range, File.Seek -> lseek, ...) is written
   here by hand and compared with the traced system calls of the real code on every run. *)
From Relic Require Import Base.Prelude Generated.C13_gen C13.Fs C13.Stage.
From Relic Require C13.Model.

Definition sentry := (Z * Z * Z * list Z)%type.
Definition e_callee (e : sentry) : Z := let '(c, _, _, _) := e in c.
Definition e_kind (e : sentry) : Z := let '(_, k, _, _) := e in k.
Definition e_depth (e : sentry) : Z := let '(_, _, d, _) := e in d.
Definition e_cnd (e : sentry) : list Z := let '(_, _, _, c) := e in c.

Fixpoint take_while {A} (f : A -> bool) (l : list A) : list A :=
  match l with [] => [] | x :: r => if f x then x :: take_while f r else [] end.
Fixpoint drop_while {A} (f : A -> bool) (l : list A) : list A :=
  match l with [] => [] | x :: r => if f x then drop_while f r else l end.
Definition in_loop (e : sentry) : bool := 0 <? e_depth e.
Definition sc_pre (sc : list sentry) := take_while (fun e => negb (in_loop e)) sc.
Definition sc_body (sc : list sentry) := take_while in_loop (drop_while (fun e => negb (in_loop e)) sc).
Definition sc_post (sc : list sentry) := drop_while in_loop (drop_while (fun e => negb (in_loop e)) sc).
Definition script_kind (sc : list sentry) (c : Z) : Z :=
  match find (fun e => e_callee e =? c) sc with Some e => e_kind e | None => 0 end.

(* kind 0 / 5: the error result is dropped; 6: it is turned into an ordinary result; everything else returns it to the caller *)
Definition kind_onerr (k : Z) : onerr := if (k =? 0) || (k =? 5) || (k =? 6) then Ignore else Abort.
Definition combine_kind (inner outer : Z) : Z := if (inner =? 0) || (inner =? 5) || (inner =? 6) then 0 else outer.

Record patch := mkPatch { p_off : Z; p_old : Z; p_blob : bytes }.
Inductive edit := EW (off : Z) (d : bytes) | ET (n : Z).
(* what a PGP merge does, call by call: read the input, move the input's offset (getSize), write to the output *)
(* MWriteLast: the write of the last armor line, whose error go-crypto's armor encoder drops (relic's sticky writer, 7cc610c,
   remembers it) *)
Inductive mio := MRead | MSeek | MWrite (d : bytes) | MWriteLast (d : bytes).

Section Build.
Variables (pt pd : path) (it iin : ino).

(* atomicFile.Close: close the descriptor (no system call when it is closed already), unlink the temporary *)
Definition close_sops (fd_open : bool) (e : sentry) : list sop :=
  if e_callee e =? 0 then (if fd_open then [SNop K_CLOSE_TMP] else [])
  else if e_callee e =? 1 then [SUnlink (if close_removes_temp then pt else pd)]
  else [].
(* what runs when the function gives up: the deferred (or explicit) Close, if there is one at that point *)
Definition cleanup_ops (armed fd_open : bool) : list sop :=
  if armed then flat_map (close_sops fd_open) close_script else [].

(* a primitive: (system call, its failure is swallowed inside the callee, it fails by itself on these inputs) *)
Definition prim := (sop * bool * bool)%type.
Definition mk_steps (armed : bool) (kind : Z) (l : list prim) : list pstep :=
  map (fun x : prim => let '(o, ign, nf) := x in
         mkP o (if ign then Ignore else kind_onerr kind) (cleanup_ops (armed || (kind =? 2)) true) nf) l.
Definition nested (outer : Z) (l : list pstep) : list pstep :=
  match kind_onerr outer with
  | Abort => l
  | Ignore => map (fun st => mkP (p_op st) Ignore (p_cleanup st) (p_natfail st)) l
  end.

(* ---- atomicFile.Commit: the calls of the generated table up to the first rename (POSIX), error handling from its script *)
Definition commit_ids : list Z :=
  if commit_fallback_guard false then Model.through_first_rename commit_calls else commit_calls.
Definition commit_sop (i : Z) : sop :=
  if i =? 0 then SNop K_CHMOD else if i =? 1 then SNop K_CLOSE_TMP else if i =? 2 then SUnlink pd
  else SRename (if commit_renames_temp then pt else pd) (if commit_renames_to_dest then pd else pt).
Definition commit_onerr (i : Z) : onerr :=
  let k := script_kind commit_script i in
  if k =? 3 then (if commit_fallback_guard false then Abort else Ignore) else kind_onerr k.
(* `f.File = nil` makes a later Close a no-op: a step of Commit that comes after that statement has no clean-up any more *)
Fixpoint disarmed_before (sc : list sentry) (c : Z) : bool :=
  match sc with
  | [] => false
  | e :: r => if e_callee e =? c then false else if e_kind e =? 7 then true else disarmed_before r c
  end.
Fixpoint commit_steps (armed fd_open : bool) (ids : list Z) : list pstep :=
  match ids with
  | [] => []
  | i :: r => let fd' := fd_open && negb (i =? 1) in
              mkP (commit_sop i) (commit_onerr i) (cleanup_ops (armed && negb (disarmed_before commit_script i)) fd') false
              :: commit_steps armed fd' r
  end.
Definition commit_plan (armed : bool) : list pstep := commit_steps armed true commit_ids.

(* ---- a script, entry by entry: a deferred Close arms the clean-up for everything after it; Commit expands to the above *)
Fixpoint interp (env : Z -> bool -> Z -> list pstep) (guard : Z -> bool) (close_c commit_c : Z) (armed : bool)
         (es : list sentry) : list pstep :=
  match es with
  | [] => []
  | e :: r =>
      if negb (forallb guard (e_cnd e)) then interp env guard close_c commit_c armed r
      else if e_kind e =? 9 then interp env guard close_c commit_c (armed || (e_callee e =? close_c)) r
      else if e_callee e =? commit_c then commit_plan armed ++ interp env guard close_c commit_c armed r
      else env (e_callee e) armed (e_kind e) ++ interp env guard close_c commit_c armed r
  end.
Fixpoint armed_after (guard : Z -> bool) (close_c : Z) (armed : bool) (es : list sentry) : bool :=
  match es with
  | [] => armed
  | e :: r => armed_after guard close_c
                (if forallb guard (e_cnd e) && (e_kind e =? 9) && (e_callee e =? close_c) then true else armed) r
  end.

(* atomicfile.New / atomicfile.WriteAny: one step per file-system call the generated decision tree makes in environment e
   (C13/Stage.v).  A call that fails in e is a step that fails by itself; its failure ends the output phase (handled as the
   caller handles WriteAny's / New's error: `outer`) when the tree stops there and returns an error, and is "ignored" when the
   tree goes on (another call, a handle returned with a nil error).  idest: the inode behind the destination name (or the
   one a creating open of the destination itself would make) *)
Fixpoint open_steps_from (run : oenv -> ores) (e : oenv) (idest : ino) (armed : bool) (outer : Z) (r : ores) (evs : list oev) : list pstep :=
  match evs with
  | [] => []
  | ev :: rest =>
      (* a call that failed ends the phase when nothing follows it and the function returns an error and no handle; for a call
         that succeeded: what the function would do had it failed *)
      let ends_here := match rest with [] => o_err r && (mode_of (o_handle r) =? -1) | _ :: _ => false end in
      mkP (ev_op pt pd it idest ev)
          (match ev with
           | EvStat => Ignore      (* isSpecial: a failing stat means "not special" *)
           | EvOpen fn _ _ failed => if (if failed then ends_here else fail_aborts run e fn) then kind_onerr outer else Ignore
           end)
          (cleanup_ops (armed || (outer =? 2)) true) (ev_failed ev)
      :: open_steps_from run e idest armed outer r rest
  end.
Definition open_steps (run : oenv -> ores) (e : oenv) (idest : ino) (armed : bool) (outer : Z) : list pstep :=
  open_steps_from run e idest armed outer (run e) (o_events (run e)).
Definition new_steps_e (e : oenv) (idest : ino) (armed : bool) (outer : Z) : list pstep := open_steps new_result e idest armed outer.
Definition writeany_steps_e (e : oenv) (idest : ino) (armed : bool) (outer : Z) : list pstep := open_steps writeany_result e idest armed outer.
Definition new_steps (armed : bool) (outer : Z) : list pstep := new_steps_e (env_ok false false) it armed outer.
Definition writeany_steps (armed : bool) (outer : Z) : list pstep := writeany_steps_e (env_ok false false) it armed outer.

(* when the handle is not the write-rename object but the destination itself (nopAtomic: what WriteAny hands out for special
   files): the same calls of the caller, on the destination's inode; Commit is Close, Close removes nothing *)
Definition retarget_op (idest : ino) (o : sop) : option sop :=
  match o with
  | SWrite i d => Some (SWrite (if i =? it then idest else i) d)
  | SPWrite i off d => Some (SPWrite (if i =? it then idest else i) off d)
  | STrunc i n => Some (STrunc (if i =? it then idest else i) n)
  | SCopy src dst off n => Some (SCopy src (if dst =? it then idest else dst) off n)
  | SNop k => if k =? K_CHMOD then None else Some (SNop (if k =? K_CLOSE_TMP then K_CLOSE_DEST else k))
  | SRename _ _ => None
  | SUnlink p => if p =? pt then None else Some o
  | _ => Some o
  end.
Definition retarget_list (idest : ino) (l : list sop) : list sop :=
  flat_map (fun o => match retarget_op idest o with Some o' => [o'] | None => [] end) l.
Definition direct_of (idest : ino) (pl : list pstep) : list pstep :=
  flat_map (fun st => match retarget_op idest (p_op st) with
                      | Some o => [mkP o (p_onerr st) (retarget_list idest (p_cleanup st)) (p_natfail st)]
                      | None => []
                      end) pl.
Definition finish_plan (h : rh) (idest : ino) (pl : list pstep) : list pstep :=
  match h with RDirect _ _ _ _ => direct_of idest pl | _ => pl end.

(* ================================================================== whole-file write (fileProducer.Apply, not a patch) *)
Definition whole_env (e : oenv) (idest : ino) (writes : list bytes) (c : Z) (armed : bool) (k : Z) : list pstep :=
  if c =? 0 then writeany_steps_e e idest armed k
  else if c =? 2 then mk_steps armed k (map (fun d => (SWrite it d, false, false)) writes)
  else if c =? 3 then mk_steps armed k [(SNop K_CLOSE_IN, false, false)]
  else [].
Definition whole_guard (is_patch : bool) (id : Z) : bool := if id =? 2 then is_patch else true.
Definition whole_plan_e (e : oenv) (idest : ino) (writes : list bytes) : list pstep :=
  finish_plan (o_handle (writeany_result e)) idest (interp (whole_env e idest writes) (whole_guard false) 1 4 false whole_script).
Definition whole_plan (writes : list bytes) : list pstep := whole_plan_e (env_ok false false) it writes.

(* atomicfile.WriteFile *)
Definition writefile_env (e : oenv) (idest : ino) (data : bytes) (c : Z) (armed : bool) (k : Z) : list pstep :=
  if c =? 0 then writeany_steps_e e idest armed k
  else if c =? 2 then mk_steps armed k [(SWrite it data, false, false)]
  else [].
Definition writefile_plan_e (e : oenv) (idest : ino) (data : bytes) : list pstep :=
  finish_plan (o_handle (writeany_result e)) idest (interp (writefile_env e idest data) (fun _ => true) 1 3 false writefile_script).
Definition writefile_plan (data : bytes) : list pstep := writefile_plan_e (env_ok false false) it data.

(* ================================================================== patch by rewrite (PatchSet.applyRewrite) *)
Definition rw_delta (pos : Z) (p : patch) : Z := rewrite_delta (p_off p) pos.
Definition rw_next (pos : Z) (p : patch) : Z :=
  (if rewrite_copy_before (rw_delta pos p) then pos + rw_delta pos p else pos) + rewrite_skip (p_old p).
Definition rw_env (e : oenv) (insize pos : Z) (po : option patch) (c : Z) (armed : bool) (k : Z) : list pstep :=
  if c =? 0 then mk_steps armed k [(SNop K_SEEK_IN, false, false)]
  else if c =? 1 then new_steps_e e it armed k
  else if c =? 5 then mk_steps armed k [(SCopy iin it pos (Z.max 0 (insize - pos)), false, false)]
  else if c =? 6 then mk_steps armed k [(SNop K_CLOSE_IN, false, false)]
  else match po with
       | None => []
       | Some p =>
           if c =? 3 then mk_steps armed k [(SCopy iin it pos (rw_delta pos p), false, insize <? pos + rw_delta pos p)]
           else if c =? 4 then mk_steps armed k [(SWrite it (p_blob p), false, false)]
           else if c =? 8 then mk_steps armed k [(SNop K_CHECK, false, rewrite_out_of_order (rw_delta pos p))]
           else []
       end.
(* plain ifs of applyRewrite: #1 `delta < 0` (the check is a step of every iteration that fails by itself when out of
   order), #2 `delta > 0` around CopyN *)
Definition rw_guard (pos : Z) (po : option patch) (id : Z) : bool :=
  if id =? 4 then match po with Some p => rewrite_copy_before (rw_delta pos p) | None => true end else true.
Fixpoint rw_loop (e : oenv) (insize : Z) (armed : bool) (body : list sentry) (pos : Z) (ps : list patch) : list pstep * Z :=
  match ps with
  | [] => ([], pos)
  | p :: r => let '(l, pos') := rw_loop e insize armed body (rw_next pos p) r in
              (interp (rw_env e insize pos (Some p)) (rw_guard pos (Some p)) 2 7 armed body ++ l, pos')
  end.
Definition rewrite_plan_e (e : oenv) (insize : Z) (ps : list patch) : list pstep :=
  let g := rw_guard 0 None in
  let pre := sc_pre rewrite_script in
  let armed := armed_after g 2 false pre in
  let '(loop, pos) := rw_loop e insize armed (sc_body rewrite_script) 0 ps in
  interp (rw_env e insize 0 None) g 2 7 false pre ++ loop ++ interp (rw_env e insize pos None) g 2 7 armed (sc_post rewrite_script).
Definition rewrite_plan (insize : Z) (ps : list patch) : list pstep := rewrite_plan_e (env_ok false false) insize ps.

(* ================================================================== patch in place (PatchSet.Apply, the exempted strategy) *)
Definition inplace_plan (ps : list patch) (size : Z) : list pstep :=
  flat_map (fun p => mk_steps false (script_kind apply_inplace_script 0) [(SPWrite iin (p_off p) (p_blob p), false, false)]) ps
  ++ mk_steps false (script_kind apply_inplace_script 1) [(STrunc iin size, false, false)].

(* the eligibility loop of Apply: None = rewrite, Some size = in place with that final size *)
Fixpoint eligible_from (i n : Z) (ps : list patch) (in_size size : Z) : option Z :=
  match ps with
  | [] => Some size
  | p :: r =>
      if apply_same_size (p_old p) (zlen (p_blob p)) then eligible_from (i + 1) n r in_size size
      else if apply_not_last i n then None
      else if apply_not_at_eof (apply_old_end (p_off p) (p_old p)) in_size then None
      else eligible_from (i + 1) n r in_size (apply_new_size (p_off p) (zlen (p_blob p)))
  end.
(* Apply's decision from what Stat(infile) / Lstat(outpath) report *)
Definition apply_decision (stat_ok lstat_ok is_regular same_file sys_ok can_write : bool) (nlink : Z) (ps : list patch) (in_size : Z) : option Z :=
  if negb stat_ok then None
  else if apply_fallback_first (negb lstat_ok) (can_overwrite is_regular same_file (has_links sys_ok nlink)) can_write then None
  else eligible_from 0 (zlen ps) ps in_size in_size.
(* the same decision read off the file system: Lstat does not follow links *)
Definition apply_decision_fs (s : fsys) (can_write : bool) (nlink : Z) (ps : list patch) (in_size : Z) : option Z :=
  apply_decision true
    (match dirent s pd with Some _ => true | None => false end)
    (match dirent s pd with Some (EFile _) => true | _ => false end)
    (match dirent s pd with Some (EFile i) => i =? iin | _ => false end)
    true can_write nlink ps in_size.
Definition apply_plan_e (e : oenv) (d : option Z) (insize : Z) (ps : list patch) : list pstep :=
  mk_steps false 0 [(SNop K_FSTAT_IN, false, false); (SNop K_STAT_DEST, false, false)]
  ++ match d with Some size => inplace_plan ps size | None => rewrite_plan_e e insize ps end.
Definition apply_plan (d : option Z) (insize : Z) (ps : list patch) : list pstep := apply_plan_e (env_ok false false) d insize ps.

(* ================================================================== MSI: copy the input, edit the copy, commit *)
Definition edit_sop (e : edit) : sop := match e with EW off d => SPWrite it off d | ET n => STrunc it n end.
Definition wip_env (e : oenv) (insize : Z) (c : Z) (armed : bool) (k : Z) : list pstep :=
  if c =? 0 then new_steps_e e it armed k
  else if c =? 1 then mk_steps armed k [(SNop K_SEEK_IN, false, false)]
  else if c =? 2 then mk_steps armed k [(SCopy iin it 0 insize, false, false)]
  else if c =? 3 then mk_steps armed k [(SNop K_SEEK_TMP, false, false)]
  else if c =? 4 then mk_steps armed k [(SNop K_CLOSE_IN, false, false)]
  else [].
Definition wip_plan_e (e : oenv) (insize : Z) : list pstep :=
  interp (wip_env e insize) (fun _ => true) (-1) (-1) false writeinplace_script.
Definition wip_plan (insize : Z) : list pstep := wip_plan_e (env_ok false false) insize.
Definition msi_env (e : oenv) (insize nreads : Z) (edits1 edits2 : list edit) (c : Z) (armed : bool) (k : Z) : list pstep :=
  if c =? 1 then mk_steps armed k [(SNop K_READ_RESULT, false, false)]
  else if c =? 2 then nested k (wip_plan_e e insize)
  else if c =? 4 then mk_steps armed k (repeat (SNop K_PREAD_TMP, false, false) (Z.to_nat nreads))
  else if c =? 5 then mk_steps armed k (map (fun e => (edit_sop e, false, false)) edits1)
  else if c =? 6 then mk_steps armed k (map (fun e => (edit_sop e, false, false)) edits2)
  else [].
Definition msi_plan_e (e : oenv) (insize nreads : Z) (edits1 edits2 : list edit) : list pstep :=
  interp (msi_env e insize nreads edits1 edits2) (fun _ => true) 3 7 false msi_script.
Definition msi_plan (insize nreads : Z) (edits1 edits2 : list edit) : list pstep := msi_plan_e (env_ok false false) insize nreads edits1 edits2.
(* the same edits on the input itself when source and destination are the same name (exempted: in place) *)
Definition msi_inplace_plan (nreads : Z) (edits1 edits2 : list edit) : list pstep :=
  mk_steps false 1 (repeat (SNop K_PREAD_IN, false, false) (Z.to_nat nreads)) ++
  mk_steps false 1 (map (fun e => (match e with EW off d => SPWrite iin off d | ET n => STrunc iin n end, false, false)) (edits1 ++ edits2)) ++
  mk_steps false 0 [(SNop K_CLOSE_IN, false, false)].

(* ================================================================== PGP: detached signature copied, or merged with the input *)
(* getSize's Seeks (MergeSignature): the n-th one is handled as the n-th entry of getSize's script says - a failure of the
   first two means "size unknown" and the merge goes on, a failure of the one that restores the offset is returned (c64d907) *)
Definition getsize_seek_ignored (n : nat) : bool :=
  match nth_error getsize_script n with
  | Some e => match kind_onerr (e_kind e) with Ignore => true | Abort => false end
  | None => false
  end.
Definition mio_prim (drop_write : bool) (seekno : nat) (x : mio) : prim :=
  match x with
  | MRead => (SNop K_READ_IN, false, false)
  | MSeek => (SNop K_SEEK_IN, getsize_seek_ignored seekno, false)
  | MWrite d => (SWrite it d, drop_write, false)
  | MWriteLast d => (SWrite it d, drop_write || negb (armor_errors_sticky && armor_writes_through_sticky), false)
  end.
Definition next_seek (seekno : nat) (x : mio) : nat := match x with MSeek => S seekno | _ => seekno end.
Fixpoint merge_prims_from (seekno : nat) (io : list mio) : list prim :=
  match io with
  | [] => []
  | x :: r => mio_prim false seekno x :: merge_prims_from (next_seek seekno x) r
  end.
Definition merge_prims (io : list mio) : list prim := merge_prims_from 0 io.
Definition is_mwrite (x : mio) : bool := match x with MWrite _ | MWriteLast _ => true | _ => false end.
(* MergeClearSign writes through a bufio.Writer: the last write of the merge is its final Flush; `drop` = the error of that
   Flush is not returned (it was deferred until relic 168ab2b) *)
Fixpoint merge_prims_cs_from (drop : bool) (seekno : nat) (io : list mio) : list prim :=
  match io with
  | [] => []
  | x :: r => mio_prim (drop && is_mwrite x && negb (existsb is_mwrite r)) seekno x :: merge_prims_cs_from drop (next_seek seekno x) r
  end.
Definition merge_prims_cs (drop : bool) (io : list mio) : list prim := merge_prims_cs_from drop 0 io.
Definition pgp_env (e : oenv) (idest : ino) (drop : bool) (io : list mio) (c : Z) (armed : bool) (k : Z) : list pstep :=
  if c =? 0 then writeany_steps_e e idest armed k
  else if c =? 2 then mk_steps armed k [(SNop K_SEEK_IN, false, false)]
  else if c =? 3 then mk_steps armed k [(SNop K_READ_RESULT, false, false)]
  else if c =? 4 then mk_steps armed k (merge_prims_cs drop io)
  else if (c =? 5) || (c =? 6) then mk_steps armed k (merge_prims io)
  else if c =? 7 then mk_steps armed k [(SNop K_CLOSE_IN, false, false)]
  else [].
(* plain ifs of pgpTransformer.Apply: #1 inline||clearsign (then 2 / else 3), #2 clearsign (then 4 / else 5) *)
Definition pgp_guard (inline clearsign : bool) (id : Z) : bool :=
  if id =? 2 then pgp_merges inline clearsign
  else if id =? 3 then negb (pgp_merges inline clearsign)
  else if id =? 4 then pgp_merge_clearsign clearsign
  else if id =? 5 then negb (pgp_merge_clearsign clearsign)
  else true.
Definition pgp_plan_gen_e (e : oenv) (idest : ino) (drop inline clearsign : bool) (io : list mio) : list pstep :=
  finish_plan (o_handle (writeany_result e)) idest (interp (pgp_env e idest drop io) (pgp_guard inline clearsign) 1 8 false pgp_script).
Definition pgp_plan_gen (drop inline clearsign : bool) (io : list mio) : list pstep :=
  pgp_plan_gen_e (env_ok false false) it drop inline clearsign io.
(* is the error of MergeClearSign's final Flush dropped? (the call is deferred, or its result unused) *)
Definition clearsign_flush_dropped : bool :=
  let k := script_kind mergeclearsign_script 0 in (k =? 9) || (k =? 0) || (k =? 5).
Definition pgp_plan_e (e : oenv) (idest : ino) (inline clearsign : bool) (io : list mio) : list pstep :=
  pgp_plan_gen_e e idest clearsign_flush_dropped inline clearsign io.
Definition pgp_plan (inline clearsign : bool) (io : list mio) : list pstep :=
  pgp_plan_gen clearsign_flush_dropped inline clearsign io.

(* ================================================================== destination "-" : standard output, no file at all *)
(* prims: the writes to descriptor 1 (and reads / close of the input) in order; then nopAtomic.Commit (closes only when
   doClose) and the deferred Close, which closes descriptor 1 *)
Definition stdout_plan (prims : list prim) : list pstep :=
  mk_steps false 1 prims
  ++ mk_steps false 0 ((if nop_commit_closes false then [(SNop K_CLOSE_STDOUT, false, false)] else [])
                        ++ [(SNop K_CLOSE_STDOUT, false, false)]).
Definition stdout_prim_ok (x : prim) : bool :=
  match fst (fst x) with SNop _ | SStdout _ => true | _ => false end.

(* ================================================================== pe-coff: the command line fixes the checksum AFTER the commit *)
(* cmdline/{token,remotecmd}/signcmd.go: transform.Apply, then os.OpenFile(output, O_RDWR), then mod.Fixup (FixPEChecksum):
   seek, read the DOS header, seek, read everything, WriteAt the 4-byte checksum at peStart+88 *)
Definition fixup_follows_apply : bool :=
  list_eqb Z.eqb token_sign_calls [0; 1; 2] && list_eqb Z.eqb remote_sign_calls [0; 1; 2].
Definition fix_env (nreads off : Z) (cksum : bytes) (c : Z) (armed : bool) (k : Z) : list pstep :=
  if c =? 0 then mk_steps false k [(SNop K_SEEK_DEST, false, false)]
  else if c =? 1 then mk_steps false k [(SNop K_READ_DEST, false, false)]
  else if c =? 2 then mk_steps false k (repeat (SNop K_READ_DEST, false, false) (Z.to_nat nreads))
  else if c =? 3 then mk_steps false k [(SPWrite it off cksum, false, false)]
  else [].
Definition fixup_steps (nreads off : Z) (cksum : bytes) : list pstep :=
  if fixup_follows_apply
  then mk_steps false 1 [(SNop K_OPEN_DEST, false, false)] ++ interp (fix_env nreads off cksum) (fun _ => true) (-1) (-1) false fixpe_script
  else [].
Definition pe_sign_plan (insize : Z) (ps : list patch) (nreads off : Z) (cksum : bytes) : list pstep :=
  apply_plan None insize ps ++ fixup_steps nreads off cksum.

(* the same strategies over ANY pair of open-phase trees (used for the witness: the design with a fallback) *)
Definition whole_plan_t (wt nt : otree) (e : oenv) (idest : ino) (writes : list bytes) : list pstep :=
  let run := writeany_result_t wt nt in
  finish_plan (o_handle (run e)) idest
    (interp (fun c armed k => if c =? 0 then open_steps run e idest armed k else whole_env e idest writes c armed k)
            (whole_guard false) 1 4 false whole_script).
End Build.

(* WriteAny's choice as a function of the destination in the file system: os.Stat follows links *)
Definition dest_is_special (s : fsys) (pd : path) : bool :=
  let stat := match dirent s pd with
              | Some (EFile _) => Some true
              | Some (ELink q) => match dirent s q with Some (EFile _) => Some true | Some _ => Some false | None => None end
              | Some ESpecial => Some false
              | None => None
              end in
  is_special (match stat with Some _ => true | None => false end) (match stat with Some r => r | None => false end).
(* the inode a direct open of the destination reaches: the file behind the name, or the new one (fresh) it would create *)
Definition dest_inode (s : fsys) (pd : path) (fresh : ino) : ino := match resolve s pd with Some j => j | None => fresh end.
Definition writeany_strategy (is_dash : bool) (s : fsys) (pd : path) : Z :=
  fst (writeany_choice is_dash (dest_is_special s pd)).

(* the content each strategy is meant to produce (what "the complete new content" is) *)
Definition spec_whole (writes : list bytes) : bytes := concat writes.
Fixpoint spec_rewrite_from (inp : bytes) (pos : Z) (ps : list patch) : bytes :=
  match ps with
  | [] => zdrop pos inp
  | p :: r => (if rw_delta pos p >? 0 then zslice pos (p_off p) inp else []) ++ p_blob p ++ spec_rewrite_from inp (rw_next pos p) r
  end.
Definition apply_edit (t : bytes) (e : edit) : bytes :=
  match e with EW off d => pwrite_bytes t off d | ET n => trunc_bytes n t end.
Definition spec_msi (inp : bytes) (edits : list edit) : bytes := fold_left apply_edit edits inp.
Definition spec_merge (io : list mio) : bytes :=
  concat (map (fun x => match x with MWrite d | MWriteLast d => d | _ => [] end) io).
