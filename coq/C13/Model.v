(* C13/Model.v — the output phase as a list of file-system operations on {input, destination, temporary};
   crash = run a prefix.  Op lists are built from the call tables srcgen extracts from lib/atomicfile. *)
From Relic Require Import Base.Prelude Generated.C13_gen.

Inductive op :=
| CreateTemp                      (* ioutil.TempFile next to the destination *)
| Write (data : bytes)            (* sequential write to the temporary *)
| Edit (f : bytes -> bytes)       (* WriteAt / Truncate on the temporary (MSI copy-then-edit) *)
| Chmod | CloseF                  (* no effect on contents *)
| RemoveDest                      (* os.Remove(destination) *)
| Rename                          (* os.Rename(temporary, destination): atomic replace *)
| RemoveTemp.                     (* os.Remove(temporary) *)

Record fs := mkFs { f_input : bytes; f_dest : option bytes; f_temp : option bytes }.

Definition step (s : fs) (o : op) : fs :=
  match o with
  | CreateTemp => mkFs (f_input s) (f_dest s) (Some [])
  | Write d => mkFs (f_input s) (f_dest s) (option_map (fun t => t ++ d) (f_temp s))
  | Edit f => mkFs (f_input s) (f_dest s) (option_map f (f_temp s))
  | Chmod | CloseF => s
  | RemoveDest => mkFs (f_input s) None (f_temp s)
  | Rename => match f_temp s with Some t => mkFs (f_input s) (Some t) None | None => s end
  | RemoveTemp => mkFs (f_input s) (f_dest s) None
  end.
Definition run_ops (ops : list op) (s : fs) : fs := fold_left step ops s.
Definition crash (k : nat) (ops : list op) (s : fs) : fs := run_ops (firstn k ops) s.

(* Commit on POSIX: the calls up to and including the first Rename of the generated table
   (what follows is the Windows-only fallback, reached only when that rename failed) *)
Definition commit_op (i : Z) : op :=
  if i =? 0 then Chmod else if i =? 1 then CloseF else if i =? 2 then RemoveDest else Rename.
Fixpoint through_first_rename (l : list Z) : list Z :=
  match l with
  | [] => []
  | i :: r => if i =? 3 then [i] else i :: through_first_rename r
  end.
Definition commit_ops : list op :=
  if commit_fallback_guard false then map commit_op (through_first_rename commit_calls)
  else map commit_op commit_calls.
(* Close (discard): close the handle, unlink the temporary *)
Definition close_op (i : Z) : op := if i =? 0 then CloseF else RemoveTemp.
Definition close_ops : list op := map close_op close_calls.

(* the four output strategies share one shape: create, fill (writes, then optional edits), commit *)
Definition success_ops (writes : list bytes) (edits : list (bytes -> bytes)) : list op :=
  [CreateTemp] ++ map Write writes ++ map Edit edits ++ commit_ops.
(* a handled error after some of the filling: the deferred Close runs iff the strategy defers it *)
Definition error_ops (defers_close : bool) (writes : list bytes) (edits : list (bytes -> bytes)) : list op :=
  [CreateTemp] ++ map Write writes ++ map Edit edits ++ (if defers_close then close_ops else []).

Definition final_content (writes : list bytes) (edits : list (bytes -> bytes)) : bytes :=
  fold_left (fun t f => f t) edits (concat writes).

Definition strategies_defer_close : list bool :=
  [writefile_defers_close; apply_defers_close; rewrite_defers_close; msi_defers_close; pgp_defers_close].
