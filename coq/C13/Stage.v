(* C13/Stage.v — the open phase of an output: how atomicfile.WriteAny / atomicfile.New obtain the handle the strategies
   write to, INCLUDING what they do when a call fails (the sibling temporary cannot be created: name too long once ".tmp" and
   the random suffix are added, directory not writable, EMFILE, ENOSPC / EDQUOT at create).
   The two functions arrive as decision trees over their fallible calls (Generated.C13_gen: writeany_tree, new_tree, language
   otree); this file interprets a tree under an environment that says which calls fail.  Executable definitions only. *)
From Relic Require Import Base.Prelude Generated.C13_gen C13.Fs.

(* ------------------------------------------------------------------ environment of one run *)
(* the destination is "-", isSpecial(dest) holds, which of the fallible calls fail (every call of one function shares its fate),
   how the conditions the translator could not read come out *)
Record oenv := mkEnv {
  e_dash : bool; e_special : bool;
  f_temp : bool;       (* fn 1: ioutil.TempFile next to the destination *)
  f_create : bool;     (* fn 2: os.Create *)
  f_openfile : bool;   (* fn 3: os.OpenFile *)
  f_open : bool;       (* fn 4: os.Open *)
  f_remove : bool;     (* fn 5: os.Remove *)
  f_trunc : bool;      (* fn 6: os.Truncate *)
  e_opaque : list bool }.

Definition fails (e : oenv) (fn : Z) : bool :=
  if fn =? 1 then f_temp e else if fn =? 2 then f_create e else if fn =? 3 then f_openfile e
  else if fn =? 4 then f_open e else if fn =? 5 then f_remove e else if fn =? 6 then f_trunc e else false.
Definition set_fail (e : oenv) (fn : Z) : oenv :=
  mkEnv (e_dash e) (e_special e)
        ((fn =? 1) || f_temp e) ((fn =? 2) || f_create e) ((fn =? 3) || f_openfile e)
        ((fn =? 4) || f_open e) ((fn =? 5) || f_remove e) ((fn =? 6) || f_trunc e) (e_opaque e).
(* nothing fails *)
Definition env_ok (dash special : bool) : oenv := mkEnv dash special false false false false false false [].

(* ------------------------------------------------------------------ values and events *)
(* what a handle variable holds: nothing, standard output, an *os.File opened by call fn on target with flags, the same
   wrapped as nopAtomic (direct writes; Commit closes when dc), or the write-rename object around the sibling temporary *)
Inductive rh := RNil | RStdout (dc : bool) | RFile (fn target flags : Z) | RDirect (fn target flags : Z) (dc : bool) | RAtomic.
(* one fallible file-system call made by the open phase, in order *)
Inductive oev := EvOpen (fn target flags : Z) (failed : bool) | EvStat.   (* EvStat: isSpecial's os.Stat(dest) *)

Definition upd {A} (f : Z -> A) (k : Z) (v : A) : Z -> A := fun j => if j =? k then v else f j.

Fixpoint ocond_eval (e : oenv) (errs : Z -> bool) (c : ocond) : bool :=
  match c with
  | OCDash => e_dash e
  | OCSpecial => e_special e
  | OCErr v nonnil => Bool.eqb (errs v) nonnil
  | OCNot a => negb (ocond_eval e errs a)
  | OCAnd a b => ocond_eval e errs a && ocond_eval e errs b
  | OCOr a b => ocond_eval e errs a || ocond_eval e errs b
  | OCOpaque k => nth (Z.to_nat k) (e_opaque e) false
  end.

Fixpoint cond_stats (c : ocond) : list oev :=
  match c with
  | OCSpecial => [EvStat]
  | OCNot a => cond_stats a
  | OCAnd a b | OCOr a b => cond_stats a ++ cond_stats b
  | _ => []
  end.

Definition resolve_h (hs : Z -> rh) (h : ohandle) : rh :=
  match h with
  | HNil => RNil
  | HStdout dc => RStdout dc
  | HVar v => hs v
  | HDirect v dc => match hs v with RFile fn t fl => RDirect fn t fl dc | RStdout _ => RStdout dc | _ => RNil end
  | HAtomic v => match hs v with
                 | RFile fn t fl => if t =? 1 then RAtomic else RDirect fn t fl true   (* "atomic" around the destination itself *)
                 | _ => RNil
                 end
  end.

Definition ores := (list oev * rh * bool)%type.     (* calls made, handle returned, error returned (non-nil) *)
Definition o_events (r : ores) : list oev := fst (fst r).
Definition o_handle (r : ores) : rh := snd (fst r).
Definition o_err (r : ores) : bool := snd r.

(* sub: what a nested call of New(dest) (fn 0) does in this environment *)
Fixpoint orun (sub : ores) (e : oenv) (t : otree) (hs : Z -> rh) (errs : Z -> bool) : ores :=
  match t with
  | ORet h er => ([], resolve_h hs h, match er with ENone => false | EOf v => errs v | ENew => true end)
  | OIf c th el => let r := if ocond_eval e errs c then orun sub e th hs errs else orun sub e el hs errs in
                    (cond_stats c ++ o_events r, o_handle r, o_err r)
  | OCall fn target flags hv ev k =>
      let r1 : ores := if fn =? 0 then sub
                       else let f := fails e fn in ([EvOpen fn target flags f], (if f then RNil else RFile fn target flags), f) in
      let r2 := orun sub e k (upd hs hv (o_handle r1)) (upd errs ev (o_err r1)) in
      (o_events r1 ++ o_events r2, o_handle r2, o_err r2)
  | OBind hv h k => orun sub e k (upd hs hv (resolve_h hs h)) errs
  | OStuck => ([], RNil, true)
  end.

Definition run_tree (sub : ores) (e : oenv) (t : otree) : ores := orun sub e t (fun _ => RNil) (fun _ => false).
(* New by itself (binpatch.applyRewrite, WriteInPlace), and WriteAny with New inside *)
Definition new_result_t (nt : otree) (e : oenv) : ores := run_tree ([], RNil, true) e nt.
Definition writeany_result_t (wt nt : otree) (e : oenv) : ores := run_tree (new_result_t nt e) e wt.
Definition new_result := new_result_t new_tree.
Definition writeany_result := writeany_result_t writeany_tree new_tree.

(* 0 standard output, 1 direct writes, 2 write-rename, -1 no handle *)
Definition mode_of (h : rh) : Z := match h with RStdout _ => 0 | RDirect _ _ _ _ => 1 | RAtomic => 2 | _ => -1 end.
Definition writeany_choice (path_is_dash is_special : bool) : Z * Z :=
  (mode_of (o_handle (writeany_result (env_ok path_is_dash is_special))), 0).

(* when call fn fails, does the function stop there and report an error?  (the alternative: it goes on - another call, or a
   handle returned with a nil error) *)
Definition last_failed (fn : Z) (evs : list oev) : bool :=
  match rev evs with EvOpen fn' _ _ true :: _ => fn' =? fn | _ => false end.
Definition ev_fn (ev : oev) : Z := match ev with EvOpen fn _ _ _ => fn | EvStat => -1 end.
Definition ev_failed (ev : oev) : bool := match ev with EvOpen _ _ _ f => f | EvStat => false end.
Definition fail_aborts (run : oenv -> ores) (e : oenv) (fn : Z) : bool :=
  let r := run (set_fail e fn) in o_err r && last_failed fn (o_events r) && (mode_of (o_handle r) =? -1).

(* ------------------------------------------------------------------ what a call does to the file system *)
Definition has_flag (flags bit : Z) : bool := Z.testbit flags bit.
Definition O_CREAT_BIT := 6. Definition O_EXCL_BIT := 7. Definition O_TRUNC_BIT := 9.
Section Ops.
Variables (pt pd : path) (it idest : ino).
(* target 1 = the sibling temporary, target 0 = the destination itself *)
Definition ev_op (ev : oev) : sop :=
  match ev with EvStat => SNop K_STAT_DEST | EvOpen fn target flags _ =>
  if target =? 1 then
    (if has_flag flags O_CREAT_BIT && has_flag flags O_EXCL_BIT then SCreate pt it else SOpen pt it (has_flag flags O_CREAT_BIT) (has_flag flags O_TRUNC_BIT))
  else if fn =? 5 then SUnlink pd
  else if fn =? 6 then STrunc idest 0
  else if (Z.land flags 3 =? 0) && negb (has_flag flags O_CREAT_BIT) && negb (has_flag flags O_TRUNC_BIT) then SNop K_OPEN_DEST
  else SOpen pd idest (has_flag flags O_CREAT_BIT) (has_flag flags O_TRUNC_BIT)
  end.
End Ops.
(* a call that reaches the destination itself rather than a new sibling *)
Definition ev_touches_dest (ev : oev) : bool :=
  match ev with EvOpen fn target flags _ => negb (target =? 1) | EvStat => false end.

(* ------------------------------------------------------------------ the design that is NOT the protocol (witness) *)
(* "if the sibling cannot be created, open the destination itself with O_WRONLY|O_CREATE|O_TRUNC and write to it":
   WriteAny with such a fallback, as the translator renders it *)
Definition fallback_tree : otree :=
  OIf OCDash (ORet (HStdout false) ENone)
   (OIf OCSpecial (OCall 2 0 578 0 1 (ORet (HDirect 0 true) (EOf 1)))
     (OCall 0 0 0 0 1
       (OIf (OCErr 1 false) (ORet (HVar 0) ENone)
         (OCall 3 0 577 2 3 (OIf (OCErr 3 true) (ORet HNil (EOf 1)) (ORet (HDirect 2 true) ENone)))))).
