(* C13/Run.v — model side of the correspondence.
   request 0 (first session, kept):  [ 0 nwrites nedits defers_close_index ]
     -> [ [success op kinds] [error op kinds] ]   kinds: 0 create 1 write 2 edit 3 chmod 4 close 5 remove-dest 6 rename 7 remove-temp
   request 1: one output phase on a described file system
     [ 1 strategy [dirents] [inodes] pin pd pt it args [ temp_create_fails os_create_fails os_openfile_fails ] ]
       the last element (optional) is the environment of the open phase: which fallible calls of WriteAny / New fail in this run
       dirents: [ [path kind arg] ... ]  kind 0 regular file (arg = inode) / 1 symbolic link (arg = target path) / 2 special
       inodes:  [ [ino bytes] ... ]
       strategy 0 whole      args [ is_dash [chunk ...] ]
                1 writefile  args [ is_dash data ]
                2 patch      args [ nlink [ [off old blob] ... ] input_opened_for_writing ]
                3 msi        args [ same_name nreads [ [0 off data] | [1 size] ... ] ]
                4 pgp        args [ is_dash inline clearsign [ [0] read | [1 data] write | [2] seek | [3 data] write of the last armor line ... ] ]
                5 pe-coff with the command line's fixup  args [ [ [off old blob] ... ] nreads checksum_offset checksum ]
     -> [ mode [ [kind amount] ... ] accepted natural_fault [final] [ [crash k] ... ] [ [fault n] ... ] ]
       mode: 0 standard output, 1 direct write to a special file (not modelled further), 2 write-rename, 3 in place
       observation: [ dest_class temp_exists input_ok dest_is_link ]  dest_class 0 absent 1 old 2 new 3 neither
       final = observation ++ [ dest bytes ] ; fault n = [ ignored ] ++ observation ++ [ [clean-up kinds] ] *)
From Relic Require Import Base.Prelude Base.Val Generated.C13_gen C13.Model C13.Fs C13.Stage C13.Strategies.

Definition kind (o : op) : Z :=
  match o with CreateTemp => 0 | Write _ => 1 | Edit _ => 2 | Chmod => 3 | CloseF => 4 | RemoveDest => 5 | Rename => 6 | RemoveTemp => 7 end.
Definition run_old (v : val) : val :=
  let nw := Z.to_nat (vz (vnth 1 v)) in
  let ne := Z.to_nat (vz (vnth 2 v)) in
  let dc := nth (Z.to_nat (vz (vnth 3 v))) strategies_defer_close false in
  VL [VZs (map kind (success_ops (repeat [] nw) (repeat (fun x => x) ne)));
      VZs (map kind (error_ops dc (repeat [] nw) (repeat (fun x => x) ne)))].

Definition mk_fs (dirs inos : list val) : fsys :=
  mkFsys (fun q => match find (fun d => vz (vnth 0 d) =? q) dirs with
                   | Some d => Some (if vz (vnth 1 d) =? 0 then EFile (vz (vnth 2 d))
                                     else if vz (vnth 1 d) =? 1 then ELink (vz (vnth 2 d)) else ESpecial)
                   | None => None end)
         (fun i => match find (fun d => vz (vnth 0 d) =? i) inos with Some d => vb (vnth 1 d) | None => [] end) [].

Section Obs.
Variables (pin pd pt : path) (it iin : ino) (s0 : fsys).
Definition sop_kind (o : sop) : list Z :=
  match o with
  | SCreate _ _ => [0; 0]
  | SWrite i d => [if i =? it then 1 else 28; zlen d]
  | SCopy src _ off n => [8; zlen (zslice off (off + n) (idata s0 src))]
  | SPWrite i _ d => [if i =? it then 2 else 19; zlen d]
  | STrunc i n => [if i =? it then 9 else 20; n]
  | SNop k => [k; 0]
  | SRename _ _ => [6; 0]
  | SUnlink p => [if p =? pt then 7 else 5; 0]
  | SStdout d => [17; zlen d]
  | SOpen _ _ _ _ => [18; 0]
  end.
Definition opt_eqb (a b : option bytes) : bool :=
  match a, b with Some x, Some y => bytes_eqb x y | None, None => true | _, _ => false end.
Definition observe (new : option bytes) (s : fsys) : list val :=
  let d := sread s pd in
  [VZ (match d with None => 0 | Some _ => if opt_eqb d (sread s0 pd) then 1 else if opt_eqb d new then 2 else 3 end);
   of_bool (match dirent s pt with Some _ => true | None => false end);
   of_bool (bytes_eqb (idata s iin) (idata s0 iin) && opt_eqb (sread s pin) (if pin =? pd then sread s pin else sread s0 pin));
   of_bool (match dirent s pd with Some (ELink _) => true | _ => false end)].
(* a call that fails by itself and whose failure the code turns into "go on" has not happened: no effect in the states reported *)
Definition neutralize (pl : list pstep) : list pstep :=
  map (fun st => if p_natfail st && negb (is_abort (p_onerr st)) then mkP (SNop 0) Ignore [] false else st) pl.
Definition report (mode : Z) (accepted : bool) (pl0 : list pstep) : val :=
  let pl := neutralize pl0 in
  let done := outcome pl s0 in
  let new := if accepted then Some (idata (srun (ops_of pl) s0) it) else sread (srun (ops_of pl) s0) pd in
  VL [VZ mode;
      VL (map (fun o => VZs (sop_kind o)) (ops_of pl0));
      of_bool accepted;
      VZ (match natural_fault pl with Some n => Z.of_nat n | None => -1 end);
      VL (observe new done ++ [VB (match sread done pd with Some b => b | None => [] end)]);
      VL (map (fun k => VL (observe new (scrash k pl s0))) (seq 0 (S (length pl))));
      VL (map (fun n => VL ([of_bool (match nth_error pl n with Some st => negb (is_abort (p_onerr st)) | None => false end)]
                            ++ observe new (fault n 0 pl s0)
                            ++ [VZs (match nth_error pl n with Some st => map (fun o => hd 0 (sop_kind o)) (p_cleanup st) | None => [] end)]))
              (seq 0 (length pl)));
      (* a call failed by itself and the code went on (its step is listed among the calls but has no effect in the states) *)
      of_bool (existsb (fun st => p_natfail st && negb (is_abort (p_onerr st))) pl0)].
End Obs.

Definition is_complete (o : option nat) : bool := match o with Some 2%nat => true | _ => false end.
Definition patch_of (v : val) : patch := mkPatch (vz (vnth 0 v)) (vz (vnth 1 v)) (vb (vnth 2 v)).
Definition edit_of (v : val) : edit := if vz (vnth 0 v) =? 0 then EW (vz (vnth 1 v)) (vb (vnth 2 v)) else ET (vz (vnth 1 v)).
Definition io_of (v : val) : mio :=
  if vz (vnth 0 v) =? 0 then MRead else if vz (vnth 0 v) =? 2 then MSeek else if vz (vnth 0 v) =? 3 then MWriteLast (vb (vnth 1 v)) else MWrite (vb (vnth 1 v)).

Definition run_new (v : val) : val :=
  let strat := vz (vnth 1 v) in
  let s0 := mk_fs (vl (vnth 2 v)) (vl (vnth 3 v)) in
  let pin := vz (vnth 4 v) in let pd := vz (vnth 5 v) in let pt := vz (vnth 6 v) in let it := vz (vnth 7 v) in
  let iin := match resolve s0 pin with Some i => i | None => -1 end in
  let a := vnth 8 v in
  let rep := report pin pd pt it iin s0 in
  let ef := vnth 9 v in
  let en (is_dash : bool) := mkEnv is_dash (dest_is_special s0 pd) (vbool (vnth 0 ef)) (vbool (vnth 1 ef)) (vbool (vnth 2 ef)) false false false [] in
  let idest := dest_inode s0 pd 21 in
  let atomic (is_dash : bool) (pl_atomic pl_stdout : list pstep) : val :=
      let m := writeany_strategy is_dash s0 pd in
      if m =? 2 then rep 2 (is_complete (check pt pd it 0 pl_atomic)) pl_atomic
      else if m =? 0 then rep 0 false pl_stdout
      else rep 1 false [] in
  if strat =? 0 then
    let ws := map vb (vl (vnth 1 a)) in
    atomic (vbool (vnth 0 a)) (whole_plan_e pt pd it (en (vbool (vnth 0 a))) idest ws)
           (stdout_plan pt pd (map (fun d => (SStdout d, false, false)) ws ++ [(SNop K_CLOSE_IN, true, false)]))
  else if strat =? 1 then
    let d := vb (vnth 1 a) in
    atomic (vbool (vnth 0 a)) (writefile_plan_e pt pd it (en (vbool (vnth 0 a))) idest d) (stdout_plan pt pd [(SStdout d, false, false)])
  else if strat =? 2 then
    let ps := map patch_of (vl (vnth 1 a)) in
    let insize := zlen (idata s0 iin) in
    let d := apply_decision_fs pd iin s0 (vbool (vnth 2 a)) (vz (vnth 0 a)) ps insize in
    let pl := apply_plan_e pt pd it iin (en false) d insize ps in
    match d with
    | Some _ => rep 3 false pl
    | None => rep 2 (is_complete (check pt pd it 0 pl)) pl
    end
  else if strat =? 3 then
    let es := map edit_of (vl (vnth 2 a)) in
    if vbool (vnth 0 a) then rep 3 false (msi_inplace_plan pt pd iin (vz (vnth 1 a)) es [])
    else let pl := msi_plan_e pt pd it iin (en false) (zlen (idata s0 iin)) (vz (vnth 1 a)) es [] in
         rep 2 (is_complete (check pt pd it 0 pl)) pl
  else if strat =? 5 then
    let pl := pe_sign_plan pt pd it iin (zlen (idata s0 iin)) (map patch_of (vl (vnth 0 a))) (vz (vnth 1 a)) (vz (vnth 2 a)) (vb (vnth 3 a)) in
    rep 2 (is_complete (check pt pd it 0 pl)) pl
  else
    let io := map io_of (vl (vnth 3 a)) in
    atomic (vbool (vnth 0 a)) (pgp_plan_e pt pd it (en (vbool (vnth 0 a))) idest (vbool (vnth 1 a)) (vbool (vnth 2 a)) io)
           (stdout_plan pt pd
              ((if pgp_merges (vbool (vnth 1 a)) (vbool (vnth 2 a)) then [(SNop K_SEEK_IN, false, false)] else []) ++
               map (fun x => match x with MRead => (SNop K_READ_IN, false, false) | MSeek => (SNop K_SEEK_IN, true, false) | MWrite d | MWriteLast d => (SStdout d, false, false) end) io ++
               [(SNop K_CLOSE_IN, true, false)])).

Definition run (v : val) : val := if vz (vnth 0 v) =? 0 then run_old v else run_new v.
