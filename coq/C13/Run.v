(* C13/Run.v — model side of the trace correspondence.
   input:  [ nwrites nedits defers_close_index ]
   output: [ [success op kinds] [error op kinds] ]   kinds: 0 create 1 write 2 edit 3 chmod 4 close 5 remove-dest 6 rename 7 remove-temp *)
From Relic Require Import Base.Prelude Base.Val Generated.C13_gen C13.Model.
Definition kind (o : op) : Z :=
  match o with CreateTemp => 0 | Write _ => 1 | Edit _ => 2 | Chmod => 3 | CloseF => 4 | RemoveDest => 5 | Rename => 6 | RemoveTemp => 7 end.
Definition run (v : val) : val :=
  let nw := Z.to_nat (vz (vnth 0 v)) in
  let ne := Z.to_nat (vz (vnth 1 v)) in
  let dc := nth (Z.to_nat (vz (vnth 2 v))) strategies_defer_close false in
  VL [VZs (map kind (success_ops (repeat [] nw) (repeat (fun x => x) ne)));
      VZs (map kind (error_ops dc (repeat [] nw) (repeat (fun x => x) ne)))].
