(* C13/FsProofs.v — what the write-rename protocol guarantees: every plan accepted by `check` is crash safe at every
   call boundary, leaves no temporary after an error at any step, and never touches an existing inode. *)
From Relic Require Import Base.Prelude C13.Fs.

Lemma srun_app a b s : srun (a ++ b) s = srun b (srun a s).
Proof. unfold srun. apply fold_left_app. Qed.
Lemma srun_cons o r s : srun (o :: r) s = srun r (sstep s o).
Proof. reflexivity. Qed.
Lemma ops_of_app a b : ops_of (a ++ b) = ops_of a ++ ops_of b.
Proof. unfold ops_of. apply map_app. Qed.
Lemma ops_of_firstn k pl : ops_of (firstn k pl) = firstn k (ops_of pl).
Proof. unfold ops_of. symmetry. apply firstn_map. Qed.
Lemma ops_of_skipn k pl : ops_of (skipn k pl) = skipn k (ops_of pl).
Proof. unfold ops_of. symmetry. apply skipn_map. Qed.

Lemma nth_error_split {A} (l : list A) n x : nth_error l n = Some x -> l = firstn n l ++ x :: skipn (S n) l.
Proof.
  revert l; induction n as [|n IH]; intros [|y l] H; cbn in H; try discriminate.
  - injection H as <-. reflexivity.
  - cbn [firstn skipn app]. f_equal. apply IH. exact H.
Qed.

Lemma srun_nops c s : forallb is_nop c = true -> srun c s = s.
Proof.
  revert s; induction c as [|o c IH]; intros s H; [reflexivity|].
  cbn [forallb] in H. apply andb_true_iff in H as [Ho Hc]. destruct o; try discriminate. rewrite srun_cons. cbn [sstep]. apply IH, Hc.
Qed.

Ltac dif := match goal with |- context [if ?c then _ else _] => destruct c end.
Ltac difH H E := match type of H with context [if ?c then _ else _] => destruct c eqn:E end.

Section Proto.
Variables (pt pd : path) (it : ino) (s0 : fsys).
Hypothesis Hneq : pt <> pd.
Hypothesis Hpt0 : dirent s0 pt = None.

Notation check := (check pt pd it).

Definition frame (s : fsys) : Prop :=
  (forall q, q <> pt -> q <> pd -> dirent s q = dirent s0 q) /\ (forall i, i <> it -> idata s i = idata s0 i).

(* the three phases *)
Definition INV (ph : nat) (s : fsys) : Prop :=
  match ph with
  | O => (forall q, dirent s q = dirent s0 q) /\ (forall i, idata s i = idata s0 i)
  | S O => dirent s pt = Some (EFile it) /\ (forall q, q <> pt -> dirent s q = dirent s0 q) /\ (forall i, i <> it -> idata s i = idata s0 i)
  | _ => dirent s pt = None /\ dirent s pd = Some (EFile it) /\ frame s
  end.

Lemma check_app a : forall ph b, check ph (a ++ b) = match check ph a with Some ph1 => check ph1 b | None => None end.
Proof.
  induction a as [|st a IH]; intros ph b; [reflexivity|].
  cbn [app]. destruct ph as [|[|ph]]; cbn [Fs.check].
  - destruct (p_op st); try reflexivity; dif; try apply IH; reflexivity.
  - destruct (p_op st); dif; try apply IH; reflexivity.
  - reflexivity.
Qed.

Lemma check_done ph pl ph' : (2 <= ph)%nat -> check ph pl = Some ph' -> pl = [] /\ ph' = ph.
Proof.
  intros H. destruct ph as [|[|ph]]; try lia. destruct pl; cbn; intros E; [injection E as <-; auto|discriminate].
Qed.

Lemma set_data_dirent s i d q : dirent (set_data s i d) q = dirent s q.
Proof. reflexivity. Qed.
Lemma set_data_same s i d : idata (set_data s i d) i = d.
Proof. cbn. now rewrite Z.eqb_refl. Qed.
Lemma set_data_other s i d j : j <> i -> idata (set_data s i d) j = idata s j.
Proof. intros H. cbn. destruct (j =? i) eqn:E; [apply Z.eqb_eq in E; contradiction|reflexivity]. Qed.
Lemma set_dir_same s p e : dirent (set_dir s p e) p = e.
Proof. cbn. now rewrite Z.eqb_refl. Qed.
Lemma set_dir_other s p e q : q <> p -> dirent (set_dir s p e) q = dirent s q.
Proof. intros H. cbn. destruct (q =? p) eqn:E; [apply Z.eqb_eq in E; contradiction|reflexivity]. Qed.
Lemma set_dir_idata s p e i : idata (set_dir s p e) i = idata s i.
Proof. reflexivity. Qed.

(* a local operation: dirent unchanged, only inode `it` changes *)
Lemma local_effect o s : local_op it o = true ->
  (forall q, dirent (sstep s o) q = dirent s q) /\ (forall i, i <> it -> idata (sstep s o) i = idata s i).
Proof.
  destruct o; cbn [local_op]; intros H; try discriminate; try (apply Z.eqb_eq in H; subst);
    cbn [sstep]; split; intros; try reflexivity; try (rewrite set_data_other by assumption; reflexivity).
Qed.

Lemma local_inv1 o s : local_op it o = true -> INV 1 s -> INV 1 (sstep s o).
Proof.
  intros Hl (H1 & H2 & H3). destruct (local_effect o s Hl) as [Hd Hi].
  cbn [INV]. rewrite Hd. split; [exact H1|]. split.
  - intros q Hq. rewrite Hd. apply H2, Hq.
  - intros i Hi'. rewrite Hi by assumption. apply H3, Hi'.
Qed.

Lemma locals_inv1 c s : forallb (local_op it) c = true -> INV 1 s -> INV 1 (srun c s).
Proof.
  revert s; induction c as [|o c IH]; intros s H Hs; [exact Hs|].
  cbn [forallb] in H. apply andb_true_iff in H as [Ho Hc]. rewrite srun_cons. apply IH; [exact Hc|]. apply local_inv1; assumption.
Qed.

Lemma create_inv s : INV 0 s -> INV 1 (sstep s (SCreate pt it)).
Proof.
  intros [H1 H2]. cbn [INV sstep]. rewrite set_data_dirent, set_dir_same. split; [reflexivity|]. split.
  - intros q Hq. rewrite set_data_dirent, set_dir_other by assumption. apply H1.
  - intros i Hi. rewrite set_data_other by assumption. rewrite set_dir_idata. apply H2.
Qed.

Lemma rename_inv s : INV 1 s -> INV 2 (sstep s (SRename pt pd)).
Proof.
  intros (H1 & H2 & H3). cbn [INV sstep].
  destruct (pt =? pd) eqn:E; [apply Z.eqb_eq in E; contradiction|]. rewrite H1.
  split; [apply set_dir_same|]. split.
  - rewrite set_dir_other by (intro; apply Hneq; congruence). apply set_dir_same.
  - split.
    + intros q Hq1 Hq2. rewrite !set_dir_other by assumption. apply H2, Hq1.
    + intros i Hi. rewrite !set_dir_idata. apply H3, Hi.
Qed.

(* running an accepted plan moves from phase to phase *)
Lemma run_inv pl : forall ph ph' s, check ph pl = Some ph' -> INV ph s -> INV ph' (srun (ops_of pl) s).
Proof.
  induction pl as [|st pl IH]; intros ph ph' s Hc Hs.
  - cbn in Hc. injection Hc as <-. exact Hs.
  - cbn [ops_of map]. rewrite srun_cons. fold (ops_of pl).
    destruct ph as [|[|ph]]; cbn [Fs.check] in Hc; [| |discriminate].
    + destruct (p_op st) eqn:Eo; try discriminate.
      * difH Hc Eg; [|discriminate].
        apply andb_true_iff in Eg as [Eg _]. apply andb_true_iff in Eg as [Eg _]. apply andb_true_iff in Eg as [Ep Ei].
        apply Z.eqb_eq in Ep, Ei. subst. eapply IH; [exact Hc|]. apply create_inv, Hs.
      * difH Hc Eg; [|discriminate]. eapply IH; [exact Hc|]. exact Hs.
    + destruct (p_op st) eqn:Eo;
        try (destruct (step_ok1 pt it st) eqn:Es; [|discriminate]; unfold step_ok1 in Es; apply andb_true_iff in Es as [Es _];
             rewrite Eo in Es; cbn [local_op] in Es; first [discriminate Es | eapply IH; [exact Hc|]; apply local_inv1; assumption]).
      difH Hc Eg; [|discriminate].
      apply andb_true_iff in Eg as [Eg _]. apply andb_true_iff in Eg as [Eg _]. apply andb_true_iff in Eg as [Ep Ei].
      apply Z.eqb_eq in Ep, Ei. subst. eapply IH; [exact Hc|]. apply rename_inv, Hs.
Qed.

Lemma INV0_s0 : INV 0 s0.
Proof. split; reflexivity. Qed.

(* ---------------------------------------------------------------- crash at any call boundary *)
Theorem protocol_crash pl ph' k :
  check 0 pl = Some ph' ->
  let s := scrash k pl s0 in
  let new := idata (srun (ops_of pl) s0) it in
  (forall i, i <> it -> idata s i = idata s0 i) /\
  (forall q, q <> pt -> q <> pd -> dirent s q = dirent s0 q) /\
  ((dirent s pd = dirent s0 pd /\ (dirent s pt = None \/ dirent s pt = Some (EFile it))) \/
   (dirent s pd = Some (EFile it) /\ dirent s pt = None /\ idata s it = new)).
Proof.
  intros Hc. cbv zeta. unfold scrash. rewrite <- ops_of_firstn.
  rewrite <- (firstn_skipn k pl) in Hc. rewrite check_app in Hc.
  destruct (check 0 (firstn k pl)) as [ph1|] eqn:E1; [|discriminate].
  pose proof (run_inv _ _ _ _ E1 INV0_s0) as Hinv.
  destruct ph1 as [|[|ph1]].
  - destruct Hinv as [H1 H2]. repeat split; intros; try apply H1; try apply H2.
    left. split; [apply H1|]. left. rewrite H1. exact Hpt0.
  - destruct Hinv as (H1 & H2 & H3). repeat split; intros; try (apply H2; assumption); try (apply H3; assumption).
    left. split; [apply H2; intro; apply Hneq; congruence|]. right. exact H1.
  - destruct Hinv as (H1 & H2 & H3 & H4). repeat split; intros; try (apply H3; assumption); try (apply H4; assumption).
    right. split; [exact H2|]. split; [exact H1|].
    apply check_done in Hc as [Hnil _]; [|lia].
    rewrite <- (firstn_skipn k pl) at 2. rewrite Hnil, app_nil_r. reflexivity.
Qed.

(* ---------------------------------------------------------------- normal completion *)
Theorem protocol_complete pl :
  check 0 pl = Some 2%nat ->
  let s := srun (ops_of pl) s0 in
  dirent s pt = None /\ dirent s pd = Some (EFile it) /\
  (forall q, q <> pt -> q <> pd -> dirent s q = dirent s0 q) /\ (forall i, i <> it -> idata s i = idata s0 i).
Proof.
  intros Hc. cbv zeta. destruct (run_inv _ _ _ _ Hc INV0_s0) as (H1 & H2 & H3 & H4). repeat split; assumption.
Qed.

(* ---------------------------------------------------------------- an error at any step *)
Lemma partial_local o m : local_op it o = true -> forallb (local_op it) (partial o m) = true.
Proof. destruct o; cbn; intros H; try discriminate; try rewrite H; reflexivity. Qed.

Lemma cleanup_frame c : forall s, forallb (fun o => is_nop o || is_unlink_t pt o) c = true ->
  (forall q, q <> pt -> dirent (srun c s) q = dirent s q) /\ (forall i, idata (srun c s) i = idata s i) /\
  (dirent s pt = None -> dirent (srun c s) pt = None).
Proof.
  induction c as [|o c IH]; intros s H; [repeat split; auto|].
  cbn [forallb] in H. apply andb_true_iff in H as [Ho Hc]. rewrite srun_cons.
  destruct (IH (sstep s o) Hc) as (I1 & I2 & I3).
  destruct o; cbn in Ho; try discriminate.
  - cbn [sstep] in *. repeat split; assumption.
  - apply Z.eqb_eq in Ho. subst p. repeat split.
    + intros q Hq. rewrite I1 by assumption. cbn [sstep]. apply set_dir_other, Hq.
    + intros i. rewrite I2. reflexivity.
    + intros _. apply I3. cbn [sstep]. apply set_dir_same.
Qed.

Lemma cleanup_unlinks c : forall s, cleanup_removes pt c = true -> dirent (srun c s) pt = None.
Proof.
  unfold cleanup_removes. induction c as [|o c IH]; intros s H; [discriminate|].
  apply andb_true_iff in H as [He Ha]. cbn [existsb forallb] in *. apply andb_true_iff in Ha as [Ho Hc].
  rewrite srun_cons. destruct (is_unlink_t pt o) eqn:Eu.
  - destruct o; try discriminate. cbn in Eu. apply Z.eqb_eq in Eu. subst p.
    apply (cleanup_frame c (sstep s (SUnlink pt)) Hc). cbn [sstep]. apply set_dir_same.
  - cbn [orb] in He. apply IH. rewrite He, Hc. reflexivity.
Qed.

Theorem protocol_fault_abort pl ph' n m st :
  check 0 pl = Some ph' -> nth_error pl n = Some st -> p_onerr st = Abort ->
  let s := fault n m pl s0 in
  (forall q, dirent s q = dirent s0 q) /\ (forall i, i <> it -> idata s i = idata s0 i).
Proof.
  intros Hc Hn Ha. cbv zeta. unfold fault. rewrite Hn, Ha.
  pose proof (nth_error_split _ _ _ Hn) as Hsplit. rewrite Hsplit in Hc. rewrite check_app in Hc.
  destruct (check 0 (firstn n pl)) as [ph1|] eqn:E1; [|discriminate].
  pose proof (run_inv _ _ _ _ E1 INV0_s0) as Hinv. rewrite ops_of_firstn in Hinv.
  set (s1 := srun (firstn n (ops_of pl)) s0) in *.
  destruct ph1 as [|[|ph1]]; cbn [Fs.check] in Hc; [| |discriminate].
  - (* nothing created yet *)
    destruct Hinv as [H1 H2].
    destruct (p_op st) eqn:Eo; try discriminate.
    + difH Hc Eg; [|discriminate]. apply andb_true_iff in Eg as [_ Eg].
      cbn [partial srun fold_left]. rewrite (srun_nops _ _ Eg). split; [apply H1|intros; apply H2].
    + difH Hc Eg; [|discriminate]. apply andb_true_iff in Eg as [Eg _].
      cbn [partial srun fold_left]. rewrite (srun_nops _ _ Eg). split; [apply H1|intros; apply H2].
  - (* the temporary exists *)
    assert (Hcl : cleanup_removes pt (p_cleanup st) = true /\ INV 1 (srun (partial (p_op st) m) s1)).
    { destruct (p_op st) eqn:Eo;
        try (destruct (step_ok1 pt it st) eqn:Es; [|discriminate]; unfold step_ok1 in Es; apply andb_true_iff in Es as [Es1 Es2];
             rewrite Ha in Es2; split; [exact Es2|]; apply locals_inv1; [apply partial_local; rewrite <- Eo; exact Es1|exact Hinv]).
      difH Hc Eg; [|discriminate]. apply andb_true_iff in Eg as [_ Eg]. split; [exact Eg|]. exact Hinv. }
    destruct Hcl as [Hcl (I1 & I2 & I3)].
    set (s2 := srun (partial (p_op st) m) s1) in *.
    pose proof (cleanup_unlinks _ s2 Hcl) as Hu.
    unfold cleanup_removes in Hcl. apply andb_true_iff in Hcl as [_ Hall].
    destruct (cleanup_frame _ s2 Hall) as (F1 & F2 & _).
    split.
    + intros q. destruct (Z.eq_dec q pt) as [->|Hq]; [rewrite Hu, Hpt0; reflexivity|]. rewrite F1 by assumption. apply I2, Hq.
    + intros i Hi. rewrite F2. apply I3, Hi.
Qed.

(* giving up may come late: while only the temporary is touched in between, nothing changes for the outcome *)
Theorem protocol_fault_delayed pl ph' n m extra st :
  check 0 pl = Some ph' -> nth_error pl n = Some st -> cleanup_removes pt (p_cleanup st) = true ->
  forallb (local_op it) (firstn extra (skipn (S n) (ops_of pl))) = true ->
  let s := fault_delayed n m extra pl s0 in
  (forall q, dirent s q = dirent s0 q) /\ (forall i, i <> it -> idata s i = idata s0 i).
Proof.
  intros Hc Hn Hcl Hex. cbv zeta. unfold fault_delayed. rewrite Hn.
  pose proof (nth_error_split _ _ _ Hn) as Hsplit. rewrite Hsplit in Hc. rewrite check_app in Hc.
  destruct (check 0 (firstn n pl)) as [ph1|] eqn:E1; [|discriminate].
  pose proof (run_inv _ _ _ _ E1 INV0_s0) as Hinv. rewrite ops_of_firstn in Hinv.
  set (s1 := srun (firstn n (ops_of pl)) s0) in *.
  assert (Hph : ph1 = 1%nat /\ INV 1 (srun (partial (p_op st) m) s1)).
  { destruct ph1 as [|[|ph1]]; cbn [Fs.check] in Hc; [| |discriminate].
    - exfalso. unfold cleanup_removes in Hcl. apply andb_true_iff in Hcl as [Hex1 _].
      destruct (p_op st); try discriminate; difH Hc Eg; try discriminate.
      + apply andb_true_iff in Eg as [_ Eg]. unfold cleanup_none in Eg.
        clear - Hex1 Eg. induction (p_cleanup st) as [|o c IH]; [discriminate|]. cbn in *. apply andb_true_iff in Eg as [E1 E2].
        destruct o; try discriminate. cbn in Hex1. apply IH; assumption.
      + apply andb_true_iff in Eg as [Eg _]. unfold cleanup_none in Eg.
        clear - Hex1 Eg. induction (p_cleanup st) as [|o c IH]; [discriminate|]. cbn in *. apply andb_true_iff in Eg as [E1 E2].
        destruct o; try discriminate. cbn in Hex1. apply IH; assumption.
    - split; [reflexivity|].
      destruct (p_op st) eqn:Eo;
        try (destruct (step_ok1 pt it st) eqn:Es; [|discriminate]; unfold step_ok1 in Es; apply andb_true_iff in Es as [Es1 _];
             apply locals_inv1; [apply partial_local; rewrite <- Eo; exact Es1|exact Hinv]).
      exact Hinv. }
  destruct Hph as [_ Hi1].
  pose proof (locals_inv1 _ _ Hex Hi1) as (I1 & I2 & I3).
  set (s3 := srun (firstn extra (skipn (S n) (ops_of pl))) (srun (partial (p_op st) m) s1)) in *.
  pose proof (cleanup_unlinks _ s3 Hcl) as Hu.
  unfold cleanup_removes in Hcl. apply andb_true_iff in Hcl as [_ Hall].
  destruct (cleanup_frame _ s3 Hall) as (F1 & F2 & _).
  split.
  - intros q. destruct (Z.eq_dec q pt) as [->|Hq]; [rewrite Hu, Hpt0; reflexivity|]. rewrite F1 by assumption. apply I2, Hq.
  - intros i Hi. rewrite F2. apply I3, Hi.
Qed.

(* an ignored failure is always a failure of a call without effect: the run is the normal run *)
Theorem protocol_fault_ignore pl ph' n m st :
  check 0 pl = Some ph' -> nth_error pl n = Some st -> p_onerr st = Ignore ->
  fault n m pl s0 = srun (ops_of pl) s0.
Proof.
  intros Hc Hn Hi. unfold fault. rewrite Hn, Hi.
  pose proof (nth_error_split _ _ _ Hn) as Hsplit.
  assert (Hnop : is_nop (p_op st) = true).
  { rewrite Hsplit in Hc. rewrite check_app in Hc.
    destruct (check 0 (firstn n pl)) as [ph1|]; [|discriminate].
    destruct ph1 as [|[|ph1]]; cbn [Fs.check] in Hc; [| |discriminate].
    - destruct (p_op st); try discriminate; [|reflexivity].
      rewrite Hi in Hc. cbn in Hc. rewrite andb_false_r in Hc. discriminate.
    - destruct (p_op st) eqn:Eo; try reflexivity;
        try (destruct (step_ok1 pt it st) eqn:Es; [|discriminate]; unfold step_ok1 in Es; apply andb_true_iff in Es as [_ Es];
             rewrite Hi, Eo in Es; discriminate).
      rewrite Hi in Hc. cbn in Hc. rewrite andb_false_r in Hc. discriminate. }
  destruct (p_op st) eqn:Eo; try discriminate. cbn [partial srun fold_left].
  rewrite Hsplit at 3. rewrite ops_of_app, srun_app. cbn [ops_of map]. rewrite Eo, srun_cons. cbn [sstep].
  fold (ops_of (skipn (S n) pl)). rewrite ops_of_skipn, ops_of_firstn. reflexivity.
Qed.

(* ---------------------------------------------------------------- the same facts as a reader of the names sees them *)
Hypothesis Hfresh_ino : forall q, dirent s0 q <> Some (EFile it).
Hypothesis Hfresh_link : forall q, dirent s0 q <> Some (ELink pt).

Lemma read_same_dir s p :
  dirent s p = dirent s0 p ->
  (forall q, dirent s0 p = Some (ELink q) -> dirent s q = dirent s0 q) ->
  (forall i, i <> it -> idata s i = idata s0 i) -> sread s p = sread s0 p.
Proof.
  intros Hd Hl Hi. unfold sread, resolve. rewrite Hd.
  destruct (dirent s0 p) as [[i|q|]|] eqn:E; try reflexivity.
  - cbn. f_equal. apply Hi. intros ->. apply (Hfresh_ino p). exact E.
  - rewrite (Hl q eq_refl). destruct (dirent s0 q) as [[i| |]|] eqn:E2; try reflexivity.
    cbn. f_equal. apply Hi. intros ->. apply (Hfresh_ino q). exact E2.
Qed.

Theorem protocol_crash_read pl ph' k :
  check 0 pl = Some ph' ->
  let s := scrash k pl s0 in
  let new := idata (srun (ops_of pl) s0) it in
  spec_dest_old_or_new pd new s0 s /\ spec_dest_not_lost pd s0 s /\
  spec_inodes_untouched it s0 s /\ spec_other_names pt pd s0 s.
Proof.
  intros Hc. cbv zeta. destruct (protocol_crash pl ph' k Hc) as (Hi & Hq & Hd). cbv zeta in *.
  set (s := scrash k pl s0) in *.
  assert (Hother : spec_other_names pt pd s0 s).
  { intros q Hq1 Hq2 Hq3. split; [|apply Hq; assumption]. apply read_same_dir; [apply Hq; assumption| |exact Hi].
    intros q' E. apply Hq; [intros ->; apply (Hfresh_link q); exact E|intros ->; apply Hq3; exact E]. }
  destruct Hd as [[Hd _]|(Hd & _ & Hn)].
  - assert (Hr : sread s pd = sread s0 pd).
    { apply read_same_dir; [exact Hd| |exact Hi].
      intros q' E. destruct (Z.eq_dec q' pd) as [->|Hne]; [exact Hd|].
      apply Hq; [intros ->; apply (Hfresh_link pd); exact E|exact Hne]. }
    split; [left; exact Hr|]. split; [intros H; rewrite Hr; exact H|]. split; [exact Hi|exact Hother].
  - assert (Hr : sread s pd = Some (idata (srun (ops_of pl) s0) it)).
    { unfold sread, resolve. rewrite Hd. cbn. f_equal. exact Hn. }
    split; [right; exact Hr|]. split; [intros _; rewrite Hr; discriminate|]. split; [exact Hi|exact Hother].
Qed.

Theorem protocol_complete_read pl :
  check 0 pl = Some 2%nat ->
  let s := srun (ops_of pl) s0 in
  sread s pd = Some (idata s it) /\ spec_no_temp pt s /\ spec_inodes_untouched it s0 s /\ spec_other_names pt pd s0 s.
Proof.
  intros Hc. cbv zeta. destruct (protocol_complete pl Hc) as (H1 & H2 & H3 & H4). cbv zeta in *.
  set (s := srun (ops_of pl) s0) in *.
  split; [unfold sread, resolve; rewrite H2; reflexivity|]. split; [exact H1|]. split; [exact H4|].
  intros q Hq1 Hq2 Hq3. split; [|apply H3; assumption]. apply read_same_dir; [apply H3; assumption| |exact H4].
  intros q' E. apply H3; [intros ->; apply (Hfresh_link q); exact E|intros ->; apply Hq3; exact E].
Qed.

Theorem protocol_fault_read pl ph' n m st :
  check 0 pl = Some ph' -> nth_error pl n = Some st -> p_onerr st = Abort ->
  let s := fault n m pl s0 in
  (forall p, sread s p = sread s0 p) /\ spec_no_temp pt s /\ spec_inodes_untouched it s0 s.
Proof.
  intros Hc Hn Ha. cbv zeta. destruct (protocol_fault_abort pl ph' n m st Hc Hn Ha) as [Hd Hi]. cbv zeta in *.
  split; [|split; [unfold spec_no_temp; rewrite Hd; exact Hpt0|exact Hi]].
  intros p. apply read_same_dir; [apply Hd|intros; apply Hd|exact Hi].
Qed.
End Proto.

(* ------------------------------------------------------------------ steps that fail by themselves *)
Lemma natural_fault_nth pl : forall n, natural_fault pl = Some n -> exists st, nth_error pl n = Some st /\ p_natfail st = true.
Proof.
  induction pl as [|st pl IH]; intros n H; [discriminate|].
  cbn [natural_fault] in H. destruct (p_natfail st) eqn:E.
  - injection H as <-. exists st. split; [reflexivity|exact E].
  - destruct (natural_fault pl) as [k|]; [|discriminate]. injection H as <-. destruct (IH k eq_refl) as [st' [H1 H2]].
    exists st'. split; assumption.
Qed.

Lemma check_natfail_ok pt pd it pl : forall ph ph' n st,
  check pt pd it ph pl = Some ph' -> nth_error pl n = Some st -> natfail_ok st = true.
Proof.
  induction pl as [|x pl IH]; intros ph ph' n st Hc Hn; [destruct n; discriminate|].
  destruct ph as [|[|ph]]; cbn [check] in Hc; [| |discriminate].
  - destruct (p_op x) eqn:Eo; try discriminate; difH Hc Eg; try discriminate.
    + destruct n; [|eapply IH; [exact Hc|exact Hn]]. injection Hn as ->.
      apply andb_true_iff in Eg as [Eg _]. apply andb_true_iff in Eg as [_ Eg]. unfold natfail_ok. rewrite Eg. apply orb_true_r.
    + destruct n; [|eapply IH; [exact Hc|exact Hn]]. injection Hn as ->. apply andb_true_iff in Eg as [_ Eg]. exact Eg.
  - destruct n as [|n].
    + injection Hn as ->. unfold natfail_ok.
      destruct (p_op st) eqn:Eo; difH Hc Eg; try discriminate;
        try (unfold step_ok1 in Eg; apply andb_true_iff in Eg as [_ Eg]; destruct (p_onerr st); [apply andb_true_iff in Eg as [_ Eg]; rewrite Eg; reflexivity|apply orb_true_r]).
      apply andb_true_iff in Eg as [Eg _]. apply andb_true_iff in Eg as [_ Eg]. rewrite Eg. apply orb_true_r.
    + destruct (p_op x); difH Hc Eg; try discriminate; (eapply IH; [exact Hc|exact Hn]).
Qed.

(* ------------------------------------------------------------------ all of it: an accepted, complete plan is safe *)
Theorem protocol_safe pt pd it s0 pl :
  pt <> pd -> fresh pt it s0 -> check pt pd it 0 pl = Some 2%nat -> safe_plan pt pd it s0 pl.
Proof.
  intros Hneq (Hpt0 & Hino & Hlink) Hc. unfold safe_plan. cbv zeta.
  split; [intros k; apply (protocol_crash_read pt pd it s0 Hneq Hpt0 Hino Hlink pl _ k Hc)|].
  split; [apply (protocol_complete_read pt pd it s0 Hneq Hino Hlink pl Hc)|].
  split.
  - intros n m st Hn. destruct (p_onerr st) eqn:Ee.
    + apply (protocol_fault_ignore pt pd it s0 pl _ n m st Hc Hn Ee).
    + apply (protocol_fault_read pt pd it s0 Hneq Hpt0 Hino pl _ n m st Hc Hn Ee).
  - intros n H. unfold outcome. rewrite H. destruct (natural_fault_nth pl n H) as [st [Hn Hf]].
    pose proof (check_natfail_ok pt pd it pl _ _ n st Hc Hn) as Hok. unfold natfail_ok in Hok. rewrite Hf in Hok. cbn in Hok.
    destruct (p_onerr st) eqn:Ee; [discriminate|].
    apply (protocol_fault_read pt pd it s0 Hneq Hpt0 Hino pl _ n 0 st Hc Hn Ee).
Qed.

(* ------------------------------------------------------------------ sequential signings to one destination *)
Fixpoint jobs_ok (pd : path) (jobs : list job) (s : fsys) : Prop :=
  match jobs with
  | [] => True
  | j :: r => j_pt j <> pd /\ fresh (j_pt j) (j_it j) s /\ check (j_pt j) pd (j_it j) 0 (j_plan j) = Some 2%nat /\
              jobs_ok pd r (srun (ops_of (j_plan j)) s)
  end.
Definition job_content (j : job) (s : fsys) : bytes := idata (srun (ops_of (j_plan j)) s) (j_it j).

(* after a history of completed signings the destination holds the complete output of the last one *)
Theorem history_complete pd : forall jobs j s0,
  jobs_ok pd (jobs ++ [j]) s0 ->
  sread (run_jobs (jobs ++ [j]) s0) pd = Some (job_content j (run_jobs jobs s0)).
Proof.
  induction jobs as [|x jobs IH]; intros j s0 H.
  - cbn in *. destruct H as (H1 & (F1 & F2 & F3) & H3 & _).
    apply (protocol_complete_read _ pd _ s0 H1 F2 F3 _ H3).
  - cbn [app run_jobs jobs_ok] in *. destruct H as (_ & _ & _ & H). apply IH, H.
Qed.

(* the next signing, killed at any point, leaves the previous complete output or its own complete output *)
Theorem history_crash pd : forall jobs j s0 k,
  jobs_ok pd (jobs ++ [j]) s0 ->
  let s1 := run_jobs jobs s0 in
  let s := scrash k (j_plan j) s1 in
  spec_dest_old_or_new pd (job_content j s1) s1 s /\ spec_dest_not_lost pd s1 s /\ spec_inodes_untouched (j_it j) s1 s.
Proof.
  induction jobs as [|x jobs IH]; intros j s0 k H.
  - cbn in *. destruct H as (H1 & (F1 & F2 & F3) & H3 & _).
    destruct (protocol_crash_read _ pd _ s0 H1 F1 F2 F3 _ _ k H3) as (A & B & C & _). repeat split; assumption.
  - cbn [app run_jobs jobs_ok] in *. destruct H as (_ & _ & _ & H). apply IH, H.
Qed.
