From Relic Require Import Base.Prelude Generated.C13_gen C13.Model.

Lemma commit_ops_eq : commit_ops = [Chmod; CloseF; Rename].
Proof. reflexivity. Qed.
Lemma close_ops_eq : close_ops = [CloseF; RemoveTemp].
Proof. reflexivity. Qed.

(* state while filling: dest untouched, temp holds what was written so far *)
Lemma fill_state inp old writes edits :
  run_ops ([CreateTemp] ++ map Write writes ++ map Edit edits) (mkFs inp old None)
  = mkFs inp old (Some (final_content writes edits)).
Proof.
  unfold run_ops, final_content. cbn [app fold_left step f_input f_dest f_temp].
  rewrite fold_left_app.
  assert (H1 : forall ws acc, fold_left step (map Write ws) (mkFs inp old (Some acc)) = mkFs inp old (Some (acc ++ concat ws))).
  { induction ws as [|w ws IH]; intros acc; cbn [map fold_left concat].
    - now rewrite app_nil_r.
    - cbn [step f_input f_dest f_temp option_map]. rewrite IH. now rewrite <- app_assoc. }
  rewrite H1. cbn [app].
  assert (H2 : forall es t, fold_left step (map Edit es) (mkFs inp old (Some t)) = mkFs inp old (Some (fold_left (fun t f => f t) es t))).
  { induction es as [|e es IH]; intros t; cbn [map fold_left]; [reflexivity|].
    cbn [step f_input f_dest f_temp option_map]. apply IH. }
  apply H2.
Qed.

(* every prefix of the filling phase leaves dest and input untouched *)
Lemma prefix_fill_untouched inp old (ops : list op) :
  Forall (fun o => match o with CreateTemp | Write _ | Edit _ | Chmod | CloseF | RemoveTemp => True | _ => False end) ops ->
  forall s, f_dest s = old -> f_input s = inp ->
  f_dest (run_ops ops s) = old /\ f_input (run_ops ops s) = inp.
Proof.
  induction 1 as [|o ops Ho _ IH]; intros s Hd Hi; [split; assumption|].
  unfold run_ops in *. cbn [fold_left]. apply IH; destruct o; try contradiction; cbn; try assumption;
  destruct (f_temp s); assumption.
Qed.

Lemma firstn_In' {A} (x : A) k l : In x (firstn k l) -> In x l.
Proof.
  revert l; induction k as [|k IH]; intros [|y l]; cbn; try tauto.
  intros [H|H]; [left; exact H|right; apply IH; exact H].
Qed.

Lemma firstn_app_cases {A} (k : nat) (a b : list A) :
  (k <= length a /\ firstn k (a ++ b) = firstn k a)%nat \/
  (exists j, k = length a + j /\ firstn k (a ++ b) = a ++ firstn j b)%nat.
Proof.
  destruct (Nat.le_gt_cases k (length a)) as [H|H].
  - left. split; [assumption|]. rewrite firstn_app. replace (k - length a)%nat with 0%nat by lia. cbn. apply app_nil_r.
  - right. exists (k - length a)%nat. split; [lia|]. rewrite firstn_app. rewrite firstn_all2 by lia. reflexivity.
Qed.

Lemma crash_safe inp old writes edits k :
  let ops := success_ops writes edits in
  let s := crash k ops (mkFs inp old None) in
  (f_dest s = old \/ f_dest s = Some (final_content writes edits)) /\
  (old <> None -> f_dest s <> None) /\
  f_input s = inp.
Proof.
  cbv zeta. unfold success_ops, crash. rewrite commit_ops_eq.
  set (fill := [CreateTemp] ++ map Write writes ++ map Edit edits).
  replace ([CreateTemp] ++ map Write writes ++ map Edit edits ++ [Chmod; CloseF; Rename])
    with (fill ++ [Chmod; CloseF; Rename]) by (unfold fill; now rewrite <- !app_assoc).
  destruct (firstn_app_cases k fill [Chmod; CloseF; Rename]) as [[Hk E]|[j [Hk E]]]; rewrite E.
  - assert (Hall : Forall (fun o => match o with CreateTemp | Write _ | Edit _ | Chmod | CloseF | RemoveTemp => True | _ => False end) (firstn k fill)).
    { apply Forall_forall. intros o Ho. apply firstn_In' in Ho. unfold fill in Ho.
      cbn [app] in Ho. destruct Ho as [<-|Ho]; [exact I|].
      apply in_app_or in Ho as [Ho|Ho]; apply in_map_iff in Ho as [x [<- _]]; exact I. }
    destruct (prefix_fill_untouched inp old _ Hall (mkFs inp old None) eq_refl eq_refl) as [Hd Hi].
    rewrite Hd, Hi. repeat split; auto.
  - unfold run_ops. rewrite fold_left_app. fold (run_ops fill (mkFs inp old None)). unfold fill. rewrite fill_state.
    destruct j as [|[|[|j]]]; cbn; rewrite ?firstn_nil; cbn; repeat split; auto; try congruence.
Qed.

Lemma complete_run inp old writes edits :
  run_ops (success_ops writes edits) (mkFs inp old None) = mkFs inp (Some (final_content writes edits)) None.
Proof.
  unfold success_ops. rewrite commit_ops_eq.
  replace ([CreateTemp] ++ map Write writes ++ map Edit edits ++ [Chmod; CloseF; Rename])
    with (([CreateTemp] ++ map Write writes ++ map Edit edits) ++ [Chmod; CloseF; Rename]) by (now rewrite <- !app_assoc).
  unfold run_ops. rewrite fold_left_app. fold (run_ops ([CreateTemp] ++ map Write writes ++ map Edit edits) (mkFs inp old None)).
  rewrite fill_state. reflexivity.
Qed.

Lemma handled_error_clean inp old writes edits :
  run_ops (error_ops true writes edits) (mkFs inp old None) = mkFs inp old None.
Proof.
  unfold error_ops. rewrite close_ops_eq.
  replace ([CreateTemp] ++ map Write writes ++ map Edit edits ++ [CloseF; RemoveTemp])
    with (([CreateTemp] ++ map Write writes ++ map Edit edits) ++ [CloseF; RemoveTemp]) by (now rewrite <- !app_assoc).
  unfold run_ops. rewrite fold_left_app. fold (run_ops ([CreateTemp] ++ map Write writes ++ map Edit edits) (mkFs inp old None)).
  rewrite fill_state. reflexivity.
Qed.

Lemma all_strategies_defer_close : forallb (fun b => b) strategies_defer_close = true.
Proof. reflexivity. Qed.

(* the pre-fix order (remove, then rename) has a window with no destination *)
Lemma remove_first_refuted :
  exists k, f_dest (crash k ([CreateTemp; Write [1]] ++ [Chmod; CloseF; RemoveDest; Rename]) (mkFs [] (Some [0]) None)) = None.
Proof. exists 5%nat. reflexivity. Qed.
