(* C13/Fs.v — a file system with names, inodes and symbolic links; system-call level operations; plans (operation
   lists with the error handling of every step); crash and fault semantics; the observations the property speaks about.
   Executable definitions only.  The one assumed primitive is the atomicity of rename(2). *)
From Relic Require Import Base.Prelude.

Definition path := Z.
Definition ino := Z.

Inductive entry :=
| EFile (i : ino)          (* a name of a regular file (hard links: several names, one inode) *)
| ELink (q : path)         (* symbolic link to the name q *)
| ESpecial.                (* device, pipe, directory: not a regular file *)

Record fsys := mkFsys { dirent : path -> option entry; idata : ino -> bytes; sout : bytes }.

Definition set_dir (s : fsys) (p : path) (e : option entry) : fsys :=
  mkFsys (fun q => if q =? p then e else dirent s q) (idata s) (sout s).
Definition set_data (s : fsys) (i : ino) (d : bytes) : fsys :=
  mkFsys (dirent s) (fun j => if j =? i then d else idata s j) (sout s).

(* what a reader that opens the name sees (one level of symbolic links, as open(2) on a link to a regular file) *)
Definition resolve (s : fsys) (p : path) : option ino :=
  match dirent s p with
  | Some (EFile i) => Some i
  | Some (ELink q) => match dirent s q with Some (EFile i) => Some i | _ => None end
  | _ => None
  end.
Definition sread (s : fsys) (p : path) : option bytes := option_map (idata s) (resolve s p).

(* ------------------------------------------------------------------ operations *)
Inductive sop :=
| SCreate (p : path) (i : ino)            (* openat(p, O_CREAT|O_EXCL): new name p, new empty inode i *)
| SWrite (i : ino) (d : bytes)            (* write(2) on a descriptor that is only ever appended to *)
| SCopy (src dst : ino) (off n : Z)       (* copy_file_range / read+write: append src[off, off+n) to dst *)
| SPWrite (i : ino) (off : Z) (d : bytes) (* pwrite64 *)
| STrunc (i : ino) (n : Z)                (* ftruncate *)
| SNop (k : Z)                            (* lseek, (f/l)stat, read, pread, close, fchmod: names and contents unaffected *)
| SRename (a b : path)                    (* rename(a, b): atomic replace *)
| SUnlink (p : path)
| SStdout (d : bytes)                     (* write to descriptor 1 *)
| SOpen (p : path) (i : ino) (creat trunc : bool).
    (* open(p, O_WRONLY [|O_CREAT] [|O_TRUNC]) of an existing name p itself - NOT a new sibling: an existing regular file
       (followed through one symbolic link) is cut to length 0 when trunc; an absent name is created empty (inode i) when creat *)

(* kinds of the no-effect calls (used only to compare with the traced system calls) *)
Definition K_CHMOD := 3.      Definition K_CLOSE_TMP := 4.   Definition K_SEEK_IN := 10.  Definition K_CLOSE_IN := 11.
Definition K_STAT_DEST := 12. Definition K_FSTAT_IN := 13.   Definition K_READ_IN := 14.  Definition K_SEEK_TMP := 15.
Definition K_PREAD_TMP := 16. Definition K_CHECK := 21.      Definition K_READ_RESULT := 22. Definition K_CLOSE_STDOUT := 23.
Definition K_PREAD_IN := 24.  Definition K_OPEN_DEST := 25.  Definition K_SEEK_DEST := 26.   Definition K_READ_DEST := 27.
Definition K_CLOSE_DEST := 29.

Definition zpad (n : Z) (l : bytes) : bytes := l ++ repeat 0 (Z.to_nat (n - zlen l)).
Definition pwrite_bytes (old : bytes) (off : Z) (d : bytes) : bytes :=
  ztake off (zpad off old) ++ d ++ zdrop (off + zlen d) old.
Definition trunc_bytes (n : Z) (old : bytes) : bytes := ztake n (zpad n old).

Definition sstep (s : fsys) (o : sop) : fsys :=
  match o with
  | SCreate p i => set_data (set_dir s p (Some (EFile i))) i []
  | SWrite i d => set_data s i (idata s i ++ d)
  | SCopy src dst off n => set_data s dst (idata s dst ++ zslice off (off + n) (idata s src))
  | SPWrite i off d => set_data s i (pwrite_bytes (idata s i) off d)
  | STrunc i n => set_data s i (trunc_bytes n (idata s i))
  | SNop _ => s
  | SRename a b => if a =? b then s else
                   match dirent s a with Some e => set_dir (set_dir s b (Some e)) a None | None => s end
  | SUnlink p => set_dir s p None
  | SStdout d => mkFsys (dirent s) (idata s) (sout s ++ d)
  | SOpen p i creat trunc =>
      match resolve s p with
      | Some j => if trunc then set_data s j [] else s
      | None =>
          if creat then
            match dirent s p with
            | None => set_data (set_dir s p (Some (EFile i))) i []
            | Some (ELink q) => match dirent s q with None => set_data (set_dir s q (Some (EFile i))) i [] | Some _ => s end
            | Some _ => s
            end
          else s
      end
  end.
Definition srun (ops : list sop) (s : fsys) : fsys := fold_left sstep ops s.

(* ------------------------------------------------------------------ plans *)
Inductive onerr := Ignore | Abort.
(* one system call of the output phase: what it does, what the code does when it returns an error (go on / give up after
   running the clean-up calls), and whether it fails by itself on these inputs (short input, patches out of order) *)
Record pstep := mkP { p_op : sop; p_onerr : onerr; p_cleanup : list sop; p_natfail : bool }.
Definition ops_of (pl : list pstep) : list sop := map p_op pl.

(* SIGKILL after k completed calls *)
Definition scrash (k : nat) (pl : list pstep) (s : fsys) : fsys := srun (firstn k (ops_of pl)) s.

(* what a call that returns an error may have done before: a prefix of the data (ENOSPC after a short write) *)
Definition partial (o : sop) (m : Z) : list sop :=
  match o with
  | SWrite i d => [SWrite i (ztake m d)]
  | SCopy src dst off n => [SCopy src dst off (Z.max 0 (Z.min m n))]
  | SPWrite i off d => [SPWrite i off (ztake m d)]
  | SStdout d => [SStdout (ztake m d)]
  | _ => []
  end.

(* the n-th call fails (having transferred at most m bytes); the code either ignores that or runs its clean-up and returns *)
Definition fault (n : nat) (m : Z) (pl : list pstep) (s : fsys) : fsys :=
  let s1 := srun (firstn n (ops_of pl)) s in
  match nth_error pl n with
  | None => s1
  | Some st =>
      let s2 := srun (partial (p_op st) m) s1 in
      match p_onerr st with
      | Ignore => srun (skipn (S n) (ops_of pl)) s2
      | Abort => srun (p_cleanup st) s2
      end
  end.

(* the same, but the callee goes on for `extra` more calls before the error surfaces (a library that drops a write error and
   keeps writing; relic's sticky writer reports it when the call returns) *)
Definition fault_delayed (n : nat) (m : Z) (extra : nat) (pl : list pstep) (s : fsys) : fsys :=
  let s1 := srun (firstn n (ops_of pl)) s in
  match nth_error pl n with
  | None => s1
  | Some st => srun (p_cleanup st) (srun (firstn extra (skipn (S n) (ops_of pl))) (srun (partial (p_op st) m) s1))
  end.

(* the same, when the unlink of the clean-up fails as well (a second error inside the error handler) *)
Definition is_unlink (o : sop) : bool := match o with SUnlink _ => true | _ => false end.
Definition fault_unlink_fails (n : nat) (m : Z) (pl : list pstep) (s : fsys) : fsys :=
  let s1 := srun (firstn n (ops_of pl)) s in
  match nth_error pl n with
  | None => s1
  | Some st =>
      let s2 := srun (partial (p_op st) m) s1 in
      match p_onerr st with
      | Ignore => srun (skipn (S n) (ops_of pl)) s2
      | Abort => srun (filter (fun o => negb (is_unlink o)) (p_cleanup st)) s2
      end
  end.

(* the first step that fails by itself, if any; the outcome of the whole output phase *)
Fixpoint natural_fault (pl : list pstep) : option nat :=
  match pl with
  | [] => None
  | st :: r => if p_natfail st then Some O else option_map S (natural_fault r)
  end.
Definition outcome (pl : list pstep) (s : fsys) : fsys :=
  match natural_fault pl with
  | None => srun (ops_of pl) s
  | Some n => fault n 0 pl s
  end.

(* ------------------------------------------------------------------ the write-rename protocol, as a checkable shape *)
Section Protocol.
Variables (pt pd : path) (it : ino).

Definition is_nop (o : sop) : bool := match o with SNop _ => true | _ => false end.
Definition is_unlink_t (o : sop) : bool := match o with SUnlink p => p =? pt | _ => false end.
Definition is_abort (e : onerr) : bool := match e with Abort => true | Ignore => false end.
(* touches nothing but the contents of the temporary's inode *)
Definition local_op (o : sop) : bool :=
  match o with
  | SWrite i _ | SPWrite i _ _ | STrunc i _ => i =? it
  | SCopy _ dst _ _ => dst =? it
  | SNop _ => true
  | _ => false
  end.
Definition cleanup_none (c : list sop) : bool := forallb is_nop c.
Definition cleanup_removes (c : list sop) : bool :=
  existsb is_unlink_t c && forallb (fun o => is_nop o || is_unlink_t o) c.
(* while the temporary exists: only its contents change; a failing data call must never be ignored; giving up must unlink it *)
(* a step that fails by itself (short input, patches out of order) must be one whose failure is not ignored *)
Definition natfail_ok (st : pstep) : bool := negb (p_natfail st) || is_abort (p_onerr st).
Definition step_ok1 (st : pstep) : bool :=
  local_op (p_op st) &&
  match p_onerr st with
  | Abort => cleanup_removes (p_cleanup st)
  | Ignore => is_nop (p_op st) && negb (p_natfail st)
  end.

(* phases: 0 nothing created yet, 1 temporary exists, 2 renamed over the destination (nothing may follow) *)
Fixpoint check (ph : nat) (pl : list pstep) : option nat :=
  match pl with
  | [] => Some ph
  | st :: r =>
      match ph with
      | O => match p_op st with
             | SNop _ => if cleanup_none (p_cleanup st) && natfail_ok st then check 0 r else None
             | SCreate p i => if (p =? pt) && (i =? it) && is_abort (p_onerr st) && cleanup_none (p_cleanup st)
                              then check 1 r else None
             | _ => None
             end
      | S O => match p_op st with
               | SRename a b => if (a =? pt) && (b =? pd) && is_abort (p_onerr st) && cleanup_removes (p_cleanup st)
                                then check 2 r else None
               | _ => if step_ok1 st then check 1 r else None
               end
      | _ => None
      end
  end.
End Protocol.

(* ------------------------------------------------------------------ independent statement of the property (SPEC) *)
(* s0: before the output phase; s: what is on disk afterwards; new: the complete new content *)
Definition spec_dest_old_or_new (pd : path) (new : bytes) (s0 s : fsys) : Prop :=
  sread s pd = sread s0 pd \/ sread s pd = Some new.
Definition spec_dest_not_lost (pd : path) (s0 s : fsys) : Prop :=
  sread s0 pd <> None -> sread s pd <> None.
(* every inode that existed keeps its content: in particular the input file, under whatever names it has *)
Definition spec_inodes_untouched (it : ino) (s0 s : fsys) : Prop :=
  forall i, i <> it -> idata s i = idata s0 i.
(* every other name reads as before (names that are links to the destination follow the destination) *)
Definition spec_other_names (pt pd : path) (s0 s : fsys) : Prop :=
  forall q, q <> pt -> q <> pd -> dirent s0 q <> Some (ELink pd) -> sread s q = sread s0 q /\ dirent s q = dirent s0 q.
Definition spec_no_temp (pt : path) (s : fsys) : Prop := dirent s pt = None.

(* the temporary's name and inode are new, and nothing points at the name *)
Definition fresh (pt : path) (it : ino) (s0 : fsys) : Prop :=
  dirent s0 pt = None /\ (forall q, dirent s0 q <> Some (EFile it)) /\ (forall q, dirent s0 q <> Some (ELink pt)).

(* everything the property says about one output phase, for a plan pl run from s0 with temporary (pt, it) and destination pd *)
Definition safe_plan (pt pd : path) (it : ino) (s0 : fsys) (pl : list pstep) : Prop :=
  let done := srun (ops_of pl) s0 in
  let new := idata done it in
  (* killed after any number k of completed calls *)
  (forall k, let s := scrash k pl s0 in
     spec_dest_old_or_new pd new s0 s /\ spec_dest_not_lost pd s0 s /\ spec_inodes_untouched it s0 s /\ spec_other_names pt pd s0 s) /\
  (* normal completion *)
  (sread done pd = Some new /\ spec_no_temp pt done /\ spec_inodes_untouched it s0 done /\ spec_other_names pt pd s0 done) /\
  (* an error returned by the n-th call, whichever it is *)
  (forall n m st, nth_error pl n = Some st ->
     match p_onerr st with
     | Abort => let s := fault n m pl s0 in
                (forall p, sread s p = sread s0 p) /\ spec_no_temp pt s /\ spec_inodes_untouched it s0 s
     | Ignore => fault n m pl s0 = done
     end) /\
  (* the errors the inputs themselves cause (short input, patches out of order) *)
  (forall n, natural_fault pl = Some n ->
     let s := outcome pl s0 in (forall p, sread s p = sread s0 p) /\ spec_no_temp pt s /\ spec_inodes_untouched it s0 s).

(* a history of signings to the same destination, each with its own temporary *)
Record job := mkJob { j_pt : path; j_it : ino; j_plan : list pstep }.
Fixpoint run_jobs (jobs : list job) (s : fsys) : fsys :=
  match jobs with [] => s | j :: r => run_jobs r (srun (ops_of (j_plan j)) s) end.
