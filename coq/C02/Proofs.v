(* C02/Proofs.v — lemmas for C02/Properties.v.
   Part A: soundness of the error-flow analysis (for every program of the statement language and every oracle).
   Part B: the verification command: verifyOne refines the hand model and meets the SPEC; the command is a fold; exit status.
   Part C: dispatch, option flow, reviewed tables. *)
From Relic Require Import Base.Prelude C02.IR Generated.C02_gen C02.Model.
Local Open Scope nat_scope.

(* ================================================================== A. error-flow analysis *)
Lemma nth_upd_same {A} (d : A) l i x : nth i (upd d l i x) d = x.
Proof. revert l; induction i as [|i IH]; intros [|h t]; cbn; auto. Qed.
Lemma nth_upd_other {A} (d : A) l i j x : i <> j -> nth j (upd d l i x) d = nth j l d.
Proof.
  revert l j; induction i as [|i IH]; intros [|h t] [|j] H; cbn; try congruence; auto.
  - destruct j; reflexivity.
  - rewrite IH by congruence. destruct j; reflexivity.
Qed.

Definition R (env : list errval) (a : list aval) : Prop := forall v, in_gamma (eget env v) (aget a v).

Lemma R_nil : R [] [].
Proof. intros v. unfold eget. destruct v; cbn; exact I. Qed.

Lemma R_upd env a i v x : R env a -> in_gamma v x -> R (upd None env i v) (upd AN a i x).
Proof.
  intros HR Hv j. unfold eget, aget. destruct (Nat.eq_dec i j) as [->|Hne].
  - rewrite !nth_upd_same. exact Hv.
  - rewrite !nth_upd_other by exact Hne. apply HR.
Qed.

Lemma in_gamma_nil a : in_gamma None a.
Proof. exact I. Qed.

Lemma exempt_any ex s k :
  existsb (fun e => Nat.eqb (fst e) s && Nat.eqb (snd e) 0) ex = true -> exempt ex (OSite s, k) = true.
Proof.
  intros H. cbn. apply existsb_exists in H as [e [Hin He]]. apply existsb_exists. exists e. split; [exact Hin|].
  apply andb_true_iff in He as [H1 H2]. rewrite H1, H2. reflexivity.
Qed.

Lemma in_gamma_exempt ex x a : in_gamma (Some x) a -> aval_exempt ex a = true -> exempt ex x = true.
Proof.
  destruct x as [o k]. destruct a as [|os ks]; cbn [in_gamma]; [tauto|]. intros [Ho Hk] H.
  cbn [aval_exempt] in H. rewrite forallb_forall in H. specialize (H o Ho). destruct ks as [l|].
  - rewrite forallb_forall in H. apply H. exact Hk.
  - destruct o as [s|t]; [|discriminate]. apply exempt_any. exact H.
Qed.

Lemma in_gamma_join_l v a b : in_gamma v a -> in_gamma v (ajoin a b).
Proof.
  destruct v as [[o k]|]; [|intros; exact I]. destruct a as [|o1 k1]; cbn; [tauto|]. intros [H1 H2]. destruct b as [|o2 k2]; cbn.
  - split; assumption.
  - split; [apply in_or_app; left; exact H1|]. destruct k1, k2; auto. apply in_or_app. left. exact H2.
Qed.
Lemma in_gamma_join_r v a b : in_gamma v b -> in_gamma v (ajoin a b).
Proof.
  destruct v as [[o k]|]; [|intros; exact I]. destruct b as [|o2 k2]; cbn; [tauto|]. intros [H1 H2]. destruct a as [|o1 k1]; cbn.
  - split; assumption.
  - split; [apply in_or_app; right; exact H1|]. destruct k1, k2; auto. apply in_or_app. right. exact H2.
Qed.

Lemma aget_ejoin a b v : aget (ejoin a b) v = ajoin (aget a v) (aget b v).
Proof.
  unfold aget. revert b v; induction a as [|x a IH]; intros b v.
  - cbn [ejoin]. destruct b; destruct v; reflexivity.
  - destruct b as [|y b].
    + cbn [ejoin]. replace (nth v [] AN) with AN by (destruct v; reflexivity). destruct (nth v (x :: a) AN); reflexivity.
    + cbn [ejoin]. destruct v; cbn [nth]; [reflexivity|apply IH].
Qed.

Lemma R_ejoin_l env a b : R env a -> R env (ejoin a b).
Proof. intros H v. rewrite aget_ejoin. apply in_gamma_join_l, H. Qed.
Lemma R_ejoin_r env a b : R env b -> R env (ejoin a b).
Proof. intros H v. rewrite aget_ejoin. apply in_gamma_join_r, H. Qed.

Lemma origin_eqb_eq a b : origin_eqb a b = true -> a = b.
Proof. destruct a, b; cbn; intros H; try discriminate; apply Nat.eqb_eq in H; congruence. Qed.

Lemma subset_in {A} (eqb : A -> A -> bool) (Heq : forall x y, eqb x y = true -> x = y) a b x :
  subset eqb a b = true -> In x a -> In x b.
Proof.
  unfold subset. rewrite forallb_forall. intros H Hin. specialize (H x Hin). apply existsb_exists in H as [y [Hy He]].
  apply Heq in He. subst. exact Hy.
Qed.

Lemma aleq_sound v a b : aleq a b = true -> in_gamma v a -> in_gamma v b.
Proof.
  destruct v as [[o k]|]; [|intros; exact I]. destruct a as [|o1 k1]; cbn [in_gamma]; [tauto|]. destruct b as [|o2 k2]; cbn [aleq]; [discriminate|].
  intros H [Ho Hk]. apply andb_true_iff in H as [H1 H2]. split.
  - eapply subset_in; [exact origin_eqb_eq|exact H1|exact Ho].
  - destruct k2 as [l2|]; [|exact I]. destruct k1 as [l1|]; [|discriminate].
    eapply subset_in; [intros x y E; apply Nat.eqb_eq; exact E|exact H2|exact Hk].
Qed.

Lemma eleq_aget a b v : eleq a b = true -> aleq (aget a v) (aget b v) = true.
Proof.
  unfold aget. revert b v; induction a as [|x a IH]; intros b v H.
  - replace (nth v [] AN) with AN by (destruct v; reflexivity). reflexivity.
  - cbn [eleq] in H. apply andb_true_iff in H as [H1 H2]. destruct v.
    + cbn [nth]. destruct b; exact H1.
    + specialize (IH (tl b) v H2). destruct b as [|y b]; cbn [tl] in IH; cbn [nth].
      * destruct v; exact IH.
      * exact IH.
Qed.

Lemma eleq_sound env a b : eleq a b = true -> R env a -> R env b.
Proof. intros H HR v. eapply aleq_sound; [apply eleq_aget; exact H|apply HR]. Qed.

Lemma refine_sound o path s c : forall bv a, ceval o path s c = bv -> R (s_err s) a -> R (s_err s) (refine c bv a).
Proof.
  induction c as [v|v|v k|op x y|f|f|k|c IH|c1 IH1 c2 IH2|c1 IH1 c2 IH2]; intros bv a Hc HR; cbn [refine]; try exact HR.
  - destruct bv; [|exact HR]. cbn [ceval] in Hc. intros j. destruct (Nat.eq_dec v j) as [->|Hne].
    + unfold aget. rewrite nth_upd_same. destruct (eget (s_err s) j); [discriminate|exact I].
    + unfold aget. rewrite nth_upd_other by exact Hne. apply HR.
  - destruct bv; [exact HR|]. cbn [ceval] in Hc. intros j. destruct (Nat.eq_dec v j) as [->|Hne].
    + unfold aget. rewrite nth_upd_same. destruct (eget (s_err s) j); [discriminate|exact I].
    + unfold aget. rewrite nth_upd_other by exact Hne. apply HR.
  - destruct bv; [|exact HR]. cbn [ceval] in Hc. pose proof (HR v) as Hv. destruct (aget a v) as [|os ks] eqn:Ea; [exact HR|].
    intros j. destruct (Nat.eq_dec v j) as [->|Hne].
    + unfold aget. rewrite nth_upd_same. destruct (eget (s_err s) j) as [[og k']|]; [|exact I].
      cbn [in_gamma] in Hv |- *. destruct Hv as [Ho _]. split; [exact Ho|]. apply Nat.eqb_eq in Hc. subst. left. reflexivity.
    + unfold aget. rewrite nth_upd_other by exact Hne. apply HR.
  - apply IH; [|exact HR]. cbn [ceval] in Hc. rewrite <- Hc. rewrite negb_involutive. reflexivity.
  - destruct bv; [|exact HR]. cbn [ceval] in Hc. apply andb_true_iff in Hc as [H1 H2]. apply IH2; [exact H2|]. apply IH1; [exact H1|exact HR].
  - destruct bv; [exact HR|]. cbn [ceval] in Hc. apply orb_false_iff in Hc as [H1 H2]. apply IH2; [exact H2|]. apply IH1; [exact H1|exact HR].
Qed.

(* what is alive in the variables outside keep is what `others` collects *)
Lemma others_from_in i env keep x : In x (others_from i env keep) <-> exists j, mem (i + j) keep = false /\ nth j env None = Some x.
Proof.
  revert i; induction env as [|v t IH]; intros i; cbn [others_from].
  - split; [intros []|]. intros [j [_ H]]. destruct j; discriminate.
  - rewrite in_app_iff, IH. split.
    + intros [H|[j [H1 H2]]].
      * exists 0. rewrite Nat.add_0_r. destruct (mem i keep); [destruct H|]. split; [reflexivity|]. destruct v; cbn in H; [destruct H as [<-|[]]; reflexivity|destruct H].
      * exists (S j). rewrite <- plus_n_Sm. split; assumption.
    + intros [[|j] [H1 H2]].
      * left. rewrite Nat.add_0_r in H1. rewrite H1. cbn in H2. subst v. left. reflexivity.
      * right. exists j. rewrite <- plus_n_Sm in H1. split; assumption.
Qed.
Lemma others_in env keep x : In x (others env keep) <-> exists j, mem j keep = false /\ eget env j = Some x.
Proof. unfold others. rewrite others_from_in. reflexivity. Qed.

Lemma all_exempt_from_nth ex i a keep j : all_exempt_from ex i a keep = true -> mem (i + j) keep = false -> aval_exempt ex (nth j a AN) = true.
Proof.
  revert i j; induction a as [|x t IH]; intros i j H Hk.
  - destruct j; reflexivity.
  - cbn [all_exempt_from] in H. apply andb_true_iff in H as [H1 H2]. destruct j.
    + rewrite Nat.add_0_r in Hk. rewrite Hk in H1. exact H1.
    + cbn [nth]. apply (IH (S i) j H2). rewrite <- plus_n_Sm in Hk. exact Hk.
Qed.

Lemma others_exempt ex env a keep x : all_exempt ex a keep = true -> R env a -> In x (others env keep) -> exempt ex x = true.
Proof.
  intros H HR Hin. apply others_in in Hin as [j [Hk Hj]]. pose proof (HR j) as Hg. rewrite Hj in Hg.
  eapply in_gamma_exempt; [exact Hg|]. apply (all_exempt_from_nth ex 0 a keep j H Hk).
Qed.

(* ------------------------------------------------------------------ invariant *)
Definition Inv (ex : exemptions) (s : st) : Prop :=
  (forall x, In x (s_lost s) -> exempt ex x = true) /\
  (forall x, In x (failed_calls s) -> In x (s_lost s) \/ In x (s_passed s) \/ exists v, eget (s_err s) v = Some x).
(* at a return with value v *)
Definition Fin (ex : exemptions) (v : errval) (s : st) : Prop :=
  (forall x, In x (s_lost s) -> exempt ex x = true) /\
  (forall x, In x (failed_calls s) -> In x (s_lost s) \/ In x (s_passed s) \/ v = Some x).

Definition covers (x y : option (list aval)) : Prop :=
  forall a' env, x = Some a' -> R env a' -> exists a'', y = Some a'' /\ R env a''.
Lemma covers_refl x : covers x x.
Proof. intros a' env H HR. exists a'. split; assumption. Qed.
Lemma covers_ojoin_l x y : covers x (ojoin x y).
Proof.
  intros a' env -> HR. destruct y as [b|]; cbn.
  - exists (ejoin a' b). split; [reflexivity|apply R_ejoin_l; exact HR].
  - exists a'. split; [reflexivity|exact HR].
Qed.
Lemma covers_ojoin_r x y : covers y (ojoin x y).
Proof.
  intros a' env -> HR. destruct x as [b|]; cbn.
  - exists (ejoin b a'). split; [reflexivity|apply R_ejoin_r; exact HR].
  - exists a'. split; [reflexivity|exact HR].
Qed.
Lemma covers_trans x y z : covers x y -> covers y z -> covers x z.
Proof. intros H1 H2 a' env Hx HR. destruct (H1 a' env Hx HR) as [a'' [Hy HR']]. exact (H2 a'' env Hy HR'). Qed.

Definition post (ex : exemptions) (r : compl * st) (n c b : option (list aval)) : Prop :=
  match fst r with
  | KNorm => exists a', n = Some a' /\ R (s_err (snd r)) a' /\ Inv ex (snd r)
  | KCont => exists a', c = Some a' /\ R (s_err (snd r)) a' /\ Inv ex (snd r)
  | KBrk => exists a', b = Some a' /\ R (s_err (snd r)) a' /\ Inv ex (snd r)
  | KRet v => Fin ex v (snd r)
  | KExit _ => True
  | KStuck => False
  end.

Lemma post_weaken ex r n c b n' c' b' : post ex r n c b -> covers n n' -> covers c c' -> covers b b' -> post ex r n' c' b'.
Proof.
  unfold post. destruct r as [k s]; cbn [fst snd]. destruct k; auto; intros [a' [E [HR HI]]] Hn Hc Hb.
  - destruct (Hn a' _ E HR) as [a'' [E' HR']]. exists a''. auto.
  - destruct (Hc a' _ E HR) as [a'' [E' HR']]. exists a''. auto.
  - destruct (Hb a' _ E HR) as [a'' [E' HR']]. exists a''. auto.
Qed.

Lemma failed_calls_app s site path k :
  failed_calls (log_call s site path k) = failed_calls s ++ match k with S k' => [(OSite site, k')] | O => [] end.
Proof. unfold failed_calls, log_call. cbn [s_calls]. rewrite flat_map_app. cbn. destruct k; cbn; rewrite ?app_nil_r; reflexivity. Qed.

(* an error value moves from a variable to the lost list, a new value is stored *)
Lemma Inv_store ex s x v newfail :
  Inv ex s ->
  (forall y, eget (s_err s) x = Some y -> exempt ex y = true) ->
  forall s', s_err s' = upd None (s_err s) x v ->
             s_lost s' = s_lost s ++ opt_list (eget (s_err s) x) ->
             s_passed s' = s_passed s ->
             failed_calls s' = failed_calls s ++ newfail ->
             (forall y, In y newfail -> v = Some y) ->
             Inv ex s'.
Proof.
  intros [H1 H2] Hold s' Ee El Ep Ef Hnew. split.
  - intros y Hy. rewrite El in Hy. apply in_app_or in Hy as [Hy|Hy]; [apply H1; exact Hy|].
    destruct (eget (s_err s) x) as [z|] eqn:E; cbn in Hy; [|destruct Hy]. destruct Hy as [<-|[]]. apply Hold. reflexivity.
  - intros y Hy. rewrite Ef in Hy. apply in_app_or in Hy as [Hy|Hy].
    + destruct (H2 y Hy) as [H|[H|[w Hw]]].
      * left. rewrite El. apply in_or_app. left. exact H.
      * right. left. rewrite Ep. exact H.
      * destruct (Nat.eq_dec x w) as [->|Hne].
        -- left. rewrite El, Hw. apply in_or_app. right. left. reflexivity.
        -- right. right. exists w. rewrite Ee. unfold eget. rewrite nth_upd_other by exact Hne. exact Hw.
    + right. right. exists x. rewrite Ee. unfold eget. rewrite nth_upd_same. apply Hnew. exact Hy.
Qed.

Lemma Inv_same ex s s' :
  Inv ex s -> s_err s' = s_err s -> s_lost s' = s_lost s -> s_passed s' = s_passed s -> failed_calls s' = failed_calls s -> Inv ex s'.
Proof. intros [H1 H2] Ee El Ep Ef. split; [rewrite El; exact H1|]. rewrite Ef, El, Ep, Ee. exact H2. Qed.

Lemma aeval_sound env a e : R env a -> in_gamma (eval_e env e) (aeval a e).
Proof.
  intros HR. destruct e as [|v|t|v t]; cbn [eval_e aeval].
  - exact I.
  - apply HR.
  - cbn. split; left; reflexivity.
  - pose proof (HR v) as Hv. destruct (eget env v) as [[o k]|].
    + destruct (aget a v) as [|os ks]; cbn [in_gamma] in Hv; [destruct Hv|]. destruct Hv as [Ho Hk]. cbn [in_gamma]. split; [right; exact Ho|].
      destruct ks; [right; exact Hk|exact I].
    + destruct (aget a v) as [|os ks]; cbn [in_gamma]; [split; left; reflexivity|]. split; [left; reflexivity|]. destruct ks; [left; reflexivity|exact I].
Qed.

Section Sound.
  Variable o : oracle.
  Variable ex : exemptions.

  Lemma iter_sound body a n c b :
    (forall path s, R (s_err s) a -> Inv ex s -> post ex (exec o body path s) n c b) ->
    oleq n a = true -> oleq c a = true ->
    forall k path i s, R (s_err s) a -> Inv ex s -> post ex (iter (exec o body) path k i s) (ojoin (Some a) b) None None.
  Proof.
    intros Hbody Hn Hc. induction k as [|k IH]; intros path i s HR HI.
    - cbn [iter]. unfold post. cbn [fst snd]. destruct (covers_ojoin_l (Some a) b a (s_err s) eq_refl HR) as [a'' [E HR']]. exists a''. auto.
    - cbn [iter]. pose proof (Hbody (i :: path) s HR HI) as Hp. destruct (exec o body (i :: path) s) as [k0 s'] eqn:Ex.
      unfold post in Hp. cbn [fst snd] in Hp. destruct k0.
      + destruct Hp as [a' [E [HR' HI']]]. subst n. apply IH; [|exact HI']. eapply eleq_sound; [exact Hn|exact HR'].
      + destruct Hp as [a' [E [HR' HI']]]. subst c. apply IH; [|exact HI']. eapply eleq_sound; [exact Hc|exact HR'].
      + destruct Hp as [a' [E [HR' HI']]]. unfold post. cbn [fst snd].
        destruct (covers_ojoin_r (Some a) b a' (s_err s') E HR') as [a'' [E' HR'']]. exists a''. auto.
      + exact Hp.
      + exact I.
      + exact Hp.
  Qed.

  Theorem acheck_sound p : forall a n c b path s,
    acheck ex p a = Some (n, c, b) -> R (s_err s) a -> Inv ex s -> post ex (exec o p path s) n c b.
  Proof.
    induction p as [|p1 IH1 p2 IH2|site dst args|x e|x e|tag|cnd th IHt el IHe|l body IHb| | |e|site args|e|h];
      intros a n c b path s Hchk HR HI; cbn [acheck] in Hchk; cbn [exec].
    - (* SSkip *) injection Hchk as <- <- <-. exists a. auto.
    - (* SSeq *)
      destruct (acheck ex p1 a) as [[[n1 c1] b1]|] eqn:E1; [|discriminate].
      pose proof (IH1 a n1 c1 b1 path s E1 HR HI) as P1.
      destruct n1 as [a1|].
      + destruct (acheck ex p2 a1) as [[[n2 c2] b2]|] eqn:E2; [|discriminate]. injection Hchk as <- <- <-.
        destruct (exec o p1 path s) as [k1 s1] eqn:Ex1. unfold post in P1. cbn [fst snd] in P1. destruct k1.
        * destruct P1 as [a' [E [HR1 HI1]]]. injection E as <-.
          eapply post_weaken; [apply (IH2 a1 n2 c2 b2 path s1 E2 HR1 HI1)|apply covers_refl|apply covers_ojoin_r|apply covers_ojoin_r].
        * eapply post_weaken with (n := None) (c := c1) (b := b1); [exact P1| |apply covers_ojoin_l|apply covers_ojoin_l].
          intros ? ? H; discriminate.
        * eapply post_weaken with (n := None) (c := c1) (b := b1); [exact P1| |apply covers_ojoin_l|apply covers_ojoin_l].
          intros ? ? H; discriminate.
        * exact P1.
        * exact I.
        * exact P1.
      + injection Hchk as <- <- <-. destruct (exec o p1 path s) as [k1 s1] eqn:Ex1. unfold post in P1 |- *. cbn [fst snd] in P1 |- *.
        destruct k1; try exact P1. destruct P1 as [a' [E _]]. discriminate.
    - (* SCall *)
      destruct dst as [x| |].
      + destruct (aval_exempt ex (aget a x)) eqn:Eo; [|discriminate]. injection Hchk as <- <- <-.
        unfold post. cbn [fst snd]. eexists. split; [reflexivity|]. split.
        * cbn [set_err s_err add_lost log_call]. apply R_upd; [exact HR|]. unfold mkerr. destruct (o_call o site path); cbn; [exact I|].
          split; [left; reflexivity|exact I].
        * eapply Inv_store with (s := s) (x := x) (v := mkerr site (o_call o site path)); try reflexivity; [exact HI| | |].
          -- intros y Hy. pose proof (HR x) as Hg. rewrite Hy in Hg. eapply in_gamma_exempt; [exact Hg|exact Eo].
          -- cbn [set_err add_lost log_call failed_calls s_calls]. fold (failed_calls (log_call s site path (o_call o site path))).
             change (failed_calls (mkSt (upd None (s_err s) x (mkerr site (o_call o site path))) (s_int s) (s_lost s ++ opt_list (eget (s_err s) x)) (s_passed s)
                       (s_calls s ++ [(site, path, o_call o site path)]) (s_out s)))
               with (failed_calls (log_call s site path (o_call o site path))).
             apply failed_calls_app.
          -- intros y Hy. unfold mkerr. destruct (o_call o site path); [destruct Hy|]. destruct Hy as [<-|[]]. reflexivity.
      + destruct (existsb (fun e => Nat.eqb (fst e) site && Nat.eqb (snd e) 0) ex) eqn:Eo; [|discriminate]. injection Hchk as <- <- <-.
        unfold post. cbn [fst snd]. exists a. split; [reflexivity|]. split; [exact HR|].
        destruct HI as [H1 H2]. split.
        * cbn [add_lost log_call s_lost]. intros y Hy. apply in_app_or in Hy as [Hy|Hy]; [apply H1; exact Hy|].
          unfold mkerr in Hy. destruct (o_call o site path); [destruct Hy|]. destruct Hy as [<-|[]]. apply exempt_any. exact Eo.
        * intros y Hy.
          change (failed_calls (add_lost (log_call s site path (o_call o site path)) (opt_list (mkerr site (o_call o site path)))))
            with (failed_calls (log_call s site path (o_call o site path))) in Hy.
          rewrite failed_calls_app in Hy. cbn [add_lost log_call s_lost s_passed s_err]. apply in_app_or in Hy as [Hy|Hy].
          -- destruct (H2 y Hy) as [H|[H|H]]; [left; apply in_or_app; left; exact H|right; left; exact H|right; right; exact H].
          -- left. apply in_or_app. right. unfold mkerr. destruct (o_call o site path); [destruct Hy|]. exact Hy.
      + injection Hchk as <- <- <-. unfold post. cbn [fst snd]. exists a. split; [reflexivity|]. split; [exact HR|].
        eapply Inv_same; [exact HI|reflexivity|reflexivity|reflexivity|].
        change (failed_calls (log_call s site path 0) = failed_calls s). rewrite failed_calls_app. apply app_nil_r.
    - (* SSet *)
      destruct (mem x (reads e) || aval_exempt ex (aget a x)) eqn:Eo; [|discriminate]. injection Hchk as <- <- <-.
      unfold post. cbn [fst snd]. eexists. split; [reflexivity|]. split.
      + cbn [set_err s_err add_lost]. apply R_upd; [exact HR|apply aeval_sound; exact HR].
      + destruct HI as [H1 H2]. destruct (mem x (reads e)) eqn:Em.
        * (* the variable is read by the expression: its value survives *)
          split; [cbn [set_err add_lost s_lost]; rewrite app_nil_r; exact H1|].
          intros y Hy. cbn [set_err add_lost s_lost s_passed s_err]. rewrite app_nil_r.
          change (failed_calls (set_err (add_lost s []) x (eval_e (s_err s) e))) with (failed_calls s) in Hy.
          destruct (H2 y Hy) as [H|[H|[w Hw]]]; [left; exact H|right; left; exact H|]. right. right.
          destruct (Nat.eq_dec x w) as [->|Hne].
          -- exists w. unfold eget at 1. rewrite nth_upd_same.
             destruct e as [|v|t|v t]; cbn [reads mem existsb] in Em; try discriminate; rewrite orb_false_r in Em; apply Nat.eqb_eq in Em; subst v;
               cbn [eval_e]; rewrite Hw; reflexivity.
          -- exists w. unfold eget at 1. rewrite nth_upd_other by exact Hne. exact Hw.
        * cbn [orb] in Eo. eapply Inv_store with (s := s) (x := x) (v := eval_e (s_err s) e) (newfail := []); try reflexivity.
          -- split; assumption.
          -- intros y Hy. pose proof (HR x) as Hg. rewrite Hy in Hg. eapply in_gamma_exempt; [exact Hg|exact Eo].
          -- cbn. rewrite app_nil_r. reflexivity.
          -- intros y [].
    - (* SSetI *) injection Hchk as <- <- <-. unfold post. cbn [fst snd]. exists a. split; [reflexivity|]. split; [exact HR|].
      eapply Inv_same; [exact HI|reflexivity|reflexivity|reflexivity|reflexivity].
    - (* SEffect *) injection Hchk as <- <- <-. unfold post. cbn [fst snd]. exists a. split; [reflexivity|]. split; [exact HR|].
      eapply Inv_same; [exact HI|reflexivity|reflexivity|reflexivity|reflexivity].
    - (* SIf *)
      destruct (acheck ex th (refine cnd true a)) as [[[n1 c1] b1]|] eqn:E1; [|discriminate].
      destruct (acheck ex el (refine cnd false a)) as [[[n2 c2] b2]|] eqn:E2; [|discriminate]. injection Hchk as <- <- <-.
      destruct (ceval o path s cnd) eqn:Ec.
      + eapply post_weaken; [apply (IHt _ _ _ _ path s E1); [eapply refine_sound; [exact Ec|exact HR]|exact HI]| | |]; apply covers_ojoin_l.
      + eapply post_weaken; [apply (IHe _ _ _ _ path s E2); [eapply refine_sound; [exact Ec|exact HR]|exact HI]| | |]; apply covers_ojoin_r.
    - (* SLoop *)
      destruct (acheck ex body a) as [[[n1 c1] b1]|] eqn:E1; [|discriminate].
      destruct (oleq n1 a && oleq c1 a) eqn:El; [|discriminate]. injection Hchk as <- <- <-. apply andb_true_iff in El as [Ln Lc].
      eapply iter_sound; [|exact Ln|exact Lc|exact HR|exact HI]. intros path' s' HR' HI'. apply (IHb a n1 c1 b1 path' s' E1 HR' HI').
    - (* SContinue *) injection Hchk as <- <- <-. unfold post. cbn [fst snd]. exists a. auto.
    - (* SBreak *) injection Hchk as <- <- <-. unfold post. cbn [fst snd]. exists a. auto.
    - (* SReturn *)
      destruct (all_exempt ex a (reads e)) eqn:Ea; [|discriminate]. injection Hchk as <- <- <-.
      unfold post, Fin. cbn [fst snd add_lost s_lost s_passed]. destruct HI as [H1 H2]. split.
      + intros y Hy. apply in_app_or in Hy as [Hy|Hy]; [apply H1; exact Hy|]. eapply others_exempt; [exact Ea|exact HR|exact Hy].
      + intros y Hy. change (failed_calls (add_lost s (others (s_err s) (reads e)))) with (failed_calls s) in Hy.
        destruct (H2 y Hy) as [H|[H|[w Hw]]]; [left; apply in_or_app; left; exact H|right; left; exact H|].
        destruct (mem w (reads e)) eqn:Em.
        * right. right. destruct e as [|v|t|v t]; cbn [reads mem existsb] in Em; try discriminate; rewrite orb_false_r in Em; apply Nat.eqb_eq in Em; subst v;
            cbn [eval_e]; rewrite Hw; reflexivity.
        * left. apply in_or_app. right. apply others_in. exists w. split; assumption.
    - (* SReturnCall *)
      destruct (all_exempt ex a (arg_errs args)) eqn:Ea; [|discriminate]. injection Hchk as <- <- <-.
      unfold post, Fin. cbn [fst snd add_passed add_lost log_call s_lost s_passed]. destruct HI as [H1 H2]. split.
      + intros y Hy. apply in_app_or in Hy as [Hy|Hy]; [apply H1; exact Hy|]. eapply others_exempt; [exact Ea|exact HR|exact Hy].
      + intros y Hy.
        change (failed_calls (add_passed (add_lost (log_call s site path (o_call o site path)) (others (s_err s) (arg_errs args)))
                  (flat_map (fun v => opt_list (eget (s_err s) v)) (arg_errs args))))
          with (failed_calls (log_call s site path (o_call o site path))) in Hy.
        rewrite failed_calls_app in Hy. apply in_app_or in Hy as [Hy|Hy].
        * destruct (H2 y Hy) as [H|[H|[w Hw]]]; [left; apply in_or_app; left; exact H|right; left; apply in_or_app; left; exact H|].
          destruct (mem w (arg_errs args)) eqn:Em.
          -- right. left. apply in_or_app. right. apply in_flat_map. exists w. split.
             ++ unfold mem in Em. apply existsb_exists in Em as [z [Hz Ez]]. apply Nat.eqb_eq in Ez. subst z. exact Hz.
             ++ rewrite Hw. left. reflexivity.
          -- left. apply in_or_app. right. apply others_in. exists w. split; assumption.
        * right. right. unfold mkerr. destruct (o_call o site path); [destruct Hy|]. destruct Hy as [<-|[]]. reflexivity.
    - (* SExit *) injection Hchk as <- <- <-. exact I.
    - (* SUnknown *) discriminate.
  Qed.
End Sound.

Lemma Inv_init ex p : Inv ex (init_st p).
Proof. split; intros x []. Qed.
Lemma R_init p : R (s_err (init_st p)) [].
Proof.
  intros v. unfold init_st, eget. cbn [s_err].
  assert (H : forall n v, nth v (repeat (@None (origin * nat)) n) None = None).
  { induction n as [|n IH]; intros [|w]; cbn; auto. }
  rewrite H. exact I.
Qed.

(* the statement used by the properties: a function accepted by the analysis, run under any oracle, returns nil only if every
   call that failed was exempt or handed to a tail call *)
Theorem errflow_sound ex p o :
  errflow_ok ex p = true ->
  match run_fn o p with
  | (KRet v, s) => forall x, In x (failed_calls s) -> exempt ex x = true \/ In x (s_passed s) \/ v = Some x
  | (KExit _, _) => True
  | _ => False
  end.
Proof.
  unfold errflow_ok, run_fn. destruct (acheck ex p []) as [[[n c] b]|] eqn:E; [|discriminate]. intros H.
  apply andb_true_iff in H as [H Hb]. apply andb_true_iff in H as [Hn Hc].
  destruct c; [discriminate|]. destruct b; [discriminate|].
  pose proof (acheck_sound o ex p [] n None None [] (init_st p) E (R_init p) (Inv_init ex p)) as P.
  destruct (exec o p [] (init_st p)) as [k s] eqn:Ex. unfold post in P. cbn [fst snd] in P. destruct k.
  - destruct P as [a' [-> [HR [H1 H2]]]]. intros x Hx.
    change (failed_calls (add_lost s (others (s_err s) []))) with (failed_calls s) in Hx.
    destruct (H2 x Hx) as [Hl|[Hp|[w Hw]]]; [left; apply H1; exact Hl|right; left; exact Hp|].
    left. eapply others_exempt; [exact Hn|exact HR|]. apply others_in. exists w. split; [reflexivity|exact Hw].
  - destruct P as [a' [E' _]]. discriminate.
  - destruct P as [a' [E' _]]. discriminate.
  - destruct P as [H1 H2]. intros x Hx. destruct (H2 x Hx) as [Hl|[Hp|Hv]]; [left; apply H1; exact Hl|right; left; exact Hp|right; right; exact Hv].
  - exact I.
  - exact P.
Qed.

(* corollary in the form the properties use: nil result => every failed call is exempt or was handed on *)
Corollary errflow_nil ex p o s :
  errflow_ok ex p = true -> run_fn o p = (KRet None, s) ->
  forall x, In x (failed_calls s) -> exempt ex x = true \/ In x (s_passed s).
Proof.
  intros H E x Hx. pose proof (errflow_sound ex p o H) as P. rewrite E in P. destruct (P x Hx) as [A|[A|A]]; [left; exact A|right; exact A|discriminate].
Qed.

(* ================================================================== B. the verification command *)
(* ------------------------------------------------------------------ B.0 flattening of sequences *)
Fixpoint flatten (p : stmt) : list stmt :=
  match p with SSeq a b => flatten a ++ flatten b | SSkip => [] | _ => [p] end.
Fixpoint exec_list (o : oracle) (l : list stmt) (path : list nat) (s : st) : compl * st :=
  match l with
  | [] => (KNorm, s)
  | p :: t => match exec o p path s with (KNorm, s') => exec_list o t path s' | r => r end
  end.
Lemma exec_list_app o l1 l2 path s :
  exec_list o (l1 ++ l2) path s = match exec_list o l1 path s with (KNorm, s') => exec_list o l2 path s' | r => r end.
Proof.
  revert s; induction l1 as [|p t IH]; intros s; cbn [exec_list app]; [reflexivity|].
  destruct (exec o p path s) as [[] s']; try reflexivity. apply IH.
Qed.
Lemma exec_flatten o p path s : exec o p path s = exec_list o (flatten p) path s.
Proof.
  revert s; induction p; intros s; cbn [flatten exec_list]; try (destruct (exec o _ path s) as [[] s']; reflexivity).
  - reflexivity.
  - cbn [exec]. rewrite exec_list_app, <- IHp1. destruct (exec o p1 path s) as [[] s']; try reflexivity. apply IHp2.
Qed.

(* first loop of a statement list: (statements before, loop number and body, statements after) *)
Fixpoint split_loop (l : list stmt) : list stmt * option (nat * stmt) * list stmt :=
  match l with
  | [] => ([], None, [])
  | SLoop n b :: t => ([], Some (n, b), t)
  | p :: t => let '(pre, lp, post) := split_loop t in (p :: pre, lp, post)
  end.

Definition ok_count (out : list (nat * list nat)) : nat := List.length (filter (fun x => ok_tag (fst x)) out).
Lemma ok_count_app a b : ok_count (a ++ b) = ok_count a + ok_count b.
Proof. unfold ok_count. rewrite filter_app, app_length. reflexivity. Qed.

Lemma skipn_nth_sig l i : i < List.length l -> skipn i l = nth_sig l i :: skipn (S i) l.
Proof.
  revert i; induction l as [|x t IH]; intros i H; cbn in H; [lia|]. destruct i; [reflexivity|].
  cbn [skipn]. unfold nth_sig. cbn [nth]. apply IH. lia.
Qed.

(* ------------------------------------------------------------------ B.1 verifyOne *)
Definition vo_items : list stmt := Eval vm_compute in flatten (f_prog p_verify_one).
Definition vo_pre : list stmt := Eval vm_compute in fst (fst (split_loop vo_items)).
Definition vo_body : stmt := Eval vm_compute in match snd (fst (split_loop vo_items)) with Some (_, b) => b | None => SUnknown 0 end.
Definition vo_post : list stmt := Eval vm_compute in snd (split_loop vo_items).
Definition N4 : list errval := Eval vm_compute in s_err (init_st (f_prog p_verify_one)).

Lemma vo_shape : flatten (f_prog p_verify_one) = vo_pre ++ SLoop 0 vo_body :: vo_post.
Proof. vm_compute. reflexivity. Qed.
Lemma vo_init : init_st (f_prog p_verify_one) = mkSt N4 [] [] [] [] [].
Proof. vm_compute. reflexivity. Qed.

Definition sig_lines (g : sigenv) : nat := if sg_x509 g && sg_countersig g then 2 else 1.

Lemma vo_body_step fl e i s : s_err s = N4 ->
  forall r, r = exec (oracle_of_file fl e) vo_body [i] s ->
  if sig_ok fl (nth_sig (fe_sigs e) i)
  then fst r = KNorm /\ s_err (snd r) = N4 /\ ok_count (s_out (snd r)) = ok_count (s_out s) + sig_lines (nth_sig (fe_sigs e) i)
  else (exists x, fst r = KRet (Some x)) /\ ok_count (s_out (snd r)) = ok_count (s_out s).
Proof.
  intros H r ->. destruct s as [err int lost passed calls out]. cbn [s_err] in H. subst err.
  unfold vo_body, N4, sig_ok, sig_lines. cbn -[nth_sig ok_count]. destruct (nth_sig (fe_sigs e) i) as [x c u t]. destruct fl as [ni nc sy sh].
  cbn [sg_x509 sg_chain_ok sg_unknown_auth sg_countersig fl_no_chain fl_show fl_no_integrity fl_system].
  destruct x, c, u, t, nc, sh; cbn -[ok_count]; rewrite ?ok_count_app; cbn; repeat split; try lia; try reflexivity; eexists; reflexivity.
Qed.

Lemma vo_loop fl e : forall k i s, s_err s = N4 -> i + k = List.length (fe_sigs e) ->
  forall r, r = iter (exec (oracle_of_file fl e) vo_body) [] k i s ->
  (forallb (sig_ok fl) (skipn i (fe_sigs e)) = true -> fst r = KNorm /\ s_err (snd r) = N4) /\
  (forallb (sig_ok fl) (skipn i (fe_sigs e)) = false -> exists x, fst r = KRet (Some x)) /\
  ok_count (s_out (snd r)) = ok_count (s_out s) + spec_ok_lines fl (skipn i (fe_sigs e)).
Proof.
  induction k as [|k IH]; intros i s Hs Hlen r ->.
  - rewrite skipn_all2 by lia. cbn. repeat split; auto; try discriminate; try lia.
  - rewrite skipn_nth_sig by lia. cbn [iter forallb spec_ok_lines].
    pose proof (vo_body_step fl e i s Hs _ eq_refl) as B. destruct (exec (oracle_of_file fl e) vo_body [i] s) as [k0 s1]. cbn [fst snd] in B.
    destruct (sig_ok fl (nth_sig (fe_sigs e) i)) eqn:Eg.
    + destruct B as [-> [Hs1 Hc]]. cbn [andb]. specialize (IH (S i) s1 Hs1 ltac:(lia) _ eq_refl). destruct IH as [I1 [I2 I3]].
      repeat split; [apply I1; assumption|apply I1; assumption|exact I2|]. rewrite I3, Hc. fold (sig_lines (nth_sig (fe_sigs e) i)). lia.
    + destruct B as [[x ->] Hc]. cbn [andb fst snd]. repeat split; [discriminate|discriminate|intros _; exists x; reflexivity|lia].
Qed.

(* the statements from the signature loop to the end of verifyOne *)
Lemma vo_tail fl e s : s_err s = N4 ->
  forall r, r = exec_list (oracle_of_file fl e) (SLoop 0 vo_body :: vo_post) [] s ->
  (exists v, fst r = KRet v /\ (v = None <-> forallb (sig_ok fl) (fe_sigs e) = true)) /\
  ok_count (s_out (snd r)) = ok_count (s_out s) + spec_ok_lines fl (fe_sigs e).
Proof.
  intros Hs r ->. cbn [exec_list exec]. change (o_loop (oracle_of_file fl e) 0 []) with (List.length (fe_sigs e)).
  pose proof (vo_loop fl e (List.length (fe_sigs e)) 0 s Hs eq_refl _ eq_refl) as L. cbn [skipn] in L.
  destruct (iter (exec (oracle_of_file fl e) vo_body) [] (List.length (fe_sigs e)) 0 s) as [k0 s1]. cbn [fst snd] in L. destruct L as [L1 [L2 L3]].
  destruct (forallb (sig_ok fl) (fe_sigs e)).
  - destruct (L1 eq_refl) as [-> _]. unfold vo_post. cbn. split; [exists None; split; [reflexivity|tauto]|exact L3].
  - destruct (L2 eq_refl) as [x ->]. cbn. split; [exists (Some x); split; [reflexivity|split; discriminate]|exact L3].
Qed.

Theorem file_run_spec fl e :
  (exists v, fst (file_run fl e) = KRet v /\ (v = None <-> file_ok fl e = true)) /\
  ok_count (s_out (snd (file_run fl e))) = fst (spec_lines fl e).
Proof.
  unfold file_run, run_fn. rewrite exec_flatten, vo_shape, exec_list_app, vo_init. unfold spec_lines, file_ok, pre_ok. cbn [fst].
  destruct e as [op sk mg nm stv cp dc vr sigs]. cbn [fe_open fe_seek fe_magic fe_name fe_stream fe_compressed fe_decomp fe_verify fe_sigs].
  set (e := mkFile op sk mg nm stv cp dc vr sigs).
  destruct op, sk, mg, nm, stv, cp, dc, vr;
    (set (pre := exec_list (oracle_of_file fl e) vo_pre [] (mkSt N4 [] [] [] [] [])); vm_compute in pre; subst pre; cbv beta iota);
    try (cbn; split; [eexists; split; [reflexivity|split; discriminate]|reflexivity]);
    (match goal with |- context [exec_list ?o (SLoop 0 vo_body :: vo_post) [] ?s] =>
       pose proof (vo_tail fl e s eq_refl _ eq_refl) as T; destruct (exec_list o (SLoop 0 vo_body :: vo_post) [] s) as [k0 s1] end;
     cbn [fst snd fe_sigs e] in T; destruct T as [[v [-> Hv]] Hl]; cbn [fst snd andb orb negb];
     split; [exists v; split; [reflexivity|exact Hv]|exact Hl]).
Qed.

Theorem verify_one_accepts_iff_ok fl e : file_accepts fl e = file_ok fl e.
Proof.
  unfold file_accepts, ret_of. destruct (file_run_spec fl e) as [[v [-> Hv]] _]. destruct v as [x|].
  - destruct (file_ok fl e); [|reflexivity]. destruct Hv as [_ H]. specialize (H eq_refl). discriminate.
  - symmetry. apply Hv. reflexivity.
Qed.
Theorem verify_one_ok_lines fl e : file_ok_lines fl e = fst (spec_lines fl e).
Proof. unfold file_ok_lines. apply (proj2 (file_run_spec fl e)). Qed.
(* verifyOne always returns (it never exits the process, never gets stuck) *)
Theorem verify_one_returns fl e : exists v, fst (file_run fl e) = KRet v.
Proof. destruct (file_run_spec fl e) as [[v [H _]] _]. exists v. exact H. Qed.

(* ------------------------------------------------------------------ B.2 verifyCmd *)
Definition vc_items : list stmt := Eval vm_compute in flatten (f_prog p_verify_cmd).
Definition vc_pre : list stmt := Eval vm_compute in fst (fst (split_loop vc_items)).
Definition vc_body : stmt := Eval vm_compute in match snd (fst (split_loop vc_items)) with Some (_, b) => b | None => SUnknown 0 end.
Definition vc_post : list stmt := Eval vm_compute in snd (split_loop vc_items).
Lemma vc_shape : flatten (f_prog p_verify_cmd) = vc_pre ++ SLoop 0 vc_body :: vc_post.
Proof. vm_compute. reflexivity. Qed.

Lemma error_lines_app a b : error_lines_of (a ++ b) = error_lines_of a ++ error_lines_of b.
Proof. unfold error_lines_of. apply flat_map_app. Qed.

Lemma vc_body_step acc certs n i s x z : s_err s = [None; x] -> s_int s = [z] ->
  forall r, r = exec (oracle_of_cmd acc certs n) vc_body [i] s ->
  fst r = KNorm /\ (exists x', s_err (snd r) = [None; x']) /\ s_int (snd r) = [if acc i then z else 1%Z] /\
  error_lines_of (s_out (snd r)) = error_lines_of (s_out s) ++ (if acc i then [] else [i]).
Proof.
  intros He Hi r ->. destruct s as [err int lost passed calls out]. cbn [s_err s_int] in He, Hi. subst err int.
  unfold vc_body. cbn -[error_lines_of]. destruct (acc i); cbn -[error_lines_of]; rewrite ?error_lines_app; cbn; rewrite ?app_nil_r; repeat split; eexists; reflexivity.
Qed.

Lemma vc_loop acc certs n : forall k i s x z, s_err s = [None; x] -> s_int s = [z] ->
  forall r, r = iter (exec (oracle_of_cmd acc certs n) vc_body) [] k i s ->
  fst r = KNorm /\ (exists x', s_err (snd r) = [None; x']) /\ s_int (snd r) = [if forallb acc (seq i k) then z else 1%Z] /\
  error_lines_of (s_out (snd r)) = error_lines_of (s_out s) ++ filter (fun j => negb (acc j)) (seq i k).
Proof.
  induction k as [|k IH]; intros i s x z He Hi r ->.
  - cbn. rewrite app_nil_r. repeat split; auto. exists x. exact He.
  - cbn [iter seq forallb filter]. pose proof (vc_body_step acc certs n i s x z He Hi _ eq_refl) as B.
    destruct (exec (oracle_of_cmd acc certs n) vc_body [i] s) as [k0 s1]. cbn [fst snd] in B. destruct B as [-> [[x' He1] [Hi1 Ho1]]].
    specialize (IH (S i) s1 x' _ He1 Hi1 _ eq_refl). destruct IH as [I1 [I2 [I3 I4]]]. repeat split; [exact I1|exact I2| |].
    + rewrite I3. destruct (acc i); cbn [andb]; [reflexivity|]. destruct (forallb acc (seq (S i) k)); reflexivity.
    + rewrite I4, Ho1, <- app_assoc. destruct (acc i); reflexivity.
Qed.

Lemma main_exit_nil : main_exit None = 0%Z.
Proof. vm_compute. reflexivity. Qed.
Lemma main_exit_err x : main_exit (Some x) = 1%Z.
Proof. vm_compute. reflexivity. Qed.

(* the command is a fold: status 0 iff the anchors loaded, a file was named and verifyOne returned nil for every file *)
Theorem cmd_exit_fold acc certs n :
  cmd_exit acc certs n = (if certs && negb (Nat.eqb n 0) && forallb acc (seq 0 n) then 0 else 1)%Z /\
  (certs = true -> error_lines_of (s_out (snd (cmd_run acc certs n))) = filter (fun j => negb (acc j)) (seq 0 n)).
Proof.
  unfold cmd_exit, cmd_run. rewrite exec_flatten, vc_shape, exec_list_app.
  destruct certs, n as [|m];
    (set (pre := exec_list _ vc_pre [] _); vm_compute in pre; subst pre; cbv beta iota);
    try (split; [vm_compute; reflexivity|intros; try discriminate; reflexivity]).
  cbn [exec_list exec]. change (o_loop (oracle_of_cmd acc true (S m)) 0 []) with (S m).
  match goal with |- context [iter ?f [] (S m) 0 ?s] =>
    pose proof (vc_loop acc true (S m) (S m) 0 s None 0%Z eq_refl eq_refl _ eq_refl) as L; destruct (iter f [] (S m) 0 s) as [k0 s1] end.
  cbn [fst snd] in L. destruct L as [-> [[x' He] [Hi Ho]]]. destruct s1 as [err int lost passed calls out]. cbn [s_err s_int s_out] in He, Hi, Ho. subst err int.
  unfold vc_post. cbn [andb negb Nat.eqb]. destruct (forallb acc (seq 0 (S m))); cbn; (split; [reflexivity|intros _]); rewrite ?error_lines_app; cbn; rewrite ?app_nil_r; exact Ho.
Qed.

Lemma forallb_ext' {A} (f g : A -> bool) l : (forall x, f x = g x) -> forallb f l = forallb g l.
Proof. intros H. induction l as [|x t IH]; cbn; [reflexivity|]. rewrite H, IH. reflexivity. Qed.

Lemma forallb_accepts fl files : forallb (accepts_nth fl files) (seq 0 (List.length files)) = forallb (file_accepts fl) files.
Proof.
  assert (H : forall pre l, forallb (accepts_nth fl (pre ++ l)) (seq (List.length pre) (List.length l)) = forallb (file_accepts fl) l).
  { intros pre l; revert pre; induction l as [|x t IH]; intros pre; [reflexivity|]. cbn [List.length seq forallb]. f_equal.
    - unfold accepts_nth. rewrite nth_error_app2 by lia. rewrite Nat.sub_diag. reflexivity.
    - specialize (IH (pre ++ [x])). rewrite <- app_assoc in IH. cbn [app] in IH. rewrite app_length in IH. cbn [List.length] in IH.
      rewrite Nat.add_1_r in IH. exact IH. }
  apply (H [] files).
Qed.

Theorem process_exit_spec fl certs files : process_exit fl certs files = spec_exit fl certs files.
Proof.
  unfold process_exit, spec_exit. rewrite (proj1 (cmd_exit_fold _ _ _)), forallb_accepts.
  replace (forallb (file_accepts fl) files) with (forallb (file_ok fl) files); [reflexivity|].
  apply forallb_ext'. intros e. symmetry. apply verify_one_accepts_iff_ok.
Qed.

Theorem exit_zero_iff_all_ok fl certs files :
  process_exit fl certs files = 0%Z <-> certs = true /\ files <> [] /\ forall e, In e files -> file_ok fl e = true.
Proof.
  rewrite process_exit_spec. unfold spec_exit. split.
  - destruct certs; [|discriminate]. destruct files as [|e0 t]; [discriminate|]. cbn [andb negb List.length Nat.eqb].
    destruct (forallb (file_ok fl) (e0 :: t)) eqn:E; [|discriminate]. intros _. rewrite forallb_forall in E. repeat split; [discriminate|exact E].
  - intros [-> [Hne H]]. destruct files as [|e0 t]; [congruence|]. cbn [andb negb List.length Nat.eqb].
    replace (forallb (file_ok fl) (e0 :: t)) with true; [reflexivity|]. symmetry. apply forallb_forall. exact H.
Qed.

(* the "ERROR" lines name exactly the files that are not ok *)
Theorem error_lines_spec fl files :
  cmd_error_lines fl true files = filter (fun i => negb (accepts_nth fl files i)) (seq 0 (List.length files)).
Proof. unfold cmd_error_lines. apply (proj2 (cmd_exit_fold _ _ _)). reflexivity. Qed.

(* the exit status is never anything but 0 or 1 and the model never gets stuck on the generated programs *)
Theorem process_exit_01 fl certs files : process_exit fl certs files = 0%Z \/ process_exit fl certs files = 1%Z.
Proof. rewrite process_exit_spec. unfold spec_exit. destruct (_ && _ && _); auto. Qed.

(* ================================================================== C. error flow of the generated programs, dispatch, options, tables *)
Definition verify_one_ex : exemptions := Eval vm_compute in resolve p_verify_one verify_one_exempt.

(* no outcome class of verifyOne maps an error to success: under ANY oracle (not only those built from a file environment) a nil
   result means that no call failed except the deferred Close (site 1) and the certificate dump (sites 9, 10) *)
Theorem verify_one_errors_propagate o s :
  run_fn o (f_prog p_verify_one) = (KRet None, s) ->
  forall site k, In (OSite site, k) (failed_calls s) -> (site = 1 \/ site = 9 \/ site = 10) \/ In (OSite site, k) (s_passed s).
Proof.
  intros E site k Hin. assert (Hok : errflow_ok verify_one_ex (f_prog p_verify_one) = true) by (vm_compute; reflexivity).
  destruct (errflow_nil _ _ _ _ Hok E _ Hin) as [H|H]; [left|right; exact H].
  unfold verify_one_ex, exempt in H. cbn [existsb fst snd] in H.
  repeat (apply orb_true_iff in H as [H|H]; [apply andb_true_iff in H as [H _]; apply Nat.eqb_eq in H; subst; tauto|]). discriminate.
Qed.

Theorem load_certs_errors_propagate o s :
  run_fn o (f_prog p_load_certs) = (KRet None, s) ->
  forall x, In x (failed_calls s) -> exempt (resolve p_load_certs [("opts.TrustedPool.AddCert"%string, 0)]) x = true \/ In x (s_passed s).
Proof. intros E x Hin. eapply errflow_nil; [|exact E|exact Hin]. vm_compute. reflexivity. Qed.

Theorem signers_errors_propagate f o s :
  In f signer_progs -> run_fn o (f_prog f) = (KRet None, s) ->
  forall x, In x (failed_calls s) -> exempt (exempt_of f) x = true \/ In x (s_passed s).
Proof.
  intros Hf E x Hin. assert (Hall : all_signers_errflow_ok = true) by (vm_compute; reflexivity).
  unfold all_signers_errflow_ok in Hall. rewrite forallb_forall in Hall. eapply errflow_nil; [apply Hall; exact Hf|exact E|exact Hin].
Qed.

(* a helper that receives an error returns an error: the pseudo call site 0 of pgp.verifyPgp is its error parameter *)
Theorem verify_pgp_keeps_error o s :
  run_fn o (f_prog p_pgp_verifyPgp) = (KRet None, s) -> o_call o 0 [] = 0.
Proof.
  intros E. pose proof (signers_errors_propagate p_pgp_verifyPgp o s) as P.
  assert (Hin : In p_pgp_verifyPgp signer_progs) by (vm_compute; tauto). specialize (P Hin E).
  destruct (o_call o 0 []) as [|k] eqn:Ek; [reflexivity|exfalso].
  unfold run_fn in E. cbn in E. rewrite Ek in E. cbn in E. destruct (o_atom o 0 []); cbn in E; discriminate.
Qed.

(* outcome classes of verifyOne: the error component of every return, in source order *)
Theorem verify_one_outcome_classes :
  returns_of (f_prog p_verify_one) = reviewed_verify_one_returns /\
  List.length (filter (fun e => match e with ENil => true | _ => false end) (returns_of (f_prog p_verify_one))) = 1 /\
  last (returns_of (f_prog p_verify_one)) (EVar 0) = ENil /\
  returns_of (f_prog p_verify_cmd) = [EFresh 0; EVar 0; ENil].
Proof. vm_compute. repeat split. Qed.

(* ------------------------------------------------------------------ digest flag and keyring *)
(* syntactic form: the skip-digests argument is exactly opts.NoDigests or the literal false *)
Definition digest_args_syntactic (f : fprog) : bool :=
  forallb (fun c => match assoc (fst c) digest_flag_pos with
                    | Some pos => match nth pos (snd c) AOther with AOpt k => Nat.eqb k (fld "NoDigests") | ABool false => true | _ => false end
                    | None => true
                    end) (named_calls f).

Lemma digest_syntactic_false optv f : optv (fld "NoDigests") = false -> digest_args_syntactic f = true -> digest_args_false optv f = true.
Proof.
  intros H. unfold digest_args_syntactic, digest_args_false. rewrite !forallb_forall. intros Hs c Hc. specialize (Hs c Hc).
  destruct (assoc (fst c) digest_flag_pos) as [pos|]; [|reflexivity]. destruct (nth pos (snd c) AOther) as [|k|k|[]| | |]; try discriminate.
  - apply Nat.eqb_eq in Hs. subst k. cbn [arg_bool]. rewrite H. reflexivity.
  - reflexivity.
Qed.

Theorem digests_checked_unless_flag optv :
  optv (fld "NoDigests") = false -> forallb (digest_args_false optv) signer_progs = true.
Proof.
  intros H. apply forallb_forall. intros f Hf. apply digest_syntactic_false; [exact H|].
  assert (Hall : forallb digest_args_syntactic signer_progs = true) by (vm_compute; reflexivity). rewrite forallb_forall in Hall. apply Hall. exact Hf.
Qed.

(* every listed verifier is called by some glue function (the table is not vacuous), the PGP verifiers get opts.TrustedPgp, every
   registered Verify function is translated, and on the command-line path NoDigests / NoChain come from flags whose default is false *)
Theorem option_flow_reviewed :
  listed_called digest_flag_pos = true /\ listed_called keyring_pos = true /\
  forallb keyring_args_ok signer_progs = true /\ registered_translated = true /\
  opt_source "NoDigests" = Some "argNoIntegrityCheck"%string /\ opt_default "NoDigests" = Some "false"%string /\
  opt_source "NoChain" = Some "argNoChain"%string /\ opt_default "NoChain" = Some "false"%string /\
  fld "NoDigests" = 4 /\ fld "NoChain" = 5 /\ fld "TrustedPgp" = 2 /\ fld "TrustedPool" = 3.
Proof. vm_compute. repeat split. Qed.

(* verifyOne hands the chain check the pool built from --cert, no extra intermediates: arguments of VerifyChain *)
Theorem chain_call_reviewed :
  In ("sig.X509Signature.VerifyChain"%string, [AOpt 3; ANil; AOther]) (named_calls p_verify_one) /\
  In ("mod.Verify"%string, [AOther; AOpts]) (named_calls p_verify_one) /\
  In ("mod.VerifyStream"%string, [AOther; AOpts]) (named_calls p_verify_one) /\
  In ("verifyOne"%string, [AOther; AOpts]) (named_calls p_verify_cmd).
Proof. vm_compute. tauto. Qed.

(* ------------------------------------------------------------------ dispatch *)
Theorem by_magic_sound regs m r : by_magic regs m = Some r -> In r regs /\ r_magic r = m /\ m <> file_type_unknown.
Proof.
  unfold by_magic, by_magic_refuses, by_magic_match. destruct (Z.eqb_spec m file_type_unknown) as [|Hne]; [discriminate|].
  destruct by_magic_returns_match; [|discriminate]. intros H. apply find_some in H as [Hin He]. apply Z.eqb_eq in He. auto.
Qed.
Theorem by_file_name_sound regs matches r : by_file_name regs matches = Some r -> In r regs /\ r_testpath r = true /\ matches r = true.
Proof.
  unfold by_file_name, by_name_match. destruct by_name_returns_match; [|discriminate]. intros H. apply find_some in H as [Hin He].
  apply andb_true_iff in He as [H1 H2]. auto.
Qed.
Theorem registered_reviewed :
  forallb (fun r => negb (selectable r) || has_verifier r) registered_signers = true /\
  NoDup (filter (fun m => negb (m =? file_type_unknown)%Z) (map r_magic registered_signers)) /\
  List.length registered_signers = 21.
Proof.
  split; [vm_compute; reflexivity|]. split; [|vm_compute; reflexivity].
  vm_compute. repeat (constructor; [cbn; intuition discriminate|]). constructor.
Qed.
(* whatever the content type and the name tests say, the module the command ends up with has a verifier (no nil function is called) *)
Theorem dispatch_selects_verifier m matches r : dispatch registered_signers m matches = Some r -> has_verifier r = true.
Proof.
  unfold dispatch. intros H. assert (Hs : In r registered_signers /\ selectable r = true).
  { destruct (by_magic registered_signers m) as [r'|] eqn:E.
    - injection H as <-. apply by_magic_sound in E as [Hin [Hm Hne]]. split; [exact Hin|]. unfold selectable. rewrite Hm.
      destruct (Z.eqb_spec m file_type_unknown); [contradiction|reflexivity].
    - apply by_file_name_sound in H as [Hin [Ht _]]. split; [exact Hin|]. unfold selectable. rewrite Ht. apply orb_true_r. }
  destruct Hs as [Hin Hsel]. pose proof (proj1 registered_reviewed) as Hall. rewrite forallb_forall in Hall. specialize (Hall r Hin).
  rewrite Hsel in Hall. exact Hall.
Qed.
(* a file of unknown content is never handed to a module that is selected by content only *)
Theorem unknown_content_by_name_only matches r :
  dispatch registered_signers file_type_unknown matches = Some r -> r_testpath r = true /\ matches r = true.
Proof.
  unfold dispatch. destruct (by_magic registered_signers file_type_unknown) as [r'|] eqn:E.
  - apply by_magic_sound in E as [_ [_ Hne]]. congruence.
  - intros H. apply by_file_name_sound in H as [_ H]. exact H.
Qed.

(* ------------------------------------------------------------------ reviewed tables *)
Theorem reviewed_tables_command :
  f_calls p_verify_one = reviewed_verify_one_calls /\ f_atoms p_verify_one = reviewed_verify_one_atoms /\
  f_effects p_verify_one = reviewed_verify_one_effects /\ f_loops p_verify_one = reviewed_verify_one_loops /\
  f_calls p_verify_cmd = reviewed_verify_cmd_calls /\ f_atoms p_verify_cmd = reviewed_verify_cmd_atoms /\
  f_effects p_verify_cmd = reviewed_verify_cmd_effects /\ f_loops p_verify_cmd = reviewed_verify_cmd_loops /\
  f_calls p_main = reviewed_main_calls /\ opts_fields = reviewed_opts_fields /\ flag_vars = reviewed_flag_vars /\
  f_effects p_load_certs = reviewed_load_certs_effects /\ f_calls p_load_certs = reviewed_load_certs_calls /\
  f_atoms p_load_certs = ["len(opts.TrustedX509) > 0"%string].
Proof. vm_compute. repeat split. Qed.
Theorem reviewed_tables_signers :
  signer_calls_generated = reviewed_signer_calls /\ signer_results_generated = reviewed_signer_results.
Proof. vm_compute. repeat split. Qed.

(* ------------------------------------------------------------------ status 0 and verdict lines *)
(* a module that returned an empty signature list without an error: status 0, no verdict line at all *)
Theorem exit_zero_reports_every_file_refuted :
  exists e, process_exit fl0 true [e] = 0%Z /\ file_ok_lines fl0 e = 0.
Proof. exists empty_list_file. vm_compute. split; reflexivity. Qed.
(* ... which is the only way: when every module returns at least one signature, status 0 comes with an OK line for every file *)
Theorem exit_zero_reports_every_file fl certs files :
  process_exit fl certs files = 0%Z -> forall e, In e files -> fe_sigs e <> [] -> 1 <= file_ok_lines fl e.
Proof.
  intros H e He Hne. apply exit_zero_iff_all_ok in H as [_ [_ H]]. specialize (H e He). rewrite verify_one_ok_lines. unfold spec_lines. cbn [fst].
  unfold file_ok in H. fold (pre_ok e) in H. apply andb_true_iff in H as [Hp Hs]. rewrite Hp.
  destruct (fe_sigs e) as [|g t]; [congruence|]. cbn [forallb spec_ok_lines] in *. apply andb_true_iff in Hs as [Hg _]. rewrite Hg.
  destruct (sg_x509 g && sg_countersig g); lia.
Qed.
(* a file that is not ok never gets more OK lines than it has passing signatures, and none at all when the module refused it *)
Theorem refused_file_has_no_ok_line fl e : pre_ok e = false -> file_ok_lines fl e = 0.
Proof. intros H. rewrite verify_one_ok_lines. unfold spec_lines. cbn [fst]. rewrite H. reflexivity. Qed.

(* ------------------------------------------------------------------ trust pool of loadCerts *)
(* cbn on a goal that contains a whole generated program, recorded as a VM cast (the kernel's default conversion can take minutes
   to re-check such a step; the VM does it at once) *)
Ltac vm_cbn := match goal with |- ?G => let G' := eval cbn -[iter] in G in refine ((_ : G') <: G) end.

Definition cnt3 (s : st) : nat := List.length (filter (fun c => Nat.eqb (fst (fst c)) 3) (s_calls s)).
Lemma s_out_add_lost s l : s_out (add_lost s l) = s_out s.
Proof. reflexivity. Qed.
Lemma cnt3_add_lost s l : cnt3 (add_lost s l) = cnt3 s.
Proof. reflexivity. Qed.
Lemma iter_simple f path :
  (forall p s, exists s', f p s = (KNorm, s') /\ s_out s' = s_out s /\ s_err s' = s_err s /\ cnt3 s' = cnt3 s + 1) ->
  forall k i s, exists s', iter f path k i s = (KNorm, s') /\ s_out s' = s_out s /\ s_err s' = s_err s /\ cnt3 s' = cnt3 s + k.
Proof.
  intros Hf. induction k as [|k IH]; intros i s.
  - exists s. cbn. repeat split; auto.
  - cbn [iter]. destruct (Hf (i :: path) s) as [s1 [E1 [Ho1 [He1 Hc1]]]]. rewrite E1.
    destruct (IH (S i) s1) as [s' [E [Ho [He Hc]]]]. exists s'. split; [exact E|]. repeat split; try congruence. lia.
Qed.

Ltac pool_loop_case :=
  vm_cbn;
  match goal with |- context [iter ?f [] ?kk 0 ?s] =>
      let H := fresh "H" in
      assert (H : forall p s0, exists s', f p s0 = (KNorm, s') /\ s_out s' = s_out s0 /\ s_err s' = s_err s0 /\ cnt3 s' = cnt3 s0 + 1);
      [intros p s0; eexists; split; [reflexivity|]; repeat split;
       unfold cnt3; cbn [add_lost log_call s_calls]; rewrite filter_app, app_length; cbn; lia|];
      let s' := fresh "s'" in let E := fresh "E" in let Ho := fresh "Ho" in let He := fresh "He" in let Hc := fresh "Hc" in
      destruct (iter_simple f [] H kk 0 s) as [s' [E [Ho [He Hc]]]]; rewrite E; clear H;
      cbn [fst snd];
      (split; [exists None; split; [reflexivity|split; reflexivity]|intros _; split;
         [rewrite s_out_add_lost, Ho; vm_compute; reflexivity|change (addcert_calls ?x) with (cnt3 x); rewrite cnt3_add_lost, Hc; vm_compute; reflexivity]]) end.

Theorem load_certs_pool_spec certs_ok have_x509 system sys_ok n :
  let r := run_fn (oracle_of_load certs_ok have_x509 system sys_ok n) (f_prog p_load_certs) in
  (exists v, fst r = KRet v /\ (v = None <-> certs_ok && (negb have_x509 || negb system || sys_ok) = true)) /\
  (fst r = KRet None -> pool_effects (s_out (snd r)) = spec_pool have_x509 system /\ addcert_calls (snd r) = if have_x509 then n else 0).
Proof.
  cbv zeta. unfold run_fn, spec_pool.
  destruct certs_ok; [|vm_compute; split; [eexists; split; [reflexivity|split; discriminate]|discriminate]].
  destruct have_x509; [|vm_compute; split; [eexists; split; [reflexivity|split; reflexivity]|intros _; split; reflexivity]].
  destruct system, sys_ok.
  - pool_loop_case.
  - vm_compute; split; [eexists; split; [reflexivity|split; discriminate]|discriminate].
  - pool_loop_case.
  - pool_loop_case.
Qed.

(* ------------------------------------------------------------------ RPM glue: an unknown signer is an error unless --no-trust-chain *)
Definition rpm_items : list stmt := Eval vm_compute in flatten (f_prog p_rpm_verify).
Definition rpm_pre : list stmt := Eval vm_compute in fst (fst (split_loop rpm_items)).
Definition rpm_body : stmt := Eval vm_compute in match snd (fst (split_loop rpm_items)) with Some (_, b) => b | None => SUnknown 0 end.
Definition rpm_post : list stmt := Eval vm_compute in snd (split_loop rpm_items).
Lemma rpm_shape : flatten (f_prog p_rpm_verify) = rpm_pre ++ SLoop 0 rpm_body :: rpm_post.
Proof. vm_compute. reflexivity. Qed.

Lemma rpm_body_step no_chain n seen nosigner i s :
  exec (oracle_of_rpm no_chain n seen nosigner) rpm_body [i] s =
  if seen i then (KCont, s)
  else if nosigner i then (if no_chain then (KNorm, s) else (KRet (Some (OFresh 1, 0)), add_lost s (others (s_err s) [])))
  else (KNorm, s).
Proof. unfold rpm_body. cbn. destruct (seen i), (nosigner i), no_chain; reflexivity. Qed.

Lemma rpm_loop no_chain n seen nosigner : forall k i s,
  forall r, r = iter (exec (oracle_of_rpm no_chain n seen nosigner) rpm_body) [] k i s ->
  if forallb (rpm_sig_ok no_chain seen nosigner) (seq i k) then fst r = KNorm /\ s_err (snd r) = s_err s
  else exists x, fst r = KRet (Some x).
Proof.
  induction k as [|k IH]; intros i s r ->; [cbn; auto|].
  cbn [iter seq forallb]. rewrite rpm_body_step. unfold rpm_sig_ok at 1.
  destruct (seen i); cbn [orb andb negb].
  - exact (IH (S i) s _ eq_refl).
  - destruct (nosigner i); cbn [orb andb negb].
    + destruct no_chain; cbn [orb andb negb].
      * exact (IH (S i) s _ eq_refl).
      * eexists. reflexivity.
    + exact (IH (S i) s _ eq_refl).
Qed.

Theorem rpm_unknown_key_rejected no_chain n seen nosigner :
  let r := run_fn (oracle_of_rpm no_chain n seen nosigner) (f_prog p_rpm_verify) in
  exists v, fst r = KRet v /\ (v = None <-> negb (Nat.eqb n 0) && forallb (rpm_sig_ok no_chain seen nosigner) (seq 0 n) = true).
Proof.
  cbv zeta. unfold run_fn. rewrite exec_flatten, rpm_shape, exec_list_app.
  destruct n as [|m].
  - vm_compute. eexists. split; [reflexivity|split; discriminate].
  - set (pre := exec_list _ rpm_pre [] _). vm_compute in pre. subst pre. cbv beta iota. cbn [exec_list exec].
    change (o_loop (oracle_of_rpm no_chain (S m) seen nosigner) 0 []) with (S m).
    match goal with |- context [iter ?f [] (S m) 0 ?s] => pose proof (rpm_loop no_chain (S m) seen nosigner (S m) 0 s _ eq_refl) as L; destruct (iter f [] (S m) 0 s) as [k0 s1] end.
    cbn [fst snd] in L. cbn [negb Nat.eqb andb]. destruct (forallb (rpm_sig_ok no_chain seen nosigner) (seq 0 (S m))).
    + destruct L as [-> _]. unfold rpm_post. cbn. eexists. split; [reflexivity|tauto].
    + destruct L as [x ->]. cbn. eexists. split; [reflexivity|split; discriminate].
Qed.
