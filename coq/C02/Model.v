(* C02/Model.v — the verification command (`relic verify`) and the verifier dispatch, executable definitions only.

   The Go functions are NOT re-written by hand: srcgen translates their bodies into programs of the statement language of
   C02/IR.v (Generated/C02_gen.v: p_main, p_verify_cmd, p_verify_one, p_load_certs, p_by_magic, p_by_file_name and one
   program per function a signer module registers as Verify / VerifyStream) and this file interprets them.

   Sections:  1 interpreter (environment = oracle: which call fails with which kind of error, how opaque conditions come
                out, how often loops run)
              2 static analysis of error flow (abstract interpretation; proved sound in Proofs.v): no error value is
                overwritten, dropped or alive at a successful return unless it is listed as exempt
              3 SPEC: what the property demands of one file and of the command, written from the property text
              4 the command as a fold over the file list: oracles built from per-file environments, exit status, verdict lines
              5 dispatch (ByMagic / ByFileName over the registered modules), option flow (flags -> VerifyOpts -> arguments of the
                library verifiers)
              6 reviewed tables (call sites, conditions, exemptions, digest-flag positions) *)
From Relic Require Import Base.Prelude C02.IR Generated.C02_gen.
Local Open Scope nat_scope.

(* ================================================================== 1. interpreter *)
(* where an error value was made: the call site that returned it, or a fresh error (errors.New ...) by tag *)
Inductive origin := OSite (s : nat) | OFresh (t : nat).
(* an error value: nil, or (origin, kind); kind 0 = no particular kind, otherwise an index into err_kinds *)
Definition errval := option (origin * nat).

Record oracle := mkO {
  o_call : nat -> list nat -> nat;     (* call site, iteration path -> 0 (no error) or the kind of error + 1 ... see mkerr *)
  o_atom : nat -> list nat -> bool;    (* opaque condition, iteration path *)
  o_loop : nat -> list nat -> nat;     (* loop, iteration path of the enclosing loops -> number of iterations *)
  o_opt : nat -> bool;                 (* boolean option field *)
  o_flag : nat -> bool }.              (* boolean flag variable *)

(* the oracle answers 0 for success, k+1 for an error of kind k *)
Definition mkerr (site k : nat) : errval := match k with O => None | S k' => Some (OSite site, k') end.

Fixpoint upd {A} (d : A) (l : list A) (i : nat) (x : A) : list A :=
  match i, l with
  | O, [] => [x]
  | O, _ :: t => x :: t
  | S i', [] => d :: upd d [] i' x
  | S i', h :: t => h :: upd d t i' x
  end.
Definition eget (l : list errval) (i : nat) : errval := nth i l None.
Definition iget (l : list Z) (i : nat) : Z := nth i l 0%Z.

Record st := mkSt {
  s_err : list errval;                     (* error variables, by number *)
  s_int : list Z;                          (* integer variables *)
  s_lost : list (origin * nat);            (* error values that were destroyed: overwritten, dropped, alive at a return *)
  s_passed : list (origin * nat);          (* error values handed to a tail call (return f(..., err)) *)
  s_calls : list (nat * list nat * nat);   (* executed call sites with the oracle's answer, in order *)
  s_out : list (nat * list nat) }.         (* effects (print statements, option writes), in order *)

Definition st0 : st := mkSt [] [] [] [] [] [].

Inductive compl := KNorm | KCont | KBrk | KRet (v : errval) | KExit (z : Z) | KStuck.

Definition opt_list {A} (v : option A) : list A := match v with Some x => [x] | None => [] end.
Definition mem (i : nat) (l : list nat) : bool := existsb (Nat.eqb i) l.
(* the non-nil values of the variables whose number is not in keep *)
Fixpoint others_from (i : nat) (l : list errval) (keep : list nat) : list (origin * nat) :=
  match l with
  | [] => []
  | v :: t => (if mem i keep then [] else opt_list v) ++ others_from (S i) t keep
  end.
Definition others (l : list errval) (keep : list nat) := others_from 0 l keep.

Definition eval_e (env : list errval) (e : eexp) : errval :=
  match e with
  | ENil => None
  | EVar v => eget env v
  | EFresh t => Some (OFresh t, 0)
  | EWrap v t => match eget env v with Some x => Some x | None => Some (OFresh t, 0) end
  end.
Definition reads (e : eexp) : list nat := match e with EVar v | EWrap v _ => [v] | _ => [] end.
Definition arg_errs (args : list arg) : list nat := flat_map (fun a => match a with AErr v => [v] | _ => [] end) args.

Definition ieval (env : list Z) (e : iexp) : Z := match e with IConst z => z | IVar v => iget env v end.
Definition cmp_eval (op : cmp) (a b : Z) : bool :=
  match op with OpEq => (a =? b)%Z | OpNe => negb (a =? b)%Z | OpLt => (a <? b)%Z | OpLe => (a <=? b)%Z | OpGt => (a >? b)%Z | OpGe => (a >=? b)%Z end.

Fixpoint ceval (o : oracle) (path : list nat) (s : st) (c : cond) : bool :=
  match c with
  | CNil v => match eget (s_err s) v with None => true | Some _ => false end
  | CNotNil v => match eget (s_err s) v with None => false | Some _ => true end
  | CIsKind v k => match eget (s_err s) v with Some (_, k') => Nat.eqb k' k | None => false end
  | CInt op a b => cmp_eval op (ieval (s_int s) a) (ieval (s_int s) b)
  | COpt f => o_opt o f
  | CFlag f => o_flag o f
  | COpaque k => o_atom o k path
  | CNot a => negb (ceval o path s a)
  | CAnd a b => ceval o path s a && ceval o path s b
  | COr a b => ceval o path s a || ceval o path s b
  end.

Definition log_call (s : st) (site : nat) (path : list nat) (k : nat) : st :=
  mkSt (s_err s) (s_int s) (s_lost s) (s_passed s) (s_calls s ++ [(site, path, k)]) (s_out s).
Definition add_lost (s : st) (l : list (origin * nat)) : st :=
  mkSt (s_err s) (s_int s) (s_lost s ++ l) (s_passed s) (s_calls s) (s_out s).
Definition add_passed (s : st) (l : list (origin * nat)) : st :=
  mkSt (s_err s) (s_int s) (s_lost s) (s_passed s ++ l) (s_calls s) (s_out s).
Definition set_err (s : st) (x : nat) (v : errval) : st :=
  mkSt (upd None (s_err s) x v) (s_int s) (s_lost s) (s_passed s) (s_calls s) (s_out s).
Definition set_int (s : st) (x : nat) (z : Z) : st :=
  mkSt (s_err s) (upd 0%Z (s_int s) x z) (s_lost s) (s_passed s) (s_calls s) (s_out s).
Definition add_out (s : st) (tag : nat) (path : list nat) : st :=
  mkSt (s_err s) (s_int s) (s_lost s) (s_passed s) (s_calls s) (s_out s ++ [(tag, path)]).

(* k iterations of a loop body starting at iteration number i.  continue and normal completion go on, break leaves the loop *)
Fixpoint iter (f : list nat -> st -> compl * st) (path : list nat) (k i : nat) (s : st) : compl * st :=
  match k with
  | O => (KNorm, s)
  | S k' => match f (i :: path) s with
            | (KNorm, s') | (KCont, s') => iter f path k' (S i) s'
            | (KBrk, s') => (KNorm, s')
            | r => r
            end
  end.

Fixpoint exec (o : oracle) (p : stmt) (path : list nat) (s : st) {struct p} : compl * st :=
  match p with
  | SSkip => (KNorm, s)
  | SSeq a b => match exec o a path s with (KNorm, s') => exec o b path s' | r => r end
  | SCall site dst args =>
      match dst with
      | DNone => (KNorm, log_call s site path 0)
      | DDrop => let k := o_call o site path in (KNorm, add_lost (log_call s site path k) (opt_list (mkerr site k)))
      | DVar x => let k := o_call o site path in
                  (KNorm, set_err (add_lost (log_call s site path k) (opt_list (eget (s_err s) x))) x (mkerr site k))
      end
  | SSet x e =>
      let lost := if mem x (reads e) then [] else opt_list (eget (s_err s) x) in
      (KNorm, set_err (add_lost s lost) x (eval_e (s_err s) e))
  | SSetI x e => (KNorm, set_int s x (ieval (s_int s) e))
  | SEffect tag => (KNorm, add_out s tag path)
  | SIf c th el => if ceval o path s c then exec o th path s else exec o el path s
  | SLoop l body => iter (exec o body) path (o_loop o l path) 0 s
  | SContinue => (KCont, s)
  | SBreak => (KBrk, s)
  | SReturn e => (KRet (eval_e (s_err s) e), add_lost s (others (s_err s) (reads e)))
  | SReturnCall site args =>
      let k := o_call o site path in
      let keep := arg_errs args in
      (KRet (mkerr site k),
       add_passed (add_lost (log_call s site path k) (others (s_err s) keep)) (flat_map (fun v => opt_list (eget (s_err s) v)) keep))
  | SExit e => (KExit (ieval (s_int s) e), s)
  | SUnknown _ => (KStuck, s)
  end.

(* highest error-variable number of a program; the interpreter starts with that many nil variables, so that the list of variables
   keeps its length (convenient for computing with symbolic values) *)
Definition dest_var (d : dest) : nat := match d with DVar v => v | _ => 0 end.
Definition eexp_var (e : eexp) : nat := match e with EVar v | EWrap v _ => v | _ => 0 end.
Fixpoint cond_var (c : cond) : nat :=
  match c with
  | CNil v | CNotNil v | CIsKind v _ => v
  | CNot a => cond_var a
  | CAnd a b | COr a b => Nat.max (cond_var a) (cond_var b)
  | _ => 0
  end.
Fixpoint max_var (p : stmt) : nat :=
  match p with
  | SSeq a b => Nat.max (max_var a) (max_var b)
  | SCall _ d args => Nat.max (dest_var d) (fold_right Nat.max 0 (arg_errs args))
  | SSet x e => Nat.max x (eexp_var e)
  | SIf c a b => Nat.max (cond_var c) (Nat.max (max_var a) (max_var b))
  | SLoop _ b => max_var b
  | SReturn e => eexp_var e
  | SReturnCall _ args => fold_right Nat.max 0 (arg_errs args)
  | _ => 0
  end.
Definition init_st (p : stmt) : st := mkSt (repeat None (S (max_var p))) [] [] [] [] [].

(* a function body: falling off the end is a return without an error *)
Definition run_fn (o : oracle) (p : stmt) : compl * st :=
  match exec o p [] (init_st p) with
  | (KNorm, s) => (KRet None, add_lost s (others (s_err s) []))
  | r => r
  end.

(* ================================================================== 2. static analysis of error flow *)
(* exemptions: (call site, kind + 1) or (call site, 0) for every kind *)
Definition exemptions := list (nat * nat).
Definition exempt (ex : exemptions) (x : origin * nat) : bool :=
  match x with
  | (OSite s, k) => existsb (fun e => Nat.eqb (fst e) s && (Nat.eqb (snd e) 0 || Nat.eqb (snd e) (S k))) ex
  | (OFresh _, _) => false
  end.

Definition origin_eqb (a b : origin) : bool :=
  match a, b with OSite x, OSite y => Nat.eqb x y | OFresh x, OFresh y => Nat.eqb x y | _, _ => false end.

(* abstract value of an error variable: certainly nil, or: nil or an error from one of these origins (of one of these kinds) *)
Inductive aval := AN | AV (os : list origin) (ks : option (list nat)).
Definition aget (a : list aval) (i : nat) : aval := nth i a AN.

Definition in_gamma (v : errval) (a : aval) : Prop :=
  match v with
  | None => True
  | Some (o, k) => match a with
                   | AN => False
                   | AV os ks => In o os /\ match ks with None => True | Some l => In k l end
                   end
  end.

Definition aval_exempt (ex : exemptions) (a : aval) : bool :=
  match a with
  | AN => true
  | AV os ks => forallb (fun o => match ks with
                                  | None => match o with OSite s => existsb (fun e => Nat.eqb (fst e) s && Nat.eqb (snd e) 0) ex | OFresh _ => false end
                                  | Some l => forallb (fun k => exempt ex (o, k)) l
                                  end) os
  end.

Definition ajoin (a b : aval) : aval :=
  match a, b with
  | AN, x | x, AN => x
  | AV o1 k1, AV o2 k2 => AV (o1 ++ o2) (match k1, k2 with Some l1, Some l2 => Some (l1 ++ l2) | _, _ => None end)
  end.
Fixpoint ejoin (a b : list aval) : list aval :=
  match a, b with
  | [], x | x, [] => x
  | x :: a', y :: b' => ajoin x y :: ejoin a' b'
  end.
Definition ojoin (a b : option (list aval)) : option (list aval) :=
  match a, b with None, x | x, None => x | Some x, Some y => Some (ejoin x y) end.

Definition subset {A} (eqb : A -> A -> bool) (a b : list A) : bool := forallb (fun x => existsb (eqb x) b) a.
Definition aleq (a b : aval) : bool :=
  match a, b with
  | AN, _ => true
  | AV _ _, AN => false
  | AV o1 k1, AV o2 k2 => subset origin_eqb o1 o2 &&
                          match k2 with None => true | Some l2 => match k1 with Some l1 => subset Nat.eqb l1 l2 | None => false end end
  end.
Fixpoint eleq (a b : list aval) : bool :=
  match a with
  | [] => true
  | x :: a' => aleq x (nth 0 b AN) && eleq a' (tl b)
  end.
Definition oleq (a : option (list aval)) (b : list aval) : bool := match a with None => true | Some x => eleq x b end.

(* the abstract state under the assumption that the condition evaluates to b *)
Fixpoint refine (c : cond) (b : bool) (a : list aval) : list aval :=
  match c with
  | CNil v => if b then upd AN a v AN else a
  | CNotNil v => if b then a else upd AN a v AN
  | CIsKind v k => if b then match aget a v with AV os _ => upd AN a v (AV os (Some [k])) | AN => a end else a
  | CNot c' => refine c' (negb b) a
  | CAnd c1 c2 => if b then refine c2 true (refine c1 true a) else a
  | COr c1 c2 => if b then a else refine c2 false (refine c1 false a)
  | _ => a
  end.

Fixpoint all_exempt_from (ex : exemptions) (i : nat) (a : list aval) (keep : list nat) : bool :=
  match a with
  | [] => true
  | x :: t => (mem i keep || aval_exempt ex x) && all_exempt_from ex (S i) t keep
  end.
Definition all_exempt (ex : exemptions) (a : list aval) (keep : list nat) : bool := all_exempt_from ex 0 a keep.

Definition aeval (a : list aval) (e : eexp) : aval :=
  match e with
  | ENil => AN
  | EVar v => aget a v
  | EFresh t => AV [OFresh t] (Some [0])
  | EWrap v t => match aget a v with
                 | AN => AV [OFresh t] (Some [0])
                 | AV os ks => AV (OFresh t :: os) (match ks with Some l => Some (0 :: l) | None => None end)
                 end
  end.

(* abstract exits of a statement: the states at normal completion, at continue, at break (None = not reachable).
   The whole result is None when the analysis refuses the program. *)
Definition aexits := (option (list aval) * option (list aval) * option (list aval))%type.

Fixpoint acheck (ex : exemptions) (p : stmt) (a : list aval) {struct p} : option aexits :=
  match p with
  | SSkip => Some (Some a, None, None)
  | SSeq p1 p2 =>
      match acheck ex p1 a with
      | None => None
      | Some (None, c1, b1) => Some (None, c1, b1)
      | Some (Some a1, c1, b1) =>
          match acheck ex p2 a1 with
          | None => None
          | Some (n2, c2, b2) => Some (n2, ojoin c1 c2, ojoin b1 b2)
          end
      end
  | SCall site dst args =>
      match dst with
      | DNone => Some (Some a, None, None)
      | DDrop => if existsb (fun e => Nat.eqb (fst e) site && Nat.eqb (snd e) 0) ex then Some (Some a, None, None) else None
      | DVar x => if aval_exempt ex (aget a x) then Some (Some (upd AN a x (AV [OSite site] None)), None, None) else None
      end
  | SSet x e =>
      if mem x (reads e) || aval_exempt ex (aget a x) then Some (Some (upd AN a x (aeval a e)), None, None) else None
  | SSetI _ _ | SEffect _ => Some (Some a, None, None)
  | SIf c th el =>
      match acheck ex th (refine c true a), acheck ex el (refine c false a) with
      | Some (n1, c1, b1), Some (n2, c2, b2) => Some (ojoin n1 n2, ojoin c1 c2, ojoin b1 b2)
      | _, _ => None
      end
  | SLoop _ body =>
      match acheck ex body a with
      | Some (n, c, b) => if oleq n a && oleq c a then Some (ojoin (Some a) b, None, None) else None
      | None => None
      end
  | SContinue => Some (None, Some a, None)
  | SBreak => Some (None, None, Some a)
  | SReturn e => if all_exempt ex a (reads e) then Some (None, None, None) else None
  | SReturnCall _ args => if all_exempt ex a (arg_errs args) then Some (None, None, None) else None
  | SExit _ => Some (None, None, None)
  | SUnknown _ => None
  end.

(* a function body is accepted when the analysis goes through from the state "every variable nil" and nothing but exempt
   values is alive when control falls off the end *)
Definition errflow_ok (ex : exemptions) (p : stmt) : bool :=
  match acheck ex p [] with
  | Some (n, c, b) => match n with Some a => all_exempt ex a [] | None => true end
                      && match c with None => true | Some _ => false end && match b with None => true | Some _ => false end
  | None => false
  end.

(* exemptions are reviewed by callee name: (callee, kind + 1) / (callee, 0); resolved to the site numbers of a program *)
Fixpoint resolve_from (i : nat) (calls : list string) (names : list (string * nat)) : exemptions :=
  match calls with
  | [] => []
  | c :: t => map (fun e => (i, snd e)) (filter (fun e => String.eqb (fst e) c) names) ++ resolve_from (S i) t names
  end.
Definition resolve (f : fprog) (names : list (string * nat)) : exemptions := resolve_from 0 (f_calls f) names.

(* every call that failed, as (site, kind) *)
Definition failed_calls (s : st) : list (origin * nat) :=
  flat_map (fun c => match c with (site, _, S k) => [(OSite site, k)] | _ => [] end) (s_calls s).

(* ================================================================== 3. SPEC *)
(* One file named on the command line, as the property sees it.  Written from the property text, not from the code:
   "relic's verifier with integrity and chain checking enabled rejects it or reports it unsigned; it never reports success" *)
Inductive vres := VOk | VNoKey | VErr.     (* outcome of the module's Verify / VerifyStream: accepted, signed by an unknown PGP key, refused *)
Record sigenv := mkSig {
  sg_x509 : bool;        (* an X.509 signature (otherwise PGP: trust was decided inside Verify against the given keyring) *)
  sg_chain_ok : bool;    (* the chain of the signer validates against the given trust pool *)
  sg_unknown_auth : bool;(* ... and when it does not, the error is an UnknownAuthorityError *)
  sg_countersig : bool }.
Record fileenv := mkFile {
  fe_open : bool;        (* the file can be opened *)
  fe_seek : bool;        (* and rewound *)
  fe_magic : bool;       (* its content is recognised by a registered module *)
  fe_name : bool;        (* its name is recognised by a registered module *)
  fe_stream : bool;      (* the selected module verifies streams *)
  fe_compressed : bool;  (* the file is a gzip / xz wrapper *)
  fe_decomp : bool;      (* the decompressor accepts the wrapper header *)
  fe_verify : vres;
  fe_sigs : list sigenv }.   (* the signatures Verify returned (meaningful when fe_verify = VOk) *)
Record flags := mkFlags { fl_no_integrity : bool; fl_no_chain : bool; fl_system : bool; fl_show : bool }.

(* the demand on one file: opened, recognised, readable as the module needs it, verified by the module, and every X.509
   signer chained to the given anchors (unless the caller switched chain checking off) *)
Definition sig_ok (fl : flags) (g : sigenv) : bool := negb (sg_x509 g) || fl_no_chain fl || sg_chain_ok g.
Definition file_ok (fl : flags) (e : fileenv) : bool :=
  fe_open e && fe_seek e && (fe_magic e || fe_name e) &&
  (if fe_stream e then negb (fe_compressed e) || fe_decomp e else negb (fe_compressed e)) &&
  match fe_verify e with VOk => true | _ => false end &&
  forallb (sig_ok fl) (fe_sigs e).
(* the demand on the command: status 0 exactly when the trust anchors could be loaded, at least one file was named and every
   named file is ok *)
Definition spec_exit (fl : flags) (certs_ok : bool) (files : list fileenv) : Z :=
  if certs_ok && negb (Nat.eqb (List.length files) 0) && forallb (file_ok fl) files then 0%Z else 1%Z.
(* verdict lines of one file: OK lines only for signatures that passed; an ERROR line exactly when the file is not ok *)
Fixpoint spec_ok_lines (fl : flags) (sigs : list sigenv) : nat :=
  match sigs with
  | [] => 0
  | g :: t => if sig_ok fl g then (if sg_x509 g && sg_countersig g then 2 else 1) + spec_ok_lines fl t else 0
  end.
Definition pre_ok (e : fileenv) : bool :=
  fe_open e && fe_seek e && (fe_magic e || fe_name e) &&
  (if fe_stream e then negb (fe_compressed e) || fe_decomp e else negb (fe_compressed e)) &&
  match fe_verify e with VOk => true | _ => false end.
Definition spec_lines (fl : flags) (e : fileenv) : nat * bool :=   (* number of OK lines, ERROR line present *)
  (if pre_ok e then spec_ok_lines fl (fe_sigs e) else 0, negb (file_ok fl e)).

(* ================================================================== 4. the command as a fold over the file list *)
(* Numbers of call sites, conditions, option fields and flags below are positions in the generated tables; section 6 pins the
   tables (theorems reviewed_tables_...), so a moved or renamed call changes a statement Coq has to re-check. *)
Definition nth_sig (sigs : list sigenv) (i : nat) : sigenv := nth i sigs (mkSig false true false false).
Definition head_or0 (path : list nat) : nat := match path with i :: _ => i | [] => 0 end.

(* oracle of verifyOne for one file *)
Definition oracle_of_file (fl : flags) (e : fileenv) : oracle :=
  mkO
    (fun site path =>
       match site with
       | 0 => if fe_open e then 0 else 1                       (* shared.OpenFile *)
       | 3 => if fe_seek e then 0 else 1                       (* f.Seek *)
       | 6 => if negb (fe_compressed e) || fe_decomp e then 0 else 1   (* magic.Decompress *)
       | 7 | 8 => match fe_verify e with VOk => 0 | VNoKey => 3 | VErr => 1 end   (* mod.VerifyStream / mod.Verify; kind 2 = ErrNoKey *)
       | 11 => let g := nth_sig (fe_sigs e) (head_or0 path) in
               if sg_chain_ok g then 0 else if sg_unknown_auth g then 4 else 1     (* VerifyChain; kind 3 = UnknownAuthorityError *)
       | _ => 0
       end)
    (fun k path =>
       match k with
       | 0 => negb (fe_magic e)                                (* mod == nil after ByMagic *)
       | 1 => negb (fe_magic e) && negb (fe_name e)            (* mod == nil after ByFileName *)
       | 2 => fe_stream e                                      (* mod.VerifyStream != nil *)
       | 3 => fe_compressed e                                  (* opts.Compression != magic.CompressedNone *)
       | 4 => sg_x509 (nth_sig (fe_sigs e) (head_or0 path))    (* sig.X509Signature != nil *)
       | 5 => sg_countersig (nth_sig (fe_sigs e) (head_or0 path))
       | _ => false
       end)
    (fun l path => match l with 0 => List.length (fe_sigs e) | _ => 0 end)
    (fun f => match f with 4 => fl_no_integrity fl | 5 => fl_no_chain fl | _ => false end)
    (fun f => match f with 0 => fl_no_integrity fl | 1 => fl_no_chain fl | 2 => fl_system fl | 3 => fl_show fl | _ => false end).

Definition file_run (fl : flags) (e : fileenv) : compl * st := run_fn (oracle_of_file fl e) (f_prog p_verify_one).
Definition ret_of (r : compl * st) : option errval := match fst r with KRet v => Some v | _ => None end.
(* verifyOne returned nil *)
Definition file_accepts (fl : flags) (e : fileenv) : bool :=
  match ret_of (file_run fl e) with Some None => true | _ => false end.
(* OK lines printed for the file: effects 3, 4 (signature + timestamp) and 5 *)
Definition ok_tag (t : nat) : bool := match t with 3 | 4 | 5 => true | _ => false end.
Definition file_ok_lines (fl : flags) (e : fileenv) : nat := List.length (filter (fun x => ok_tag (fst x)) (s_out (snd (file_run fl e)))).

(* oracle of verifyCmd: loadCerts succeeds or not; n files are named; verifyOne of the i-th file returns nil iff acc i *)
Definition oracle_of_cmd (acc : nat -> bool) (certs_ok : bool) (n : nat) : oracle :=
  mkO
    (fun site path =>
       match site with
       | 0 => if certs_ok then 0 else 1
       | 1 => if acc (head_or0 path) then 0 else 1
       | _ => 0
       end)
    (fun k path => match k with 0 => Nat.eqb n 0 | _ => false end)      (* len(args) == 0 *)
    (fun l path => n)
    (fun f => false) (fun f => false).

(* oracle of shared.Main: no late hooks; the command returned v *)
Definition oracle_of_main (v : errval) : oracle :=
  mkO (fun site path => match site with 1 => match v with None => 0 | Some _ => 1 end | _ => 0 end)
      (fun _ _ => false) (fun _ _ => 0) (fun _ => false) (fun _ => false).

(* exit status of the process: os.Exit inside the command, otherwise what Main makes of the returned error; 0 when main returns.
   -1 stands for "the model is stuck" (a statement the translator does not know) *)
Definition main_exit (v : errval) : Z :=
  match exec (oracle_of_main v) (f_prog p_main) [] (init_st (f_prog p_main)) with
  | (KExit z, _) => z
  | (KNorm, _) | (KRet _, _) => 0%Z
  | _ => (-1)%Z
  end.
Definition cmd_run (acc : nat -> bool) (certs_ok : bool) (n : nat) : compl * st :=
  exec (oracle_of_cmd acc certs_ok n) (f_prog p_verify_cmd) [] (init_st (f_prog p_verify_cmd)).
Definition cmd_exit (acc : nat -> bool) (certs_ok : bool) (n : nat) : Z :=
  match cmd_run acc certs_ok n with
  | (KExit z, _) => z
  | (KRet v, _) => main_exit v
  | (KNorm, _) => main_exit None
  | _ => (-1)%Z
  end.
Definition accepts_nth (fl : flags) (files : list fileenv) (i : nat) : bool :=
  match nth_error files i with Some e => file_accepts fl e | None => true end.
Definition process_exit (fl : flags) (certs_ok : bool) (files : list fileenv) : Z :=
  cmd_exit (accepts_nth fl files) certs_ok (List.length files).
(* "path ERROR:" lines of the command (effect 0), as the list of file indices *)
Definition error_lines_of (out : list (nat * list nat)) : list nat :=
  flat_map (fun x => match x with (0, [i]) => [i] | _ => [] end) out.
Definition cmd_error_lines (fl : flags) (certs_ok : bool) (files : list fileenv) : list nat :=
  error_lines_of (s_out (snd (cmd_run (accepts_nth fl files) certs_ok (List.length files)))).

(* ================================================================== 5. dispatch and option flow *)
(* signers.ByMagic / ByFileName over the generated table of registered modules, with the generated conditions *)
Definition by_magic (regs : list reg) (m : Z) : option reg :=
  if by_magic_refuses m then None
  else if by_magic_returns_match then find (fun r => by_magic_match (r_magic r) m) regs else None.
Definition by_file_name (regs : list reg) (matches : reg -> bool) : option reg :=
  if by_name_returns_match then find (fun r => by_name_match (r_testpath r) (matches r)) regs else None.
Definition dispatch (regs : list reg) (m : Z) (matches : reg -> bool) : option reg :=
  match by_magic regs m with Some r => Some r | None => by_file_name regs matches end.
Definition has_verifier (r : reg) : bool := negb (String.eqb (r_verify r) "") || negb (String.eqb (r_stream r) "").
(* a module can be selected by content or by name *)
Definition selectable (r : reg) : bool := negb (r_magic r =? file_type_unknown)%Z || r_testpath r.

(* option flow: flag defaults -> option literal of loadCerts -> fields written later -> arguments of library verifiers *)
Fixpoint assoc {A} (k : string) (l : list (string * A)) : option A :=
  match l with [] => None | (k', v) :: t => if String.eqb k k' then Some v else assoc k t end.
Definition flag_default (var : string) : option string :=
  match assoc var verify_flags with Some (_, (_, d)) => Some d | None => None end.
(* the source expression of an option field on the command-line path, and its value when no flag is given *)
Definition opt_source (field : string) : option string := assoc field load_opts_literal.
Definition opt_default (field : string) : option string :=
  match opt_source field with Some v => flag_default v | None => None end.

Fixpoint index_of (s : string) (l : list string) : option nat :=
  match l with [] => None | x :: t => if String.eqb s x then Some 0 else option_map S (index_of s t) end.
Definition fld (name : string) : nat := match index_of name opts_fields with Some i => i | None => 99 end.

(* all calls of a program with their callee text and argument classes *)
Fixpoint calls_of (p : stmt) : list (nat * list arg) :=
  match p with
  | SSeq a b => calls_of a ++ calls_of b
  | SCall site _ args | SReturnCall site args => [(site, args)]
  | SIf _ a b => calls_of a ++ calls_of b
  | SLoop _ b => calls_of b
  | _ => []
  end.
Definition named_calls (f : fprog) : list (string * list arg) :=
  map (fun c => (nth (fst c) (f_calls f) ""%string, snd c)) (calls_of (f_prog f)).

(* the error component of every return statement, in source order: the outcome classes of a function *)
Fixpoint returns_of (p : stmt) : list eexp :=
  match p with
  | SSeq a b => returns_of a ++ returns_of b
  | SIf _ a b => returns_of a ++ returns_of b
  | SLoop _ b => returns_of b
  | SReturn e => [e]
  | _ => []
  end.

(* value of a boolean argument class under given option values; None = not a boolean the model understands *)
Definition arg_bool (optv : nat -> bool) (a : arg) : option bool :=
  match a with AOpt f => Some (optv f) | ANotOpt f => Some (negb (optv f)) | ABool b => Some b | _ => None end.

(* the library verifiers that take a skip-digests flag, with the position of that argument; and those that take the PGP keyring *)
Definition digest_flag_pos : list (string * nat) :=
  [("signappx.Verify", 2); ("authenticode.VerifyCab", 1); ("psd.Content.Verify", 1); ("signdeb.Verify", 2); ("d.Verify", 0);
   ("signjar.Verify", 1); ("authenticode.VerifyMSI", 1); ("authenticode.VerifyPE", 1); ("authenticode.VerifyPowershell", 2);
   ("signxap.Verify", 2); ("x.Verify", 0); ("machos.Verify", 3)]%string.
Definition keyring_pos : list (string * nat) :=
  [("signdeb.Verify", 1); ("rpmutils.Verify", 1); ("pgptools.VerifyClearSign", 2); ("pgptools.VerifyDetached", 2); ("pgptools.VerifyInline", 2)]%string.

(* every call of a listed verifier passes, at the listed position, an argument that evaluates to false under optv *)
Definition digest_args_false (optv : nat -> bool) (f : fprog) : bool :=
  forallb (fun c => match assoc (fst c) digest_flag_pos with
                    | Some pos => match arg_bool optv (nth pos (snd c) AOther) with Some false => true | _ => false end
                    | None => true
                    end) (named_calls f).
Definition keyring_args_ok (f : fprog) : bool :=
  forallb (fun c => match assoc (fst c) keyring_pos with
                    | Some pos => match nth pos (snd c) AOther with AOpt k => Nat.eqb k (fld "TrustedPgp") | _ => false end
                    | None => true
                    end) (named_calls f).
(* the option values of the command-line path when no flag is given: every boolean field false *)
Definition cli_default_opts : nat -> bool := fun _ => false.

(* ================================================================== 6. reviewed tables *)
(* call sites, opaque conditions, effects of the command functions, as reviewed; Proofs.v proves the generated tables equal *)
Definition reviewed_verify_one_calls : list string :=
  ["shared.OpenFile"; "defer f.Close"; "magic.DetectCompressed"; "f.Seek"; "signers.ByMagic"; "signers.ByFileName"; "magic.Decompress";
   "mod.VerifyStream"; "mod.Verify"; "showCert"; "showCert"; "sig.X509Signature.VerifyChain"]%string.
Definition reviewed_verify_one_atoms : list string :=
  ["mod == nil"; "mod == nil"; "mod.VerifyStream != nil"; "opts.Compression != magic.CompressedNone"; "sig.X509Signature != nil";
   "sig.X509Signature.CounterSignature != nil"]%string.
Definition reviewed_verify_one_effects : list string :=
  ["opts.FileName = path"; "opts.Compression = compression";
   "fmt.Printf(""While validating certificate:\n Subject: %s\n Issuer: %s\n Serial: %X\n"")";
   "fmt.Printf(""%s: OK -%s %s%s\n"")"; "fmt.Printf(""%s(timestamp): OK - `%s` [%s]\n"")"; "fmt.Printf(""%s: OK -%s %s%s%s\n"")"]%string.
Definition reviewed_verify_one_loops : list string :=
  ["for _, sig := range sigs"; "for _, cert := range sig.X509Signature.Intermediates"]%string.
Definition reviewed_verify_cmd_calls : list string := ["loadCerts"; "verifyOne"]%string.
Definition reviewed_verify_cmd_atoms : list string := ["len(args) == 0"]%string.
Definition reviewed_verify_cmd_effects : list string :=
  ["fmt.Printf(""%s ERROR: %s\n"")"; "fmt.Fprintln(os.Stderr, ""ERROR: 1 or more files did not validate"")"]%string.
Definition reviewed_verify_cmd_loops : list string := ["for _, path := range args"]%string.
Definition reviewed_main_calls : list string := ["f"; "RootCmd.Execute"]%string.
Definition reviewed_opts_fields : list string :=
  ["FileName"; "TrustedX509"; "TrustedPgp"; "TrustedPool"; "NoDigests"; "NoChain"; "Content"; "Compression"]%string.
Definition reviewed_flag_vars : list string := ["argNoIntegrityCheck"; "argNoChain"; "argAlsoSystem"; "argShowCerts"]%string.
Definition reviewed_load_certs_effects : list string :=
  ["opts := signers.VerifyOpts{ NoChain: argNoChain, NoDigests: argNoIntegrityCheck, Content: argContent, }";
   "opts.TrustedX509 = trusted.X509Certs"; "opts.TrustedPgp = trusted.PGPCerts"; "opts.TrustedPool, err = x509.SystemCertPool()";
   "opts.TrustedPool = x509.NewCertPool()"]%string.
Definition reviewed_load_certs_calls : list string :=
  ["certloader.LoadAnyCerts"; "x509.SystemCertPool"; "x509.NewCertPool"; "opts.TrustedPool.AddCert"]%string.

(* exemptions of verifyOne: the deferred Close and the certificate dump are not part of the verdict *)
Definition verify_one_exempt : list (string * nat) := [("defer f.Close", 0); ("showCert", 0)]%string.

(* call sites of every signer glue function, as reviewed *)
Definition reviewed_signer_calls : list (string * list string) :=
  [("apk.verify", ["getSigBlock"; "unmarshal"; "signer.Verify"; "zip.NewReader"; "signjar.Verify"]);
   ("appmanifest.verify", ["ioutil.ReadAll"; "appmanifest.Verify"]);
   ("appx.verify", ["f.Seek"; "signappx.Verify"]);
   ("cab.verify", ["authenticode.VerifyCab"]);
   ("pkcs.Verify", ["ioutil.ReadAll"; "pkcs7.Unmarshal"; "ioutil.ReadFile"; "psd.Content.Verify"; "pkcs9.VerifyOptionalTimestamp"; "x509tools.PkixDigestToHash"]);
   ("deb.verify", ["signdeb.Verify"]);
   ("dmg.verify", ["dmg.Open"; "d.Verify"]);
   ("macho.verifyIPA", ["f.Seek"; "f.Seek"; "zip.NewReader"; "readPlist"; "plist.Unmarshal"; "readResources"; "findTickets"; "os.CreateTemp";
                        "defer os.Remove"; "defer fe.Close"; "extractExecutable"; "verifyFat"]);
   ("jar.verify", ["openZip"; "signjar.Verify"]);
   ("macho.verifyMachoFile", ["verifyMacho"]);
   ("macho.verifyFatFile", ["verifyFat"]);
   ("msi.verify", ["authenticode.VerifyMSI"]);
   ("pecoff.verify", ["authenticode.VerifyPE"]);
   ("pgp.verify", ["br.Peek"; "pgptools.VerifyClearSign"; "verifyPgp"; "armor.Decode"; "os.Open"; "defer fc.Close"; "pgptools.VerifyDetached";
                   "verifyPgp"; "pgptools.VerifyInline"; "verifyPgp"]);
   ("ps.verify", ["getStyle"; "authenticode.VerifyPowershell"; "x509tools.PkixDigestToHash"]);
   ("rpm.verify", ["rpmutils.Verify"]);
   ("vsix.verify", ["f.Seek"; "zip.NewReader"; "readSignature"; "doc.ReadFromString"; "xmldsig.Verify"; "checkManifest"; "checkTimestamp"]);
   ("xap.verify", ["f.Seek"; "signxap.Verify"]);
   ("xar.verify", ["f.Seek"; "xar.Open"; "x.Verify"]);
   ("macho.verifyFat", ["macho.NewFatFile"; "verifyMacho"; "verifyMacho"]);
   ("macho.verifyMacho", ["machos.Verify"]);
   ("pgp.verifyPgp", ["(parameter err)"])]%string.

(* errors the glue may drop, per function and callee: (callee, 0) any kind, (callee, kind + 1) that kind only.
   - PkixDigestToHash: the digest is only displayed (the CMS verifier resolved the algorithm before)
   - deferred Close / Remove of temporary and content files; Peek on the first bytes (a short read means "not armored")
   - signjar.Verify of an APK: "not signed" (kind 1) is the v2-only case, decided by the emptiness test that follows
   - macho.NewFatFile: ErrNotFat (kind 4) selects the thin-file path *)
Definition signer_exempt : list (string * list (string * nat)) :=
  [("pkcs.Verify", [("x509tools.PkixDigestToHash", 0)]);
   ("ps.verify", [("x509tools.PkixDigestToHash", 0)]);
   ("macho.verifyIPA", [("defer os.Remove", 0); ("defer fe.Close", 0)]);
   ("pgp.verify", [("defer fc.Close", 0); ("br.Peek", 0)]);
   ("apk.verify", [("signjar.Verify", 2)]);
   ("macho.verifyFat", [("macho.NewFatFile", 5)])]%string.
Definition exempt_of (f : fprog) : exemptions :=
  resolve f (match assoc (f_key f) signer_exempt with Some l => l | None => [] end).

(* what every signer glue function returns beside a nil error.  "literal:1" is a one-element list; a variable is non-empty because:
   allSigs (apk): `len(allSigs) == 0` returns NotSignedError just before; ret (deb): one entry per element of sigmap, emptiness of
   which was refused; ret (rpm): sigs is non-empty and its first element is never skipped as seen; ret (jar, pe-coff): one entry per
   element of the list the library verifier returned (signjar.Verify / authenticode.VerifyPE refuse an artefact without signature
   files / with an empty certificate table); sigs (verifyFat): one per architecture, debug/macho refuses a fat file without any. *)
Definition reviewed_signer_results : list (string * list string) :=
  [("apk.verify", ["var:allSigs"]); ("appmanifest.verify", ["literal:1"]); ("appx.verify", ["literal:1"]); ("cab.verify", ["literal:1"]);
   ("pkcs.Verify", ["literal:1"]); ("deb.verify", ["var:ret"]); ("dmg.verify", ["literal:1"]); ("macho.verifyIPA", []); ("jar.verify", ["var:ret"]);
   ("macho.verifyMachoFile", ["literal:1"]); ("macho.verifyFatFile", []); ("msi.verify", ["literal:1"]); ("pecoff.verify", ["var:ret"]);
   ("pgp.verify", []); ("ps.verify", ["literal:1"]); ("rpm.verify", ["var:ret"]); ("vsix.verify", ["literal:1"]); ("xap.verify", ["literal:1"]);
   ("xar.verify", ["literal:1"]); ("macho.verifyFat", ["literal:1"; "var:sigs"]); ("macho.verifyMacho", ["&signers.Signature{ Hash: sig.HashFunc, X509Signature: sig.Signature, SigInfo: si, }"]);
   ("pgp.verifyPgp", ["literal:1"])]%string.
Definition signer_results_generated : list (string * list string) := map (fun f => (f_key f, f_results f)) signer_progs.

Definition signer_calls_generated : list (string * list string) := map (fun f => (f_key f, f_calls f)) signer_progs.
Definition all_signers_errflow_ok : bool := forallb (fun f => errflow_ok (exempt_of f) (f_prog f)) signer_progs.

(* every registered Verify / VerifyStream function has a translated program *)
Definition prog_of (key : string) : option fprog := find (fun f => String.eqb (f_key f) key) signer_progs.
Definition registered_translated : bool :=
  forallb (fun r => (String.eqb (r_verify r) "" || match prog_of (r_verify r) with Some _ => true | None => false end) &&
                    (String.eqb (r_stream r) "" || match prog_of (r_stream r) with Some _ => true | None => false end)) registered_signers.

(* outcome classes of verifyOne as reviewed: the error component of every return statement, in source order *)
Definition reviewed_verify_one_returns : list eexp :=
  [EVar 0; EVar 1; EFresh 0; EVar 2; EFresh 1; EWrap 0 2; EVar 0; EVar 3; ENil].
(* every name of a table is the callee of some call of some glue function *)
Definition listed_called (names : list (string * nat)) : bool :=
  forallb (fun n => existsb (fun f => existsb (fun c => String.eqb (fst c) (fst n)) (named_calls f)) signer_progs) names.
(* no flag given *)
Definition fl0 : flags := mkFlags false false false false.
(* a file whose module returns an empty signature list and no error *)
Definition empty_list_file : fileenv := mkFile true true true false false false true VOk [].

(* ------------------------------------------------------------------ trust pool built by loadCerts *)
(* oracle of loadCerts: the --cert files load or not, they contain X.509 certificates or not (len(opts.TrustedX509) > 0),
   --system-store, the system pool can be read, n certificates *)
Definition oracle_of_load (certs_ok have_x509 system sys_ok : bool) (n : nat) : oracle :=
  mkO (fun site _ => match site with 0 => if certs_ok then 0 else 1 | 1 => if sys_ok then 0 else 1 | _ => 0 end)
      (fun _ _ => have_x509) (fun _ _ => n) (fun _ => false) (fun f => match f with 2 => system | _ => false end).
(* which pool constructor ran: effect 3 = opts.TrustedPool, err = x509.SystemCertPool(), effect 4 = opts.TrustedPool = x509.NewCertPool() *)
Definition pool_effects (out : list (nat * list nat)) : list nat :=
  flat_map (fun x => match fst x with 3 => [3] | 4 => [4] | _ => [] end) out.
(* calls of opts.TrustedPool.AddCert (site 3) *)
Definition addcert_calls (s : st) : nat := List.length (filter (fun c => Nat.eqb (fst (fst c)) 3) (s_calls s)).
(* SPEC: the pool is nil (system roots) when no X.509 anchor was given; otherwise a NEW pool holding exactly the given certificates,
   or the system pool plus the given certificates when --system-store was asked for *)
Definition spec_pool (have_x509 system : bool) : list nat := if have_x509 then (if system then [3] else [4]) else [].

(* ------------------------------------------------------------------ RPM: signatures by unknown keys *)
(* oracle of the rpm glue: rpmutils.Verify succeeded and returned n signatures; seen i / nosigner i for the i-th *)
Definition oracle_of_rpm (no_chain : bool) (n : nat) (seen nosigner : nat -> bool) : oracle :=
  mkO (fun _ _ => 0)
      (fun k path => match k with 0 => Nat.eqb n 0 | 1 => seen (head_or0 path) | 2 => nosigner (head_or0 path) | _ => false end)
      (fun _ _ => n) (fun f => match f with 5 => no_chain | _ => false end) (fun _ => false).
(* SPEC: the i-th signature is acceptable when it repeats a key already seen, its signer is in the keyring, or trust checking is off *)
Definition rpm_sig_ok (no_chain : bool) (seen nosigner : nat -> bool) (i : nat) : bool := seen i || negb (nosigner i) || no_chain.
