(* C02/IR.v — syntax of the small imperative language into which srcgen (harness/cmd/srcgen/gen_c02.go, c02Program)
   translates, statement by statement, the Go functions through which `relic verify` decides its exit status:

     cmdline/shared   Main                         (error of the command -> exit status)
     cmdline/verify   verifyCmd, verifyOne, loadCerts
     signers/<x>      the function registered as Signer.Verify / Signer.VerifyStream of every module and the local
                      helpers it hands its options to (verifyFat, verifyMacho, verifyPgp ...)

   What is kept: every call whose error result is bound (to an error variable, to `_`, or not at all), assignments between
   error variables, integer variables initialised by a literal (rc), if / else on error variables, on the kind of an error
   (type assertion, errors.As, comparison with a sentinel), on option fields and command-line flags, on integer variables;
   every other condition is an opaque atom the environment decides; for / range loops (the environment decides the number of
   iterations), continue / break, return (the error component), os.Exit, print statements.  Everything else (data
   assignments, formatting) is dropped.  A statement the translator does not know becomes SUnknown, on which every
   analysis in C02/Model.v fails.  Semantics: C02/Model.v.  This file does not depend on generated code (the generated
   file imports it). *)
From Coq Require Export String.
From Relic Require Import Base.Prelude.

(* error-valued expressions *)
Inductive eexp :=
| ENil
| EVar (v : nat)
| EFresh (tag : nat)            (* errors.New / fmt.Errorf without %w / a literal or conversion of an error type *)
| EWrap (v : nat) (tag : nat).  (* fmt.Errorf("... %w", v) *)

(* argument classes of a call *)
Inductive arg :=
| AOpts                          (* the VerifyOpts value as a whole *)
| AOpt (f : nat)                 (* opts.<field>, field = index into the generated list of VerifyOpts fields *)
| ANotOpt (f : nat)              (* !opts.<field> *)
| ABool (b : bool)
| ANil
| AErr (v : nat)                 (* an error variable passed on *)
| AOther.

Inductive iexp := IConst (z : Z) | IVar (v : nat).
Inductive cmp := OpEq | OpNe | OpLt | OpLe | OpGt | OpGe.

Inductive cond :=
| CNil (v : nat) | CNotNil (v : nat)
| CIsKind (v : nat) (k : nat)    (* _, ok := v.(T); ok      errors.As(v, &T{})      v == pkg.ErrSentinel *)
| CInt (op : cmp) (a b : iexp)
| COpt (f : nat)                 (* a boolean field of opts *)
| CFlag (f : nat)                (* a boolean command-line flag variable *)
| COpaque (k : nat)              (* any other condition: index into the generated table of texts *)
| CNot (c : cond) | CAnd (a b : cond) | COr (a b : cond).

(* where the error result of a call goes *)
Inductive dest :=
| DVar (v : nat)                 (* x, err := f()   /   err = f() *)
| DDrop                          (* x, _ := f()   /   f()   /   defer f()  : the result is thrown away *)
| DNone.                         (* a tracked call that has no error result (magic.DetectCompressed, signers.ByMagic) *)

Inductive stmt :=
| SSkip
| SSeq (a b : stmt)
| SCall (site : nat) (dst : dest) (args : list arg)
| SSet (dst : nat) (e : eexp)
| SSetI (dst : nat) (e : iexp)
| SEffect (tag : nat)                       (* fmt.Printf(...) / fmt.Fprintln(...) / opts.X = ... : index into the effect table *)
| SIf (c : cond) (th el : stmt)
| SLoop (site : nat) (body : stmt)          (* for ... range / for cond: index into the loop table *)
| SContinue | SBreak
| SReturn (e : eexp)                        (* the error component of the returned tuple *)
| SReturnCall (site : nat) (args : list arg)  (* return f(...) *)
| SExit (e : iexp)                          (* os.Exit(e) *)
| SUnknown (h : nat).

(* one registered signer module (signers.Register(&signers.Signer{...})) *)
Record reg := mkReg {
  r_dir : string;          (* directory under signers/ *)
  r_name : string;         (* Signer.Name *)
  r_magic : Z;             (* value of the magic.FileType constant in Signer.Magic; 0 (FileTypeUnknown) when the field is absent *)
  r_verify : string;       (* function in Signer.Verify ("" when absent), as "dir.func" *)
  r_stream : string;       (* function in Signer.VerifyStream *)
  r_testpath : bool        (* Signer.TestPath present *)
}.

(* one translated function *)
Record fprog := mkF {
  f_key : string;          (* "dir.func" *)
  f_prog : stmt;
  f_calls : list string;   (* callee of every call site, by site number *)
  f_atoms : list string;   (* text of every opaque condition, by number *)
  f_errs : list string;    (* text of every fresh / wrapping error, by tag *)
  f_effects : list string; (* text of every effect, by tag *)
  f_loops : list string;   (* header of every loop, by number *)
  f_results : list string  (* class of the first result at every `return X, nil`, in source order: "literal:<n>" / "var:<name>" / "nil" / text *)
}.
