(* C02/Properties.v — the verification command and the verifier dispatch (extension of C02: cmdline/verify, cmdline/shared.Main,
   signers.ByMagic / ByFileName, the Verify glue of every signer module).  Statements only; proofs in C02/Proofs.v.
   The programs p_* are generated from /repo by srcgen (Generated/C02_gen.v); Model.v interprets them. *)
From Relic Require Import Base.Prelude C02.IR Generated.C02_gen C02.Model C02.Proofs.
Local Open Scope nat_scope.

(* ---- error-flow analysis: sound for every program of the statement language and every oracle *)
Theorem errflow_sound ex p o :
  errflow_ok ex p = true ->
  match run_fn o p with
  | (KRet v, s) => forall x, In x (failed_calls s) -> exempt ex x = true \/ In x (s_passed s) \/ v = Some x
  | (KExit _, _) => True
  | _ => False
  end.
Proof. exact (C02.Proofs.errflow_sound ex p o). Qed.

(* ---- verifyOne (generated program, oracle built from a file environment) against the SPEC, for every environment *)
Theorem verify_one_accepts_iff_ok fl e : file_accepts fl e = file_ok fl e.
Proof. exact (C02.Proofs.verify_one_accepts_iff_ok fl e). Qed.
Theorem verify_one_ok_lines fl e : file_ok_lines fl e = fst (spec_lines fl e).
Proof. exact (C02.Proofs.verify_one_ok_lines fl e). Qed.
Theorem verify_one_returns fl e : exists v, fst (file_run fl e) = KRet v.
Proof. exact (C02.Proofs.verify_one_returns fl e). Qed.

(* ---- the command is a fold over the file list; exit status *)
Theorem cmd_exit_fold acc certs n :
  cmd_exit acc certs n = (if certs && negb (Nat.eqb n 0) && forallb acc (seq 0 n) then 0 else 1)%Z /\
  (certs = true -> error_lines_of (s_out (snd (cmd_run acc certs n))) = filter (fun j => negb (acc j)) (seq 0 n)).
Proof. exact (C02.Proofs.cmd_exit_fold acc certs n). Qed.
Theorem process_exit_spec fl certs files : process_exit fl certs files = spec_exit fl certs files.
Proof. exact (C02.Proofs.process_exit_spec fl certs files). Qed.
(* status 0 iff the anchors loaded, a file was named, and EVERY named file was opened, recognised, verified by its module and
   (unless --no-trust-chain) chained — for every list of files and every combination of per-file outcomes *)
Theorem exit_zero_iff_all_ok fl certs files :
  process_exit fl certs files = 0%Z <-> certs = true /\ files <> [] /\ forall e, In e files -> file_ok fl e = true.
Proof. exact (C02.Proofs.exit_zero_iff_all_ok fl certs files). Qed.
Theorem error_lines_spec fl files :
  cmd_error_lines fl true files = filter (fun i => negb (accepts_nth fl files i)) (seq 0 (List.length files)).
Proof. exact (C02.Proofs.error_lines_spec fl files). Qed.
Theorem process_exit_01 fl certs files : process_exit fl certs files = 0%Z \/ process_exit fl certs files = 1%Z.
Proof. exact (C02.Proofs.process_exit_01 fl certs files). Qed.

(* ---- no outcome class maps an error to success *)
Theorem verify_one_errors_propagate o s :
  run_fn o (f_prog p_verify_one) = (KRet None, s) ->
  forall site k, In (OSite site, k) (failed_calls s) -> (site = 1 \/ site = 9 \/ site = 10) \/ In (OSite site, k) (s_passed s).
Proof. exact (C02.Proofs.verify_one_errors_propagate o s). Qed.
Theorem verify_one_outcome_classes :
  returns_of (f_prog p_verify_one) = reviewed_verify_one_returns /\
  List.length (filter (fun e => match e with ENil => true | _ => false end) (returns_of (f_prog p_verify_one))) = 1 /\
  last (returns_of (f_prog p_verify_one)) (EVar 0) = ENil /\
  returns_of (f_prog p_verify_cmd) = [EFresh 0; EVar 0; ENil].
Proof. exact C02.Proofs.verify_one_outcome_classes. Qed.
Theorem load_certs_errors_propagate o s :
  run_fn o (f_prog p_load_certs) = (KRet None, s) ->
  forall x, In x (failed_calls s) -> exempt (resolve p_load_certs [("opts.TrustedPool.AddCert"%string, 0)]) x = true \/ In x (s_passed s).
Proof. exact (C02.Proofs.load_certs_errors_propagate o s). Qed.

(* ---- every signer module: errors of the glue reach the caller, digests are checked unless the flag says otherwise *)
Theorem signers_errors_propagate f o s :
  In f signer_progs -> run_fn o (f_prog f) = (KRet None, s) ->
  forall x, In x (failed_calls s) -> exempt (exempt_of f) x = true \/ In x (s_passed s).
Proof. exact (C02.Proofs.signers_errors_propagate f o s). Qed.
Theorem verify_pgp_keeps_error o s : run_fn o (f_prog p_pgp_verifyPgp) = (KRet None, s) -> o_call o 0 [] = 0.
Proof. exact (C02.Proofs.verify_pgp_keeps_error o s). Qed.
Theorem digests_checked_unless_flag optv :
  optv (fld "NoDigests") = false -> forallb (digest_args_false optv) signer_progs = true.
Proof. exact (C02.Proofs.digests_checked_unless_flag optv). Qed.
Theorem option_flow_reviewed :
  listed_called digest_flag_pos = true /\ listed_called keyring_pos = true /\
  forallb keyring_args_ok signer_progs = true /\ registered_translated = true /\
  opt_source "NoDigests" = Some "argNoIntegrityCheck"%string /\ opt_default "NoDigests" = Some "false"%string /\
  opt_source "NoChain" = Some "argNoChain"%string /\ opt_default "NoChain" = Some "false"%string /\
  fld "NoDigests" = 4 /\ fld "NoChain" = 5 /\ fld "TrustedPgp" = 2 /\ fld "TrustedPool" = 3.
Proof. exact C02.Proofs.option_flow_reviewed. Qed.
Theorem chain_call_reviewed :
  In ("sig.X509Signature.VerifyChain"%string, [AOpt 3; ANil; AOther]) (named_calls p_verify_one) /\
  In ("mod.Verify"%string, [AOther; AOpts]) (named_calls p_verify_one) /\
  In ("mod.VerifyStream"%string, [AOther; AOpts]) (named_calls p_verify_one) /\
  In ("verifyOne"%string, [AOther; AOpts]) (named_calls p_verify_cmd).
Proof. exact C02.Proofs.chain_call_reviewed. Qed.

(* ---- trust anchors: which pool loadCerts builds (nil = system roots only when NO X.509 anchor was given; a new pool with exactly the
   given certificates unless --system-store), and the RPM glue's treatment of signatures by keys outside the keyring *)
Theorem load_certs_pool_spec certs_ok have_x509 system sys_ok n :
  let r := run_fn (oracle_of_load certs_ok have_x509 system sys_ok n) (f_prog p_load_certs) in
  (exists v, fst r = KRet v /\ (v = None <-> certs_ok && (negb have_x509 || negb system || sys_ok) = true)) /\
  (fst r = KRet None -> pool_effects (s_out (snd r)) = spec_pool have_x509 system /\ addcert_calls (snd r) = if have_x509 then n else 0).
Proof. exact (C02.Proofs.load_certs_pool_spec certs_ok have_x509 system sys_ok n). Qed.
Theorem rpm_unknown_key_rejected no_chain n seen nosigner :
  let r := run_fn (oracle_of_rpm no_chain n seen nosigner) (f_prog p_rpm_verify) in
  exists v, fst r = KRet v /\ (v = None <-> negb (Nat.eqb n 0) && forallb (rpm_sig_ok no_chain seen nosigner) (seq 0 n) = true).
Proof. exact (C02.Proofs.rpm_unknown_key_rejected no_chain n seen nosigner). Qed.

(* ---- dispatch *)
Theorem by_magic_sound regs m r : by_magic regs m = Some r -> In r regs /\ r_magic r = m /\ m <> file_type_unknown.
Proof. exact (C02.Proofs.by_magic_sound regs m r). Qed.
Theorem by_file_name_sound regs matches r : by_file_name regs matches = Some r -> In r regs /\ r_testpath r = true /\ matches r = true.
Proof. exact (C02.Proofs.by_file_name_sound regs matches r). Qed.
Theorem registered_reviewed :
  forallb (fun r => negb (selectable r) || has_verifier r) registered_signers = true /\
  NoDup (filter (fun m => negb (m =? file_type_unknown)%Z) (map r_magic registered_signers)) /\
  List.length registered_signers = 21.
Proof. exact C02.Proofs.registered_reviewed. Qed.
Theorem dispatch_selects_verifier m matches r : dispatch registered_signers m matches = Some r -> has_verifier r = true.
Proof. exact (C02.Proofs.dispatch_selects_verifier m matches r). Qed.
Theorem unknown_content_by_name_only matches r :
  dispatch registered_signers file_type_unknown matches = Some r -> r_testpath r = true /\ matches r = true.
Proof. exact (C02.Proofs.unknown_content_by_name_only matches r). Qed.

(* ---- generated tables equal the reviewed ones (a moved, added or removed call / condition / print changes these statements) *)
Theorem reviewed_tables_command :
  f_calls p_verify_one = reviewed_verify_one_calls /\ f_atoms p_verify_one = reviewed_verify_one_atoms /\
  f_effects p_verify_one = reviewed_verify_one_effects /\ f_loops p_verify_one = reviewed_verify_one_loops /\
  f_calls p_verify_cmd = reviewed_verify_cmd_calls /\ f_atoms p_verify_cmd = reviewed_verify_cmd_atoms /\
  f_effects p_verify_cmd = reviewed_verify_cmd_effects /\ f_loops p_verify_cmd = reviewed_verify_cmd_loops /\
  f_calls p_main = reviewed_main_calls /\ opts_fields = reviewed_opts_fields /\ flag_vars = reviewed_flag_vars /\
  f_effects p_load_certs = reviewed_load_certs_effects /\ f_calls p_load_certs = reviewed_load_certs_calls /\
  f_atoms p_load_certs = ["len(opts.TrustedX509) > 0"%string].
Proof. exact C02.Proofs.reviewed_tables_command. Qed.
Theorem reviewed_tables_signers :
  signer_calls_generated = reviewed_signer_calls /\ signer_results_generated = reviewed_signer_results.
Proof. exact C02.Proofs.reviewed_tables_signers. Qed.

(* ---- status 0 and verdict lines.  The full statement "status 0 => every file got an OK line" fails in the faithful model for a
   module that returns an empty list without an error (verifyOne prints nothing and returns nil); it holds whenever every module
   returns at least one signature, which reviewed_tables_signers pins for the glue of every registered module. *)
Theorem exit_zero_reports_every_file_refuted :
  exists e, process_exit fl0 true [e] = 0%Z /\ file_ok_lines fl0 e = 0.
Proof. exact C02.Proofs.exit_zero_reports_every_file_refuted. Qed.
Theorem exit_zero_reports_every_file fl certs files :
  process_exit fl certs files = 0%Z -> forall e, In e files -> fe_sigs e <> [] -> 1 <= file_ok_lines fl e.
Proof. exact (C02.Proofs.exit_zero_reports_every_file fl certs files). Qed.
Theorem refused_file_has_no_ok_line fl e : pre_ok e = false -> file_ok_lines fl e = 0.
Proof. exact (C02.Proofs.refused_file_has_no_ok_line fl e). Qed.

(* ---- non-vacuity *)
Definition ex_good : fileenv := mkFile true true true false false false true VOk [mkSig true true false false].
Definition ex_tampered : fileenv := mkFile true true true false false false true VErr [].
Definition ex_untrusted : fileenv := mkFile true true true false false false true VOk [mkSig true false true false].
Definition ex_pgp_nokey : fileenv := mkFile true true true false true false true VNoKey [].
Example ex_all_good : process_exit fl0 true [ex_good; ex_good] = 0%Z. Proof. vm_compute. reflexivity. Qed.
Example ex_one_bad_any_position :
  process_exit fl0 true [ex_tampered; ex_good] = 1%Z /\ process_exit fl0 true [ex_good; ex_tampered] = 1%Z /\
  process_exit fl0 true [ex_good; ex_untrusted; ex_good] = 1%Z /\ process_exit fl0 true [ex_pgp_nokey] = 1%Z /\
  process_exit fl0 true [] = 1%Z /\ process_exit fl0 false [ex_good] = 1%Z.
Proof. vm_compute. repeat split. Qed.
Example ex_no_chain_flag : process_exit (mkFlags false true false false) true [ex_untrusted] = 0%Z. Proof. vm_compute. reflexivity. Qed.
Example ex_error_lines : cmd_error_lines fl0 true [ex_good; ex_tampered; ex_untrusted] = [1; 2]. Proof. vm_compute. reflexivity. Qed.
(* the hypothesis of verify_one_errors_propagate is satisfiable, with and without an exempt failure *)
Example ex_nil_result : exists s, run_fn (oracle_of_file fl0 ex_good) (f_prog p_verify_one) = (KRet None, s) /\ failed_calls s = [].
Proof. eexists. split; vm_compute; reflexivity. Qed.
Example ex_close_fails_still_nil :
  let o := mkO (fun site _ => if Nat.eqb site 1 then 1 else 0) (o_atom (oracle_of_file fl0 ex_good)) (o_loop (oracle_of_file fl0 ex_good)) (fun _ => false) (fun _ => false) in
  exists s, run_fn o (f_prog p_verify_one) = (KRet None, s) /\ failed_calls s = [(OSite 1, 0)].
Proof. eexists. split; vm_compute; reflexivity. Qed.
(* the APK exemption is used: v1 "not signed" (kind 1) with a v2 signature present is accepted *)
Example ex_apk_v2_only :
  let o := mkO (fun site _ => if Nat.eqb site 4 then 2 else 0) (fun k _ => Nat.eqb k 6) (fun l _ => if Nat.eqb l 2 then 0 else 1) (fun _ => false) (fun _ => false) in
  exists s, run_fn o (f_prog p_apk_verify) = (KRet None, s) /\ failed_calls s = [(OSite 4, 1)].
Proof. eexists. split; vm_compute; reflexivity. Qed.
Example ex_digests_default : forallb (digest_args_false cli_default_opts) signer_progs = true. Proof. vm_compute. reflexivity. Qed.
(* with the flag set the argument is true somewhere: the theorem's hypothesis matters *)
Example ex_digests_flag : forallb (digest_args_false (fun f => Nat.eqb f 4)) signer_progs = false. Proof. vm_compute. reflexivity. Qed.
Example ex_dispatch_pe : option_map r_name (dispatch registered_signers 6 (fun _ => false)) = Some "pe-coff"%string. Proof. vm_compute. reflexivity. Qed.
Example ex_dispatch_unknown : dispatch registered_signers 0 (fun _ => false) = None. Proof. vm_compute. reflexivity. Qed.
Example ex_dispatch_ps : option_map r_name (dispatch registered_signers 0 (fun r => String.eqb (r_name r) "ps")) = Some "ps"%string. Proof. vm_compute. reflexivity. Qed.
Example ex_pool_new : pool_effects (s_out (snd (run_fn (oracle_of_load true true false true 2) (f_prog p_load_certs)))) = [4]. Proof. vm_compute. reflexivity. Qed.
Example ex_rpm_unknown : fst (run_fn (oracle_of_rpm false 2 (fun _ => false) (fun i => Nat.eqb i 1)) (f_prog p_rpm_verify)) = KRet (Some (OFresh 1, 0)). Proof. vm_compute. reflexivity. Qed.
Example ex_rpm_known : fst (run_fn (oracle_of_rpm false 2 (fun _ => false) (fun _ => false)) (f_prog p_rpm_verify)) = KRet None. Proof. vm_compute. reflexivity. Qed.
