(* C02/Run.v — evaluation of the model of the verification command on harness cases.
   input : [ [no_integrity no_chain system show] certs_ok [ file ... ] ]
           file = [ open seek magic name stream compressed decomp verify [ sig ... ] ]   verify: 0 accepted, 1 unknown PGP key, 2 refused
           sig  = [ x509 chain_ok unknown_authority countersig ]
   output: [ exit spec_exit [ index of every file with an ERROR line ] [ per file: accepts ok_lines spec_ok spec_ok_lines spec_error_line ] ]
   exit is computed by interpreting the generated programs (process_exit), spec_* by the SPEC of Model.v section 3. *)
From Relic Require Import Base.Prelude Base.Val C02.IR Generated.C02_gen C02.Model.
Local Open Scope nat_scope.

Definition to_sig (v : val) : sigenv := mkSig (vbool (vnth 0 v)) (vbool (vnth 1 v)) (vbool (vnth 2 v)) (vbool (vnth 3 v)).
Definition to_vres (z : Z) : vres := if (z =? 0)%Z then VOk else if (z =? 1)%Z then VNoKey else VErr.
Definition to_file (v : val) : fileenv :=
  mkFile (vbool (vnth 0 v)) (vbool (vnth 1 v)) (vbool (vnth 2 v)) (vbool (vnth 3 v)) (vbool (vnth 4 v)) (vbool (vnth 5 v)) (vbool (vnth 6 v))
         (to_vres (vz (vnth 7 v))) (map to_sig (vl (vnth 8 v))).
Definition to_flags (v : val) : flags := mkFlags (vbool (vnth 0 v)) (vbool (vnth 1 v)) (vbool (vnth 2 v)) (vbool (vnth 3 v)).
Definition vnat (n : nat) : val := VZ (Z.of_nat n).

Definition run_def (v : val) : val :=
  let fl := to_flags (vnth 0 v) in
  let certs := vbool (vnth 1 v) in
  let files := map to_file (vl (vnth 2 v)) in
  VL [VZ (process_exit fl certs files); VZ (spec_exit fl certs files);
      VL (map vnat (cmd_error_lines fl certs files));
      VL (map (fun e => VL [of_bool (file_accepts fl e); vnat (file_ok_lines fl e); of_bool (file_ok fl e);
                            vnat (fst (spec_lines fl e)); of_bool (snd (spec_lines fl e))]) files)].

(* The extracted program must not mention Coq's string type (the generic OCaml driver opens the extracted module, and a type named
   string would shadow OCaml's): the records of generated programs carry their tables as strings, so the statement parts are
   projected out here, once, by unfolding exactly the definitions that touch those records. *)
Definition run : val -> val :=
  Eval cbv beta iota zeta delta [run_def process_exit cmd_exit cmd_run main_exit file_accepts file_run ret_of accepts_nth cmd_error_lines file_ok_lines
                                 f_prog p_verify_one p_verify_cmd p_main run_fn] in run_def.
