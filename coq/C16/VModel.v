(* C16/VModel.v — WHICH byte string is digested and checked against a signature (lib/pkcs7 SignerInfo.Verify,
   AuthenticatedAttributesBytes, AttributeList.Bytes; lib/pkcs9 Verify, finishVerify, MessageImprint.Verify).
   Definitions only.

   Part 6  an interpreter for the statement-level translation of those Go bodies (Generated/C16_gen.v: prog_si_verify,
           prog_aab, prog_attrs_bytes, prog_ts_verify, prog_ts_finish, prog_imprint_verify).  The model of each function IS
           the interpretation of the generated term: every operator, operand, argument order, branch and early return comes
           from the source as it is now.  Cryptography (digest, signature check, certificate parsing, TSTInfo decoding) is
           a parameter (`env`), never an axiom.
   Part 7  the hand-modelled loops around them (AttributeList.GetOne, SignerInfo.FindCertificate) with their conditions
           taken from the generated file
   Part 8  readable reference functions (proved equal to the interpretation in VProofs.v)
   Part 9  INDEPENDENT SPECIFICATION of SignerInfo verification written from RFC 5652 sections 5.4 - 5.6 *)
From Coq Require Import String Ascii.
From Relic Require Import Base.Prelude Base.Enc Generated.C16_gen C16.Model.

(* ------------------------------------------------------------------ names *)
Definition nm (s : string) : list Z := map (fun a => Z.of_N (N_of_ascii a)) (list_ascii_of_string s).
Definition name_eqb : list Z -> list Z -> bool := list_eqb Z.eqb.
Definition N_blank := Eval compute in nm "_".
Definition N_len := Eval compute in nm "len".
Definition N_append_spread := Eval compute in nm "append...".
Definition N_errors_New := Eval compute in nm "errors.New".
Definition N_errors_As := Eval compute in nm "errors.As".
Definition N_fmt_Errorf := Eval compute in nm "fmt.Errorf".
Definition N_hmac_Equal := Eval compute in nm "hmac.Equal".
Definition N_bytes_Equal := Eval compute in nm "bytes.Equal".
Definition N_PkixDigestToHashE := Eval compute in nm "x509tools.PkixDigestToHashE".
Definition N_PkixDigestToHash := Eval compute in nm "x509tools.PkixDigestToHash".
Definition N_PkixVerify := Eval compute in nm "x509tools.PkixVerify".
Definition N_x509_Verify := Eval compute in nm "x509tools.Verify".
Definition N_asn1_Unmarshal := Eval compute in nm "asn1.Unmarshal".
Definition N_marshalUnsortedSet := Eval compute in nm "marshalUnsortedSet".
Definition N_unpackTokenInfo := Eval compute in nm "unpackTokenInfo".
Definition N_finishVerify := Eval compute in nm "finishVerify".
Definition N_ErrVerification := Eval compute in nm "rsa.ErrVerification".
Definition N_OidMD := Eval compute in nm "OidAttributeMessageDigest".
Definition N_OidCT := Eval compute in nm "OidAttributeContentType".
Definition N_OidST := Eval compute in nm "OidAttributeSigningTime".
Definition N_TagSequence := Eval compute in nm "asn1.TagSequence".
Definition N_TagSet := Eval compute in nm "asn1.TagSet".
Definition N_ClassUniversal := Eval compute in nm "asn1.ClassUniversal".
Definition N_New := Eval compute in nm "New".
Definition N_Write := Eval compute in nm "Write".
Definition N_Sum := Eval compute in nm "Sum".
Definition N_Reset := Eval compute in nm "Reset".
Definition N_GetOne := Eval compute in nm "GetOne".
Definition N_Bytes := Eval compute in nm "Bytes".
Definition N_AABytes := Eval compute in nm "AuthenticatedAttributesBytes".
Definition N_FindCertificate := Eval compute in nm "FindCertificate".
Definition N_Verify := Eval compute in nm "Verify".
Definition N_Parse := Eval compute in nm "Parse".
Definition N_SigningTime := Eval compute in nm "SigningTime".
Definition N_DigestAlgorithm := Eval compute in nm "DigestAlgorithm".
Definition N_DigestEncryptionAlgorithm := Eval compute in nm "DigestEncryptionAlgorithm".
Definition N_AuthenticatedAttributes := Eval compute in nm "AuthenticatedAttributes".
Definition N_UnauthenticatedAttributes := Eval compute in nm "UnauthenticatedAttributes".
Definition N_EncryptedDigest := Eval compute in nm "EncryptedDigest".
Definition N_RawContent := Eval compute in nm "RawContent".
Definition N_PublicKey := Eval compute in nm "PublicKey".
Definition N_Content := Eval compute in nm "Content".
Definition N_SignerInfos := Eval compute in nm "SignerInfos".
Definition N_Certificates := Eval compute in nm "Certificates".
Definition N_ContentInfo := Eval compute in nm "ContentInfo".
Definition N_MessageImprint := Eval compute in nm "MessageImprint".
Definition N_HashAlgorithm := Eval compute in nm "HashAlgorithm".
Definition N_HashedMessage := Eval compute in nm "HashedMessage".
Definition N_Tag := Eval compute in nm "Tag".
Definition N_Class := Eval compute in nm "Class".
Definition N_IsCompound := Eval compute in nm "IsCompound".
Definition N_FullBytes := Eval compute in nm "FullBytes".
Definition N_MissingCertificateError := Eval compute in nm "pkcs7.MissingCertificateError".
Definition N_RawValue := Eval compute in nm "asn1.RawValue".
Definition N_CounterSignature := Eval compute in nm "CounterSignature".
Definition N_Signature := Eval compute in nm "Signature".
Definition N_SignerInfo := Eval compute in nm "SignerInfo".
Definition N_Certificate := Eval compute in nm "Certificate".
Definition N_Hash := Eval compute in nm "Hash".
Definition N_pkcs7_Signature := Eval compute in nm "pkcs7.Signature".
Definition T_error := Eval compute in nm "error".
Definition N_hasEmpty := Eval compute in nm "hasEmptyAuthenticatedAttributes".
Definition N_Unmarshal := Eval compute in nm "Unmarshal".
Definition N_SyntaxError := Eval compute in nm "asn1.SyntaxError".
Definition N_ClassContextSpecific := Eval compute in nm "asn1.ClassContextSpecific".
Definition N_MissingCertificateError_local := Eval compute in nm "MissingCertificateError".
Definition N_NotSignedError := Eval compute in nm "sigerrors.NotSignedError".
Definition N_Signature_local := Eval compute in nm "Signature".
Definition T_bytes := Eval compute in nm "[]byte".
Definition T_rawvalues := Eval compute in nm "[]asn1.RawValue".

(* ------------------------------------------------------------------ error classes of the verification path *)
Definition EV_HASH := 1.      (* x509tools.UnknownDigestError *)
Definition EV_NOATTR := 2.    (* pkcs7.ErrNoAttribute *)
Definition EV_ATTRVAL := 3.   (* GetOne: value does not decode / "expected one, found multiple" *)
Definition EV_NEW := 4.       (* errors.New(...) / fmt.Errorf without a wrapped error, created in the function itself *)
Definition EV_AAB := 5.       (* AuthenticatedAttributesBytes failed *)
Definition EV_CERT := 6.      (* pkcs7.MissingCertificateError *)
Definition EV_RSA := 7.       (* rsa.ErrVerification *)
Definition EV_SIG := 8.       (* any other error of the signature check *)
Definition EV_PARSE := 9.     (* certificate bundle did not parse (certErr) *)
Definition EV_TST := 10.      (* unpackTokenInfo failed *)
Definition EV_CI := 11.       (* ContentInfo.Bytes failed *)
Definition EV_TIME := 12.     (* SigningTime failed *)
Definition EV_ASN1 := 13.     (* asn1.Unmarshal failed *)
Definition EV_NOTSEQ := 14.   (* marshalUnsortedSet: expected sequence *)
Definition EV_SYNTAX := 15.   (* asn1.SyntaxError *)
Definition EV_NOTSIGNED := 16. (* sigerrors.NotSignedError *)
Definition EV_UNKNOWN := 98.  (* the interpreter met a construct or a value it has no meaning for *)
Definition EV_PANIC := 99.

(* ================================================================== Part 6: values, primitives, interpreter *)
Record cert := mkCert { ce_issuer : bytes; ce_serial : bytes; ce_pub : Z }.
Record tstinfo := mkTi { ti_alg : algid; ti_hashed : bytes; ti_time : Z }.   (* ti_time < 0: SigningTime() fails *)
Inductive sigres := SigOk | SigRsaErr | SigOther.   (* nil | rsa.ErrVerification | any other error *)

Inductive value : Type :=
| Wnil | Wun | Wpanic
| Wby (b : bytes)                 (* a non-nil []byte *)
| Wbn (b : bytes)                 (* a []byte that is nil exactly when it is empty (asn1.RawContent) *)
| Wbo (b : bool) | Win (z : Z) | Wst (s : bytes)
| Wer (c : Z)
| Wal (a : algid) | Wat (l : option (list attr)) | Woi (oid : bytes)
| Wsi (s : sinfo) | Wsis (l : list sinfo)
| Wce (c : cert) | Wcs (l : list cert) | Wpk (k : Z)
| Wha (h : Z) | Whw (h : Z) (buf : bytes)
| Wtl (t : tlv) | Wtls (l : list tlv) | Wrv (class tag : Z) (compound : bool) (body : bytes)
| Wcm (o : cms) | Wsd (sd : option sdata) | Wci (c : cinfo) | Wrc (l : option (list bytes))
| Wti (t : tstinfo) | Wmi (a : algid) (hashed : bytes)
| Wref (n : list Z)
| Wze (ty : list Z)               (* zero value of a named (struct) type *)
| Wli (ty : list Z) (fields : list (list Z * value))
| Wtu (l : list value).

(* result of SignerInfo.Verify / finishVerify as seen by a caller *)
Inductive vres := VAccept (c : cert) | VReject (e : Z).
Inductive tsres := TsAccept (s : sinfo) (c : cert) (hash : Z) (time : Z) | TsReject (e : Z).

(* Everything the interpreted bodies do to DATA goes through this record: cryptography and X.509 (parameters of every
   theorem), and the operations of Go / encoding/asn1 / the hand-modelled loops on byte strings and lists (instantiated
   with the definitions of Model.v in real_prims).  The interpreter itself only moves values around and branches. *)
Record prims := mkPrims {
  p_hash_of : algid -> option Z;                              (* x509tools.PkixDigestToHash(E): known and available *)
  p_H : Z -> bytes -> bytes;                                  (* hash.New(); Write; Sum *)
  p_pkix : Z -> algid -> algid -> bytes -> bytes -> sigres;   (* x509tools.PkixVerify(pub, digestAlg, sigAlg, digest, sig) *)
  p_raw : Z -> Z -> bytes -> bytes -> sigres;                 (* x509tools.Verify(pub, hash, digest, sig) *)
  p_parse_certs : option (list bytes) -> list cert * Z;       (* RawCertificates.Parse: certificates, error class (0 = nil) *)
  p_tstinfo : cms -> result tstinfo;                          (* unpackTokenInfo *)
  p_sitime : sinfo -> Z;                                      (* SignerInfo.SigningTime, < 0 = error *)
  p_eq : bytes -> bytes -> bool;                              (* hmac.Equal / bytes.Equal *)
  p_nattrs : option (list attr) -> Z;                         (* len *)
  p_nsis : list sinfo -> Z;
  p_ncerts : list cert -> Z;
  p_ntls : list tlv -> Z;
  p_nth_si : list sinfo -> Z -> option sinfo;                 (* indexing; None = index out of range (panic) *)
  p_nth_tl : list tlv -> Z -> option tlv;
  p_tl_class : tlv -> Z;                                      (* asn1.RawValue.Class / .Tag of a decoded element *)
  p_tl_num : tlv -> Z;
  p_getone : list attr -> bytes -> result bytes;              (* AttributeList.GetOne(oid, &[]byte) *)
  p_find : list cert -> bytes -> bytes -> option cert;        (* SignerInfo.FindCertificate *)
  p_unmarshal_seq : bytes -> result (bytes * list tlv);       (* asn1.Unmarshal(raw, &[]asn1.RawValue) *)
  p_marshal_rv : Z -> Z -> bool -> bytes -> result bytes;     (* marshalUnsortedSet(asn1.RawValue{Class, Tag, IsCompound, Bytes}) *)
  p_marshal_attrs : option (list attr) -> result bytes;       (* marshalUnsortedSet(AttributeList) *)
  p_ci_unmarshal : cinfo -> result tlv                        (* ContentInfo.Unmarshal(&asn1.RawValue) *)
}.
(* other relic functions reached from the interpreted bodies; each is instantiated with the interpretation of its own body *)
Record hooks := mkHooks {
  k_attrs_bytes : option (list attr) -> result bytes;         (* AttributeList.Bytes *)
  k_has_empty : sinfo -> bool;                                (* SignerInfo.hasEmptyAuthenticatedAttributes *)
  k_ci_bytes : cinfo -> result (option bytes);                (* ContentInfo.Bytes *)
  k_aab : sinfo -> result bytes;                              (* SignerInfo.AuthenticatedAttributesBytes *)
  k_si_verify : sinfo -> value -> bool -> list cert -> vres;  (* SignerInfo.Verify(content, skipDigests, certs) *)
  k_imprint : algid -> bytes -> value -> Z;                   (* MessageImprint.Verify(data): error class, 0 = nil *)
  k_finish : sinfo -> value -> list cert -> Z -> value -> Z -> tsres   (* finishVerify *)
}.

Definition store := list (list Z * value).
Fixpoint lookup (st : store) (n : list Z) : value :=
  match st with
  | [] => Wun
  | (k, v) :: r => if name_eqb k n then v else lookup r n
  end.
Fixpoint update (st : store) (n : list Z) (v : value) : store :=
  match st with
  | [] => [(n, v)]
  | (k, w) :: r => if name_eqb k n then (k, v) :: r else (k, w) :: update r n v
  end.
Definition assign1 (st : store) (n : list Z) (v : value) : store := if name_eqb n N_blank then st else update st n v.
Fixpoint assign_all (st : store) (ns : list (list Z)) (vs : list value) : option store :=
  match ns, vs with
  | [], [] => Some st
  | n :: nr, v :: vr => assign_all (assign1 st n v) nr vr
  | _, _ => None
  end.
Definition apply_writes (st : store) (ws : list (list Z * value)) : store :=
  fold_left (fun s p => update s (fst p) (snd p)) ws st.

Definition by_of (v : value) : option bytes := match v with Wnil => Some [] | Wby b => Some b | Wbn b => Some b | _ => None end.
Definition is_empty (b : bytes) : bool := match b with [] => true | _ => false end.

(* ==, != on the values that occur in comparisons: nil, errors, integers, booleans *)
Definition veq (a b : value) : option bool :=
  match a, b with
  | Wnil, Wnil => Some true
  | Wnil, (Wby _ | Wer _ | Wsi _ | Wce _ | Wcs _ | Wtls _) => Some false
  | (Wby _ | Wer _ | Wsi _ | Wce _ | Wcs _ | Wtls _), Wnil => Some false
  | Wbn x, Wnil => Some (is_empty x)
  | Wnil, Wbn x => Some (is_empty x)
  | Wer x, Wer y => Some (x =? y)
  | Win x, Win y => Some (x =? y)
  | Wbo x, Wbo y => Some (Bool.eqb x y)
  | _, _ => None
  end.

Definition global (n : list Z) : value :=
  if name_eqb n N_ErrVerification then Wer EV_RSA
  else if name_eqb n N_OidMD then Woi OID_message_digest
  else if name_eqb n N_OidCT then Woi OID_content_type
  else if name_eqb n N_OidST then Woi (enc_oid oid_attr_signing_time)
  else if name_eqb n N_TagSequence then Win 16
  else if name_eqb n N_TagSet then Win 17
  else if name_eqb n N_ClassUniversal then Win 0
  else if name_eqb n N_ClassContextSpecific then Win 2
  else Wun.

Definition zero_of (ty : list Z) : value :=
  match ty with
  | 91 :: 93 :: _ => Wnil        (* []T *)
  | 42 :: _ => Wnil              (* *T *)
  | _ => if name_eqb ty T_error then Wnil else if name_eqb ty N_RawValue then Wrv 0 0 false [] else Wze ty
  end.

Fixpoint last_error (vs : list value) : value :=
  match vs with
  | [] => Wer EV_NEW
  | v :: r => match last_error r with
              | Wer c => if c =? EV_NEW then (match v with Wer c' => Wer c' | _ => Wer EV_NEW end) else Wer c
              | x => x
              end
  end.

Definition field (fs : list (list Z * value)) (k : list Z) : option value :=
  match find (fun p => name_eqb (fst p) k) fs with Some p => Some (snd p) | None => None end.

(* e.f — the constructor of the result never depends on data *)
Definition sel (P : prims) (v : value) (f : list Z) : value :=
  match v with
  | Wsi s =>
      if name_eqb f N_DigestAlgorithm then Wal (si_dalg s)
      else if name_eqb f N_DigestEncryptionAlgorithm then Wal (si_ealg s)
      else if name_eqb f N_AuthenticatedAttributes then Wat (si_auth s)
      else if name_eqb f N_UnauthenticatedAttributes then Wat (si_unauth s)
      else if name_eqb f N_EncryptedDigest then Wby (si_sig s)
      else if name_eqb f N_RawContent then Wbn (si_raw s)
      else Wun
  | Wce c => if name_eqb f N_PublicKey then Wpk (ce_pub c) else Wun
  | Wcm o => if name_eqb f N_Content then Wsd (o_sd o) else Wun
  | Wsd o =>
      if name_eqb f N_SignerInfos then Wsis (match o with Some sd => sd_sis sd | None => [] end)
      else if name_eqb f N_Certificates then Wrc (match o with Some sd => sd_certs sd | None => None end)
      else if name_eqb f N_ContentInfo then Wci (match o with Some sd => sd_ci sd | None => mkCi [] [] end)
      else Wun
  | Wti t => if name_eqb f N_MessageImprint then Wmi (ti_alg t) (ti_hashed t) else Wun
  | Wmi a h => if name_eqb f N_HashAlgorithm then Wal a else if name_eqb f N_HashedMessage then Wby h else Wun
  | Wtl t => if name_eqb f N_Bytes then Wby (t_body t) else if name_eqb f N_FullBytes then Wby (t_full t)
             else if name_eqb f N_Class then Win (p_tl_class P t) else if name_eqb f N_Tag then Win (p_tl_num P t) else Wun
  | _ => Wun
  end.

(* a pointer to a local handed to a callee that only reads it: the value *)
Definition deref (st : store) (v : value) : value := match v with Wref n => lookup st n | _ => v end.

Definition binop (op : Z) (a b : value) : value :=
  if op =? 3 then match veq a b with Some r => Wbo r | None => Wun end
  else if op =? 4 then match veq a b with Some r => Wbo (negb r) | None => Wun end
  else match a, b with
       | Win x, Win y =>
           if op =? 5 then Wbo (x <? y) else if op =? 6 then Wbo (x <=? y) else if op =? 7 then Wbo (x >? y)
           else if op =? 8 then Wbo (x >=? y) else if op =? 9 then Win (x + y) else if op =? 10 then Win (x - y)
           else if op =? 11 then Win (Z.land x y) else if op =? 12 then Win (Z.lor x y) else Wun
       | _, _ => Wun
       end.

Inductive outcome := ORet (vs : list value) | OFall (st : store) | OUnk | OPanic.
Definition is_panic (v : value) : bool := match v with Wpanic => true | _ => false end.

(* The interpreter is written in continuation-passing style: wherever the KIND of a value depends on the answer of a
   primitive (nil or an error, found or not found), the case distinction is made on the answer and the continuation runs
   inside each case.  Evaluating the interpreter on symbolic inputs therefore yields a decision tree over the primitives'
   answers whose leaves are results — which is what the equivalence proofs of VProofs.v compute. *)
Section Interp.
Variable P : prims.
Variable K : hooks.
Variable R : Type.
Variable fin : outcome -> R.

Definition k_res_bytes (r : result bytes) (cls : Z) (k : value -> R) : R :=
  match r with Ok b => k (Wtu [Wby b; Wnil]) | Err _ => k (Wtu [Wnil; Wer cls]) | Panic _ => fin OPanic end.
Definition k_sig (r : sigres) (k : value -> R) : R :=
  match r with SigOk => k Wnil | SigRsaErr => k (Wer EV_RSA) | SigOther => k (Wer EV_SIG) end.
Definition k_vres (r : vres) (k : value -> R) : R :=
  match r with VAccept c => k (Wtu [Wce c; Wnil]) | VReject e => k (Wtu [Wnil; Wer e]) end.

(* package-level functions and builtins: result, and writes through pointer arguments *)
Definition call_fn (st : store) (fn : list Z) (args : list value) (k : value -> list (list Z * value) -> R) : R :=
  if name_eqb fn N_len then
    match args with
    | [Wnil] => k (Win 0) []
    | [Wat o] => k (Win (p_nattrs P o)) []
    | [Wsis l] => k (Win (p_nsis P l)) []
    | [Wcs l] => k (Win (p_ncerts P l)) []
    | [Wtls l] => k (Win (p_ntls P l)) []
    | _ => k Wun []
    end
  else if name_eqb fn N_PkixDigestToHashE then
    match args with
    | [Wal a] => match p_hash_of P a with Some h => k (Wtu [Wha h; Wnil]) [] | None => k (Wtu [Wha 0; Wer EV_HASH]) [] end
    | _ => k Wun [] end
  else if name_eqb fn N_PkixDigestToHash then
    match args with
    | [Wal a] => match p_hash_of P a with Some h => k (Wtu [Wha h; Wbo true]) [] | None => k (Wtu [Wha 0; Wbo false]) [] end
    | _ => k Wun [] end
  else if name_eqb fn N_hmac_Equal || name_eqb fn N_bytes_Equal then
    match args with
    | [a; b] => match by_of a, by_of b with Some x, Some y => k (Wbo (p_eq P x y)) [] | _, _ => k Wun [] end
    | _ => k Wun [] end
  else if name_eqb fn N_errors_New then k (Wer EV_NEW) []
  else if name_eqb fn N_fmt_Errorf then k (last_error args) []
  else if name_eqb fn N_errors_As then
    match args with
    | [Wer c; Wli ty _] =>
        if name_eqb ty N_MissingCertificateError || name_eqb ty N_MissingCertificateError_local then k (Wbo (c =? EV_CERT)) [] else k Wun []
    | _ => k Wun [] end
  else if name_eqb fn N_PkixVerify then
    match args with
    | [Wpk pk; Wal d; Wal s; Wby dig; Wby sg] => k_sig (p_pkix P pk d s dig sg) (fun v => k v [])
    | _ => k Wun [] end
  else if name_eqb fn N_x509_Verify then
    match args with
    | [Wpk pk; Win h; Wby dig; Wby sg] => k_sig (p_raw P pk h dig sg) (fun v => k v [])
    | [Wpk pk; Wha h; Wby dig; Wby sg] => k_sig (p_raw P pk h dig sg) (fun v => k v [])
    | _ => k Wun [] end
  else if name_eqb fn N_asn1_Unmarshal then
    (* only the use in AuthenticatedAttributesBytes: a SEQUENCE read into a nil []asn1.RawValue *)
    match args with
    | [a; Wref n] =>
        match by_of a, lookup st n with
        | Some raw, Wnil =>
            match p_unmarshal_seq P raw with
            | Ok (rest, seq) => k (Wtu [Wby rest; Wnil]) [(n, Wtls seq)]
            | Err _ => k (Wtu [Wnil; Wer EV_ASN1]) []
            | Panic _ => fin OPanic
            end
        | _, _ => k Wun []
        end
    | _ => k Wun []
    end
  else if name_eqb fn N_marshalUnsortedSet then
    match args with
    | [Wrv cl tag comp body] => k_res_bytes (p_marshal_rv P cl tag comp body) EV_NOTSEQ (fun v => k v [])
    | [Wat o] => k_res_bytes (p_marshal_attrs P o) EV_NOTSEQ (fun v => k v [])
    | _ => k Wun [] end
  else if name_eqb fn N_append_spread then
    match args with
    | [Wcs a; Wcs b] => k (Wcs (a ++ b)) []
    | [Wnil; Wcs b] => k (Wcs b) []
    | _ => k Wun [] end
  else if name_eqb fn N_unpackTokenInfo then
    match args with
    | [Wcm o] => match p_tstinfo P o with Ok t => k (Wtu [Wti t; Wnil]) [] | Err _ => k (Wtu [Wnil; Wer EV_TST]) [] | Panic _ => fin OPanic end
    | _ => k Wun [] end
  else if name_eqb fn N_finishVerify then
    match args with
    | [Wsi s; blob; Wcs certs; Wha h; ts; ce] =>
        match (match ce with Wnil => Some 0 | Wer c => Some c | _ => None end) with
        | Some cerr =>
            match k_finish K s blob certs h ts cerr with
            | TsAccept s' c h' t =>
                k (Wtu [Wli N_CounterSignature [(N_Signature, Wli N_pkcs7_Signature [(N_SignerInfo, Wsi s'); (N_Certificate, Wce c)]);
                                                (N_Hash, Wha h'); (N_SigningTime, Win t)]; Wnil]) []
            | TsReject e => k (Wtu [Wnil; Wer e]) []
            end
        | None => k Wun [] end
    | _ => k Wun [] end
  else k Wun [].

(* methods: result, new value of the receiver (hash.Hash is the only mutable one), writes through pointer arguments *)
Definition call_meth (st : store) (rv : value) (m : list Z) (args : list value) (k : value -> value -> list (list Z * value) -> R) : R :=
  match rv with
  | Wha h => if name_eqb m N_New then (match args with [] => k (Whw h []) rv [] | _ => k Wun rv [] end) else k Wun rv []
  | Whw h buf =>
      if name_eqb m N_Write then
        match args with
        | [a] => match by_of a with Some b => k (Wtu [Win 0; Wnil]) (Whw h (buf ++ b)) [] | None => k Wun rv [] end
        | _ => k Wun rv [] end
      else if name_eqb m N_Sum then
        match args with
        | [a] => match by_of a with Some b => k (Wby (b ++ p_H P h buf)) rv [] | None => k Wun rv [] end
        | _ => k Wun rv [] end
      else if name_eqb m N_Reset then (match args with [] => k Wnil (Whw h []) [] | _ => k Wun rv [] end)
      else k Wun rv []
  | Wat o =>
      if name_eqb m N_GetOne then
        match args with
        | [Woi oid; Wref n] =>
            match lookup st n with
            | Wnil | Wby _ =>   (* destination is a []byte *)
                match p_getone P (opt_list o) oid with
                | Ok b => k Wnil rv [(n, Wby b)]
                | Err c => k (Wer c) rv []
                | Panic _ => fin OPanic
                end
            | _ => k Wun rv []
            end
        | _ => k Wun rv [] end
      else if name_eqb m N_Bytes then
        match args with [] => k_res_bytes (k_attrs_bytes K o) EV_NOTSEQ (fun v => k v rv []) | _ => k Wun rv [] end
      else k Wun rv []
  | Wsi s =>
      if name_eqb m N_AABytes then
        match args with [] => k_res_bytes (k_aab K s) EV_AAB (fun v => k v rv []) | _ => k Wun rv [] end
      else if name_eqb m N_FindCertificate then
        match args with
        | [Wcs certs] => match p_find P certs (si_issuer s) (si_serial s) with
                         | Some c => k (Wtu [Wce c; Wnil]) rv [] | None => k (Wtu [Wnil; Wer EV_CERT]) rv [] end
        | _ => k Wun rv [] end
      else if name_eqb m N_Verify then
        match args with
        | [content; Wbo skip; Wcs certs] =>
            match by_of content with
            | Some _ => k_vres (k_si_verify K s content skip certs) (fun v => k v rv [])
            | None => k Wun rv [] end
        | _ => k Wun rv [] end
      else if name_eqb m N_hasEmpty then
        match args with [] => k (Wbo (k_has_empty K s)) rv [] | _ => k Wun rv [] end
      else if name_eqb m N_SigningTime then
        match args with
        | [] => if p_sitime P s <? 0 then k (Wtu [Win 0; Wer EV_TIME]) rv [] else k (Wtu [Win (p_sitime P s); Wnil]) rv []
        | _ => k Wun rv [] end
      else k Wun rv []
  | Wti t =>
      if name_eqb m N_SigningTime then
        match args with
        | [] => if ti_time t <? 0 then k (Wtu [Win 0; Wer EV_TIME]) rv [] else k (Wtu [Win (ti_time t); Wnil]) rv []
        | _ => k Wun rv [] end
      else k Wun rv []
  | Wmi a hm =>
      if name_eqb m N_Verify then
        match args with
        | [d] => match by_of d with
                 | Some _ => if k_imprint K a hm d =? 0 then k Wnil rv [] else k (Wer (k_imprint K a hm d)) rv []
                 | None => k Wun rv [] end
        | _ => k Wun rv [] end
      else k Wun rv []
  | Wrc o =>
      if name_eqb m N_Parse then
        match args with
        | [] => if snd (p_parse_certs P o) =? 0 then k (Wtu [Wcs (fst (p_parse_certs P o)); Wnil]) rv []
                else k (Wtu [Wcs (fst (p_parse_certs P o)); Wer EV_PARSE]) rv []
        | _ => k Wun rv [] end
      else k Wun rv []
  | Wci c =>
      if name_eqb m N_Bytes then
        match args with
        | [] => match k_ci_bytes K c with
                | Ok None => k (Wtu [Wnil; Wnil]) rv [] | Ok (Some b) => k (Wtu [Wby b; Wnil]) rv []
                | Err _ => k (Wtu [Wnil; Wer EV_CI]) rv [] | Panic _ => fin OPanic end
        | _ => k Wun rv [] end
      else if name_eqb m N_Unmarshal then
        (* only the use in ContentInfo.Bytes: the destination is a zero asn1.RawValue *)
        match args with
        | [Wref n] =>
            match lookup st n with
            | Wrv _ _ _ _ =>
                match p_ci_unmarshal P c with
                | Ok t => k Wnil rv [(n, Wtl t)]
                | Err e => if is_syntax_error e then k (Wer EV_SYNTAX) rv [] else k (Wer EV_ASN1) rv []
                | Panic _ => fin OPanic
                end
            | _ => k Wun rv []
            end
        | _ => k Wun rv [] end
      else k Wun rv []
  | _ => k Wun rv []
  end.

Definition eval_list (ev : store -> gexpr -> (value -> store -> R) -> R) : store -> list gexpr -> (list value -> store -> R) -> R :=
  fix go st l k := match l with
                   | [] => k [] st
                   | e :: r => ev st e (fun v st1 => go st1 r (fun vs st2 => k (v :: vs) st2))
                   end.
Definition eval_fields (ev : store -> gexpr -> (value -> store -> R) -> R)
  : store -> list (list Z * gexpr) -> (list (list Z * value) -> store -> R) -> R :=
  fix go st l k := match l with
                   | [] => k [] st
                   | (n, e) :: r => ev st e (fun v st1 => go st1 r (fun vs st2 => k ((n, v) :: vs) st2))
                   end.

Fixpoint eval (fuel : nat) (st : store) (e : gexpr) (k : value -> store -> R) {struct fuel} : R :=
  match fuel with
  | O => fin OUnk
  | S f =>
    match e with
    | GVar n => k (lookup st n) st
    | GGlobal n => k (global n) st
    | GNil => k Wnil st
    | GBool b => k (Wbo b) st
    | GInt z => k (Win z) st
    | GStr s => k (Wst s) st
    | GSel a fl => eval f st a (fun v st1 => k (sel P v fl) st1)
    | GIndex a i =>
        eval f st a (fun v st1 => eval f st1 i (fun iv st2 =>
          match v, iv with
          | Wsis l, Win j => match p_nth_si P l j with Some s => k (Wsi s) st2 | None => fin OPanic end
          | Wtls l, Win j => match p_nth_tl P l j with Some t => k (Wtl t) st2 | None => fin OPanic end
          | _, _ => k Wun st2
          end))
    | GCall fn args =>
        eval_list (eval f) st args (fun vs st1 =>
          let vs' := if name_eqb fn N_finishVerify then map (deref st1) vs else vs in
          call_fn st1 fn vs' (fun r ws => k r (apply_writes st1 ws)))
    | GMeth recv m args =>
        eval f st recv (fun rv st1 =>
          eval_list (eval f) st1 args (fun vs st2 =>
            call_meth st2 (deref st2 rv) m vs (fun r rv' ws =>
              let st3 := match recv with GVar n => update st2 n rv' | _ => st2 end in
              k r (apply_writes st3 ws))))
    | GNot a => eval f st a (fun v st1 => k (match v with Wbo b => Wbo (negb b) | _ => Wun end) st1)
    | GAddr a =>
        match a with
        | GVar n => k (Wref n) st
        | _ => eval f st a k
        end
    | GDeref a => eval f st a (fun v st1 => k (deref st1 v) st1)
    | GBin op a b =>
        eval f st a (fun va st1 =>
          if op =? 1 then
            match va with
            | Wbo true => eval f st1 b (fun vb st2 => k (match vb with Wbo x => Wbo x | _ => Wun end) st2)
            | Wbo false => k (Wbo false) st1
            | _ => k Wun st1 end
          else if op =? 2 then
            match va with
            | Wbo true => k (Wbo true) st1
            | Wbo false => eval f st1 b (fun vb st2 => k (match vb with Wbo x => Wbo x | _ => Wun end) st2)
            | _ => k Wun st1 end
          else eval f st1 b (fun vb st2 => k (binop op va vb) st2))
    | GLit ty fs =>
        eval_fields (eval f) st fs (fun vs st1 =>
          k (if name_eqb ty N_RawValue then
               match field vs N_Tag, field vs N_IsCompound, field vs N_Bytes with
               | Some (Win tag), Some (Wbo comp), Some bv =>
                   match by_of bv, (match field vs N_Class with Some (Win c) => Some c | None => Some 0 | _ => None end), field vs N_FullBytes with
                   | Some body, Some cl, None => Wrv cl tag comp body
                   | _, _, _ => Wun end
               | _, _, _ => Wun end
             else Wli ty vs) st1)
    | GZero ty => k (zero_of ty) st
    | GTypeAssert a ty =>
        eval f st a (fun v st1 =>
          match v with
          | Wer c => if name_eqb ty N_SyntaxError then k (Wtu [Wer c; Wbo (c =? EV_SYNTAX)]) st1 else k Wun st1
          | _ => k Wun st1
          end)
    | GOther _ => k Wun st
    end
  end.

Fixpoint exec (fuel : nat) (st : store) (l : list gstmt) (k : store -> R) {struct fuel} : R :=
  match fuel with
  | O => fin OUnk
  | S f =>
    match l with
    | [] => k st
    | s :: rest =>
      match s with
      | GAssign ns e =>
          eval f st e (fun v st1 =>
            match ns, v with
            | _, Wpanic => fin OPanic
            | _, Wun => fin OUnk
            | [n], Wtu _ => fin OUnk
            | [n], _ => exec f (assign1 st1 n v) rest k
            | _, Wtu vs => match assign_all st1 ns vs with Some st2 => exec f st2 rest k | None => fin OUnk end
            | _, _ => fin OUnk
            end)
      | GStore _ _ => fin OUnk
      | GExpr e =>
          eval f st e (fun v st1 => match v with Wpanic => fin OPanic | Wun => fin OUnk | _ => exec f st1 rest k end)
      | GIf init c t e =>
          exec f st init (fun st1 =>
            eval f st1 c (fun v st2 =>
              match v with
              | Wbo true => exec f st2 t (fun st3 => exec f st3 rest k)
              | Wbo false => exec f st2 e (fun st3 => exec f st3 rest k)
              | Wpanic => fin OPanic
              | _ => fin OUnk
              end))
      | GReturn es =>
          eval_list (eval f) st es (fun vs _ =>
            if existsb is_panic vs then fin OPanic else
            match vs with
            | [Wtu ws] => fin (ORet ws)          (* return f(...) of a function with several results *)
            | _ => fin (ORet vs)
            end)
      | GStmtOther _ => fin OUnk
      end
    end
  end.

Definition FUEL : nat := 64.
Definition run_prog (params : list (list Z)) (prog : list gstmt) (args : list value) : R :=
  match assign_all [] params args with
  | Some st => exec FUEL st prog (fun st' => fin (OFall st'))
  | None => fin OUnk
  end.
End Interp.

(* ------------------------------------------------------------------ results of the interpreted functions *)
Definition out_bytes (o : outcome) : result bytes :=
  match o with
  | ORet [Wby b; Wnil] => Ok b
  | ORet [Wnil; Wer c] => Err c
  | OPanic => Panic EV_PANIC
  | _ => Err EV_UNKNOWN
  end.
Definition out_opt_bytes (o : outcome) : result (option bytes) :=
  match o with
  | ORet [Wnil; Wnil] => Ok None
  | ORet [Wby b; Wnil] => Ok (Some b)
  | ORet [Wnil; Wer c] => Err c
  | OPanic => Panic EV_PANIC
  | _ => Err EV_UNKNOWN
  end.
Definition out_bool (o : outcome) : bool :=      (* an uninterpretable predicate counts as "true" (rejects) *)
  match o with
  | ORet [Wbo b] => b
  | _ => true
  end.
Definition out_vres (o : outcome) : vres :=
  match o with
  | ORet [Wce c; Wnil] => VAccept c
  | ORet [_; Wer c] => VReject c
  | OPanic => VReject EV_PANIC
  | _ => VReject EV_UNKNOWN
  end.
Definition out_err (o : outcome) : Z :=
  match o with
  | ORet [Wnil] => 0
  | ORet [Wer c] => c
  | OPanic => EV_PANIC
  | _ => EV_UNKNOWN
  end.
Definition out_tsres (o : outcome) : tsres :=
  match o with
  | ORet [Wli ty fs; Wnil] =>
      if name_eqb ty N_CounterSignature then
        match field fs N_Signature, field fs N_Hash, field fs N_SigningTime with
        | Some (Wli _ sf), Some (Wha h), Some (Win t) =>
            match field sf N_SignerInfo, field sf N_Certificate with
            | Some (Wsi s), Some (Wce c) => TsAccept s c h t
            | _, _ => TsReject EV_UNKNOWN end
        | _, _, _ => TsReject EV_UNKNOWN end
      else TsReject EV_UNKNOWN
  | ORet [_; Wer c] => TsReject c
  | OPanic => TsReject EV_PANIC
  | _ => TsReject EV_UNKNOWN
  end.

Definition run_attrs_bytes (P : prims) (K : hooks) (o : option (list attr)) : result bytes :=
  run_prog P K _ out_bytes prog_attrs_bytes_params prog_attrs_bytes [Wat o].
Definition run_has_empty (P : prims) (K : hooks) (s : sinfo) : bool :=
  run_prog P K _ out_bool prog_has_empty_attrs_params prog_has_empty_attrs [Wsi s].
Definition run_ci_bytes (P : prims) (K : hooks) (c : cinfo) : result (option bytes) :=
  run_prog P K _ out_opt_bytes prog_ci_bytes_params prog_ci_bytes [Wci c].
Definition run_aab (P : prims) (K : hooks) (s : sinfo) : result bytes :=
  run_prog P K _ out_bytes prog_aab_params prog_aab [Wsi s].
Definition run_si_verify (P : prims) (K : hooks) (s : sinfo) (content : value) (skip : bool) (certs : list cert) : vres :=
  run_prog P K _ out_vres prog_si_verify_params prog_si_verify [Wsi s; content; Wbo skip; Wcs certs].
Definition run_imprint (P : prims) (K : hooks) (a : algid) (hashed : bytes) (data : value) : Z :=
  run_prog P K _ out_err prog_imprint_verify_params prog_imprint_verify [Wmi a hashed; data].
Definition run_finish (P : prims) (K : hooks) (s : sinfo) (blob : value) (certs : list cert) (h : Z) (ts : value) (certErr : Z) : tsres :=
  run_prog P K _ out_tsres prog_ts_finish_params prog_ts_finish [Wsi s; blob; Wcs certs; Wha h; ts; (if certErr =? 0 then Wnil else Wer certErr)].
Definition run_ts_verify (P : prims) (K : hooks) (tok : cms) (data : value) (certs : list cert) : tsres :=
  run_prog P K _ out_tsres prog_ts_verify_params prog_ts_verify [Wcm tok; data; Wcs certs].

(* SignedData.Verify: the statements before its loop, one pass through the loop body, the statements after it *)
Inductive sdres := SdAccept (s : sinfo) (c : cert) | SdReject (e : Z).
Inductive step := StContinue (st : store) | StStop (r : sdres).
Definition err_class (v : value) : Z :=
  match v with
  | Wer c => c
  | Wli ty _ => if name_eqb ty N_NotSignedError then EV_NOTSIGNED else EV_UNKNOWN
  | _ => EV_UNKNOWN
  end.
Definition out_step (o : outcome) : step :=
  match o with
  | OFall st => StContinue st
  | ORet [_; Wnil] => StStop (SdReject EV_UNKNOWN)      (* no success return before the end of the function *)
  | ORet [_; e] => StStop (SdReject (err_class e))
  | OPanic => StStop (SdReject EV_PANIC)
  | _ => StStop (SdReject EV_UNKNOWN)
  end.
Definition out_sdres (st : store) (o : outcome) : sdres :=
  match o with
  | ORet [Wli ty fs; Wnil] =>
      if name_eqb ty N_Signature_local then
        match field fs N_SignerInfo, field fs N_Certificate with
        | Some sv, Some (Wce c) => match deref st sv with Wsi s => SdAccept s c | _ => SdReject EV_UNKNOWN end
        | _, _ => SdReject EV_UNKNOWN
        end
      else SdReject EV_UNKNOWN
  | ORet [Wze _; Wnil] => SdReject EV_UNKNOWN
  | ORet [_; Wnil] => SdReject EV_UNKNOWN
  | ORet [_; e] => SdReject (err_class e)
  | OPanic => SdReject EV_PANIC
  | _ => SdReject EV_UNKNOWN
  end.
Definition run_sd_pre (P : prims) (K : hooks) (sd : sdata) (ext : value) (skip : bool) : step :=
  run_prog P K _ out_step prog_sd_verify_params prog_sd_verify_pre [Wsd (Some sd); ext; Wbo skip].
Definition range_var : list Z := nth 1 prog_sd_verify_range_vars N_blank.
Definition run_sd_body (P : prims) (K : hooks) (st : store) (s : sinfo) : step :=
  exec P K _ out_step FUEL (assign1 st range_var (Wsi s)) prog_sd_verify_body (fun st' => out_step (OFall st')).
Definition run_sd_post (P : prims) (K : hooks) (st : store) : sdres :=
  exec P K _ (out_sdres st) FUEL st prog_sd_verify_post (fun _ => SdReject EV_UNKNOWN).

(* Are the passes through the loop body independent of each other?  A small data-flow analysis of the translated body:
   live_in = variables read before the body assigns them; the body's assignments; the variables assigned on EVERY path that
   reaches the end of the body.  When no assigned variable is live-in and every assigned variable is assigned on every
   completing path, a pass behaves the same whether it starts from the store left by the previous pass or from the store in
   front of the loop, and it leaves the same store.  The loop below relies on that (and answers "unknown" otherwise). *)
Definition FUEL_A : nat := 40.
Definition mem (n : list Z) (l : list (list Z)) : bool := existsb (name_eqb n) l.
Definition union (a b : list (list Z)) : list (list Z) := a ++ filter (fun n => negb (mem n a)) b.
Definition inter (a b : list (list Z)) : list (list Z) := filter (fun n => mem n b) a.
Fixpoint expr_reads (fuel : nat) (e : gexpr) : list (list Z) :=
  match fuel with
  | O => [N_blank]
  | S f =>
    let many := fix go (l : list gexpr) := match l with [] => [] | x :: r => union (expr_reads f x) (go r) end in
    match e with
    | GVar n => [n]
    | GSel a _ | GNot a | GAddr a | GDeref a | GTypeAssert a _ => expr_reads f a
    | GIndex a i | GBin _ a i => union (expr_reads f a) (expr_reads f i)
    | GCall _ args => many args
    | GMeth r _ args => union (expr_reads f r) (many args)
    | GLit _ fs => many (map snd fs)
    | _ => []
    end
  end.
Fixpoint expr_addr_taken (fuel : nat) (e : gexpr) : list (list Z) :=       (* &x: a callee may write x *)
  match fuel with
  | O => [N_blank]
  | S f =>
    let many := fix go (l : list gexpr) := match l with [] => [] | x :: r => union (expr_addr_taken f x) (go r) end in
    match e with
    | GAddr (GVar n) => [n]
    | GSel a _ | GNot a | GAddr a | GDeref a | GTypeAssert a _ => expr_addr_taken f a
    | GIndex a i | GBin _ a i => union (expr_addr_taken f a) (expr_addr_taken f i)
    | GCall _ args => many args
    | GMeth r _ args => union (expr_addr_taken f r) (many args)
    | GLit _ fs => many (map snd fs)
    | _ => []
    end
  end.
Record flow := mkFlow { f_live : list (list Z); f_any : list (list Z); f_def : list (list Z); f_falls : bool }.
(* analysis of a statement list given the variables definitely assigned so far *)
Fixpoint flow_of (fuel : nat) (defd : list (list Z)) (l : list gstmt) : flow :=
  match fuel with
  | O => mkFlow [N_blank] [N_blank] defd true
  | S f =>
    match l with
    | [] => mkFlow [] [] defd true
    | s :: rest =>
      let seq (live1 any1 def1 : list (list Z)) (falls1 : bool) :=
        if falls1 then
          let r := flow_of f def1 rest in
          mkFlow (union live1 (f_live r)) (union any1 (f_any r)) (f_def r) (f_falls r)
        else mkFlow live1 any1 def1 false in
      let use (e : gexpr) (d : list (list Z)) := filter (fun n => negb (mem n d)) (expr_reads FUEL_A e) in
      match s with
      | GAssign ns e => let w := union (filter (fun n => negb (name_eqb n N_blank)) ns) (expr_addr_taken FUEL_A e) in
                        seq (use e defd) w (union defd w) true
      | GStore a b => seq (union (use a defd) (use b defd)) (union (expr_addr_taken FUEL_A a) (expr_addr_taken FUEL_A b)) defd true
      | GExpr e => seq (use e defd) (expr_addr_taken FUEL_A e) (union defd (expr_addr_taken FUEL_A e)) true
      | GReturn es => mkFlow (fold_right (fun e acc => union (use e defd) acc) [] es) [] defd false
      | GStmtOther _ => mkFlow [N_blank] [N_blank] defd true
      | GIf init c t e =>
          let i := flow_of f defd init in
          let d1 := f_def i in
          let lc := use c d1 in
          let ft := flow_of f d1 t in
          let fe := flow_of f d1 e in
          let d2 := if f_falls ft && f_falls fe then inter (f_def ft) (f_def fe)
                    else if f_falls ft then f_def ft else f_def fe in
          seq (union (f_live i) (union lc (union (f_live ft) (f_live fe)))) (union (f_any i) (union (f_any ft) (f_any fe)))
              d2 (f_falls i && (f_falls ft || f_falls fe))
      end
    end
  end.
Definition body_flow : flow := flow_of FUEL_A (filter (fun n => negb (name_eqb n N_blank)) prog_sd_verify_range_vars) prog_sd_verify_body.
Definition independent_iterations : bool :=
  let fl := body_flow in
  negb (existsb (fun n => mem n (f_any fl)) (f_live fl))          (* nothing assigned by a pass is read before it is assigned *)
  && forallb (fun n => mem n (f_def fl)) (f_any fl)               (* whatever a completing pass assigns, it always assigns *)
  && negb (mem N_blank (f_live fl)) && negb (mem N_blank (f_any fl)).
(* the loop: every pass starts from the store in front of the loop (plus the range variable); the store of the last
   completed pass is what the statements after the loop see *)
Fixpoint sd_loop (stepf : sinfo -> step) (last : store) (l : list sinfo) : step :=
  match l with
  | [] => StContinue last
  | s :: r => match stepf s with StContinue st' => sd_loop stepf st' r | stop => stop end
  end.
Definition range_collection (P : prims) (K : hooks) (st : store) : option (list sinfo) :=
  eval P K _ (fun _ => None) FUEL st prog_sd_verify_range_over (fun v _ => match v with Wsis l => Some l | _ => None end).
Definition sd_finish (P : prims) (K : hooks) (r : step) : sdres :=
  match r with StStop x => x | StContinue st' => run_sd_post P K st' end.
Definition run_sd_verify (P : prims) (K : hooks) (sd : sdata) (ext : value) (skip : bool) : sdres :=
  match run_sd_pre P K sd ext skip with
  | StStop r => r
  | StContinue st0 =>
      if negb independent_iterations then SdReject EV_UNKNOWN else
      match range_collection P K st0 with
      | Some l => sd_finish P K (sd_loop (run_sd_body P K st0) st0 l)
      | None => SdReject EV_UNKNOWN
      end
  end.

(* ================================================================== Part 7: the loops (hand-modelled, conditions generated) *)
(* AttributeList.GetOne(oid, &md) with md []byte: first attribute of that type; its value set must hold exactly one
   primitive OCTET STRING (encoding/asn1 compares class, tag and the constructed bit) *)
Fixpoint get_one (l : list attr) (oid : bytes) : result bytes :=
  match l with
  | [] => if get_one_missing_is_error then Err EV_NOATTR else Ok []
  | a :: r =>
      if get_one_skip (bytes_eqb (at_oid a) oid) then get_one r oid else
      if negb get_one_reads_values_bytes then Err EV_UNKNOWN else
      match read_tlv (at_body a) with
      | Ok (t, rest) =>
          if t_tag t =? T_OCT then (if get_one_multiple (zlen rest) then Err EV_ATTRVAL else Ok (t_body t)) else Err EV_ATTRVAL
      | _ => Err EV_ATTRVAL
      end
  end.
(* SignerInfo.FindCertificate: first certificate whose issuer and serial number match *)
Fixpoint find_cert (certs : list cert) (issuer serial : bytes) : option cert :=
  match certs with
  | [] => None
  | c :: r => if find_cert_match (ce_issuer c) (ce_serial c) issuer serial then Some c else find_cert r issuer serial
  end.
(* ContentInfo.Unmarshal(&asn1.RawValue) (hand-modelled, fingerprinted): the ContentInfo is decoded again as
   SEQUENCE { OID, RawValue }, then the first element inside that RawValue is decoded *)
Definition ci_unmarshal_raw (raw : bytes) : result tlv :=
  r <- read_expect T_SEQ raw ;;
  o <- read_expect T_OID (t_body (fst r)) ;;
  if negb (oid_ok (t_body (fst o))) then Err E_SCALAR else
  v <- read_tlv (snd o) ;;
  c <- read_tlv (t_body (fst v)) ;;
  Ok (fst c).

(* cryptography and X.509 parsing: the parameters of every theorem *)
Record crypto := mkCrypto {
  c_hash_of : algid -> option Z;
  c_H : Z -> bytes -> bytes;
  c_pkix : Z -> algid -> algid -> bytes -> bytes -> sigres;
  c_raw : Z -> Z -> bytes -> bytes -> sigres;
  c_parse_certs : option (list bytes) -> list cert * Z;
  c_tstinfo : cms -> result tstinfo;
  c_sitime : sinfo -> Z }.

Definition nth_z {A} (l : list A) (j : Z) : option A := if (0 <=? j) && (j <? zlen l) then nth_error l (Z.to_nat j) else None.
Definition unmarshal_seq (raw : bytes) : result (bytes * list tlv) :=
  r <- read_expect T_SEQ raw ;; seq <- read_all (t_body (fst r)) ;; Ok (snd r, seq).
Definition marshal_rv (cl tag : Z) (comp : bool) (body : bytes) : result bytes := unsorted_set (enc_tlv (octet cl comp tag) body).
Definition marshal_attrs (o : option (list attr)) : result bytes := attrs_bytes (opt_list o).
Definition tl_class (t : tlv) : Z := t_tag t / 64.
Definition tl_num (t : tlv) : Z := t_tag t mod 32.
Definition real_prims (C : crypto) : prims :=
  mkPrims (c_hash_of C) (c_H C) (c_pkix C) (c_raw C) (c_parse_certs C) (c_tstinfo C) (c_sitime C)
          bytes_eqb (fun o => zlen (opt_list o)) (fun l => zlen l) (fun l => zlen l) (fun l => zlen l) nth_z nth_z tl_class tl_num
          get_one find_cert unmarshal_seq marshal_rv marshal_attrs (fun c => ci_unmarshal_raw (ci_raw c)).

Definition no_bytes (_ : option (list attr)) : result bytes := Err EV_UNKNOWN.
Definition no_empty (_ : sinfo) : bool := true.
Definition no_ci (_ : cinfo) : result (option bytes) := Err EV_UNKNOWN.
Definition no_aab (_ : sinfo) : result bytes := Err EV_UNKNOWN.
Definition no_verify (_ : sinfo) (_ : value) (_ : bool) (_ : list cert) : vres := VReject EV_UNKNOWN.
Definition no_imprint (_ : algid) (_ : bytes) (_ : value) : Z := EV_UNKNOWN.
Definition no_finish (_ : sinfo) (_ : value) (_ : list cert) (_ : Z) (_ : value) (_ : Z) : tsres := TsReject EV_UNKNOWN.

(* the layers: each function is the interpretation of its generated body over the functions below it *)
Definition hooks0 : hooks := mkHooks no_bytes no_empty no_ci no_aab no_verify no_imprint no_finish.
Definition hooks1 (P : prims) : hooks :=
  mkHooks (run_attrs_bytes P hooks0) (run_has_empty P hooks0) (run_ci_bytes P hooks0) no_aab no_verify no_imprint no_finish.
Definition hooks2 (P : prims) : hooks :=
  mkHooks (run_attrs_bytes P hooks0) (run_has_empty P hooks0) (run_ci_bytes P hooks0) (run_aab P (hooks1 P)) no_verify no_imprint no_finish.
Definition hooks3 (P : prims) : hooks :=
  mkHooks (run_attrs_bytes P hooks0) (run_has_empty P hooks0) (run_ci_bytes P hooks0) (run_aab P (hooks1 P))
          (run_si_verify P (hooks2 P)) (run_imprint P (hooks2 P)) no_finish.
Definition hooks4 (P : prims) : hooks :=
  mkHooks (run_attrs_bytes P hooks0) (run_has_empty P hooks0) (run_ci_bytes P hooks0) (run_aab P (hooks1 P))
          (run_si_verify P (hooks2 P)) (run_imprint P (hooks2 P)) (run_finish P (hooks3 P)).

(* the models of the Go functions *)
Definition attrs_bytes_m (C : crypto) := run_attrs_bytes (real_prims C) hooks0.
Definition has_empty_m (C : crypto) := run_has_empty (real_prims C) hooks0.
Definition ci_bytes_m (C : crypto) := run_ci_bytes (real_prims C) hooks0.
Definition aab_m (C : crypto) := run_aab (real_prims C) (hooks1 (real_prims C)).
Definition si_verify (C : crypto) := run_si_verify (real_prims C) (hooks2 (real_prims C)).
Definition imprint_verify (C : crypto) := run_imprint (real_prims C) (hooks2 (real_prims C)).
Definition ts_finish (C : crypto) := run_finish (real_prims C) (hooks3 (real_prims C)).
Definition ts_verify (C : crypto) := run_ts_verify (real_prims C) (hooks4 (real_prims C)).
Definition sd_verify (C : crypto) := run_sd_verify (real_prims C) (hooks3 (real_prims C)).

(* ================================================================== Part 8: reference functions *)
(* ContentInfo.Bytes *)
Definition ref_ci_bytes (P : prims) (c : cinfo) : result (option bytes) :=
  match p_ci_unmarshal P c with
  | Ok t => Ok (Some (t_body t))
  | Err e => if is_syntax_error e then Ok None else Err EV_ASN1
  | Panic _ => Panic EV_PANIC
  end.

(* hasEmptyAuthenticatedAttributes *)
Definition ref_has_empty (P : prims) (s : sinfo) : bool :=
  if is_empty (si_raw s) then false else
  if negb (p_nattrs P (si_auth s) =? 0) then false else
  match p_unmarshal_seq P (si_raw s) with
  | Ok (_, seq) =>
      if p_ntls P seq <? 4 then false else
      match p_nth_tl P seq 3 with
      | Some f => (p_tl_class P f =? 2) && (p_tl_num P f =? 0)
      | None => true
      end
  | Err _ => true          (* cannot tell: the field is not taken for absent *)
  | Panic _ => true
  end.

(* AuthenticatedAttributesBytes over the primitives (Model.aab is this with real_prims) *)
Definition ref_aab (P : prims) (K : hooks) (s : sinfo) : result bytes :=
  if is_empty (si_raw s) then
    match k_attrs_bytes K (si_auth s) with Ok b => Ok b | Err _ => Err EV_NOTSEQ | Panic _ => Panic EV_PANIC end
  else
    match p_unmarshal_seq P (si_raw s) with
    | Ok (_, seq) =>
        if p_ntls P seq <? 4 then Err EV_NEW else
        match p_nth_tl P seq 3 with
        | Some f => match p_marshal_rv P 0 16 true (t_body f) with Ok b => Ok b | Err _ => Err EV_NOTSEQ | Panic _ => Panic EV_PANIC end
        | None => Panic EV_PANIC
        end
    | Err _ => Err EV_ASN1
    | Panic _ => Panic EV_PANIC
    end.

(* SignerInfo.Verify *)
Definition sig_decides (P : prims) (c : cert) (s : sinfo) (digest : bytes) : sigres :=
  match p_pkix P (ce_pub c) (si_dalg s) (si_ealg s) digest (si_sig s) with
  | SigRsaErr => p_raw P (ce_pub c) 0 digest (si_sig s)     (* the retry without DigestInfo: SAME digest *)
  | r => r
  end.
Definition sig_err (r : sigres) (ok : vres) : vres :=
  match r with SigOk => ok | SigRsaErr => VReject EV_RSA | SigOther => VReject EV_SIG end.
Definition ref_finish (P : prims) (s : sinfo) (certs : list cert) (digest : option bytes) : vres :=
  match p_find P certs (si_issuer s) (si_serial s) with
  | None => VReject EV_CERT
  | Some c =>
      match digest with
      | None => VAccept c
      | Some d => sig_err (sig_decides P c s d) (VAccept c)
      end
  end.
Definition ref_si_verify (P : prims) (K : hooks) (s : sinfo) (content : bytes) (skip : bool) (certs : list cert) : vres :=
  match p_hash_of P (si_dalg s) with
  | None => VReject EV_HASH
  | Some h =>
      let d0 := if skip then None else Some (p_H P h content) in
      if p_nattrs P (si_auth s) =? 0 then
        (if k_has_empty K s then VReject EV_NEW else ref_finish P s certs d0)
      else
      match p_getone P (opt_list (si_auth s)) OID_message_digest with
      | Ok md =>
          if (match d0 with Some d => negb (p_eq P md d) | None => false end) then VReject EV_NEW else
          match k_aab K s with
          | Ok ab => ref_finish P s certs (Some (p_H P h ab))
          | Err _ => VReject EV_AAB
          | Panic _ => VReject EV_PANIC
          end
      | Err c => VReject c
      | Panic _ => VReject EV_PANIC
      end
  end.

(* MessageImprint.Verify *)
Definition ref_imprint (P : prims) (a : algid) (hashed data : bytes) : Z :=
  match p_hash_of P a with
  | None => EV_HASH
  | Some h => if p_eq P (p_H P h data) hashed then 0 else EV_NEW
  end.

(* finishVerify *)
Definition ts_time (P : prims) (ts : value) : option Z :=
  match ts with
  | Wti t => Some (ti_time t)
  | Wsi s => Some (p_sitime P s)
  | _ => None
  end.
Definition ref_ts_finish (P : prims) (K : hooks) (s : sinfo) (blob : value) (certs : list cert) (h : Z) (ts : value) (certErr : Z) : tsres :=
  match k_si_verify K s blob false certs with
  | VReject e => if (e =? EV_CERT) && negb (certErr =? 0) then TsReject certErr else TsReject e
  | VAccept c =>
      match ts_time P ts with
      | Some t => if t <? 0 then TsReject EV_TIME else TsAccept s c h t
      | None => TsReject EV_UNKNOWN
      end
  end.

(* pkcs9.Verify *)
Definition ref_ts_verify (P : prims) (K : hooks) (tok : cms) (data : bytes) (certs : list cert) : tsres :=
  let sis := match o_sd tok with Some sd => sd_sis sd | None => [] end in
  if negb (p_nsis P sis =? 1) then TsReject EV_NEW else
  match p_nth_si P sis 0 with
  | None => TsReject EV_PANIC
  | Some s =>
      let pc := p_parse_certs P (match o_sd tok with Some sd => sd_certs sd | None => None end) in
      let certs' := if negb (p_ncerts P (fst pc) =? 0) then certs ++ fst pc else certs in
      match p_tstinfo P tok with
      | Ok ti =>
          let ie := k_imprint K (ti_alg ti) (ti_hashed ti) (Wby data) in
          if negb (ie =? 0) then TsReject ie else
          match k_ci_bytes K (match o_sd tok with Some sd => sd_ci sd | None => mkCi [] [] end) with
          | Ok blob =>
              k_finish K s (match blob with Some b => Wby b | None => Wnil end) certs'
                       (match p_hash_of P (ti_alg ti) with Some h => h | None => 0 end)
                       (Wti ti) (if snd pc =? 0 then 0 else EV_PARSE)
          | Err _ => TsReject EV_CI
          | Panic _ => TsReject EV_PANIC
          end
      | Err _ => TsReject EV_TST
      | Panic _ => TsReject EV_PANIC
      end
  end.

(* SignedData.Verify: which content every SignerInfo is checked against *)
Inductive selected := SelContent (c : value) | SelReject (e : Z).
Definition ref_sd_select (K : hooks) (P : prims) (sd : sdata) (ext : option bytes) (skip : bool) : selected :=
  if skip then SelContent Wnil else
  match k_ci_bytes K (sd_ci sd) with
  | Ok None => match ext with Some e => SelContent (Wby e) | None => SelReject EV_NEW end          (* detached *)
  | Ok (Some b) => match ext with
                   | None => SelContent (Wby b)
                   | Some e => if p_eq P e b then SelContent (Wby b) else SelReject EV_NEW           (* both: must be equal *)
                   end
  | Err _ => SelReject EV_CI
  | Panic _ => SelReject EV_PANIC
  end.
Definition ext_val (o : option bytes) : value := match o with Some b => Wby b | None => Wnil end.
(* one signer info: (certificate) or the error; a missing certificate surfaces a postponed parse error *)
Definition ref_sd_step (K : hooks) (content : value) (skip : bool) (certs : list cert) (certErr : Z) (s : sinfo) : vres :=
  match k_si_verify K s content skip certs with
  | VAccept c => VAccept c
  | VReject e => if (e =? EV_CERT) && negb (certErr =? 0) then VReject certErr else VReject e
  end.
Fixpoint ref_sd_loop (stepf : sinfo -> vres) (last : option (sinfo * cert)) (l : list sinfo) : sdres :=
  match l with
  | [] => match last with Some (s, c) => SdAccept s c | None => SdReject EV_UNKNOWN end
  | s :: r => match stepf s with VAccept c => ref_sd_loop stepf (Some (s, c)) r | VReject e => SdReject e end
  end.
Definition ref_sd_verify (P : prims) (K : hooks) (sd : sdata) (ext : option bytes) (skip : bool) : sdres :=
  match ref_sd_select K P sd ext skip with
  | SelReject e => SdReject e
  | SelContent content =>
      if p_nsis P (sd_sis sd) =? 0 then SdReject EV_NOTSIGNED else
      let pc := p_parse_certs P (sd_certs sd) in
      ref_sd_loop (ref_sd_step K content skip (fst pc) (if snd pc =? 0 then 0 else EV_PARSE)) None (sd_sis sd)
  end.

(* ================================================================== Part 9: independent specification (RFC 5652 5.4 - 5.6) *)
(* "The result of the message digest calculation process depends on whether the signedAttrs field is present.  When the
    field is absent, the result is just the message digest of the content.  When the field is present, the result is the
    message digest of the complete DER encoding of the SignedAttrs value contained in the signedAttrs field [as it stands
    in the SignerInfo; the IMPLICIT [0] tag is replaced by SET OF]."  (5.4)
   "the message-digest attribute value [must] match the digest of the content" and "the recipient MUST NOT rely on any
    message digest values computed by the originator" (5.6).
   Input: the SignerInfo element exactly as it is EMITTED, the content octets, a digest function and a signature predicate
   on digests.  Nothing of relic's parser is used: Model.one / Model.children (strict DER walker of Part 5). *)
Definition spec_si_preimage (si_full : bytes) (content : bytes) : option (bool * bytes) :=
  match one si_full with
  | Some si =>
      match children si with
      | Some (_ :: _ :: _ :: f :: _) =>
          if t_tag f =? 160 then
            match t_full f with _ :: r => Some (true, 49 :: r) | [] => None end
          else Some (false, content)
      | _ => None
      end
  | None => None
  end.
(* the single value of the first message-digest attribute inside the SET OF that is digested *)
Definition spec_message_digest (set_bytes : bytes) : option bytes :=
  match one set_bytes with
  | Some s =>
      match children s with
      | Some attrs =>
          match find (fun a => match children a with
                               | Some (o :: _) => (t_tag o =? 6) && bytes_eqb (t_body o) SPEC_OID_MD
                               | _ => false end) attrs with
          | Some a =>
              match children a with
              | Some [_; vs] => match children vs with
                                | Some [v] => if t_tag v =? 4 then Some (t_body v) else None
                                | _ => None end
              | _ => None
              end
          | None => None
          end
      | None => None
      end
  | None => None
  end.
(* accepted by the specification: the signature predicate holds on the digest of the RFC 5652 preimage of the emitted
   bytes, and (signed attributes present) the message-digest attribute equals the digest of the content *)
Definition spec_si_accepts (H : bytes -> bytes) (sig_ok : bytes -> bool) (si_full content : bytes) : bool :=
  match spec_si_preimage si_full content with
  | Some (true, p) =>
      sig_ok (H p) && match spec_message_digest p with Some md => bytes_eqb md (H content) | None => false end
  | Some (false, p) => sig_ok (H p)
  | None => false
  end.
