(* C16/Properties.v — property theorems only. Each is closed by a lemma of C16/Proofs.v (or C16/Tlv.v). *)
From Relic Require Import Base.Prelude Base.Enc Generated.C16_gen C16.Model C16.Tlv C16.Proofs.

(* 1. Unmarshal, Marshal, Unmarshal: whatever pkcs7.Unmarshal accepts is emitted in a form it accepts again, with the same
      signed regions (encapsulated content info, certificates, tbsCertList of every CRL, every SignerInfo), and emitting
      once more reproduces the same bytes.  x ranges over ALL byte strings. *)
Theorem signed_regions_stable : forall x o,
  all_bytes x = true -> parse_cms x = Ok o -> zlen (emit_cms o) < 2 ^ 31 ->
  exists o', parse_cms (emit_cms o) = Ok o' /\ cms_regions o' = cms_regions o /\ emit_cms o' = emit_cms o.
Proof. exact C16.Proofs.signed_regions_stable. Qed.

(* 1b. every signed region the parser keeps is a contiguous sub-slice of the input (nothing is re-encoded into it) *)
Theorem regions_are_subslices : forall x o sd r,
  all_bytes x = true -> parse_cms x = Ok o -> o_sd o = Some sd -> In r (region_list sd) -> subslice r x.
Proof. exact C16.Proofs.regions_are_subslices. Qed.

(* 1c. refinement against the independent specification: on every input that is a strict DER SignedData in the sense of
       RFC 5652 (spec_regions defined), the regions of the model are the regions the RFC walker finds *)
Theorem model_agrees_with_spec : forall x o r,
  all_bytes x = true -> parse_cms x = Ok o -> spec_regions x = Some r -> cms_regions o = Some r.
Proof. exact C16.Proofs.model_agrees_with_spec. Qed.

(* 2. DER leaves no freedom in a header: an element that the reader accepted is exactly identifier ++ minimal length ++
      contents, so regenerating the header of a RawContent struct (what encoding/asn1 does on Marshal) changes nothing *)
Theorem header_is_canonical : forall l t rest,
  all_bytes l = true -> read_tlv l = Ok (t, rest) ->
  l = t_full t ++ rest /\ t_full t = enc_tlv (t_tag t) (t_body t) /\ emit_raw (t_tag t) (t_full t) = t_full t.
Proof.
  intros l t rest Hb H. destruct (C16.Tlv.read_tlv_ok l t rest Hb H) as (Hl & Hv & _).
  split; [exact Hl|]. split; [apply Hv|]. apply C16.Tlv.emit_raw_valid. exact Hv.
Qed.
(* ... and BER is refused: an indefinite length is an error whatever the identifier octet and whatever follows *)
Theorem indefinite_length_rejected : forall b rest, b mod 32 <> 31 -> read_tlv (b :: 128 :: rest) = Err E_INDEF.
Proof.
  intros b rest H. unfold read_tlv, read_hdr. replace (b mod 32 =? 31) with false by lia. reflexivity.
Qed.

(* ... and nothing but NUL padding may follow the structure (anything else would be dropped silently on re-emission) *)
Theorem accepted_input_is_one_element_plus_padding : forall x o,
  all_bytes x = true -> parse_cms x = Ok o ->
  exists t pad, x = t_full t ++ pad /\ valid t /\ t_tag t = T_SEQ /\ Forall (fun b => b = 0) pad.
Proof. exact C16.Proofs.accepted_input_is_one_element_plus_padding. Qed.

(* 3. writer/reader round trip for every identifier octet and every contents string below 2 GiB *)
Theorem read_write_roundtrip : forall tag body rest,
  tag_ok tag -> small body -> read_tlv (enc_tlv tag body ++ rest) = Ok (mkTlv tag body (enc_tlv tag body), rest).
Proof. exact C16.Tlv.read_tlv_enc. Qed.

(* 4. Go decodes INTEGERs and BIT STRINGs and encodes them again: on everything the decoder accepts this is the identity *)
Theorem integer_reencoding_is_identity : forall c, all_bytes c = true -> int64_ok c = true -> enc_int (dec_int c) = c.
Proof. exact C16.Tlv.enc_dec_int. Qed.
Theorem bitstring_reencoding_is_identity : forall c, all_bytes c = true -> bits_ok c = true -> enc_bits c = c.
Proof. exact C16.Tlv.enc_bits_id. Qed.

(* 5. SET OF sorting on Marshal is idempotent (so a second round trip is byte-identical) *)
Theorem set_sort_idempotent : forall l, sort_b (sort_b l) = sort_b l.
Proof. exact C16.Tlv.sort_b_idem. Qed.

(* 6. signed attributes of a PARSED SignerInfo: the bytes relic digests are the [0] field found in the input (and emitted
      again verbatim) with the first octet replaced by 0x31 — exactly the RFC 5652 section 5.4 preimage *)
Theorem attr_digest_parsed : forall t s l p,
  valid t -> t_tag t = T_SEQ -> parse_si t = Ok s -> si_auth s = Some l -> aab s = Ok p ->
  exists pre tl post, si_raw s = t_full t /\ emit_si s = t_full t /\
    t_body t = pre ++ (160 :: tl) ++ post /\ p = 49 :: tl /\ spec_signed_attrs_preimage (si_raw s) = Some p.
Proof. exact C16.Proofs.attr_digest_parsed. Qed.

(* 7. signed attributes of a SignerInfo BUILT by relic: the digested bytes are the emitted [0] field with first octet 0x31 *)
Theorem attr_digest_built : forall s l,
  si_raw s = [] -> si_auth s = Some l ->
  exists tl, auth_field s = 160 :: tl /\ aab s = Ok (49 :: tl) /\ subslice (auth_field s) (emit_si s).
Proof. exact C16.Proofs.attr_digest_built. Qed.

(* 8. the builder: with attributes present (none of them content-type / message-digest) Sign appends content-type and
      message-digest exactly once, each with exactly one value, namely the content type and the content digest; without
      attributes none is added and the signature is over the content digest *)
Theorem builder_attrs_once : forall b l0,
  b_attrs b = Some l0 -> has_oid OID_content_type l0 = false -> has_oid OID_message_digest l0 = false ->
  snd (sign_attrs b) = Some (l0 ++ [ct_attr b; md_attr b]).
Proof. exact C16.Proofs.builder_attrs_once. Qed.
Theorem builder_no_attrs : forall b, b_attrs b = None -> snd (sign_attrs b) = None /\ sign_preimage b = Ok (0, b_digest b).
Proof. exact C16.Proofs.builder_no_attrs. Qed.
Theorem builder_preimage : forall b l0,
  b_attrs b = Some l0 -> has_oid OID_content_type l0 = false -> has_oid OID_message_digest l0 = false ->
  exists tl, sign_preimage b = Ok (1, 49 :: tl) /\ auth_field (built_si b [] [] (mkAlg [] []) (mkAlg [] []) []) = 160 :: tl.
Proof. exact C16.Proofs.builder_preimage. Qed.
(* the full-strength statement (for ALL builder histories) is false; witnesses: the caller supplies a content-type attribute
   itself, or calls Sign twice on one builder.  No code inside relic does either. *)
Theorem builder_attrs_once_refuted_presupplied :
  exists b l, b_attrs b = Some l /\ has_oid OID_content_type l = true /\
    exists a, snd (sign_attrs b) = Some (a :: [md_attr b]) /\ at_oid a = OID_content_type /\
              at_body a = [6; 2; 42; 3] ++ enc_tlv T_OID (b_ctype b).
Proof. exact C16.Proofs.builder_attrs_once_refuted_presupplied. Qed.
Theorem builder_attrs_once_refuted_sign_twice :
  exists b l0, b_attrs b = Some l0 /\ has_oid OID_content_type l0 = false /\ has_oid OID_message_digest l0 = false /\
    exists a1 a2, snd (sign_attrs (fst (sign_attrs b))) = Some (l0 ++ [a1; a2]) /\
      at_body a2 = enc_tlv T_OCT (b_digest b) ++ enc_tlv T_OCT (b_digest b).
Proof. exact C16.Proofs.builder_attrs_once_refuted_sign_twice. Qed.

(* 9. embedding a timestamp token into a freshly built SignerInfo: the emitted SignerInfo contains Marshal(Unmarshal(token)),
      whose signed regions are the token's; signed attributes, signature value and digest preimage of the enclosing
      SignerInfo are untouched *)
Theorem embed_token_verbatim : forall au s x tok,
  all_bytes x = true -> parse_cms x = Ok tok -> zlen (emit_cms tok) < 2 ^ 31 ->
  si_raw s = [] -> si_unauth s = None ->
  let s' := add_stamp au s tok in
  subslice (emit_cms tok) (emit_si s') /\
  (exists tok', parse_cms (emit_cms tok) = Ok tok' /\ cms_regions tok' = cms_regions tok) /\
  si_auth s' = si_auth s /\ si_sig s' = si_sig s /\ aab s' = aab s.
Proof. exact C16.Proofs.embed_token_verbatim. Qed.
(* a PARSED SignerInfo is emitted from its raw bytes; fields changed afterwards are not emitted (hence relic only stamps
   structures it has just built) *)
Theorem parsed_signer_is_immutable : forall au s tok, si_raw s <> [] -> emit_si (add_stamp au s tok) = emit_si s.
Proof. exact C16.Proofs.parsed_signer_is_immutable. Qed.

(* 10. Detach removes the content and keeps signer infos, certificates, CRLs and the content type *)
Theorem detach_keeps_signers : forall o sd,
  o_sd o = Some sd ->
  exists sd', o_sd (detach o) = Some sd' /\ sd_sis sd' = sd_sis sd /\ sd_certs sd' = sd_certs sd /\ sd_crls sd' = sd_crls sd /\
              ci_ctype (sd_ci sd') = ci_ctype (sd_ci sd) /\ emit_ci (sd_ci sd') = enc_tlv T_SEQ (enc_tlv T_OID (ci_ctype (sd_ci sd))).
Proof. exact C16.Proofs.detach_keeps_signers. Qed.

(* ------------------------------------------------------------------ non-vacuity: the hypotheses are satisfiable *)
(* a small SignedData: two digest algorithms (unsorted), content, two certificates, two signer infos (unsorted; one with
   signed attributes, one with an unsigned attribute) *)
Definition sample : bytes :=
  [48; 129; 207; 6; 9; 42; 134; 72; 134; 247; 13; 1; 7; 2; 160; 129; 193; 48; 129; 190; 2; 1; 1; 49; 18; 48; 7; 6; 
   3; 42; 3; 7; 5; 0; 48; 7; 6; 3; 42; 3; 1; 5; 0; 48; 18; 6; 9; 42; 134; 72; 134; 247; 13; 1; 7; 1; 160; 5; 4; 3; 
   97; 98; 99; 160; 10; 48; 3; 2; 1; 9; 48; 3; 2; 1; 3; 49; 129; 132; 48; 70; 2; 1; 1; 48; 17; 48; 12; 49; 10; 48; 
   8; 6; 3; 85; 4; 3; 12; 1; 120; 2; 1; 9; 48; 7; 6; 3; 42; 3; 1; 5; 0; 160; 24; 48; 10; 6; 3; 42; 4; 2; 49; 3; 4; 
   1; 170; 48; 10; 6; 3; 42; 4; 1; 49; 3; 6; 1; 42; 48; 7; 6; 3; 42; 3; 2; 5; 0; 4; 2; 190; 239; 48; 58; 2; 1; 1; 
   48; 17; 48; 12; 49; 10; 48; 8; 6; 3; 85; 4; 3; 12; 1; 120; 2; 1; 3; 48; 7; 6; 3; 42; 3; 1; 5; 0; 48; 7; 6; 3; 
   42; 3; 2; 5; 0; 4; 2; 190; 239; 161; 12; 48; 10; 6; 3; 42; 4; 9; 49; 3; 2; 1; 7].
Example sample_parses :
  match parse_cms sample with
  | Ok o => zlen (emit_cms o) < 2 ^ 31 /\ negb (bytes_eqb (emit_cms o) sample) = true /\
            (match o_sd o with Some sd => length (sd_sis sd) = 2%nat /\ length (opt_list (sd_certs sd)) = 2%nat | None => False end)
  | _ => False
  end.
Proof. vm_compute. repeat split; congruence. Qed.
Example sample_regions_agree_with_rfc5652_walker :
  match parse_cms sample with Ok o => cms_regions o = spec_regions sample /\ spec_regions sample <> None | _ => False end.
Proof. vm_compute. split; [reflexivity|discriminate]. Qed.
Example sample_attr_digest :
  match parse_cms sample with
  | Ok o => match o_sd o with
            | Some sd => let signed := filter (fun s => match si_auth s with Some _ => true | None => false end) (sd_sis sd) in
                         map (fun s => match aab s with Ok p => Some p | _ => None end) signed =
                         map (fun s => spec_signed_attrs_preimage (si_raw s)) signed /\
                         exists s l, In s (sd_sis sd) /\ si_auth s = Some l
            | None => False end
  | _ => False
  end.
Proof. vm_compute. split; [reflexivity|]. eexists. eexists. split; [left; reflexivity|reflexivity]. Qed.
Example builder_in_domain :
  let b := mkB [42;134;72;134;247;13;1;7;1] [1;2;3;4] (Some [mkAttr (enc_oid oid_attr_signing_time) 49 [23;1;48] []]) in
  has_oid OID_content_type [mkAttr (enc_oid oid_attr_signing_time) 49 [23;1;48] []] = false /\
  match sign_preimage b with Ok (1, p) => spec_attrs_ok (b_ctype b) (b_digest b) p = true | _ => False end.
Proof. vm_compute. split; reflexivity. Qed.
Example builder_sign_twice_violates_rfc5652 :
  let b := mkB [42;134;72;134;247;13;1;7;1] [1;2;3;4] (Some [mkAttr (enc_oid oid_attr_signing_time) 49 [23;1;48] []]) in
  match sign_preimage (fst (sign_attrs b)) with Ok (1, p) => spec_attrs_ok (b_ctype b) (b_digest b) p = false | _ => False end.
Proof. vm_compute. reflexivity. Qed.
Example ber_sample_rejected : parse_cms [48;128;6;9;42;134;72;134;247;13;1;7;2;160;128;0;0;0;0] = Err E_INDEF.
Proof. vm_compute. reflexivity. Qed.
