(* C16/Properties.v — property theorems only. Each is closed by a lemma of C16/Proofs.v (or C16/Tlv.v). *)
From Relic Require Import Base.Prelude Base.Enc Generated.C16_gen C16.Model C16.Tlv C16.Proofs C16.VModel C16.VProofs C16.Pss.

(* 1. Unmarshal, Marshal, Unmarshal: whatever pkcs7.Unmarshal accepts is emitted in a form it accepts again, with the same
      signed regions (encapsulated content info, certificates, tbsCertList of every CRL, every SignerInfo), and emitting
      once more reproduces the same bytes.  x ranges over ALL byte strings. *)
Theorem signed_regions_stable : forall x o,
  all_bytes x = true -> parse_cms x = Ok o -> zlen (emit_cms o) < 2 ^ 31 ->
  exists o', parse_cms (emit_cms o) = Ok o' /\ cms_regions o' = cms_regions o /\ emit_cms o' = emit_cms o.
Proof. exact C16.Proofs.signed_regions_stable. Qed.

(* 1b. every signed region the parser keeps is a contiguous sub-slice of the input (nothing is re-encoded into it) *)
Theorem regions_are_subslices : forall x o sd r,
  all_bytes x = true -> parse_cms x = Ok o -> o_sd o = Some sd -> In r (region_list sd) -> subslice r x.
Proof. exact C16.Proofs.regions_are_subslices. Qed.

(* 1c. refinement against the independent specification: on every input that is a strict DER SignedData in the sense of
       RFC 5652 (spec_regions defined), the regions of the model are the regions the RFC walker finds *)
Theorem model_agrees_with_spec : forall x o r,
  all_bytes x = true -> parse_cms x = Ok o -> spec_regions x = Some r -> cms_regions o = Some r.
Proof. exact C16.Proofs.model_agrees_with_spec. Qed.

(* 2. DER leaves no freedom in a header: an element that the reader accepted is exactly identifier ++ minimal length ++
      contents, so regenerating the header of a RawContent struct (what encoding/asn1 does on Marshal) changes nothing *)
Theorem header_is_canonical : forall l t rest,
  all_bytes l = true -> read_tlv l = Ok (t, rest) ->
  l = t_full t ++ rest /\ t_full t = enc_tlv (t_tag t) (t_body t) /\ emit_raw (t_tag t) (t_full t) = t_full t.
Proof.
  intros l t rest Hb H. destruct (C16.Tlv.read_tlv_ok l t rest Hb H) as (Hl & Hv & _).
  split; [exact Hl|]. split; [apply Hv|]. apply C16.Tlv.emit_raw_valid. exact Hv.
Qed.
(* ... and BER is refused: an indefinite length is an error whatever the identifier octet and whatever follows *)
Theorem indefinite_length_rejected : forall b rest, b mod 32 <> 31 -> read_tlv (b :: 128 :: rest) = Err E_INDEF.
Proof.
  intros b rest H. unfold read_tlv, read_hdr. replace (b mod 32 =? 31) with false by lia. reflexivity.
Qed.

(* ... and nothing but NUL padding may follow the structure (anything else would be dropped silently on re-emission) *)
Theorem accepted_input_is_one_element_plus_padding : forall x o,
  all_bytes x = true -> parse_cms x = Ok o ->
  exists t pad, x = t_full t ++ pad /\ valid t /\ t_tag t = T_SEQ /\ Forall (fun b => b = 0) pad.
Proof. exact C16.Proofs.accepted_input_is_one_element_plus_padding. Qed.

(* 3. writer/reader round trip for every identifier octet and every contents string below 2 GiB *)
Theorem read_write_roundtrip : forall tag body rest,
  tag_ok tag -> small body -> read_tlv (enc_tlv tag body ++ rest) = Ok (mkTlv tag body (enc_tlv tag body), rest).
Proof. exact C16.Tlv.read_tlv_enc. Qed.

(* 4. Go decodes INTEGERs and BIT STRINGs and encodes them again: on everything the decoder accepts this is the identity *)
Theorem integer_reencoding_is_identity : forall c, all_bytes c = true -> int64_ok c = true -> enc_int (dec_int c) = c.
Proof. exact C16.Tlv.enc_dec_int. Qed.
Theorem bitstring_reencoding_is_identity : forall c, all_bytes c = true -> bits_ok c = true -> enc_bits c = c.
Proof. exact C16.Tlv.enc_bits_id. Qed.

(* 5. SET OF sorting on Marshal is idempotent (so a second round trip is byte-identical) *)
Theorem set_sort_idempotent : forall l, sort_b (sort_b l) = sort_b l.
Proof. exact C16.Tlv.sort_b_idem. Qed.

(* 6. signed attributes of a PARSED SignerInfo: the bytes relic digests are the [0] field found in the input (and emitted
      again verbatim) with the first octet replaced by 0x31 — exactly the RFC 5652 section 5.4 preimage *)
Theorem attr_digest_parsed : forall t s l p,
  valid t -> t_tag t = T_SEQ -> parse_si t = Ok s -> si_auth s = Some l -> aab s = Ok p ->
  exists pre tl post, si_raw s = t_full t /\ emit_si s = t_full t /\
    t_body t = pre ++ (160 :: tl) ++ post /\ p = 49 :: tl /\ spec_signed_attrs_preimage (si_raw s) = Some p.
Proof. exact C16.Proofs.attr_digest_parsed. Qed.

(* 7. signed attributes of a SignerInfo BUILT by relic: the digested bytes are the emitted [0] field with first octet 0x31 *)
Theorem attr_digest_built : forall s l,
  si_raw s = [] -> si_auth s = Some l ->
  exists tl, auth_field s = 160 :: tl /\ aab s = Ok (49 :: tl) /\ subslice (auth_field s) (emit_si s).
Proof. exact C16.Proofs.attr_digest_built. Qed.

(* 8. the builder: with attributes present (none of them content-type / message-digest) Sign appends content-type and
      message-digest exactly once, each with exactly one value, namely the content type and the content digest; without
      attributes none is added and the signature is over the content digest *)
Theorem builder_attrs_once : forall b l0,
  b_attrs b = Some l0 -> has_oid OID_content_type l0 = false -> has_oid OID_message_digest l0 = false ->
  snd (sign_attrs b) = Some (l0 ++ [ct_attr b; md_attr b]).
Proof. exact C16.Proofs.builder_attrs_once. Qed.
Theorem builder_no_attrs : forall b, b_attrs b = None -> snd (sign_attrs b) = None /\ sign_preimage b = Ok (0, b_digest b).
Proof. exact C16.Proofs.builder_no_attrs. Qed.
Theorem builder_preimage : forall b l0,
  b_attrs b = Some l0 -> has_oid OID_content_type l0 = false -> has_oid OID_message_digest l0 = false ->
  exists tl, sign_preimage b = Ok (1, 49 :: tl) /\ auth_field (built_si b [] [] (mkAlg [] []) (mkAlg [] []) []) = 160 :: tl.
Proof. exact C16.Proofs.builder_preimage. Qed.
(* the full-strength statement (for ALL builder histories) is false; witnesses: the caller supplies a content-type attribute
   itself, or calls Sign twice on one builder.  No code inside relic does either. *)
Theorem builder_attrs_once_refuted_presupplied :
  exists b l, b_attrs b = Some l /\ has_oid OID_content_type l = true /\
    exists a, snd (sign_attrs b) = Some (a :: [md_attr b]) /\ at_oid a = OID_content_type /\
              at_body a = [6; 2; 42; 3] ++ enc_tlv T_OID (b_ctype b).
Proof. exact C16.Proofs.builder_attrs_once_refuted_presupplied. Qed.
Theorem builder_attrs_once_refuted_sign_twice :
  exists b l0, b_attrs b = Some l0 /\ has_oid OID_content_type l0 = false /\ has_oid OID_message_digest l0 = false /\
    exists a1 a2, snd (sign_attrs (fst (sign_attrs b))) = Some (l0 ++ [a1; a2]) /\
      at_body a2 = enc_tlv T_OCT (b_digest b) ++ enc_tlv T_OCT (b_digest b).
Proof. exact C16.Proofs.builder_attrs_once_refuted_sign_twice. Qed.

(* 9. embedding a timestamp token into a freshly built SignerInfo: the emitted SignerInfo contains Marshal(Unmarshal(token)),
      whose signed regions are the token's; signed attributes, signature value and digest preimage of the enclosing
      SignerInfo are untouched *)
Theorem embed_token_verbatim : forall au s x tok,
  all_bytes x = true -> parse_cms x = Ok tok -> zlen (emit_cms tok) < 2 ^ 31 ->
  si_raw s = [] -> si_unauth s = None ->
  let s' := add_stamp au s tok in
  subslice (emit_cms tok) (emit_si s') /\
  (exists tok', parse_cms (emit_cms tok) = Ok tok' /\ cms_regions tok' = cms_regions tok) /\
  si_auth s' = si_auth s /\ si_sig s' = si_sig s /\ aab s' = aab s.
Proof. exact C16.Proofs.embed_token_verbatim. Qed.
(* a PARSED SignerInfo is emitted from its raw bytes; fields changed afterwards are not emitted (hence relic only stamps
   structures it has just built) *)
Theorem parsed_signer_is_immutable : forall au s tok, si_raw s <> [] -> emit_si (add_stamp au s tok) = emit_si s.
Proof. exact C16.Proofs.parsed_signer_is_immutable. Qed.

(* 10. Detach removes the content and keeps signer infos, certificates, CRLs and the content type *)
Theorem detach_keeps_signers : forall o sd,
  o_sd o = Some sd ->
  exists sd', o_sd (detach o) = Some sd' /\ sd_sis sd' = sd_sis sd /\ sd_certs sd' = sd_certs sd /\ sd_crls sd' = sd_crls sd /\
              ci_ctype (sd_ci sd') = ci_ctype (sd_ci sd) /\ emit_ci (sd_ci sd') = enc_tlv T_SEQ (enc_tlv T_OID (ci_ctype (sd_ci sd))).
Proof. exact C16.Proofs.detach_keeps_signers. Qed.

(* ------------------------------------------------------------------ non-vacuity: the hypotheses are satisfiable *)
(* a small SignedData: two digest algorithms (unsorted), content, two certificates, two signer infos (unsorted; one with
   signed attributes, one with an unsigned attribute) *)
Definition sample : bytes :=
  [48; 129; 207; 6; 9; 42; 134; 72; 134; 247; 13; 1; 7; 2; 160; 129; 193; 48; 129; 190; 2; 1; 1; 49; 18; 48; 7; 6; 
   3; 42; 3; 7; 5; 0; 48; 7; 6; 3; 42; 3; 1; 5; 0; 48; 18; 6; 9; 42; 134; 72; 134; 247; 13; 1; 7; 1; 160; 5; 4; 3; 
   97; 98; 99; 160; 10; 48; 3; 2; 1; 9; 48; 3; 2; 1; 3; 49; 129; 132; 48; 70; 2; 1; 1; 48; 17; 48; 12; 49; 10; 48; 
   8; 6; 3; 85; 4; 3; 12; 1; 120; 2; 1; 9; 48; 7; 6; 3; 42; 3; 1; 5; 0; 160; 24; 48; 10; 6; 3; 42; 4; 2; 49; 3; 4; 
   1; 170; 48; 10; 6; 3; 42; 4; 1; 49; 3; 6; 1; 42; 48; 7; 6; 3; 42; 3; 2; 5; 0; 4; 2; 190; 239; 48; 58; 2; 1; 1; 
   48; 17; 48; 12; 49; 10; 48; 8; 6; 3; 85; 4; 3; 12; 1; 120; 2; 1; 3; 48; 7; 6; 3; 42; 3; 1; 5; 0; 48; 7; 6; 3; 
   42; 3; 2; 5; 0; 4; 2; 190; 239; 161; 12; 48; 10; 6; 3; 42; 4; 9; 49; 3; 2; 1; 7].
Example sample_parses :
  match parse_cms sample with
  | Ok o => zlen (emit_cms o) < 2 ^ 31 /\ negb (bytes_eqb (emit_cms o) sample) = true /\
            (match o_sd o with Some sd => length (sd_sis sd) = 2%nat /\ length (opt_list (sd_certs sd)) = 2%nat | None => False end)
  | _ => False
  end.
Proof. vm_compute. repeat split; congruence. Qed.
Example sample_regions_agree_with_rfc5652_walker :
  match parse_cms sample with Ok o => cms_regions o = spec_regions sample /\ spec_regions sample <> None | _ => False end.
Proof. vm_compute. split; [reflexivity|discriminate]. Qed.
Example sample_attr_digest :
  match parse_cms sample with
  | Ok o => match o_sd o with
            | Some sd => let signed := filter (fun s => match si_auth s with Some _ => true | None => false end) (sd_sis sd) in
                         map (fun s => match aab s with Ok p => Some p | _ => None end) signed =
                         map (fun s => spec_signed_attrs_preimage (si_raw s)) signed /\
                         exists s l, In s (sd_sis sd) /\ si_auth s = Some l
            | None => False end
  | _ => False
  end.
Proof. vm_compute. split; [reflexivity|]. eexists. eexists. split; [left; reflexivity|reflexivity]. Qed.
Example builder_in_domain :
  let b := mkB [42;134;72;134;247;13;1;7;1] [1;2;3;4] (Some [mkAttr (enc_oid oid_attr_signing_time) 49 [23;1;48] []]) in
  has_oid OID_content_type [mkAttr (enc_oid oid_attr_signing_time) 49 [23;1;48] []] = false /\
  match sign_preimage b with Ok (1, p) => spec_attrs_ok (b_ctype b) (b_digest b) p = true | _ => False end.
Proof. vm_compute. split; reflexivity. Qed.
Example builder_sign_twice_violates_rfc5652 :
  let b := mkB [42;134;72;134;247;13;1;7;1] [1;2;3;4] (Some [mkAttr (enc_oid oid_attr_signing_time) 49 [23;1;48] []]) in
  match sign_preimage (fst (sign_attrs b)) with Ok (1, p) => spec_attrs_ok (b_ctype b) (b_digest b) p = false | _ => False end.
Proof. vm_compute. reflexivity. Qed.
Example ber_sample_rejected : parse_cms [48;128;6;9;42;134;72;134;247;13;1;7;2;160;128;0;0;0;0] = Err E_INDEF.
Proof. vm_compute. reflexivity. Qed.

(* ====================================================================================================================
   WHICH byte string is digested and checked against a signature (lib/pkcs7 SignerInfo.Verify, AuthenticatedAttributesBytes,
   AttributeList.Bytes; lib/pkcs9 Verify, finishVerify, MessageImprint.Verify).  The models are the INTERPRETATION of the
   statement-level translation of the Go bodies (Generated/C16_gen.v, the prog_ definitions); cryptography is a parameter C : crypto. *)

(* 11. the interpretation of each translated body is its reference function, for all primitives, hooks and inputs: the
       reference functions of VModel.v (Part 8) say what the source says NOW; a changed operator, operand, argument, branch,
       early return or an extra check in the Go code changes the generated term and these equalities must be re-proved *)
Theorem si_verify_follows_source : forall P K s content skip certs,
  run_si_verify P K s (Wby content) skip certs = ref_si_verify P K s content skip certs.
Proof. exact C16.VProofs.si_verify_eq. Qed.
Theorem has_empty_follows_source : forall P K s, run_has_empty P K s = ref_has_empty P s.
Proof. exact C16.VProofs.has_empty_eq. Qed.
Theorem ci_bytes_follows_source : forall P K c, run_ci_bytes P K c = ref_ci_bytes P c.
Proof. exact C16.VProofs.ci_bytes_eq. Qed.
Theorem sd_verify_follows_source : forall P K sd ext skip, run_sd_verify P K sd (ext_val ext) skip = ref_sd_verify P K sd ext skip.
Proof. exact C16.VProofs.sd_verify_eq. Qed.
Theorem aab_follows_source : forall P K s, run_aab P K s = ref_aab P K s.
Proof. exact C16.VProofs.aab_eq. Qed.
Theorem attrs_bytes_follows_source : forall P K o, run_attrs_bytes P K o = lift_bytes (p_marshal_attrs P o).
Proof. exact C16.VProofs.attrs_bytes_eq. Qed.
Theorem imprint_follows_source : forall P K a hashed data, run_imprint P K a hashed (Wby data) = ref_imprint P a hashed data.
Proof. exact C16.VProofs.imprint_eq. Qed.
Theorem ts_finish_follows_source : forall P K s blob certs h t certErr,
  run_finish P K s (blob_val blob) certs h (Wti t) certErr = ref_ts_finish P K s (blob_val blob) certs h (Wti t) certErr.
Proof. exact C16.VProofs.finish_eq. Qed.
Theorem ts_verify_follows_source : forall P K tok data certs, run_ts_verify P K tok (Wby data) certs = ref_ts_verify P K tok data certs.
Proof. exact C16.VProofs.ts_verify_eq. Qed.
(* the interpreted AuthenticatedAttributesBytes is the function theorems 6 and 7 are about *)
Theorem aab_interpreted_is_aab : forall C s b, aab_m C s = Ok b <-> aab s = Ok b.
Proof. exact C16.VProofs.aab_m_ok. Qed.

(* 12. exactly one digest is ever handed to a signature check: the primary check and, only when that answers
       rsa.ErrVerification, the same digest again without the DigestInfo wrapper *)
Theorem one_digest_decides : forall C c s d,
  signature_accepted C c s d <->
  c_pkix C (ce_pub c) (si_dalg s) (si_ealg s) d (si_sig s) = SigOk \/
  (c_pkix C (ce_pub c) (si_dalg s) (si_ealg s) d (si_sig s) = SigRsaErr /\ c_raw C (ce_pub c) 0 d (si_sig s) = SigOk).
Proof. exact C16.VProofs.signature_accepted_iff. Qed.

(* 13. PARSED SignerInfo with (non-empty) signed attributes, ALL inputs, ALL crypto: an accepting Verify has checked the
       signature against the digest of exactly the [0] field as it stands in the received SignerInfo — which Marshal emits
       again verbatim — with its first octet replaced by 0x31 (= the RFC 5652 5.4 preimage of the EMITTED bytes), and, unless
       digests are skipped, the message-digest attribute equals the digest of the content *)
Theorem verify_parsed_digests_emitted : forall C t s a l content skip certs c,
  valid t -> t_tag t = T_SEQ -> parse_si t = Ok s -> si_auth s = Some (a :: l) ->
  si_verify C s (Wby content) skip certs = VAccept c ->
  exists h pre tl post,
    c_hash_of C (si_dalg s) = Some h /\
    emit_si s = t_full t /\ t_body t = pre ++ (160 :: tl) ++ post /\
    spec_si_preimage (emit_si s) content = Some (true, 49 :: tl) /\
    find_cert certs (si_issuer s) (si_serial s) = Some c /\
    signature_accepted C c s (c_H C h (49 :: tl)) /\
    (skip = false -> get_one (a :: l) OID_message_digest = Ok (c_H C h content)).
Proof. exact C16.VProofs.verify_parsed_digests_emitted. Qed.

(* 14. no other encoding of the same attributes can make Verify accept: if the signature does not check against the digest
       of the RFC 5652 preimage of the EMITTED bytes, Verify rejects — whatever the signature primitives answer on any other
       digest (the sorted DER SET OF, a re-encoding of the parsed list, another order, the content digest) *)
Theorem other_encodings_cannot_help : forall C t s a l content skip certs h p,
  valid t -> t_tag t = T_SEQ -> parse_si t = Ok s -> si_auth s = Some (a :: l) ->
  spec_si_preimage (t_full t) content = Some (true, p) -> c_hash_of C (si_dalg s) = Some h ->
  (forall c, ~ signature_accepted C c s (c_H C h p)) ->
  forall c, si_verify C s (Wby content) skip certs <> VAccept c.
Proof. exact C16.VProofs.other_encodings_cannot_help. Qed.

(* 15. ... and a signature over the as-emitted bytes IS accepted (hash known, message-digest consistent, certificate there) *)
Theorem verify_accepts_as_emitted : forall C s content skip certs c h md ab,
  c_hash_of C (si_dalg s) = Some h -> opt_list (si_auth s) <> [] ->
  get_one (opt_list (si_auth s)) OID_message_digest = Ok md -> (skip = false -> md = c_H C h content) ->
  aab s = Ok ab -> find_cert certs (si_issuer s) (si_serial s) = Some c -> signature_accepted C c s (c_H C h ab) ->
  si_verify C s (Wby content) skip certs = VAccept c.
Proof. exact C16.VProofs.si_verify_accepts. Qed.

(* 16. SignerInfo BUILT by relic (the self check of TimestampAndMarshal runs on it): the digest checked is that of the
       emitted [0] field with first octet 0x31 *)
Theorem verify_built_digests_emitted : forall C s a l content skip certs c,
  si_raw s = [] -> si_auth s = Some (a :: l) ->
  si_verify C s (Wby content) skip certs = VAccept c ->
  exists h tl, c_hash_of C (si_dalg s) = Some h /\ auth_field s = 160 :: tl /\ subslice (auth_field s) (emit_si s) /\
    find_cert certs (si_issuer s) (si_serial s) = Some c /\ signature_accepted C c s (c_H C h (49 :: tl)).
Proof. exact C16.VProofs.verify_built_digests_emitted. Qed.

(* 17. without signed attributes (field absent — or present but EMPTY, see 18) the signature is checked against the
       content digest *)
Theorem verify_without_attrs : forall C s content certs c,
  opt_list (si_auth s) = [] -> si_verify C s (Wby content) false certs = VAccept c ->
  exists h, c_hash_of C (si_dalg s) = Some h /\ signature_accepted C c s (c_H C h content).
Proof. exact C16.VProofs.verify_without_attrs. Qed.

(* 18. the dichotomy (relic fixes daed528 and b8abb42 included), for EVERY accepted SignerInfo: an accepting Verify with digests
       checked means EITHER there is no [0] field and the signature is over the content digest, OR the field holds at least one
       attribute and the signature is over exactly the emitted field re-tagged; an EMPTY field is refused, whatever follows
       inside the SignerInfo *)
Theorem verify_accept_dichotomy : forall C t s content certs c,
  valid t -> t_tag t = T_SEQ -> parse_si t = Ok s ->
  si_verify C s (Wby content) false certs = VAccept c ->
  exists h, c_hash_of C (si_dalg s) = Some h /\
    ((si_auth s = None /\ spec_si_preimage (emit_si s) content = Some (false, content) /\ signature_accepted C c s (c_H C h content)) \/
     (exists a l tl, si_auth s = Some (a :: l) /\ spec_si_preimage (emit_si s) content = Some (true, 49 :: tl) /\
                     subslice (160 :: tl) (emit_si s) /\ signature_accepted C c s (c_H C h (49 :: tl)))).
Proof. exact C16.VProofs.verify_accept_dichotomy. Qed.
Theorem verify_empty_attrs_rejected : forall C t s content skip certs,
  valid t -> t_tag t = T_SEQ -> parse_si t = Ok s -> si_auth s = Some [] ->
  forall c, si_verify C s (Wby content) skip certs <> VAccept c.
Proof. exact C16.VProofs.verify_empty_attrs_rejected. Qed.
(* 18b. regression: the two inputs that refuted 18 before the fixes — A0 00 signed over the content digest, and the same with a
        truncated element (04 05 00) behind the signature value — are refused by the code as it is now *)
Theorem former_witnesses_are_refused :
  parse_si (tlv_of empty_attrs_si0) = Ok (si_of empty_attrs_si0) /\ si_auth (si_of empty_attrs_si0) = Some [] /\
  si_verify (witness_crypto witness_content) (si_of empty_attrs_si0) (Wby witness_content) false [cert_of empty_attrs_si0] = VReject EV_NEW /\
  parse_si (tlv_of empty_attrs_si) = Ok (si_of empty_attrs_si) /\ si_auth (si_of empty_attrs_si) = Some [] /\
  read_all (t_body (tlv_of empty_attrs_si)) = Err E_TRUNC /\
  si_verify (witness_crypto witness_content) (si_of empty_attrs_si) (Wby witness_content) false [cert_of empty_attrs_si] = VReject EV_NEW.
Proof. exact C16.VProofs.former_witnesses_are_refused. Qed.

(* 19. pkcs9.Verify: an accepted timestamp token has exactly one SignerInfo, its imprint is the digest of the data, and THAT
       SignerInfo's Verify — digests NOT skipped — accepted over the eContent octets of the token (so 13 applies to it) *)
Theorem ts_verify_checks_the_token_signer : forall C tok data certs s c h t,
  ts_verify C tok (Wby data) certs = TsAccept s c h t ->
  exists sd ti blob certs',
    o_sd tok = Some sd /\ sd_sis sd = [s] /\ c_tstinfo C tok = Ok ti /\
    (exists hi, c_hash_of C (ti_alg ti) = Some hi /\ c_H C hi data = ti_hashed ti) /\
    ci_bytes (ci_raw (sd_ci sd)) = Ok blob /\
    si_verify C s (blob_val blob) false certs' = VAccept c.
Proof. exact C16.VProofs.ts_verify_accept_inv. Qed.

(* 20. SignedData.Verify with EXTERNAL content supplied and digests checked: when it accepts, the SignedData either carries no
       content or carries exactly the external content, and EVERY SignerInfo was verified against the external content (by 13
       its message-digest attribute is then the digest of the EXTERNAL content); without external content, against the
       embedded content *)
Theorem sd_verify_external_content : forall C sd ext s c,
  sd_verify C sd (Wby ext) false = SdAccept s c ->
  (ci_bytes (ci_raw (sd_ci sd)) = Ok None \/ ci_bytes (ci_raw (sd_ci sd)) = Ok (Some ext)) /\
  In s (sd_sis sd) /\
  exists certs, Forall (fun s' => exists c', si_verify C s' (Wby ext) false certs = VAccept c') (sd_sis sd).
Proof. exact C16.VProofs.sd_verify_external_content. Qed.
Theorem sd_verify_embedded_content : forall C sd s c,
  sd_verify C sd Wnil false = SdAccept s c ->
  exists b certs, ci_bytes (ci_raw (sd_ci sd)) = Ok (Some b) /\
    Forall (fun s' => exists c', si_verify C s' (Wby b) false certs = VAccept c') (sd_sis sd).
Proof. exact C16.VProofs.sd_verify_embedded_content. Qed.

(* 21. ContentInfo.Bytes: the interpretation of the source is Model.ci_bytes, and for EVERY payload and every identifier
       octet of the inner element — also when the payload is itself a run of complete OCTET STRING elements — Bytes() of
       SEQUENCE { contentType, [0] { tag len payload } } is exactly payload, which is what the RFC 5652 reader finds *)
Theorem ci_bytes_interpreted_is_ci_bytes : forall C c o, ci_bytes_m C c = Ok o <-> ci_bytes (ci_raw c) = Ok o.
Proof. exact C16.VProofs.ci_bytes_m_ok. Qed.
Theorem ci_bytes_is_econtent : forall ctype tag payload,
  oid_ok ctype = true -> all_bytes ctype = true -> tag_ok tag -> all_bytes payload = true ->
  small (enc_tlv T_SEQ (enc_tlv T_OID ctype ++ enc_tlv 160 (enc_tlv tag payload))) ->
  let raw := enc_tlv T_SEQ (enc_tlv T_OID ctype ++ enc_tlv 160 (enc_tlv tag payload)) in
  ci_bytes raw = Ok (Some payload) /\ spec_econtent raw = Some (Some payload).
Proof. exact C16.VProofs.ci_bytes_is_econtent. Qed.

(* ------------------------------------------------------------------ non-vacuity *)
(* a SignerInfo whose signed attributes (content-type, message-digest) stand in NON-DER order; sha256 / rsaEncryption *)
Definition vsample : bytes :=
  [48; 105; 2; 1; 1; 48; 17; 48; 12; 49; 10; 48; 8; 6; 3; 85; 4; 3; 12; 1; 120; 2; 1; 9; 48; 13; 6; 9; 96; 134; 72; 1; 101; 3; 4;
   2; 1; 5; 0; 160; 47; 48; 24; 6; 9; 42; 134; 72; 134; 247; 13; 1; 9; 3; 49; 11; 6; 9; 42; 134; 72; 134; 247; 13; 1; 7; 1; 48;
   19; 6; 9; 42; 134; 72; 134; 247; 13; 1; 9; 4; 49; 6; 4; 4; 200; 1; 2; 3; 48; 13; 6; 9; 42; 134; 72; 134; 247; 13; 1; 1; 1;
   5; 0; 4; 2; 190; 239].
Definition vsample_emitted : bytes :=
  [49; 47; 48; 24; 6; 9; 42; 134; 72; 134; 247; 13; 1; 9; 3; 49; 11; 6; 9; 42; 134; 72; 134; 247; 13; 1; 7; 1; 48; 19; 6; 9; 42;
   134; 72; 134; 247; 13; 1; 9; 4; 49; 6; 4; 4; 200; 1; 2; 3].
Definition vsample_sorted : bytes :=
  [49; 47; 48; 19; 6; 9; 42; 134; 72; 134; 247; 13; 1; 9; 4; 49; 6; 4; 4; 200; 1; 2; 3; 48; 24; 6; 9; 42; 134; 72; 134; 247; 13;
   1; 9; 3; 49; 11; 6; 9; 42; 134; 72; 134; 247; 13; 1; 7; 1].
(* a toy instance of the crypto parameters: H prefixes 200; the signature "verifies" on exactly one digest *)
Definition toy (good : bytes) : crypto :=
  mkCrypto (fun _ => Some 1) (fun _ b => 200 :: b)
           (fun _ _ _ d _ => if bytes_eqb d (200 :: good) then SigOk else SigRsaErr) (fun _ _ _ _ => SigRsaErr)
           (fun _ => ([], 0)) (fun _ => Err 1) (fun _ => 0).
Definition vsample_t : tlv := match read_tlv vsample with Ok (t, _) => t | _ => mkTlv 0 [] [] end.
Definition vsample_s : sinfo := match parse_si vsample_t with Ok s => s | _ => dummy_si end.
Definition vsample_cert : cert := mkCert (si_issuer vsample_s) (si_serial vsample_s) 7.
Example vsample_hypotheses_hold :
  valid vsample_t /\ t_tag vsample_t = T_SEQ /\ parse_si vsample_t = Ok vsample_s /\
  (exists a l, si_auth vsample_s = Some (a :: l)) /\
  spec_si_preimage (t_full vsample_t) [1; 2; 3] = Some (true, vsample_emitted) /\ vsample_emitted <> vsample_sorted.
Proof.
  split.
  { destruct (read_tlv vsample) as [[t r]| |] eqn:E; try (vm_compute in E; discriminate).
    assert (Hb : all_bytes vsample = true) by (vm_compute; reflexivity).
    destruct (C16.Tlv.read_tlv_ok vsample t r Hb E) as (_ & Hv & _).
    replace vsample_t with t; [exact Hv|]. unfold vsample_t. rewrite E. reflexivity. }
  split; [vm_compute; reflexivity|]. split; [vm_compute; reflexivity|].
  split; [vm_compute; eexists; eexists; reflexivity|]. split; [vm_compute; reflexivity|]. vm_compute. discriminate.
Qed.
(* signed over the bytes as emitted: accepted; signed over the sorted DER SET OF (or anything else): rejected *)
Example vsample_signed_as_emitted_is_accepted :
  si_verify (toy vsample_emitted) vsample_s (Wby [1; 2; 3]) false [vsample_cert] = VAccept vsample_cert.
Proof. vm_compute. reflexivity. Qed.
Example vsample_signed_over_sorted_set_is_rejected :
  si_verify (toy vsample_sorted) vsample_s (Wby [1; 2; 3]) false [vsample_cert] = VReject EV_RSA.
Proof. vm_compute. reflexivity. Qed.
Example vsample_wrong_message_digest_is_rejected :
  si_verify (toy vsample_emitted) vsample_s (Wby [9; 9]) false [vsample_cert] = VReject EV_NEW.
Proof. vm_compute. reflexivity. Qed.
Example vsample_interpreter_knows_every_construct :
  forall skip, match si_verify (toy vsample_emitted) vsample_s (Wby [1; 2; 3]) skip [] with VReject e => e = EV_CERT | _ => False end.
Proof. intros [|]; vm_compute; reflexivity. Qed.
(* a payload that is itself a complete primitive OCTET STRING element (04 03 61 62 63): Bytes() returns all five octets *)
Example segment_shaped_payload :
  ci_bytes (enc_tlv T_SEQ (enc_tlv T_OID [42;134;72;134;247;13;1;7;1] ++ enc_tlv 160 (enc_tlv 4 [4; 3; 97; 98; 99]))) = Ok (Some [4; 3; 97; 98; 99]).
Proof. vm_compute. reflexivity. Qed.
Example sd_verify_knows_every_construct :
  match parse_cms sample with
  | Ok o => match o_sd o with
            | Some sd => sd_verify (toy []) sd Wnil false = SdReject EV_NOATTR
            | None => False end
  | _ => False end.
Proof. vm_compute. reflexivity. Qed.

(* ---- RSA-PSS parameters in CMS (C16 / C05 reference-verifier acceptance): the saltLength written into the signature
        AlgorithmIdentifier is the salt length the signer uses, for every option value (auto / equals-hash / explicit),
        every hash length and every modulus size (the 8k+1-bit class was a finding, fixed by relic 4b12f85). *)
Theorem pss_declared_salt_is_used : forall saltOpt modBits hLen declared used,
  0 <= modBits ->
  pss_sign_run saltOpt modBits hLen = Some (declared, used) ->
  pss_call_sites_ok = true /\ spec_verifier_accepts declared used = true /\ used = spec_salt saltOpt modBits hLen.
Proof. exact C16.Pss.pss_declared_salt_is_used. Qed.

(* regression for the fixed finding: moduli of 2049 and 1025 bits with auto salt *)
Example pss_regression_modbits_1_mod_8 :
  pss_sign_run 0 2049 32 = Some (222, 222) /\ pss_sign_run 0 1025 32 = Some (94, 94).
Proof. exact C16.Pss.pss_regression_modbits_1_mod_8. Qed.

(* non-vacuity: the three option kinds on RSA-2048 / SHA-256, SHA-384, SHA-512 *)
Example pss_auto_2048_sha256 : pss_sign_run 0 2048 32 = Some (222, 222). Proof. reflexivity. Qed.
Example pss_auto_2048_sha512 : pss_sign_run 0 2048 64 = Some (190, 190). Proof. reflexivity. Qed.
Example pss_eqhash_2048_sha384 : pss_sign_run (-1) 2048 48 = Some (48, 48). Proof. reflexivity. Qed.
Example pss_explicit20 : pss_sign_run 20 2048 32 = Some (20, 20). Proof. reflexivity. Qed.
Example pss_negative_refused : pss_sign_run (-2) 2048 32 = None. Proof. reflexivity. Qed.
