(* C16/Pss.v — RSA-PSS parameters in CMS: the salt length DECLARED in the signature AlgorithmIdentifier
   (lib/x509tools MarshalRSAPSSParameters, generated: pss_declared_salt) versus the salt length the signer USES when
   lib/pkcs7 SignatureBuilder.Sign hands the same options to crypto.Signer.Sign (crypto/rsa.SignPSS of the toolchain,
   generated: pss_used_salt).  RFC 8017 9.1.2 (EMSA-PSS-VERIFY, steps 3 and 10): a verifier uses sLen from the
   parameters (RFC 4055 3.1 saltLength) and rejects unless DB has exactly emLen - hLen - sLen - 2 leading zero octets,
   i.e. unless the salt used has exactly the declared length. *)
From Relic Require Import Base.Prelude Generated.C16_gen.

(* ---- faithful model: both resolutions are the generated definitions; the call sites are generated facts ---- *)
Definition pss_call_sites_ok : bool :=
  pss_sign_declares_with_builder_opts && pss_sign_signs_with_builder_opts && pss_pkix_passes_opts_unchanged
  && pss_params_carry_salt_length.

(* what one CMS signing run does with PSS options: Some (declared, used), or None when the signer refuses *)
Definition pss_sign_run (saltOpt modBits hLen : Z) : option (Z * Z) :=
  let '(u, e) := pss_used_salt saltOpt modBits hLen in
  if e =? 0 then Some (pss_declared_salt saltOpt modBits hLen, u) else None.

(* ---- independent specification (RFC 8017 9.1.1 / 9.1.2, RFC 4055 3.1, crypto/rsa documentation of the sentinels) ---- *)
Definition spec_em_len (modBits : Z) : Z := (modBits - 1 + 7) / 8.          (* emLen = ceil((modBits-1)/8), emBits = modBits-1 *)
Definition spec_max_salt (modBits hLen : Z) : Z := spec_em_len modBits - hLen - 2.   (* emLen >= hLen + sLen + 2 *)
(* "PSSSaltLengthAuto causes the salt to be as large as possible when signing", "EqualsHash: equal the length of the hash" *)
Definition spec_salt (saltOpt modBits hLen : Z) : Z :=
  if saltOpt =? 0 then spec_max_salt modBits hLen else if saltOpt =? -1 then hLen else saltOpt.
(* EMSA-PSS-VERIFY step 10 with sLen taken from the parameters: accepted iff the salt in EM has the declared length *)
Definition spec_verifier_accepts (declared used : Z) : bool := declared =? used.

(* ---- proofs ---- *)
Lemma pss_used_is_spec : forall saltOpt modBits hLen s,
  0 <= modBits -> pss_used_salt saltOpt modBits hLen = (s, 0) -> s = spec_salt saltOpt modBits hLen.
Proof.
  intros o m h s Hm. unfold pss_used_salt, spec_salt, spec_max_salt, spec_em_len.
  rewrite (Z.quot_div_nonneg (m - 1 + 7) 8) by lia.
  destruct (o =? 0) eqn:E0.
  - destruct (_ <? 0); intro H; inversion H; lia.
  - destruct (o =? -1) eqn:E1.
    + intro H; inversion H; reflexivity.
    + destruct (o <=? 0); intro H; inversion H; reflexivity.
Qed.

(* the declared length is the used one: every option value, every modulus size, every hash (relic fix 4b12f85) *)
Lemma pss_declared_salt_is_used : forall saltOpt modBits hLen declared used,
  0 <= modBits ->
  pss_sign_run saltOpt modBits hLen = Some (declared, used) ->
  pss_call_sites_ok = true /\ spec_verifier_accepts declared used = true /\ used = spec_salt saltOpt modBits hLen.
Proof.
  intros o m h d u Hm. unfold pss_sign_run.
  destruct (pss_used_salt o m h) as [u' e] eqn:Hu.
  destruct (e =? 0) eqn:He; [|discriminate]. apply Z.eqb_eq in He. subst e.
  intro H. inversion H. subst u'. clear H.
  split; [reflexivity|]. split; [|exact (pss_used_is_spec o m h u Hm Hu)].
  unfold spec_verifier_accepts. apply Z.eqb_eq.
  revert Hu. unfold pss_used_salt, pss_declared_salt.
  rewrite (Z.quot_div_nonneg (m - 1 + 7) 8) by lia.
  destruct (o =? 0) eqn:E0.
  - destruct (_ <? 0); intro H; inversion H. lia.
  - destruct (o =? -1) eqn:E1.
    + intro H; inversion H; reflexivity.
    + destruct (o <=? 0); intro H; inversion H; reflexivity.
Qed.

(* regression (finding C16:pss:declared-salt-ne-used:modbits-1-mod-8, fixed by relic 4b12f85): auto salt with a modulus of
   8k+1 bits used to declare one octet more than the signer uses *)
Lemma pss_regression_modbits_1_mod_8 :
  pss_sign_run 0 2049 32 = Some (222, 222) /\ pss_sign_run 0 1025 32 = Some (94, 94).
Proof. split; reflexivity. Qed.
