(* C16/Model.v — executable model of lib/pkcs7 + lib/pkcs9 as far as parsing and re-emitting SignedData is concerned.
   Definitions only.

   Part 1  DER tag/length reader and writer (what encoding/asn1's parseTagAndLength / appendTagAndLength do)
   Part 2  scalars that Go decodes and re-encodes (INTEGER, OID validity, BIT STRING)
   Part 3  faithful model of pkcs7.Unmarshal  (ContentInfoSignedData, SignedData, ContentInfo, SignerInfo, attributes,
           AlgorithmIdentifier, CertificateList at region level) — lax exactly where Go is lax
   Part 4  faithful model of ContentInfoSignedData.Marshal, Detach, ContentInfo.Bytes, AuthenticatedAttributesBytes,
           marshalUnsortedSet, appendAttr, SignatureBuilder.Sign (attribute handling), AddStampToSignedData
   Part 5  INDEPENDENT SPECIFICATION written from RFC 5652 (strict DER walker locating the signed regions, the
           signed-attributes digest preimage of section 5.4, the mandatory-attribute rule of section 5.3)

   Struct layouts, struct-tag parameters, object identifiers, constants and branch conditions come from
   Generated/C16_gen.v (srcgen re-reads lib/pkcs7 and lib/pkcs9 on every run). *)
From Relic Require Import Base.Prelude Base.Enc Generated.C16_gen.

(* ------------------------------------------------------------------ error classes *)
Definition E_TRUNC := 1.     (* asn1.SyntaxError: truncated tag or length / data truncated / sequence truncated *)
Definition E_INDEF := 2.     (* asn1.SyntaxError: indefinite length found (not DER) *)
Definition E_NONMIN := 3.    (* asn1.StructuralError: non-minimal length / superfluous leading zeros in length *)
Definition E_TOOLARGE := 4.  (* asn1.StructuralError: length too large *)
Definition E_HIGHTAG := 5.   (* MODEL LIMIT: tag numbers >= 31 (multi-octet identifiers) are outside the modelled domain *)
Definition E_TAG := 6.       (* tags don't match / sequence tag mismatch *)
Definition E_SCALAR := 7.    (* bad INTEGER / OBJECT IDENTIFIER / BIT STRING contents *)
Definition E_TRAILING := 8.  (* pkcs7: trailing garbage after PKCS#7 structure *)
Definition E_EXPLICIT := 9.  (* explicit tag has no child / zero length explicit tag *)
Definition E_SHORTSEQ := 10. (* short sequence in SignerInfo *)
Definition E_LAYOUT := 11.   (* the Go struct layout is no longer the one this model was written for *)
Definition E_NOTSEQ := 12.   (* marshalUnsortedSet: expected sequence *)
Definition E_FUEL := 13.     (* never returned when fuel = length of the input (proved) *)
Definition is_syntax_error (e : Z) : bool := (e =? E_TRUNC) || (e =? E_INDEF).

(* ================================================================== Part 1: TLV *)
Record tlv := mkTlv { t_tag : Z; t_body : bytes; t_full : bytes }.

(* identifier octet of (class, constructed, number<31) *)
Definition octet (class : Z) (compound : bool) (num : Z) : Z := class * 64 + (if compound then 32 else 0) + num.
Definition T_INT := 2.
Definition T_BITS := 3.
Definition T_OCT := 4.
Definition T_OID := 6.
Definition T_SEQ := 48.
Definition T_SET := 49.

(* the long-form length loop of parseTagAndLength *)
Fixpoint read_len (n : nat) (acc : Z) (l : bytes) : result (Z * bytes) :=
  match n with
  | O => Ok (acc, l)
  | S k =>
      match l with
      | [] => Err E_TRUNC
      | b :: r =>
          if acc >=? 2 ^ 23 then Err E_TOOLARGE else
          let acc' := acc * 256 + b in
          if acc' =? 0 then Err E_NONMIN else read_len k acc' r
      end
  end.

(* parseTagAndLength: identifier octet, content length, bytes after the header *)
Definition read_hdr (l : bytes) : result (Z * Z * bytes) :=
  match l with
  | [] => Err E_TRUNC
  | b :: r =>
      if b mod 32 =? 31 then Err E_HIGHTAG else
      match r with
      | [] => Err E_TRUNC
      | lb :: r2 =>
          if lb <? 128 then Ok (b, lb, r2) else
          if lb =? 128 then Err E_INDEF else
          x <- read_len (Z.to_nat (lb - 128)) 0 r2 ;;
          if fst x <? 128 then Err E_NONMIN else Ok (b, fst x, snd x)
      end
  end.

(* header + bounds check ("data truncated"): one element and what follows it *)
Definition read_tlv (l : bytes) : result (tlv * bytes) :=
  h <- read_hdr l ;;
  let '(tag, len, r) := h in
  if zlen r <? len then Err E_TRUNC else
  Ok (mkTlv tag (ztake len r) (ztake (zlen l - zlen r + len) l), zdrop len r).

(* appendTagAndLength / appendLength for lengths below 2^32 (larger values cannot occur: see Proofs) *)
Definition enc_len (n : Z) : bytes :=
  if n <? 128 then [n]
  else if n <? 256 then [129; n]
  else if n <? 65536 then [130; n / 256; n mod 256]
  else if n <? 16777216 then [131; n / 65536; (n / 256) mod 256; n mod 256]
  else [132; n / 16777216; (n / 65536) mod 256; (n / 256) mod 256; n mod 256].
Definition enc_tlv (tag : Z) (body : bytes) : bytes := tag :: enc_len (zlen body) ++ body.

(* all elements of a content string (parseSequenceOf's first pass; also asn1.Unmarshal into []asn1.RawValue) *)
Fixpoint read_all_f (fuel : nat) (l : bytes) : result (list tlv) :=
  match l with
  | [] => Ok []
  | _ => match fuel with
         | O => Err E_FUEL
         | S f => r <- read_tlv l ;; rs <- read_all_f f (snd r) ;; Ok (fst r :: rs)
         end
  end.
Definition read_all (l : bytes) : result (list tlv) := read_all_f (length l) l.

Fixpoint map_res {A B} (f : A -> result B) (l : list A) : result (list B) :=
  match l with
  | [] => Ok []
  | a :: r => b <- f a ;; bs <- map_res f r ;; Ok (b :: bs)
  end.

Definition read_expect (oct : Z) (l : bytes) : result (tlv * bytes) :=
  r <- read_tlv l ;; if t_tag (fst r) =? oct then Ok r else Err E_TAG.

(* a field that may be optional: at the end of the data it is absent; otherwise Go parses the header, compares the tag and
   only then checks the length *)
Definition read_optional (opt : bool) (oct : Z) (l : bytes) : result (option tlv * bytes) :=
  match l with
  | [] => if opt then Ok (None, l) else Err E_TRUNC
  | _ => h <- read_hdr l ;;
         let '(tag, _, _) := h in
         if tag =? oct then (x <- read_tlv l ;; Ok (Some (fst x), snd x))
         else if opt then Ok (None, l) else Err E_TAG
  end.

(* SEQUENCE OF / SET OF of elements that all carry identifier octet oct *)
Definition parse_list {A} (oct : Z) (f : tlv -> result A) (body : bytes) : result (list A) :=
  ts <- read_all body ;; map_res (fun t => if t_tag t =? oct then f t else Err E_TAG) ts.

(* strip the header of a raw element (asn1 marshal: stripTagAndLength) *)
Definition strip_hdr (raw : bytes) : bytes :=
  match read_hdr raw with Ok (_, _, r) => r | _ => raw end.
Definition emit_raw (oct : Z) (raw : bytes) : bytes := enc_tlv oct (strip_hdr raw).

(* bytes.Compare <= 0 and the sort of asn1's setEncoder (the result of any correct sort is the same list) *)
Fixpoint bytes_leb (a b : bytes) : bool :=
  match a, b with
  | [], _ => true
  | _ :: _, [] => false
  | x :: a', y :: b' => if x <? y then true else if y <? x then false else bytes_leb a' b'
  end.
Fixpoint insert_b (x : bytes) (l : list bytes) : list bytes :=
  match l with
  | [] => [x]
  | y :: r => if bytes_leb x y then x :: l else y :: insert_b x r
  end.
Definition sort_b (l : list bytes) : list bytes := fold_right insert_b [] l.
Definition maybe_sort (set : bool) (l : list bytes) : list bytes := if set then sort_b l else l.
(* the same sort carried out on records through a key *)
Fixpoint insert_on {A} (key : A -> bytes) (x : A) (l : list A) : list A :=
  match l with
  | [] => [x]
  | y :: r => if bytes_leb (key x) (key y) then x :: l else y :: insert_on key x r
  end.
Definition sort_on {A} (key : A -> bytes) (l : list A) : list A := fold_right (insert_on key) [] l.

(* ================================================================== Part 2: scalars *)
(* checkInteger *)
Definition int_ok (c : bytes) : bool :=
  match c with
  | [] => false
  | [_] => true
  | b0 :: b1 :: _ => negb (((b0 =? 0) && (b1 <? 128)) || ((b0 =? 255) && (b1 >=? 128)))
  end.
Definition int64_ok (c : bytes) : bool := int_ok c && (zlen c <=? 8).
Definition sbyte (b : Z) : Z := if b >=? 128 then b - 256 else b.
(* parseInt64: big-endian two's complement *)
Definition dec_int (c : bytes) : Z :=
  match c with [] => 0 | b :: r => sbyte b * 256 ^ zlen r + be_dec r end.
(* int64Encoder *)
Fixpoint enc_int_f (fuel : nat) (i : Z) : bytes :=
  match fuel with
  | O => [i mod 256]
  | S f => if (i >? 127) || (i <? -128) then enc_int_f f (i / 256) ++ [i mod 256] else [i mod 256]
  end.
Definition enc_int (i : Z) : bytes := enc_int_f 8 i.

(* parseObjectIdentifier accepts: non-empty, every base-128 group minimal, at most 5 octets and <= MaxInt32, not truncated *)
Fixpoint oid_ok_f (l : bytes) (shifted acc : Z) : bool :=
  match l with
  | [] => shifted =? 0
  | b :: r =>
      if shifted =? 5 then false else
      if (shifted =? 0) && (b =? 128) then false else
      let acc' := acc * 128 + b mod 128 in
      if b <? 128 then (acc' <=? 2147483647) && oid_ok_f r 0 0 else oid_ok_f r (shifted + 1) acc'
  end.
Definition oid_ok (c : bytes) : bool := negb (zlen c =? 0) && oid_ok_f c 0 0.
(* ASSUMED (not modelled): Go decodes an accepted OID into arcs and re-encodes it; on minimal encodings this is the
   identity.  The correspondence harness compares every emitted byte, so a deviation would show up there. *)

(* makeObjectIdentifier for constants coming from the source (arcs -> contents) *)
Fixpoint base128_f (fuel : nat) (n : Z) (last : bool) : bytes :=
  match fuel with
  | O => []
  | S f => (if n >=? 128 then base128_f f (n / 128) false else []) ++ [n mod 128 + (if last then 0 else 128)]
  end.
Definition base128 (n : Z) : bytes := base128_f 6 n true.
Definition enc_oid (arcs : list Z) : bytes :=
  match arcs with
  | a :: b :: r => base128 (a * 40 + b) ++ concat (map base128 r)
  | _ => []
  end.

(* parseBitString / bitStringEncoder on the contents octets *)
Definition bits_ok (c : bytes) : bool :=
  match c with
  | [] => false
  | p :: d => (p <=? 7) && negb ((zlen d =? 0) && (p >? 0)) && (last c 0 mod 2 ^ p =? 0)
  end.
Definition enc_bits (c : bytes) : bytes :=
  match c with
  | [] => [0]
  | p :: d => let bitlen := 8 * zlen d - p in ((8 - bitlen mod 8) mod 8) :: d
  end.

(* ================================================================== Part 3: Unmarshal *)
Definition names (l : list (list Z)) (expected : list (list Z)) : bool := list_eqb bytes_eqb l expected.
Definition str (s : list Z) := s.

(* The order and Go types of the fields this model reads one after the other, and the struct-tag switches it does not
   interpret dynamically.  If lib/pkcs7/structs.go changes any of them, every parse returns E_LAYOUT: the
   correspondence harness and the non-vacuity Examples of Properties.v then fail. *)
Definition layout_ok : bool :=
  (* ContentInfoSignedData { ContentType OID ; Content SignedData `explicit,optional,tag:N` } *)
  names CISD_types [[97;115;110;49;46;79;98;106;101;99;116;73;100;101;110;116;105;102;105;101;114]; [83;105;103;110;101;100;68;97;116;97]]
  && CISD_Content_explicit && CISD_Content_opt && negb CISD_ContentType_opt && (CISD_ContentType_tag <? 0)
  && negb CISD_Content_otherclass && (0 <=? CISD_Content_tag) && (CISD_Content_tag <? 31)
  (* SignedData { int ; []pkix.AlgorithmIdentifier ; ContentInfo ; RawCertificates ; []pkix.CertificateList ; []SignerInfo } *)
  && names SD_types [[105;110;116]; [91;93;112;107;105;120;46;65;108;103;111;114;105;116;104;109;73;100;101;110;116;105;102;105;101;114];
                     [67;111;110;116;101;110;116;73;110;102;111]; [82;97;119;67;101;114;116;105;102;105;99;97;116;101;115];
                     [91;93;112;107;105;120;46;67;101;114;116;105;102;105;99;97;116;101;76;105;115;116]; [91;93;83;105;103;110;101;114;73;110;102;111]]
  && negb SD_Version_opt && (SD_Version_tag <? 0) && negb SD_Version_explicit
  && negb SD_DigestAlgorithmIdentifiers_opt && negb SD_DigestAlgorithmIdentifiers_explicit
  && negb SD_ContentInfo_opt && (SD_ContentInfo_tag <? 0) && negb SD_ContentInfo_explicit
  && negb SD_Certificates_explicit && negb SD_CRLs_explicit && negb SD_CRLs_set
  && negb SD_SignerInfos_opt && negb SD_SignerInfos_explicit
  && (SD_DigestAlgorithmIdentifiers_tag <? 31) && (SD_Certificates_tag <? 31) && (SD_CRLs_tag <? 31) && (SD_SignerInfos_tag <? 31)
  && negb SD_Version_otherclass && negb SD_DigestAlgorithmIdentifiers_otherclass && negb SD_ContentInfo_otherclass
  && negb SD_Certificates_otherclass && negb SD_CRLs_otherclass && negb SD_SignerInfos_otherclass
  && bytes_eqb RawCertificates_type [91;93;97;115;110;49;46;82;97;119;86;97;108;117;101]
  (* ContentInfo { asn1.RawContent ; OID } *)
  && names CI_types [[97;115;110;49;46;82;97;119;67;111;110;116;101;110;116]; [97;115;110;49;46;79;98;106;101;99;116;73;100;101;110;116;105;102;105;101;114]]
  && negb CI_ContentType_opt && (CI_ContentType_tag <? 0)
  (* contentInfo2 { OID ; asn1.RawValue } *)
  && names CI2_types [[97;115;110;49;46;79;98;106;101;99;116;73;100;101;110;116;105;102;105;101;114]; [97;115;110;49;46;82;97;119;86;97;108;117;101]]
  && negb CI2_ContentType_opt && (CI2_ContentType_tag <? 0) && negb CI2_Value_opt && (CI2_Value_tag <? 0)
  (* SignerInfo { asn1.RawContent ; int ; IssuerAndSerial ; AlgId ; AttributeList ; AlgId ; []byte ; AttributeList } *)
  && names SI_types [[97;115;110;49;46;82;97;119;67;111;110;116;101;110;116]; [105;110;116]; [73;115;115;117;101;114;65;110;100;83;101;114;105;97;108];
                     [112;107;105;120;46;65;108;103;111;114;105;116;104;109;73;100;101;110;116;105;102;105;101;114]; [65;116;116;114;105;98;117;116;101;76;105;115;116];
                     [112;107;105;120;46;65;108;103;111;114;105;116;104;109;73;100;101;110;116;105;102;105;101;114]; [91;93;98;121;116;101]; [65;116;116;114;105;98;117;116;101;76;105;115;116]]
  && negb SI_Version_opt && (SI_Version_tag <? 0) && negb SI_IssuerAndSerialNumber_opt && (SI_IssuerAndSerialNumber_tag <? 0)
  && negb SI_DigestAlgorithm_opt && (SI_DigestAlgorithm_tag <? 0) && negb SI_DigestEncryptionAlgorithm_opt && (SI_DigestEncryptionAlgorithm_tag <? 0)
  && negb SI_EncryptedDigest_opt && (SI_EncryptedDigest_tag <? 0)
  && negb SI_AuthenticatedAttributes_explicit && negb SI_UnauthenticatedAttributes_explicit
  && negb SI_AuthenticatedAttributes_otherclass && negb SI_UnauthenticatedAttributes_otherclass
  && (SI_AuthenticatedAttributes_tag <? 31) && (SI_UnauthenticatedAttributes_tag <? 31)
  && bytes_eqb AttributeList_type [91;93;65;116;116;114;105;98;117;116;101]
  && names IAS_types [[97;115;110;49;46;82;97;119;86;97;108;117;101]; [42;98;105;103;46;73;110;116]]
  && negb IAS_IssuerName_opt && (IAS_IssuerName_tag <? 0) && negb IAS_SerialNumber_opt && (IAS_SerialNumber_tag <? 0)
  && names ATTR_types [[97;115;110;49;46;79;98;106;101;99;116;73;100;101;110;116;105;102;105;101;114]; [97;115;110;49;46;82;97;119;86;97;108;117;101]]
  && negb ATTR_Type_opt && (ATTR_Type_tag <? 0) && negb ATTR_Values_opt && (ATTR_Values_tag <? 0)
  && marshal_is_asn1.

(* identifier octet a field is matched against / emitted with: implicit context tag when the struct tag has one, else the
   universal type (SET instead of SEQUENCE when the struct tag says `set` or the slice type's name ends in SET) *)
Definition field_octet (tag : Z) (set : bool) (compound : bool) (universal : Z) : Z :=
  if tag >=? 0 then octet 2 compound tag else octet 0 compound (if set then 17 else universal).
Definition OCT_dalgs := field_octet SD_DigestAlgorithmIdentifiers_tag SD_DigestAlgorithmIdentifiers_set true 16.
Definition certs_set : bool := SD_Certificates_set || RawCertificates_type_name_is_set.
Definition OCT_certs := field_octet SD_Certificates_tag certs_set true 16.
Definition OCT_crls := field_octet SD_CRLs_tag SD_CRLs_set true 16.
Definition OCT_sis := field_octet SD_SignerInfos_tag SD_SignerInfos_set true 16.
Definition attrs_set : bool := AttributeList_type_name_is_set.
Definition OCT_auth := field_octet SI_AuthenticatedAttributes_tag (SI_AuthenticatedAttributes_set || attrs_set) true 16.
Definition OCT_unauth := field_octet SI_UnauthenticatedAttributes_tag (SI_UnauthenticatedAttributes_set || attrs_set) true 16.
Definition OCT_explicit := octet 2 true CISD_Content_tag.
Definition OCT_explicit_prim := octet 2 false CISD_Content_tag.

(* pkix.AlgorithmIdentifier { Algorithm OID ; Parameters asn1.RawValue `optional` } *)
Record algid := mkAlg { a_oid : bytes; a_params : bytes }.
Definition parse_algid (body : bytes) : result algid :=
  r <- read_expect T_OID body ;;
  if negb (oid_ok (t_body (fst r))) then Err E_SCALAR else
  match snd r with
  | [] => Ok (mkAlg (t_body (fst r)) [])
  | rest => p <- read_tlv rest ;; Ok (mkAlg (t_body (fst r)) (t_full (fst p)))
  end.
Definition emit_algid (a : algid) : bytes := enc_tlv T_SEQ (enc_tlv T_OID (a_oid a) ++ a_params a).

(* Attribute { Type OID ; Values asn1.RawValue } ; a RawValue is emitted from FullBytes when present *)
Record attr := mkAttr { at_oid : bytes; at_tag : Z; at_body : bytes; at_full : bytes }.
Definition parse_attr (t : tlv) : result attr :=
  r <- read_expect T_OID (t_body t) ;;
  if negb (oid_ok (t_body (fst r))) then Err E_SCALAR else
  v <- read_tlv (snd r) ;;
  Ok (mkAttr (t_body (fst r)) (t_tag (fst v)) (t_body (fst v)) (t_full (fst v))).
Definition emit_rawvalue (tag : Z) (body full : bytes) : bytes :=
  match full with [] => enc_tlv tag body | _ => full end.
Definition emit_attr (a : attr) : bytes :=
  enc_tlv T_SEQ (enc_tlv T_OID (at_oid a) ++ emit_rawvalue (at_tag a) (at_body a) (at_full a)).
Definition parse_attrs (body : bytes) : result (list attr) := parse_list T_SEQ parse_attr body.
Definition emit_attrs (set : bool) (l : list attr) : bytes := concat (maybe_sort set (map emit_attr l)).

(* SignerInfo *)
Record sinfo := mkSi {
  si_raw : bytes;             (* RawContent: the whole element as found in the input; [] for a SignerInfo built by relic *)
  si_version : Z;
  si_issuer : bytes;          (* IssuerName.FullBytes *)
  si_serial : bytes;          (* contents octets of the serial number *)
  si_dalg : algid;
  si_auth : option (list attr);   (* None = nil slice *)
  si_ealg : algid;
  si_sig : bytes;
  si_unauth : option (list attr) }.

Definition opt_attrs (o : option tlv) : result (option (list attr)) :=
  match o with None => Ok None | Some t => l <- parse_attrs (t_body t) ;; Ok (Some l) end.

Definition parse_si (t : tlv) : result sinfo :=
  r1 <- read_expect T_INT (t_body t) ;;
  if negb (int64_ok (t_body (fst r1))) then Err E_SCALAR else
  r2 <- read_expect T_SEQ (snd r1) ;;
  i1 <- read_tlv (t_body (fst r2)) ;;
  i2 <- read_expect T_INT (snd i1) ;;
  if negb (int_ok (t_body (fst i2))) then Err E_SCALAR else
  r3 <- read_expect T_SEQ (snd r2) ;;
  dalg <- parse_algid (t_body (fst r3)) ;;
  r4 <- read_optional SI_AuthenticatedAttributes_opt OCT_auth (snd r3) ;;
  auth <- opt_attrs (fst r4) ;;
  r5 <- read_expect T_SEQ (snd r4) ;;
  ealg <- parse_algid (t_body (fst r5)) ;;
  r6 <- read_expect T_OCT (snd r5) ;;
  r7 <- read_optional SI_UnauthenticatedAttributes_opt OCT_unauth (snd r6) ;;
  unauth <- opt_attrs (fst r7) ;;
  Ok (mkSi (t_full t) (dec_int (t_body (fst r1))) (t_full (fst i1)) (t_body (fst i2)) dalg auth ealg (t_body (fst r6)) unauth).

(* pkix.CertificateList { TBSCertList (struct with RawContent) ; SignatureAlgorithm ; SignatureValue BIT STRING }.
   NOT MODELLED: the fields inside tbsCertList (Go parses names, times, revoked entries and extensions and may reject
   what this model accepts). *)
Record crl := mkCrl { c_tbs : bytes; c_alg : algid; c_sig : bytes }.
Definition parse_crl (t : tlv) : result crl :=
  r1 <- read_expect T_SEQ (t_body t) ;;
  r2 <- read_expect T_SEQ (snd r1) ;;
  a <- parse_algid (t_body (fst r2)) ;;
  r3 <- read_expect T_BITS (snd r2) ;;
  if negb (bits_ok (t_body (fst r3))) then Err E_SCALAR else
  Ok (mkCrl (t_full (fst r1)) a (t_body (fst r3))).
Definition emit_crl (c : crl) : bytes :=
  enc_tlv T_SEQ (emit_raw T_SEQ (c_tbs c) ++ emit_algid (c_alg c) ++ enc_tlv T_BITS (enc_bits (c_sig c))).

(* ContentInfo { Raw ; ContentType } — everything after the content type is kept only inside Raw *)
Record cinfo := mkCi { ci_raw : bytes; ci_ctype : bytes }.
Definition parse_ci (t : tlv) : result cinfo :=
  r <- read_expect T_OID (t_body t) ;;
  if negb (oid_ok (t_body (fst r))) then Err E_SCALAR else Ok (mkCi (t_full t) (t_body (fst r))).

Record sdata := mkSd {
  sd_version : Z; sd_dalgs : list algid; sd_ci : cinfo;
  sd_certs : option (list bytes);     (* RawCertificates: FullBytes of every element; None = nil *)
  sd_crls : option (list crl);
  sd_sis : list sinfo }.

Definition opt_certs (o : option tlv) : result (option (list bytes)) :=
  match o with None => Ok None | Some t => ts <- read_all (t_body t) ;; Ok (Some (map t_full ts)) end.
Definition opt_crls (o : option tlv) : result (option (list crl)) :=
  match o with None => Ok None | Some t => l <- parse_list T_SEQ parse_crl (t_body t) ;; Ok (Some l) end.

Definition parse_sd_body (body : bytes) : result sdata :=
  r1 <- read_expect T_INT body ;;
  if negb (int64_ok (t_body (fst r1))) then Err E_SCALAR else
  r2 <- read_expect OCT_dalgs (snd r1) ;;
  dalgs <- parse_list T_SEQ (fun t => parse_algid (t_body t)) (t_body (fst r2)) ;;
  r3 <- read_expect T_SEQ (snd r2) ;;
  ci <- parse_ci (fst r3) ;;
  r4 <- read_optional SD_Certificates_opt OCT_certs (snd r3) ;;
  certs <- opt_certs (fst r4) ;;
  r5 <- read_optional SD_CRLs_opt OCT_crls (snd r4) ;;
  crls <- opt_crls (fst r5) ;;
  r6 <- read_expect OCT_sis (snd r5) ;;
  sis <- parse_list T_SEQ parse_si (t_body (fst r6)) ;;
  Ok (mkSd (dec_int (t_body (fst r1))) dalgs ci certs crls sis).

Record cms := mkCms { o_ctype : bytes; o_sd : option sdata }.

(* ContentInfoSignedData: the explicit [0] wrapper.  Go checks neither that the wrapper's length covers the inner element
   nor that nothing follows it inside the wrapper; the inner element is bounded by the enclosing SEQUENCE only. *)
Definition parse_cms_body (body : bytes) : result cms :=
  r1 <- read_expect T_OID body ;;
  if negb (oid_ok (t_body (fst r1))) then Err E_SCALAR else
  let ct := t_body (fst r1) in
  match snd r1 with
  | [] => Ok (mkCms ct None)
  | rest =>
      h <- read_hdr rest ;;
      let '(tag, len, r) := h in
      match r with
      | [] => Err E_EXPLICIT
      | _ =>
          if (tag =? OCT_explicit) || ((tag =? OCT_explicit_prim) && (len =? 0)) then
            if len >? 0 then
              h2 <- read_hdr r ;;
              let '(tag2, _, _) := h2 in
              if tag2 =? T_SEQ then
                x <- read_tlv r ;; sd <- parse_sd_body (t_body (fst x)) ;; Ok (mkCms ct (Some sd))
              else Ok (mkCms ct None)
            else Err E_EXPLICIT
          else Ok (mkCms ct None)
      end
  end.

Fixpoint trim_right_rev (l : bytes) (cut : bytes) : bytes :=
  match l with
  | b :: r => if existsb (Z.eqb b) cut then trim_right_rev r cut else l
  | [] => []
  end.
Definition trim_right (l cut : bytes) : bytes := rev (trim_right_rev (rev l) cut).

(* pkcs7.Unmarshal *)
Definition parse_cms (x : bytes) : result cms :=
  if negb layout_ok then Err E_LAYOUT else
  r <- read_expect T_SEQ x ;;
  o <- parse_cms_body (t_body (fst r)) ;;
  if unmarshal_trailing_garbage trim_right (snd r) then Err E_TRAILING else Ok o.

(* ================================================================== Part 4: Marshal and friends *)
Definition emit_opt_attrs (oct : Z) (set : bool) (o : option (list attr)) : bytes :=
  match o with None => [] | Some l => enc_tlv oct (emit_attrs set l) end.
Definition emit_si_fields (s : sinfo) : bytes :=
  enc_tlv T_SEQ (
    enc_tlv T_INT (enc_int (si_version s)) ++
    enc_tlv T_SEQ (si_issuer s ++ enc_tlv T_INT (si_serial s)) ++
    emit_algid (si_dalg s) ++
    emit_opt_attrs OCT_auth (SI_AuthenticatedAttributes_set || attrs_set) (si_auth s) ++
    emit_algid (si_ealg s) ++
    enc_tlv T_OCT (si_sig s) ++
    emit_opt_attrs OCT_unauth (SI_UnauthenticatedAttributes_set || attrs_set) (si_unauth s)).
(* a struct whose first field is a non-empty RawContent is emitted from it (header regenerated, body verbatim) *)
Definition has_raw (fields : list (list Z)) (types : list (list Z)) : bool :=
  match types with t :: _ => bytes_eqb t [97;115;110;49;46;82;97;119;67;111;110;116;101;110;116] | [] => false end.
Definition si_keeps_raw : bool := has_raw SI_fields SI_types.
Definition ci_keeps_raw : bool := has_raw CI_fields CI_types.
Definition emit_si (s : sinfo) : bytes :=
  match si_raw s with
  | [] => emit_si_fields s
  | raw => if si_keeps_raw then emit_raw T_SEQ raw else emit_si_fields s
  end.
Definition emit_ci (c : cinfo) : bytes :=
  match ci_raw c with
  | [] => enc_tlv T_SEQ (enc_tlv T_OID (ci_ctype c))
  | raw => if ci_keeps_raw then emit_raw T_SEQ raw else enc_tlv T_SEQ (enc_tlv T_OID (ci_ctype c))
  end.
Definition emit_opt_list (oct : Z) (o : option (list bytes)) : bytes :=
  match o with None => [] | Some l => enc_tlv oct (concat l) end.
Definition emit_sd_body (sd : sdata) : bytes :=
  enc_tlv T_INT (enc_int (sd_version sd)) ++
  enc_tlv OCT_dalgs (concat (maybe_sort SD_DigestAlgorithmIdentifiers_set (map emit_algid (sd_dalgs sd)))) ++
  emit_ci (sd_ci sd) ++
  emit_opt_list OCT_certs (option_map (maybe_sort certs_set) (sd_certs sd)) ++
  emit_opt_list OCT_crls (option_map (map emit_crl) (sd_crls sd)) ++
  enc_tlv OCT_sis (concat (maybe_sort SD_SignerInfos_set (map emit_si (sd_sis sd)))).
(* ContentInfoSignedData.Marshal *)
Definition emit_cms (o : cms) : bytes :=
  enc_tlv T_SEQ (enc_tlv T_OID (o_ctype o) ++
                 match o_sd o with None => [] | Some sd => enc_tlv OCT_explicit (enc_tlv T_SEQ (emit_sd_body sd)) end).

(* Detach: the content is dropped, the content type kept *)
Definition detach (o : cms) : cms :=
  match o_sd o with
  | Some sd => if detach_clears_content
               then mkCms (o_ctype o) (Some (mkSd (sd_version sd) (sd_dalgs sd) (mkCi [] (ci_ctype (sd_ci sd))) (sd_certs sd) (sd_crls sd) (sd_sis sd)))
               else o
  | None => o
  end.

(* ContentInfo.Bytes: the contents octets of the first element inside the second field of Raw; absent (nil) on any
   asn1.SyntaxError; 0 = absent, 1 = present *)
Definition ci_bytes (raw : bytes) : result (option bytes) :=
  match read_expect T_SEQ raw with
  | Err e => if is_syntax_error e then Ok None else Err e
  | Panic e => Panic e
  | Ok (t, _) =>
      match read_expect T_OID (t_body t) with
      | Err e => if is_syntax_error e then Ok None else Err e
      | Panic e => Panic e
      | Ok (ot, rest) =>
          if negb (oid_ok (t_body ot)) then Err E_SCALAR else
          match read_tlv rest with
          | Err e => if is_syntax_error e then Ok None else Err e
          | Panic e => Panic e
          | Ok (v, _) =>
              match read_tlv (t_body v) with
              | Err e => if is_syntax_error e then Ok None else Err e
              | Panic e => Panic e
              | Ok (c, _) => Ok (Some (t_body c))
              end
          end
      end
  end.

(* marshalUnsortedSet applied to an encoding *)
Definition mus_rejects (b : Z) : bool :=
  if mus_op =? 1 then negb (Z.land b mus_mask =? mus_expect) else (Z.land b mus_mask =? mus_expect).
Definition set_bit (b v : Z) : Z := Z.lor b v.
Definition unsorted_set (enc : bytes) : result bytes :=
  if mus_nonempty (zlen enc) then
    match enc with
    | b :: r => if negb ((mus_index =? 0) && (mus_or_index =? 0)) then Err E_LAYOUT else
                if mus_rejects b then Err E_NOTSEQ else Ok (set_bit b mus_or :: r)
    | [] => Ok enc
    end
  else Ok enc.

(* AttributeList.Bytes: asn1.Marshal of the slice (a SEQUENCE OF, or SET OF when the type name says so) then the tag tweak *)
Definition attrs_bytes (l : list attr) : result bytes :=
  unsorted_set (enc_tlv (octet 0 true (if attrs_set then 17 else 16)) (emit_attrs attrs_set l)).

(* SignerInfo.AuthenticatedAttributesBytes *)
Definition aab (s : sinfo) : result bytes :=
  if aab_use_fields (negb (zlen (si_raw s) =? 0)) then
    attrs_bytes (match si_auth s with Some l => l | None => [] end)
  else
    r <- read_expect T_SEQ (si_raw s) ;;
    seq <- read_all (t_body (fst r)) ;;
    if aab_short (zlen seq) then Err E_SHORTSEQ else
    let f := nth (Z.to_nat aab_index) seq (mkTlv 0 [] []) in
    unsorted_set (enc_tlv (octet 0 aab_rv_IsCompound aab_rv_Tag) (t_body f)).

(* appendAttr *)
Fixpoint append_attr (l : list attr) (oid value : bytes) : list attr :=
  match l with
  | [] => [mkAttr oid (octet attr_rv_Class attr_rv_IsCompound attr_rv_Tag) value []]
  | a :: r => if bytes_eqb (at_oid a) oid then mkAttr (at_oid a) (at_tag a) (at_body a ++ value) (at_full a) :: r
              else a :: append_attr r oid value
  end.
Definition add_attr (o : option (list attr)) (oid value : bytes) : option (list attr) :=
  Some (append_attr (match o with Some l => l | None => [] end) oid value).

(* SignatureBuilder: content type, content digest, authenticated attributes so far *)
Record builder := mkB { b_ctype : bytes; b_digest : bytes; b_attrs : option (list attr) }.
Definition OID_content_type := enc_oid oid_attr_content_type.
Definition OID_message_digest := enc_oid oid_attr_message_digest.
Definition sign_oid (code : Z) : bytes :=
  if code =? 1 then OID_content_type else if code =? 2 then OID_message_digest else [].
Definition sign_val (b : builder) (code : Z) : bytes :=
  if code =? 1 then enc_tlv T_OID (b_ctype b) else if code =? 2 then enc_tlv T_OCT (b_digest b) else [].
(* the attribute part of Sign: returns the builder afterwards (Sign mutates it) and the attribute list of the SignerInfo *)
Definition sign_attrs (b : builder) : builder * option (list attr) :=
  if sign_with_attrs (match b_attrs b with Some _ => true | None => false end) then
    let a := fold_left (fun acc p => add_attr acc (sign_oid (fst p)) (sign_val b (snd p))) sign_adds (b_attrs b) in
    (mkB (b_ctype b) (b_digest b) a, if sign_si_auth_is_builder_attrs then a else None)
  else (b, if sign_si_auth_is_builder_attrs then b_attrs b else None).
(* what is hashed and signed: the attribute bytes when there are attributes, else the content digest itself (0 / 1) *)
Definition sign_preimage (b : builder) : result (Z * bytes) :=
  match snd (sign_attrs b) with
  | Some l => if sign_with_attrs true then r <- attrs_bytes l ;; Ok (1, r) else Ok (0, b_digest b)
  | None => Ok (0, b_digest b)
  end.

(* NewContentInfo(ctype, data) with data already encoded *)
Definition new_ci (ctype : bytes) (encoded : option bytes) : cinfo :=
  match encoded with
  | None => mkCi [] ctype
  | Some e => mkCi (enc_tlv T_SEQ (enc_tlv T_OID ctype ++ enc_tlv (octet ci_rv_Class ci_rv_IsCompound ci_rv_Tag) e)) ctype
  end.

(* the structure Sign returns *)
Definition built_si (b : builder) (issuer serial : bytes) (dalg ealg : algid) (sig : bytes) : sinfo :=
  mkSi [] sign_si_Version issuer serial dalg (snd (sign_attrs b)) ealg sig None.
Definition built_cms (b : builder) (ci : cinfo) (certs : list bytes) (issuer serial : bytes) (dalg ealg : algid) (sig : bytes) : cms :=
  mkCms (enc_oid oid_signed_data)
        (Some (mkSd sign_sd_Version [dalg] ci (Some certs) None [built_si b issuer serial dalg ealg sig])).

(* AddStampToSignedData / AddStampToSignedAuthenticode: the token is marshalled again and added as an unauthenticated
   attribute *)
Definition add_stamp (authenticode : bool) (s : sinfo) (tok : cms) : sinfo :=
  let oid := if authenticode then enc_oid oid_spc_timestamp_token else enc_oid oid_attr_timestamp_token in
  let ok := if authenticode then stamp_spc_is_unauth_add else stamp_cms_is_unauth_add in
  if ok then mkSi (si_raw s) (si_version s) (si_issuer s) (si_serial s) (si_dalg s) (si_auth s) (si_ealg s) (si_sig s)
                  (add_attr (si_unauth s) oid (emit_cms tok))
  else s.

(* ------------------------------------------------------------------ regions *)
Record regions := mkReg { r_ci : bytes; r_certs : list bytes; r_crl_tbs : list bytes; r_sis : list bytes }.
Definition opt_list {A} (o : option (list A)) : list A := match o with Some l => l | None => [] end.
Definition regions_of (sd : sdata) : regions :=
  mkReg (ci_raw (sd_ci sd)) (sort_b (opt_list (sd_certs sd))) (map c_tbs (opt_list (sd_crls sd))) (sort_b (map si_raw (sd_sis sd))).
Definition cms_regions (o : cms) : option regions := option_map regions_of (o_sd o).

(* ================================================================== Part 5: independent specification (RFC 5652) *)
(* A strict DER reading: a constructed value's children are ALL the elements of its contents, nothing may be left over.

   ContentInfo ::= SEQUENCE { contentType OBJECT IDENTIFIER, content [0] EXPLICIT ANY }
   SignedData  ::= SEQUENCE { version INTEGER, digestAlgorithms SET OF .., encapContentInfo SEQUENCE,
                              certificates [0] IMPLICIT .. OPTIONAL, crls [1] IMPLICIT .. OPTIONAL, signerInfos SET OF SignerInfo }
   SignerInfo  ::= SEQUENCE { version, sid, digestAlgorithm, signedAttrs [0] IMPLICIT .. OPTIONAL, signatureAlgorithm,
                              signature OCTET STRING, unsignedAttrs [1] IMPLICIT .. OPTIONAL }
   The portions covered by somebody's signature: encapContentInfo (its eContent), every certificate, the tbsCertList of
   every CRL, every SignerInfo (signed attributes, signature value, and the tokens/countersignatures in unsignedAttrs).
   SET OF order is not significant. *)
Definition children (t : tlv) : option (list tlv) :=
  match read_all (t_body t) with Ok l => Some l | _ => None end.
Definition one (x : bytes) : option tlv :=
  match read_all x with Ok [t] => Some t | _ => None end.

Definition spec_split_optional (oct : Z) (l : list tlv) : option (list tlv) * list tlv :=
  match l with
  | t :: r => if t_tag t =? oct then (children t, r) else (Some [], l)
  | [] => (Some [], l)
  end.
Definition spec_tbs (c : tlv) : option bytes :=
  match children c with Some (tbs :: _ :: _ :: nil) => Some (t_full tbs) | _ => None end.
Fixpoint all_some {A} (l : list (option A)) : option (list A) :=
  match l with
  | [] => Some []
  | Some a :: r => match all_some r with Some rs => Some (a :: rs) | None => None end
  | None :: _ => None
  end.
Definition spec_regions (x : bytes) : option regions :=
  match one x with
  | Some top =>
    if negb (t_tag top =? 48) then None else
    match children top with
    | Some [ct; wrap] =>
      if negb ((t_tag ct =? 6) && (t_tag wrap =? 160)) then None else
      match children wrap with
      | Some [sd] =>
        if negb (t_tag sd =? 48) then None else
        match children sd with
        | Some (ver :: dal :: eci :: rest) =>
          if negb ((t_tag ver =? 2) && (t_tag dal =? 49) && (t_tag eci =? 48)) then None else
          let (certs, rest1) := spec_split_optional 160 rest in
          let (crls, rest2) := spec_split_optional 161 rest1 in
          match certs, crls, rest2 with
          | Some cl, Some rl, [sis] =>
            if negb (t_tag sis =? 49) then None else
            match children sis, all_some (map spec_tbs rl) with
            | Some sl, Some tbs =>
              if forallb (fun s => t_tag s =? 48) sl
              then Some (mkReg (t_full eci) (sort_b (map t_full cl)) tbs (sort_b (map t_full sl)))
              else None
            | _, _ => None
            end
          | _, _, _ => None
          end
        | _ => None
        end
      | _ => None
      end
    | _ => None
    end
  | None => None
  end.

(* RFC 5652 section 5.4: "A separate encoding of the signedAttrs field is performed for message digest calculation.  The
   IMPLICIT [0] tag in the signedAttrs is not used for the DER encoding, rather an EXPLICIT SET OF tag is used."
   Input: one SignerInfo element.  Result: the octets to be digested, when signedAttrs is present. *)
Definition spec_signed_attrs_preimage (si_full : bytes) : option bytes :=
  match one si_full with
  | Some si =>
    match children si with
    | Some (_ :: _ :: _ :: f :: _) =>
      if t_tag f =? 160 then match t_full f with _ :: r => Some (49 :: r) | [] => None end else None
    | _ => None
    end
  | None => None
  end.

(* RFC 5652 section 5.4: only the contents octets of eContent are digested (the value inside [0] of encapContentInfo) *)
Definition spec_econtent (eci_full : bytes) : option (option bytes) :=
  match one eci_full with
  | Some eci =>
    match children eci with
    | Some [_] => Some None
    | Some [_; wrap] =>
      if t_tag wrap =? 160 then
        match children wrap with Some [e] => Some (Some (t_body e)) | _ => None end
      else None
    | _ => None
    end
  | None => None
  end.

(* RFC 5652 section 5.3: if signedAttrs is present it MUST contain exactly one content-type attribute, whose single value
   is the eContentType, and exactly one message-digest attribute, whose single value is the digest of the content.
   Input: the SET OF encoding that is digested.  OIDs 1.2.840.113549.1.9.3 / .4 spelled out in DER. *)
Definition SPEC_OID_CT : bytes := [42; 134; 72; 134; 247; 13; 1; 9; 3].
Definition SPEC_OID_MD : bytes := [42; 134; 72; 134; 247; 13; 1; 9; 4].
Definition spec_attr_values (a : tlv) (oid : bytes) : option (list bytes) :=
  match children a with
  | Some [o; vs] =>
    if (t_tag o =? 6) && bytes_eqb (t_body o) oid && (t_tag vs =? 49) then
      match children vs with Some l => Some (map t_full l) | None => None end
    else None
  | _ => None
  end.
Definition spec_count_attr (attrs : list tlv) (oid : bytes) (value : bytes) : Z * Z :=
  (* (how many attributes carry this type, how many of them have exactly the one expected value) *)
  fold_left (fun acc a =>
    match children a with
    | Some (o :: _) =>
      if (t_tag o =? 6) && bytes_eqb (t_body o) oid then
        (fst acc + 1, snd acc + match spec_attr_values a oid with
                                 | Some [v] => if bytes_eqb v value then 1 else 0
                                 | _ => 0 end)
      else acc
    | _ => acc
    end) attrs (0, 0).
Definition spec_attrs_ok (ctype digest : bytes) (set_bytes : bytes) : bool :=
  match one set_bytes with
  | Some s =>
    (t_tag s =? 49) &&
    match children s with
    | Some attrs =>
      let c := spec_count_attr attrs SPEC_OID_CT (enc_tlv 6 ctype) in
      let m := spec_count_attr attrs SPEC_OID_MD (enc_tlv 4 digest) in
      (fst c =? 1) && (snd c =? 1) && (fst m =? 1) && (snd m =? 1)
    | None => false
    end
  | None => false
  end.
