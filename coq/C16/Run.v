(* C16/Run.v — evaluation of the model and of the independent specification on harness cases. *)
From Relic Require Import Base.Prelude Base.Enc Base.Val Generated.C16_gen C16.Model C16.VModel C16.Pss.

Definition status_of {A} (r : result A) : Z := match r with Ok _ => 0 | Err e => e | Panic _ => 99 end.
Definition VBs (l : list bytes) : val := VL (map VB l).

Definition regions_eqb (a b : regions) : bool :=
  bytes_eqb (r_ci a) (r_ci b) && list_eqb bytes_eqb (r_certs a) (r_certs b)
  && list_eqb bytes_eqb (r_crl_tbs a) (r_crl_tbs b) && list_eqb bytes_eqb (r_sis a) (r_sis b).
Definition vregions (r : regions) : val := VL [VB (r_ci r); VBs (r_certs r); VBs (r_crl_tbs r); VBs (r_sis r)].
Definition opt_regions_eqb (a b : option regions) : bool :=
  match a, b with Some x, Some y => regions_eqb x y | None, None => true | _, _ => false end.

Definition vres_bytes (r : result bytes) : val :=
  match r with Ok b => VL [VZ 0; VB b] | Err e => VL [VZ e; VB []] | Panic e => VL [VZ 99; VB []] end.

(* per SignerInfo (input order): raw, number of authenticated attributes (-1 = field absent), AuthenticatedAttributesBytes,
   the RFC 5652 preimage: 0 = no signed attributes, 1 = present and equal to the model's bytes, 2 = present and different *)
Definition vsi (s : sinfo) : val :=
  let a := aab s in
  let sp := spec_signed_attrs_preimage (si_raw s) in
  VL [VB (si_raw s);
      VZ (match si_auth s with Some l => zlen l | None => -1 end);
      vres_bytes a;
      VZ (match sp, a with
          | None, _ => 0
          | Some p, Ok q => if bytes_eqb p q then 1 else 2
          | Some _, _ => 2 end)].

(* kind 0: [x]  ->
   [status; emitted; regions; sis; content:[status(0 absent,1 present,other error); bytes]; flags; detached] with
   flags = [has_crl; reparse_ok; spec_defined; spec_agrees; econtent_spec(0 undefined,1 agrees,2 differs)] *)
Definition run_roundtrip (x : bytes) : val :=
  match parse_cms x with
  | Ok o =>
      let e := emit_cms o in
      let reg := cms_regions o in
      let re := parse_cms e in
      let reparse_ok := match re with
                        | Ok o' => opt_regions_eqb (cms_regions o') reg && bytes_eqb (emit_cms o') e
                        | _ => false end in
      let sp := spec_regions x in
      let sis := match o_sd o with Some sd => sd_sis sd | None => [] end in
      let craw := match o_sd o with Some sd => ci_raw (sd_ci sd) | None => [] end in
      let cb := ci_bytes craw in
      let ec := match spec_econtent craw, cb with
                | None, _ => 0
                | Some a, Ok b => (match a, b with
                                   | Some p, Some q => if bytes_eqb p q then 1 else 2
                                   | None, None => 1
                                   | _, _ => 2 end)
                | Some _, _ => 2 end in
      VL [VZ 0; VB e;
          match reg with Some r => vregions r | None => VL [] end;
          VL (map vsi sis);
          match cb with
          | Ok None => VL [VZ 0; VB []]
          | Ok (Some b) => VL [VZ 1; VB b]
          | Err c => VL [VZ (c + 100); VB []]
          | Panic _ => VL [VZ 99; VB []] end;
          VL [of_bool (match o_sd o with Some sd => match sd_crls sd with Some (_ :: _) => true | _ => false end | None => false end);
              of_bool reparse_ok;
              of_bool (match sp with Some _ => true | None => false end);
              of_bool (match sp with Some r => opt_regions_eqb (Some r) reg | None => true end);
              VZ ec];
          VB (emit_cms (detach o))]
  | Err c => VL [VZ c]
  | Panic _ => VL [VZ 99]
  end.

(* kind 1: builder.
   input  [ctype; digest; content:[kind; bytes]; pre:[[oid; value]...]; certs:[..]; issuer; serial; dalg:[oid; params];
           ealg:[oid; params]; sigs:[sig per Sign call]; stamp:[] | [authenticode; token]]
   output [rounds:[ [emitted; preimage_kind; preimage:[status; bytes]; auth_field; spec_attrs_ok; n_auth] ... ]; stamped:[status; bytes]; token regions kept] *)
Definition valg (v : val) : algid := mkAlg (vb (vnth 0 v)) (vb (vnth 1 v)).
Definition auth_field (s : sinfo) : bytes :=
  emit_opt_attrs OCT_auth (SI_AuthenticatedAttributes_set || attrs_set) (si_auth s).

Fixpoint rounds (b : builder) (ci : cinfo) (certs : list bytes) (issuer serial : bytes) (dalg ealg : algid) (sigs : list bytes)
  : list val * option sinfo :=
  match sigs with
  | [] => ([], None)
  | sig :: rest =>
      let s := built_si b issuer serial dalg ealg sig in
      let o := built_cms b ci certs issuer serial dalg ealg sig in
      let pre := sign_preimage b in
      let okspec := match pre with
                    | Ok (1, p) => spec_attrs_ok (b_ctype b) (b_digest b) p
                    | _ => true end in
      let v := VL [VB (emit_cms o);
                   VZ (match pre with Ok (k, _) => k | _ => -1 end);
                   vres_bytes (match pre with Ok (_, p) => Ok p | Err e => Err e | Panic e => Panic e end);
                   VB (auth_field s); of_bool okspec;
                   VZ (match si_auth s with Some l => zlen l | None => -1 end)] in
      let '(vs, last) := rounds (fst (sign_attrs b)) ci certs issuer serial dalg ealg rest in
      (v :: vs, match last with Some l => Some l | None => Some s end)
  end.

Definition run_builder (v : val) : val :=
  let ctype := vb (vnth 0 v) in
  let digest := vb (vnth 1 v) in
  let cv := vnth 2 v in
  (* content: [0 _] detached | [1 encoded] NewContentInfo | [2 raw] a ContentInfo taken over from a parsed structure *)
  let ci := if vz (vnth 0 cv) =? 2 then mkCi (vb (vnth 1 cv)) ctype
            else new_ci ctype (if vbool (vnth 0 cv) then Some (vb (vnth 1 cv)) else None) in
  let pre := map (fun p => (vb (vnth 0 p), vb (vnth 1 p))) (vl (vnth 3 v)) in
  let certs := map vb (vl (vnth 4 v)) in
  let issuer := vb (vnth 5 v) in
  let serial := vb (vnth 6 v) in
  let dalg := valg (vnth 7 v) in
  let ealg := valg (vnth 8 v) in
  let sigs := map vb (vl (vnth 9 v)) in
  let stamp := vl (vnth 10 v) in
  let b0 := mkB ctype digest (fold_left (fun acc p => add_attr acc (fst p) (snd p)) pre None) in
  let '(rs, last) := rounds b0 ci certs issuer serial dalg ealg sigs in
  let stamped :=
    match stamp, last with
    | [au; tok], Some s =>
        match parse_cms (vb tok) with
        | Ok t =>
            (* the SignerInfo of the LAST round, stamped, inside the structure of that round *)
            let s' := add_stamp (vbool au) s t in
            let o := mkCms (enc_oid oid_signed_data) (Some (mkSd sign_sd_Version [dalg] ci (Some certs) None [s'])) in
            VL [VZ 0; VB (emit_cms o); VB (emit_cms t);
                of_bool (match parse_cms (emit_cms t) with
                         | Ok t' => opt_regions_eqb (cms_regions t') (cms_regions t)
                         | _ => false end)]
        | Err e => VL [VZ e]
        | Panic _ => VL [VZ 99]
        end
    | _, _ => VL []
    end in
  VL [VL rs; stamped].

(* kind 2: the tag/length reader alone: [x] -> [status; tag; body; full; rest] (exhaustive small-scope comparison with asn1) *)
Definition run_tlv (x : bytes) : val :=
  match read_tlv x with
  | Ok (t, rest) => VL [VZ 0; VZ (t_tag t); VB (t_body t); VB (t_full t); VB rest]
  | Err e => VL [VZ e]
  | Panic _ => VL [VZ 99]
  end.

(* kind 3: integers: [contents] -> [ok; value; re-encoded] *)
Definition run_int (c : bytes) : val :=
  VL [of_bool (int64_ok c); VZ (dec_int c); VB (enc_int (dec_int c)); of_bool (oid_ok c); of_bool (bits_ok c); VB (enc_bits c)].

(* ------------------------------------------------------------------ verification path (C16/VModel.v)
   The cryptographic parameters are tables made by the check (python: hashlib + its own RSA / ECDSA arithmetic):
     hashtab [[digest algorithm OID contents; hash id] ...]      htab [[hash id; preimage; digest] ...]
     sigtab  [[public key id; digest; code of the DigestInfo check; code of the check without DigestInfo] ...]
   codes: 0 nil, 1 rsa.ErrVerification, other = another error.  A digest the table does not know is answered with a
   value no table entry carries, a signature check the table does not know fails. *)
Definition sigres_of (z : Z) : sigres := if z =? 0 then SigOk else if z =? 1 then SigRsaErr else SigOther.
Definition tab_hash_of (tab : list val) (a : algid) : option Z :=
  match find (fun e => bytes_eqb (vb (vnth 0 e)) (a_oid a)) tab with Some e => Some (vz (vnth 1 e)) | None => None end.
Definition tab_H (tab : list val) (h : Z) (pre : bytes) : bytes :=
  match find (fun e => (vz (vnth 0 e) =? h) && bytes_eqb (vb (vnth 1 e)) pre) tab with
  | Some e => vb (vnth 2 e) | None => 238 :: 238 :: pre end.
Definition tab_sig (tab : list val) (col : nat) (dflt : Z) (k : Z) (dig : bytes) : sigres :=
  match find (fun e => (vz (vnth 0 e) =? k) && bytes_eqb (vb (vnth 1 e)) dig) tab with
  | Some e => sigres_of (vz (vnth col e)) | None => sigres_of dflt end.
Definition vcert (c : val) : cert := mkCert (vb (vnth 0 c)) (vb (vnth 1 c)) (vz (vnth 2 c)).
Definition tab_crypto (hashtab htab sigtab : list val) (dp dr : Z) (pc : list cert * Z) (ti : result tstinfo) : crypto :=
  mkCrypto (tab_hash_of hashtab) (tab_H htab)
           (fun k _ _ dig _ => tab_sig sigtab 2 dp k dig) (fun k _ dig _ => tab_sig sigtab 3 dr k dig)
           (fun _ => pc) (fun _ => ti) (fun _ => -1).
Definition vcontent (present : val) (b : val) : value := if vbool present then Wby (vb b) else Wnil.

(* kind 4: SignerInfo.Verify.  [si_full; content_present; content; skip; certs; hashtab; htab; sigtab; dp; dr]
   -> [status (0 accept, else the error class); public key id; aab agrees with the RFC 5652 preimage of si_full (1/0/2 = no
      signed attributes); interpreted aab = Model.aab] *)
Definition run_verify (v : val) : val :=
  let si_full := vb (vnth 0 v) in
  let content := vcontent (vnth 1 v) (vnth 2 v) in
  let skip := vbool (vnth 3 v) in
  let certs := map vcert (vl (vnth 4 v)) in
  let C := tab_crypto (vl (vnth 5 v)) (vl (vnth 6 v)) (vl (vnth 7 v)) (vz (vnth 8 v)) (vz (vnth 9 v)) ([], 0) (Err 1) in
  match read_tlv si_full with
  | Ok (t, _) =>
      match parse_si t with
      | Ok s =>
          let sp := match spec_si_preimage si_full [] with
                    | Some (true, p) => (match aab s with Ok q => if bytes_eqb p q then 1 else 0 | _ => 0 end)
                    | _ => 2 end in
          let same := match aab_m C s, aab s with
                      | Ok a, Ok b => bytes_eqb a b | Err _, Err _ => true | _, _ => false end in
          match si_verify C s content skip certs with
          | VAccept c => VL [VZ 0; VZ (ce_pub c); VZ sp; of_bool same]
          | VReject e => VL [VZ e; VZ 0; VZ sp; of_bool same]
          end
      | _ => VL [VZ 97; VZ 0; VZ 2; VZ 1]
      end
  | _ => VL [VZ 97; VZ 0; VZ 2; VZ 1]
  end.

(* kind 5: pkcs9.Verify.  [token; data; certs; tst:[ok; alg oid; alg params; hashed message; time]; parsed certs; parse error;
                           hashtab; htab; sigtab; dp; dr]  -> [status; public key id; hash id; time] *)
Definition run_tsverify (v : val) : val :=
  let data := Wby (vb (vnth 1 v)) in
  let certs := map vcert (vl (vnth 2 v)) in
  let tv := vnth 3 v in
  let ti := if vbool (vnth 0 tv) then Ok (mkTi (mkAlg (vb (vnth 1 tv)) (vb (vnth 2 tv))) (vb (vnth 3 tv)) (vz (vnth 4 tv))) else Err 1 in
  let pc := (map vcert (vl (vnth 4 v)), vz (vnth 5 v)) in
  let C := tab_crypto (vl (vnth 6 v)) (vl (vnth 7 v)) (vl (vnth 8 v)) (vz (vnth 9 v)) (vz (vnth 10 v)) pc ti in
  match parse_cms (vb (vnth 0 v)) with
  | Ok tok =>
      match ts_verify C tok data certs with
      | TsAccept _ c h t => VL [VZ 0; VZ (ce_pub c); VZ h; VZ t]
      | TsReject e => VL [VZ e; VZ 0; VZ 0; VZ 0]
      end
  | _ => VL [VZ 97; VZ 0; VZ 0; VZ 0]
  end.

(* kind 6: SignedData.Verify.  [x; external content present; external content; skip; parsed certs; parse error;
                                hashtab; htab; sigtab; dp; dr]  -> [status; public key id of the LAST signer info] *)
Definition run_sdverify (v : val) : val :=
  let ext := vcontent (vnth 1 v) (vnth 2 v) in
  let skip := vbool (vnth 3 v) in
  let pc := (map vcert (vl (vnth 4 v)), vz (vnth 5 v)) in
  let C := tab_crypto (vl (vnth 6 v)) (vl (vnth 7 v)) (vl (vnth 8 v)) (vz (vnth 9 v)) (vz (vnth 10 v)) pc (Err 1) in
  match parse_cms (vb (vnth 0 v)) with
  | Ok o =>
      match o_sd o with
      | Some sd => match sd_verify C sd ext skip with
                   | SdAccept _ c => VL [VZ 0; VZ (ce_pub c)]
                   | SdReject e => VL [VZ e; VZ 0]
                   end
      | None => VL [VZ 96; VZ 0]
      end
  | _ => VL [VZ 97; VZ 0]
  end.

(* kind 7: [saltOpt; modBits; hLen] -> [signed?; declared; used; spec salt; spec verifier accepts; call sites ok] *)
Definition run_pss (v : val) : val :=
  let o := vz (vnth 0 v) in let m := vz (vnth 1 v) in let h := vz (vnth 2 v) in
  match pss_sign_run o m h with
  | Some (d, u) => VL [VZ 1; VZ d; VZ u; VZ (spec_salt o m h); of_bool (spec_verifier_accepts d u); of_bool pss_call_sites_ok]
  | None => VL [VZ 0; VZ 0; VZ 0; VZ (spec_salt o m h); VZ 0; of_bool pss_call_sites_ok]
  end.

Definition run (v : val) : val :=
  let k := vz (vnth 0 v) in
  if k =? 0 then run_roundtrip (vb (vnth 1 v))
  else if k =? 1 then run_builder (vnth 1 v)
  else if k =? 2 then run_tlv (vb (vnth 1 v))
  else if k =? 4 then run_verify (vnth 1 v)
  else if k =? 5 then run_tsverify (vnth 1 v)
  else if k =? 6 then run_sdverify (vnth 1 v)
  else if k =? 7 then run_pss (vnth 1 v)
  else run_int (vb (vnth 1 v)).
