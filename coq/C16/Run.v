(* C16/Run.v — evaluation of the model and of the independent specification on harness cases. *)
From Relic Require Import Base.Prelude Base.Enc Base.Val Generated.C16_gen C16.Model.

Definition status_of {A} (r : result A) : Z := match r with Ok _ => 0 | Err e => e | Panic _ => 99 end.
Definition VBs (l : list bytes) : val := VL (map VB l).

Definition regions_eqb (a b : regions) : bool :=
  bytes_eqb (r_ci a) (r_ci b) && list_eqb bytes_eqb (r_certs a) (r_certs b)
  && list_eqb bytes_eqb (r_crl_tbs a) (r_crl_tbs b) && list_eqb bytes_eqb (r_sis a) (r_sis b).
Definition vregions (r : regions) : val := VL [VB (r_ci r); VBs (r_certs r); VBs (r_crl_tbs r); VBs (r_sis r)].
Definition opt_regions_eqb (a b : option regions) : bool :=
  match a, b with Some x, Some y => regions_eqb x y | None, None => true | _, _ => false end.

Definition vres_bytes (r : result bytes) : val :=
  match r with Ok b => VL [VZ 0; VB b] | Err e => VL [VZ e; VB []] | Panic e => VL [VZ 99; VB []] end.

(* per SignerInfo (input order): raw, number of authenticated attributes (-1 = field absent), AuthenticatedAttributesBytes,
   the RFC 5652 preimage: 0 = no signed attributes, 1 = present and equal to the model's bytes, 2 = present and different *)
Definition vsi (s : sinfo) : val :=
  let a := aab s in
  let sp := spec_signed_attrs_preimage (si_raw s) in
  VL [VB (si_raw s);
      VZ (match si_auth s with Some l => zlen l | None => -1 end);
      vres_bytes a;
      VZ (match sp, a with
          | None, _ => 0
          | Some p, Ok q => if bytes_eqb p q then 1 else 2
          | Some _, _ => 2 end)].

(* kind 0: [x]  ->
   [status; emitted; regions; sis; content:[status(0 absent,1 present,other error); bytes]; flags; detached] with
   flags = [has_crl; reparse_ok; spec_defined; spec_agrees; econtent_spec(0 undefined,1 agrees,2 differs)] *)
Definition run_roundtrip (x : bytes) : val :=
  match parse_cms x with
  | Ok o =>
      let e := emit_cms o in
      let reg := cms_regions o in
      let re := parse_cms e in
      let reparse_ok := match re with
                        | Ok o' => opt_regions_eqb (cms_regions o') reg && bytes_eqb (emit_cms o') e
                        | _ => false end in
      let sp := spec_regions x in
      let sis := match o_sd o with Some sd => sd_sis sd | None => [] end in
      let craw := match o_sd o with Some sd => ci_raw (sd_ci sd) | None => [] end in
      let cb := ci_bytes craw in
      let ec := match spec_econtent craw, cb with
                | None, _ => 0
                | Some a, Ok b => (match a, b with
                                   | Some p, Some q => if bytes_eqb p q then 1 else 2
                                   | None, None => 1
                                   | _, _ => 2 end)
                | Some _, _ => 2 end in
      VL [VZ 0; VB e;
          match reg with Some r => vregions r | None => VL [] end;
          VL (map vsi sis);
          match cb with
          | Ok None => VL [VZ 0; VB []]
          | Ok (Some b) => VL [VZ 1; VB b]
          | Err c => VL [VZ (c + 100); VB []]
          | Panic _ => VL [VZ 99; VB []] end;
          VL [of_bool (match o_sd o with Some sd => match sd_crls sd with Some (_ :: _) => true | _ => false end | None => false end);
              of_bool reparse_ok;
              of_bool (match sp with Some _ => true | None => false end);
              of_bool (match sp with Some r => opt_regions_eqb (Some r) reg | None => true end);
              VZ ec];
          VB (emit_cms (detach o))]
  | Err c => VL [VZ c]
  | Panic _ => VL [VZ 99]
  end.

(* kind 1: builder.
   input  [ctype; digest; content:[kind; bytes]; pre:[[oid; value]...]; certs:[..]; issuer; serial; dalg:[oid; params];
           ealg:[oid; params]; sigs:[sig per Sign call]; stamp:[] | [authenticode; token]]
   output [rounds:[ [emitted; preimage_kind; preimage:[status; bytes]; auth_field; spec_attrs_ok; n_auth] ... ]; stamped:[status; bytes]; token regions kept] *)
Definition valg (v : val) : algid := mkAlg (vb (vnth 0 v)) (vb (vnth 1 v)).
Definition auth_field (s : sinfo) : bytes :=
  emit_opt_attrs OCT_auth (SI_AuthenticatedAttributes_set || attrs_set) (si_auth s).

Fixpoint rounds (b : builder) (ci : cinfo) (certs : list bytes) (issuer serial : bytes) (dalg ealg : algid) (sigs : list bytes)
  : list val * option sinfo :=
  match sigs with
  | [] => ([], None)
  | sig :: rest =>
      let s := built_si b issuer serial dalg ealg sig in
      let o := built_cms b ci certs issuer serial dalg ealg sig in
      let pre := sign_preimage b in
      let okspec := match pre with
                    | Ok (1, p) => spec_attrs_ok (b_ctype b) (b_digest b) p
                    | _ => true end in
      let v := VL [VB (emit_cms o);
                   VZ (match pre with Ok (k, _) => k | _ => -1 end);
                   vres_bytes (match pre with Ok (_, p) => Ok p | Err e => Err e | Panic e => Panic e end);
                   VB (auth_field s); of_bool okspec;
                   VZ (match si_auth s with Some l => zlen l | None => -1 end)] in
      let '(vs, last) := rounds (fst (sign_attrs b)) ci certs issuer serial dalg ealg rest in
      (v :: vs, match last with Some l => Some l | None => Some s end)
  end.

Definition run_builder (v : val) : val :=
  let ctype := vb (vnth 0 v) in
  let digest := vb (vnth 1 v) in
  let cv := vnth 2 v in
  (* content: [0 _] detached | [1 encoded] NewContentInfo | [2 raw] a ContentInfo taken over from a parsed structure *)
  let ci := if vz (vnth 0 cv) =? 2 then mkCi (vb (vnth 1 cv)) ctype
            else new_ci ctype (if vbool (vnth 0 cv) then Some (vb (vnth 1 cv)) else None) in
  let pre := map (fun p => (vb (vnth 0 p), vb (vnth 1 p))) (vl (vnth 3 v)) in
  let certs := map vb (vl (vnth 4 v)) in
  let issuer := vb (vnth 5 v) in
  let serial := vb (vnth 6 v) in
  let dalg := valg (vnth 7 v) in
  let ealg := valg (vnth 8 v) in
  let sigs := map vb (vl (vnth 9 v)) in
  let stamp := vl (vnth 10 v) in
  let b0 := mkB ctype digest (fold_left (fun acc p => add_attr acc (fst p) (snd p)) pre None) in
  let '(rs, last) := rounds b0 ci certs issuer serial dalg ealg sigs in
  let stamped :=
    match stamp, last with
    | [au; tok], Some s =>
        match parse_cms (vb tok) with
        | Ok t =>
            (* the SignerInfo of the LAST round, stamped, inside the structure of that round *)
            let s' := add_stamp (vbool au) s t in
            let o := mkCms (enc_oid oid_signed_data) (Some (mkSd sign_sd_Version [dalg] ci (Some certs) None [s'])) in
            VL [VZ 0; VB (emit_cms o); VB (emit_cms t);
                of_bool (match parse_cms (emit_cms t) with
                         | Ok t' => opt_regions_eqb (cms_regions t') (cms_regions t)
                         | _ => false end)]
        | Err e => VL [VZ e]
        | Panic _ => VL [VZ 99]
        end
    | _, _ => VL []
    end in
  VL [VL rs; stamped].

(* kind 2: the tag/length reader alone: [x] -> [status; tag; body; full; rest] (exhaustive small-scope comparison with asn1) *)
Definition run_tlv (x : bytes) : val :=
  match read_tlv x with
  | Ok (t, rest) => VL [VZ 0; VZ (t_tag t); VB (t_body t); VB (t_full t); VB rest]
  | Err e => VL [VZ e]
  | Panic _ => VL [VZ 99]
  end.

(* kind 3: integers: [contents] -> [ok; value; re-encoded] *)
Definition run_int (c : bytes) : val :=
  VL [of_bool (int64_ok c); VZ (dec_int c); VB (enc_int (dec_int c)); of_bool (oid_ok c); of_bool (bits_ok c); VB (enc_bits c)].

Definition run (v : val) : val :=
  let k := vz (vnth 0 v) in
  if k =? 0 then run_roundtrip (vb (vnth 1 v))
  else if k =? 1 then run_builder (vnth 1 v)
  else if k =? 2 then run_tlv (vb (vnth 1 v))
  else run_int (vb (vnth 1 v)).
