(* C16/Tlv.v — lemmas about the DER tag/length reader and writer, SET OF sorting and the scalar codecs of C16/Model.v. *)
From Relic Require Import Base.Prelude Base.Enc Generated.C16_gen C16.Model.

Local Open Scope Z_scope.

(* ------------------------------------------------------------------ small helpers *)
Lemma all_bytes_cons b l : all_bytes (b :: l) = true <-> (0 <= b < 256) /\ all_bytes l = true.
Proof.
  unfold all_bytes. cbn [forallb]. rewrite andb_true_iff. unfold is_byte. split; intros [H1 H2]; split; auto; lia.
Qed.
Lemma all_bytes_app_iff a b : all_bytes (a ++ b) = true <-> all_bytes a = true /\ all_bytes b = true.
Proof. rewrite all_bytes_app, andb_true_iff. tauto. Qed.
Lemma all_bytes_nil : all_bytes [] = true.
Proof. reflexivity. Qed.
Lemma all_bytes_ztake n l : all_bytes l = true -> all_bytes (ztake n l) = true.
Proof.
  intros H. rewrite <- (ztake_zdrop n l) in H. apply all_bytes_app_iff in H. tauto.
Qed.
Lemma all_bytes_zdrop n l : all_bytes l = true -> all_bytes (zdrop n l) = true.
Proof.
  intros H. rewrite <- (ztake_zdrop n l) in H. apply all_bytes_app_iff in H. tauto.
Qed.
Lemma all_bytes_concat ls : Forall (fun l => all_bytes l = true) ls -> all_bytes (concat ls) = true.
Proof.
  induction 1; cbn [concat]; [reflexivity|]. apply all_bytes_app_iff. tauto.
Qed.

Definition tag_ok (t : Z) : Prop := 0 <= t < 256 /\ t mod 32 <> 31.
Definition small (l : bytes) : Prop := zlen l < 2 ^ 31.

Lemma small_app a b : small (a ++ b) -> small a /\ small b.
Proof. unfold small. rewrite zlen_app. pose proof (zlen_nonneg a). pose proof (zlen_nonneg b). lia. Qed.

(* ------------------------------------------------------------------ the header *)
Lemma enc_len_bytes n : 0 <= n < 2 ^ 32 -> all_bytes (enc_len n) = true.
Proof.
  intros H. unfold enc_len.
  repeat match goal with |- context [if ?c then _ else _] => destruct c eqn:? end;
    repeat (apply all_bytes_cons; split; [lia|]); reflexivity.
Qed.
Lemma enc_len_pos n : 1 <= zlen (enc_len n).
Proof.
  unfold enc_len. repeat match goal with |- context [if ?c then _ else _] => destruct c end; cbn; lia.
Qed.
Lemma zlen_enc_tlv t b : zlen (enc_tlv t b) = 1 + zlen (enc_len (zlen b)) + zlen b.
Proof. unfold enc_tlv. rewrite zlen_cons, zlen_app. lia. Qed.
Lemma small_enc_tlv t b : small (enc_tlv t b) -> small b.
Proof. unfold small. rewrite zlen_enc_tlv. pose proof (enc_len_pos (zlen b)). lia. Qed.

Ltac ifs H :=
  repeat match type of H with
         | context [if ?c then _ else _] => let E := fresh "E" in destruct c eqn:E; try discriminate H
         end.

Ltac fin_hdr := cbv iota; match goal with |- Ok (_, ?b, _) = Ok (_, ?n, _) => replace b with n by lia; reflexivity end.
(* reading a header written by enc_len *)
Lemma read_hdr_enc tag n r :
  tag_ok tag -> 0 <= n < 2 ^ 31 -> read_hdr (tag :: enc_len n ++ r) = Ok (tag, n, r).
Proof.
  intros [Ht Hm] Hn. unfold read_hdr.
  replace (tag mod 32 =? 31) with false by (symmetry; apply Z.eqb_neq; exact Hm).
  unfold enc_len.
  destruct (n <? 128) eqn:E1.
  { cbn [app]. rewrite E1. reflexivity. }
  destruct (n <? 256) eqn:E2.
  { cbn [app]. change (129 <? 128) with false. change (129 =? 128) with false. cbv iota.
    change (Z.to_nat (129 - 128)) with 1%nat. cbn [read_len bind].
    change (0 >=? 2 ^ 23) with false. cbv iota.
    replace (0 * 256 + n =? 0) with false by lia. cbn [bind fst snd].
    replace (0 * 256 + n <? 128) with false by lia. fin_hdr. }
  destruct (n <? 65536) eqn:E3.
  { cbn [app]. change (130 <? 128) with false. change (130 =? 128) with false. cbv iota.
    change (Z.to_nat (130 - 128)) with 2%nat. cbn [read_len bind].
    change (0 >=? 2 ^ 23) with false. cbv iota.
    replace (0 * 256 + n / 256 =? 0) with false by lia.
    replace (0 * 256 + n / 256 >=? 2 ^ 23) with false by lia.
    replace ((0 * 256 + n / 256) * 256 + n mod 256 =? 0) with false by lia. cbn [bind fst snd].
    replace ((0 * 256 + n / 256) * 256 + n mod 256 <? 128) with false by lia. fin_hdr. }
  destruct (n <? 16777216) eqn:E4.
  { cbn [app]. change (131 <? 128) with false. change (131 =? 128) with false. cbv iota.
    change (Z.to_nat (131 - 128)) with 3%nat. cbn [read_len bind].
    change (0 >=? 2 ^ 23) with false. cbv iota.
    replace (0 * 256 + n / 65536 =? 0) with false by lia.
    replace (0 * 256 + n / 65536 >=? 2 ^ 23) with false by lia.
    replace ((0 * 256 + n / 65536) * 256 + n / 256 mod 256 =? 0) with false by lia.
    replace ((0 * 256 + n / 65536) * 256 + n / 256 mod 256 >=? 2 ^ 23) with false by lia.
    replace (((0 * 256 + n / 65536) * 256 + n / 256 mod 256) * 256 + n mod 256 =? 0) with false by lia. cbn [bind fst snd].
    replace (((0 * 256 + n / 65536) * 256 + n / 256 mod 256) * 256 + n mod 256 <? 128) with false by lia.
    fin_hdr. }
  cbn [app]. change (132 <? 128) with false. change (132 =? 128) with false. cbv iota.
  change (Z.to_nat (132 - 128)) with 4%nat. cbn [read_len bind].
  change (0 >=? 2 ^ 23) with false. cbv iota.
  replace (0 * 256 + n / 16777216 =? 0) with false by lia.
  replace (0 * 256 + n / 16777216 >=? 2 ^ 23) with false by lia.
  replace ((0 * 256 + n / 16777216) * 256 + n / 65536 mod 256 =? 0) with false by lia.
  replace ((0 * 256 + n / 16777216) * 256 + n / 65536 mod 256 >=? 2 ^ 23) with false by lia.
  replace (((0 * 256 + n / 16777216) * 256 + n / 65536 mod 256) * 256 + n / 256 mod 256 =? 0) with false by lia.
  replace (((0 * 256 + n / 16777216) * 256 + n / 65536 mod 256) * 256 + n / 256 mod 256 >=? 2 ^ 23) with false by lia.
  replace ((((0 * 256 + n / 16777216) * 256 + n / 65536 mod 256) * 256 + n / 256 mod 256) * 256 + n mod 256 =? 0) with false by lia.
  cbn [bind fst snd].
  replace ((((0 * 256 + n / 16777216) * 256 + n / 65536 mod 256) * 256 + n / 256 mod 256) * 256 + n mod 256 <? 128) with false by lia.
  fin_hdr.
Qed.

(* the header that was read is the canonical one (DER): this is where Go's minimal-length checks pay off *)
Lemma read_hdr_canon l tag len r :
  all_bytes l = true -> read_hdr l = Ok (tag, len, r) ->
  l = tag :: enc_len len ++ r /\ 0 <= len < 2 ^ 31 /\ tag_ok tag.
Proof.
  intros Hb H. unfold read_hdr in H.
  destruct l as [|b l]; [discriminate|].
  apply all_bytes_cons in Hb as [Hb0 Hb].
  destruct (b mod 32 =? 31) eqn:Em; [discriminate|].
  destruct l as [|lb r2]; [discriminate|].
  apply all_bytes_cons in Hb as [Hlb Hb].
  assert (Htag : tag_ok b) by (split; [lia|apply Z.eqb_neq; exact Em]).
  destruct (lb <? 128) eqn:E1.
  { inversion H; subst. unfold enc_len. rewrite E1. cbn [app]. repeat split; try lia; apply Htag. }
  destruct (lb =? 128) eqn:E2; [discriminate|].
  remember (Z.to_nat (lb - 128)) as k eqn:Hk.
  destruct k as [|[|[|[|[|k]]]]].
  - lia.
  - (* one length octet *)
    destruct r2 as [|b1 r3]; [discriminate|]. apply all_bytes_cons in Hb as [H1 Hb].
    cbn [read_len bind] in H. change (0 >=? 2 ^ 23) with false in H. cbv iota in H.
    ifs H. cbn [bind fst snd] in H. ifs H. inversion H; subst.
    assert (lb = 129) by lia. subst lb. unfold enc_len.
    replace (len <? 128) with false by lia. replace (len <? 256) with true by lia.
    cbn [app]. repeat split; try lia; apply Htag.
  - destruct r2 as [|b1 [|b2 r3]]; try discriminate.
    { cbn [read_len bind] in H. change (0 >=? 2 ^ 23) with false in H. cbv iota in H. ifs H. }
    apply all_bytes_cons in Hb as [H1 Hb]. apply all_bytes_cons in Hb as [H2 Hb].
    cbn [read_len bind] in H. change (0 >=? 2 ^ 23) with false in H. cbv iota in H.
    ifs H. cbn [bind fst snd] in H. ifs H.
    set (n := (0 * 256 + b1) * 256 + b2) in *.
    assert (Hn : n = b1 * 256 + b2) by (subst n; lia). clearbody n.
    injection H as Et En Er. subst len tag r.
    assert (lb = 130) by lia. subst lb. unfold enc_len.
    replace (n <? 128) with false by lia. replace (n <? 256) with false by lia. replace (n <? 65536) with true by lia.
    cbn [app]. replace (n / 256) with b1 by lia. replace (n mod 256) with b2 by lia.
    repeat split; try lia; apply Htag.
  - destruct r2 as [|b1 [|b2 [|b3 r3]]]; try discriminate;
      try (cbn [read_len bind] in H; change (0 >=? 2 ^ 23) with false in H; cbv iota in H; ifs H; fail).
    apply all_bytes_cons in Hb as [H1 Hb]. apply all_bytes_cons in Hb as [H2 Hb]. apply all_bytes_cons in Hb as [H3 Hb].
    cbn [read_len bind] in H. change (0 >=? 2 ^ 23) with false in H. cbv iota in H.
    ifs H. cbn [bind fst snd] in H. ifs H.
    set (n := ((0 * 256 + b1) * 256 + b2) * 256 + b3) in *.
    assert (Hn : n = b1 * 65536 + b2 * 256 + b3) by (subst n; lia). clearbody n.
    injection H as Et En Er. subst len tag r.
    assert (lb = 131) by lia. subst lb. unfold enc_len.
    replace (n <? 128) with false by lia. replace (n <? 256) with false by lia.
    replace (n <? 65536) with false by lia. replace (n <? 16777216) with true by lia.
    cbn [app].
    replace (n / 65536) with b1 by lia. replace (n / 256 mod 256) with b2 by lia. replace (n mod 256) with b3 by lia.
    repeat split; try lia; apply Htag.
  - destruct r2 as [|b1 [|b2 [|b3 [|b4 r3]]]]; try discriminate;
      try (cbn [read_len bind] in H; change (0 >=? 2 ^ 23) with false in H; cbv iota in H; ifs H; fail).
    apply all_bytes_cons in Hb as [H1 Hb]. apply all_bytes_cons in Hb as [H2 Hb].
    apply all_bytes_cons in Hb as [H3 Hb]. apply all_bytes_cons in Hb as [H4 Hb].
    cbn [read_len bind] in H. change (0 >=? 2 ^ 23) with false in H. cbv iota in H.
    ifs H. cbn [bind fst snd] in H. ifs H.
    set (n := (((0 * 256 + b1) * 256 + b2) * 256 + b3) * 256 + b4) in *.
    assert (Hn : n = b1 * 16777216 + b2 * 65536 + b3 * 256 + b4) by (subst n; lia).
    assert (b1 < 128) by lia. clearbody n.
    injection H as Et En Er. subst len tag r.
    assert (lb = 132) by lia. subst lb. unfold enc_len.
    replace (n <? 128) with false by lia. replace (n <? 256) with false by lia.
    replace (n <? 65536) with false by lia. replace (n <? 16777216) with false by lia.
    cbn [app].
    replace (n / 16777216) with b1 by lia. replace (n / 65536 mod 256) with b2 by lia.
    replace (n / 256 mod 256) with b3 by lia. replace (n mod 256) with b4 by lia.
    repeat split; try lia; apply Htag.
  - (* five or more length octets: Go reports "length too large" (or runs out of input) *)
    exfalso.
    destruct r2 as [|b1 [|b2 [|b3 [|b4 r3]]]]; try discriminate;
      try (cbn [read_len bind] in H; change (0 >=? 2 ^ 23) with false in H; cbv iota in H; ifs H; discriminate H).
    apply all_bytes_cons in Hb as [H1 Hb]. apply all_bytes_cons in Hb as [H2 Hb].
    apply all_bytes_cons in Hb as [H3 Hb]. apply all_bytes_cons in Hb as [H4 Hb].
    cbn [read_len bind] in H. change (0 >=? 2 ^ 23) with false in H. cbv iota in H.
    destruct (0 * 256 + b1 =? 0) eqn:Z1; [discriminate|].
    destruct (0 * 256 + b1 >=? 2 ^ 23) eqn:Z2; [discriminate|].
    destruct ((0 * 256 + b1) * 256 + b2 =? 0) eqn:Z3; [discriminate|].
    destruct ((0 * 256 + b1) * 256 + b2 >=? 2 ^ 23) eqn:Z4; [discriminate|].
    destruct (((0 * 256 + b1) * 256 + b2) * 256 + b3 =? 0) eqn:Z5; [discriminate|].
    destruct (((0 * 256 + b1) * 256 + b2) * 256 + b3 >=? 2 ^ 23) eqn:Z6; [discriminate|].
    destruct ((((0 * 256 + b1) * 256 + b2) * 256 + b3) * 256 + b4 =? 0) eqn:Z7; [discriminate|].
    destruct r3 as [|b5 r4]; [discriminate|].
    replace ((((0 * 256 + b1) * 256 + b2) * 256 + b3) * 256 + b4 >=? 2 ^ 23) with true in H by lia.
    discriminate.
Qed.

(* ------------------------------------------------------------------ elements *)
(* a well-formed element: canonical header, single-octet identifier, length below 2^31 *)
Definition valid (t : tlv) : Prop :=
  t_full t = enc_tlv (t_tag t) (t_body t) /\ tag_ok (t_tag t) /\ small (t_body t) /\ all_bytes (t_body t) = true.

Lemma valid_full_bytes t : valid t -> all_bytes (t_full t) = true.
Proof.
  intros (Hf & Ht & Hs & Hb). rewrite Hf. unfold enc_tlv. apply all_bytes_cons. split; [apply Ht|].
  apply all_bytes_app_iff. split; [|exact Hb]. apply enc_len_bytes. unfold small in Hs. pose proof (zlen_nonneg (t_body t)). lia.
Qed.

Lemma read_tlv_ok l t rest :
  all_bytes l = true -> read_tlv l = Ok (t, rest) ->
  l = t_full t ++ rest /\ valid t /\ all_bytes rest = true.
Proof.
  intros Hb H. unfold read_tlv in H.
  destruct (read_hdr l) as [[[tag len] r]| |] eqn:Eh; cbn [bind] in H; try discriminate.
  apply read_hdr_canon in Eh as (Hl & Hlen & Htag); [|exact Hb].
  destruct (zlen r <? len) eqn:El; [discriminate|].
  inversion H; subst t rest; clear H. cbn [t_full t_body t_tag].
  assert (Hr : all_bytes r = true).
  { rewrite Hl in Hb. apply all_bytes_cons in Hb as [_ Hb]. apply all_bytes_app_iff in Hb. tauto. }
  assert (Hfull : ztake (zlen l - zlen r + len) l = tag :: enc_len len ++ ztake len r).
  { rewrite Hl at 2. rewrite Hl at 1. rewrite zlen_cons, zlen_app.
    replace (1 + (zlen (enc_len len) + zlen r) - zlen r + len) with (zlen (tag :: enc_len len) + len)
      by (rewrite zlen_cons; lia).
    change (tag :: enc_len len ++ r) with ((tag :: enc_len len) ++ r).
    rewrite ztake_app_r by lia. replace (zlen (tag :: enc_len len) + len - zlen (tag :: enc_len len)) with len by lia.
    reflexivity. }
  split; [|split].
  - rewrite Hfull. rewrite Hl at 1. cbn [app]. f_equal. rewrite <- app_assoc. f_equal. symmetry. apply ztake_zdrop.
  - unfold valid. cbn [t_full t_body t_tag]. rewrite Hfull. unfold enc_tlv.
    rewrite zlen_ztake by lia. repeat split; try apply Htag.
    + unfold small. rewrite zlen_ztake by lia. lia.
    + apply all_bytes_ztake. exact Hr.
  - apply all_bytes_zdrop. exact Hr.
Qed.

Lemma read_tlv_enc tag body rest :
  tag_ok tag -> small body -> read_tlv (enc_tlv tag body ++ rest) = Ok (mkTlv tag body (enc_tlv tag body), rest).
Proof.
  intros Ht Hs. unfold read_tlv.
  assert (E : read_hdr (enc_tlv tag body ++ rest) = Ok (tag, zlen body, body ++ rest)).
  { unfold enc_tlv. cbn [app]. rewrite <- app_assoc.
    apply read_hdr_enc; [exact Ht|]. unfold small in Hs. pose proof (zlen_nonneg body). lia. }
  rewrite E. cbn [bind]. pose proof (zlen_nonneg rest). pose proof (zlen_nonneg body).
  rewrite !zlen_app.
  replace (zlen body + zlen rest <? zlen body) with false by lia.
  rewrite ztake_app_l by lia. rewrite (ztake_all (zlen body) body) by lia.
  rewrite zdrop_app_r by lia. replace (zlen body - zlen body) with 0 by lia. rewrite zdrop_0.
  replace (zlen (enc_tlv tag body) + zlen rest - (zlen body + zlen rest) + zlen body) with (zlen (enc_tlv tag body)) by lia.
  rewrite ztake_app_l by lia. rewrite ztake_all by lia. reflexivity.
Qed.

Lemma tlv_eta t : t = mkTlv (t_tag t) (t_body t) (t_full t).
Proof. destruct t; reflexivity. Qed.

(* a valid element is read back, whatever follows it *)
Lemma read_tlv_valid t rest : valid t -> read_tlv (t_full t ++ rest) = Ok (t, rest).
Proof.
  intros (Hf & Ht & Hs & Hb). rewrite Hf. rewrite read_tlv_enc by assumption. rewrite <- Hf. rewrite <- tlv_eta. reflexivity.
Qed.
Lemma read_hdr_valid t rest : valid t -> read_hdr (t_full t ++ rest) = Ok (t_tag t, zlen (t_body t), t_body t ++ rest).
Proof.
  intros (Hf & Ht & Hs & Hb). rewrite Hf. unfold enc_tlv. cbn [app]. rewrite <- app_assoc.
  apply read_hdr_enc; [exact Ht|]. unfold small in Hs. pose proof (zlen_nonneg (t_body t)). lia.
Qed.
Lemma valid_enc tag body : tag_ok tag -> small body -> all_bytes body = true -> valid (mkTlv tag body (enc_tlv tag body)).
Proof. intros. unfold valid. cbn. tauto. Qed.
Lemma valid_nonempty t : valid t -> exists b r, t_full t = b :: r.
Proof. intros (Hf & _). rewrite Hf. unfold enc_tlv. eauto. Qed.

(* the header of a raw element is regenerated identically: RawContent structs come out byte for byte *)
Lemma emit_raw_valid t : valid t -> emit_raw (t_tag t) (t_full t) = t_full t.
Proof.
  intros Hv. unfold emit_raw, strip_hdr.
  pose proof (read_hdr_valid t [] Hv) as H. rewrite !app_nil_r in H. rewrite H.
  destruct Hv as (Hf & _). symmetry. exact Hf.
Qed.

(* ------------------------------------------------------------------ sequences of elements *)
Lemma read_all_f_ok fuel : forall l ts,
  all_bytes l = true -> read_all_f fuel l = Ok ts -> l = concat (map t_full ts) /\ Forall valid ts.
Proof.
  induction fuel as [|f IH]; intros l ts Hb H.
  - destruct l; cbn in H; [|discriminate]. inversion H; subst. cbn. auto.
  - destruct l as [|b l']; cbn [read_all_f] in H.
    + inversion H; subst. cbn. auto.
    + destruct (read_tlv (b :: l')) as [[t rest]| |] eqn:Er; cbn [bind] in H; try discriminate.
      apply read_tlv_ok in Er as (Hl & Hv & Hrest); [|exact Hb].
      cbn [fst snd] in H.
      destruct (read_all_f f rest) as [rs| |] eqn:Ea; cbn [bind] in H; try discriminate.
      inversion H; subst ts; clear H.
      apply IH in Ea as (Hr & Hvs); [|exact Hrest].
      split; [|constructor; assumption]. cbn [map concat]. rewrite Hl at 1. f_equal. exact Hr.
Qed.
Lemma read_all_ok l ts :
  all_bytes l = true -> read_all l = Ok ts -> l = concat (map t_full ts) /\ Forall valid ts.
Proof. apply read_all_f_ok. Qed.

Lemma read_all_f_concat ts : Forall valid ts -> forall fuel, (length ts <= fuel)%nat ->
  read_all_f fuel (concat (map t_full ts)) = Ok ts.
Proof.
  induction 1 as [|t ts Hv Hvs IH]; intros fuel Hf.
  - destruct fuel; reflexivity.
  - destruct fuel as [|f]; [cbn in Hf; lia|].
    cbn [map concat]. destruct (valid_nonempty t Hv) as (b & r & Hbr).
    rewrite Hbr. cbn [app read_all_f].
    change (b :: r ++ concat (map t_full ts)) with ((b :: r) ++ concat (map t_full ts)). rewrite <- Hbr.
    rewrite read_tlv_valid by exact Hv. cbn [bind fst snd].
    rewrite IH by (cbn in Hf; lia). reflexivity.
Qed.
Lemma length_concat_ge ts : Forall valid ts -> (length ts <= length (concat (map t_full ts)))%nat.
Proof.
  induction 1 as [|t ts Hv _ IH]; [cbn; lia|].
  cbn [map concat length]. rewrite app_length. destruct (valid_nonempty t Hv) as (b & r & Hbr). rewrite Hbr. cbn [length]. lia.
Qed.
Lemma read_all_concat ts : Forall valid ts -> read_all (concat (map t_full ts)) = Ok ts.
Proof. intros H. apply read_all_f_concat; [exact H|]. apply length_concat_ge. exact H. Qed.

(* ------------------------------------------------------------------ SET OF sorting *)
Lemma bytes_leb_total a : forall b, bytes_leb a b = false -> bytes_leb b a = true.
Proof.
  induction a as [|x a IH]; intros [|y b] H; cbn in *; try discriminate; try reflexivity.
  destruct (x <? y) eqn:E1; [discriminate|]. destruct (y <? x) eqn:E2; [reflexivity|]. apply IH. exact H.
Qed.

Fixpoint sorted_b (l : list bytes) : Prop :=
  match l with
  | x :: ((y :: _) as r) => bytes_leb x y = true /\ sorted_b r
  | _ => True
  end.
Lemma insert_b_sorted x l : sorted_b l -> sorted_b (insert_b x l).
Proof.
  induction l as [|y r IH]; intros H; cbn [insert_b]; [exact I|].
  destruct (bytes_leb x y) eqn:E.
  - cbn [sorted_b]. split; [exact E|exact H].
  - destruct r as [|z r'].
    + cbn. split; [apply bytes_leb_total; exact E|exact I].
    + cbn [sorted_b] in H. destruct H as [Hyz Hr]. specialize (IH Hr). cbn [insert_b] in *.
      destruct (bytes_leb x z) eqn:E2.
      * cbn [sorted_b]. split; [apply bytes_leb_total; exact E|]. exact IH.
      * cbn [sorted_b]. split; [exact Hyz|]. exact IH.
Qed.
Lemma sort_b_sorted l : sorted_b (sort_b l).
Proof. induction l as [|x l IH]; [exact I|]. cbn [sort_b fold_right]. apply insert_b_sorted. exact IH. Qed.
Lemma sort_b_id l : sorted_b l -> sort_b l = l.
Proof.
  induction l as [|x l IH]; intros H; [reflexivity|].
  cbn [sort_b fold_right]. change (fold_right insert_b [] l) with (sort_b l).
  destruct l as [|y r]; [reflexivity|]. cbn [sorted_b] in H. destruct H as [Hxy Hr].
  rewrite IH by exact Hr. cbn [insert_b]. rewrite Hxy. reflexivity.
Qed.
Lemma sort_b_idem l : sort_b (sort_b l) = sort_b l.
Proof. apply sort_b_id. apply sort_b_sorted. Qed.

Lemma map_insert_on {A} (key : A -> bytes) x l : map key (insert_on key x l) = insert_b (key x) (map key l).
Proof.
  induction l as [|y r IH]; [reflexivity|]. cbn [insert_on insert_b map].
  destruct (bytes_leb (key x) (key y)); cbn [map]; [reflexivity|]. rewrite IH. reflexivity.
Qed.
Lemma map_sort_on {A} (key : A -> bytes) l : map key (sort_on key l) = sort_b (map key l).
Proof.
  induction l as [|x l IH]; [reflexivity|]. cbn [sort_on sort_b fold_right map].
  change (fold_right (insert_on key) [] l) with (sort_on key l). rewrite map_insert_on, IH. reflexivity.
Qed.
Lemma Forall_insert_on {A} (P : A -> Prop) (key : A -> bytes) x l : P x -> Forall P l -> Forall P (insert_on key x l).
Proof.
  intros Hx. induction 1 as [|y r Hy Hr IH]; cbn [insert_on]; [auto|].
  destruct (bytes_leb (key x) (key y)); auto.
Qed.
Lemma Forall_sort_on {A} (P : A -> Prop) (key : A -> bytes) l : Forall P l -> Forall P (sort_on key l).
Proof.
  induction 1 as [|x l Hx Hl IH]; [constructor|]. cbn [sort_on fold_right]. apply Forall_insert_on; assumption.
Qed.
Lemma In_insert_on {A} (key : A -> bytes) x y l : In y (insert_on key x l) <-> y = x \/ In y l.
Proof.
  induction l as [|z r IH]; cbn [insert_on In]; [intuition|].
  destruct (bytes_leb (key x) (key z)); cbn [In]; [intuition|]. rewrite IH. intuition.
Qed.
Lemma In_sort_on {A} (key : A -> bytes) y l : In y (sort_on key l) <-> In y l.
Proof.
  induction l as [|x l IH]; [reflexivity|]. cbn [sort_on fold_right]. change (fold_right (insert_on key) [] l) with (sort_on key l).
  rewrite In_insert_on, IH. cbn [In]. intuition.
Qed.
Lemma sort_on_id_key l : sort_on (fun x : bytes => x) l = sort_b l.
Proof. rewrite <- (map_id (sort_on _ l)). rewrite map_sort_on, map_id. reflexivity. Qed.
Lemma In_sort_b y l : In y (sort_b l) <-> In y l.
Proof. rewrite <- sort_on_id_key. apply In_sort_on. Qed.

(* ------------------------------------------------------------------ INTEGER: decode then encode is the identity on what checkInteger accepts *)
Lemma be_dec_snoc l b : be_dec (l ++ [b]) = be_dec l * 256 + b.
Proof. unfold be_dec. rewrite rev_app_distr. cbn [rev app le_dec]. lia. Qed.
Lemma be_dec_range l : all_bytes l = true -> 0 <= be_dec l < 256 ^ zlen l.
Proof.
  intros H. unfold be_dec. pose proof (le_dec_range (rev l)) as R. rewrite all_bytes_rev in R. specialize (R H).
  unfold zlen in *. rewrite rev_length in R. exact R.
Qed.
Lemma dec_int_snoc c b : c <> [] -> dec_int (c ++ [b]) = dec_int c * 256 + b.
Proof.
  destruct c as [|x r]; [congruence|]. intros _. cbn [app dec_int].
  rewrite be_dec_snoc, zlen_app. change (zlen [b]) with 1.
  rewrite Z.pow_add_r by (pose proof (zlen_nonneg r); lia). lia.
Qed.
Lemma sbyte_mod b : 0 <= b < 256 -> sbyte b mod 256 = b.
Proof. intros H. unfold sbyte. destruct (b >=? 128) eqn:E; lia. Qed.
Lemma sbyte_range b : 0 <= b < 256 -> -128 <= sbyte b <= 127.
Proof. intros H. unfold sbyte. destruct (b >=? 128) eqn:E; lia. Qed.

Lemma int_ok_snoc c b : (2 <= length c)%nat -> int_ok (c ++ [b]) = int_ok c.
Proof. destruct c as [|x [|y r]]; cbn [length]; try lia. intros _. reflexivity. Qed.

Lemma enc_dec_int_aux : forall c,
  c <> [] -> all_bytes c = true -> int_ok c = true ->
  ((2 <= length c)%nat -> dec_int c > 127 \/ dec_int c < -128) /\
  (forall fuel, (length c <= S fuel)%nat -> enc_int_f fuel (dec_int c) = c).
Proof.
  intros c. induction c as [|b c' IH] using rev_ind; [congruence|]. intros _ Hb Hok.
  apply all_bytes_app_iff in Hb as [Hc' Hb]. apply all_bytes_cons in Hb as [Hb _].
  destruct c' as [|x r].
  - (* single octet *)
    cbn [app dec_int]. change (zlen (@nil Z)) with 0. change (be_dec []) with 0.
    pose proof (sbyte_range b Hb). pose proof (sbyte_mod b Hb).
    split; [cbn; lia|]. intros fuel _. replace (sbyte b * 256 ^ 0 + 0) with (sbyte b) by lia.
    destruct fuel; cbn [enc_int_f].
    + congruence.
    + replace ((sbyte b >? 127) || (sbyte b <? -128)) with false by lia. congruence.
  - assert (Hne : x :: r <> []) by congruence.
    rewrite dec_int_snoc by exact Hne.
    assert (Hbig : dec_int (x :: r) * 256 + b > 127 \/ dec_int (x :: r) * 256 + b < -128).
    { destruct r as [|y r'].
      - (* two octets: x b *)
        cbn [dec_int]. change (zlen (@nil Z)) with 0. change (be_dec []) with 0.
        apply all_bytes_cons in Hc' as [Hx _]. cbn [app int_ok] in Hok. unfold sbyte.
        destruct (x >=? 128) eqn:Ex; lia.
      - assert (Hok' : int_ok (x :: y :: r') = true) by (rewrite <- Hok; symmetry; apply int_ok_snoc; cbn; lia).
        destruct (IH Hne Hc' Hok') as [Hbig _]. specialize (Hbig ltac:(cbn; lia)). lia. }
    split; [intros _; exact Hbig|].
    intros fuel Hlen. rewrite app_length in Hlen. cbn [length] in Hlen.
    destruct fuel as [|f]; [lia|]. cbn [enc_int_f].
    replace ((dec_int (x :: r) * 256 + b >? 127) || (dec_int (x :: r) * 256 + b <? -128)) with true by lia.
    replace ((dec_int (x :: r) * 256 + b) / 256) with (dec_int (x :: r)) by lia.
    replace ((dec_int (x :: r) * 256 + b) mod 256) with b by lia.
    f_equal.
    assert (Hok' : int_ok (x :: r) = true).
    { destruct r as [|y r']; [reflexivity|]. rewrite <- Hok. symmetry. apply int_ok_snoc. cbn; lia. }
    destruct (IH Hne Hc' Hok') as [_ Henc]. apply Henc. cbn [length] in *. lia.
Qed.
Lemma enc_dec_int c : all_bytes c = true -> int64_ok c = true -> enc_int (dec_int c) = c.
Proof.
  intros Hb H. unfold int64_ok in H. apply andb_true_iff in H as [Hok Hlen].
  assert (c <> []) by (destruct c; [discriminate|congruence]).
  destruct (enc_dec_int_aux c H Hb Hok) as [_ Henc]. apply Henc. unfold zlen in Hlen. lia.
Qed.

(* ------------------------------------------------------------------ BIT STRING *)
Lemma enc_bits_id c : all_bytes c = true -> bits_ok c = true -> enc_bits c = c.
Proof.
  intros Hb H. destruct c as [|p d]; [discriminate|]. apply all_bytes_cons in Hb as [Hp _].
  unfold bits_ok in H. apply andb_true_iff in H as [H H3]. apply andb_true_iff in H as [H1 H2].
  unfold enc_bits. f_equal. pose proof (zlen_nonneg d).
  destruct (zlen d =? 0) eqn:E; cbn [andb negb] in H2; lia.
Qed.
