(* C16/VProofs.v — lemmas about the verification path (C16/VModel.v). *)
From Relic Require Import Base.Prelude Base.Enc Generated.C16_gen C16.Model C16.Tlv C16.Proofs C16.VModel.

(* ================================================================== A. the interpretation of each generated body equals
   its reference function, for ALL primitives, hooks and inputs.  Proof: evaluate the interpreter on the symbolic input
   (vm_compute: it is a decision tree over the primitives' answers), then split every remaining case distinction. *)
Ltac split_match :=
  match goal with
  | |- context [match ?x with _ => _ end] =>
      lazymatch x with
      | context [match _ with _ => _ end] => fail
      | _ => destruct x eqn:?
      end
  | |- context [match ?x with _ => _ end] =>      (* a scrutinee that mentions a list append (a fix) *)
      lazymatch x with
      | match _ with _ => _ end => fail
      | _ => destruct x eqn:?
      end
  end.
Ltac crunch := vm_compute; repeat (first [reflexivity | split_match; cbv beta iota]).

(* the real primitives and the layered hooks, exposed by rewriting (never by conversion on the interpreter) *)
Lemma rp_hash_of C : p_hash_of (real_prims C) = c_hash_of C. Proof. reflexivity. Qed.
Lemma rp_H C : p_H (real_prims C) = c_H C. Proof. reflexivity. Qed.
Lemma rp_pkix C : p_pkix (real_prims C) = c_pkix C. Proof. reflexivity. Qed.
Lemma rp_raw C : p_raw (real_prims C) = c_raw C. Proof. reflexivity. Qed.
Lemma rp_parse_certs C : p_parse_certs (real_prims C) = c_parse_certs C. Proof. reflexivity. Qed.
Lemma rp_tstinfo C : p_tstinfo (real_prims C) = c_tstinfo C. Proof. reflexivity. Qed.
Lemma rp_sitime C : p_sitime (real_prims C) = c_sitime C. Proof. reflexivity. Qed.
Lemma rp_eq C : p_eq (real_prims C) = bytes_eqb. Proof. reflexivity. Qed.
Lemma rp_nattrs C o : p_nattrs (real_prims C) o = zlen (opt_list o). Proof. reflexivity. Qed.
Lemma rp_nsis C l : p_nsis (real_prims C) l = zlen l. Proof. reflexivity. Qed.
Lemma rp_ncerts C l : p_ncerts (real_prims C) l = zlen l. Proof. reflexivity. Qed.
Lemma rp_ntls C l : p_ntls (real_prims C) l = zlen l. Proof. reflexivity. Qed.
Lemma rp_nth_si C : p_nth_si (real_prims C) = nth_z. Proof. reflexivity. Qed.
Lemma rp_nth_tl C : p_nth_tl (real_prims C) = nth_z. Proof. reflexivity. Qed.
Lemma rp_getone C : p_getone (real_prims C) = get_one. Proof. reflexivity. Qed.
Lemma rp_find C : p_find (real_prims C) = find_cert. Proof. reflexivity. Qed.
Lemma rp_unmarshal_seq C : p_unmarshal_seq (real_prims C) = unmarshal_seq. Proof. reflexivity. Qed.
Lemma rp_marshal_rv C : p_marshal_rv (real_prims C) = marshal_rv. Proof. reflexivity. Qed.
Lemma rp_marshal_attrs C : p_marshal_attrs (real_prims C) = marshal_attrs. Proof. reflexivity. Qed.
Lemma rp_ci_unmarshal C c : p_ci_unmarshal (real_prims C) c = ci_unmarshal_raw (ci_raw c). Proof. reflexivity. Qed.
Lemma rp_tl_class C : p_tl_class (real_prims C) = tl_class. Proof. reflexivity. Qed.
Lemma rp_tl_num C : p_tl_num (real_prims C) = tl_num. Proof. reflexivity. Qed.
Lemma hk_empty1 P : k_has_empty (hooks1 P) = run_has_empty P hooks0. Proof. reflexivity. Qed.
Lemma hk_empty2 P : k_has_empty (hooks2 P) = run_has_empty P hooks0. Proof. reflexivity. Qed.
Lemma hk_ci3 P : k_ci_bytes (hooks3 P) = run_ci_bytes P hooks0. Proof. reflexivity. Qed.
Lemma hk_ci4 P : k_ci_bytes (hooks4 P) = run_ci_bytes P hooks0. Proof. reflexivity. Qed.
Lemma hk_attrs1 P : k_attrs_bytes (hooks1 P) = run_attrs_bytes P hooks0. Proof. reflexivity. Qed.
Lemma hk_aab2 P : k_aab (hooks2 P) = run_aab P (hooks1 P). Proof. reflexivity. Qed.
Lemma hk_verify3 P : k_si_verify (hooks3 P) = run_si_verify P (hooks2 P). Proof. reflexivity. Qed.
Lemma hk_imprint4 P : k_imprint (hooks4 P) = run_imprint P (hooks2 P). Proof. reflexivity. Qed.
Lemma hk_finish4 P : k_finish (hooks4 P) = run_finish P (hooks3 P). Proof. reflexivity. Qed.
Lemma has_empty_m_def C s : has_empty_m C s = run_has_empty (real_prims C) hooks0 s. Proof. unfold has_empty_m. reflexivity. Qed.
Lemma ci_bytes_m_def C c : ci_bytes_m C c = run_ci_bytes (real_prims C) hooks0 c. Proof. unfold ci_bytes_m. reflexivity. Qed.
Lemma aab_m_def C s : aab_m C s = run_aab (real_prims C) (hooks1 (real_prims C)) s. Proof. unfold aab_m. reflexivity. Qed.
Lemma si_verify_def C : si_verify C = run_si_verify (real_prims C) (hooks2 (real_prims C)). Proof. unfold si_verify. reflexivity. Qed.
Lemma imprint_verify_def C : imprint_verify C = run_imprint (real_prims C) (hooks2 (real_prims C)). Proof. unfold imprint_verify. reflexivity. Qed.
Lemma ts_finish_def C : ts_finish C = run_finish (real_prims C) (hooks3 (real_prims C)). Proof. unfold ts_finish. reflexivity. Qed.
Ltac expose := rewrite ?rp_hash_of, ?rp_H, ?rp_pkix, ?rp_raw, ?rp_parse_certs, ?rp_tstinfo, ?rp_sitime, ?rp_eq, ?rp_nattrs, ?rp_nsis,
                       ?rp_ncerts, ?rp_ntls, ?rp_nth_si, ?rp_nth_tl, ?rp_getone, ?rp_find, ?rp_unmarshal_seq, ?rp_marshal_rv,
                       ?rp_marshal_attrs, ?rp_ci_unmarshal, ?rp_tl_class, ?rp_tl_num, ?hk_empty1, ?hk_empty2, ?hk_ci3, ?hk_ci4, ?hk_attrs1, ?hk_aab2, ?hk_verify3, ?hk_imprint4, ?hk_finish4.

Ltac expose_in H := rewrite ?rp_hash_of, ?rp_H, ?rp_pkix, ?rp_raw, ?rp_parse_certs, ?rp_tstinfo, ?rp_sitime, ?rp_eq, ?rp_nattrs, ?rp_nsis,
                       ?rp_ncerts, ?rp_ntls, ?rp_nth_si, ?rp_nth_tl, ?rp_getone, ?rp_find, ?rp_unmarshal_seq, ?rp_marshal_rv,
                       ?rp_marshal_attrs, ?rp_ci_unmarshal, ?rp_tl_class, ?rp_tl_num, ?hk_empty1, ?hk_empty2, ?hk_ci3, ?hk_ci4, ?hk_attrs1,
                       ?hk_aab2, ?hk_verify3, ?hk_imprint4, ?hk_finish4 in H.

Definition lift_bytes (r : result bytes) : result bytes :=
  match r with Ok b => Ok b | Err _ => Err EV_NOTSEQ | Panic _ => Panic EV_PANIC end.

Lemma attrs_bytes_eq P K o : run_attrs_bytes P K o = lift_bytes (p_marshal_attrs P o).
Proof. destruct P, K. unfold run_attrs_bytes, lift_bytes. crunch. Qed.

Lemma has_empty_eq P K s : run_has_empty P K s = ref_has_empty P s.
Proof. destruct P, K. unfold run_has_empty, ref_has_empty. crunch. Qed.

Lemma ci_bytes_eq P K c : run_ci_bytes P K c = ref_ci_bytes P c.
Proof. destruct P, K. unfold run_ci_bytes, ref_ci_bytes. crunch. Qed.

Lemma aab_eq P K s : run_aab P K s = ref_aab P K s.
Proof. destruct P, K. unfold run_aab, ref_aab. crunch. Qed.

Lemma si_verify_eq P K s content skip certs :
  run_si_verify P K s (Wby content) skip certs = ref_si_verify P K s content skip certs.
Proof. destruct P, K. unfold run_si_verify, ref_si_verify, ref_finish, sig_decides, sig_err. crunch. Qed.

(* a nil content slice behaves like an empty one (hash.Write(nil) writes nothing) *)
Lemma si_verify_nil_eq P K s skip certs :
  run_si_verify P K s Wnil skip certs = ref_si_verify P K s [] skip certs.
Proof. destruct P, K. unfold run_si_verify, ref_si_verify, ref_finish, sig_decides, sig_err. crunch. Qed.

Lemma imprint_eq P K a hashed data : run_imprint P K a hashed (Wby data) = ref_imprint P a hashed data.
Proof. destruct P, K. unfold run_imprint, ref_imprint. crunch. Qed.

Definition blob_val (o : option bytes) : value := match o with Some b => Wby b | None => Wnil end.
Lemma finish_eq P K s blob certs h t certErr :
  run_finish P K s (blob_val blob) certs h (Wti t) certErr = ref_ts_finish P K s (blob_val blob) certs h (Wti t) certErr.
Proof. destruct P, K, blob; unfold run_finish, ref_ts_finish, ts_time, blob_val; crunch. Qed.
(* the counter-signature variant: the time source is the SignerInfo itself *)
Lemma finish_cs_eq P K s blob certs h s' certErr :
  run_finish P K s (blob_val blob) certs h (Wsi s') certErr = ref_ts_finish P K s (blob_val blob) certs h (Wsi s') certErr.
Proof. destruct P, K, blob; unfold run_finish, ref_ts_finish, ts_time, blob_val; crunch. Qed.

Lemma ts_verify_eq P K tok data certs : run_ts_verify P K tok (Wby data) certs = ref_ts_verify P K tok data certs.
Proof. destruct P, K. unfold run_ts_verify, ref_ts_verify. crunch. Qed.

(* ================================================================== B. the interpreted AuthenticatedAttributesBytes is
   Model.aab (the model the round-trip theorems of Proofs.v are about) *)
Lemma lift_bytes_ok r b : lift_bytes r = Ok b <-> r = Ok b.
Proof. destruct r; cbn; split; intro H; congruence. Qed.

Lemma nth_z_some {A} (l : list A) j d : 0 <= j < zlen l -> nth_z l j = Some (nth (Z.to_nat j) l d).
Proof.
  intros H. unfold nth_z. replace ((0 <=? j) && (j <? zlen l)) with true by lia.
  apply nth_error_nth'. unfold zlen in H. lia.
Qed.

Lemma aab_m_ok C s b : aab_m C s = Ok b <-> aab s = Ok b.
Proof.
  unfold aab_m. rewrite aab_eq. unfold ref_aab, aab.
  destruct (si_raw s) as [|z r] eqn:Hraw.
  - cbn [is_empty]. change (aab_use_fields (negb (zlen (@nil Z) =? 0))) with true. cbv iota.
    expose. rewrite attrs_bytes_eq. expose. unfold marshal_attrs.
    replace (match si_auth s with Some l => l | None => [] end) with (opt_list (si_auth s)) by reflexivity.
    destruct (attrs_bytes (opt_list (si_auth s))); cbn; split; intro H; congruence.
  - cbn [is_empty].
    replace (aab_use_fields (negb (zlen (z :: r) =? 0))) with false
      by (rewrite zlen_cons; pose proof (zlen_nonneg r); replace (1 + zlen r =? 0) with false by lia; reflexivity).
    expose. unfold unmarshal_seq.
    destruct (read_expect T_SEQ (z :: r)) as [[t rest]| |]; cbn [bind fst snd]; [|split; intro H; discriminate ..].
    destruct (read_all (t_body t)) as [seq| |]; cbn [bind]; [|split; intro H; discriminate ..].
    expose. unfold aab_short.
    destruct (zlen seq <? 4) eqn:Hn; cbv iota; [split; intro H; discriminate|].
    rewrite (nth_z_some seq 3 (mkTlv 0 [] [])) by lia.
    change (Z.to_nat aab_index) with (Z.to_nat 3).
    unfold marshal_rv.
    change (octet 0 aab_rv_IsCompound aab_rv_Tag) with (octet 0 true 16).
    destruct (unsorted_set (enc_tlv (octet 0 true 16) (t_body (nth (Z.to_nat 3) seq (mkTlv 0 [] []))))); split; intro H; congruence.
Qed.

(* ------------------------------------------------------------------ the elements of a parsed SignerInfo *)
(* encoding/asn1 does not look at what follows the last field of a struct, so the contents of an ACCEPTED SignerInfo need not
   be a run of complete elements; where they are, the fourth element is the signed attributes field or (field absent) the
   signature algorithm *)
Lemma parse_si_elements t s seq :
  valid t -> parse_si t = Ok s -> read_all (t_body t) = Ok seq ->
  exists t1 t2 t3 t4 more,
    seq = t1 :: t2 :: t3 :: t4 :: more /\
    match si_auth s with
    | Some _ => t_tag t4 = 160
    | None => t_tag t4 = T_SEQ
    end.
Proof.
  intros Hv Hp Hseq. pose proof (valid_body_bytes t Hv) as Hbb.
  apply read_all_ok in Hseq as (Hcat & Hvs); [|exact Hbb].
  unfold parse_si in Hp.
  apply bind_ok in Hp. destruct Hp as ([t1 rest1] & E1 & Hp).
  apply read_expect_ok in E1 as (Hl1 & Hv1 & _ & Hr1); [|exact Hbb].
  cbn [fst snd] in Hp. destruct (int64_ok (t_body t1)); cbn [negb] in Hp; [|discriminate].
  apply bind_ok in Hp. destruct Hp as ([t2 rest2] & E2 & Hp).
  apply read_expect_ok in E2 as (Hl2 & Hv2 & _ & Hr2); [|exact Hr1].
  cbn [fst snd] in Hp.
  apply bind_ok in Hp. destruct Hp as (i1 & Ei1 & Hp).
  apply bind_ok in Hp. destruct Hp as (i2 & Ei2 & Hp).
  destruct (int_ok (t_body (fst i2))); cbn [negb] in Hp; [|discriminate].
  apply bind_ok in Hp. destruct Hp as ([t3 rest3] & E3 & Hp).
  apply read_expect_ok in E3 as (Hl3 & Hv3 & _ & Hr3); [|exact Hr2].
  cbn [fst snd] in Hp.
  apply bind_ok in Hp. destruct Hp as (dalg & Ed & Hp).
  apply bind_ok in Hp. destruct Hp as ([o4 rest4] & E4 & Hp). rewrite auth_opt_v in E4.
  apply read_optional_ok in E4; [|exact Hr3]. cbn [fst snd] in Hp.
  apply bind_ok in Hp. destruct Hp as (auth & Eauth & Hp).
  apply bind_ok in Hp. destruct Hp as ([t5 rest5] & E5 & Hp). cbn [fst snd] in Hp.
  (* the first three elements *)
  subst rest1 rest2. rewrite Hl1 in Hcat.
  destruct (elements_unique _ _ _ Hv1 Hvs Hcat) as (s1 & -> & Hc1). apply Forall_inv_tail in Hvs.
  destruct (elements_unique _ _ _ Hv2 Hvs Hc1) as (s2 & -> & Hc2). apply Forall_inv_tail in Hvs.
  destruct (elements_unique _ _ _ Hv3 Hvs Hc2) as (s3 & -> & Hc3). apply Forall_inv_tail in Hvs.
  destruct o4 as [t4|].
  - destruct E4 as (Hl4 & Hv4 & Ht4 & Hr4). rewrite OCT_auth_v in Ht4. rewrite Hl4 in Hc3.
    destruct (elements_unique _ _ _ Hv4 Hvs Hc3) as (s4 & -> & _).
    exists t1, t2, t3, t4, s4. split; [reflexivity|].
    cbn [opt_attrs] in Eauth. apply bind_ok in Eauth. destruct Eauth as (l & El & Eauth). inversion Eauth; subst auth.
    repeat (let y := fresh "y" in let F := fresh "F" in apply bind_ok in Hp; destruct Hp as (y & F & Hp)).
    inversion Hp; subst s. cbn [si_auth]. exact Ht4.
  - subst rest4. cbn [opt_attrs] in Eauth. inversion Eauth; subst auth.
    apply read_expect_ok in E5 as (Hl5 & Hv5 & Ht5 & _); [|exact Hr3]. rewrite Hl5 in Hc3.
    destruct (elements_unique _ _ _ Hv5 Hvs Hc3) as (s4 & -> & _).
    exists t1, t2, t3, t5, s4. split; [reflexivity|].
    repeat (let y := fresh "y" in let F := fresh "F" in apply bind_ok in Hp; destruct Hp as (y & F & Hp)).
    inversion Hp; subst s. cbn [si_auth]. exact Ht5.
Qed.

Lemma valid_read_expect_seq t : valid t -> t_tag t = T_SEQ -> read_expect T_SEQ (t_full t) = Ok (t, []).
Proof. intros Hv Ht. rewrite <- (app_nil_r (t_full t)). apply read_expect_valid; assumption. Qed.

(* hasEmptyAuthenticatedAttributes on a parsed SignerInfo: when its contents are complete elements, exactly "[0] present, no
   attribute inside"; when they are not (something undecodable behind the last field), "true" unless attributes were read *)
Lemma has_empty_parsed C t s seq :
  valid t -> t_tag t = T_SEQ -> parse_si t = Ok s -> read_all (t_body t) = Ok seq ->
  has_empty_m C s = match si_auth s with Some [] => true | _ => false end.
Proof.
  intros Hv Ht Hp Hseq. unfold has_empty_m. rewrite has_empty_eq. unfold ref_has_empty. expose.
  rewrite (parse_si_raw t s Hp). destruct (valid_nonempty t Hv) as (b & r & Hbr). rewrite Hbr. cbn [is_empty]. rewrite <- Hbr.
  destruct (parse_si_elements t s seq Hv Hp Hseq) as (t1 & t2 & t3 & t4 & more & -> & H4).
  unfold unmarshal_seq. rewrite valid_read_expect_seq by assumption. cbn [bind fst snd]. rewrite Hseq. cbn [bind]. expose.
  replace (zlen (t1 :: t2 :: t3 :: t4 :: more) <? 4) with false by (rewrite !zlen_cons; pose proof (zlen_nonneg more); lia).
  rewrite (nth_z_some _ 3 t1) by (rewrite !zlen_cons; pose proof (zlen_nonneg more); lia).
  change (nth (Z.to_nat 3) (t1 :: t2 :: t3 :: t4 :: more) t1) with t4. unfold tl_class, tl_num.
  destruct (si_auth s) as [[|a l]|].
  - rewrite H4. reflexivity.
  - cbn [opt_list]. replace (zlen (a :: l) =? 0) with false by (rewrite zlen_cons; pose proof (zlen_nonneg l); lia). reflexivity.
  - rewrite H4. reflexivity.
Qed.
Lemma has_empty_incomplete C t s :
  valid t -> t_tag t = T_SEQ -> parse_si t = Ok s -> (forall seq, read_all (t_body t) <> Ok seq) -> opt_list (si_auth s) = [] ->
  has_empty_m C s = true.
Proof.
  intros Hv Ht Hp Hno He. unfold has_empty_m. rewrite has_empty_eq. unfold ref_has_empty. expose.
  rewrite (parse_si_raw t s Hp). destruct (valid_nonempty t Hv) as (b & r & Hbr). rewrite Hbr. cbn [is_empty]. rewrite <- Hbr.
  rewrite He. change (negb (zlen (@nil attr) =? 0)) with false. cbv iota.
  unfold unmarshal_seq. rewrite valid_read_expect_seq by assumption. cbn [bind fst snd].
  destruct (read_all (t_body t)) as [seq| |] eqn:E; cbn [bind]; [exfalso; exact (Hno seq eq_refl)|reflexivity|reflexivity].
Qed.
(* so: an accepting Verify of a SignerInfo without attributes has found complete elements and no [0] field *)
Lemma no_attrs_accept_shape C t s :
  valid t -> t_tag t = T_SEQ -> parse_si t = Ok s -> opt_list (si_auth s) = [] -> has_empty_m C s = false ->
  si_auth s = None /\ exists seq, read_all (t_body t) = Ok seq.
Proof.
  intros Hv Ht Hp He Hf.
  destruct (read_all (t_body t)) as [seq| |] eqn:E.
  - rewrite (has_empty_parsed C t s seq Hv Ht Hp E) in Hf. destruct (si_auth s) as [[|a l]|]; try discriminate; eauto.
  - rewrite (has_empty_incomplete C t s Hv Ht Hp) in Hf; [discriminate| |exact He]. intros seq H. rewrite H in E. discriminate.
  - rewrite (has_empty_incomplete C t s Hv Ht Hp) in Hf; [discriminate| |exact He]. intros seq H. rewrite H in E. discriminate.
Qed.

(* ContentInfo.Bytes: the interpretation of the source is Model.ci_bytes (the function the round-trip harness compares) *)
Lemma ci_bytes_split raw :
  ci_bytes raw = match ci_unmarshal_raw raw with
                 | Ok c => Ok (Some (t_body c))
                 | Err e => if is_syntax_error e then Ok None else Err e
                 | Panic e => Panic e
                 end.
Proof.
  unfold ci_bytes, ci_unmarshal_raw.
  destruct (read_expect T_SEQ raw) as [[t r]| |]; cbn [bind fst snd]; [|reflexivity|reflexivity].
  destruct (read_expect T_OID (t_body t)) as [[ot rest]| |]; cbn [bind fst snd]; [|reflexivity|reflexivity].
  destruct (oid_ok (t_body ot)); cbn [negb]; [|reflexivity].
  destruct (read_tlv rest) as [[v r2]| |]; cbn [bind fst snd]; [|reflexivity|reflexivity].
  destruct (read_tlv (t_body v)) as [[c r3]| |]; cbn [bind fst snd]; reflexivity.
Qed.
Lemma ci_bytes_m_ok C c o : ci_bytes_m C c = Ok o <-> ci_bytes (ci_raw c) = Ok o.
Proof.
  unfold ci_bytes_m. rewrite ci_bytes_eq. unfold ref_ci_bytes. expose. rewrite ci_bytes_split.
  destruct (ci_unmarshal_raw (ci_raw c)) as [t|e|e]; [tauto| |split; intro H; discriminate].
  destruct (is_syntax_error e); [tauto|split; intro H; discriminate].
Qed.

(* ================================================================== C. SignerInfo.Verify *)
Definition signature_accepted (C : crypto) (c : cert) (s : sinfo) (digest : bytes) : Prop :=
  sig_decides (real_prims C) c s digest = SigOk.

(* exactly one digest is ever handed to a signature check: the primary check, and (only when that one answers
   rsa.ErrVerification) the same digest again without the DigestInfo wrapper *)
Lemma signature_accepted_iff C c s d :
  signature_accepted C c s d <->
  c_pkix C (ce_pub c) (si_dalg s) (si_ealg s) d (si_sig s) = SigOk \/
  (c_pkix C (ce_pub c) (si_dalg s) (si_ealg s) d (si_sig s) = SigRsaErr /\ c_raw C (ce_pub c) 0 d (si_sig s) = SigOk).
Proof.
  unfold signature_accepted, sig_decides. expose.
  destruct (c_pkix C (ce_pub c) (si_dalg s) (si_ealg s) d (si_sig s)); split; intro H.
  - left; reflexivity.
  - reflexivity.
  - right; split; [reflexivity|exact H].
  - destruct H as [H|[_ H]]; [discriminate|exact H].
  - discriminate.
  - destruct H as [H|[H _]]; discriminate.
Qed.

Lemma si_verify_unfold C s content skip certs :
  si_verify C s (Wby content) skip certs = ref_si_verify (real_prims C) (hooks2 (real_prims C)) s content skip certs.
Proof. unfold si_verify. rewrite si_verify_eq. reflexivity. Qed.

Lemma sig_err_accept r c c' : sig_err r (VAccept c) = VAccept c' -> r = SigOk /\ c = c'.
Proof. destruct r; cbn; intro H; [inversion H; auto|discriminate|discriminate]. Qed.

Lemma ref_finish_accept C s certs d c :
  ref_finish (real_prims C) s certs d = VAccept c ->
  find_cert certs (si_issuer s) (si_serial s) = Some c /\
  match d with Some dg => signature_accepted C c s dg | None => True end.
Proof.
  unfold ref_finish. expose.
  destruct (find_cert certs (si_issuer s) (si_serial s)) as [c0|]; [|discriminate].
  destruct d as [dg|].
  - intro H. apply sig_err_accept in H as [H ->]. split; [reflexivity|exact H].
  - intro H. inversion H; subst. split; [reflexivity|exact I].
Qed.

(* what an accepting run of SignerInfo.Verify has established *)
Theorem si_verify_accept_inv C s content skip certs c :
  si_verify C s (Wby content) skip certs = VAccept c ->
  exists h, c_hash_of C (si_dalg s) = Some h /\ find_cert certs (si_issuer s) (si_serial s) = Some c /\
    ((opt_list (si_auth s) = [] /\ has_empty_m C s = false /\ (skip = true \/ signature_accepted C c s (c_H C h content))) \/
     (opt_list (si_auth s) <> [] /\
      exists md ab, get_one (opt_list (si_auth s)) OID_message_digest = Ok md /\ (skip = false -> md = c_H C h content) /\
                    aab s = Ok ab /\ signature_accepted C c s (c_H C h ab))).
Proof.
  rewrite si_verify_unfold. unfold ref_si_verify.
  expose. rewrite <- ?aab_m_def.
  destruct (c_hash_of C (si_dalg s)) as [h|]; [|discriminate]. intro H. exists h. split; [reflexivity|].
  destruct (zlen (opt_list (si_auth s)) =? 0) eqn:Hn.
  - rewrite <- ?has_empty_m_def in H. destruct (has_empty_m C s) eqn:He; [discriminate|].
    apply ref_finish_accept in H as [Hf Hs]. split; [exact Hf|]. left. split; [|split; [reflexivity|]].
    + destruct (opt_list (si_auth s)); [reflexivity|]. rewrite zlen_cons in Hn. pose proof (zlen_nonneg l). lia.
    + destruct skip; [left; reflexivity|right; exact Hs].
  - destruct (get_one (opt_list (si_auth s)) OID_message_digest) as [md| |] eqn:Hg; [|discriminate|discriminate].
    destruct (match (if skip then None else Some (c_H C h content)) with Some d => negb (bytes_eqb md d) | None => false end) eqn:Hmd;
      [discriminate|].
    destruct (aab_m C s) as [ab| |] eqn:Hab; [|discriminate|discriminate].
    pose proof (proj1 (aab_m_ok C s ab) Hab) as Hab'. clear Hab. rename Hab' into Hab. apply ref_finish_accept in H as [Hf Hs]. split; [exact Hf|]. right. split.
    + intro E. rewrite E in Hn. discriminate.
    + exists md, ab. split; [reflexivity|]. split; [|split; [exact Hab|exact Hs]].
      intros ->. apply negb_false_iff in Hmd. apply list_eqb_Z_eq in Hmd. exact Hmd.
Qed.

(* ... and conversely: when those facts hold, Verify accepts (so a signature over the as-emitted attributes verifies) *)
Theorem si_verify_accepts C s content skip certs c h md ab :
  c_hash_of C (si_dalg s) = Some h -> opt_list (si_auth s) <> [] ->
  get_one (opt_list (si_auth s)) OID_message_digest = Ok md -> (skip = false -> md = c_H C h content) ->
  aab s = Ok ab -> find_cert certs (si_issuer s) (si_serial s) = Some c -> signature_accepted C c s (c_H C h ab) ->
  si_verify C s (Wby content) skip certs = VAccept c.
Proof.
  intros Hh Hne Hg Hmd Hab Hf Hs. rewrite si_verify_unfold. unfold ref_si_verify.
  expose. rewrite <- ?aab_m_def.
  rewrite Hh. replace (zlen (opt_list (si_auth s)) =? 0) with false
    by (destruct (opt_list (si_auth s)); [congruence|rewrite zlen_cons; pose proof (zlen_nonneg l); lia]).
  rewrite Hg.
  replace (match (if skip then None else Some (c_H C h content)) with Some d => negb (bytes_eqb md d) | None => false end) with false.
  2:{ destruct skip; [reflexivity|]. rewrite Hmd by reflexivity. symmetry. apply negb_false_iff. apply list_eqb_Z_eq. reflexivity. }
  rewrite (proj2 (aab_m_ok C s ab) Hab). unfold ref_finish. expose. rewrite Hf.
  unfold signature_accepted in Hs. rewrite Hs. reflexivity.
Qed.

Lemma spec_preimage_of_signed x p content : spec_signed_attrs_preimage x = Some p -> spec_si_preimage x content = Some (true, p).
Proof.
  unfold spec_signed_attrs_preimage, spec_si_preimage. destruct (one x) as [si|]; [|discriminate].
  destruct (children si) as [[|a [|b [|c [|f r]]]]|]; try discriminate.
  destruct (t_tag f =? 160); [|discriminate]. destruct (t_full f); [discriminate|]. intro H; inversion H; reflexivity.
Qed.

(* C1. PARSED SignerInfo with signed attributes: an accepting Verify has checked the signature against the digest of
       exactly the [0] field as it stands in the input — which is emitted again verbatim — with the first octet replaced by
       0x31, and (unless digests are skipped) the message-digest attribute equals the digest of the content *)
Theorem verify_parsed_digests_emitted C t s a l content skip certs c :
  valid t -> t_tag t = T_SEQ -> parse_si t = Ok s -> si_auth s = Some (a :: l) ->
  si_verify C s (Wby content) skip certs = VAccept c ->
  exists h pre tl post,
    c_hash_of C (si_dalg s) = Some h /\
    emit_si s = t_full t /\ t_body t = pre ++ (160 :: tl) ++ post /\
    spec_si_preimage (emit_si s) content = Some (true, 49 :: tl) /\
    find_cert certs (si_issuer s) (si_serial s) = Some c /\
    signature_accepted C c s (c_H C h (49 :: tl)) /\
    (skip = false -> get_one (a :: l) OID_message_digest = Ok (c_H C h content)).
Proof.
  intros Hv Ht Hp Hauth Hacc. apply si_verify_accept_inv in Hacc as (h & Hh & Hf & [[He _]|[_ (md & ab & Hg & Hmd & Hab & Hs)]]).
  - rewrite Hauth in He. discriminate.
  - destruct (attr_digest_parsed t s (a :: l) ab Hv Ht Hp Hauth Hab) as (pre & tl & post & Hraw & Hemit & Hbody & -> & Hspec).
    exists h, pre, tl, post. split; [exact Hh|]. split; [exact Hemit|]. split; [exact Hbody|].
    split; [rewrite Hemit, <- Hraw; apply spec_preimage_of_signed; exact Hspec|]. split; [exact Hf|]. split; [exact Hs|].
    intros Hsk. rewrite Hauth in Hg. cbn [opt_list] in Hg. rewrite Hg, (Hmd Hsk). reflexivity.
Qed.

(* C2. SignerInfo BUILT by relic (TimestampAndMarshal's self check runs on it): the digest is that of the emitted [0] field
       with first octet 0x31 *)
Theorem verify_built_digests_emitted C s a l content skip certs c :
  si_raw s = [] -> si_auth s = Some (a :: l) ->
  si_verify C s (Wby content) skip certs = VAccept c ->
  exists h tl, c_hash_of C (si_dalg s) = Some h /\ auth_field s = 160 :: tl /\ subslice (auth_field s) (emit_si s) /\
    find_cert certs (si_issuer s) (si_serial s) = Some c /\ signature_accepted C c s (c_H C h (49 :: tl)).
Proof.
  intros Hraw Hauth Hacc. apply si_verify_accept_inv in Hacc as (h & Hh & Hf & [[He _]|[_ (md & ab & Hg & Hmd & Hab & Hs)]]).
  - rewrite Hauth in He. discriminate.
  - destruct (attr_digest_built s (a :: l) Hraw Hauth) as (tl & Hfield & Haab & Hsub).
    rewrite Haab in Hab. inversion Hab; subst ab. exists h, tl. repeat split; assumption.
Qed.

(* C3. no other encoding of the same attributes can make Verify accept: if the signature does not check against the digest
       of the RFC 5652 preimage of the EMITTED bytes, Verify rejects — whatever the signature primitives answer on any other
       digest (the sorted DER SET OF, a re-encoding, another order, the content digest) *)
Theorem other_encodings_cannot_help C t s a l content skip certs h p :
  valid t -> t_tag t = T_SEQ -> parse_si t = Ok s -> si_auth s = Some (a :: l) ->
  spec_si_preimage (t_full t) content = Some (true, p) -> c_hash_of C (si_dalg s) = Some h ->
  (forall c, ~ signature_accepted C c s (c_H C h p)) ->
  forall c, si_verify C s (Wby content) skip certs <> VAccept c.
Proof.
  intros Hv Ht Hp Hauth Hspec Hh Hno c Hacc.
  destruct (verify_parsed_digests_emitted C t s a l content skip certs c Hv Ht Hp Hauth Hacc)
    as (h' & pre & tl & post & Hh' & Hemit & _ & Hspec' & _ & Hs & _).
  rewrite Hemit, Hspec in Hspec'. inversion Hspec'; subst p. rewrite Hh in Hh'. inversion Hh'; subst h'.
  exact (Hno c Hs).
Qed.

(* C4. without signed attributes (field absent, or present but EMPTY) the signature is checked against the content digest *)
Theorem verify_without_attrs C s content certs c :
  opt_list (si_auth s) = [] -> si_verify C s (Wby content) false certs = VAccept c ->
  exists h, c_hash_of C (si_dalg s) = Some h /\ signature_accepted C c s (c_H C h content).
Proof.
  intros He Hacc. apply si_verify_accept_inv in Hacc as (h & Hh & _ & [[_ [_ [Hs|Hs]]]|[Hne _]]).
  - discriminate.
  - eauto.
  - congruence.
Qed.

(* C5. the dichotomy (relic fixes daed528 and b8abb42 included), for EVERY accepted SignerInfo: an accepting Verify with digests
       checked means EITHER there is no [0] field and the signature is over the content digest, OR the field holds at least
       one attribute and the signature is over exactly the emitted field re-tagged.  An empty field is refused. *)
Lemma spec_preimage_absent t seq t1 t2 t3 t4 more content :
  valid t -> read_all (t_body t) = Ok seq -> seq = t1 :: t2 :: t3 :: t4 :: more -> t_tag t4 = T_SEQ ->
  spec_si_preimage (t_full t) content = Some (false, content).
Proof.
  intros Hv Hseq -> Ht4. unfold spec_si_preimage, one, children.
  pose proof (read_all_concat [t] ltac:(constructor; [exact Hv|constructor])) as R. cbn [map concat] in R. rewrite app_nil_r in R.
  rewrite R, Hseq, Ht4. reflexivity.
Qed.
Theorem verify_accept_dichotomy C t s content certs c :
  valid t -> t_tag t = T_SEQ -> parse_si t = Ok s ->
  si_verify C s (Wby content) false certs = VAccept c ->
  exists h, c_hash_of C (si_dalg s) = Some h /\
    ((si_auth s = None /\ spec_si_preimage (emit_si s) content = Some (false, content) /\ signature_accepted C c s (c_H C h content)) \/
     (exists a l tl, si_auth s = Some (a :: l) /\ spec_si_preimage (emit_si s) content = Some (true, 49 :: tl) /\
                     subslice (160 :: tl) (emit_si s) /\ signature_accepted C c s (c_H C h (49 :: tl)))).
Proof.
  intros Hv Ht Hp Hacc.
  destruct (si_auth s) as [[|a l]|] eqn:Hauth.
  - (* empty field: refused *)
    apply si_verify_accept_inv in Hacc as (h & _ & _ & [[He [Hf _]]|[Hne _]]).
    + destruct (no_attrs_accept_shape C t s Hv Ht Hp He Hf) as [Hn _]. rewrite Hauth in Hn. discriminate.
    + rewrite Hauth in Hne. cbn in Hne. congruence.
  - destruct (verify_parsed_digests_emitted C t s a l content false certs c Hv Ht Hp Hauth Hacc)
      as (h & pre & tl & post & Hh & Hemit & Hbody & Hspec & _ & Hs & _).
    exists h. split; [exact Hh|]. right. exists a, l, tl. split; [reflexivity|]. split; [exact Hspec|]. split; [|exact Hs].
    rewrite Hemit. eapply subslice_trans; [|apply subslice_body; exact Hv]. rewrite Hbody. exists pre, post. reflexivity.
  - pose proof Hacc as Hacc'. apply si_verify_accept_inv in Hacc' as (h & Hh & _ & [[He [Hf [Hs|Hs]]]|[Hne _]]).
    + discriminate.
    + exists h. split; [exact Hh|]. left. split; [reflexivity|]. split; [|exact Hs].
      destruct (no_attrs_accept_shape C t s Hv Ht Hp He Hf) as [_ (seq & Hseq)].
      destruct (parse_si_elements t s seq Hv Hp Hseq) as (t1 & t2 & t3 & t4 & more & Hs4 & H4). rewrite Hauth in H4.
      assert (Hwf : wf_si s) by (exists t; tauto). rewrite (emit_si_wf s Hwf), (parse_si_raw t s Hp).
      eapply spec_preimage_absent; eassumption.
    + rewrite Hauth in Hne. cbn in Hne. congruence.
Qed.
(* ... and an empty field is refused outright, whatever follows inside the SignerInfo *)
Theorem verify_empty_attrs_rejected C t s content skip certs :
  valid t -> t_tag t = T_SEQ -> parse_si t = Ok s -> si_auth s = Some [] ->
  forall c, si_verify C s (Wby content) skip certs <> VAccept c.
Proof.
  intros Hv Ht Hp Hauth c Hacc.
  apply si_verify_accept_inv in Hacc as (h & _ & _ & [[He [Hf _]]|[Hne _]]).
  - destruct (no_attrs_accept_shape C t s Hv Ht Hp He Hf) as [Hn _]. rewrite Hauth in Hn. discriminate.
  - rewrite Hauth in Hne. cbn in Hne. congruence.
Qed.

(* C6. regression: the two witnesses that used to refute C5 (A0 00 signed over the content digest; the same plus a truncated
       element 04 05 00 behind the signature value, which encoding/asn1 does not look at) are refused *)
Definition empty_attrs_si0 : bytes :=
  [48; 46; 2; 1; 1; 48; 17; 48; 12; 49; 10; 48; 8; 6; 3; 85; 4; 3; 12; 1; 120; 2; 1; 9; 48; 7; 6; 3; 42; 3; 1; 5; 0;
   160; 0; 48; 7; 6; 3; 42; 3; 2; 5; 0; 4; 2; 190; 239].
Definition empty_attrs_si : bytes :=
  [48; 49; 2; 1; 1; 48; 17; 48; 12; 49; 10; 48; 8; 6; 3; 85; 4; 3; 12; 1; 120; 2; 1; 9; 48; 7; 6; 3; 42; 3; 1; 5; 0;
   160; 0; 48; 7; 6; 3; 42; 3; 2; 5; 0; 4; 2; 190; 239; 4; 5; 0].
Definition witness_crypto (content : bytes) : crypto :=
  mkCrypto (fun _ => Some 1) (fun _ b => 200 :: b)
           (fun _ _ _ d _ => if bytes_eqb d (200 :: content) then SigOk else SigOther) (fun _ _ _ _ => SigOther)
           (fun _ => ([], 0)) (fun _ => Err 1) (fun _ => 0).
Definition dummy_si : sinfo := mkSi [] 0 [] [] (mkAlg [] []) None (mkAlg [] []) [] None.
Definition tlv_of (x : bytes) : tlv := match read_tlv x with Ok (t, _) => t | _ => mkTlv 0 [] [] end.
Definition si_of (x : bytes) : sinfo := match parse_si (tlv_of x) with Ok s => s | _ => dummy_si end.
Definition cert_of (x : bytes) : cert := mkCert (si_issuer (si_of x)) (si_serial (si_of x)) 5.
Definition witness_content : bytes := [1; 2; 3].
Theorem former_witnesses_are_refused :
  parse_si (tlv_of empty_attrs_si0) = Ok (si_of empty_attrs_si0) /\ si_auth (si_of empty_attrs_si0) = Some [] /\
  si_verify (witness_crypto witness_content) (si_of empty_attrs_si0) (Wby witness_content) false [cert_of empty_attrs_si0] = VReject EV_NEW /\
  parse_si (tlv_of empty_attrs_si) = Ok (si_of empty_attrs_si) /\ si_auth (si_of empty_attrs_si) = Some [] /\
  read_all (t_body (tlv_of empty_attrs_si)) = Err E_TRUNC /\
  si_verify (witness_crypto witness_content) (si_of empty_attrs_si) (Wby witness_content) false [cert_of empty_attrs_si] = VReject EV_NEW.
Proof. repeat split; vm_compute; reflexivity. Qed.

(* ================================================================== D. pkcs9: MessageImprint.Verify, finishVerify, Verify *)
Lemma imprint_ok_inv C a hashed data :
  imprint_verify C a hashed (Wby data) = 0 -> exists h, c_hash_of C a = Some h /\ c_H C h data = hashed.
Proof.
  unfold imprint_verify. rewrite imprint_eq. unfold ref_imprint. expose.
  destruct (c_hash_of C a) as [h|]; [|discriminate]. destruct (bytes_eqb (c_H C h data) hashed) eqn:E; [|discriminate].
  intros _. exists h. split; [reflexivity|]. apply list_eqb_Z_eq. exact E.
Qed.

Lemma ts_finish_accept_inv C s blob certs h ti cerr s' c h' t :
  ts_finish C s (blob_val blob) certs h (Wti ti) cerr = TsAccept s' c h' t ->
  s' = s /\ h' = h /\ t = ti_time ti /\ 0 <= ti_time ti /\ si_verify C s (blob_val blob) false certs = VAccept c.
Proof.
  unfold ts_finish. rewrite finish_eq. unfold ref_ts_finish, ts_time. expose. rewrite <- ?si_verify_def.
  destruct (si_verify C s (blob_val blob) false certs) as [c0|e].
  - destruct (ti_time ti <? 0) eqn:Ht; [discriminate|]. intro H; inversion H; subst. repeat split; try reflexivity. lia.
  - destruct ((e =? EV_CERT) && negb (cerr =? 0)); discriminate.
Qed.

Lemma zlen_one {A} (l : list A) x : zlen l = 1 -> nth_z l 0 = Some x -> l = [x].
Proof.
  destruct l as [|y [|z r]]; intros Hl Hn.
  - discriminate.
  - unfold nth_z in Hn. cbn in Hn. congruence.
  - rewrite !zlen_cons in Hl. pose proof (zlen_nonneg r). lia.
Qed.

(* D1. an accepted timestamp token: it has exactly one SignerInfo; the imprint is the digest of the data; and THAT
       SignerInfo's Verify (digests NOT skipped) accepted over the eContent octets of the token *)
Theorem ts_verify_accept_inv C tok data certs s c h t :
  ts_verify C tok (Wby data) certs = TsAccept s c h t ->
  exists sd ti blob certs',
    o_sd tok = Some sd /\ sd_sis sd = [s] /\ c_tstinfo C tok = Ok ti /\
    (exists hi, c_hash_of C (ti_alg ti) = Some hi /\ c_H C hi data = ti_hashed ti) /\
    ci_bytes (ci_raw (sd_ci sd)) = Ok blob /\
    si_verify C s (blob_val blob) false certs' = VAccept c.
Proof.
  unfold ts_verify. rewrite ts_verify_eq. unfold ref_ts_verify. expose. rewrite <- ?imprint_verify_def, <- ?ts_finish_def, <- ?ci_bytes_m_def.
  destruct (o_sd tok) as [sd|] eqn:Hsd.
  2:{ change (negb (zlen (@nil sinfo) =? 1)) with true. cbv iota. discriminate. }
  destruct (zlen (sd_sis sd) =? 1) eqn:Hn; cbn [negb]; [|discriminate].
  destruct (nth_z (sd_sis sd) 0) as [s0|] eqn:Hs0; [|discriminate].
  destruct (c_tstinfo C tok) as [ti| |] eqn:Hti; [|discriminate|discriminate].
  destruct (imprint_verify C (ti_alg ti) (ti_hashed ti) (Wby data) =? 0) eqn:Hi; cbn [negb]; [|discriminate].
  destruct (ci_bytes_m C (sd_ci sd)) as [blob| |] eqn:Hb; [|discriminate|discriminate].
  apply ci_bytes_m_ok in Hb.
  intro H. change (match blob with Some b => Wby b | None => Wnil end) with (blob_val blob) in H.
  apply ts_finish_accept_inv in H as (-> & _ & _ & _ & Hv).
  exists sd, ti, blob. eexists.
  split; [first [reflexivity|eassumption]|]. split; [apply zlen_one; [lia|exact Hs0]|]. split; [first [reflexivity|eassumption]|].
  split; [apply imprint_ok_inv; lia|]. split; [first [reflexivity|eassumption]|exact Hv].
Qed.

(* ================================================================== E. SignedData.Verify: content selection and the loop *)
Lemma sd_loop_sim P K (stepf : sinfo -> step) (reff : sinfo -> vres) :
  (forall s, match stepf s, reff s with
             | StContinue st', VAccept c => run_sd_post P K st' = SdAccept s c
             | StStop r, VReject e => r = SdReject e
             | _, _ => False
             end) ->
  forall l st last,
    match last with
    | Some (s, c) => run_sd_post P K st = SdAccept s c
    | None => run_sd_post P K st = SdReject EV_UNKNOWN
    end ->
    sd_finish P K (sd_loop stepf st l) = ref_sd_loop reff last l.
Proof.
  intros Hstep. induction l as [|s r IH]; intros st last Hlast.
  - cbn [sd_loop sd_finish ref_sd_loop]. destruct last as [[s c]|]; exact Hlast.
  - cbn [sd_loop ref_sd_loop]. specialize (Hstep s).
    destruct (stepf s) as [st'|x], (reff s) as [c|e]; try contradiction.
    + apply (IH st' (Some (s, c))). exact Hstep.
    + cbn [sd_finish]. exact Hstep.
Qed.

(* evaluate one sub-term of the goal (the interpreter on concrete program text) and leave the rest folded *)
Ltac compute_term t := let v := eval vm_compute in t in change t with v.

Ltac norm := cbv beta iota delta [Z.eqb Z.ltb Z.compare negb andb orb fst snd
                                   VModel.p_eq VModel.p_nsis VModel.p_parse_certs VModel.k_ci_bytes VModel.k_si_verify
                                   Model.sd_sis Model.sd_certs Model.sd_ci].
Lemma sd_verify_eq P K sd ext skip : run_sd_verify P K sd (ext_val ext) skip = ref_sd_verify P K sd ext skip.
Proof.
  destruct P, K, sd. unfold run_sd_verify, ref_sd_verify, ref_sd_select.
  compute_term independent_iterations. cbv iota beta. cbn [negb].
  destruct ext as [e|]; cbn [ext_val].
  all: match goal with |- context [run_sd_pre ?P ?K ?sd ?x ?sk] => compute_term (run_sd_pre P K sd x sk) end.
  all: norm.
  all: repeat (first
    [ reflexivity
    | match goal with
      | |- context [range_collection ?P ?K ?st] => compute_term (range_collection P K st); cbv iota beta
      | |- sd_finish ?P ?K (sd_loop ?f ?st ?l) = ref_sd_loop ?g None ?l' =>
          apply (sd_loop_sim P K f g);
          [ let s := fresh "s" in intro s; unfold ref_sd_step;
            match goal with |- context [run_sd_body ?P ?K ?st0 s] => compute_term (run_sd_body P K st0 s) end;
            norm;
            repeat (first [ reflexivity | split_match; cbv beta iota ]);
            match goal with |- run_sd_post ?P ?K ?st' = _ => compute_term (run_sd_post P K st'); reflexivity end
          | match goal with |- run_sd_post ?P ?K ?st' = _ => compute_term (run_sd_post P K st'); reflexivity end ]
      end
    | split_match; cbv beta iota ]).
Qed.

Lemma ref_sd_loop_accept (f : sinfo -> vres) l : forall last s c,
  ref_sd_loop f last l = SdAccept s c ->
  Forall (fun s' => exists c', f s' = VAccept c') l /\ (In s l \/ last = Some (s, c)).
Proof.
  induction l as [|x r IH]; intros last s c H; cbn [ref_sd_loop] in H.
  - destruct last as [[s0 c0]|]; [|discriminate]. inversion H; subst. split; [constructor|right; reflexivity].
  - destruct (f x) as [cx|e] eqn:Ex; [|discriminate]. apply IH in H as [HF Hin]. split.
    + constructor; [eauto|exact HF].
    + left. destruct Hin as [Hin|Hin]; [right; exact Hin|inversion Hin; subst; left; reflexivity].
Qed.

Lemma ref_sd_step_accept K content skip certs cerr s c :
  ref_sd_step K content skip certs cerr s = VAccept c -> k_si_verify K s content skip certs = VAccept c.
Proof.
  unfold ref_sd_step. destruct (k_si_verify K s content skip certs) as [c0|e]; [auto|].
  destruct ((e =? EV_CERT) && negb (cerr =? 0)); discriminate.
Qed.
Lemma sd_verify_def C : sd_verify C = run_sd_verify (real_prims C) (hooks3 (real_prims C)). Proof. unfold sd_verify. reflexivity. Qed.

(* E1. SignedData.Verify with EXTERNAL content supplied and digests checked: when it accepts, the SignedData either carries no
       content or carries exactly the external content, and EVERY SignerInfo was verified against the external content (so by
       C1/C5 its message-digest attribute is the digest of the external content) *)
Theorem sd_verify_external_content C sd ext s c :
  sd_verify C sd (Wby ext) false = SdAccept s c ->
  (ci_bytes (ci_raw (sd_ci sd)) = Ok None \/ ci_bytes (ci_raw (sd_ci sd)) = Ok (Some ext)) /\
  In s (sd_sis sd) /\
  exists certs, Forall (fun s' => exists c', si_verify C s' (Wby ext) false certs = VAccept c') (sd_sis sd).
Proof.
  rewrite sd_verify_def. change (Wby ext) with (ext_val (Some ext)) at 1. rewrite sd_verify_eq.
  unfold ref_sd_verify, ref_sd_select. expose. rewrite <- ?ci_bytes_m_def.
  destruct (ci_bytes_m C (sd_ci sd)) as [[b|]| |] eqn:Hb; try discriminate.
  - destruct (bytes_eqb ext b) eqn:Heq; [|discriminate]. apply list_eqb_Z_eq in Heq. subst b.
    apply ci_bytes_m_ok in Hb.
    destruct (zlen (sd_sis sd) =? 0); [discriminate|]. intro H. apply ref_sd_loop_accept in H as [HF Hin].
    split; [right; exact Hb|]. split; [destruct Hin as [Hin|Hin]; [exact Hin|discriminate]|].
    eexists. eapply Forall_impl; [|exact HF]. intros s' (c' & Hs'). apply ref_sd_step_accept in Hs'.
    rewrite hk_verify3, <- si_verify_def in Hs'. eauto.
  - apply ci_bytes_m_ok in Hb.
    destruct (zlen (sd_sis sd) =? 0); [discriminate|]. intro H. apply ref_sd_loop_accept in H as [HF Hin].
    split; [left; exact Hb|]. split; [destruct Hin as [Hin|Hin]; [exact Hin|discriminate]|].
    eexists. eapply Forall_impl; [|exact HF]. intros s' (c' & Hs'). apply ref_sd_step_accept in Hs'.
    rewrite hk_verify3, <- si_verify_def in Hs'. eauto.
Qed.

(* E2. without external content the embedded content is what every SignerInfo is verified against *)
Theorem sd_verify_embedded_content C sd s c :
  sd_verify C sd Wnil false = SdAccept s c ->
  exists b certs, ci_bytes (ci_raw (sd_ci sd)) = Ok (Some b) /\
    Forall (fun s' => exists c', si_verify C s' (Wby b) false certs = VAccept c') (sd_sis sd).
Proof.
  rewrite sd_verify_def. change Wnil with (ext_val None) at 1. rewrite sd_verify_eq.
  unfold ref_sd_verify, ref_sd_select. expose. rewrite <- ?ci_bytes_m_def.
  destruct (ci_bytes_m C (sd_ci sd)) as [[b|]| |] eqn:Hb; try discriminate.
  apply ci_bytes_m_ok in Hb.
  destruct (zlen (sd_sis sd) =? 0); [discriminate|]. intro H. apply ref_sd_loop_accept in H as [HF _].
  exists b. eexists. split; [exact Hb|]. eapply Forall_impl; [|exact HF]. intros s' (c' & Hs'). apply ref_sd_step_accept in Hs'.
  rewrite hk_verify3, <- si_verify_def in Hs'. eauto.
Qed.

(* ================================================================== F. ContentInfo.Bytes returns exactly the eContent octets *)
(* for EVERY payload and every identifier octet of the inner element: whatever the payload looks like (also when it is
   itself a run of complete OCTET STRING elements), Bytes() of  SEQUENCE { contentType, [0] { tag len payload } }  is payload *)
Lemma valid_mk tag body : tag_ok tag -> small body -> all_bytes body = true -> valid (mkTlv tag body (enc_tlv tag body)).
Proof. intros. split; [reflexivity|]. split; [assumption|]. split; assumption. Qed.
Theorem ci_bytes_is_econtent ctype tag payload :
  oid_ok ctype = true -> all_bytes ctype = true -> tag_ok tag -> all_bytes payload = true ->
  small (enc_tlv T_SEQ (enc_tlv T_OID ctype ++ enc_tlv 160 (enc_tlv tag payload))) ->
  let raw := enc_tlv T_SEQ (enc_tlv T_OID ctype ++ enc_tlv 160 (enc_tlv tag payload)) in
  ci_bytes raw = Ok (Some payload) /\ spec_econtent raw = Some (Some payload).
Proof.
  intros Hoid Hcb Htag Hpb Hsmall. cbv zeta.
  pose proof (small_enc_tlv _ _ Hsmall) as Hs1. apply small_app in Hs1 as [Hs_oid Hs_wrap].
  pose proof (small_enc_tlv _ _ Hs_oid) as Hs_ct. pose proof (small_enc_tlv _ _ Hs_wrap) as Hs_inner.
  pose proof (small_enc_tlv _ _ Hs_inner) as Hs_pl.
  assert (T48 : tag_ok 48) by tagok. assert (T6 : tag_ok 6) by tagok. assert (T160 : tag_ok 160) by tagok.
  split.
  - unfold ci_bytes. rewrite <- (app_nil_r (enc_tlv T_SEQ _)). rewrite read_expect_enc by (try exact T48; apply (small_enc_tlv T_SEQ); exact Hsmall).
    cbn [t_body]. rewrite read_expect_enc by assumption. cbn [t_body]. rewrite Hoid. cbn [negb].
    rewrite <- (app_nil_r (enc_tlv 160 _)). rewrite read_tlv_enc by assumption. cbn [t_body].
    rewrite <- (app_nil_r (enc_tlv tag payload)). rewrite read_tlv_enc by assumption. reflexivity.
  - unfold spec_econtent, one, children.
    assert (V1 : valid (mkTlv T_OID ctype (enc_tlv T_OID ctype))) by (apply valid_mk; assumption).
    assert (V3 : valid (mkTlv tag payload (enc_tlv tag payload))) by (apply valid_mk; assumption).
    assert (V2 : valid (mkTlv 160 (enc_tlv tag payload) (enc_tlv 160 (enc_tlv tag payload)))).
    { apply valid_mk; [exact T160|exact Hs_inner|exact (valid_full_bytes _ V3)]. }
    assert (V0 : valid (mkTlv T_SEQ (enc_tlv T_OID ctype ++ enc_tlv 160 (enc_tlv tag payload)) (enc_tlv T_SEQ (enc_tlv T_OID ctype ++ enc_tlv 160 (enc_tlv tag payload))))).
    { apply valid_mk; [exact T48|apply (small_enc_tlv T_SEQ); exact Hsmall|].
      apply all_bytes_app_iff. split; [exact (valid_full_bytes _ V1)|exact (valid_full_bytes _ V2)]. }
    pose proof (read_all_concat [_] (Forall_cons _ V0 (Forall_nil _))) as R. cbn [map concat t_full] in R. rewrite app_nil_r in R.
    rewrite R. cbn [t_body].
    pose proof (read_all_concat [_; _] (Forall_cons _ V1 (Forall_cons _ V2 (Forall_nil _)))) as R2.
    cbn [map concat t_full] in R2. rewrite app_nil_r in R2. rewrite R2. cbn [t_tag t_body].
    pose proof (read_all_concat [_] (Forall_cons _ V3 (Forall_nil _))) as R3. cbn [map concat t_full] in R3. rewrite app_nil_r in R3.
    rewrite R3. reflexivity.
Qed.
