(* C16/Proofs.v — the SignedData model: what parsing establishes, re-parsing of what is emitted, regions, attribute digest
   preimage, builder attributes, timestamp embedding, agreement with the RFC 5652 walker. *)
From Relic Require Import Base.Prelude Base.Enc Generated.C16_gen C16.Model C16.Tlv.

Local Open Scope Z_scope.

(* ------------------------------------------------------------------ the values srcgen read from lib/pkcs7 (re-checked on every build) *)
Lemma layout_ok_true : layout_ok = true. Proof. vm_compute. reflexivity. Qed.
Lemma OCT_dalgs_v : OCT_dalgs = 49. Proof. reflexivity. Qed.
Lemma OCT_certs_v : OCT_certs = 160. Proof. reflexivity. Qed.
Lemma OCT_crls_v : OCT_crls = 161. Proof. reflexivity. Qed.
Lemma OCT_sis_v : OCT_sis = 49. Proof. reflexivity. Qed.
Lemma OCT_auth_v : OCT_auth = 160. Proof. reflexivity. Qed.
Lemma OCT_unauth_v : OCT_unauth = 161. Proof. reflexivity. Qed.
Lemma OCT_explicit_v : OCT_explicit = 160. Proof. reflexivity. Qed.
Lemma OCT_explicit_prim_v : OCT_explicit_prim = 128. Proof. reflexivity. Qed.
Lemma certs_opt_v : SD_Certificates_opt = true. Proof. reflexivity. Qed.
Lemma crls_opt_v : SD_CRLs_opt = true. Proof. reflexivity. Qed.
Lemma certs_set_v : certs_set = false. Proof. reflexivity. Qed.
Lemma dalgs_set_v : SD_DigestAlgorithmIdentifiers_set = true. Proof. reflexivity. Qed.
Lemma sis_set_v : SD_SignerInfos_set = true. Proof. reflexivity. Qed.
Lemma auth_opt_v : SI_AuthenticatedAttributes_opt = true. Proof. reflexivity. Qed.
Lemma unauth_opt_v : SI_UnauthenticatedAttributes_opt = true. Proof. reflexivity. Qed.
Lemma auth_set_v : SI_AuthenticatedAttributes_set || attrs_set = false. Proof. reflexivity. Qed.
Lemma unauth_set_v : SI_UnauthenticatedAttributes_set || attrs_set = false. Proof. reflexivity. Qed.
Lemma attrs_set_v : attrs_set = false. Proof. reflexivity. Qed.
Lemma si_keeps_raw_v : si_keeps_raw = true. Proof. reflexivity. Qed.
Lemma ci_keeps_raw_v : ci_keeps_raw = true. Proof. reflexivity. Qed.

Lemma tag_ok_const t : (0 <=? t) && (t <? 256) && negb (t mod 32 =? 31) = true -> tag_ok t.
Proof. intros H. unfold tag_ok. lia. Qed.
Ltac tagok := apply tag_ok_const; reflexivity.

(* ------------------------------------------------------------------ plumbing *)
Lemma bind_ok {A B} (r : result A) (k : A -> result B) v :
  (x <- r ;; k x) = Ok v -> exists x, r = Ok x /\ k x = Ok v.
Proof. destruct r; cbn; intros H; try discriminate. eauto. Qed.

Ltac inv_bind H :=
  let x := fresh "x" in let E := fresh "E" in
  apply bind_ok in H; destruct H as (x & E & H).

Lemma read_expect_inv oct l t rest : read_expect oct l = Ok (t, rest) -> read_tlv l = Ok (t, rest) /\ t_tag t = oct.
Proof.
  unfold read_expect. intros H. inv_bind H. destruct x as [t' r']. cbn [fst] in H.
  destruct (t_tag t' =? oct) eqn:Et; [|discriminate]. inversion H; subst. split; [exact E|lia].
Qed.
Lemma read_expect_valid oct t rest : valid t -> t_tag t = oct -> read_expect oct (t_full t ++ rest) = Ok (t, rest).
Proof.
  intros Hv Ht. unfold read_expect. rewrite read_tlv_valid by exact Hv. cbn [bind fst]. rewrite Ht, Z.eqb_refl. reflexivity.
Qed.
Lemma read_expect_enc oct body rest : tag_ok oct -> small body ->
  read_expect oct (enc_tlv oct body ++ rest) = Ok (mkTlv oct body (enc_tlv oct body), rest).
Proof.
  intros Ht Hs. unfold read_expect. rewrite read_tlv_enc by assumption. cbn [bind fst t_tag]. rewrite Z.eqb_refl. reflexivity.
Qed.

(* what one read establishes *)
Lemma read_expect_ok oct l t rest : all_bytes l = true -> read_expect oct l = Ok (t, rest) ->
  l = t_full t ++ rest /\ valid t /\ t_tag t = oct /\ all_bytes rest = true.
Proof.
  intros Hb H. apply read_expect_inv in H as [H Ht]. apply read_tlv_ok in H as (Hl & Hv & Hr); [|exact Hb]. tauto.
Qed.

Lemma valid_body_bytes t : valid t -> all_bytes (t_body t) = true.
Proof. intros (_ & _ & _ & H). exact H. Qed.
Lemma valid_small t : valid t -> small (t_body t).
Proof. intros (_ & _ & H & _). exact H. Qed.

(* optional fields *)
Lemma read_optional_present opt oct t rest : valid t -> t_tag t = oct ->
  read_optional opt oct (t_full t ++ rest) = Ok (Some t, rest).
Proof.
  intros Hv Ht. unfold read_optional.
  destruct (valid_nonempty t Hv) as (b & r & Hbr).
  rewrite Hbr at 1. cbn [app]. rewrite read_hdr_valid by exact Hv. cbn [bind]. rewrite Ht, Z.eqb_refl.
  rewrite read_tlv_valid by exact Hv. reflexivity.
Qed.
Lemma read_optional_absent_nil oct : read_optional true oct [] = Ok (None, []).
Proof. reflexivity. Qed.
Lemma read_optional_absent oct t rest : valid t -> t_tag t <> oct ->
  read_optional true oct (t_full t ++ rest) = Ok (None, t_full t ++ rest).
Proof.
  intros Hv Ht. unfold read_optional.
  destruct (valid_nonempty t Hv) as (b & r & Hbr).
  rewrite Hbr at 1. cbn [app]. rewrite read_hdr_valid by exact Hv. cbn [bind].
  replace (t_tag t =? oct) with false by lia. reflexivity.
Qed.
(* what reading an optional field establishes *)
Lemma read_optional_ok oct l o rest : all_bytes l = true -> read_optional true oct l = Ok (o, rest) ->
  match o with
  | Some t => l = t_full t ++ rest /\ valid t /\ t_tag t = oct /\ all_bytes rest = true
  | None => rest = l
  end.
Proof.
  intros Hb H. unfold read_optional in H. destruct l as [|b l'].
  - inversion H; subst. reflexivity.
  - inv_bind H. destruct x as [[tag len] r]. destruct (tag =? oct) eqn:Et.
    + inv_bind H. inversion H; subst. destruct x as [t rest']. cbn [fst snd].
      apply read_tlv_ok in E0 as (Hl & Hv & Hr); [|exact Hb].
      split; [exact Hl|]. split; [exact Hv|]. split; [|exact Hr].
      (* the tag read by read_hdr is the tag of the element *)
      rewrite Hl in E. rewrite read_hdr_valid in E by exact Hv. inversion E; subst. lia.
    + inversion H; subst. reflexivity.
Qed.

Lemma map_res_inv {A B} (f : A -> result B) l : forall vs, map_res f l = Ok vs -> Forall2 (fun a v => f a = Ok v) l vs.
Proof.
  induction l as [|a l IH]; intros vs H; cbn [map_res] in H.
  - inversion H; subst. constructor.
  - inv_bind H. inv_bind H. inversion H; subst. constructor; [exact E|]. apply IH. exact E0.
Qed.
Lemma map_res_ok {A B} (f : A -> result B) l vs : Forall2 (fun a v => f a = Ok v) l vs -> map_res f l = Ok vs.
Proof. induction 1; cbn [map_res]; [reflexivity|]. rewrite H, IHForall2. reflexivity. Qed.

Lemma parse_list_inv {A} oct (f : tlv -> result A) body vs : all_bytes body = true -> parse_list oct f body = Ok vs ->
  exists ts, body = concat (map t_full ts) /\ Forall valid ts /\ Forall2 (fun t v => t_tag t = oct /\ f t = Ok v) ts vs.
Proof.
  intros Hb H. unfold parse_list in H. inv_bind H. apply read_all_ok in E as (Hl & Hv); [|exact Hb].
  exists x. split; [exact Hl|]. split; [exact Hv|].
  apply map_res_inv in H. clear - H. induction H as [|t v ts vs Hf _ IH]; constructor; auto.
  destruct (t_tag t =? oct) eqn:Et; [|discriminate]. split; [lia|exact Hf].
Qed.
Lemma parse_list_emit {A} oct (f : tlv -> result A) (mk : A -> tlv) vs :
  Forall (fun v => valid (mk v) /\ t_tag (mk v) = oct /\ f (mk v) = Ok v) vs ->
  parse_list oct f (concat (map (fun v => t_full (mk v)) vs)) = Ok vs.
Proof.
  intros H. unfold parse_list.
  replace (map (fun v => t_full (mk v)) vs) with (map t_full (map mk vs)) by (rewrite map_map; reflexivity).
  rewrite read_all_concat.
  - cbn [bind]. apply map_res_ok. clear - H. induction H as [|v vs (Hv & Ht & Hf) _ IH]; cbn [map]; constructor; [|exact IH].
    rewrite Ht, Z.eqb_refl. exact Hf.
  - clear - H. induction H as [|v vs (Hv & _) _ IH]; cbn [map]; constructor; assumption.
Qed.

Lemma small_concat ls : small (concat ls) -> Forall small ls.
Proof.
  induction ls as [|l ls IH]; intros H; [constructor|]. cbn [concat] in H. apply small_app in H as [H1 H2]. constructor; auto.
Qed.
Lemma concat_map_sort_on {A} (key : A -> bytes) l : concat (sort_b (map key l)) = concat (map key (sort_on key l)).
Proof. rewrite map_sort_on. reflexivity. Qed.
Lemma Forall_small_perm_sort ls : Forall small ls -> Forall small (sort_b ls).
Proof. intros H. rewrite <- sort_on_id_key. apply Forall_sort_on. exact H. Qed.
Lemma small_concat_sort ls : small (concat (sort_b ls)) -> Forall small ls.
Proof.
  intros H. apply small_concat in H. rewrite Forall_forall in *. intros x Hx. apply H. apply In_sort_b. exact Hx.
Qed.

(* ------------------------------------------------------------------ AlgorithmIdentifier *)
Definition alg_body (a : algid) : bytes := enc_tlv T_OID (a_oid a) ++ a_params a.
Definition mk_alg (a : algid) : tlv := mkTlv T_SEQ (alg_body a) (emit_algid a).
Definition wf_alg (a : algid) : Prop :=
  oid_ok (a_oid a) = true /\ all_bytes (a_oid a) = true /\ small (a_oid a) /\
  (a_params a = [] \/ exists p, valid p /\ a_params a = t_full p).

Lemma parse_algid_wf body a : all_bytes body = true -> parse_algid body = Ok a -> wf_alg a.
Proof.
  intros Hb H. unfold parse_algid in H. inv_bind H. destruct x as [t rest].
  apply read_expect_ok in E as (Hl & Hv & Ht & Hr); [|exact Hb]. cbn [fst snd] in H.
  destruct (oid_ok (t_body t)) eqn:Eo; cbn [negb] in H; [|discriminate].
  destruct rest as [|b r].
  - inversion H; subst. unfold wf_alg. cbn. repeat split; auto using valid_body_bytes, valid_small.
  - inv_bind H. destruct x as [p rest2]. inversion H; subst. cbn [fst].
    apply read_tlv_ok in E as (Hl2 & Hv2 & _); [|exact Hr].
    unfold wf_alg. cbn. repeat split; auto using valid_body_bytes, valid_small. right. eauto.
Qed.
Lemma alg_body_bytes a : wf_alg a -> all_bytes (alg_body a) = true.
Proof.
  intros (Ho & Hb & Hs & Hp). unfold alg_body. apply all_bytes_app_iff. split.
  - apply (valid_full_bytes (mkTlv T_OID (a_oid a) (enc_tlv T_OID (a_oid a)))). apply valid_enc; [tagok|assumption|assumption].
  - destruct Hp as [->|(p & Hv & ->)]; [reflexivity|]. apply valid_full_bytes. exact Hv.
Qed.
Lemma algid_reparse a : wf_alg a -> small (emit_algid a) ->
  valid (mk_alg a) /\ t_tag (mk_alg a) = T_SEQ /\ parse_algid (t_body (mk_alg a)) = Ok a.
Proof.
  intros Hw Hs. pose proof (alg_body_bytes a Hw) as Hbb. destruct Hw as (Ho & Hb & Hso & Hp).
  unfold emit_algid in Hs. apply small_enc_tlv in Hs. fold (alg_body a) in Hs.
  split; [|split; [reflexivity|]].
  - unfold mk_alg, emit_algid. fold (alg_body a). apply valid_enc; [tagok|assumption|assumption].
  - cbn [mk_alg t_body]. unfold parse_algid, alg_body.
    rewrite read_expect_enc by (try tagok; assumption). cbn [bind fst snd t_body]. rewrite Ho. cbn [negb].
    destruct Hp as [Hp|(p & Hv & Hp)]; rewrite Hp.
    + destruct a; cbn in *; subst; reflexivity.
    + destruct (valid_nonempty p Hv) as (b & r & Hbr). rewrite Hbr. rewrite <- Hbr.
      rewrite <- (app_nil_r (t_full p)) at 1. rewrite read_tlv_valid by exact Hv. cbn [bind fst].
      destruct a; cbn in *; subst; reflexivity.
Qed.

(* ------------------------------------------------------------------ structs that keep their raw encoding: SignerInfo, ContentInfo *)
Definition mk_raw (raw : bytes) : tlv := mkTlv T_SEQ (strip_hdr raw) raw.
Lemma mk_raw_valid t : valid t -> t_tag t = T_SEQ -> mk_raw (t_full t) = t.
Proof.
  intros Hv Ht. unfold mk_raw, strip_hdr.
  pose proof (read_hdr_valid t [] Hv) as H. rewrite !app_nil_r in H. rewrite H. rewrite <- Ht. symmetry. apply tlv_eta.
Qed.

Lemma parse_si_raw t s : parse_si t = Ok s -> si_raw s = t_full t.
Proof.
  unfold parse_si. intros H.
  repeat (let x := fresh "x" in let E := fresh "E" in apply bind_ok in H; destruct H as (x & E & H);
          try match type of H with (if ?c then _ else _) = _ => destruct c; [discriminate|] end).
  inversion H; subst. reflexivity.
Qed.
(* a SignerInfo that came out of the parser *)
Definition wf_si (s : sinfo) : Prop := exists t, valid t /\ t_tag t = T_SEQ /\ parse_si t = Ok s.
Lemma wf_si_mk s : wf_si s -> valid (mk_raw (si_raw s)) /\ t_tag (mk_raw (si_raw s)) = T_SEQ /\ parse_si (mk_raw (si_raw s)) = Ok s.
Proof.
  intros (t & Hv & Ht & Hp). rewrite (parse_si_raw t s Hp). rewrite mk_raw_valid by assumption. tauto.
Qed.
Lemma emit_si_wf s : wf_si s -> emit_si s = si_raw s.
Proof.
  intros (t & Hv & Ht & Hp). unfold emit_si. rewrite (parse_si_raw t s Hp).
  destruct (valid_nonempty t Hv) as (b & r & Hbr). rewrite Hbr. rewrite <- Hbr. rewrite si_keeps_raw_v.
  rewrite <- Ht. apply emit_raw_valid. exact Hv.
Qed.

Definition wf_ci (c : cinfo) : Prop := exists t, valid t /\ t_tag t = T_SEQ /\ parse_ci t = Ok c.
Lemma parse_ci_raw t c : parse_ci t = Ok c -> ci_raw c = t_full t.
Proof.
  unfold parse_ci. intros H. inv_bind H. destruct (oid_ok (t_body (fst x))); [|discriminate]. inversion H; subst. reflexivity.
Qed.
Lemma emit_ci_wf c : wf_ci c -> emit_ci c = ci_raw c.
Proof.
  intros (t & Hv & Ht & Hp). unfold emit_ci. rewrite (parse_ci_raw t c Hp).
  destruct (valid_nonempty t Hv) as (b & r & Hbr). rewrite Hbr. rewrite <- Hbr. rewrite ci_keeps_raw_v.
  rewrite <- Ht. apply emit_raw_valid. exact Hv.
Qed.
Lemma wf_ci_mk c : wf_ci c -> valid (mk_raw (ci_raw c)) /\ t_tag (mk_raw (ci_raw c)) = T_SEQ /\ parse_ci (mk_raw (ci_raw c)) = Ok c.
Proof.
  intros (t & Hv & Ht & Hp). rewrite (parse_ci_raw t c Hp). rewrite mk_raw_valid by assumption. tauto.
Qed.

(* ------------------------------------------------------------------ CertificateList (region level) *)
Definition crl_body (c : crl) : bytes :=
  emit_raw T_SEQ (c_tbs c) ++ emit_algid (c_alg c) ++ enc_tlv T_BITS (enc_bits (c_sig c)).
Definition mk_crl (c : crl) : tlv := mkTlv T_SEQ (crl_body c) (emit_crl c).
Definition wf_crl (c : crl) : Prop :=
  (exists t, valid t /\ t_tag t = T_SEQ /\ c_tbs c = t_full t) /\ wf_alg (c_alg c) /\
  bits_ok (c_sig c) = true /\ all_bytes (c_sig c) = true /\ small (c_sig c).

Lemma parse_crl_wf t c : valid t -> parse_crl t = Ok c -> wf_crl c.
Proof.
  intros Hv H. unfold parse_crl in H.
  inv_bind H. destruct x as [t1 rest1]. apply read_expect_ok in E as (Hl1 & Hv1 & Ht1 & Hr1); [|apply valid_body_bytes; exact Hv].
  inv_bind H. destruct x as [t2 rest2]. cbn [snd] in E. apply read_expect_ok in E as (Hl2 & Hv2 & Ht2 & Hr2); [|exact Hr1].
  inv_bind H. cbn [fst] in E. apply parse_algid_wf in E; [|apply valid_body_bytes; exact Hv2].
  inv_bind H. destruct x0 as [t3 rest3]. cbn [snd] in E0. apply read_expect_ok in E0 as (Hl3 & Hv3 & Ht3 & Hr3); [|exact Hr2].
  cbn [fst] in H. destruct (bits_ok (t_body t3)) eqn:Eb; cbn [negb] in H; [|discriminate].
  inversion H; subst. unfold wf_crl. cbn [c_tbs c_alg c_sig]. split; [eauto|]. split; [exact E|].
  repeat split; auto using valid_body_bytes, valid_small.
Qed.
Lemma crl_reparse c : wf_crl c -> small (emit_crl c) ->
  valid (mk_crl c) /\ t_tag (mk_crl c) = T_SEQ /\ parse_crl (mk_crl c) = Ok c.
Proof.
  intros ((t & Hv & Ht & Htbs) & Ha & Hb & Hbb & Hbs) Hs.
  unfold emit_crl in Hs. apply small_enc_tlv in Hs. fold (crl_body c) in Hs.
  pose proof Hs as Hs'. unfold crl_body in Hs'. apply small_app in Hs' as [_ Hs']. apply small_app in Hs' as [Hsa _].
  destruct (algid_reparse _ Ha Hsa) as (Hva & _ & Hpa).
  assert (Eraw : emit_raw T_SEQ (c_tbs c) = t_full t) by (rewrite Htbs, <- Ht; apply emit_raw_valid; exact Hv).
  assert (Hvb : valid (mkTlv T_BITS (c_sig c) (enc_tlv T_BITS (c_sig c)))) by (apply valid_enc; [tagok|assumption|assumption]).
  assert (Hbytes : all_bytes (crl_body c) = true).
  { unfold crl_body. rewrite Eraw, (enc_bits_id _ Hbb Hb). apply all_bytes_app_iff. split; [apply valid_full_bytes; exact Hv|].
    apply all_bytes_app_iff. split; [apply (valid_full_bytes _ Hva)|apply (valid_full_bytes _ Hvb)]. }
  split; [|split; [reflexivity|]].
  - unfold mk_crl, emit_crl. fold (crl_body c). apply valid_enc; [tagok|assumption|assumption].
  - unfold parse_crl. cbn [mk_crl t_body]. unfold crl_body. rewrite Eraw.
    rewrite read_expect_valid by assumption. cbn [bind fst snd].
    change (emit_algid (c_alg c)) with (t_full (mk_alg (c_alg c))).
    rewrite read_expect_valid by (try exact Hva; reflexivity). cbn [bind fst snd]. rewrite Hpa. cbn [bind].
    rewrite (enc_bits_id _ Hbb Hb).
    rewrite <- (app_nil_r (enc_tlv T_BITS (c_sig c))). rewrite read_expect_enc by (try tagok; assumption).
    cbn [bind fst snd t_body t_full]. rewrite Hb. cbn [negb]. rewrite <- Htbs. destruct c; reflexivity.
Qed.

(* ------------------------------------------------------------------ certificates: raw values kept whole *)
Definition wf_raws (l : list bytes) : Prop := Forall (fun b => exists t, valid t /\ b = t_full t) l.
Lemma wf_raws_map ts : Forall valid ts -> wf_raws (map t_full ts).
Proof. induction 1; cbn; constructor; eauto. Qed.
Lemma wf_raws_read l : wf_raws l -> exists ts, Forall valid ts /\ l = map t_full ts.
Proof.
  induction 1 as [|b l (t & Hv & ->) _ (ts & Hvs & ->)]; [exists []; split; [constructor|reflexivity]|].
  exists (t :: ts). split; [constructor; assumption|reflexivity].
Qed.

(* ------------------------------------------------------------------ SignedData *)
Definition wf_sd (sd : sdata) : Prop :=
  (exists c, all_bytes c = true /\ int64_ok c = true /\ small c /\ sd_version sd = dec_int c) /\
  Forall wf_alg (sd_dalgs sd) /\ wf_ci (sd_ci sd) /\
  wf_raws (opt_list (sd_certs sd)) /\ Forall wf_crl (opt_list (sd_crls sd)) /\ Forall wf_si (sd_sis sd).

(* what re-parsing the emitted structure yields: the SET OF fields come back in emitted (sorted) order *)
Definition norm_sd (sd : sdata) : sdata :=
  mkSd (sd_version sd) (sort_on emit_algid (sd_dalgs sd)) (sd_ci sd) (sd_certs sd) (sd_crls sd) (sort_on emit_si (sd_sis sd)).

Lemma Forall2_valid_r {A} (R : tlv -> A -> Prop) (P : A -> Prop) ts vs :
  Forall valid ts -> Forall2 R ts vs -> (forall t v, valid t -> R t v -> P v) -> Forall P vs.
Proof.
  intros Hv H2 HP. induction H2; inversion Hv; subst; constructor; eauto.
Qed.

Lemma parse_sd_body_wf body sd : all_bytes body = true -> parse_sd_body body = Ok sd -> wf_sd sd.
Proof.
  intros Hb H. unfold parse_sd_body in H.
  inv_bind H. destruct x as [t1 rest1]. apply read_expect_ok in E as (Hl1 & Hv1 & Ht1 & Hr1); [|exact Hb].
  cbn [fst snd] in H. destruct (int64_ok (t_body t1)) eqn:Ei; cbn [negb] in H; [|discriminate].
  inv_bind H. destruct x as [t2 rest2]. apply read_expect_ok in E as (Hl2 & Hv2 & Ht2 & Hr2); [|exact Hr1].
  inv_bind H. cbn [fst] in E. apply parse_list_inv in E as (ts2 & Hb2 & Hvs2 & Hf2); [|apply valid_body_bytes; exact Hv2].
  inv_bind H. destruct x0 as [t3 rest3]. cbn [snd] in E. apply read_expect_ok in E as (Hl3 & Hv3 & Ht3 & Hr3); [|exact Hr2].
  inv_bind H. cbn [fst] in E.
  inv_bind H. destruct x1 as [o4 rest4]. cbn [snd] in E0. rewrite certs_opt_v in E0.
  apply read_optional_ok in E0; [|exact Hr3].
  inv_bind H. cbn [fst] in E1.
  inv_bind H. destruct x2 as [o5 rest5]. cbn [snd] in E2. rewrite crls_opt_v in E2.
  assert (Hr4 : all_bytes rest4 = true) by (destruct o4; [tauto|subst; exact Hr3]).
  apply read_optional_ok in E2; [|exact Hr4].
  inv_bind H. cbn [fst] in E3.
  assert (Hr5 : all_bytes rest5 = true) by (destruct o5; [tauto|subst; exact Hr4]).
  inv_bind H. destruct x3 as [t6 rest6]. cbn [snd] in E4. apply read_expect_ok in E4 as (Hl6 & Hv6 & Ht6 & Hr6); [|exact Hr5].
  inv_bind H. cbn [fst] in E4. apply parse_list_inv in E4 as (ts6 & Hb6 & Hvs6 & Hf6); [|apply valid_body_bytes; exact Hv6].
  inversion H; subst sd; clear H. unfold wf_sd. cbn [sd_version sd_dalgs sd_ci sd_certs sd_crls sd_sis].
  split; [|split; [|split; [|split; [|split]]]].
  - exists (t_body t1). auto using valid_body_bytes, valid_small.
  - eapply Forall2_valid_r; [exact Hvs2|exact Hf2|]. intros t v Hv [_ Hp]. eapply parse_algid_wf; [|exact Hp]. apply valid_body_bytes; exact Hv.
  - exists t3. tauto.
  - destruct o4 as [t4|]; cbn [opt_certs] in E1.
    + destruct E0 as (_ & Hv4 & _). inv_bind E1. inversion E1; subst. cbn [opt_list].
      apply read_all_ok in E0 as (_ & Hvs); [|apply valid_body_bytes; exact Hv4]. apply wf_raws_map. exact Hvs.
    + inversion E1; subst. constructor.
  - destruct o5 as [t5|]; cbn [opt_crls] in E3.
    + destruct E2 as (_ & Hv5 & _). inv_bind E3. inversion E3; subst. cbn [opt_list].
      apply parse_list_inv in E2 as (ts5 & _ & Hvs5 & Hf5); [|apply valid_body_bytes; exact Hv5].
      eapply Forall2_valid_r; [exact Hvs5|exact Hf5|]. intros t v Hv [_ Hp]. eapply parse_crl_wf; eassumption.
    + inversion E3; subst. constructor.
  - eapply Forall2_valid_r; [exact Hvs6|exact Hf6|]. intros t v Hv [Htag Hp]. exists t. tauto.
Qed.

Definition starts_not (oct : Z) (rest : bytes) : Prop :=
  rest = [] \/ exists t r, valid t /\ t_tag t <> oct /\ rest = t_full t ++ r.
Lemma read_optional_skip oct rest : starts_not oct rest -> read_optional true oct rest = Ok (None, rest).
Proof. intros [->|(t & r & Hv & Ht & ->)]; [reflexivity|]. apply read_optional_absent; assumption. Qed.

Lemma certs_step certs rest :
  wf_raws (opt_list certs) -> small (emit_opt_list OCT_certs certs) -> starts_not OCT_certs rest ->
  exists r4, read_optional true OCT_certs (emit_opt_list OCT_certs certs ++ rest) = Ok (r4, rest) /\ opt_certs r4 = Ok certs.
Proof.
  intros Hw Hs Hn. destruct certs as [l|]; cbn [emit_opt_list opt_list] in *.
  - apply wf_raws_read in Hw as (ts & Hvs & ->). apply small_enc_tlv in Hs.
    set (body := concat (map t_full ts)) in *.
    assert (Hb : all_bytes body = true).
    { apply all_bytes_concat. clear - Hvs. induction Hvs; cbn; constructor; auto using valid_full_bytes. }
    assert (Hv : valid (mkTlv OCT_certs body (enc_tlv OCT_certs body))) by (apply valid_enc; [tagok|assumption|assumption]).
    exists (Some (mkTlv OCT_certs body (enc_tlv OCT_certs body))). split.
    + change (enc_tlv OCT_certs body) with (t_full (mkTlv OCT_certs body (enc_tlv OCT_certs body))) at 1.
      apply read_optional_present; [exact Hv|reflexivity].
    + cbn [opt_certs t_body]. subst body. rewrite read_all_concat by exact Hvs. reflexivity.
  - exists None. split; [|reflexivity]. cbn [app]. apply read_optional_skip. exact Hn.
Qed.

Lemma crls_step crls rest :
  Forall wf_crl (opt_list crls) -> small (emit_opt_list OCT_crls (option_map (map emit_crl) crls)) -> starts_not OCT_crls rest ->
  exists r5, read_optional true OCT_crls (emit_opt_list OCT_crls (option_map (map emit_crl) crls) ++ rest) = Ok (r5, rest) /\ opt_crls r5 = Ok crls.
Proof.
  intros Hw Hs Hn. destruct crls as [l|]; cbn [emit_opt_list opt_list option_map] in *.
  - apply small_enc_tlv in Hs. set (body := concat (map emit_crl l)) in *.
    assert (Hall : Forall (fun c => valid (mk_crl c) /\ t_tag (mk_crl c) = T_SEQ /\ parse_crl (mk_crl c) = Ok c) l).
    { apply small_concat in Hs. rewrite Forall_forall in *. intros c Hc. apply crl_reparse; [apply Hw; exact Hc|].
      apply Hs. apply in_map. exact Hc. }
    assert (Hb : all_bytes body = true).
    { apply all_bytes_concat. rewrite Forall_forall in *. intros b Hin. apply in_map_iff in Hin as (c & <- & Hc).
      apply (valid_full_bytes (mk_crl c)). apply Hall. exact Hc. }
    assert (Hv : valid (mkTlv OCT_crls body (enc_tlv OCT_crls body))) by (apply valid_enc; [tagok|assumption|assumption]).
    exists (Some (mkTlv OCT_crls body (enc_tlv OCT_crls body))). split.
    + change (enc_tlv OCT_crls body) with (t_full (mkTlv OCT_crls body (enc_tlv OCT_crls body))) at 1.
      apply read_optional_present; [exact Hv|reflexivity].
    + cbn [opt_crls t_body]. subst body.
      change (map emit_crl l) with (map (fun c => t_full (mk_crl c)) l).
      rewrite parse_list_emit by exact Hall. reflexivity.
  - exists None. split; [|reflexivity]. cbn [app]. apply read_optional_skip. exact Hn.
Qed.

Lemma map_ext_Forall {A B} (f g : A -> B) l : Forall (fun x => f x = g x) l -> map f l = map g l.
Proof. induction 1; cbn; congruence. Qed.

Lemma sd_reparse sd : wf_sd sd -> small (emit_sd_body sd) -> parse_sd_body (emit_sd_body sd) = Ok (norm_sd sd).
Proof.
  intros ((c & Hcb & Hci & Hcs & Hver) & Hda & Hci' & Hce & Hcr & Hsi) Hs.
  assert (Ecert : option_map (maybe_sort certs_set) (sd_certs sd) = sd_certs sd) by (rewrite certs_set_v; destruct (sd_certs sd); reflexivity).
  unfold emit_sd_body in Hs |- *. rewrite Ecert in Hs |- *. clear Ecert.
  rewrite dalgs_set_v, sis_set_v in Hs |- *. cbn [maybe_sort] in Hs |- *.
  rewrite Hver, (enc_dec_int c Hcb Hci) in Hs |- *.
  apply small_app in Hs as [_ Hs]. apply small_app in Hs as [Hs2 Hs]. apply small_app in Hs as [_ Hs].
  apply small_app in Hs as [Hs4 Hs]. apply small_app in Hs as [Hs5 Hs6].
  apply small_enc_tlv in Hs2. apply small_enc_tlv in Hs6.
  (* the two SET OF bodies *)
  set (dalgs' := sort_on emit_algid (sd_dalgs sd)).
  set (sis' := sort_on emit_si (sd_sis sd)).
  assert (Hd : Forall (fun a => valid (mk_alg a) /\ t_tag (mk_alg a) = T_SEQ /\ parse_algid (t_body (mk_alg a)) = Ok a) dalgs').
  { apply Forall_sort_on. apply small_concat_sort in Hs2. rewrite Forall_forall in *. intros a Ha.
    apply algid_reparse; [apply Hda; exact Ha|]. apply Hs2. apply in_map. exact Ha. }
  assert (Hsw : Forall wf_si sis') by (apply Forall_sort_on; exact Hsi).
  assert (Hsm : Forall (fun s => valid (mk_raw (si_raw s)) /\ t_tag (mk_raw (si_raw s)) = T_SEQ /\ parse_si (mk_raw (si_raw s)) = Ok s) sis').
  { rewrite Forall_forall in *. intros s Hin. apply wf_si_mk. apply Hsw. exact Hin. }
  assert (Ed : concat (sort_b (map emit_algid (sd_dalgs sd))) = concat (map (fun a => t_full (mk_alg a)) dalgs'))
    by (rewrite concat_map_sort_on; reflexivity).
  assert (Es : concat (sort_b (map emit_si (sd_sis sd))) = concat (map (fun s => t_full (mk_raw (si_raw s))) sis')).
  { rewrite concat_map_sort_on. fold sis'. f_equal. apply map_ext_Forall.
    rewrite Forall_forall in *. intros s Hin. cbn [mk_raw t_full]. apply emit_si_wf. apply Hsw. exact Hin. }
  rewrite Ed in Hs2. rewrite Es in Hs6. rewrite Ed, Es.
  set (dbody := concat (map (fun a => t_full (mk_alg a)) dalgs')) in *.
  set (sbody := concat (map (fun s => t_full (mk_raw (si_raw s))) sis')) in *.
  assert (Hdb : all_bytes dbody = true).
  { apply all_bytes_concat. rewrite Forall_forall in *. intros b Hin. apply in_map_iff in Hin as (a & <- & Ha).
    apply valid_full_bytes. apply Hd. exact Ha. }
  assert (Hsb : all_bytes sbody = true).
  { apply all_bytes_concat. rewrite Forall_forall in *. intros b Hin. apply in_map_iff in Hin as (s & <- & Hin).
    apply valid_full_bytes. apply Hsm. exact Hin. }
  assert (Hv6 : valid (mkTlv OCT_sis sbody (enc_tlv OCT_sis sbody))) by (apply valid_enc; [tagok|assumption|assumption]).
  (* what follows the optional fields *)
  assert (Hn5 : starts_not OCT_crls (enc_tlv OCT_sis sbody)).
  { right. exists (mkTlv OCT_sis sbody (enc_tlv OCT_sis sbody)), []. split; [exact Hv6|]. split; [cbn [t_tag]; rewrite OCT_sis_v, OCT_crls_v; lia|].
    cbn [t_full]. rewrite app_nil_r. reflexivity. }
  destruct (crls_step (sd_crls sd) (enc_tlv OCT_sis sbody) Hcr Hs5 Hn5) as (r5 & Hr5 & Ho5).
  assert (Hn4 : starts_not OCT_certs (emit_opt_list OCT_crls (option_map (map emit_crl) (sd_crls sd)) ++ enc_tlv OCT_sis sbody)).
  { destruct (sd_crls sd) as [l|]; cbn [option_map emit_opt_list] in *.
    - right. set (b := concat (map emit_crl l)) in *.
      assert (Hv5 : valid (mkTlv OCT_crls b (enc_tlv OCT_crls b))).
      { apply valid_enc; [tagok|apply small_enc_tlv in Hs5; exact Hs5|].
        apply all_bytes_concat. rewrite Forall_forall in *. intros x Hin. apply in_map_iff in Hin as (c0 & <- & Hc0).
        apply small_enc_tlv in Hs5. apply small_concat in Hs5. rewrite Forall_forall in Hs5.
        apply (valid_full_bytes (mk_crl c0)). apply crl_reparse; [apply Hcr; exact Hc0|]. apply Hs5. apply in_map. exact Hc0. }
      exists (mkTlv OCT_crls b (enc_tlv OCT_crls b)), (enc_tlv OCT_sis sbody). split; [exact Hv5|]. split; [cbn [t_tag]; rewrite OCT_crls_v, OCT_certs_v; lia|reflexivity].
    - right. exists (mkTlv OCT_sis sbody (enc_tlv OCT_sis sbody)), []. split; [exact Hv6|]. split; [cbn [t_tag]; rewrite OCT_sis_v, OCT_certs_v; lia|].
      cbn [t_full app]. rewrite app_nil_r. reflexivity. }
  destruct (certs_step (sd_certs sd) _ Hce Hs4 Hn4) as (r4 & Hr4 & Ho4).
  (* now read the emitted bytes field by field *)
  unfold parse_sd_body.
  rewrite read_expect_enc by (try tagok; exact Hcs). cbn [bind fst snd t_body]. rewrite Hci. cbn [negb].
  rewrite read_expect_enc by (try tagok; exact Hs2). cbn [bind fst snd t_body].
  subst dbody. rewrite parse_list_emit by exact Hd. cbn [bind].
  rewrite (emit_ci_wf _ Hci'). destruct (wf_ci_mk _ Hci') as (Hv3 & Ht3 & Hp3).
  change (ci_raw (sd_ci sd)) with (t_full (mk_raw (ci_raw (sd_ci sd)))) at 1.
  rewrite read_expect_valid by assumption. cbn [bind fst snd]. rewrite Hp3. cbn [bind].
  rewrite certs_opt_v, Hr4. cbn [bind fst snd]. rewrite Ho4. cbn [bind].
  rewrite crls_opt_v, Hr5. cbn [bind fst snd]. rewrite Ho5. cbn [bind].
  rewrite <- (app_nil_r (enc_tlv OCT_sis sbody)).
  rewrite read_expect_enc by (try tagok; exact Hs6). cbn [bind fst snd t_body].
  subst sbody. rewrite parse_list_emit by exact Hsm. cbn [bind].
  unfold norm_sd. rewrite Hver. reflexivity.
Qed.

(* ------------------------------------------------------------------ ContentInfoSignedData: Unmarshal, Marshal, Unmarshal *)
Definition wf_cms (o : cms) : Prop :=
  oid_ok (o_ctype o) = true /\ all_bytes (o_ctype o) = true /\ small (o_ctype o) /\
  match o_sd o with Some sd => wf_sd sd | None => True end.
Definition norm_cms (o : cms) : cms := mkCms (o_ctype o) (option_map norm_sd (o_sd o)).

Lemma parse_cms_body_wf body o : all_bytes body = true -> parse_cms_body body = Ok o -> wf_cms o.
Proof.
  intros Hb H. unfold parse_cms_body in H.
  inv_bind H. destruct x as [t1 rest1]. apply read_expect_ok in E as (Hl1 & Hv1 & Ht1 & Hr1); [|exact Hb].
  cbn [fst snd] in H. destruct (oid_ok (t_body t1)) eqn:Eo; cbn [negb] in H; [|discriminate].
  assert (Hbase : forall sd, match sd with Some s => wf_sd s | None => True end -> wf_cms (mkCms (t_body t1) sd)).
  { intros sd Hsd. unfold wf_cms. cbn. auto using valid_body_bytes, valid_small. }
  destruct rest1 as [|b r1]; [inversion H; subst; apply Hbase; exact I|].
  inv_bind H. destruct x as [[tag len] r].
  assert (Hr : all_bytes r = true).
  { apply read_hdr_canon in E as (Hl & _); [|exact Hr1]. rewrite Hl in Hr1. apply all_bytes_cons in Hr1 as [_ Hr1].
    apply all_bytes_app_iff in Hr1. tauto. }
  destruct r as [|b2 r2]; [discriminate|].
  destruct ((tag =? OCT_explicit) || (tag =? OCT_explicit_prim) && (len =? 0)); [|inversion H; subst; apply Hbase; exact I].
  destruct (len >? 0); [|discriminate].
  inv_bind H. destruct x as [[tag2 len2] r3]. destruct (tag2 =? T_SEQ); [|inversion H; subst; apply Hbase; exact I].
  inv_bind H. destruct x as [t rest]. apply read_tlv_ok in E1 as (_ & Hv & _); [|exact Hr].
  inv_bind H. cbn [fst] in E1. apply parse_sd_body_wf in E1; [|apply valid_body_bytes; exact Hv].
  inversion H; subst. apply Hbase. exact E1.
Qed.

Lemma trailing_nil : unmarshal_trailing_garbage trim_right [] = false.
Proof. reflexivity. Qed.

Lemma parse_cms_wf x o : all_bytes x = true -> parse_cms x = Ok o -> wf_cms o.
Proof.
  intros Hb H. unfold parse_cms in H. rewrite layout_ok_true in H. cbn [negb] in H.
  inv_bind H. destruct x0 as [t rest]. apply read_expect_ok in E as (_ & Hv & _ & _); [|exact Hb].
  inv_bind H. cbn [fst] in E. apply parse_cms_body_wf in E; [|apply valid_body_bytes; exact Hv].
  destruct (unmarshal_trailing_garbage trim_right (snd (t, rest))); [discriminate|]. inversion H; subst. exact E.
Qed.

Lemma emit_sd_body_bytes sd : wf_sd sd -> small (emit_sd_body sd) -> all_bytes (emit_sd_body sd) = true.
Proof.
  (* the emitted body parses, and everything the parser accepts... simpler: by construction *)
  intros Hw Hs. pose proof (sd_reparse sd Hw Hs) as Hp.
  destruct Hw as ((c & Hcb & Hci & Hcs & Hver) & Hda & Hci' & Hce & Hcr & Hsi).
  unfold emit_sd_body in *. rewrite dalgs_set_v, sis_set_v in *. cbn [maybe_sort] in *.
  apply small_app in Hs as [_ Hs]. apply small_app in Hs as [Hs2 Hs]. apply small_app in Hs as [_ Hs].
  apply small_app in Hs as [Hs4 Hs]. apply small_app in Hs as [Hs5 Hs6].
  apply small_enc_tlv in Hs2. apply small_enc_tlv in Hs6.
  assert (Henc : forall tag body, tag_ok tag -> small body -> all_bytes body = true -> all_bytes (enc_tlv tag body) = true).
  { intros tag body Ht Hsb Hbb. apply (valid_full_bytes (mkTlv tag body (enc_tlv tag body))). apply valid_enc; assumption. }
  apply all_bytes_app_iff; split; [|apply all_bytes_app_iff; split; [|apply all_bytes_app_iff; split; [|apply all_bytes_app_iff; split; [|apply all_bytes_app_iff; split]]]].
  - rewrite Hver, (enc_dec_int c Hcb Hci). apply Henc; [tagok|assumption|assumption].
  - apply Henc; [tagok|exact Hs2|]. apply all_bytes_concat. apply small_concat_sort in Hs2.
    rewrite Forall_forall in *. intros b Hin. apply -> In_sort_b in Hin. apply in_map_iff in Hin as (a & <- & Ha).
    apply (valid_full_bytes (mk_alg a)). apply algid_reparse; [apply Hda; exact Ha|]. apply Hs2. apply in_map. exact Ha.
  - rewrite (emit_ci_wf _ Hci'). destruct Hci' as (t & Hv & _ & Hp'). rewrite (parse_ci_raw _ _ Hp'). apply valid_full_bytes. exact Hv.
  - destruct (sd_certs sd) as [l|]; cbn [option_map emit_opt_list opt_list] in *; [|reflexivity].
    apply Henc; [tagok|apply small_enc_tlv in Hs4; exact Hs4|]. apply all_bytes_concat.
    rewrite certs_set_v. cbn [maybe_sort]. unfold wf_raws in Hce. rewrite Forall_forall in *. intros b Hin. destruct (Hce b Hin) as (t & Hv & ->). apply valid_full_bytes. exact Hv.
  - destruct (sd_crls sd) as [l|]; cbn [option_map emit_opt_list opt_list] in *; [|reflexivity].
    apply small_enc_tlv in Hs5. apply Henc; [tagok|exact Hs5|]. apply all_bytes_concat. apply small_concat in Hs5.
    rewrite Forall_forall in *. intros b Hin. apply in_map_iff in Hin as (c0 & <- & Hc0).
    apply (valid_full_bytes (mk_crl c0)). apply crl_reparse; [apply Hcr; exact Hc0|]. apply Hs5. apply in_map. exact Hc0.
  - apply Henc; [tagok|exact Hs6|]. apply all_bytes_concat.
    rewrite Forall_forall in *. intros b Hin. apply -> In_sort_b in Hin. apply in_map_iff in Hin as (s & <- & Hs').
    rewrite (emit_si_wf _ (Hsi s Hs')). destruct (Hsi s Hs') as (t & Hv & _ & Hp'). rewrite (parse_si_raw _ _ Hp'). apply valid_full_bytes. exact Hv.
Qed.

Lemma cms_reparse o : wf_cms o -> small (emit_cms o) -> parse_cms (emit_cms o) = Ok (norm_cms o).
Proof.
  intros (Ho & Hob & Hos & Hsd) Hs. unfold emit_cms in *. apply small_enc_tlv in Hs.
  unfold parse_cms. rewrite layout_ok_true. cbn [negb].
  rewrite <- (app_nil_r (enc_tlv T_SEQ _)). rewrite read_expect_enc by (try tagok; exact Hs).
  cbn [bind fst snd t_body]. rewrite trailing_nil.
  unfold parse_cms_body. rewrite read_expect_enc by (try tagok; exact Hos). cbn [bind fst snd t_body]. rewrite Ho. cbn [negb].
  destruct (o_sd o) as [sd|] eqn:Esd.
  - apply small_app in Hs as [_ Hs]. pose proof Hs as Hs1. apply small_enc_tlv in Hs1. pose proof Hs1 as Hs2. apply small_enc_tlv in Hs2.
    pose proof (emit_sd_body_bytes sd Hsd Hs2) as Hbb.
    set (inner := enc_tlv T_SEQ (emit_sd_body sd)) in *.
    assert (Hvi : valid (mkTlv T_SEQ (emit_sd_body sd) inner)) by (apply valid_enc; [tagok|assumption|assumption]).
    assert (Hvw : valid (mkTlv OCT_explicit inner (enc_tlv OCT_explicit inner))).
    { apply valid_enc; [tagok|exact Hs1|]. apply (valid_full_bytes _ Hvi). }
    destruct (valid_nonempty _ Hvw) as (b & r & Hbr). cbn [t_full] in Hbr. rewrite Hbr. rewrite <- Hbr.
    pose proof (read_hdr_valid _ [] Hvw) as Hh. cbn [t_full t_tag t_body] in Hh. rewrite !app_nil_r in Hh. rewrite Hh. cbn [bind].
    destruct (valid_nonempty _ Hvi) as (b2 & r2 & Hbr2). cbn [t_full] in Hbr2. rewrite Hbr2. rewrite <- Hbr2.
    rewrite Z.eqb_refl. cbn [orb].
    replace (zlen inner >? 0) with true by (rewrite Hbr2, zlen_cons; pose proof (zlen_nonneg r2); lia).
    pose proof (read_hdr_valid _ [] Hvi) as Hh2. cbn [t_full t_tag t_body] in Hh2. rewrite !app_nil_r in Hh2. rewrite Hh2. cbn [bind].
    change (T_SEQ =? T_SEQ) with true. cbv iota.
    pose proof (read_tlv_valid _ [] Hvi) as Hr. cbn [t_full] in Hr. rewrite app_nil_r in Hr. rewrite Hr. cbn [bind fst t_body].
    rewrite (sd_reparse sd Hsd Hs2). cbn [bind]. unfold norm_cms. rewrite Esd. reflexivity.
  - cbn [app]. try rewrite app_nil_r. unfold norm_cms. rewrite Esd. reflexivity.
Qed.

(* ------------------------------------------------------------------ regions *)
Lemma regions_norm sd : Forall wf_si (sd_sis sd) -> regions_of (norm_sd sd) = regions_of sd.
Proof.
  intros Hsi. unfold regions_of, norm_sd. cbn [sd_ci sd_certs sd_crls sd_sis]. f_equal.
  assert (E : map si_raw (sort_on emit_si (sd_sis sd)) = map emit_si (sort_on emit_si (sd_sis sd))).
  { apply map_ext_Forall. apply Forall_sort_on. rewrite Forall_forall in *. intros s Hs. symmetry. apply emit_si_wf. apply Hsi. exact Hs. }
  rewrite E, map_sort_on, sort_b_idem. f_equal. apply map_ext_Forall.
  rewrite Forall_forall in *. intros s Hs. apply emit_si_wf. apply Hsi. exact Hs.
Qed.

Lemma sort_on_idem_emit {A} (key : A -> bytes) l : sort_b (map key (sort_on key l)) = sort_b (map key l).
Proof. rewrite map_sort_on. apply sort_b_idem. Qed.

Lemma emit_norm_sd sd : emit_sd_body (norm_sd sd) = emit_sd_body sd.
Proof.
  unfold emit_sd_body, norm_sd. cbn [sd_version sd_dalgs sd_ci sd_certs sd_crls sd_sis].
  rewrite dalgs_set_v, sis_set_v. cbn [maybe_sort]. rewrite !sort_on_idem_emit. reflexivity.
Qed.
Lemma emit_norm_cms o : emit_cms (norm_cms o) = emit_cms o.
Proof.
  unfold emit_cms, norm_cms. cbn [o_ctype o_sd]. destruct (o_sd o); cbn [option_map]; [|reflexivity]. rewrite emit_norm_sd. reflexivity.
Qed.

(* THE round trip: what Unmarshal accepted is emitted by Marshal in a form that Unmarshal accepts again, with the same
   signed regions; and emitting that once more gives the same bytes. *)
Theorem signed_regions_stable x o :
  all_bytes x = true -> parse_cms x = Ok o -> zlen (emit_cms o) < 2 ^ 31 ->
  exists o', parse_cms (emit_cms o) = Ok o' /\ cms_regions o' = cms_regions o /\ emit_cms o' = emit_cms o.
Proof.
  intros Hb Hp Hs. pose proof (parse_cms_wf x o Hb Hp) as Hw.
  exists (norm_cms o). split; [apply cms_reparse; assumption|]. split; [|apply emit_norm_cms].
  unfold cms_regions, norm_cms. cbn [o_sd]. destruct Hw as (_ & _ & _ & Hsd).
  destruct (o_sd o) as [sd|]; cbn [option_map]; [|reflexivity]. f_equal. apply regions_norm. apply Hsd.
Qed.

(* ------------------------------------------------------------------ sub-slices *)
Definition subslice (r x : bytes) : Prop := exists pre post, x = pre ++ r ++ post.
Lemma subslice_refl x : subslice x x.
Proof. exists [], []. rewrite app_nil_r. reflexivity. Qed.
Lemma subslice_trans a b c : subslice a b -> subslice b c -> subslice a c.
Proof.
  intros (p1 & q1 & ->) (p2 & q2 & ->). exists (p2 ++ p1), (q1 ++ q2). rewrite <- !app_assoc. reflexivity.
Qed.
Lemma subslice_app_l a x y : subslice a x -> subslice a (x ++ y).
Proof. intros (p & q & ->). exists p, (q ++ y). rewrite <- !app_assoc. reflexivity. Qed.
Lemma subslice_app_r a x y : subslice a y -> subslice a (x ++ y).
Proof. intros (p & q & ->). exists (x ++ p), q. rewrite <- !app_assoc. reflexivity. Qed.
Lemma subslice_concat a ls : In a ls -> subslice a (concat ls).
Proof.
  induction ls as [|l ls IH]; intros H; [contradiction|]. cbn [concat]. destruct H as [->|H].
  - apply subslice_app_l. apply subslice_refl.
  - apply subslice_app_r. apply IH. exact H.
Qed.
Lemma subslice_body t : valid t -> subslice (t_body t) (t_full t).
Proof. intros (Hf & _). rewrite Hf. unfold enc_tlv. exists (t_tag t :: enc_len (zlen (t_body t))), []. rewrite app_nil_r. reflexivity. Qed.
Lemma subslice_enc tag b : subslice b (enc_tlv tag b).
Proof. unfold enc_tlv. exists (tag :: enc_len (zlen b)), []. rewrite app_nil_r. reflexivity. Qed.

(* ------------------------------------------------------------------ unique decomposition of a content string into elements *)
Lemma elements_unique t rest seq :
  valid t -> Forall valid seq -> t_full t ++ rest = concat (map t_full seq) ->
  exists seq', seq = t :: seq' /\ rest = concat (map t_full seq').
Proof.
  intros Hv Hvs H. destruct seq as [|u seq'].
  - cbn in H. destruct (valid_nonempty t Hv) as (b & r & Hbr). rewrite Hbr in H. discriminate.
  - inversion Hvs; subst. cbn [map concat] in H.
    pose proof (read_tlv_valid t rest Hv) as R1. rewrite H in R1. rewrite read_tlv_valid in R1 by assumption.
    inversion R1; subst. eauto.
Qed.

(* ------------------------------------------------------------------ the digest preimage of signed attributes *)
Lemma unsorted_set_seq body : unsorted_set (enc_tlv 48 body) = Ok (49 :: enc_len (zlen body) ++ body).
Proof.
  unfold unsorted_set, enc_tlv. rewrite zlen_cons.
  replace (mus_nonempty (1 + zlen (enc_len (zlen body) ++ body))) with true
    by (unfold mus_nonempty; pose proof (zlen_nonneg (enc_len (zlen body) ++ body)); lia).
  reflexivity.
Qed.

(* parsed SignerInfo: relic re-reads the fourth element of the raw encoding and changes its identifier octet to SET *)
Theorem attr_digest_parsed t s l p :
  valid t -> t_tag t = T_SEQ -> parse_si t = Ok s -> si_auth s = Some l -> aab s = Ok p ->
  exists pre tl post, si_raw s = t_full t /\ emit_si s = t_full t /\
    t_body t = pre ++ (160 :: tl) ++ post /\ p = 49 :: tl /\ spec_signed_attrs_preimage (si_raw s) = Some p.
Proof.
  intros Hv Ht Hp Hauth Haab.
  pose proof (parse_si_raw t s Hp) as Hraw.
  assert (Hwf : wf_si s) by (exists t; tauto).
  pose proof (valid_body_bytes t Hv) as Hbb.
  (* the four reads of parse_si *)
  pose proof Hp as Hp'. unfold parse_si in Hp'.
  apply bind_ok in Hp'. destruct Hp' as ([t1 rest1] & E1 & Hp').
  apply read_expect_ok in E1 as (Hl1 & Hv1 & _ & Hr1); [|exact Hbb].
  cbn [fst snd] in Hp'. destruct (int64_ok (t_body t1)); cbn [negb] in Hp'; [|discriminate].
  apply bind_ok in Hp'. destruct Hp' as ([t2 rest2] & E2 & Hp').
  apply read_expect_ok in E2 as (Hl2 & Hv2 & _ & Hr2); [|exact Hr1].
  cbn [fst snd] in Hp'.
  apply bind_ok in Hp'. destruct Hp' as (i1 & Ei1 & Hp').
  apply bind_ok in Hp'. destruct Hp' as (i2 & Ei2 & Hp').
  destruct (int_ok (t_body (fst i2))); cbn [negb] in Hp'; [|discriminate].
  apply bind_ok in Hp'. destruct Hp' as ([t3 rest3] & E3 & Hp').
  apply read_expect_ok in E3 as (Hl3 & Hv3 & _ & Hr3); [|exact Hr2].
  cbn [fst snd] in Hp'.
  apply bind_ok in Hp'. destruct Hp' as (dalg & Ed & Hp').
  apply bind_ok in Hp'. destruct Hp' as ([o4 rest4] & E4 & Hp'). rewrite auth_opt_v in E4.
  apply read_optional_ok in E4; [|exact Hr3]. cbn [fst snd] in Hp'.
  apply bind_ok in Hp'. destruct Hp' as (auth & Eauth & Hp').
  assert (Ho4 : exists t4, o4 = Some t4).
  { destruct o4 as [t4|]; [eauto|]. cbn [opt_attrs] in Eauth. inversion Eauth; subst auth.
    repeat (let y := fresh "y" in let F := fresh "F" in apply bind_ok in Hp'; destruct Hp' as (y & F & Hp')).
    inversion Hp'; subst s. cbn in Hauth. discriminate. }
  destruct Ho4 as (t4 & ->). destruct E4 as (Hl4 & Hv4 & Ht4 & Hr4). rewrite OCT_auth_v in Ht4.
  clear Hp' Eauth.
  (* AuthenticatedAttributesBytes *)
  unfold aab in Haab. rewrite Hraw in Haab.
  destruct (valid_nonempty t Hv) as (b & r & Hbr).
  replace (aab_use_fields (negb (zlen (t_full t) =? 0))) with false in Haab
    by (rewrite Hbr, zlen_cons; pose proof (zlen_nonneg r); replace (1 + zlen r =? 0) with false by lia; reflexivity).
  rewrite <- (app_nil_r (t_full t)) in Haab. rewrite read_expect_valid in Haab by assumption. cbn [bind fst] in Haab.
  apply bind_ok in Haab. destruct Haab as (seq & Eseq & Haab). apply read_all_ok in Eseq as (Hcat & Hvs); [|exact Hbb].
  subst rest1 rest2 rest3. rewrite Hl1 in Hcat.
  destruct (elements_unique _ _ _ Hv1 Hvs Hcat) as (s1 & -> & Hc1). inversion Hvs; subst.
  destruct (elements_unique _ _ _ Hv2 H2 Hc1) as (s2 & -> & Hc2). inversion H2; subst.
  destruct (elements_unique _ _ _ Hv3 H4 Hc2) as (s3 & -> & Hc3). inversion H4; subst.
  destruct (elements_unique _ _ _ Hv4 H6 Hc3) as (s4 & -> & Hc4).
  replace (aab_short (zlen (t1 :: t2 :: t3 :: t4 :: s4))) with false in Haab
    by (unfold aab_short; rewrite !zlen_cons; pose proof (zlen_nonneg s4); lia).
  change (nth (Z.to_nat aab_index) (t1 :: t2 :: t3 :: t4 :: s4) (mkTlv 0 [] [])) with t4 in Haab.
  change (octet 0 aab_rv_IsCompound aab_rv_Tag) with 48 in Haab.
  rewrite unsorted_set_seq in Haab. inversion Haab; subst p; clear Haab.
  destruct Hv4 as (Hf4 & _). unfold enc_tlv in Hf4. rewrite Ht4 in Hf4.
  exists (t_full t1 ++ t_full t2 ++ t_full t3), (enc_len (zlen (t_body t4)) ++ t_body t4), rest4.
  split; [exact Hraw|]. split; [rewrite emit_si_wf by exact Hwf; exact Hraw|]. split; [|split; [reflexivity|]].
  - rewrite Hl1, Hf4. rewrite <- !app_assoc. reflexivity.
  - (* the RFC 5652 walker finds the same octets *)
    unfold spec_signed_attrs_preimage, one, children. rewrite Hraw.
    pose proof (read_all_concat [t] ltac:(constructor; [exact Hv|constructor])) as R. cbn [map concat] in R. rewrite app_nil_r in R.
    rewrite R.
    assert (Hall : read_all (t_body t) = Ok (t1 :: t2 :: t3 :: t4 :: s4)).
    { rewrite Hl1, Hc4.
      pose proof (read_all_concat (t1 :: t2 :: t3 :: t4 :: s4)) as R2. cbn [map concat] in R2. apply R2.
      exact Hvs. }
    rewrite Hall. rewrite Ht4. cbn [Z.eqb Pos.eqb]. rewrite Hf4. reflexivity.
Qed.

(* SignerInfo built by relic (no raw encoding): the bytes that are digested are the emitted [0] field with its first octet
   replaced by 0x31 *)
Definition auth_field (s : sinfo) : bytes :=
  emit_opt_attrs OCT_auth (SI_AuthenticatedAttributes_set || attrs_set) (si_auth s).
Theorem attr_digest_built s l :
  si_raw s = [] -> si_auth s = Some l ->
  exists tl, auth_field s = 160 :: tl /\ aab s = Ok (49 :: tl) /\ subslice (auth_field s) (emit_si s).
Proof.
  intros Hraw Hauth. unfold auth_field. rewrite Hauth, auth_set_v, OCT_auth_v. cbn [emit_opt_attrs].
  exists (enc_len (zlen (emit_attrs false l)) ++ emit_attrs false l). split; [reflexivity|]. split.
  - unfold aab. rewrite Hraw, Hauth. change (aab_use_fields (negb (zlen (@nil Z) =? 0))) with true. cbv iota.
    unfold attrs_bytes. rewrite attrs_set_v. change (octet 0 true 16) with 48. apply unsorted_set_seq.
  - unfold emit_si. rewrite Hraw. unfold emit_si_fields. rewrite Hauth, auth_set_v, OCT_auth_v. cbn [emit_opt_attrs].
    eapply subslice_trans; [|apply subslice_enc].
    apply subslice_app_r. apply subslice_app_r. apply subslice_app_r. apply subslice_app_l. apply subslice_refl.
Qed.

(* ------------------------------------------------------------------ the builder's mandatory attributes *)
Definition has_oid (oid : bytes) (l : list attr) : bool := existsb (fun a => bytes_eqb (at_oid a) oid) l.
Lemma append_attr_fresh l oid v : has_oid oid l = false ->
  append_attr l oid v = l ++ [mkAttr oid (octet attr_rv_Class attr_rv_IsCompound attr_rv_Tag) v []].
Proof.
  induction l as [|a l IH]; intros H; [reflexivity|]. cbn [has_oid existsb] in H. apply orb_false_iff in H as [H1 H2].
  cbn [append_attr]. rewrite H1. cbn [app]. f_equal. apply IH. exact H2.
Qed.
Lemma has_oid_app oid l1 l2 : has_oid oid (l1 ++ l2) = has_oid oid l1 || has_oid oid l2.
Proof. unfold has_oid. apply existsb_app. Qed.

Lemma sign_adds_v : sign_adds = [(1, 1); (2, 2)]. Proof. reflexivity. Qed.
Lemma oids_differ : bytes_eqb OID_content_type OID_message_digest = false. Proof. vm_compute. reflexivity. Qed.

Definition ct_attr (b : builder) : attr := mkAttr OID_content_type 49 (enc_tlv T_OID (b_ctype b)) [].
Definition md_attr (b : builder) : attr := mkAttr OID_message_digest 49 (enc_tlv T_OCT (b_digest b)) [].

(* with attributes present and none of them a content-type or message-digest attribute, Sign appends exactly one of each,
   with exactly one value: the content type and the content digest *)
Theorem builder_attrs_once b l0 :
  b_attrs b = Some l0 -> has_oid OID_content_type l0 = false -> has_oid OID_message_digest l0 = false ->
  snd (sign_attrs b) = Some (l0 ++ [ct_attr b; md_attr b]).
Proof.
  intros Ha H1 H2. unfold sign_attrs. rewrite Ha. change (sign_with_attrs true) with true. cbv iota.
  change sign_si_auth_is_builder_attrs with true. cbv iota. cbn [snd]. rewrite sign_adds_v. cbn [fold_left fst snd].
  unfold add_attr. change (sign_oid 1) with OID_content_type. change (sign_oid 2) with OID_message_digest.
  rewrite (append_attr_fresh l0 OID_content_type _ H1).
  rewrite append_attr_fresh.
  - rewrite <- app_assoc. reflexivity.
  - rewrite has_oid_app, H2. cbn [has_oid existsb at_oid]. rewrite oids_differ. reflexivity.
Qed.
Theorem builder_no_attrs b : b_attrs b = None -> snd (sign_attrs b) = None /\ sign_preimage b = Ok (0, b_digest b).
Proof.
  intros Ha.
  assert (E : snd (sign_attrs b) = None).
  { unfold sign_attrs. rewrite Ha. change (sign_with_attrs false) with false. cbv iota.
    change sign_si_auth_is_builder_attrs with true. cbv iota. cbn [snd]. try rewrite Ha. reflexivity. }
  split; [exact E|]. unfold sign_preimage. rewrite E. reflexivity.
Qed.
(* and they are what gets digested *)
Theorem builder_preimage b l0 :
  b_attrs b = Some l0 -> has_oid OID_content_type l0 = false -> has_oid OID_message_digest l0 = false ->
  exists tl, sign_preimage b = Ok (1, 49 :: tl) /\
             auth_field (built_si b [] [] (mkAlg [] []) (mkAlg [] []) []) = 160 :: tl.
Proof.
  intros Ha H1 H2. unfold sign_preimage. rewrite (builder_attrs_once b l0 Ha H1 H2).
  change (sign_with_attrs true) with true. cbv iota.
  unfold attrs_bytes. rewrite attrs_set_v. change (octet 0 true 16) with 48. rewrite unsorted_set_seq. cbn [bind].
  eexists. split; [reflexivity|].
  unfold auth_field, built_si. cbn [si_auth]. rewrite (builder_attrs_once b l0 Ha H1 H2), auth_set_v, OCT_auth_v. reflexivity.
Qed.

(* outside that domain the statement fails (API misuse; no caller inside relic does this) *)
Theorem builder_attrs_once_refuted_presupplied :
  exists b l, b_attrs b = Some l /\ has_oid OID_content_type l = true /\
    exists a, snd (sign_attrs b) = Some (a :: [md_attr b]) /\ at_oid a = OID_content_type /\
              at_body a = [6; 2; 42; 3] ++ enc_tlv T_OID (b_ctype b).
Proof.
  exists (mkB [42; 134; 72; 134; 247; 13; 1; 7; 1] [1; 2; 3] (Some [mkAttr OID_content_type 49 [6; 2; 42; 3] []])).
  eexists. split; [reflexivity|]. split; [vm_compute; reflexivity|]. eexists. split; [vm_compute; reflexivity|]. split; vm_compute; reflexivity.
Qed.
Theorem builder_attrs_once_refuted_sign_twice :
  exists b l0, b_attrs b = Some l0 /\ has_oid OID_content_type l0 = false /\ has_oid OID_message_digest l0 = false /\
    exists a1 a2, snd (sign_attrs (fst (sign_attrs b))) = Some (l0 ++ [a1; a2]) /\
      at_body a2 = enc_tlv T_OCT (b_digest b) ++ enc_tlv T_OCT (b_digest b).
Proof.
  exists (mkB [42; 134; 72; 134; 247; 13; 1; 7; 1] [1; 2; 3] (Some [mkAttr [42; 3; 4] 49 [5; 0] []])).
  eexists. split; [reflexivity|]. split; [vm_compute; reflexivity|]. split; [vm_compute; reflexivity|].
  eexists. eexists. split; vm_compute; reflexivity.
Qed.

(* ------------------------------------------------------------------ timestamp tokens *)
(* a SignerInfo that was parsed is emitted from its raw encoding: anything added to its fields afterwards is NOT emitted.
   (TimestampAndMarshal is only ever handed freshly built structures.) *)
Theorem parsed_signer_is_immutable au s tok : si_raw s <> [] -> emit_si (add_stamp au s tok) = emit_si s.
Proof.
  intros H. unfold add_stamp. destruct (if au then stamp_spc_is_unauth_add else stamp_cms_is_unauth_add); [|reflexivity].
  unfold emit_si. cbn [si_raw]. destruct (si_raw s); [congruence|]. rewrite si_keeps_raw_v. reflexivity.
Qed.

(* a built SignerInfo: the token is embedded as Marshal(Unmarshal(token)), whose regions are the token's; the signed
   attributes and the signature value of the enclosing SignerInfo are untouched *)
Theorem embed_token_verbatim au s x tok :
  all_bytes x = true -> parse_cms x = Ok tok -> zlen (emit_cms tok) < 2 ^ 31 ->
  si_raw s = [] -> si_unauth s = None ->
  let s' := add_stamp au s tok in
  subslice (emit_cms tok) (emit_si s') /\
  (exists tok', parse_cms (emit_cms tok) = Ok tok' /\ cms_regions tok' = cms_regions tok) /\
  si_auth s' = si_auth s /\ si_sig s' = si_sig s /\ aab s' = aab s.
Proof.
  intros Hb Hp Hs Hraw Hun. cbn zeta.
  assert (Hadd : add_stamp au s tok = mkSi (si_raw s) (si_version s) (si_issuer s) (si_serial s) (si_dalg s) (si_auth s) (si_ealg s) (si_sig s)
                   (Some [mkAttr (if au then enc_oid oid_spc_timestamp_token else enc_oid oid_attr_timestamp_token) 49 (emit_cms tok) []])).
  { unfold add_stamp. destruct au; cbv iota; rewrite Hun; reflexivity. }
  rewrite Hadd. split; [|split; [|split; [reflexivity|split; [reflexivity|]]]].
  - unfold emit_si. cbn [si_raw]. rewrite Hraw. unfold emit_si_fields. cbn [si_unauth si_version si_issuer si_serial si_dalg si_auth si_ealg si_sig].
    rewrite unauth_set_v. cbn [emit_opt_attrs emit_attrs maybe_sort map concat emit_attr at_oid at_tag at_body at_full emit_rawvalue].
    eapply subslice_trans; [|apply subslice_enc].
    do 6 apply subslice_app_r. eapply subslice_trans; [|apply subslice_enc]. rewrite app_nil_r.
    eapply subslice_trans; [|apply subslice_enc]. apply subslice_app_r. apply subslice_enc.
  - destruct (signed_regions_stable x tok Hb Hp Hs) as (tok' & H1 & H2 & _). eauto.
  - unfold aab. cbn [si_raw si_auth]. reflexivity.
Qed.

(* Detach drops the content and nothing else *)
Theorem detach_keeps_signers o sd :
  o_sd o = Some sd ->
  exists sd', o_sd (detach o) = Some sd' /\ sd_sis sd' = sd_sis sd /\ sd_certs sd' = sd_certs sd /\ sd_crls sd' = sd_crls sd /\
              ci_ctype (sd_ci sd') = ci_ctype (sd_ci sd) /\ emit_ci (sd_ci sd') = enc_tlv T_SEQ (enc_tlv T_OID (ci_ctype (sd_ci sd))).
Proof.
  intros H. unfold detach. rewrite H. change detach_clears_content with true. cbv iota. eexists. split; [reflexivity|]. cbn. tauto.
Qed.

(* ------------------------------------------------------------------ nothing but NUL padding may follow the structure *)
Lemma trim_right_rev_nil l : trim_right_rev l [0] = [] -> Forall (fun b => b = 0) l.
Proof.
  induction l as [|b r IH]; intros H; [constructor|]. cbn [trim_right_rev existsb] in H.
  destruct (b =? 0) eqn:E; cbn [orb] in H; [|discriminate]. constructor; [lia|]. apply IH. exact H.
Qed.
Theorem accepted_input_is_one_element_plus_padding x o :
  all_bytes x = true -> parse_cms x = Ok o ->
  exists t pad, x = t_full t ++ pad /\ valid t /\ t_tag t = T_SEQ /\ Forall (fun b => b = 0) pad.
Proof.
  intros Hb H. unfold parse_cms in H. rewrite layout_ok_true in H. cbn [negb] in H.
  inv_bind H. destruct x0 as [t rest]. apply read_expect_ok in E as (Hl & Hv & Ht & _); [|exact Hb].
  inv_bind H. cbn [snd] in H.
  destruct (unmarshal_trailing_garbage trim_right rest) eqn:Eg; [discriminate|].
  exists t, rest. split; [exact Hl|]. split; [exact Hv|]. split; [exact Ht|].
  unfold unmarshal_trailing_garbage in Eg. apply negb_false_iff in Eg. apply Z.eqb_eq in Eg.
  unfold trim_right in Eg. unfold zlen in Eg. rewrite rev_length in Eg.
  assert (E0 : trim_right_rev (rev rest) [0] = []) by (destruct (trim_right_rev (rev rest) [0]); [reflexivity|cbn in Eg; lia]).
  apply trim_right_rev_nil in E0. apply Forall_rev in E0. rewrite rev_involutive in E0. exact E0.
Qed.

(* ------------------------------------------------------------------ every region is a sub-slice of the input *)
Definition region_list (sd : sdata) : list bytes :=
  ci_raw (sd_ci sd) :: opt_list (sd_certs sd) ++ map c_tbs (opt_list (sd_crls sd)) ++ map si_raw (sd_sis sd).

Lemma Forall2_In_r {A B} (R : A -> B -> Prop) l vs v : Forall2 R l vs -> In v vs -> exists a, In a l /\ R a v.
Proof.
  induction 1 as [|a b l vs Hab _ IH]; intros Hin; [contradiction|]. destruct Hin as [->|Hin]; [exists a; cbn; auto|].
  destruct (IH Hin) as (a' & Ha & Hr). exists a'. cbn. auto.
Qed.
Lemma in_elements t ts : In t ts -> subslice (t_full t) (concat (map t_full ts)).
Proof. intros H. apply subslice_concat. apply in_map. exact H. Qed.
Lemma parse_crl_tbs t c : valid t -> parse_crl t = Ok c -> subslice (c_tbs c) (t_full t).
Proof.
  intros Hv H. unfold parse_crl in H.
  apply bind_ok in H. destruct H as ([t1 rest1] & E1 & H).
  apply read_expect_ok in E1 as (Hl1 & _); [|apply valid_body_bytes; exact Hv].
  repeat (let y := fresh "y" in let F := fresh "F" in apply bind_ok in H; destruct H as (y & F & H)).
  match type of H with context [bits_ok ?e] => destruct (bits_ok e) end; cbn [negb] in H; [|discriminate]. inversion H; subst. cbn [c_tbs fst].
  eapply subslice_trans; [|apply subslice_body; exact Hv]. rewrite Hl1. apply subslice_app_l. apply subslice_refl.
Qed.

Lemma parse_sd_body_regions body sd r :
  all_bytes body = true -> parse_sd_body body = Ok sd -> In r (region_list sd) -> subslice r body.
Proof.
  intros Hb H Hin. unfold parse_sd_body in H.
  apply bind_ok in H. destruct H as ([t1 rest1] & E1 & H). apply read_expect_ok in E1 as (Hl1 & Hv1 & _ & Hr1); [|exact Hb].
  cbn [fst snd] in H. destruct (int64_ok (t_body t1)); cbn [negb] in H; [|discriminate].
  apply bind_ok in H. destruct H as ([t2 rest2] & E2 & H). apply read_expect_ok in E2 as (Hl2 & Hv2 & _ & Hr2); [|exact Hr1].
  apply bind_ok in H. destruct H as (dalgs & Ed & H).
  apply bind_ok in H. destruct H as ([t3 rest3] & E3 & H). cbn [snd] in E3. apply read_expect_ok in E3 as (Hl3 & Hv3 & _ & Hr3); [|exact Hr2].
  apply bind_ok in H. destruct H as (ci & Eci & H). cbn [fst] in Eci.
  apply bind_ok in H. destruct H as ([o4 rest4] & E4 & H). cbn [snd] in E4. rewrite certs_opt_v in E4.
  apply read_optional_ok in E4; [|exact Hr3].
  apply bind_ok in H. destruct H as (certs & Ece & H). cbn [fst] in Ece.
  apply bind_ok in H. destruct H as ([o5 rest5] & E5 & H). cbn [snd] in E5. rewrite crls_opt_v in E5.
  assert (Hr4 : all_bytes rest4 = true) by (destruct o4; [tauto|subst; exact Hr3]).
  apply read_optional_ok in E5; [|exact Hr4].
  apply bind_ok in H. destruct H as (crls & Ecr & H). cbn [fst] in Ecr.
  assert (Hr5 : all_bytes rest5 = true) by (destruct o5; [tauto|subst; exact Hr4]).
  apply bind_ok in H. destruct H as ([t6 rest6] & E6 & H). cbn [snd] in E6. apply read_expect_ok in E6 as (Hl6 & Hv6 & _ & Hr6); [|exact Hr5].
  apply bind_ok in H. destruct H as (sis & Esi & H). cbn [fst] in Esi.
  inversion H; subst sd; clear H.
  (* where the remaining input sits inside body *)
  assert (S3 : subslice rest2 body) by (rewrite Hl1, Hl2; do 2 apply subslice_app_r; apply subslice_refl).
  assert (S4 : subslice rest3 body) by (eapply subslice_trans; [|exact S3]; rewrite Hl3; apply subslice_app_r; apply subslice_refl).
  assert (S5 : subslice rest4 body).
  { destruct o4 as [t4|]; [|subst; exact S4]. destruct E4 as (Hl4 & _). eapply subslice_trans; [|exact S4]. rewrite Hl4. apply subslice_app_r. apply subslice_refl. }
  assert (S6 : subslice rest5 body).
  { destruct o5 as [t5|]; [|subst; exact S5]. destruct E5 as (Hl5 & _). eapply subslice_trans; [|exact S5]. rewrite Hl5. apply subslice_app_r. apply subslice_refl. }
  unfold region_list in Hin. cbn [sd_ci sd_certs sd_crls sd_sis] in Hin.
  destruct Hin as [<-|Hin].
  - (* encapsulated content info *)
    rewrite (parse_ci_raw _ _ Eci). eapply subslice_trans; [|exact S3]. rewrite Hl3. apply subslice_app_l. apply subslice_refl.
  - apply in_app_or in Hin as [Hin|Hin]; [|apply in_app_or in Hin as [Hin|Hin]].
    + (* a certificate *)
      destruct o4 as [t4|]; cbn [opt_certs] in Ece; [|inversion Ece; subst; contradiction].
      destruct E4 as (Hl4 & Hv4 & _). apply bind_ok in Ece. destruct Ece as (ts & Ets & Ece). inversion Ece; subst certs. cbn [opt_list] in Hin.
      apply read_all_ok in Ets as (Hcat & _); [|apply valid_body_bytes; exact Hv4].
      apply in_map_iff in Hin as (t & <- & Ht).
      eapply subslice_trans; [|exact S4]. rewrite Hl4. apply subslice_app_l.
      eapply subslice_trans; [|apply subslice_body; exact Hv4]. rewrite Hcat. apply in_elements. exact Ht.
    + (* tbsCertList of a CRL *)
      destruct o5 as [t5|]; cbn [opt_crls] in Ecr; [|inversion Ecr; subst; contradiction].
      destruct E5 as (Hl5 & Hv5 & _). apply bind_ok in Ecr. destruct Ecr as (cl & Ecl & Ecr). inversion Ecr; subst crls. cbn [opt_list] in Hin.
      apply parse_list_inv in Ecl as (ts & Hcat & Hvs & Hf); [|apply valid_body_bytes; exact Hv5].
      apply in_map_iff in Hin as (c & <- & Hc).
      destruct (Forall2_In_r _ _ _ _ Hf Hc) as (t & Ht & _ & Hp).
      assert (Hvt : valid t) by (rewrite Forall_forall in Hvs; apply Hvs; exact Ht).
      eapply subslice_trans; [apply (parse_crl_tbs t c Hvt Hp)|].
      eapply subslice_trans; [|exact S5]. rewrite Hl5. apply subslice_app_l.
      eapply subslice_trans; [|apply subslice_body; exact Hv5]. rewrite Hcat. apply in_elements. exact Ht.
    + (* a SignerInfo *)
      apply parse_list_inv in Esi as (ts & Hcat & Hvs & Hf); [|apply valid_body_bytes; exact Hv6].
      apply in_map_iff in Hin as (s & <- & Hs).
      destruct (Forall2_In_r _ _ _ _ Hf Hs) as (t & Ht & _ & Hp).
      rewrite (parse_si_raw _ _ Hp).
      eapply subslice_trans; [|exact S6]. rewrite Hl6. apply subslice_app_l.
      eapply subslice_trans; [|apply subslice_body; exact Hv6]. rewrite Hcat. apply in_elements. exact Ht.
Qed.

Theorem regions_are_subslices x o sd r :
  all_bytes x = true -> parse_cms x = Ok o -> o_sd o = Some sd -> In r (region_list sd) -> subslice r x.
Proof.
  intros Hb H Hsd Hin. unfold parse_cms in H. rewrite layout_ok_true in H. cbn [negb] in H.
  apply bind_ok in H. destruct H as ([t rest] & E & H). apply read_expect_ok in E as (Hl & Hv & _ & _); [|exact Hb].
  apply bind_ok in H. destruct H as (o' & Eb & H). cbn [fst] in Eb.
  destruct (unmarshal_trailing_garbage trim_right (snd (t, rest))); [discriminate|]. inversion H; subst o'; clear H.
  eapply subslice_trans; [|rewrite Hl; apply subslice_app_l; apply subslice_body; exact Hv].
  pose proof (valid_body_bytes t Hv) as Hbb. unfold parse_cms_body in Eb.
  apply bind_ok in Eb. destruct Eb as ([t1 rest1] & E1 & Eb). apply read_expect_ok in E1 as (Hl1 & Hv1 & _ & Hr1); [|exact Hbb].
  cbn [fst snd] in Eb. destruct (oid_ok (t_body t1)); cbn [negb] in Eb; [|discriminate].
  destruct rest1 as [|b0 r0]; [inversion Eb; subst; cbn in Hsd; discriminate|].
  apply bind_ok in Eb. destruct Eb as ([[tag len] r1] & Eh & Eb).
  apply read_hdr_canon in Eh as (Hlh & _); [|exact Hr1].
  assert (Hr1' : all_bytes r1 = true).
  { rewrite Hlh in Hr1. apply all_bytes_cons in Hr1 as [_ Hr1]. apply all_bytes_app_iff in Hr1. tauto. }
  destruct r1 as [|b1 r2]; [discriminate|].
  destruct ((tag =? OCT_explicit) || (tag =? OCT_explicit_prim) && (len =? 0)); [|inversion Eb; subst; cbn in Hsd; discriminate].
  destruct (len >? 0); [|discriminate].
  apply bind_ok in Eb. destruct Eb as ([[tag2 len2] r3] & Eh2 & Eb).
  destruct (tag2 =? T_SEQ); [|inversion Eb; subst; cbn in Hsd; discriminate].
  apply bind_ok in Eb. destruct Eb as ([ti resti] & Ei & Eb). apply read_tlv_ok in Ei as (Hli & Hvi & _); [|exact Hr1'].
  apply bind_ok in Eb. destruct Eb as (sd' & Esd & Eb). cbn [fst] in Esd. inversion Eb; subst o; clear Eb.
  cbn [o_sd] in Hsd. inversion Hsd; subst sd'.
  eapply subslice_trans; [apply (parse_sd_body_regions _ _ _ (valid_body_bytes _ Hvi) Esd Hin)|].
  eapply subslice_trans; [apply subslice_body; exact Hvi|].
  rewrite Hl1, Hlh, Hli. apply subslice_app_r.
  exists (tag :: enc_len len), resti. reflexivity.
Qed.

(* ------------------------------------------------------------------ agreement with the RFC 5652 walker *)
Lemma read_all_cons l t ts : all_bytes l = true -> read_all l = Ok (t :: ts) ->
  l = t_full t ++ concat (map t_full ts) /\ valid t /\ Forall valid ts /\
  read_tlv l = Ok (t, concat (map t_full ts)) /\ read_all (concat (map t_full ts)) = Ok ts.
Proof.
  intros Hb H. apply read_all_ok in H as (Hl & Hvs); [|exact Hb]. inversion Hvs; subst. cbn [map concat] in *.
  split; [reflexivity|]. split; [assumption|]. split; [assumption|]. split; [apply read_tlv_valid; assumption|apply read_all_concat; assumption].
Qed.
Lemma read_expect_det oct l t r t' r' : read_tlv l = Ok (t, r) -> read_expect oct l = Ok (t', r') -> t' = t /\ r' = r.
Proof. intros H1 H2. apply read_expect_inv in H2 as [H2 _]. rewrite H1 in H2. inversion H2. auto. Qed.
Lemma all_bytes_concat_valid ts : Forall valid ts -> all_bytes (concat (map t_full ts)) = true.
Proof. intros H. apply all_bytes_concat. induction H; cbn; constructor; auto using valid_full_bytes. Qed.

Lemma children_ok t l : valid t -> children t = Some l -> read_all (t_body t) = Ok l.
Proof. unfold children. destruct (read_all (t_body t)); intros; congruence. Qed.

(* the optional field as the model reads it and as the walker splits it *)
Lemma optional_agree oct rest o rest' :
  Forall valid rest -> read_optional true oct (concat (map t_full rest)) = Ok (o, rest') ->
  match rest with
  | t :: r => if t_tag t =? oct then o = Some t /\ rest' = concat (map t_full r) else o = None /\ rest' = concat (map t_full rest)
  | [] => o = None /\ rest' = []
  end.
Proof.
  intros Hv H. destruct rest as [|t r]; cbn [map concat] in *.
  - inversion H; subst. auto.
  - inversion Hv; subst. destruct (t_tag t =? oct) eqn:Et.
    + rewrite read_optional_present in H by (try assumption; lia). inversion H; subst. auto.
    + rewrite read_optional_absent in H by (try assumption; lia). inversion H; subst. auto.
Qed.

Lemma crl_tbs_agree ts : forall cs tbs,
  Forall valid ts -> Forall2 (fun t c => t_tag t = T_SEQ /\ parse_crl t = Ok c) ts cs ->
  all_some (map spec_tbs ts) = Some tbs -> map c_tbs cs = tbs.
Proof.
  induction ts as [|t ts IH]; intros cs tbs Hv H2 Hs; inversion H2; subst; cbn [map all_some] in *.
  - inversion Hs. reflexivity.
  - inversion Hv; subst. destruct H1 as [_ Hp].
    destruct (spec_tbs t) as [b|] eqn:Eb; [|discriminate].
    destruct (all_some (map spec_tbs ts)) as [bs|] eqn:Ebs; [|discriminate]. inversion Hs; subst. f_equal; [|apply IH; auto].
    unfold spec_tbs in Eb. destruct (children t) as [[|tb [|a [|b' [|]]]]|] eqn:Ec; try discriminate. inversion Eb; subst.
    apply children_ok in Ec; [|assumption]. apply read_all_cons in Ec as (_ & _ & _ & Hr & _); [|apply valid_body_bytes; assumption].
    unfold parse_crl in Hp. apply bind_ok in Hp. destruct Hp as ([t1 r1] & E1 & Hp).
    destruct (read_expect_det _ _ _ _ _ _ Hr E1) as [-> _].
    repeat (let y := fresh "y" in let F := fresh "F" in apply bind_ok in Hp; destruct Hp as (y & F & Hp)).
    match type of Hp with context [bits_ok ?e] => destruct (bits_ok e) end; cbn [negb] in Hp; [|discriminate]. inversion Hp. reflexivity.
Qed.

Lemma si_raw_agree ts : forall ss, Forall2 (fun t s => t_tag t = T_SEQ /\ parse_si t = Ok s) ts ss -> map si_raw ss = map t_full ts.
Proof.
  induction ts as [|t ts IH]; intros ss H; inversion H; subst; cbn [map]; [reflexivity|].
  destruct H2 as [_ Hp]. rewrite (parse_si_raw _ _ Hp). f_equal. apply IH. assumption.
Qed.

Lemma sd_spec_agree body sd ver dal eci rest cl rl sis sl tbs :
  all_bytes body = true -> parse_sd_body body = Ok sd -> read_all body = Ok (ver :: dal :: eci :: rest) ->
  (let (certs, rest1) := spec_split_optional 160 rest in
   let (crls, rest2) := spec_split_optional 161 rest1 in
   certs = Some cl /\ crls = Some rl /\ rest2 = [sis]) ->
  children sis = Some sl -> all_some (map spec_tbs rl) = Some tbs ->
  regions_of sd = mkReg (t_full eci) (sort_b (map t_full cl)) tbs (sort_b (map t_full sl)).
Proof.
  intros Hb H Hall Hsplit Hsl Htbs.
  apply read_all_cons in Hall as (_ & _ & Hvs1 & Hr1 & Hall); [|exact Hb].
  apply read_all_cons in Hall as (_ & _ & Hvs2 & Hr2 & Hall); [|apply all_bytes_concat_valid; exact Hvs1].
  apply read_all_cons in Hall as (_ & _ & Hvs3 & Hr3 & Hall); [|apply all_bytes_concat_valid; exact Hvs2].
  unfold parse_sd_body in H.
  apply bind_ok in H. destruct H as ([t1 rest1] & E1 & H). destruct (read_expect_det _ _ _ _ _ _ Hr1 E1) as [-> ->].
  cbn [fst snd] in H. destruct (int64_ok (t_body ver)); cbn [negb] in H; [|discriminate].
  apply bind_ok in H. destruct H as ([t2 rest2] & E2 & H). destruct (read_expect_det _ _ _ _ _ _ Hr2 E2) as [-> ->].
  apply bind_ok in H. destruct H as (dalgs & Ed & H).
  apply bind_ok in H. destruct H as ([t3 rest3] & E3 & H). cbn [snd] in E3. destruct (read_expect_det _ _ _ _ _ _ Hr3 E3) as [-> ->].
  apply bind_ok in H. destruct H as (ci & Eci & H). cbn [fst] in Eci.
  apply bind_ok in H. destruct H as ([o4 rest4] & E4 & H). cbn [snd] in E4. rewrite certs_opt_v, OCT_certs_v in E4.
  apply optional_agree in E4; [|exact Hvs3].
  apply bind_ok in H. destruct H as (certs & Ece & H). cbn [fst] in Ece.
  apply bind_ok in H. destruct H as ([o5 rest5] & E5 & H). cbn [snd] in E5. rewrite crls_opt_v, OCT_crls_v in E5.
  apply bind_ok in H. destruct H as (crls & Ecr & H). cbn [fst] in Ecr.
  apply bind_ok in H. destruct H as ([t6 rest6] & E6 & H). cbn [snd] in E6.
  apply bind_ok in H. destruct H as (ss & Esi & H). cbn [fst] in Esi.
  inversion H; subst sd; clear H. unfold regions_of. cbn [sd_ci sd_certs sd_crls sd_sis].
  rewrite (parse_ci_raw _ _ Eci).
  (* certificates *)
  assert (Hc : exists rest1', Forall valid rest1' /\
                 rest4 = concat (map t_full rest1') /\ sort_b (opt_list certs) = sort_b (map t_full cl) /\
                 (let (crls0, rest2) := spec_split_optional 161 rest1' in crls0 = Some rl /\ rest2 = [sis])).
  { destruct rest as [|c r].
    - cbn in Hsplit. destruct Hsplit as (_ & _ & Habs). discriminate.
    - inversion Hvs3; subst. cbn [spec_split_optional] in Hsplit. destruct (t_tag c =? 160) eqn:Et.
      + destruct E4 as [-> ->]. cbn [opt_certs] in Ece. apply bind_ok in Ece. destruct Ece as (ts & Ets & Ece). inversion Ece; subst.
        exists r. destruct (spec_split_optional 161 r) as [crls0 rest2'] eqn:E161. destruct Hsplit as (Hcl & Hrest).
        apply children_ok in Hcl; [|assumption]. rewrite Hcl in Ets. inversion Ets; subst.
        split; [assumption|]. split; [reflexivity|]. split; [reflexivity|]. exact Hrest.
      + destruct E4 as [-> ->]. cbn [opt_certs] in Ece. inversion Ece; subst. exists (c :: r).
        destruct (spec_split_optional 161 (c :: r)) as [crls0 rest2'] eqn:E161. destruct Hsplit as (Hcl & Hrest). inversion Hcl; subst.
        split; [assumption|]. split; [reflexivity|]. split; [reflexivity|]. exact Hrest. }
  destruct Hc as (rest1' & Hv1' & -> & Hcerts & Hsplit2). rewrite Hcerts.
  apply optional_agree in E5; [|exact Hv1'].
  (* CRLs *)
  assert (Hr : exists rest2', Forall valid rest2' /\ rest5 = concat (map t_full rest2') /\ rest2' = [sis] /\ map c_tbs (opt_list crls) = tbs).
  { destruct rest1' as [|c r].
    - cbn in Hsplit2. destruct Hsplit2 as (_ & Habs). discriminate.
    - inversion Hv1'; subst. cbn [spec_split_optional] in Hsplit2. destruct (t_tag c =? 161) eqn:Et.
      + destruct E5 as [-> ->]. cbn [opt_crls] in Ecr. apply bind_ok in Ecr. destruct Ecr as (cs & Ecs & Ecr). inversion Ecr; subst.
        destruct Hsplit2 as (Hch & ->). apply children_ok in Hch; [|assumption].
        apply parse_list_inv in Ecs as (ts & Hcat & Hvts & Hf); [|apply valid_body_bytes; assumption].
        assert (ts = rl).
        { pose proof (read_all_concat ts Hvts) as R. rewrite <- Hcat in R. rewrite Hch in R. inversion R. reflexivity. }
        subst ts. exists [sis]. split; [assumption|]. split; [reflexivity|]. split; [reflexivity|]. cbn [opt_list].
        apply (crl_tbs_agree rl cs tbs Hvts Hf Htbs).
      + destruct E5 as [-> ->]. cbn [opt_crls] in Ecr. inversion Ecr; subst. destruct Hsplit2 as (Hrl & Hrest). inversion Hrl; subst.
        cbn [map all_some] in Htbs. inversion Htbs; subst. exists (c :: r). split; [assumption|]. split; [reflexivity|]. split; [exact Hrest|reflexivity]. }
  destruct Hr as (rest2' & Hv2' & -> & -> & Hcrl). rewrite Hcrl. f_equal.
  (* signer infos *)
  inversion Hv2'; subst. cbn [map concat] in E6.
  pose proof (read_tlv_valid sis [] H1) as Rs.
  destruct (read_expect_det _ _ _ _ _ _ Rs E6) as [-> ->].
  apply children_ok in Hsl; [|assumption].
  apply parse_list_inv in Esi as (ts & Hcat & Hvts & Hf); [|apply valid_body_bytes; assumption].
  assert (ts = sl).
  { pose proof (read_all_concat ts Hvts) as R. rewrite <- Hcat in R. rewrite Hsl in R. inversion R. reflexivity. }
  subst ts. rewrite (si_raw_agree _ _ Hf). reflexivity.
Qed.

Lemma one_ok x t : all_bytes x = true -> one x = Some t -> x = t_full t /\ valid t /\ read_tlv x = Ok (t, []).
Proof.
  unfold one. intros Hb H. destruct (read_all x) as [[|t' [|]]| |] eqn:E; try discriminate. inversion H; subst.
  apply read_all_cons in E as (Hl & Hv & _ & Hr & _); [|exact Hb]. cbn [map concat] in *. rewrite app_nil_r in Hl. auto.
Qed.

(* on every input that is a strict DER SignedData in the sense of RFC 5652, the regions the model keeps are the regions the
   independent walker finds *)
Theorem model_agrees_with_spec x o r :
  all_bytes x = true -> parse_cms x = Ok o -> spec_regions x = Some r -> cms_regions o = Some r.
Proof.
  intros Hb H Hs. unfold spec_regions in Hs.
  destruct (one x) as [top|] eqn:Eone; [|discriminate]. apply one_ok in Eone as (Hx & Hvtop & Hrtop); [|exact Hb].
  destruct (t_tag top =? 48) eqn:Ettop; cbn [negb] in Hs; [|discriminate].
  destruct (children top) as [[|ct [|wrap [|]]]|] eqn:Ectop; try discriminate.
  destruct ((t_tag ct =? 6) && (t_tag wrap =? 160)) eqn:Etags; cbn [negb] in Hs; [|discriminate].
  apply andb_true_iff in Etags as [Etct Etw].
  destruct (children wrap) as [[|sdt [|]]|] eqn:Ecw; try discriminate.
  destruct (t_tag sdt =? 48) eqn:Etsd; cbn [negb] in Hs; [|discriminate].
  destruct (children sdt) as [[|ver [|dal [|eci rest]]]|] eqn:Ecsd; try discriminate.
  destruct ((t_tag ver =? 2) && (t_tag dal =? 49) && (t_tag eci =? 48)); cbn [negb] in Hs; [|discriminate].
  destruct (spec_split_optional 160 rest) as [certs rest1] eqn:E160.
  destruct (spec_split_optional 161 rest1) as [crls rest2] eqn:E161.
  destruct certs as [cl|]; [|discriminate]. destruct crls as [rl|]; [|discriminate].
  destruct rest2 as [|sis [|]]; try discriminate.
  destruct (t_tag sis =? 49); cbn [negb] in Hs; [|discriminate].
  destruct (children sis) as [sl|] eqn:Ecsis; [|discriminate].
  destruct (all_some (map spec_tbs rl)) as [tbs|] eqn:Etbs; [|discriminate].
  destruct (forallb (fun s => t_tag s =? 48) sl); [|discriminate]. inversion Hs; subst r; clear Hs.
  (* the model's reads *)
  unfold parse_cms in H. rewrite layout_ok_true in H. cbn [negb] in H.
  apply bind_ok in H. destruct H as ([t rest0] & E & H). destruct (read_expect_det _ _ _ _ _ _ Hrtop E) as [-> ->].
  apply bind_ok in H. destruct H as (o' & Eb & H). cbn [fst snd] in Eb, H. rewrite trailing_nil in H. inversion H; subst o'; clear H.
  apply children_ok in Ectop; [|exact Hvtop].
  apply read_all_cons in Ectop as (_ & _ & Hv1 & Hr1 & Hall1); [|apply valid_body_bytes; exact Hvtop].
  inversion Hv1 as [|? ? Hvw _]; subst. cbn [map concat] in Hr1, Hall1. rewrite app_nil_r in Hr1.
  unfold parse_cms_body in Eb.
  apply bind_ok in Eb. destruct Eb as ([t1 rest1'] & E1 & Eb). destruct (read_expect_det _ _ _ _ _ _ Hr1 E1) as [-> ->].
  cbn [fst snd] in Eb. destruct (oid_ok (t_body ct)); cbn [negb] in Eb; [|discriminate].
  destruct (valid_nonempty wrap Hvw) as (b & rr & Hbr). rewrite Hbr in Eb. rewrite <- Hbr in Eb.
  pose proof (read_hdr_valid wrap [] Hvw) as Hh. rewrite !app_nil_r in Hh. rewrite Hh in Eb. cbn [bind] in Eb.
  apply children_ok in Ecw; [|exact Hvw].
  apply read_all_cons in Ecw as (Hlw & Hvsd & _ & Hrw & _); [|apply valid_body_bytes; exact Hvw].
  cbn [map concat] in Hlw, Hrw. rewrite app_nil_r in Hlw.
  destruct (valid_nonempty sdt Hvsd) as (b2 & rr2 & Hbr2).
  rewrite Hlw in Eb. rewrite Hbr2 in Eb. rewrite <- Hbr2 in Eb.
  rewrite OCT_explicit_v in Eb. rewrite Etw in Eb. cbn [orb] in Eb.
  replace (zlen (t_full sdt) >? 0) with true in Eb by (rewrite Hbr2, zlen_cons; pose proof (zlen_nonneg rr2); lia).
  pose proof (read_hdr_valid sdt [] Hvsd) as Hh2. rewrite !app_nil_r in Hh2. rewrite Hh2 in Eb. cbn [bind] in Eb.
  change T_SEQ with 48 in Eb. rewrite Etsd in Eb.
  rewrite Hlw in Hrw. rewrite Hrw in Eb. cbn [bind fst] in Eb.
  apply bind_ok in Eb. destruct Eb as (sd & Esd & Eb). inversion Eb; subst o; clear Eb.
  unfold cms_regions. cbn [o_sd option_map]. f_equal.
  apply children_ok in Ecsd; [|exact Hvsd].
  apply (sd_spec_agree (t_body sdt) sd ver dal eci rest cl rl sis sl tbs (valid_body_bytes _ Hvsd) Esd Ecsd);
    [rewrite E160, E161; auto|exact Ecsis|exact Etbs].
Qed.
