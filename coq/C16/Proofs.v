(* C16/Proofs.v — the SignedData model: what parsing establishes, re-parsing of what is emitted, regions, attribute digest
   preimage, builder attributes, timestamp embedding, agreement with the RFC 5652 walker. *)
From Relic Require Import Base.Prelude Base.Enc Generated.C16_gen C16.Model C16.Tlv.

Local Open Scope Z_scope.

(* ------------------------------------------------------------------ the values srcgen read from lib/pkcs7 (re-checked on every build) *)
Lemma layout_ok_true : layout_ok = true. Proof. vm_compute. reflexivity. Qed.
Lemma OCT_dalgs_v : OCT_dalgs = 49. Proof. reflexivity. Qed.
Lemma OCT_certs_v : OCT_certs = 160. Proof. reflexivity. Qed.
Lemma OCT_crls_v : OCT_crls = 161. Proof. reflexivity. Qed.
Lemma OCT_sis_v : OCT_sis = 49. Proof. reflexivity. Qed.
Lemma OCT_auth_v : OCT_auth = 160. Proof. reflexivity. Qed.
Lemma OCT_unauth_v : OCT_unauth = 161. Proof. reflexivity. Qed.
Lemma OCT_explicit_v : OCT_explicit = 160. Proof. reflexivity. Qed.
Lemma OCT_explicit_prim_v : OCT_explicit_prim = 128. Proof. reflexivity. Qed.
Lemma certs_opt_v : SD_Certificates_opt = true. Proof. reflexivity. Qed.
Lemma crls_opt_v : SD_CRLs_opt = true. Proof. reflexivity. Qed.
Lemma certs_set_v : certs_set = false. Proof. reflexivity. Qed.
Lemma dalgs_set_v : SD_DigestAlgorithmIdentifiers_set = true. Proof. reflexivity. Qed.
Lemma sis_set_v : SD_SignerInfos_set = true. Proof. reflexivity. Qed.
Lemma auth_opt_v : SI_AuthenticatedAttributes_opt = true. Proof. reflexivity. Qed.
Lemma unauth_opt_v : SI_UnauthenticatedAttributes_opt = true. Proof. reflexivity. Qed.
Lemma auth_set_v : SI_AuthenticatedAttributes_set || attrs_set = false. Proof. reflexivity. Qed.
Lemma unauth_set_v : SI_UnauthenticatedAttributes_set || attrs_set = false. Proof. reflexivity. Qed.
Lemma attrs_set_v : attrs_set = false. Proof. reflexivity. Qed.
Lemma si_keeps_raw_v : si_keeps_raw = true. Proof. reflexivity. Qed.
Lemma ci_keeps_raw_v : ci_keeps_raw = true. Proof. reflexivity. Qed.

Lemma tag_ok_const t : (0 <=? t) && (t <? 256) && negb (t mod 32 =? 31) = true -> tag_ok t.
Proof. intros H. unfold tag_ok. lia. Qed.
Ltac tagok := apply tag_ok_const; reflexivity.

(* ------------------------------------------------------------------ plumbing *)
Lemma bind_ok {A B} (r : result A) (k : A -> result B) v :
  (x <- r ;; k x) = Ok v -> exists x, r = Ok x /\ k x = Ok v.
Proof. destruct r; cbn; intros H; try discriminate. eauto. Qed.

Ltac inv_bind H :=
  let x := fresh "x" in let E := fresh "E" in
  apply bind_ok in H; destruct H as (x & E & H).

Lemma read_expect_inv oct l t rest : read_expect oct l = Ok (t, rest) -> read_tlv l = Ok (t, rest) /\ t_tag t = oct.
Proof.
  unfold read_expect. intros H. inv_bind H. destruct x as [t' r']. cbn [fst] in H.
  destruct (t_tag t' =? oct) eqn:Et; [|discriminate]. inversion H; subst. split; [exact E|lia].
Qed.
Lemma read_expect_valid oct t rest : valid t -> t_tag t = oct -> read_expect oct (t_full t ++ rest) = Ok (t, rest).
Proof.
  intros Hv Ht. unfold read_expect. rewrite read_tlv_valid by exact Hv. cbn [bind fst]. rewrite Ht, Z.eqb_refl. reflexivity.
Qed.
Lemma read_expect_enc oct body rest : tag_ok oct -> small body ->
  read_expect oct (enc_tlv oct body ++ rest) = Ok (mkTlv oct body (enc_tlv oct body), rest).
Proof.
  intros Ht Hs. unfold read_expect. rewrite read_tlv_enc by assumption. cbn [bind fst t_tag]. rewrite Z.eqb_refl. reflexivity.
Qed.

(* what one read establishes *)
Lemma read_expect_ok oct l t rest : all_bytes l = true -> read_expect oct l = Ok (t, rest) ->
  l = t_full t ++ rest /\ valid t /\ t_tag t = oct /\ all_bytes rest = true.
Proof.
  intros Hb H. apply read_expect_inv in H as [H Ht]. apply read_tlv_ok in H as (Hl & Hv & Hr); [|exact Hb]. tauto.
Qed.

Lemma valid_body_bytes t : valid t -> all_bytes (t_body t) = true.
Proof. intros (_ & _ & _ & H). exact H. Qed.
Lemma valid_small t : valid t -> small (t_body t).
Proof. intros (_ & _ & H & _). exact H. Qed.

(* optional fields *)
Lemma read_optional_present opt oct t rest : valid t -> t_tag t = oct ->
  read_optional opt oct (t_full t ++ rest) = Ok (Some t, rest).
Proof.
  intros Hv Ht. unfold read_optional.
  destruct (valid_nonempty t Hv) as (b & r & Hbr).
  rewrite Hbr at 1. cbn [app]. rewrite read_hdr_valid by exact Hv. cbn [bind]. rewrite Ht, Z.eqb_refl.
  rewrite read_tlv_valid by exact Hv. reflexivity.
Qed.
Lemma read_optional_absent_nil oct : read_optional true oct [] = Ok (None, []).
Proof. reflexivity. Qed.
Lemma read_optional_absent oct t rest : valid t -> t_tag t <> oct ->
  read_optional true oct (t_full t ++ rest) = Ok (None, t_full t ++ rest).
Proof.
  intros Hv Ht. unfold read_optional.
  destruct (valid_nonempty t Hv) as (b & r & Hbr).
  rewrite Hbr at 1. cbn [app]. rewrite read_hdr_valid by exact Hv. cbn [bind].
  replace (t_tag t =? oct) with false by lia. reflexivity.
Qed.
(* what reading an optional field establishes *)
Lemma read_optional_ok oct l o rest : all_bytes l = true -> read_optional true oct l = Ok (o, rest) ->
  match o with
  | Some t => l = t_full t ++ rest /\ valid t /\ t_tag t = oct /\ all_bytes rest = true
  | None => rest = l
  end.
Proof.
  intros Hb H. unfold read_optional in H. destruct l as [|b l'].
  - inversion H; subst. reflexivity.
  - inv_bind H. destruct x as [[tag len] r]. destruct (tag =? oct) eqn:Et.
    + inv_bind H. inversion H; subst. destruct x as [t rest']. cbn [fst snd].
      apply read_tlv_ok in E0 as (Hl & Hv & Hr); [|exact Hb].
      split; [exact Hl|]. split; [exact Hv|]. split; [|exact Hr].
      (* the tag read by read_hdr is the tag of the element *)
      rewrite Hl in E. rewrite read_hdr_valid in E by exact Hv. inversion E; subst. lia.
    + inversion H; subst. reflexivity.
Qed.

Lemma map_res_inv {A B} (f : A -> result B) l : forall vs, map_res f l = Ok vs -> Forall2 (fun a v => f a = Ok v) l vs.
Proof.
  induction l as [|a l IH]; intros vs H; cbn [map_res] in H.
  - inversion H; subst. constructor.
  - inv_bind H. inv_bind H. inversion H; subst. constructor; [exact E|]. apply IH. exact E0.
Qed.
Lemma map_res_ok {A B} (f : A -> result B) l vs : Forall2 (fun a v => f a = Ok v) l vs -> map_res f l = Ok vs.
Proof. induction 1; cbn [map_res]; [reflexivity|]. rewrite H, IHForall2. reflexivity. Qed.

Lemma parse_list_inv {A} oct (f : tlv -> result A) body vs : all_bytes body = true -> parse_list oct f body = Ok vs ->
  exists ts, body = concat (map t_full ts) /\ Forall valid ts /\ Forall2 (fun t v => t_tag t = oct /\ f t = Ok v) ts vs.
Proof.
  intros Hb H. unfold parse_list in H. inv_bind H. apply read_all_ok in E as (Hl & Hv); [|exact Hb].
  exists x. split; [exact Hl|]. split; [exact Hv|].
  apply map_res_inv in H. clear - H. induction H as [|t v ts vs Hf _ IH]; constructor; auto.
  destruct (t_tag t =? oct) eqn:Et; [|discriminate]. split; [lia|exact Hf].
Qed.
Lemma parse_list_emit {A} oct (f : tlv -> result A) (mk : A -> tlv) vs :
  Forall (fun v => valid (mk v) /\ t_tag (mk v) = oct /\ f (mk v) = Ok v) vs ->
  parse_list oct f (concat (map (fun v => t_full (mk v)) vs)) = Ok vs.
Proof.
  intros H. unfold parse_list.
  replace (map (fun v => t_full (mk v)) vs) with (map t_full (map mk vs)) by (rewrite map_map; reflexivity).
  rewrite read_all_concat.
  - cbn [bind]. apply map_res_ok. clear - H. induction H as [|v vs (Hv & Ht & Hf) _ IH]; cbn [map]; constructor; [|exact IH].
    rewrite Ht, Z.eqb_refl. exact Hf.
  - clear - H. induction H as [|v vs (Hv & _) _ IH]; cbn [map]; constructor; assumption.
Qed.

Lemma small_concat ls : small (concat ls) -> Forall small ls.
Proof.
  induction ls as [|l ls IH]; intros H; [constructor|]. cbn [concat] in H. apply small_app in H as [H1 H2]. constructor; auto.
Qed.
Lemma concat_map_sort_on {A} (key : A -> bytes) l : concat (sort_b (map key l)) = concat (map key (sort_on key l)).
Proof. rewrite map_sort_on. reflexivity. Qed.
Lemma Forall_small_perm_sort ls : Forall small ls -> Forall small (sort_b ls).
Proof. intros H. rewrite <- sort_on_id_key. apply Forall_sort_on. exact H. Qed.
Lemma small_concat_sort ls : small (concat (sort_b ls)) -> Forall small ls.
Proof.
  intros H. apply small_concat in H. rewrite Forall_forall in *. intros x Hx. apply H. apply In_sort_b. exact Hx.
Qed.

(* ------------------------------------------------------------------ AlgorithmIdentifier *)
Definition alg_body (a : algid) : bytes := enc_tlv T_OID (a_oid a) ++ a_params a.
Definition mk_alg (a : algid) : tlv := mkTlv T_SEQ (alg_body a) (emit_algid a).
Definition wf_alg (a : algid) : Prop :=
  oid_ok (a_oid a) = true /\ all_bytes (a_oid a) = true /\ small (a_oid a) /\
  (a_params a = [] \/ exists p, valid p /\ a_params a = t_full p).

Lemma parse_algid_wf body a : all_bytes body = true -> parse_algid body = Ok a -> wf_alg a.
Proof.
  intros Hb H. unfold parse_algid in H. inv_bind H. destruct x as [t rest].
  apply read_expect_ok in E as (Hl & Hv & Ht & Hr); [|exact Hb]. cbn [fst snd] in H.
  destruct (oid_ok (t_body t)) eqn:Eo; cbn [negb] in H; [|discriminate].
  destruct rest as [|b r].
  - inversion H; subst. unfold wf_alg. cbn. repeat split; auto using valid_body_bytes, valid_small.
  - inv_bind H. destruct x as [p rest2]. inversion H; subst. cbn [fst].
    apply read_tlv_ok in E as (Hl2 & Hv2 & _); [|exact Hr].
    unfold wf_alg. cbn. repeat split; auto using valid_body_bytes, valid_small. right. eauto.
Qed.
Lemma alg_body_bytes a : wf_alg a -> all_bytes (alg_body a) = true.
Proof.
  intros (Ho & Hb & Hs & Hp). unfold alg_body. apply all_bytes_app_iff. split.
  - apply (valid_full_bytes (mkTlv T_OID (a_oid a) (enc_tlv T_OID (a_oid a)))). apply valid_enc; [tagok|assumption|assumption].
  - destruct Hp as [->|(p & Hv & ->)]; [reflexivity|]. apply valid_full_bytes. exact Hv.
Qed.
Lemma algid_reparse a : wf_alg a -> small (emit_algid a) ->
  valid (mk_alg a) /\ t_tag (mk_alg a) = T_SEQ /\ parse_algid (t_body (mk_alg a)) = Ok a.
Proof.
  intros Hw Hs. pose proof (alg_body_bytes a Hw) as Hbb. destruct Hw as (Ho & Hb & Hso & Hp).
  unfold emit_algid in Hs. apply small_enc_tlv in Hs. fold (alg_body a) in Hs.
  split; [|split; [reflexivity|]].
  - unfold mk_alg, emit_algid. fold (alg_body a). apply valid_enc; [tagok|assumption|assumption].
  - cbn [mk_alg t_body]. unfold parse_algid, alg_body.
    rewrite read_expect_enc by (try tagok; assumption). cbn [bind fst snd t_body]. rewrite Ho. cbn [negb].
    destruct Hp as [Hp|(p & Hv & Hp)]; rewrite Hp.
    + destruct a; cbn in *; subst; reflexivity.
    + destruct (valid_nonempty p Hv) as (b & r & Hbr). rewrite Hbr. rewrite <- Hbr.
      rewrite <- (app_nil_r (t_full p)) at 1. rewrite read_tlv_valid by exact Hv. cbn [bind fst].
      destruct a; cbn in *; subst; reflexivity.
Qed.

(* ------------------------------------------------------------------ structs that keep their raw encoding: SignerInfo, ContentInfo *)
Definition mk_raw (raw : bytes) : tlv := mkTlv T_SEQ (strip_hdr raw) raw.
Lemma mk_raw_valid t : valid t -> t_tag t = T_SEQ -> mk_raw (t_full t) = t.
Proof.
  intros Hv Ht. unfold mk_raw, strip_hdr.
  pose proof (read_hdr_valid t [] Hv) as H. rewrite !app_nil_r in H. rewrite H. rewrite <- Ht. symmetry. apply tlv_eta.
Qed.

Lemma parse_si_raw t s : parse_si t = Ok s -> si_raw s = t_full t.
Proof.
  unfold parse_si. intros H.
  repeat (let x := fresh "x" in let E := fresh "E" in apply bind_ok in H; destruct H as (x & E & H);
          try match type of H with (if ?c then _ else _) = _ => destruct c; [discriminate|] end).
  inversion H; subst. reflexivity.
Qed.
(* a SignerInfo that came out of the parser *)
Definition wf_si (s : sinfo) : Prop := exists t, valid t /\ t_tag t = T_SEQ /\ parse_si t = Ok s.
Lemma wf_si_mk s : wf_si s -> valid (mk_raw (si_raw s)) /\ t_tag (mk_raw (si_raw s)) = T_SEQ /\ parse_si (mk_raw (si_raw s)) = Ok s.
Proof.
  intros (t & Hv & Ht & Hp). rewrite (parse_si_raw t s Hp). rewrite mk_raw_valid by assumption. tauto.
Qed.
Lemma emit_si_wf s : wf_si s -> emit_si s = si_raw s.
Proof.
  intros (t & Hv & Ht & Hp). unfold emit_si. rewrite (parse_si_raw t s Hp).
  destruct (valid_nonempty t Hv) as (b & r & Hbr). rewrite Hbr. rewrite <- Hbr. rewrite si_keeps_raw_v.
  rewrite <- Ht. apply emit_raw_valid. exact Hv.
Qed.

Definition wf_ci (c : cinfo) : Prop := exists t, valid t /\ t_tag t = T_SEQ /\ parse_ci t = Ok c.
Lemma parse_ci_raw t c : parse_ci t = Ok c -> ci_raw c = t_full t.
Proof.
  unfold parse_ci. intros H. inv_bind H. destruct (oid_ok (t_body (fst x))); [|discriminate]. inversion H; subst. reflexivity.
Qed.
Lemma emit_ci_wf c : wf_ci c -> emit_ci c = ci_raw c.
Proof.
  intros (t & Hv & Ht & Hp). unfold emit_ci. rewrite (parse_ci_raw t c Hp).
  destruct (valid_nonempty t Hv) as (b & r & Hbr). rewrite Hbr. rewrite <- Hbr. rewrite ci_keeps_raw_v.
  rewrite <- Ht. apply emit_raw_valid. exact Hv.
Qed.
Lemma wf_ci_mk c : wf_ci c -> valid (mk_raw (ci_raw c)) /\ t_tag (mk_raw (ci_raw c)) = T_SEQ /\ parse_ci (mk_raw (ci_raw c)) = Ok c.
Proof.
  intros (t & Hv & Ht & Hp). rewrite (parse_ci_raw t c Hp). rewrite mk_raw_valid by assumption. tauto.
Qed.

(* ------------------------------------------------------------------ CertificateList (region level) *)
Definition crl_body (c : crl) : bytes :=
  emit_raw T_SEQ (c_tbs c) ++ emit_algid (c_alg c) ++ enc_tlv T_BITS (enc_bits (c_sig c)).
Definition mk_crl (c : crl) : tlv := mkTlv T_SEQ (crl_body c) (emit_crl c).
Definition wf_crl (c : crl) : Prop :=
  (exists t, valid t /\ t_tag t = T_SEQ /\ c_tbs c = t_full t) /\ wf_alg (c_alg c) /\
  bits_ok (c_sig c) = true /\ all_bytes (c_sig c) = true /\ small (c_sig c).

Lemma parse_crl_wf t c : valid t -> parse_crl t = Ok c -> wf_crl c.
Proof.
  intros Hv H. unfold parse_crl in H.
  inv_bind H. destruct x as [t1 rest1]. apply read_expect_ok in E as (Hl1 & Hv1 & Ht1 & Hr1); [|apply valid_body_bytes; exact Hv].
  inv_bind H. destruct x as [t2 rest2]. cbn [snd] in E. apply read_expect_ok in E as (Hl2 & Hv2 & Ht2 & Hr2); [|exact Hr1].
  inv_bind H. cbn [fst] in E. apply parse_algid_wf in E; [|apply valid_body_bytes; exact Hv2].
  inv_bind H. destruct x0 as [t3 rest3]. cbn [snd] in E0. apply read_expect_ok in E0 as (Hl3 & Hv3 & Ht3 & Hr3); [|exact Hr2].
  cbn [fst] in H. destruct (bits_ok (t_body t3)) eqn:Eb; cbn [negb] in H; [|discriminate].
  inversion H; subst. unfold wf_crl. cbn [c_tbs c_alg c_sig]. split; [eauto|]. split; [exact E|].
  repeat split; auto using valid_body_bytes, valid_small.
Qed.
Lemma crl_reparse c : wf_crl c -> small (emit_crl c) ->
  valid (mk_crl c) /\ t_tag (mk_crl c) = T_SEQ /\ parse_crl (mk_crl c) = Ok c.
Proof.
  intros ((t & Hv & Ht & Htbs) & Ha & Hb & Hbb & Hbs) Hs.
  unfold emit_crl in Hs. apply small_enc_tlv in Hs. fold (crl_body c) in Hs.
  pose proof Hs as Hs'. unfold crl_body in Hs'. apply small_app in Hs' as [_ Hs']. apply small_app in Hs' as [Hsa _].
  destruct (algid_reparse _ Ha Hsa) as (Hva & _ & Hpa).
  assert (Eraw : emit_raw T_SEQ (c_tbs c) = t_full t) by (rewrite Htbs, <- Ht; apply emit_raw_valid; exact Hv).
  assert (Hvb : valid (mkTlv T_BITS (c_sig c) (enc_tlv T_BITS (c_sig c)))) by (apply valid_enc; [tagok|assumption|assumption]).
  assert (Hbytes : all_bytes (crl_body c) = true).
  { unfold crl_body. rewrite Eraw, (enc_bits_id _ Hbb Hb). apply all_bytes_app_iff. split; [apply valid_full_bytes; exact Hv|].
    apply all_bytes_app_iff. split; [apply (valid_full_bytes _ Hva)|apply (valid_full_bytes _ Hvb)]. }
  split; [|split; [reflexivity|]].
  - unfold mk_crl, emit_crl. fold (crl_body c). apply valid_enc; [tagok|assumption|assumption].
  - unfold parse_crl. cbn [mk_crl t_body]. unfold crl_body. rewrite Eraw.
    rewrite read_expect_valid by assumption. cbn [bind fst snd].
    change (emit_algid (c_alg c)) with (t_full (mk_alg (c_alg c))).
    rewrite read_expect_valid by (try exact Hva; reflexivity). cbn [bind fst snd]. rewrite Hpa. cbn [bind].
    rewrite (enc_bits_id _ Hbb Hb).
    rewrite <- (app_nil_r (enc_tlv T_BITS (c_sig c))). rewrite read_expect_enc by (try tagok; assumption).
    cbn [bind fst snd t_body t_full]. rewrite Hb. cbn [negb]. rewrite <- Htbs. destruct c; reflexivity.
Qed.

(* ------------------------------------------------------------------ certificates: raw values kept whole *)
Definition wf_raws (l : list bytes) : Prop := Forall (fun b => exists t, valid t /\ b = t_full t) l.
Lemma wf_raws_map ts : Forall valid ts -> wf_raws (map t_full ts).
Proof. induction 1; cbn; constructor; eauto. Qed.
Lemma wf_raws_read l : wf_raws l -> exists ts, Forall valid ts /\ l = map t_full ts.
Proof.
  induction 1 as [|b l (t & Hv & ->) _ (ts & Hvs & ->)]; [exists []; split; [constructor|reflexivity]|].
  exists (t :: ts). split; [constructor; assumption|reflexivity].
Qed.
