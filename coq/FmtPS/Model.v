(* FmtPS/Model.v — executable byte-level models of two signature formats, definitions only:
   (ps_)  PowerShell script signatures: lib/authenticode/powershell.go  DigestPowershell / detectUtf16 / readLine /
          PsDigest.MakePatch / VerifyPowershell (+ binpatch application of the one patch), styles ps1 / ps1xml / mof;
   (deb_) Debian package signatures: lib/signdeb Sign / Verify / checkSig over the `ar` framing of github.com/blakesmith/ar.
   Constants, marker strings, style tables, string-building expressions and branch conditions come from
   Generated/FmtPS_gen.v (srcgen).  Go library functions the code leans on (UTF-8 decoding of []rune(string),
   utf16.Encode/Decode, base64.StdEncoding, strconv.ParseInt/FormatInt, the ar reader/writer) are modelled by hand here
   and are part of the correspondence check.  The second half of the file holds the INDEPENDENT specifications, written
   from the public format descriptions (RFC 3629 / RFC 2781 / RFC 4648, the PowerShell signature block layout, the common
   ar format and the debsigs member convention), not from relic's code. *)
From Relic Require Import Base.Prelude Base.Enc Generated.FmtPS_gen.
From Coq Require String Ascii.

(* ------------------------------------------------------------------ error classes (shared with the harness) *)
Definition E_STYLE := 1.       (* invalid powershell signature style *)
Definition E_UTF16 := 2.       (* malformed utf16 *)
Definition E_MALFORMED := 3.   (* malformed powershell signature *)
Definition E_B64 := 4.         (* base64 CorruptInputError *)
Definition E_EOF := 5.         (* verifier: EOF inside an unterminated signature block *)
Definition E_COPY := 6.        (* binpatch: patch offset beyond the end of the file *)
Definition E_DOMAIN := 7.      (* guarded embed: outside the stated well-formedness domain *)
Definition E_SHORT := 10.      (* ar: unexpected EOF inside a member header *)
Definition E_CONTROL := 11.    (* control.tar unreadable / unrecognised compression / no Package+Version *)
Definition E_NOCONTROL := 12.  (* deb has no control.tar *)
Definition E_UNKNOWN := 13.    (* checkSig: signature references unknown file *)
Definition E_MISMATCH := 14.   (* checkSig: signature mismatch on file *)
Definition E_UNCOVERED := 15.  (* checkSig: signature does not cover file *)
Definition E_UNMODELLED := 90. (* no longer produced (member names with '/' are modelled through deb_norm); kept for the error tables *)

Module Lit.
  Import String Ascii.
  Local Open Scope string_scope.
  Fixpoint bytes_of_string (s : string) : bytes :=
    match s with EmptyString => [] | String a r => Z.of_N (N_of_ascii a) :: bytes_of_string r end.
  Definition s_sig_begin_signature_block : bytes := Eval vm_compute in bytes_of_string "SIG # Begin signature block".
  Definition s_sig_end_signature_block : bytes := Eval vm_compute in bytes_of_string "SIG # End signature block".
  Definition s_hash : bytes := Eval vm_compute in bytes_of_string "# ".
  Definition s_xml_open : bytes := Eval vm_compute in bytes_of_string "<!-- ".
  Definition s_xml_close : bytes := Eval vm_compute in bytes_of_string " -->".
  Definition s_c_open : bytes := Eval vm_compute in bytes_of_string "/* ".
  Definition s_c_close : bytes := Eval vm_compute in bytes_of_string " */".
  Definition s_arch : bytes := Eval vm_compute in bytes_of_string "!<arch>".
  Definition s_gpg : bytes := Eval vm_compute in bytes_of_string "_gpg".
End Lit.

(* ================================================================== Go library functions *)

(* ---- []rune(string): runtime.decoderune, one step on a non-empty input: (rune, width) *)
Definition RUNE_ERR : Z := 65533.
Definition is_cont (b : Z) : bool := (128 <=? b) && (b <=? 191).
Definition dec1 (b0 : Z) (r : bytes) : Z * Z :=
  if b0 <? 128 then (b0, 1)
  else if (192 <=? b0) && (b0 <? 224) then
    match r with
    | b1 :: _ =>
        let c := (b0 mod 32) * 64 + b1 mod 64 in
        if is_cont b1 && (127 <? c) then (c, 2) else (RUNE_ERR, 1)
    | _ => (RUNE_ERR, 1)
    end
  else if (224 <=? b0) && (b0 <? 240) then
    match r with
    | b1 :: b2 :: _ =>
        let c := (b0 mod 16) * 4096 + (b1 mod 64) * 64 + b2 mod 64 in
        if is_cont b1 && is_cont b2 && (2047 <? c) && negb ((55296 <=? c) && (c <=? 57343)) then (c, 3) else (RUNE_ERR, 1)
    | _ => (RUNE_ERR, 1)
    end
  else if (240 <=? b0) && (b0 <? 248) then
    match r with
    | b1 :: b2 :: b3 :: _ =>
        let c := (b0 mod 8) * 262144 + (b1 mod 64) * 4096 + (b2 mod 64) * 64 + b3 mod 64 in
        if is_cont b1 && is_cont b2 && is_cont b3 && (65535 <? c) && (c <=? 1114111) then (c, 4) else (RUNE_ERR, 1)
    | _ => (RUNE_ERR, 1)
    end
  else (RUNE_ERR, 1).
Fixpoint go_runes_n (n : nat) (l : bytes) : list Z :=
  match n with
  | O => []
  | S k => match l with
           | [] => []
           | b0 :: r => let '(c, w) := dec1 b0 r in c :: go_runes_n k (zdrop (w - 1) r)
           end
  end.
Definition go_runes (l : bytes) : list Z := go_runes_n (length l) l.

(* ---- utf16.Encode + binary.Write little endian *)
Definition u16_units (c : Z) : list Z :=
  if ((0 <=? c) && (c <? 55296)) || ((57344 <=? c) && (c <? 65536)) then [c]
  else if (65536 <=? c) && (c <=? 1114111) then
    [55296 + ((c - 65536) / 1024) mod 1024; 56320 + (c - 65536) mod 1024]
  else [RUNE_ERR].
Definition le16 (u : Z) : bytes := [u mod 256; u / 256].
(* toUtf16 / writeUtf16(.., false): UTF-8 text -> UTF-16LE bytes *)
Definition to_utf16 (l : bytes) : bytes := flat_map le16 (flat_map u16_units (go_runes l)).

(* ---- fromUtf16: binary.Read of len/2 units, utf16.Decode, string(runes) *)
Fixpoint units_of (l : bytes) : list Z :=
  match l with lo :: hi :: r => (lo + 256 * hi) :: units_of r | _ => [] end.
Fixpoint u16_decode (us : list Z) : list Z :=
  match us with
  | [] => []
  | u :: r =>
      if (u <? 55296) || (57344 <=? u) then u :: u16_decode r
      else if u <? 56320 then
        match r with
        | u2 :: r' => if (56320 <=? u2) && (u2 <? 57344)
                      then (65536 + (u - 55296) * 1024 + (u2 - 56320)) :: u16_decode r'
                      else RUNE_ERR :: u16_decode r
        | [] => [RUNE_ERR]
        end
      else RUNE_ERR :: u16_decode r
  end.
(* RFC 3629 encoding of one scalar value (also the specification's encoder) *)
Definition utf8_enc1 (c : Z) : bytes :=
  if c <? 128 then [c]
  else if c <? 2048 then [192 + c / 64; 128 + c mod 64]
  else if c <? 65536 then [224 + c / 4096; 128 + (c / 64) mod 64; 128 + c mod 64]
  else [240 + c / 262144; 128 + (c / 4096) mod 64; 128 + (c / 64) mod 64; 128 + c mod 64].
Definition valid_scalar (c : Z) : bool :=
  ((0 <=? c) && (c <? 55296)) || ((57344 <=? c) && (c <=? 1114111)).
Definition go_utf8_enc1 (c : Z) : bytes := if valid_scalar c then utf8_enc1 c else utf8_enc1 RUNE_ERR.
Definition from_utf16 (l : bytes) : bytes := flat_map go_utf8_enc1 (u16_decode (units_of l)).

(* ---- base64.StdEncoding *)
Definition b64_char (v : Z) : Z :=
  if v <? 26 then 65 + v else if v <? 52 then 71 + v else if v <? 62 then v - 4 else if v =? 62 then 43 else 47.
Fixpoint b64_enc (l : bytes) : bytes :=
  match l with
  | a :: b :: c :: r =>
      b64_char (a / 4) :: b64_char ((a mod 4) * 16 + b / 16) :: b64_char ((b mod 16) * 4 + c / 64) :: b64_char (c mod 64) :: b64_enc r
  | [a; b] => [b64_char (a / 4); b64_char ((a mod 4) * 16 + b / 16); b64_char ((b mod 16) * 4); 61]
  | [a] => [b64_char (a / 4); b64_char ((a mod 4) * 16); 61; 61]
  | [] => []
  end.
Definition b64_val (c : Z) : option Z :=
  if (65 <=? c) && (c <=? 90) then Some (c - 65)
  else if (97 <=? c) && (c <=? 122) then Some (c - 71)
  else if (48 <=? c) && (c <=? 57) then Some (c + 4)
  else if c =? 43 then Some 62
  else if c =? 47 then Some 63
  else None.
(* DecodeString on input without CR / LF (the decoder skips them everywhere) *)
Fixpoint b64_dec_q (l : bytes) : result bytes :=
  match l with
  | [] => Ok []
  | c0 :: c1 :: c2 :: c3 :: r =>
      match b64_val c0, b64_val c1 with
      | Some v0, Some v1 =>
          match b64_val c2 with
          | Some v2 =>
              match b64_val c3 with
              | Some v3 =>
                  rest <- b64_dec_q r ;;
                  Ok ((v0 * 4 + v1 / 16) :: ((v1 mod 16) * 16 + v2 / 4) :: ((v2 mod 4) * 64 + v3) :: rest)
              | None =>
                  if c3 =? 61 then
                    match r with [] => Ok [v0 * 4 + v1 / 16; (v1 mod 16) * 16 + v2 / 4] | _ => Err E_B64 end
                  else Err E_B64
              end
          | None =>
              if (c2 =? 61) && (c3 =? 61) then
                match r with [] => Ok [v0 * 4 + v1 / 16] | _ => Err E_B64 end
              else Err E_B64
          end
      | _, _ => Err E_B64
      end
  | _ => Err E_B64
  end.
Definition not_crlf (c : Z) : bool := negb ((c =? 13) || (c =? 10)).
Definition b64_dec (l : bytes) : result bytes := b64_dec_q (filter not_crlf l).

(* ---- strconv: FormatInt (base 10 / 8) and ParseInt(s, 10, 64) with the error ignored *)
Fixpoint digits_le (n : nat) (base z : Z) : bytes :=
  match n with
  | O => []
  | S k => (48 + z mod base) :: (if z <? base then [] else digits_le k base (z / base))
  end.
Definition fmt_base (base z : Z) : bytes :=
  if z <? 0 then 45 :: rev (digits_le 64 base (- z)) else rev (digits_le 64 base z).
Definition fmt_int : Z -> bytes := fmt_base 10.
Definition is_digit (c : Z) : bool := (48 <=? c) && (c <=? 57).
Definition parse_udec (l : bytes) : option Z :=
  match l with
  | [] => None
  | _ => if forallb is_digit l then Some (fold_left (fun a d => a * 10 + (d - 48)) l 0) else None
  end.
Definition go_parse_int (l : bytes) : Z :=
  match l with
  | c :: r =>
      if c =? 43 then match parse_udec r with Some v => v | None => 0 end
      else if c =? 45 then match parse_udec r with Some v => - v | None => 0 end
      else match parse_udec l with Some v => v | None => 0 end
  | [] => 0
  end.

(* ================================================================== PowerShell *)

Definition style_lookup (s : Z) : option (bytes * bytes) :=
  match find (fun e => fst e =? s) ps_styles with Some e => Some (snd e) | None => None end.

(* detectUtf16: Peek(2) succeeded and the bytes are FF FE *)
Definition ps_is16 (f : bytes) : bool :=
  match f with
  | b0 :: b1 :: _ => ps_bom_cond true b0 b1
  | _ => ps_bom_cond false 0 0
  end.
Definition ps_marker (is16 : bool) (s : bytes) : bytes := if is16 then to_utf16 s else s.
Definition ps_conv (is16 : bool) (l : bytes) : bytes := if is16 then l else to_utf16 l.

(* readLine over the whole input: (lines, ok).  ok = true: the last element is the line returned together with io.EOF
   (possibly empty); ok = false: every element was returned with a nil error and the next call fails ("malformed utf16"). *)
Fixpoint ps_lines (is16 : bool) (l : bytes) : list bytes * bool :=
  match l with
  | [] => ([[]], true)
  | b :: r =>
      if b =? ps_rl_delim then
        if ps_rl_more is16 true then
          match r with
          | [] => ([b :: ps_rl_pad], true)
          | z :: r' =>
              if ps_rl_bad z then ([], false)
              else let '(ls, ok) := ps_lines is16 r' in ((b :: ps_rl_pad) :: ls, ok)
          end
        else let '(ls, ok) := ps_lines is16 r in ([b] :: ls, ok)
      else
        let '(ls, ok) := ps_lines is16 r in
        match ls with
        | h :: t => ((b :: h) :: t, ok)
        | [] => ([], ok)
        end
  end.

(* DigestPowershell's loop over those lines *)
Inductive scanres :=
| SBad                                                       (* readLine error *)
| SMalf                                                      (* begin line found with no (or too short a) previous line: "malformed powershell signature" *)
| SPanic                                                     (* saved[:len(saved)-k] with a negative bound (excluded by the guard above; kept as the slice's own check) *)
| SText (found : bool) (pre : bytes) (tsz ssz : Z).          (* digest input, TextSize, SigSize *)
Definition sprepend (p : bytes) (n : Z) (r : scanres) : scanres :=
  match r with SText fd pre tsz ssz => SText fd (p ++ pre) (n + tsz) ssz | _ => r end.
Fixpoint dig_scan (is16 : bool) (first : bytes) (flen : Z) (ok : bool) (saved : bytes) (pos : Z) (ls : list bytes) : scanres :=
  match ls with
  | [] => SBad
  | line :: rest =>
      if ps_dig_is_first line first then
        if ps_dig_short is16 (zlen saved) then SMalf else
        let keep := if is16 then ps_dig_keep16 (zlen saved) else ps_dig_keep8 (zlen saved) in
        if keep <? 0 then SPanic else
        let saved' := ztake keep saved in
        let eol := if is16 then ps_dig_eol16 else ps_dig_eol8 in
        SText true (ps_conv is16 saved') (zlen saved')
              (eol + ps_dig_sig_line (zlen line) + Z.max 0 (flen - (pos + zlen line)))
      else
        sprepend (ps_conv is16 saved) (zlen saved)
          match rest with
          | [] => if ok then SText false (ps_conv is16 line) (zlen line) 0 else SBad
          | _ => dig_scan is16 first flen ok line (pos + zlen line) rest
          end
  end.

(* "malformed powershell signature": the first begin line has fewer than 2 (UTF-16: 4) bytes of a previous line in front of it *)
Definition begin_too_early (i : bool) (first saved : bytes) (ls : list bytes) : Prop :=
  exists Ls rest, ls = Ls ++ first :: rest /\ Forall (fun l => l <> first) Ls /\ zlen (List.last Ls saved) < (if i then 4 else 2).
Record psdig := mkDig { d_pre : bytes; d_tsz : Z; d_ssz : Z; d_is16 : bool; d_found : bool }.
Definition ps_digest (style : Z) (f : bytes) : result psdig :=
  match style_lookup style with
  | None => Err E_STYLE
  | Some (st, en) =>
      let is16 := ps_is16 f in
      let first := ps_marker is16 (ps_first_of st en) in
      let '(ls, ok) := ps_lines is16 f in
      match dig_scan is16 first (zlen f) ok [] 0 ls with
      | SBad => Err E_UTF16
      | SMalf => Err E_MALFORMED
      | SPanic => Panic 1
      | SText fd pre tsz ssz => Ok (mkDig pre tsz ssz is16 fd)
      end
  end.
(* hashin: the byte string fed to the content digest *)
Definition ps_hashin (style : Z) (f : bytes) : result bytes := d <- ps_digest style f ;; Ok (d_pre d).

(* PsDigest.MakePatch *)
Fixpoint mp_lines (fuel : nat) (st en b64 : bytes) (i : Z) : bytes :=
  match fuel with
  | O => []
  | S k =>
      if ps_mp_more i (zlen b64) then
        let j := ps_mp_chunk_end i in
        let j' := if ps_mp_clip j (zlen b64) then zlen b64 else j in
        ps_mp_line st (zslice i j' b64) en ++ mp_lines k st en b64 (i + ps_mp_step)
      else []
  end.
Definition ps_patch_text (st en blob : bytes) : bytes :=
  let b64 := b64_enc blob in
  ps_mp_head st en ++ mp_lines (S (length b64)) st en b64 0 ++ ps_mp_tail st en.
Definition ps_patch (st en : bytes) (is16 : bool) (blob : bytes) : bytes := ps_marker is16 (ps_patch_text st en blob).

(* embed: the patch (TextSize, SigSize, text) applied by binpatch (write-then-rename semantics, see C12) *)
Definition ps_embed (style : Z) (f blob : bytes) : result bytes :=
  match style_lookup style with
  | None => Err E_STYLE
  | Some (st, en) =>
      d <- ps_digest style f ;;
      if zlen f <? d_tsz d then Err E_COPY
      else Ok (ztake (d_tsz d) f ++ ps_patch st en (d_is16 d) blob ++ zdrop (d_tsz d + d_ssz d) f)
  end.

(* VerifyPowershell's loop: Ok None = NotSignedError, Ok (Some der) = the concatenated decoded lines *)
Fixpoint ver_scan (is16 : bool) (st en first last : bytes) (ok found : bool) (ls : list bytes) : result (option bytes) :=
  match ls with
  | [] => Err E_UTF16
  | line :: rest =>
      let is_eof := match rest with [] => ok | _ => false end in
      if ps_ver_notsigned is_eof found then Ok None
      else if is_eof then Err E_EOF
      else if ps_ver_is_last found line last then Ok (Some [])
      else if found then
        let lstr := if is16 then from_utf16 line else line in
        if ps_ver_malformed lstr st en then Err E_MALFORMED else
        let i := ps_ver_lo (zlen st) in
        let j := ps_ver_hi (zlen lstr) (zlen en) in
        if ps_ver_overlap i j then Err E_MALFORMED else
        if j <? i then Panic 2 else  (* the slice's own bound check; excluded by the guard above *)
        d <- b64_dec (zslice i j lstr) ;;
        r <- ver_scan is16 st en first last ok found rest ;;
        Ok (match r with Some acc => Some (d ++ acc) | None => None end)
      else if ps_ver_is_first line first then ver_scan is16 st en first last ok true rest
      else ver_scan is16 st en first last ok false rest
  end.
Definition ps_extract (style : Z) (f : bytes) : result (option bytes) :=
  match style_lookup style with
  | None => Err E_STYLE
  | Some (st, en) =>
      let is16 := ps_is16 f in
      let '(ls, ok) := ps_lines is16 f in
      ver_scan is16 st en (ps_marker is16 (ps_first_of st en)) (ps_marker is16 (ps_last_of st en)) ok false ls
  end.

(* ---- the well-formedness domain of the PowerShell laws (decidable): the style is known, the signer's scan neither fails
   nor panics, an existing block is preceded by exactly CR LF (what the signer strips), for an unsigned script the
   last line followed by CR LF is not itself the begin marker, and the lines are exactly the file (a UTF-16 file whose very
   last byte is a line feed gets a zero byte appended by readLine: outside the domain) *)
Fixpoint dom_scan (first crlf : bytes) (ok : bool) (saved : bytes) (ls : list bytes) : bool :=
  match ls with
  | [] => false
  | line :: rest =>
      if bytes_eqb line first then has_suffix saved crlf
      else match rest with
           | [] => ok && negb (bytes_eqb (line ++ crlf) first)
           | _ => dom_scan first crlf ok line rest
           end
  end.
Definition ps_dom (style : Z) (f : bytes) : bool :=
  match style_lookup style with
  | None => false
  | Some (st, en) =>
      let is16 := ps_is16 f in
      let '(ls, ok) := ps_lines is16 f in
      dom_scan (ps_marker is16 (ps_first_of st en)) (ps_marker is16 [13; 10]) ok [] ls
      && (zlen (concat ls) =? zlen f)
  end.
Definition ps_embed_wf (style : Z) (f blob : bytes) : result bytes :=
  if ps_dom style f && all_bytes blob then ps_embed style f blob else Err E_DOMAIN.

(* ---- SPECIFICATION (PowerShell).  A signed script is  content ++ CRLF ++ block  where
     block = begin-line CRLF (prefix base64-chunk suffix CRLF)* end-line CRLF,
   base64 in lines of 64 characters, comment prefix/suffix "# " / "<!-- "," -->" / "/* "," */" for the three file families,
   everything in the file's own encoding (UTF-16LE when the file starts with FF FE).  What is digested is the content as
   UTF-16LE text. *)
Definition spec_begin : bytes := Lit.s_sig_begin_signature_block.
Definition spec_end : bytes := Lit.s_sig_end_signature_block.
Definition spec_style (s : Z) : option (bytes * bytes) :=
  if s =? 1 then Some (Lit.s_hash, [])
  else if s =? 2 then Some (Lit.s_xml_open, Lit.s_xml_close)
  else if s =? 3 then Some (Lit.s_c_open, Lit.s_c_close)
  else None.
Definition spec_crlf : bytes := [13; 10].
Definition widen (l : bytes) : bytes := flat_map (fun b => [b; 0]) l.
Definition spec_bom16 (f : bytes) : bool :=
  match f with b0 :: b1 :: _ => (b0 =? 255) && (b1 =? 254) | _ => false end.
Definition spec_w (is16 : bool) (l : bytes) : bytes := if is16 then widen l else l.
Definition spec_begin_line (st en : bytes) : bytes := st ++ spec_begin ++ en ++ spec_crlf.
Definition spec_end_line (st en : bytes) : bytes := st ++ spec_end ++ en ++ spec_crlf.
Fixpoint chunks_n (fuel n : nat) (l : bytes) : list bytes :=
  match fuel with
  | O => []
  | S k => match l with [] => [] | _ => firstn n l :: chunks_n k n (skipn n l) end
  end.
Definition chunks64 (l : bytes) : list bytes := chunks_n (length l) 64 l.
Definition spec_block_text (st en blob : bytes) : bytes :=
  spec_crlf ++ spec_begin_line st en
  ++ concat (map (fun c => st ++ c ++ en ++ spec_crlf) (chunks64 (b64_enc blob)))
  ++ spec_end_line st en.
(* least offset at which pat occurs in l *)
Fixpoint find_sub (pat l : bytes) (pos : Z) : option Z :=
  if has_prefix l pat then Some pos
  else match l with [] => None | _ :: r => find_sub pat r (pos + 1) end.
(* the independent reader's view: the content in front of the signature block (the whole file when there is none) *)
Definition ps_payload (style : Z) (f : bytes) : result bytes :=
  match spec_style style with
  | None => Err E_STYLE
  | Some (st, en) =>
      let w := spec_w (spec_bom16 f) in
      match find_sub (w (spec_crlf ++ spec_begin_line st en)) f 0 with
      | Some i => Ok (ztake i f)
      | None => Ok f
      end
  end.
Definition ps_spec_signed (style : Z) (f : bytes) : bool :=
  match spec_style style with
  | None => false
  | Some (st, en) =>
      match find_sub (spec_w (spec_bom16 f) (spec_crlf ++ spec_begin_line st en)) f 0 with Some _ => true | None => false end
  end.
(* Unicode text -> bytes (RFC 3629) and -> UTF-16LE (RFC 2781) *)
Definition utf8_enc (cps : list Z) : bytes := flat_map utf8_enc1 cps.
Definition rfc2781_units (c : Z) : list Z :=
  if c <? 65536 then [c] else [55296 + (c - 65536) / 1024; 56320 + (c - 65536) mod 1024].
Definition utf16le_enc (cps : list Z) : bytes := flat_map le16 (flat_map rfc2781_units cps).
Definition scalars_ok (cps : list Z) : bool := forallb valid_scalar cps.

(* ================================================================== Debian (ar) *)

Fixpoint drop_sp (l : bytes) : bytes :=
  match l with c :: r => if c =? 32 then drop_sp r else l | [] => [] end.
Definition rtrim (l : bytes) : bytes := rev (drop_sp (rev l)).
(* ar.Reader.string / numeric: trailing spaces removed, the first byte always kept *)
Definition ar_trim (l : bytes) : bytes := match l with [] => [] | x :: r => x :: rtrim r end.

(* m_name: hdr.Name as the ar reader returns it (trailing blanks of the 16-byte field removed, a trailing '/' of the System V /
   GNU variant still there).  m_cname: the name every test of Sign is made on, `name := path.Clean(hdr.Name)` = deb_norm m_name
   (generated); Verify looks at hdr.Name itself, there m_cname = m_name. *)
Record member := mkMember { m_name : bytes; m_size : Z; m_data : bytes; m_off : Z; m_cname : bytes }.
Definition has_slash (n : bytes) : bool := existsb (fun c => c =? 47) n.

(* the member loop shared by Sign (verify = false; chk = the control.tar check) and Verify (verify = true).
   Result: the members in order and the number of bytes consumed (counter.N). *)
Fixpoint ar_scan (fuel : nat) (verify : bool) (chk : bytes -> bytes -> bool) (pos : Z) (l : bytes) : result (list member * Z) :=
  match fuel with
  | O => Ok ([], pos)
  | S k =>
      if zlen l =? 0 then Ok ([], pos)
      else if zlen l <? 60 then (if verify || deb_next_err_returns then Err E_SHORT else Ok ([], pos + zlen l))
      else
        let h := ztake 60 l in
        let body := zdrop 60 l in
        if zlen (ar_trim (zslice 40 48 h)) <? 3 then Panic 3 else
        let name := ar_trim (zslice 0 16 h) in
        let cname := if verify then name else deb_norm name in
        let size := go_parse_int (ar_trim (zslice 48 58 h)) in
        let gpg := if verify then deb_v_is_gpg name else deb_is_gpg cname in
        if size <? 0 then
          (if gpg && negb verify then
             r <- ar_scan k verify chk (pos + 60) body ;;
             Ok (mkMember name size [] pos cname :: fst r, snd r)
           else Panic 4)
        else
          let data := ztake size body in
          let pad := size mod 2 in
          if negb gpg && negb (chk cname data) then Err E_CONTROL else
          let m := mkMember name size data pos cname in
          if zlen body <? size + pad then Ok ([m], pos + 60 + zlen body)
          else
            r <- ar_scan k verify chk (pos + 60 + size + pad) (zdrop (size + pad) body) ;;
            Ok (m :: fst r, snd r)
  end.
Definition ar_members (verify : bool) (chk : bytes -> bytes -> bool) (f : bytes) : result (list member * Z) :=
  r <- ar_scan (length f) verify chk (Z.min 8 (zlen f)) (zdrop 8 f) ;; Ok r.

(* Sign's view of control.tar members: extension known to parseControl and the (oracle) parse succeeds *)
Definition deb_chk (ctl : bytes -> bytes -> bool) (name data : bytes) : bool :=
  if deb_is_control name then
    let ext := zdrop deb_ext_from name in
    existsb (bytes_eqb ext) deb_ctl_exts && ctl ext data
  else true.
Definition deb_signed_members (ms : list member) : list member := filter (fun m => negb (deb_is_gpg (m_cname m))) ms.
(* the members that get a line in the Files: section: those after the `continue` of the _gpg test *)
Definition deb_listed_members (ms : list member) : list member := if deb_line_after_skip then deb_signed_members ms else ms.

Record debscan := mkScan { ds_members : list member; ds_n : Z }.
Definition deb_scan (ctl : bytes -> bytes -> bool) (f : bytes) : result debscan :=
  r <- ar_members false (deb_chk ctl) f ;;
  if deb_no_control (negb (existsb (fun m => deb_is_control (m_cname m)) (deb_signed_members (fst r)))) then Err E_NOCONTROL
  else Ok (mkScan (fst r) (snd r)).

(* hashin: an injective encoding of what determines the "Files:" section of the signed manifest — for every member that
   is not a _gpg* member, in archive order: name (16 bytes, space padded), header size, length of the data actually
   digested, the data.  (relic feeds each data part to MD5 and SHA-1 and signs the list of
   "\t<md5> <sha1> <size> <name>" lines; the harness compares those.) *)
Definition pad_sp (n : nat) (s : bytes) : bytes := firstn n (s ++ repeat 32 n).
Definition ser_member (m : member) : bytes :=
  pad_sp 16 (deb_line_name (m_name m) (m_cname m)) ++ be_enc 8 (m_size m) ++ be_enc 8 (zlen (m_data m)) ++ m_data m.
Definition ser_members (ms : list member) : bytes := concat (map ser_member ms).
Definition deb_hashin (ctl : bytes -> bytes -> bool) (f : bytes) : result bytes :=
  s <- deb_scan ctl f ;; Ok (ser_members (deb_listed_members (ds_members s))).

(* the appended / replacing member: ar.Writer.WriteHeader + Write *)
Definition ar_whdr (name : bytes) (mtime mode size : Z) : bytes :=
  pad_sp 16 name ++ pad_sp 12 (fmt_int mtime) ++ pad_sp 6 (fmt_int 0) ++ pad_sp 6 (fmt_int 0)
  ++ pad_sp 8 ([49; 48; 48] ++ fmt_base 8 mode) ++ pad_sp 10 (fmt_int size) ++ [96; 10].
Definition ar_wmember (name : bytes) (mtime mode : Z) (data : bytes) : bytes :=
  ar_whdr name mtime mode (zlen data) ++ data ++ (if zlen data mod 2 =? 1 then [10] else []).

(* `if name == filename { patchOffset = ...; patchLength = ... }`: made on the normalised name, for every member when the test
   stands before the `continue` of the _gpg test (deb_slot_before_skip, generated), otherwise only for members that are not skipped;
   a later hit overwrites an earlier one *)
Definition deb_slot_hit (filename : bytes) (m : member) : bool :=
  (deb_slot_before_skip || negb (deb_is_gpg (m_cname m))) && deb_is_slot (m_cname m) filename.
Definition deb_slot (filename : bytes) (ms : list member) : option member :=
  fold_left (fun acc m => if deb_slot_hit filename m then Some m else acc) ms None.
Definition deb_embed (ctl : bytes -> bytes -> bool) (role : bytes) (mtime : Z) (f blob : bytes) : result bytes :=
  s <- deb_scan ctl f ;;
  let filename := deb_filename role in
  let '(off, old) := match deb_slot filename (ds_members s) with
                     | Some m => (deb_patch_off (m_off m + 60), deb_patch_len (m_size m))
                     | None => (0, 0)
                     end in
  let off := if deb_append_cond off then deb_patch_eof (ds_n s) else off in
  let patch := ar_wmember (deb_hdr_name filename) mtime deb_hdr_mode blob in
  if zlen f <? off then Err E_COPY else Ok (ztake off f ++ patch ++ zdrop (off + old) f).

(* Verify: the signature members (role, blob) in archive order, and the digest map source *)
Definition deb_sigs (f : bytes) : result (list (bytes * bytes)) :=
  r <- ar_members true (fun _ _ => true) f ;;
  Ok (map (fun m => (deb_v_sig_key (zdrop deb_v_role_from (deb_v_role_src (m_name m))), m_data m)) (filter (fun m => deb_v_is_gpg (m_name m)) (fst r))).
Definition lookup_last (k : bytes) (m : list (bytes * bytes)) : option bytes :=
  fold_left (fun acc kv => if bytes_eqb (fst kv) k then Some (snd kv) else acc) m None.
Definition deb_extract (role : bytes) (f : bytes) : result (option bytes) :=
  s <- deb_sigs f ;; Ok (lookup_last role s).
Definition deb_is_signed (f : bytes) : result bool := s <- deb_sigs f ;; Ok (negb (match s with [] => true | _ => false end)).
(* digests[hdr.Name] = D(data): later members overwrite earlier ones *)
Definition deb_vmembers (f : bytes) : result (list member) :=
  r <- ar_members true (fun _ _ => true) f ;; Ok (filter (fun m => negb (deb_v_is_gpg (m_name m))) (fst r)).
Definition deb_digests (D : bytes -> bytes) (ms : list member) : list (bytes * bytes) :=
  map (fun m => (deb_v_key (m_name m), D (m_data m))) ms.
(* the signed manifest at line level: (sums, name) per file line *)
Definition deb_lines (D : bytes -> bytes) (ms : list member) : list (bytes * bytes) :=
  map (fun m => (D (m_data m), deb_line_name (m_name m) (m_cname m))) ms.
(* checkSig on parsed lines *)
Fixpoint check_lines (lines : list (bytes * bytes)) (dg : list (bytes * bytes)) : result unit :=
  match lines with
  | [] => Ok tt
  | (sums, name) :: r =>
      let calculated := match lookup_last name dg with Some c => c | None => [] end in
      if deb_cs_unknown calculated then Err E_UNKNOWN
      else if deb_cs_mismatch calculated sums then Err E_MISMATCH
      else check_lines r dg
  end.
Definition deb_check (lines dg : list (bytes * bytes)) : result unit :=
  _ <- check_lines lines dg ;;
  if forallb (fun kv => existsb (fun ln => bytes_eqb (snd ln) (fst kv)) lines) dg then Ok tt else Err E_UNCOVERED.

(* ---- SPECIFICATION (ar / deb).  Common ar format: 8-byte magic, then members: 60-byte header
   name[16] mtime[12] uid[6] gid[6] mode[8] size[10] "`\n", fields left-aligned and space padded, size in decimal,
   data, one "\n" of padding after odd-sized data.  A deb signature (debsigs convention) is a member named _gpg<role>;
   the payload of a package is every other member: name field and data, in order. *)
Definition spec_ar_magic : bytes := Lit.s_arch ++ [10].
Record ent := mkEnt { e_hdr : bytes; e_data : bytes }.
Definition spec_dec (z : Z) : bytes := rev (digits_le 64 10 z).
Definition spec_field (n : nat) (s : bytes) : bytes := s ++ repeat 32 (n - length s).
(* header is 60 bytes, ends in the member magic, the size field is the canonical decimal length of the data *)
Definition ent_ok (e : ent) : bool :=
  (zlen (e_hdr e) =? 60) && bytes_eqb (zslice 58 60 (e_hdr e)) [96; 10]
  && bytes_eqb (zslice 48 58 (e_hdr e)) (spec_field 10 (spec_dec (zlen (e_data e))))
  && (zlen (e_data e) <? 10000000000).
Definition ent_enc (e : ent) : bytes := e_hdr e ++ e_data e ++ (if Z.odd (zlen (e_data e)) then [10] else []).
Definition ar_spec_file (es : list ent) : bytes := spec_ar_magic ++ concat (map ent_enc es).
(* strict reader *)
Definition spec_parse_size (fld : bytes) : option Z := parse_udec (rtrim fld).
Fixpoint ar_spec_ents (fuel : nat) (l : bytes) : option (list ent) :=
  match fuel with
  | O => None
  | S k =>
      match l with
      | [] => Some []
      | _ =>
          if zlen l <? 60 then None else
          let h := ztake 60 l in
          if negb (bytes_eqb (zslice 58 60 h) [96; 10]) then None else
          match spec_parse_size (zslice 48 58 h) with
          | None => None
          | Some n =>
              let body := zdrop 60 l in
              let pad := if Z.odd n then 1 else 0 in
              if zlen body <? n + pad then None else
              if Z.odd n && negb (bytes_eqb (zslice n (n + 1) body) [10]) then None else
              match ar_spec_ents k (zdrop (n + pad) body) with
              | Some es => Some (mkEnt h (ztake n body) :: es)
              | None => None
              end
          end
      end
  end.
Definition ar_spec_parse (f : bytes) : option (list ent) :=
  if bytes_eqb (ztake 8 f) spec_ar_magic then ar_spec_ents (S (length f)) (zdrop 8 f) else None.
Definition spec_gpg : bytes := Lit.s_gpg.
Definition ent_name (e : ent) : bytes := rtrim (zslice 0 16 (e_hdr e)).
Definition ent_is_sig (e : ent) : bool := has_prefix (ent_name e) spec_gpg.
Definition spec_payload_of (es : list ent) : list (bytes * bytes) :=
  map (fun e => (zslice 0 16 (e_hdr e), e_data e)) (filter (fun e => negb (ent_is_sig e)) es).
Definition deb_payload (f : bytes) : result (list (bytes * bytes)) :=
  match ar_spec_parse f with Some es => Ok (spec_payload_of es) | None => Err E_MALFORMED end.
(* signedness and the digest input according to the specification: some member is named _gpg*; the manifest is determined by
   name field, length and data of every other member, in order (an injective encoding, same layout as ser_member) *)
Definition deb_spec_signed (f : bytes) : bool :=
  match ar_spec_parse f with Some es => existsb ent_is_sig es | None => false end.
Definition spec_ser (nd : bytes * bytes) : bytes := fst nd ++ be_enc 8 (zlen (snd nd)) ++ be_enc 8 (zlen (snd nd)) ++ snd nd.
Definition deb_spec_hashin (f : bytes) : result bytes :=
  match ar_spec_parse f with Some es => Ok (concat (map spec_ser (spec_payload_of es))) | None => Err E_MALFORMED end.
(* the spec-level signing operation: replace the last member named _gpg<role>, or append *)
Definition spec_sig_name (role : bytes) : bytes := spec_gpg ++ role.
Fixpoint replace_last (p : ent -> bool) (new : ent) (es : list ent) : option (list ent) :=
  match es with
  | [] => None
  | e :: r =>
      match replace_last p new r with
      | Some r' => Some (e :: r')
      | None => if p e then Some (new :: r) else None
      end
  end.
Definition spec_sign (role : bytes) (new : ent) (es : list ent) : list ent :=
  match replace_last (fun e => bytes_eqb (ent_name e) (spec_sig_name role)) new es with
  | Some es' => es'
  | None => es ++ [new]
  end.
Definition spec_sig_of (role : bytes) (es : list ent) : option bytes :=
  fold_left (fun acc e => if bytes_eqb (ent_name e) (spec_sig_name role) then Some (e_data e) else acc) es None.

(* names the model handles and the specification allows: printable, no '/', not starting with a space *)
Definition name_char_ok (c : Z) : bool := (32 <=? c) && (c <=? 126) && negb (c =? 47).
Definition ent_name_ok (e : ent) : bool :=
  let n := zslice 0 16 (e_hdr e) in
  forallb name_char_ok n && match n with c :: _ => negb (c =? 32) | [] => false end.
Definition ent_mode_ok (e : ent) : bool := 3 <=? zlen (ar_trim (zslice 40 48 (e_hdr e))).
Fixpoint distinct_names (l : list bytes) : bool :=
  match l with [] => true | n :: r => negb (existsb (bytes_eqb n) r) && distinct_names r end.
Definition role_ok (role : bytes) : bool :=
  (1 <=? zlen role) && (zlen role <=? 12) && forallb (fun c => (97 <=? c) && (c <=? 122)) role.

(* well-formedness domain of the Debian laws (decidable) *)
Definition deb_wf (ctl : bytes -> bytes -> bool) (f : bytes) : bool :=
  match ar_spec_parse f with
  | None => false
  | Some es =>
      forallb ent_ok es && forallb ent_name_ok es && forallb ent_mode_ok es
      && distinct_names (map ent_name (filter (fun e => negb (ent_is_sig e)) es))
      && is_ok (deb_scan ctl f)
  end.
Definition deb_embed_wf (ctl : bytes -> bytes -> bool) (role : bytes) (mtime : Z) (f blob : bytes) : result bytes :=
  if deb_wf ctl f && role_ok role && (zlen blob <? 10000000000) && (0 <=? mtime) then deb_embed ctl role mtime f blob
  else Err E_DOMAIN.

(* ================================================================== Debian: member NAMES (signature slots)
   SPECIFICATION, from the format descriptions.  ar(5): the common / BSD variant stores a name left-aligned and padded with
   blanks to the 16 bytes of the field (what dpkg-deb, BSD ar and relic's writer produce); the System V / GNU variant
   terminates the name by a slash and then pads with blanks (what GNU ar — and therefore debsigs, which runs `ar q` — produce;
   a 15-character name plus its slash fills the field).  deb(5): "the file names might contain a trailing slash".
   The logical name of a name field is therefore: blanks off the right end, then ONE trailing slash off.  References into the
   GNU long-name table ("/123"), the table itself ("//"), the symbol table ("/") and BSD "#1/<len>" names are something else;
   they are outside the domain below (logical names are non-empty and contain no slash), as they are outside what dpkg reads. *)
Definition strip_slash (n : bytes) : bytes :=
  match rev n with c :: r => if c =? 47 then rev r else n | [] => n end.
Definition ar_logical (field : bytes) : bytes := strip_slash (rtrim field).
Definition spell_plain (n : bytes) : bytes := spec_field 16 n.             (* BSD ar, dpkg-deb, relic *)
Definition spell_sysv (n : bytes) : bytes := spec_field 16 (n ++ [47]).    (* GNU ar, debsigs *)
Definition lname_ok (n : bytes) : bool :=
  forallb name_char_ok n
  && match n with c :: _ => negb (c =? 32) | [] => false end
  && match rev n with c :: _ => negb (c =? 32) | [] => false end.
Definition is_spelling (n field : bytes) : bool :=
  (bytes_eqb field (spell_plain n) && (zlen n <=? 16)) || (bytes_eqb field (spell_sysv n) && (zlen n <=? 15)).
Definition ent_lname (e : ent) : bytes := ar_logical (zslice 0 16 (e_hdr e)).
Definition ent_spelled_ok (e : ent) : bool := lname_ok (ent_lname e) && is_spelling (ent_lname e) (zslice 0 16 (e_hdr e)).
(* a signature member / the slot of a role, by logical name *)
Definition ent_is_lsig (e : ent) : bool := has_prefix (ent_lname e) spec_gpg.
Definition lslot (role : bytes) (e : ent) : bool := bytes_eqb (ent_lname e) (spec_sig_name role).
(* the signing operation the property demands: the member whose LOGICAL name is _gpg<role> is replaced, else one is appended *)
Definition spec_sign_l (role : bytes) (new : ent) (es : list ent) : list ent :=
  match replace_last (lslot role) new es with
  | Some es' => es'
  | None => es ++ [new]
  end.
Definition ent_eqb (a b : ent) : bool := bytes_eqb (e_hdr a) (e_hdr b) && bytes_eqb (e_data a) (e_data b).
(* the demand on the result as a decidable check on two parsed archives: exactly one member with the slot's logical name, it
   carries the new signature, all other members are the same headers and data in the same order *)
Definition slot_replaced_ok (role blob : bytes) (es es' : list ent) : bool :=
  match filter (lslot role) es' with
  | [new] => bytes_eqb (e_data new) blob
  | _ => false
  end
  && list_eqb ent_eqb (filter (fun e => negb (lslot role e)) es') (filter (fun e => negb (lslot role e)) es).
(* the domain of the slot theorems: the strict reader accepts; canonical sizes; every name field is one of the two spellings of
   a proper logical name; logical names are pairwise different (one member per payload name and per signature role); relic's
   member walk succeeds (control.tar present and readable) *)
Definition deb_wf2 (ctl : bytes -> bytes -> bool) (f : bytes) : bool :=
  match ar_spec_parse f with
  | None => false
  | Some es =>
      forallb ent_ok es && forallb ent_spelled_ok es && forallb ent_mode_ok es
      && distinct_names (map ent_lname es)
      && is_ok (deb_scan ctl f)
  end.
Definition deb_embed_wf2 (ctl : bytes -> bytes -> bool) (role : bytes) (mtime : Z) (f blob : bytes) : result bytes :=
  if deb_wf2 ctl f && role_ok role && (zlen blob <? 10000000000) && (0 <=? mtime) then deb_embed ctl role mtime f blob
  else Err E_DOMAIN.
