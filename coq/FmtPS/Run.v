(* FmtPS/Run.v — evaluation of the models and the specification functions on harness cases. *)
From Relic Require Import Base.Prelude Base.Enc Base.Val Generated.FmtPS_gen FmtPS.Model FmtPS.ModelText.

Definition st_of {A} (r : result A) : Z := match r with Ok _ => 0 | Err e => e | Panic e => 100 + e end.
Definition vres_bytes (r : result bytes) : val := VL [VZ (st_of r); VB (match r with Ok b => b | _ => [] end)].
Definition vopt (o : option bytes) : val := match o with Some b => VL [VZ 1; VB b] | None => VL [VZ 0; VB []] end.
Definition vres_opt (r : result (option bytes)) : val :=
  VL [VZ (st_of r); match r with Ok o => vopt o | _ => vopt None end].
Definition vskip : val := VL [VZ (-1); VB []].

Definition vdig (d : result psdig) : val :=
  match d with
  | Ok x => VL [VZ 0; VB (d_pre x); VZ (d_tsz x); VZ (d_ssz x); of_bool (d_is16 x); of_bool (d_found x)]
  | _ => VL [VZ (st_of d); VB []; VZ 0; VZ 0; VZ 0; VZ 0]
  end.

(* [0 style file blob] ->
   [digest embed extract(g) hashin(g) dom payload(f) payload(g) extract(f) spec_embed_ok spec_signed(f) spec_signed(g)] *)
Definition run_ps (v : val) : val :=
  let style := vz (vnth 1 v) in
  let f := vb (vnth 2 v) in
  let blob := vb (vnth 3 v) in
  let g := ps_embed style f blob in
  let pf := ps_payload style f in
  let spec_ok :=
    match g, pf, spec_style style with
    | Ok gb, Ok p, Some (st, en) => bytes_eqb gb (p ++ spec_w (spec_bom16 f) (spec_block_text st en blob))
    | _, _, _ => false
    end in
  VL [ vdig (ps_digest style f);
       vres_bytes g;
       match g with Ok gb => vres_opt (ps_extract style gb) | _ => VL [VZ (-1); vopt None] end;
       match g with Ok gb => vres_bytes (ps_hashin style gb) | _ => vskip end;
       of_bool (ps_dom style f);
       vres_bytes pf;
       match g with Ok gb => vres_bytes (ps_payload style gb) | _ => vskip end;
       vres_opt (ps_extract style f);
       of_bool spec_ok;
       of_bool (ps_spec_signed style f);
       match g with Ok gb => of_bool (ps_spec_signed style gb) | _ => VZ (-1) end ].

(* [1 style file] -> [extract digest payload] *)
Definition run_ps_verify (v : val) : val :=
  let style := vz (vnth 1 v) in
  let f := vb (vnth 2 v) in
  VL [ vres_opt (ps_extract style f); vdig (ps_digest style f); vres_bytes (ps_payload style f) ].

(* [5 cps] -> [utf8_enc cps ; utf16le_enc cps ; to_utf16 (utf8_enc cps) ; writeUtf16 false (generated encoder) ; toUtf16
   (generated) ; Unicode-standard UTF-16-LE ; writeUtf16 true] : the text specification against Go's conversion *)
Definition run_text (v : val) : val :=
  let cps := map vz (vl (vnth 1 v)) in
  VL [ VB (utf8_enc cps); VB (utf16le_enc cps); VB (to_utf16 (utf8_enc cps));
       VB (ps_write_utf16 false (utf8_enc cps)); VB (ps_to_utf16 (utf8_enc cps)); VB (uni_utf16le cps);
       VB (ps_write_utf16 true (utf8_enc cps)) ].

(* [stored name, size, data, offset, normalised name (Sign), name written into the Files: line (Sign)] *)
Definition vmember (m : member) : val :=
  VL [VB (m_name m); VZ (m_size m); VB (m_data m); VZ (m_off m); VB (m_cname m); VB (deb_line_name (m_name m) (m_cname m))].
Definition vpairs (l : list (bytes * bytes)) : val := VL (map (fun p => VL [VB (fst p); VB (snd p)]) l).
Definition vres_pairs (r : result (list (bytes * bytes))) : val :=
  VL [VZ (st_of r); match r with Ok l => vpairs l | _ => VL [] end].

(* [2 role mtime file blob oklist] ->
   [scan(status members n) embed extract(role,g) sigs(g) wf payload(f) payload(g) spec_embed_ok hashin(f)=hashin(g)
    wf2(f) spec_embed_by_logical_name_ok slot_replaced_ok wf2(g) logical_names(f)] *)
Definition run_deb (v : val) : val :=
  let role := vb (vnth 1 v) in
  let mtime := vz (vnth 2 v) in
  let f := vb (vnth 3 v) in
  let blob := vb (vnth 4 v) in
  let oks := map vb (vl (vnth 5 v)) in
  let ctl := fun (_ data : bytes) => existsb (bytes_eqb data) oks in
  let s := deb_scan ctl f in
  let g := deb_embed ctl role mtime f blob in
  let new := mkEnt (ar_whdr (spec_sig_name role) mtime 33188 (zlen blob)) blob in
  let spec_ok :=
    match g, ar_spec_parse f with
    | Ok gb, Some es => bytes_eqb gb (ar_spec_file (spec_sign role new es))
    | _, _ => false
    end in
  VL [ match s with
       | Ok x => VL [VZ 0; VL (map vmember (ds_members x)); VZ (ds_n x)]
       | _ => VL [VZ (st_of s); VL []; VZ 0]
       end;
       vres_bytes g;
       match g with Ok gb => vres_opt (deb_extract role gb) | _ => VL [VZ (-1); vopt None] end;
       match g with Ok gb => vres_pairs (deb_sigs gb) | _ => VL [VZ (-1); VL []] end;
       of_bool (deb_wf ctl f);
       vres_pairs (deb_payload f);
       match g with Ok gb => vres_pairs (deb_payload gb) | _ => VL [VZ (-1); VL []] end;
       of_bool spec_ok;
       match g with
       | Ok gb => of_bool (match deb_hashin ctl f, deb_hashin ctl gb with Ok a, Ok b => bytes_eqb a b | _, _ => false end)
       | _ => VZ (-1)
       end;
       of_bool (deb_wf2 ctl f);
       of_bool (match g, ar_spec_parse f with
                | Ok gb, Some es => bytes_eqb gb (ar_spec_file (spec_sign_l role new es))
                | _, _ => false
                end);
       match g with
       | Ok gb => match ar_spec_parse f, ar_spec_parse gb with
                  | Some es, Some es' => of_bool (slot_replaced_ok role blob es es')
                  | _, _ => VZ (-1)
                  end
       | _ => VZ (-1)
       end;
       match g with Ok gb => of_bool (deb_wf2 ctl gb) | _ => VZ (-1) end;
       match ar_spec_parse f with Some es => VL (map (fun e => VB (ent_lname e)) es) | None => VL [] end ].

(* [3 file] -> [sigs vmembers payload] *)
Definition run_deb_verify (v : val) : val :=
  let f := vb (vnth 1 v) in
  let ms := deb_vmembers f in
  VL [ vres_pairs (deb_sigs f);
       VL [VZ (st_of ms); match ms with Ok l => VL (map vmember l) | _ => VL [] end];
       vres_pairs (deb_payload f) ].

(* [4 lines dg] -> status of checkSig at line level *)
Definition vpair_list (v : val) : list (bytes * bytes) := map (fun p => (vb (vnth 0 p), vb (vnth 1 p))) (vl v).
Definition run_deb_check (v : val) : val :=
  VL [ VZ (st_of (deb_check (vpair_list (vnth 1 v)) (vpair_list (vnth 2 v)))) ].

(* [6 name] -> the Go string functions the translator knows, relic's normalisation (generated), the specification's logical name *)
Definition run_names (v : val) : val :=
  let n := vb (vnth 1 v) in
  VL [ VB (go_path_clean n); VB (go_path_base n); VB (go_trim_space n); VB (go_trim_suffix n [47]); VB (go_trim_right n [47; 32]);
       VB (go_trim_prefix n [46; 47]); VB (go_trim_left n [47]); VB (go_trim n [32; 47]); VB (go_to_lower n); VB (go_to_upper n);
       VB (deb_norm n); VB (ar_logical (pad_sp 16 n)) ].

Definition run (v : val) : val :=
  let k := vz (vnth 0 v) in
  if k =? 0 then run_ps v
  else if k =? 1 then run_ps_verify v
  else if k =? 2 then run_deb v
  else if k =? 3 then run_deb_verify v
  else if k =? 4 then run_deb_check v
  else if k =? 6 then run_names v
  else run_text v.
