(* FmtPS/ProofsAR.v — ar member NAMES: the Go string functions the translated normalisation uses (path.Clean ...), the
   specification's logical name (ar(5) System V / GNU and BSD / common spellings, deb(5)), and the tie between the two:
   relic's `name := <deb_norm> hdr.Name` (generated from lib/signdeb/debsign.go) is the logical name of every spelling. *)
From Relic Require Import Base.Prelude Base.Enc Generated.FmtPS_gen FmtPS.Model FmtPS.Lib.

(* ================================================================== path.Clean on names *)
Lemma split_nonempty l : exists h t, go_split_slash l = h :: t.
Proof.
  induction l as [|c r [h [t IH]]]; [exists [], []; reflexivity|]. cbn [go_split_slash]. rewrite IH.
  destruct (c =? 47); eauto.
Qed.
Lemma split_noslash n : has_slash n = false -> go_split_slash n = [n].
Proof.
  induction n as [|c n IH]; [reflexivity|]. unfold has_slash in *. cbn [existsb]. intros H. apply orb_false_iff in H as [H1 H2].
  cbn [go_split_slash]. rewrite IH by assumption. now rewrite H1.
Qed.
Lemma split_app_slash n r : has_slash n = false -> go_split_slash (n ++ 47 :: r) = n :: go_split_slash r.
Proof.
  induction n as [|c n IH]; intros H.
  - cbn [app go_split_slash]. destruct (split_nonempty r) as [h [t E]]. rewrite E. reflexivity.
  - unfold has_slash in H. cbn [existsb] in H. apply orb_false_iff in H as [H1 H2].
    cbn [app go_split_slash]. rewrite IH by assumption. now rewrite H1.
Qed.
Lemma first_not_slash n c r : has_slash n = false -> n = c :: r -> (c =? 47) = false.
Proof. intros H ->. unfold has_slash in H. cbn [existsb] in H. now apply orb_false_iff in H as [H _]. Qed.

(* a non-empty name without a slash is its own cleaned form ("." and ".." included) *)
Lemma clean_one n : n <> [] -> go_join_slash (rev (go_clean_step false [] n)) = n \/
  (go_join_slash (rev (go_clean_step false [] n)) = [] /\ n = [46]).
Proof.
  intros Hn. unfold go_clean_step. destruct (bytes_eqb n []) eqn:E0; [apply bytes_eqb_eq in E0; contradiction|].
  destruct (bytes_eqb n [46]) eqn:E1; cbn [orb].
  - apply bytes_eqb_eq in E1. right. split; [reflexivity|assumption].
  - destruct (bytes_eqb n [46; 46]) eqn:E2; left; reflexivity.
Qed.
Lemma clean_noslash n : has_slash n = false -> n <> [] -> go_path_clean n = n.
Proof.
  intros Hs Hn. destruct n as [|c r] eqn:En; [contradiction|]. rewrite <- En in *. unfold go_path_clean. rewrite En at 1.
  rewrite (first_not_slash n c r Hs En). rewrite split_noslash by assumption. cbn [fold_left].
  destruct (clean_one n Hn) as [->|[-> ->]]; [|reflexivity]. rewrite En. reflexivity.
Qed.
(* System V / GNU spelling: the terminating slash goes *)
Lemma clean_trailing_slash n : has_slash n = false -> n <> [] -> go_path_clean (n ++ [47]) = n.
Proof.
  intros Hs Hn. destruct n as [|c r] eqn:En; [contradiction|]. rewrite <- En in *. unfold go_path_clean.
  replace (n ++ [47]) with (c :: (r ++ [47])) at 1 by (rewrite En; reflexivity).
  rewrite (first_not_slash n c r Hs En). rewrite split_app_slash by assumption. cbn [go_split_slash fold_left].
  replace (go_clean_step false (go_clean_step false [] n) []) with (go_clean_step false [] n) by reflexivity.
  destruct (clean_one n Hn) as [->|[-> ->]]; [|reflexivity]. rewrite En. reflexivity.
Qed.

(* other normalisations that do the same on names (a rewrite of debsign.go to one of these keeps the tie provable) *)
Lemma existsb_rev_ {A} (p : A -> bool) l : existsb p (rev l) = existsb p l.
Proof. induction l as [|x l IH]; [reflexivity|]. cbn [rev existsb]. rewrite existsb_app, IH. cbn [existsb]. now rewrite orb_false_r, orb_comm. Qed.
Lemma noslash_rev n : has_slash n = false -> n <> [] -> exists c r, rev n = c :: r /\ (c =? 47) = false /\ has_slash r = false.
Proof.
  intros Hs Hn. destruct (rev n) as [|c r] eqn:E.
  - apply (f_equal (@rev Z)) in E. rewrite rev_involutive in E. contradiction.
  - exists c, r. unfold has_slash in *. rewrite <- existsb_rev_, E in Hs. cbn [existsb] in Hs. apply orb_false_iff in Hs as [H1 H2]. auto.
Qed.
Lemma trimsuffix_noslash n : has_slash n = false -> n <> [] -> go_trim_suffix n [47] = n.
Proof.
  intros Hs Hn. destruct (noslash_rev n Hs Hn) as [c [r [E [Hc _]]]]. unfold go_trim_suffix, has_suffix. rewrite E. cbn [rev app has_prefix].
  replace (47 =? c) with false by lia. reflexivity.
Qed.
Lemma trimsuffix_trailing_slash n : has_slash n = false -> n <> [] -> go_trim_suffix (n ++ [47]) [47] = n.
Proof.
  intros _ _. unfold go_trim_suffix. rewrite has_suffix_app. rewrite app_length. cbn [length].
  replace (length n + 1 - 1)%nat with (length n + 0)%nat by lia. rewrite firstn_app_2. cbn [firstn]. apply app_nil_r.
Qed.
Lemma drop_while_head p c r : p c = false -> go_drop_while p (c :: r) = c :: r.
Proof. intros H. cbn [go_drop_while]. now rewrite H. Qed.
Lemma take_until_none l : has_slash l = false -> go_take_until go_is_slash l = l.
Proof.
  induction l as [|c l IH]; [reflexivity|]. unfold has_slash in *. cbn [existsb]. intros H. apply orb_false_iff in H as [H1 H2].
  cbn [go_take_until]. unfold go_is_slash at 1. rewrite H1. now rewrite IH.
Qed.
Lemma base_unfold p : p <> [] ->
  go_path_base p = match rev (go_take_until go_is_slash (go_drop_while go_is_slash (rev p))) with [] => [47] | z :: l => z :: l end.
Proof. destruct p; [contradiction|reflexivity]. Qed.
Lemma base_core n c r : rev n = c :: r -> (c =? 47) = false -> has_slash r = false ->
  match rev (go_take_until go_is_slash (go_drop_while go_is_slash (c :: r))) with [] => [47] | z :: l => z :: l end = n.
Proof.
  intros E Hc Hr. rewrite drop_while_head by exact Hc.
  assert (has_slash (c :: r) = false) as Hcr by (change (has_slash (c :: r)) with ((c =? 47) || has_slash r); rewrite Hr; rewrite Hc; reflexivity).
  rewrite (take_until_none _ Hcr). rewrite <- E, rev_involutive. destruct n; [discriminate|reflexivity].
Qed.
Lemma base_noslash n : has_slash n = false -> n <> [] -> go_path_base n = n.
Proof.
  intros Hs Hn. destruct (noslash_rev n Hs Hn) as [c [r [E [Hc Hr]]]]. rewrite base_unfold by exact Hn. rewrite E. now apply base_core.
Qed.
Lemma base_trailing_slash n : has_slash n = false -> n <> [] -> go_path_base (n ++ [47]) = n.
Proof.
  intros Hs Hn. destruct (noslash_rev n Hs Hn) as [c [r [E [Hc Hr]]]]. rewrite base_unfold by (destruct n; discriminate).
  rewrite rev_app_distr. cbn [rev app]. rewrite E.
  change (go_drop_while go_is_slash (47 :: c :: r)) with (go_drop_while go_is_slash (c :: r)). now apply base_core.
Qed.
Lemma trimright_noslash n : has_slash n = false -> n <> [] -> go_trim_right n [47] = n.
Proof.
  intros Hs Hn. destruct (noslash_rev n Hs Hn) as [c [r [E [Hc _]]]]. unfold go_trim_right, go_trim_right_f. rewrite E.
  rewrite drop_while_head by (unfold go_in_set; cbn [existsb]; now rewrite Hc). now rewrite <- E, rev_involutive.
Qed.
Lemma trimright_trailing_slash n : has_slash n = false -> n <> [] -> go_trim_right (n ++ [47]) [47] = n.
Proof.
  intros Hs Hn. destruct (noslash_rev n Hs Hn) as [c [r [E [Hc _]]]]. unfold go_trim_right, go_trim_right_f. rewrite rev_app_distr. cbn [rev app go_drop_while].
  unfold go_in_set at 1. cbn [existsb Z.eqb Pos.eqb orb]. rewrite E.
  rewrite drop_while_head by (unfold go_in_set; cbn [existsb]; now rewrite Hc). now rewrite <- E, rev_involutive.
Qed.
(* whichever of these the source uses *)
Ltac norm_plain := unfold deb_norm; first [apply clean_noslash | apply trimsuffix_noslash | apply base_noslash | apply trimright_noslash]; assumption.
Ltac norm_sysv := unfold deb_norm; first [apply clean_trailing_slash | apply trimsuffix_trailing_slash | apply base_trailing_slash | apply trimright_trailing_slash]; assumption.

(* ================================================================== the specification's logical name *)
Lemma strip_slash_app n : strip_slash (n ++ [47]) = n.
Proof. unfold strip_slash. rewrite rev_app_distr. cbn [rev app]. now rewrite rev_involutive. Qed.
Lemma strip_slash_id n : (forall c r, rev n = c :: r -> c <> 47) -> strip_slash n = n.
Proof.
  intros H. unfold strip_slash. destruct (rev n) as [|c r] eqn:E; [reflexivity|]. specialize (H c r eq_refl).
  replace (c =? 47) with false by lia. reflexivity.
Qed.
Lemma forallb_rev {A} (p : A -> bool) l : forallb p (rev l) = forallb p l.
Proof. induction l as [|x l IH]; [reflexivity|]. cbn [rev forallb]. rewrite forallb_app, IH. cbn [forallb]. now rewrite andb_true_r, andb_comm. Qed.

Record lname_facts (n : bytes) : Prop := mkLn {
  ln_chars : forallb name_char_ok n = true;
  ln_nonempty : n <> [];
  ln_first : match n with c :: _ => c <> 32 | [] => True end;
  ln_last_sp : forall c r, rev n = c :: r -> c <> 32;
  ln_last_sl : forall c r, rev n = c :: r -> c <> 47;
  ln_noslash : has_slash n = false
}.
Lemma lname_ok_facts n : lname_ok n = true -> lname_facts n.
Proof.
  unfold lname_ok. intros H. apply andb_true_iff in H as [H H3]. apply andb_true_iff in H as [H1 H2].
  assert (forall c r, rev n = c :: r -> name_char_ok c = true) as Hr.
  { intros c r E. rewrite <- forallb_rev, E in H1. cbn [forallb] in H1. now apply andb_true_iff in H1 as [H1 _]. }
  constructor.
  - exact H1.
  - destruct n; [discriminate|discriminate].
  - destruct n as [|c r]; [exact I|]. lia.
  - intros c r E. rewrite E in H3. lia.
  - intros c r E. specialize (Hr c r E). unfold name_char_ok in Hr. lia.
  - unfold has_slash. clear H2 H3 Hr. induction n as [|c n IH]; [reflexivity|]. cbn [forallb existsb] in *.
    apply andb_true_iff in H1 as [Hc Hn]. rewrite IH by assumption. unfold name_char_ok in Hc. lia.
Qed.

(* C08 (specification side): both spellings of a proper name have that name as their logical name *)
Theorem ar_logical_of_spellings n field : lname_ok n = true -> is_spelling n field = true -> ar_logical field = n.
Proof.
  intros Hn Hs. destruct (lname_ok_facts n Hn) as [_ _ _ Hsp Hsl _]. unfold is_spelling in Hs. apply orb_true_iff in Hs as [H|H];
    apply andb_true_iff in H as [H _]; apply bytes_eqb_eq in H; subst field; unfold ar_logical, spell_plain, spell_sysv, spec_field.
  - rewrite rtrim_field by exact Hsp. now apply strip_slash_id.
  - rewrite rtrim_field; [apply strip_slash_app|]. intros c r E. rewrite rev_app_distr in E. cbn [rev app] in E. inversion E. lia.
Qed.

(* the three views of one name field: what the ar reader returns (raw), the logical name, the two spellings *)
Record spelled (e : ent) (n : bytes) : Prop := mkSp {
  sp_ok : lname_facts n;
  sp_lname : ent_lname e = n;
  sp_raw : ent_name e = n \/ ent_name e = n ++ [47];
  sp_trim : ar_trim (zslice 0 16 (e_hdr e)) = ent_name e
}.
Lemma spelled_of_ok e : ent_spelled_ok e = true -> spelled e (ent_lname e).
Proof.
  unfold ent_spelled_ok. intros H. apply andb_true_iff in H as [Hn Hs]. pose proof (lname_ok_facts _ Hn) as F.
  pose proof (ar_logical_of_spellings _ _ Hn Hs) as El. destruct F as [Hc Hne Hf Hsp Hsl Hns].
  set (n := ent_lname e) in *. set (fld := zslice 0 16 (e_hdr e)) in *.
  assert (match fld with c :: _ => c <> 32 | [] => False end /\ (rtrim fld = n \/ rtrim fld = n ++ [47])) as [Hfirst Hraw].
  { unfold is_spelling in Hs. destruct n as [|c0 r0] eqn:En; [contradiction|].
    apply orb_true_iff in Hs as [H|H]; apply andb_true_iff in H as [H _]; apply bytes_eqb_eq in H; rewrite H;
      unfold spell_plain, spell_sysv, spec_field; (split; [cbn [app]; exact Hf|]).
    - left. apply rtrim_field. exact Hsp.
    - right. apply rtrim_field. intros c r E. rewrite rev_app_distr in E. cbn [rev app] in E. inversion E. lia. }
  constructor.
  - constructor; assumption.
  - reflexivity.
  - exact Hraw.
  - unfold ent_name. fold fld. apply ar_trim_rtrim. destruct fld; [contradiction|exact Hfirst].
Qed.

(* ================================================================== the tie: relic's normalisation on every spelling *)
(* `name := path.Clean(hdr.Name)` (deb_norm, generated): for every name field that is a spelling of a proper logical name,
   the name Sign compares with "_gpg"+role is that logical name.  This is the statement that breaks when the normalisation in
   debsign.go is changed to one that leaves the System V / GNU terminator in place. *)
Theorem deb_norm_is_logical e : ent_spelled_ok e = true -> deb_norm (ent_name e) = ent_lname e.
Proof.
  intros H. destruct (spelled_of_ok e H) as [F El Hraw _]. destruct F as [_ Hne _ _ _ Hns].
  clear El H. revert Hne Hns Hraw. generalize (ent_lname e). intros n Hne Hns Hraw.
  destruct Hraw as [E|E]; rewrite E; [norm_plain|norm_sysv].
Qed.
Theorem deb_norm_spellings n : lname_ok n = true -> deb_norm n = n /\ deb_norm (n ++ [47]) = n.
Proof.
  intros H. destruct (lname_ok_facts n H) as [_ Hne _ _ _ Hns]. split; [norm_plain|norm_sysv].
Qed.
(* names without a slash (the domain of ProofsDEB) *)
Lemma deb_norm_noslash n : has_slash n = false -> n <> [] -> deb_norm n = n.
Proof. intros Hns Hne. norm_plain. Qed.

(* a signature member is one by either name: "_gpg" contains no slash *)
Lemma has_prefix_snoc c : forall p n, ~ In c p -> has_prefix (n ++ [c]) p = has_prefix n p.
Proof.
  induction p as [|x p IH]; intros n Hc; [destruct n; reflexivity|]. destruct n as [|y n]; cbn [app has_prefix].
  - assert (x <> c) as Hx by (intros ->; apply Hc; now left). replace (x =? c) with false by lia. reflexivity.
  - rewrite IH; [reflexivity|]. intros Hin. apply Hc. now right.
Qed.
Lemma lsig_is_sig e : ent_spelled_ok e = true -> ent_is_lsig e = ent_is_sig e.
Proof.
  intros H. destruct (spelled_of_ok e H) as [_ El Hraw _]. unfold ent_is_lsig, ent_is_sig.
  clear El H. revert Hraw. generalize (ent_lname e). intros n Hraw.
  destruct Hraw as [E|E]; rewrite E; [reflexivity|]. symmetry. apply has_prefix_snoc. cbn. intros [?|[?|[?|[?|[]]]]]; discriminate.
Qed.
Lemma ent_lname_strip e : ent_lname e = strip_slash (ent_name e).
Proof. reflexivity. Qed.
