(* FmtPS/ModelText.v — the TEXT ENCODING step of the PowerShell Authenticode digest (lib/authenticode/powershell.go
   writeUtf16 / toUtf16), built on the per-rune encoder expressions GENERATED from the Go source (ps_w16_rune, ps_t16_rune,
   ps_w16_pass in Generated/FmtPS_gen.v), and the independent specification of UTF-16-LE from the Unicode standard.
   Executable definitions only. *)
From Relic Require Import Base.Prelude Base.Enc Generated.FmtPS_gen FmtPS.Model.

(* writeUtf16(d, x, isUtf16): what reaches the hash for one line x of the script *)
Definition ps_write_utf16 (is16 : bool) (x : bytes) : bytes :=
  if is16 then ps_w16_pass x else flat_map ps_w16_rune (go_runes x).
(* toUtf16(x): the signature block text written into a UTF-16 script *)
Definition ps_to_utf16 (x : bytes) : bytes := flat_map ps_t16_rune (go_runes x).

(* ---- specification (The Unicode Standard, 3.9 D91 and table 3-5; 3.10 D96 UTF-16LE): a scalar value below 0x10000 is one
   code unit; U+10000..U+10FFFF is the pair  D800 + (c - 0x10000) div 0x400 ,  DC00 + (c - 0x10000) mod 0x400 ; a code unit
   is serialised low byte first. Written from the standard, not from relic or Go. *)
Definition uni_units (c : Z) : list Z :=
  if c <? 65536 then [c] else [55296 + (c - 65536) / 1024; 56320 + (c - 65536) mod 1024].
Definition uni_le (u : Z) : bytes := [u mod 256; u / 256].
Definition uni_utf16le_cp (c : Z) : bytes := flat_map uni_le (uni_units c).
Definition uni_utf16le (cps : list Z) : bytes := flat_map uni_utf16le_cp cps.
(* the decoder of the same standard: code units back to scalar values (well-formed input) *)
Definition uni_is_surrogate (c : Z) : bool := (55296 <=? c) && (c <=? 57343).
(* the byte order mark: U+FEFF serialised by uni_le is FF FE (relic takes a file starting FF FE as UTF-16-LE) *)
Definition uni_bom : bytes := uni_le 65279.
