(* FmtPS/ProofsPS.v — lemmas about the PowerShell half of FmtPS/Model.v. *)
From Relic Require Import Base.Prelude Base.Enc Generated.FmtPS_gen FmtPS.Model FmtPS.Lib.

(* ================================================================== readLine: the shape of ps_lines *)
Definition nl (i : bool) : bytes := if i then [10; 0] else [10].
Definition cline (i : bool) (l : bytes) : Prop := exists body, l = body ++ nl i /\ no10 body.

Lemma ps_lines_nil i : ps_lines i [] = ([[]], true).
Proof. reflexivity. Qed.
Lemma ps_lines_other i b r : b <> 10 ->
  ps_lines i (b :: r) = let '(ls, ok) := ps_lines i r in match ls with h :: t => ((b :: h) :: t, ok) | [] => ([], ok) end.
Proof. intros H. cbn [ps_lines]. unfold ps_rl_delim. replace (b =? 10) with false by lia. reflexivity. Qed.
Lemma ps_lines_nl8 r : ps_lines false (10 :: r) = let '(ls, ok) := ps_lines false r in ([10] :: ls, ok).
Proof. reflexivity. Qed.
Lemma ps_lines_nl16_end : ps_lines true [10] = ([[10; 0]], true).
Proof. reflexivity. Qed.
Lemma ps_lines_nl16_ok r : ps_lines true (10 :: 0 :: r) = let '(ls, ok) := ps_lines true r in ([10; 0] :: ls, ok).
Proof. reflexivity. Qed.
Lemma ps_lines_nl16_bad z r : z <> 0 -> ps_lines true (10 :: z :: r) = ([], false).
Proof. intros H. cbn [ps_lines]. unfold ps_rl_delim, ps_rl_more, ps_rl_bad. cbn [Z.eqb andb]. replace (z =? 0) with false by lia. reflexivity. Qed.

Lemma ps_lines_cline i l r : cline i l -> ps_lines i (l ++ r) = let '(ls, ok) := ps_lines i r in (l :: ls, ok).
Proof.
  intros [body [-> Hb]]. induction body as [|b body IH].
  - destruct i; cbn [nl app]; [apply ps_lines_nl16_ok|apply ps_lines_nl8].
  - apply no10_cons in Hb as [Hb1 Hb2]. cbn [app]. rewrite ps_lines_other by assumption.
    rewrite (IH Hb2). destruct (ps_lines i r) as [ls ok]. reflexivity.
Qed.
Lemma ps_lines_last i l : no10 l -> ps_lines i l = ([l], true).
Proof.
  induction l as [|b l IH]; intros H; [reflexivity|]. apply no10_cons in H as [H1 H2].
  rewrite ps_lines_other by assumption. now rewrite (IH H2).
Qed.
Lemma ps_lines_fake body : no10 body -> ps_lines true (body ++ [10]) = ([body ++ [10; 0]], true).
Proof.
  induction body as [|b l IH]; intros H; [reflexivity|]. apply no10_cons in H as [H1 H2].
  cbn [app]. rewrite ps_lines_other by assumption. now rewrite (IH H2).
Qed.
Lemma ps_lines_concat i Ls r : Forall (cline i) Ls ->
  ps_lines i (concat Ls ++ r) = let '(ls, ok) := ps_lines i r in (Ls ++ ls, ok).
Proof.
  induction 1 as [|l Ls Hl HLs IH]; cbn [concat app].
  - destruct (ps_lines i r); reflexivity.
  - rewrite <- app_assoc, (ps_lines_cline _ _ _ Hl), IH. destruct (ps_lines i r); reflexivity.
Qed.

Inductive lshape (i : bool) : bytes -> list bytes -> bool -> Prop :=
| LS_last l : no10 l -> lshape i l [l] true
| LS_fake body : i = true -> no10 body -> lshape i (body ++ [10]) [body ++ [10; 0]] true
| LS_bad pre z r : i = true -> no10 pre -> z <> 0 -> lshape i (pre ++ 10 :: z :: r) [] false
| LS_cons l r ls ok : cline i l -> lshape i r ls ok -> lshape i (l ++ r) (l :: ls) ok.

Lemma cline_cons i b l : b <> 10 -> cline i l -> cline i (b :: l).
Proof. intros Hb [body [-> H]]. exists (b :: body). split; [reflexivity|]. apply no10_cons. now split. Qed.
Lemma lshape_cons_byte i b r ls ok : b <> 10 -> lshape i r ls ok ->
  lshape i (b :: r) (match ls with h :: t => (b :: h) :: t | [] => [] end) ok.
Proof.
  intros Hb H. inversion H; subst.
  - apply LS_last. apply no10_cons. now split.
  - apply (LS_fake _ (b :: body)); [reflexivity|]. apply no10_cons. now split.
  - apply (LS_bad _ (b :: pre)); [reflexivity| |assumption]. apply no10_cons. now split.
  - apply (LS_cons _ (b :: l) r0); [now apply cline_cons|assumption].
Qed.
Lemma ps_lines_shape i : forall l, let '(ls, ok) := ps_lines i l in lshape i l ls ok.
Proof.
  assert (forall n l, (length l <= n)%nat -> let '(ls, ok) := ps_lines i l in lshape i l ls ok) as G.
  { induction n as [|n IH]; intros l Hl.
    - destruct l; [|cbn in Hl; lia]. cbn. apply LS_last. apply no10_nil.
    - destruct l as [|b r]; [cbn; apply LS_last; apply no10_nil|].
      destruct (Z.eq_dec b 10) as [->|Hb].
      + destruct i.
        * destruct r as [|z r'].
          { rewrite ps_lines_nl16_end. apply (LS_fake true []); [reflexivity|apply no10_nil]. }
          destruct (Z.eq_dec z 0) as [->|Hz].
          { rewrite ps_lines_nl16_ok. specialize (IH r'). cbn in Hl.
            destruct (ps_lines true r') as [ls ok]. apply (LS_cons true [10; 0] r').
            - exists []. split; [reflexivity|apply no10_nil].
            - apply IH. lia. }
          rewrite ps_lines_nl16_bad by assumption. apply (LS_bad true [] z r'); [reflexivity|apply no10_nil|assumption].
        * rewrite ps_lines_nl8. specialize (IH r). cbn in Hl. destruct (ps_lines false r) as [ls ok].
          apply (LS_cons false [10] r); [exists []; split; [reflexivity|apply no10_nil]|apply IH; lia].
      + rewrite ps_lines_other by assumption. specialize (IH r). cbn in Hl.
        destruct (ps_lines i r) as [ls ok].
        assert (lshape i r ls ok) as Hs by (apply IH; lia).
        pose proof (lshape_cons_byte i b r ls ok Hb Hs) as G. destruct ls; exact G. }
  intros l. apply (G (length l)). lia.
Qed.

(* a complete line is never a line without LF, and two complete lines that are prefix-comparable are equal *)
Lemma cline_has10 i l : cline i l -> In 10 l.
Proof. intros [body [-> _]]. apply in_or_app. right. destruct i; left; reflexivity. Qed.
Lemma no10_not_cline i l : no10 l -> ~ cline i l.
Proof. intros H C. apply H. eapply cline_has10; eauto. Qed.
Lemma nl_head i : exists z, nl i = 10 :: z /\ no10 z.
Proof. destruct i; [exists [0]|exists []]; split; try reflexivity; [|apply no10_nil]. apply no10_cons. split; [lia|apply no10_nil]. Qed.
(* position of the first LF *)
Lemma split_first10 a1 z1 a2 z2 : no10 a1 -> no10 a2 -> a1 ++ 10 :: z1 = a2 ++ 10 :: z2 -> a1 = a2 /\ z1 = z2.
Proof.
  revert a2; induction a1 as [|x a1 IH]; intros a2 H1 H2 E.
  - destruct a2 as [|y a2]; [inversion E; split; reflexivity|]. inversion E; subst. apply no10_cons in H2 as [H _]. congruence.
  - apply no10_cons in H1 as [Hx H1]. destruct a2 as [|y a2]; [inversion E; congruence|].
    apply no10_cons in H2 as [Hy H2]. inversion E; subst. destruct (IH a2 H1 H2 H3) as [-> ->]. split; reflexivity.
Qed.
Lemma cline_prefix_eq i l1 r1 l2 r2 : cline i l1 -> cline i l2 -> l1 ++ r1 = l2 ++ r2 -> l1 = l2 /\ r1 = r2.
Proof.
  intros [b1 [-> H1]] [b2 [-> H2]] E. destruct (nl_head i) as [z [Ez Hz]]. rewrite Ez in *.
  rewrite <- !app_assoc in E. cbn [app] in E.
  destruct (split_first10 _ _ _ _ H1 H2 E) as [-> E2]. apply app_inv_head in E2. now subst.
Qed.

(* ================================================================== styles *)
Definition sty_ok (st en : bytes) : Prop := ascii st /\ ascii en /\ no10 st /\ no10 en.
Ltac ascii_tac := unfold ascii; repeat (first [apply Forall_nil | apply Forall_cons; [lia|]]).
Ltac no10_tac := unfold no10; cbn [In]; intros Hno; repeat (destruct Hno as [Hno|Hno]; [lia|]); exact Hno.
Lemma style_lookup_cases s st en : style_lookup s = Some (st, en) ->
  (s = 1 /\ st = [35; 32] /\ en = []) \/ (s = 2 /\ st = [60; 33; 45; 45; 32] /\ en = [32; 45; 45; 62]) \/ (s = 3 /\ st = [47; 42; 32] /\ en = [32; 42; 47]).
Proof.
  unfold style_lookup, ps_styles. cbn [find fst snd].
  destruct (1 =? s) eqn:E1; [intros H; inversion H; left; repeat split; lia|].
  destruct (2 =? s) eqn:E2; [intros H; inversion H; right; left; repeat split; lia|].
  destruct (3 =? s) eqn:E3; [intros H; inversion H; right; right; repeat split; lia|]. discriminate.
Qed.
Lemma style_lookup_ok s st en : style_lookup s = Some (st, en) -> sty_ok st en.
Proof.
  intros H. destruct (style_lookup_cases _ _ _ H) as [[_ [-> ->]]|[[_ [-> ->]]|[_ [-> ->]]]]; unfold sty_ok;
    (split; [ascii_tac|split; [ascii_tac|split; no10_tac]]).
Qed.
(* the specification's table is the generated one *)
Lemma spec_style_eq s : spec_style s = style_lookup s.
Proof.
  unfold spec_style, style_lookup, ps_styles. cbn [find fst snd].
  rewrite (Z.eqb_sym 1 s), (Z.eqb_sym 2 s), (Z.eqb_sym 3 s).
  destruct (s =? 1); [reflexivity|]. destruct (s =? 2); [reflexivity|]. destruct (s =? 3); reflexivity.
Qed.
Lemma spec_begin_eq : spec_begin = ps_begin. Proof. reflexivity. Qed.
Lemma spec_end_eq : spec_end = ps_end. Proof. reflexivity. Qed.
Lemma ps_begin_ascii : ascii ps_begin /\ no10 ps_begin.
Proof. split; [unfold ps_begin; ascii_tac|unfold ps_begin; no10_tac]. Qed.
Lemma ps_end_ascii : ascii ps_end /\ no10 ps_end.
Proof. split; [unfold ps_end; ascii_tac|unfold ps_end; no10_tac]. Qed.

(* the marker in the file's encoding *)
Lemma marker_ascii i l : ascii l -> ps_marker i l = spec_w i l.
Proof. intros H. unfold ps_marker, spec_w. destruct i; [now apply to_utf16_ascii|reflexivity]. Qed.
Lemma spec_w_app i a b : spec_w i (a ++ b) = spec_w i a ++ spec_w i b.
Proof. destruct i; [apply widen_app|reflexivity]. Qed.
Lemma spec_w_nl i : spec_w i [10] = nl i.
Proof. destruct i; reflexivity. Qed.
Lemma no10_spec_w i l : no10 l -> no10 (spec_w i l).
Proof. destruct i; [apply no10_widen|auto]. Qed.
Lemma spec_w_inj i a b : spec_w i a = spec_w i b -> a = b.
Proof. destruct i; [apply widen_inj|auto]. Qed.
Lemma zlen_spec_w i l : zlen (spec_w i l) = (if i then 2 else 1) * zlen l.
Proof. destruct i; [apply zlen_widen|unfold spec_w; lia]. Qed.
(* a text line  body CR LF  in the file's encoding is a complete line *)
Lemma cline_text i body : no10 body -> cline i (spec_w i (body ++ [13; 10])).
Proof.
  intros H. exists (spec_w i (body ++ [13])). split.
  - rewrite <- spec_w_nl, <- spec_w_app, <- app_assoc. reflexivity.
  - apply no10_spec_w. apply no10_app. split; [assumption|]. apply no10_cons. split; [lia|apply no10_nil].
Qed.

Definition firstW (i : bool) (st en : bytes) : bytes := ps_marker i (ps_first_of st en).
Definition lastW (i : bool) (st en : bytes) : bytes := ps_marker i (ps_last_of st en).
Definition crlfW (i : bool) : bytes := ps_marker i [13; 10].

Section Style.
  Variables (i : bool) (st en : bytes).
  Hypothesis Hsty : sty_ok st en.
  Local Notation first := (firstW i st en).
  Local Notation last := (lastW i st en).
  Local Notation crlf := (crlfW i).

  Lemma first_eq : first = spec_w i ((st ++ ps_begin ++ en) ++ [13; 10]).
  Proof.
    destruct Hsty as [H1 [H2 _]]. unfold firstW, ps_first_of. rewrite marker_ascii.
    - f_equal. now rewrite <- !app_assoc.
    - repeat (apply ascii_app; split); try assumption; [apply ps_begin_ascii|ascii_tac].
  Qed.
  Lemma last_eq : last = spec_w i ((st ++ ps_end ++ en) ++ [13; 10]).
  Proof.
    destruct Hsty as [H1 [H2 _]]. unfold lastW, ps_last_of. rewrite marker_ascii.
    - f_equal. now rewrite <- !app_assoc.
    - repeat (apply ascii_app; split); try assumption; [apply ps_end_ascii|ascii_tac].
  Qed.
  Lemma crlf_eq : crlf = spec_w i [13; 10].
  Proof. unfold crlfW. apply marker_ascii. ascii_tac. Qed.
  Lemma cline_first : cline i first.
  Proof.
    rewrite first_eq. apply cline_text. destruct Hsty as [_ [_ [H3 H4]]].
    repeat (apply no10_app; split); try assumption. apply ps_begin_ascii.
  Qed.
  Lemma cline_last : cline i last.
  Proof.
    rewrite last_eq. apply cline_text. destruct Hsty as [_ [_ [H3 H4]]].
    repeat (apply no10_app; split); try assumption. apply ps_end_ascii.
  Qed.
  Lemma zlen_crlf : zlen crlf = if i then 4 else 2.
  Proof. rewrite crlf_eq. destruct i; reflexivity. Qed.
  Lemma first_neq_no10 l : no10 l -> l <> first.
  Proof. intros H E. subst l. eapply no10_not_cline; eauto using cline_first. Qed.

  (* ================================================================ DigestPowershell's loop *)
  Lemma conv_nil : ps_conv i [] = [].
  Proof. destruct i; reflexivity. Qed.

  Lemma last_cons {A} (x : A) l d : List.last (x :: l) d = List.last l x.
  Proof. revert x; induction l as [|y l IH]; intros x; [reflexivity|]. cbn [List.last] in *. destruct l; [reflexivity|]. apply IH. Qed.

  Definition keep_of (s : bytes) : Z := if i then ps_dig_keep16 (zlen s) else ps_dig_keep8 (zlen s).
  Definition eol_of : Z := if i then ps_dig_eol16 else ps_dig_eol8.

  Lemma dig_scan_found flen ok : forall Ls saved pos rest,
    Forall (fun l => l <> first) Ls ->
    dig_scan i first flen ok saved pos (Ls ++ first :: rest) =
      let s := List.last Ls saved in
      let init := removelast (saved :: Ls) in
      if keep_of s <? 0 then SPanic else
      SText true (concat (map (ps_conv i) init) ++ ps_conv i (ztake (keep_of s) s))
                 (zlen (concat init) + zlen (ztake (keep_of s) s))
                 (eol_of + zlen first + Z.max 0 (flen - (pos + zlen (concat Ls) + zlen first))).
  Proof.
    induction Ls as [|l Ls IH]; intros saved pos rest HLs.
    - cbn [app dig_scan List.last removelast concat map]. unfold ps_dig_is_first. rewrite bytes_eqb_refl.
      unfold keep_of, eol_of, ps_dig_sig_line. destruct (_ <? 0); [reflexivity|].
      f_equal.
      all: cbn [concat app]; change (@zlen Z []) with 0; try reflexivity; try lia.
    - inversion HLs as [|? ? Hl HLs']; subst. cbn [app dig_scan]. unfold ps_dig_is_first.
      replace (bytes_eqb l first) with false by (symmetry; now apply bytes_eqb_neq).
      destruct (Ls ++ first :: rest) as [|x y] eqn:E; [destruct Ls; discriminate|]. rewrite <- E.
      rewrite (IH l (pos + zlen l) rest HLs'). rewrite last_cons.
      replace (removelast (saved :: l :: Ls)) with (saved :: removelast (l :: Ls)) by reflexivity.
      cbv zeta. destruct (keep_of (List.last Ls l) <? 0); [reflexivity|].
      cbn [sprepend concat map]. rewrite <- app_assoc, zlen_app. cbn [concat]. rewrite zlen_app.
      f_equal; lia.
  Qed.

  Lemma dig_scan_notfound flen : forall Ls lastl saved pos,
    Forall (fun l => l <> first) (Ls ++ [lastl]) ->
    dig_scan i first flen true saved pos (Ls ++ [lastl]) =
      SText false (ps_conv i saved ++ concat (map (ps_conv i) (Ls ++ [lastl]))) (zlen saved + zlen (concat (Ls ++ [lastl]))) 0.
  Proof.
    induction Ls as [|l Ls IH]; intros lastl saved pos H.
    - inversion H as [|? ? Hl _]; subst. cbn [app dig_scan]. unfold ps_dig_is_first.
      replace (bytes_eqb lastl first) with false by (symmetry; now apply bytes_eqb_neq).
      cbn [sprepend concat map]. rewrite !app_nil_r. reflexivity.
    - inversion H as [|? ? Hl H']; subst. cbn [app dig_scan]. unfold ps_dig_is_first.
      replace (bytes_eqb l first) with false by (symmetry; now apply bytes_eqb_neq).
      destruct (Ls ++ [lastl]) as [|x y] eqn:E; [destruct Ls; discriminate|]. rewrite <- E in *.
      rewrite (IH lastl l (pos + zlen l) H'). cbn [sprepend concat map]. rewrite zlen_app. f_equal; lia.
  Qed.

  (* ================================================================ the domain, decomposed *)
  Lemma lshape_false_len f ls ok : lshape i f ls ok -> ok = false -> zlen (concat ls) < zlen f.
  Proof.
    induction 1 as [l Hl|body Hi Hb|pre z r Hi Hp Hz|l r ls ok Hl Hr IH]; intros E; try discriminate.
    - cbn [concat]. rewrite zlen_nil, zlen_app, !zlen_cons. pose proof (zlen_nonneg pre). pose proof (zlen_nonneg r). lia.
    - cbn [concat]. rewrite !zlen_app. specialize (IH E). lia.
  Qed.
  Lemma lshape_true_exact f ls ok : lshape i f ls ok -> ok = true -> zlen (concat ls) = zlen f ->
    exists Ls lastl, ls = Ls ++ [lastl] /\ Forall (cline i) Ls /\ no10 lastl /\ f = concat Ls ++ lastl.
  Proof.
    induction 1 as [l Hl|body Hi Hb|pre z r Hi Hp Hz|l r ls ok Hl Hr IH]; intros E Hlen; try discriminate.
    - exists [], l. repeat split; auto.
    - cbn [concat] in Hlen. rewrite app_nil_r, !zlen_app, !zlen_cons, !zlen_nil in Hlen. lia.
    - cbn [concat] in Hlen. rewrite !zlen_app in Hlen.
      destruct (IH E ltac:(lia)) as [Ls [lastl [-> [H1 [H2 ->]]]]].
      exists (l :: Ls), lastl. repeat split; auto. cbn [concat]. now rewrite app_assoc.
  Qed.

  Lemma dom_scan_cases ok : forall ls saved, dom_scan first crlf ok saved ls = true ->
    (exists Ls lsR, ls = Ls ++ first :: lsR /\ Forall (fun l => l <> first) Ls /\ has_suffix (List.last Ls saved) crlf = true)
    \/ (ok = true /\ exists Ls lastl, ls = Ls ++ [lastl] /\ Forall (fun l => l <> first) (Ls ++ [lastl]) /\ lastl ++ crlf <> first).
  Proof.
    induction ls as [|l ls IH]; intros saved H; [discriminate|].
    cbn [dom_scan] in H. destruct (bytes_eqb l first) eqn:E.
    - apply bytes_eqb_eq in E. subst l. left. exists [], ls. repeat split; auto.
    - apply bytes_eqb_neq in E. destruct ls as [|l2 ls2].
      + apply andb_true_iff in H as [H1 H2]. apply negb_true_iff, bytes_eqb_neq in H2.
        right. split; [assumption|]. exists [], l. repeat split; auto. cbn [app]. constructor; [assumption|constructor].
      + destruct (IH _ H) as [[Ls [lsR [E1 [E2 E3]]]]|[Hok [Ls [lastl [E1 [E2 E3]]]]]].
        * left. exists (l :: Ls), lsR. rewrite E1. repeat split; auto. now rewrite last_cons.
        * right. split; [assumption|]. exists (l :: Ls), lastl. rewrite E1. repeat split; auto. cbn [app]. constructor; assumption.
  Qed.

  Lemma cline_app_crlf l : no10 l -> cline i (l ++ crlf).
  Proof.
    intros H. rewrite crlf_eq. exists (l ++ spec_w i [13]). split.
    - rewrite <- app_assoc. f_equal. rewrite <- spec_w_nl, <- spec_w_app. reflexivity.
    - apply no10_app. split; [assumption|]. apply no10_spec_w. apply no10_cons. split; [lia|apply no10_nil].
  Qed.
  Lemma crlf_nonempty : crlf <> [].
  Proof. intros E. pose proof zlen_crlf as H. rewrite E, zlen_nil in H. destruct i; lia. Qed.

  (* a file in the domain: Ls are the complete lines in front of the last content line s; T = concat Ls ++ s is the content *)
  Inductive domshape (f : bytes) : Prop :=
  | DS_unsigned Ls s :
      Forall (cline i) Ls -> Forall (fun l => l <> first) Ls -> no10 s -> s ++ crlf <> first ->
      f = concat Ls ++ s -> ps_lines i f = (Ls ++ [s], true) -> domshape f
  | DS_signed Ls s lsR :
      Forall (cline i) (Ls ++ [s ++ crlf]) -> Forall (fun l => l <> first) (Ls ++ [s ++ crlf]) ->
      f = concat (Ls ++ [s ++ crlf]) ++ first ++ concat lsR ->
      ps_lines i f = ((Ls ++ [s ++ crlf]) ++ first :: lsR, true) -> domshape f.

  Lemma dom_shape f :
    (let '(ls, ok) := ps_lines i f in dom_scan first crlf ok [] ls && (zlen (concat ls) =? zlen f)) = true -> domshape f.
  Proof.
    pose proof (ps_lines_shape i f) as Hs. destruct (ps_lines i f) as [ls ok] eqn:El. intros H.
    apply andb_true_iff in H as [Hd Hlen]. apply Z.eqb_eq in Hlen.
    destruct ok; [|pose proof (lshape_false_len _ _ _ Hs eq_refl); lia].
    destruct (lshape_true_exact _ _ _ Hs eq_refl Hlen) as [Ls0 [lastl [-> [Hc [Hn ->]]]]].
    destruct (dom_scan_cases _ _ _ Hd) as [[Ls [lsR [E1 [E2 E3]]]]|[_ [Ls [l2 [E1 [E2 E3]]]]]].
    - (* a marker line exists; it is not the last (LF-free) line *)
      destruct (exists_last (l:=lsR)) as [lsR' [x Ex]].
      { intros ->. apply app_inj_tail in E1 as [_ E]. subst lastl. eapply first_neq_no10; eauto. }
      subst lsR. rewrite app_comm_cons, app_assoc in E1. apply app_inj_tail in E1 as [E1 <-]. subst Ls0.
      destruct (exists_last (l:=Ls)) as [Ls1 [sl Es]].
      { intros ->. cbn [List.last] in E3. unfold has_suffix in E3. cbn [rev] in E3.
        destruct (rev crlf) eqn:Er; [|discriminate]. apply (f_equal (@rev Z)) in Er. rewrite rev_involutive in Er. now apply crlf_nonempty. }
      subst Ls. rewrite last_last in E3. apply has_suffix_spec in E3 as [s ->].
      apply Forall_app in Hc as [Hc _].
      apply (DS_signed _ Ls1 s (lsR' ++ [lastl])); auto.
      + rewrite !concat_app. cbn [concat]. rewrite !app_nil_r, <- !app_assoc. reflexivity.
      + rewrite El. f_equal. rewrite <- !app_assoc. reflexivity.
    - apply app_inj_tail in E1 as [<- <-]. apply Forall_app in E2 as [E2 _].
      apply (DS_unsigned _ Ls0 lastl); auto.
  Qed.

  (* what both shapes share *)
  Definition pre_of (Ls : list bytes) (s : bytes) : bytes := concat (map (ps_conv i) Ls) ++ ps_conv i s.
  Definition dig_of (f : bytes) : scanres := let '(ls, ok) := ps_lines i f in dig_scan i first (zlen f) ok [] 0 ls.

  Lemma keep_crlf s : keep_of (s ++ crlf) = zlen s.
  Proof. unfold keep_of, ps_dig_keep16, ps_dig_keep8. rewrite zlen_app, zlen_crlf. destruct i; lia. Qed.
  Lemma eol_crlf : eol_of = zlen crlf.
  Proof. rewrite zlen_crlf. unfold eol_of. destruct i; reflexivity. Qed.

  Lemma dom_digest f : domshape f -> exists Ls s,
    Forall (cline i) (Ls ++ [s ++ crlf]) /\ Forall (fun l => l <> first) (Ls ++ [s ++ crlf]) /\
    (exists fd ssz, dig_of f = SText fd (pre_of Ls s) (zlen (concat Ls ++ s)) ssz /\ zlen f <= zlen (concat Ls ++ s) + ssz) /\
    ztake (zlen (concat Ls ++ s)) f = concat Ls ++ s /\
    ((f = concat Ls ++ s /\ no10 s) \/ exists R, f = concat (Ls ++ [s ++ crlf]) ++ first ++ R).
  Proof.
    intros [Ls s H1 H2 H3 H4 H5 H6|Ls s lsR H1 H2 H3 H4].
    - exists Ls, s. split; [apply Forall_app; split; [assumption|constructor; [now apply cline_app_crlf|constructor]]|].
      split; [apply Forall_app; split; [assumption|constructor; [assumption|constructor]]|].
      split; [|split; [rewrite <- H5; apply ztake_all; lia|left; now split]].
      exists false, 0. unfold dig_of. rewrite H6. rewrite dig_scan_notfound.
      + rewrite conv_nil, zlen_nil. cbn [app]. split; [|rewrite H5; lia].
        unfold pre_of. rewrite map_app, !concat_app. cbn [map concat]. rewrite !app_nil_r. reflexivity.
      + apply Forall_app. split; [assumption|constructor; [now apply first_neq_no10|constructor]].
    - exists Ls, s. split; [assumption|]. split; [assumption|].
      assert (ztake (zlen (concat Ls ++ s)) f = concat Ls ++ s) as Ht.
      { rewrite H3, concat_app_single, <- !app_assoc, (app_assoc (concat Ls)). apply ztake_app_exact. }
      split; [|split; [exact Ht|right; now exists (concat lsR)]].
      unfold dig_of. rewrite H4. rewrite (dig_scan_found (zlen f) true _ [] 0 lsR H2). cbv zeta.
      rewrite last_last, keep_crlf. replace (zlen s <? 0) with false by (pose proof (zlen_nonneg s); lia).
      exists true. eexists. split.
      + f_equal.
        * rewrite app_comm_cons, removelast_last. cbn [map concat]. rewrite conv_nil. cbn [app].
          unfold pre_of. f_equal. f_equal. apply ztake_app_exact.
        * rewrite app_comm_cons, removelast_last. cbn [concat app]. rewrite ztake_app_exact, zlen_app. reflexivity.
      + rewrite eol_crlf. rewrite H3 at 1. rewrite !zlen_app, concat_app_single, !zlen_app. lia.
  Qed.
End Style.
