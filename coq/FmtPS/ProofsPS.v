(* FmtPS/ProofsPS.v — lemmas about the PowerShell half of FmtPS/Model.v. *)
From Relic Require Import Base.Prelude Base.Enc Generated.FmtPS_gen FmtPS.Model FmtPS.Lib.

(* ================================================================== readLine: the shape of ps_lines *)
Definition nl (i : bool) : bytes := if i then [10; 0] else [10].
Definition cline (i : bool) (l : bytes) : Prop := exists body, l = body ++ nl i /\ no10 body.

Lemma ps_lines_nil i : ps_lines i [] = ([[]], true).
Proof. reflexivity. Qed.
Lemma ps_lines_other i b r : b <> 10 ->
  ps_lines i (b :: r) = let '(ls, ok) := ps_lines i r in match ls with h :: t => ((b :: h) :: t, ok) | [] => ([], ok) end.
Proof. intros H. cbn [ps_lines]. unfold ps_rl_delim. replace (b =? 10) with false by lia. reflexivity. Qed.
Lemma ps_lines_nl8 r : ps_lines false (10 :: r) = let '(ls, ok) := ps_lines false r in ([10] :: ls, ok).
Proof. reflexivity. Qed.
Lemma ps_lines_nl16_end : ps_lines true [10] = ([[10; 0]], true).
Proof. reflexivity. Qed.
Lemma ps_lines_nl16_ok r : ps_lines true (10 :: 0 :: r) = let '(ls, ok) := ps_lines true r in ([10; 0] :: ls, ok).
Proof. reflexivity. Qed.
Lemma ps_lines_nl16_bad z r : z <> 0 -> ps_lines true (10 :: z :: r) = ([], false).
Proof. intros H. cbn [ps_lines]. unfold ps_rl_delim, ps_rl_more, ps_rl_bad. cbn [Z.eqb andb]. replace (z =? 0) with false by lia. reflexivity. Qed.

Lemma ps_lines_cline i l r : cline i l -> ps_lines i (l ++ r) = let '(ls, ok) := ps_lines i r in (l :: ls, ok).
Proof.
  intros [body [-> Hb]]. induction body as [|b body IH].
  - destruct i; cbn [nl app]; [apply ps_lines_nl16_ok|apply ps_lines_nl8].
  - apply no10_cons in Hb as [Hb1 Hb2]. cbn [app]. rewrite ps_lines_other by assumption.
    rewrite (IH Hb2). destruct (ps_lines i r) as [ls ok]. reflexivity.
Qed.
Lemma ps_lines_last i l : no10 l -> ps_lines i l = ([l], true).
Proof.
  induction l as [|b l IH]; intros H; [reflexivity|]. apply no10_cons in H as [H1 H2].
  rewrite ps_lines_other by assumption. now rewrite (IH H2).
Qed.
Lemma ps_lines_fake body : no10 body -> ps_lines true (body ++ [10]) = ([body ++ [10; 0]], true).
Proof.
  induction body as [|b l IH]; intros H; [reflexivity|]. apply no10_cons in H as [H1 H2].
  cbn [app]. rewrite ps_lines_other by assumption. now rewrite (IH H2).
Qed.
Lemma ps_lines_concat i Ls r : Forall (cline i) Ls ->
  ps_lines i (concat Ls ++ r) = let '(ls, ok) := ps_lines i r in (Ls ++ ls, ok).
Proof.
  induction 1 as [|l Ls Hl HLs IH]; cbn [concat app].
  - destruct (ps_lines i r); reflexivity.
  - rewrite <- app_assoc, (ps_lines_cline _ _ _ Hl), IH. destruct (ps_lines i r); reflexivity.
Qed.

Inductive lshape (i : bool) : bytes -> list bytes -> bool -> Prop :=
| LS_last l : no10 l -> lshape i l [l] true
| LS_fake body : i = true -> no10 body -> lshape i (body ++ [10]) [body ++ [10; 0]] true
| LS_bad pre z r : i = true -> no10 pre -> z <> 0 -> lshape i (pre ++ 10 :: z :: r) [] false
| LS_cons l r ls ok : cline i l -> lshape i r ls ok -> lshape i (l ++ r) (l :: ls) ok.

Lemma cline_cons i b l : b <> 10 -> cline i l -> cline i (b :: l).
Proof. intros Hb [body [-> H]]. exists (b :: body). split; [reflexivity|]. apply no10_cons. now split. Qed.
Lemma lshape_cons_byte i b r ls ok : b <> 10 -> lshape i r ls ok ->
  lshape i (b :: r) (match ls with h :: t => (b :: h) :: t | [] => [] end) ok.
Proof.
  intros Hb H. inversion H; subst.
  - apply LS_last. apply no10_cons. now split.
  - apply (LS_fake _ (b :: body)); [reflexivity|]. apply no10_cons. now split.
  - apply (LS_bad _ (b :: pre)); [reflexivity| |assumption]. apply no10_cons. now split.
  - apply (LS_cons _ (b :: l) r0); [now apply cline_cons|assumption].
Qed.
Lemma ps_lines_shape i : forall l, let '(ls, ok) := ps_lines i l in lshape i l ls ok.
Proof.
  assert (forall n l, (length l <= n)%nat -> let '(ls, ok) := ps_lines i l in lshape i l ls ok) as G.
  { induction n as [|n IH]; intros l Hl.
    - destruct l; [|cbn in Hl; lia]. cbn. apply LS_last. apply no10_nil.
    - destruct l as [|b r]; [cbn; apply LS_last; apply no10_nil|].
      destruct (Z.eq_dec b 10) as [->|Hb].
      + destruct i.
        * destruct r as [|z r'].
          { rewrite ps_lines_nl16_end. apply (LS_fake true []); [reflexivity|apply no10_nil]. }
          destruct (Z.eq_dec z 0) as [->|Hz].
          { rewrite ps_lines_nl16_ok. specialize (IH r'). cbn in Hl.
            destruct (ps_lines true r') as [ls ok]. apply (LS_cons true [10; 0] r').
            - exists []. split; [reflexivity|apply no10_nil].
            - apply IH. lia. }
          rewrite ps_lines_nl16_bad by assumption. apply (LS_bad true [] z r'); [reflexivity|apply no10_nil|assumption].
        * rewrite ps_lines_nl8. specialize (IH r). cbn in Hl. destruct (ps_lines false r) as [ls ok].
          apply (LS_cons false [10] r); [exists []; split; [reflexivity|apply no10_nil]|apply IH; lia].
      + rewrite ps_lines_other by assumption. specialize (IH r). cbn in Hl.
        destruct (ps_lines i r) as [ls ok].
        assert (lshape i r ls ok) as Hs by (apply IH; lia).
        pose proof (lshape_cons_byte i b r ls ok Hb Hs) as G. destruct ls; exact G. }
  intros l. apply (G (length l)). lia.
Qed.

(* a complete line is never a line without LF, and two complete lines that are prefix-comparable are equal *)
Lemma cline_has10 i l : cline i l -> In 10 l.
Proof. intros [body [-> _]]. apply in_or_app. right. destruct i; left; reflexivity. Qed.
Lemma no10_not_cline i l : no10 l -> ~ cline i l.
Proof. intros H C. apply H. eapply cline_has10; eauto. Qed.
Lemma nl_head i : exists z, nl i = 10 :: z /\ no10 z.
Proof. destruct i; [exists [0]|exists []]; split; try reflexivity; [|apply no10_nil]. apply no10_cons. split; [lia|apply no10_nil]. Qed.
(* position of the first LF *)
Lemma split_first10 a1 z1 a2 z2 : no10 a1 -> no10 a2 -> a1 ++ 10 :: z1 = a2 ++ 10 :: z2 -> a1 = a2 /\ z1 = z2.
Proof.
  revert a2; induction a1 as [|x a1 IH]; intros a2 H1 H2 E.
  - destruct a2 as [|y a2]; [inversion E; split; reflexivity|]. inversion E; subst. apply no10_cons in H2 as [H _]. congruence.
  - apply no10_cons in H1 as [Hx H1]. destruct a2 as [|y a2]; [inversion E; congruence|].
    apply no10_cons in H2 as [Hy H2]. inversion E; subst. destruct (IH a2 H1 H2 H3) as [-> ->]. split; reflexivity.
Qed.
Lemma cline_prefix_eq i l1 r1 l2 r2 : cline i l1 -> cline i l2 -> l1 ++ r1 = l2 ++ r2 -> l1 = l2 /\ r1 = r2.
Proof.
  intros [b1 [-> H1]] [b2 [-> H2]] E. destruct (nl_head i) as [z [Ez Hz]]. rewrite Ez in *.
  rewrite <- !app_assoc in E. cbn [app] in E.
  destruct (split_first10 _ _ _ _ H1 H2 E) as [-> E2]. apply app_inv_head in E2. now subst.
Qed.

(* ================================================================== styles *)
Definition sty_ok (st en : bytes) : Prop := ascii st /\ ascii en /\ no10 st /\ no10 en.
Ltac ascii_tac := unfold ascii; repeat (first [apply Forall_nil | apply Forall_cons; [lia|]]).
Ltac no10_tac := unfold no10; cbn [In]; intros Hno; repeat (destruct Hno as [Hno|Hno]; [lia|]); exact Hno.
Lemma style_lookup_cases s st en : style_lookup s = Some (st, en) ->
  (s = 1 /\ st = [35; 32] /\ en = []) \/ (s = 2 /\ st = [60; 33; 45; 45; 32] /\ en = [32; 45; 45; 62]) \/ (s = 3 /\ st = [47; 42; 32] /\ en = [32; 42; 47]).
Proof.
  unfold style_lookup, ps_styles. cbn [find fst snd].
  destruct (1 =? s) eqn:E1; [intros H; inversion H; left; repeat split; lia|].
  destruct (2 =? s) eqn:E2; [intros H; inversion H; right; left; repeat split; lia|].
  destruct (3 =? s) eqn:E3; [intros H; inversion H; right; right; repeat split; lia|]. discriminate.
Qed.
Lemma style_lookup_ok s st en : style_lookup s = Some (st, en) -> sty_ok st en.
Proof.
  intros H. destruct (style_lookup_cases _ _ _ H) as [[_ [-> ->]]|[[_ [-> ->]]|[_ [-> ->]]]]; unfold sty_ok;
    (split; [ascii_tac|split; [ascii_tac|split; no10_tac]]).
Qed.
(* the specification's table is the generated one *)
Lemma spec_style_eq s : spec_style s = style_lookup s.
Proof.
  unfold spec_style, style_lookup, ps_styles. cbn [find fst snd].
  rewrite (Z.eqb_sym 1 s), (Z.eqb_sym 2 s), (Z.eqb_sym 3 s).
  destruct (s =? 1); [reflexivity|]. destruct (s =? 2); [reflexivity|]. destruct (s =? 3); reflexivity.
Qed.
Lemma spec_begin_eq : spec_begin = ps_begin. Proof. reflexivity. Qed.
Lemma spec_end_eq : spec_end = ps_end. Proof. reflexivity. Qed.
Lemma ps_begin_ascii : ascii ps_begin /\ no10 ps_begin.
Proof. split; [unfold ps_begin; ascii_tac|unfold ps_begin; no10_tac]. Qed.
Lemma ps_end_ascii : ascii ps_end /\ no10 ps_end.
Proof. split; [unfold ps_end; ascii_tac|unfold ps_end; no10_tac]. Qed.

(* the marker in the file's encoding *)
Lemma marker_ascii i l : ascii l -> ps_marker i l = spec_w i l.
Proof. intros H. unfold ps_marker, spec_w. destruct i; [now apply to_utf16_ascii|reflexivity]. Qed.
Lemma spec_w_app i a b : spec_w i (a ++ b) = spec_w i a ++ spec_w i b.
Proof. destruct i; [apply widen_app|reflexivity]. Qed.
Lemma spec_w_nl i : spec_w i [10] = nl i.
Proof. destruct i; reflexivity. Qed.
Lemma no10_spec_w i l : no10 l -> no10 (spec_w i l).
Proof. destruct i; [apply no10_widen|auto]. Qed.
Lemma spec_w_inj i a b : spec_w i a = spec_w i b -> a = b.
Proof. destruct i; [apply widen_inj|auto]. Qed.
Lemma zlen_spec_w i l : zlen (spec_w i l) = (if i then 2 else 1) * zlen l.
Proof. destruct i; [apply zlen_widen|unfold spec_w; lia]. Qed.
(* a text line  body CR LF  in the file's encoding is a complete line *)
Lemma cline_text i body : no10 body -> cline i (spec_w i (body ++ [13; 10])).
Proof.
  intros H. exists (spec_w i (body ++ [13])). split.
  - rewrite <- spec_w_nl, <- spec_w_app, <- app_assoc. reflexivity.
  - apply no10_spec_w. apply no10_app. split; [assumption|]. apply no10_cons. split; [lia|apply no10_nil].
Qed.

Definition firstW (i : bool) (st en : bytes) : bytes := ps_marker i (ps_first_of st en).
Definition lastW (i : bool) (st en : bytes) : bytes := ps_marker i (ps_last_of st en).
Definition crlfW (i : bool) : bytes := ps_marker i [13; 10].

Section Style.
  Variables (i : bool) (st en : bytes).
  Hypothesis Hsty : sty_ok st en.
  Local Notation first := (firstW i st en).
  Local Notation last := (lastW i st en).
  Local Notation crlf := (crlfW i).

  Lemma first_eq : first = spec_w i ((st ++ ps_begin ++ en) ++ [13; 10]).
  Proof.
    destruct Hsty as [H1 [H2 _]]. unfold firstW, ps_first_of. rewrite marker_ascii.
    - f_equal. now rewrite <- !app_assoc.
    - repeat (apply ascii_app; split); try assumption; [apply ps_begin_ascii|ascii_tac].
  Qed.
  Lemma last_eq : last = spec_w i ((st ++ ps_end ++ en) ++ [13; 10]).
  Proof.
    destruct Hsty as [H1 [H2 _]]. unfold lastW, ps_last_of. rewrite marker_ascii.
    - f_equal. now rewrite <- !app_assoc.
    - repeat (apply ascii_app; split); try assumption; [apply ps_end_ascii|ascii_tac].
  Qed.
  Lemma crlf_eq : crlf = spec_w i [13; 10].
  Proof. unfold crlfW. apply marker_ascii. ascii_tac. Qed.
  Lemma cline_first : cline i first.
  Proof.
    rewrite first_eq. apply cline_text. destruct Hsty as [_ [_ [H3 H4]]].
    repeat (apply no10_app; split); try assumption. apply ps_begin_ascii.
  Qed.
  Lemma cline_last : cline i last.
  Proof.
    rewrite last_eq. apply cline_text. destruct Hsty as [_ [_ [H3 H4]]].
    repeat (apply no10_app; split); try assumption. apply ps_end_ascii.
  Qed.
  Lemma zlen_crlf : zlen crlf = if i then 4 else 2.
  Proof. rewrite crlf_eq. destruct i; reflexivity. Qed.
  Lemma first_neq_no10 l : no10 l -> l <> first.
  Proof. intros H E. subst l. eapply no10_not_cline; eauto using cline_first. Qed.

  (* ================================================================ DigestPowershell's loop *)
  Lemma conv_nil : ps_conv i [] = [].
  Proof. destruct i; reflexivity. Qed.

  Lemma last_cons {A} (x : A) l d : List.last (x :: l) d = List.last l x.
  Proof. revert x; induction l as [|y l IH]; intros x; [reflexivity|]. cbn [List.last] in *. destruct l; [reflexivity|]. apply IH. Qed.

  Definition keep_of (s : bytes) : Z := if i then ps_dig_keep16 (zlen s) else ps_dig_keep8 (zlen s).
  Definition eol_of : Z := if i then ps_dig_eol16 else ps_dig_eol8.

  Lemma short_keep s : ps_dig_short i (zlen s) = (keep_of s <? 0).
  Proof. unfold ps_dig_short, keep_of, ps_dig_keep16, ps_dig_keep8. destruct i; cbn [andb]; lia. Qed.

  Lemma dig_scan_found flen ok : forall Ls saved pos rest,
    Forall (fun l => l <> first) Ls ->
    dig_scan i first flen ok saved pos (Ls ++ first :: rest) =
      let s := List.last Ls saved in
      let init := removelast (saved :: Ls) in
      if keep_of s <? 0 then SMalf else
      SText true (concat (map (ps_conv i) init) ++ ps_conv i (ztake (keep_of s) s))
                 (zlen (concat init) + zlen (ztake (keep_of s) s))
                 (eol_of + zlen first + Z.max 0 (flen - (pos + zlen (concat Ls) + zlen first))).
  Proof.
    induction Ls as [|l Ls IH]; intros saved pos rest HLs.
    - cbn [app dig_scan List.last removelast concat map]. unfold ps_dig_is_first. rewrite bytes_eqb_refl.
      rewrite short_keep. unfold keep_of, eol_of, ps_dig_sig_line. destruct (_ <? 0); [reflexivity|].
      f_equal.
      all: cbn [concat app]; change (@zlen Z []) with 0; try reflexivity; try lia.
    - inversion HLs as [|? ? Hl HLs']; subst. cbn [app dig_scan]. unfold ps_dig_is_first.
      replace (bytes_eqb l first) with false by (symmetry; now apply bytes_eqb_neq).
      destruct (Ls ++ first :: rest) as [|x y] eqn:E; [destruct Ls; discriminate|]. rewrite <- E.
      rewrite (IH l (pos + zlen l) rest HLs'). rewrite last_cons.
      replace (removelast (saved :: l :: Ls)) with (saved :: removelast (l :: Ls)) by reflexivity.
      cbv zeta. destruct (keep_of (List.last Ls l) <? 0); [reflexivity|].
      cbn [sprepend concat map]. rewrite <- app_assoc, zlen_app. cbn [concat]. rewrite zlen_app.
      f_equal; lia.
  Qed.

  Lemma dig_scan_notfound flen : forall Ls lastl saved pos,
    Forall (fun l => l <> first) (Ls ++ [lastl]) ->
    dig_scan i first flen true saved pos (Ls ++ [lastl]) =
      SText false (ps_conv i saved ++ concat (map (ps_conv i) (Ls ++ [lastl]))) (zlen saved + zlen (concat (Ls ++ [lastl]))) 0.
  Proof.
    induction Ls as [|l Ls IH]; intros lastl saved pos H.
    - inversion H as [|? ? Hl _]; subst. cbn [app dig_scan]. unfold ps_dig_is_first.
      replace (bytes_eqb lastl first) with false by (symmetry; now apply bytes_eqb_neq).
      cbn [sprepend concat map]. rewrite !app_nil_r. reflexivity.
    - inversion H as [|? ? Hl H']; subst. cbn [app dig_scan]. unfold ps_dig_is_first.
      replace (bytes_eqb l first) with false by (symmetry; now apply bytes_eqb_neq).
      destruct (Ls ++ [lastl]) as [|x y] eqn:E; [destruct Ls; discriminate|]. rewrite <- E in *.
      rewrite (IH lastl l (pos + zlen l) H'). cbn [sprepend concat map]. rewrite zlen_app. f_equal; lia.
  Qed.

  (* ================================================================ the domain, decomposed *)
  Lemma lshape_false_len f ls ok : lshape i f ls ok -> ok = false -> zlen (concat ls) < zlen f.
  Proof.
    induction 1 as [l Hl|body Hi Hb|pre z r Hi Hp Hz|l r ls ok Hl Hr IH]; intros E; try discriminate.
    - cbn [concat]. rewrite zlen_nil, zlen_app, !zlen_cons. pose proof (zlen_nonneg pre). pose proof (zlen_nonneg r). lia.
    - cbn [concat]. rewrite !zlen_app. specialize (IH E). lia.
  Qed.
  Lemma lshape_true_exact f ls ok : lshape i f ls ok -> ok = true -> zlen (concat ls) = zlen f ->
    exists Ls lastl, ls = Ls ++ [lastl] /\ Forall (cline i) Ls /\ no10 lastl /\ f = concat Ls ++ lastl.
  Proof.
    induction 1 as [l Hl|body Hi Hb|pre z r Hi Hp Hz|l r ls ok Hl Hr IH]; intros E Hlen; try discriminate.
    - exists [], l. repeat split; auto.
    - cbn [concat] in Hlen. rewrite app_nil_r, !zlen_app, !zlen_cons, !zlen_nil in Hlen. lia.
    - cbn [concat] in Hlen. rewrite !zlen_app in Hlen.
      destruct (IH E ltac:(lia)) as [Ls [lastl [-> [H1 [H2 ->]]]]].
      exists (l :: Ls), lastl. repeat split; auto. cbn [concat]. now rewrite app_assoc.
  Qed.

  Lemma dom_scan_cases ok : forall ls saved, dom_scan first crlf ok saved ls = true ->
    (exists Ls lsR, ls = Ls ++ first :: lsR /\ Forall (fun l => l <> first) Ls /\ has_suffix (List.last Ls saved) crlf = true)
    \/ (ok = true /\ exists Ls lastl, ls = Ls ++ [lastl] /\ Forall (fun l => l <> first) (Ls ++ [lastl]) /\ lastl ++ crlf <> first).
  Proof.
    induction ls as [|l ls IH]; intros saved H; [discriminate|].
    cbn [dom_scan] in H. destruct (bytes_eqb l first) eqn:E.
    - apply bytes_eqb_eq in E. subst l. left. exists [], ls. repeat split; auto.
    - apply bytes_eqb_neq in E. destruct ls as [|l2 ls2].
      + apply andb_true_iff in H as [H1 H2]. apply negb_true_iff, bytes_eqb_neq in H2.
        right. split; [assumption|]. exists [], l. repeat split; auto. cbn [app]. constructor; [assumption|constructor].
      + destruct (IH _ H) as [[Ls [lsR [E1 [E2 E3]]]]|[Hok [Ls [lastl [E1 [E2 E3]]]]]].
        * left. exists (l :: Ls), lsR. rewrite E1. repeat split; auto. now rewrite last_cons.
        * right. split; [assumption|]. exists (l :: Ls), lastl. rewrite E1. repeat split; auto. cbn [app]. constructor; assumption.
  Qed.

  Lemma cline_app_crlf l : no10 l -> cline i (l ++ crlf).
  Proof.
    intros H. rewrite crlf_eq. exists (l ++ spec_w i [13]). split.
    - rewrite <- app_assoc. f_equal. rewrite <- spec_w_nl, <- spec_w_app. reflexivity.
    - apply no10_app. split; [assumption|]. apply no10_spec_w. apply no10_cons. split; [lia|apply no10_nil].
  Qed.
  Lemma crlf_nonempty : crlf <> [].
  Proof. intros E. pose proof zlen_crlf as H. rewrite E, zlen_nil in H. destruct i; lia. Qed.

  (* a file in the domain: Ls are the complete lines in front of the last content line s; T = concat Ls ++ s is the content *)
  Inductive domshape (f : bytes) : Prop :=
  | DS_unsigned Ls s :
      Forall (cline i) Ls -> Forall (fun l => l <> first) Ls -> no10 s -> s ++ crlf <> first ->
      f = concat Ls ++ s -> ps_lines i f = (Ls ++ [s], true) -> domshape f
  | DS_signed Ls s lsR :
      Forall (cline i) (Ls ++ [s ++ crlf]) -> Forall (fun l => l <> first) (Ls ++ [s ++ crlf]) ->
      f = concat (Ls ++ [s ++ crlf]) ++ first ++ concat lsR ->
      ps_lines i f = ((Ls ++ [s ++ crlf]) ++ first :: lsR, true) -> lsR <> [] -> domshape f.

  Lemma dom_shape f :
    (let '(ls, ok) := ps_lines i f in dom_scan first crlf ok [] ls && (zlen (concat ls) =? zlen f)) = true -> domshape f.
  Proof.
    pose proof (ps_lines_shape i f) as Hs. destruct (ps_lines i f) as [ls ok] eqn:El. intros H.
    apply andb_true_iff in H as [Hd Hlen]. apply Z.eqb_eq in Hlen.
    destruct ok; [|pose proof (lshape_false_len _ _ _ Hs eq_refl); lia].
    destruct (lshape_true_exact _ _ _ Hs eq_refl Hlen) as [Ls0 [lastl [-> [Hc [Hn ->]]]]].
    destruct (dom_scan_cases _ _ _ Hd) as [[Ls [lsR [E1 [E2 E3]]]]|[_ [Ls [l2 [E1 [E2 E3]]]]]].
    - (* a marker line exists; it is not the last (LF-free) line *)
      destruct (exists_last (l:=lsR)) as [lsR' [x Ex]].
      { intros ->. apply app_inj_tail in E1 as [_ E]. subst lastl. eapply first_neq_no10; eauto. }
      subst lsR. rewrite app_comm_cons, app_assoc in E1. apply app_inj_tail in E1 as [E1 <-]. subst Ls0.
      destruct (exists_last (l:=Ls)) as [Ls1 [sl Es]].
      { intros ->. cbn [List.last] in E3. unfold has_suffix in E3. cbn [rev] in E3.
        destruct (rev crlf) eqn:Er; [|discriminate]. apply (f_equal (@rev Z)) in Er. rewrite rev_involutive in Er. now apply crlf_nonempty. }
      subst Ls. rewrite last_last in E3. apply has_suffix_spec in E3 as [s ->].
      apply Forall_app in Hc as [Hc _].
      apply (DS_signed _ Ls1 s (lsR' ++ [lastl])); auto.
      + rewrite !concat_app. cbn [concat]. rewrite !app_nil_r, <- !app_assoc. reflexivity.
      + rewrite El. f_equal. rewrite <- !app_assoc. reflexivity.
      + destruct lsR'; discriminate.
    - apply app_inj_tail in E1 as [<- <-]. apply Forall_app in E2 as [E2 _].
      apply (DS_unsigned _ Ls0 lastl); auto.
  Qed.

  (* what both shapes share *)
  Definition pre_of (Ls : list bytes) (s : bytes) : bytes := concat (map (ps_conv i) Ls) ++ ps_conv i s.
  Definition dig_of (f : bytes) : scanres := let '(ls, ok) := ps_lines i f in dig_scan i first (zlen f) ok [] 0 ls.

  Lemma keep_crlf s : keep_of (s ++ crlf) = zlen s.
  Proof. unfold keep_of, ps_dig_keep16, ps_dig_keep8. rewrite zlen_app, zlen_crlf. destruct i; lia. Qed.
  Lemma eol_crlf : eol_of = zlen crlf.
  Proof. rewrite zlen_crlf. unfold eol_of. destruct i; reflexivity. Qed.

  Lemma dom_digest f : domshape f -> exists Ls s,
    Forall (cline i) (Ls ++ [s ++ crlf]) /\ Forall (fun l => l <> first) (Ls ++ [s ++ crlf]) /\
    (exists fd ssz, dig_of f = SText fd (pre_of Ls s) (zlen (concat Ls ++ s)) ssz /\ zlen f <= zlen (concat Ls ++ s) + ssz) /\
    ztake (zlen (concat Ls ++ s)) f = concat Ls ++ s /\
    ((f = concat Ls ++ s /\ no10 s) \/ exists R, f = concat (Ls ++ [s ++ crlf]) ++ first ++ R).
  Proof.
    intros [Ls s H1 H2 H3 H4 H5 H6|Ls s lsR H1 H2 H3 H4 HlsR].
    - exists Ls, s. split; [apply Forall_app; split; [assumption|constructor; [now apply cline_app_crlf|constructor]]|].
      split; [apply Forall_app; split; [assumption|constructor; [assumption|constructor]]|].
      split; [|split; [rewrite <- H5; apply ztake_all; lia|left; now split]].
      exists false, 0. unfold dig_of. rewrite H6. rewrite dig_scan_notfound.
      + rewrite conv_nil, zlen_nil. cbn [app]. split; [|rewrite H5; lia].
        unfold pre_of. rewrite map_app, !concat_app. cbn [map concat]. rewrite !app_nil_r. reflexivity.
      + apply Forall_app. split; [assumption|constructor; [now apply first_neq_no10|constructor]].
    - exists Ls, s. split; [assumption|]. split; [assumption|].
      assert (ztake (zlen (concat Ls ++ s)) f = concat Ls ++ s) as Ht.
      { rewrite H3, concat_app_single, <- !app_assoc, (app_assoc (concat Ls)). apply ztake_app_exact. }
      split; [|split; [exact Ht|right; now exists (concat lsR)]].
      unfold dig_of. rewrite H4.
      pose proof (dig_scan_found (zlen f) true _ [] 0 lsR H2) as Hd. cbv zeta in Hd.
      rewrite last_last, keep_crlf in Hd. replace (zlen s <? 0) with false in Hd by (pose proof (zlen_nonneg s); lia).
      exists true. eexists. split.
      + etransitivity; [exact Hd|]. f_equal.
        * rewrite app_comm_cons, removelast_last. cbn [map concat]. rewrite conv_nil. cbn [app].
          unfold pre_of. f_equal. f_equal. apply ztake_app_exact.
        * rewrite app_comm_cons, removelast_last. cbn [concat app]. rewrite ztake_app_exact, zlen_app. reflexivity.
      + assert (zlen f = zlen (concat Ls) + zlen s + zlen crlf + zlen first + zlen (concat lsR)) as Hf
          by (rewrite H3, !zlen_app, concat_app_single, !zlen_app; lia).
        rewrite eol_crlf, concat_app_single, !zlen_app. lia.
  Qed.
End Style.

(* ================================================================== the patch text and the specified block *)
Lemma chunks_n_fuel n : (1 <= n)%nat -> forall f1 f2 (l : bytes), (length l <= f1)%nat -> (length l <= f2)%nat ->
  chunks_n f1 n l = chunks_n f2 n l.
Proof.
  intros Hn. induction f1 as [|f1 IH]; intros f2 l H1 H2.
  - destruct l; [|cbn in H1; lia]. destruct f2; reflexivity.
  - destruct l as [|x l]; [destruct f2; reflexivity|]. destruct f2 as [|f2]; [cbn in H2; lia|].
    cbn [chunks_n]. f_equal. apply IH; rewrite skipn_length; cbn [length] in *; lia.
Qed.
Lemma concat_chunks n : (1 <= n)%nat -> forall fuel (l : bytes), (length l <= fuel)%nat -> concat (chunks_n fuel n l) = l.
Proof.
  intros Hn. induction fuel as [|fuel IH]; intros l H.
  - destruct l; [reflexivity|cbn in H; lia].
  - destruct l as [|x l]; [reflexivity|]. cbn [chunks_n concat]. rewrite IH; [apply firstn_skipn|].
    rewrite skipn_length. cbn [length] in *. lia.
Qed.
Lemma chunks_forall (P : bytes -> Prop) n : (forall l, Forall (fun c => 0 <= c < 256) l -> P l) ->
  forall fuel l, Forall (fun c => 0 <= c < 256) l -> Forall P (chunks_n fuel n l).
Proof.
  intros HP. induction fuel as [|fuel IH]; intros l H; [constructor|].
  destruct l as [|x l]; [constructor|]. cbn [chunks_n]. constructor.
  - apply HP. now apply Forall_firstn_.
  - apply IH. now apply Forall_skipn_.
Qed.

Section Block.
  Variables (i : bool) (st en : bytes).
  Hypothesis Hsty : sty_ok st en.
  Local Notation first := (firstW i st en).
  Local Notation last := (lastW i st en).
  Local Notation crlf := (crlfW i).

  Definition bline (c : bytes) : bytes := st ++ c ++ en ++ [13; 10].
  Lemma mp_line_eq c : ps_mp_line st c en = bline c.
  Proof. unfold ps_mp_line, bline. now rewrite <- !app_assoc. Qed.

  Lemma mp_lines_chunks b64 : forall fuel k, 0 <= k ->
    mp_lines fuel st en b64 k = concat (map bline (chunks_n fuel 64 (zdrop k b64))).
  Proof.
    induction fuel as [|fuel IH]; intros k Hk; [reflexivity|].
    cbn [mp_lines]. unfold ps_mp_more, ps_mp_chunk_end, ps_mp_clip, ps_mp_step.
    destruct (k <? zlen b64) eqn:E.
    - assert (zlen (zdrop k b64) = zlen b64 - k) as Hl by (apply zlen_zdrop; lia).
      destruct (zdrop k b64) as [|x xs] eqn:Ed; [rewrite zlen_nil in Hl; lia|]. rewrite <- Ed in *.
      replace (chunks_n (S fuel) 64 (zdrop k b64)) with (firstn 64 (zdrop k b64) :: chunks_n fuel 64 (skipn 64 (zdrop k b64)))
        by (rewrite Ed; reflexivity).
      cbn [map concat]. rewrite mp_line_eq, (IH (k + 64)) by lia. f_equal; [f_equal|].
      + unfold zslice. destruct (k + 64 >? zlen b64) eqn:E2.
        * rewrite ztake_all by lia. symmetry. apply firstn_all2. unfold zlen in *. lia.
        * replace (k + 64 - k) with 64 by lia. reflexivity.
      + f_equal. f_equal. replace (k + 64) with (64 + k) by lia. rewrite <- (zdrop_zdrop 64 k) by lia. reflexivity.
    - rewrite zdrop_all by lia. reflexivity.
  Qed.

  Lemma patch_text_eq blob : ps_patch_text st en blob = spec_block_text st en blob.
  Proof.
    unfold ps_patch_text, spec_block_text, ps_mp_head, ps_mp_tail, spec_begin_line, spec_end_line, spec_crlf, chunks64.
    rewrite mp_lines_chunks by lia. rewrite zdrop_0.
    rewrite (chunks_n_fuel 64 ltac:(lia) (S (length (b64_enc blob))) (length (b64_enc blob))) by lia.
    rewrite <- !app_assoc. reflexivity.
  Qed.

  Lemma ascii_bline c : b64_text c -> ascii (bline c).
  Proof.
    intros H. destruct Hsty as [H1 [H2 _]]. unfold bline.
    repeat (apply ascii_app; split); auto using b64_text_ascii. ascii_tac.
  Qed.
  Lemma ascii_concat_blines cs : Forall b64_text cs -> ascii (concat (map bline cs)).
  Proof.
    induction 1 as [|c cs Hc Hcs IH]; [constructor|]. cbn [map concat]. apply ascii_app. split; [now apply ascii_bline|exact IH].
  Qed.
  Lemma b64_chunks_text blob : all_bytes blob = true -> Forall b64_text (chunks64 (b64_enc blob)).
  Proof.
    intros H. apply b64_enc_text in H. unfold chunks64. generalize (length (b64_enc blob)) as fuel.
    revert H. generalize (b64_enc blob) as l. intros l H fuel. revert l H.
    induction fuel as [|fuel IH]; intros l H; [constructor|]. destruct l as [|x l]; [constructor|].
    cbn [chunks_n]. constructor; [now apply Forall_firstn_|apply IH; now apply Forall_skipn_].
  Qed.

  Definition wline (c : bytes) : bytes := spec_w i (bline c).
  Lemma spec_w_concat cs : spec_w i (concat (map bline cs)) = concat (map wline cs).
  Proof. induction cs as [|c cs IH]; [destruct i; reflexivity|]. cbn [map concat]. now rewrite spec_w_app, IH. Qed.

  Lemma patch_eq blob : all_bytes blob = true ->
    ps_patch st en i blob = crlf ++ first ++ concat (map wline (chunks64 (b64_enc blob))) ++ last
    /\ ps_patch st en i blob = spec_w i (spec_block_text st en blob).
  Proof.
    intros Hb. pose proof (b64_chunks_text _ Hb) as Hc. destruct Hsty as [H1 [H2 _]].
    assert (ps_patch st en i blob = spec_w i (spec_block_text st en blob)) as E.
    { unfold ps_patch. rewrite patch_text_eq. apply marker_ascii. unfold spec_block_text, spec_crlf, spec_begin_line, spec_end_line, spec_crlf.
      repeat (apply ascii_app; split); auto; try apply ps_begin_ascii; try apply ps_end_ascii; try ascii_tac.
      now apply ascii_concat_blines. }
    split; [|exact E]. rewrite E. unfold spec_block_text, spec_begin_line, spec_end_line, spec_crlf.
    change (map (fun c : list Z => st ++ c ++ en ++ [13; 10])) with (map bline).
    rewrite !spec_w_app, (spec_w_concat (chunks64 (b64_enc blob))).
    rewrite (crlf_eq i), (first_eq i st en Hsty), (last_eq i st en Hsty), !spec_w_app, <- !app_assoc. reflexivity.
  Qed.

  Lemma cline_wline c : b64_text c -> cline i (wline c).
  Proof.
    intros H. unfold wline, bline. replace (st ++ c ++ en ++ [13; 10]) with ((st ++ c ++ en) ++ [13; 10]) by now rewrite <- !app_assoc.
    apply cline_text. destruct Hsty as [_ [_ [H3 H4]]]. repeat (apply no10_app; split); auto using b64_text_no10.
  Qed.

  (* ================================================================ VerifyPowershell's loop on such a file *)
  Lemma ver_skip ok : forall PL rest, Forall (fun l => l <> first) PL -> rest <> [] ->
    ver_scan i st en first last ok false (PL ++ rest) = ver_scan i st en first last ok false rest.
  Proof.
    induction PL as [|l PL IH]; intros rest H Hr; [reflexivity|]. inversion H as [|? ? Hl H']; subst.
    cbn [app ver_scan]. destruct (PL ++ rest) as [|x y] eqn:E; [destruct PL; [cbn in E; contradiction|discriminate]|]. rewrite <- E.
    unfold ps_ver_notsigned, ps_ver_is_last, ps_ver_is_first. cbn [andb negb].
    replace (bytes_eqb l first) with false by (symmetry; now apply bytes_eqb_neq). now apply IH.
  Qed.
  Lemma ver_first ok rest : rest <> [] ->
    ver_scan i st en first last ok false (first :: rest) = ver_scan i st en first last ok true rest.
  Proof.
    intros Hr. cbn [ver_scan]. destruct rest as [|x y]; [contradiction|].
    unfold ps_ver_notsigned, ps_ver_is_last, ps_ver_is_first. cbn [andb negb]. now rewrite bytes_eqb_refl.
  Qed.

  Lemma end_not_b64 : ~ b64_text ps_end.
  Proof.
    intros H. unfold b64_text in H. rewrite Forall_forall in H. specialize (H 32).
    assert (In 32 ps_end) as Hin by (unfold ps_end; cbn [In]; tauto).
    specialize (H Hin). unfold b64_alpha in H. lia.
  Qed.
  Lemma wline_neq_last c : b64_text c -> wline c <> last.
  Proof.
    intros H E. rewrite (last_eq i st en Hsty) in E. unfold wline in E. apply spec_w_inj in E. unfold bline in E.
    rewrite <- !app_assoc in E. apply app_inv_head in E.
    assert (c = ps_end) as ->; [|now apply end_not_b64].
    apply (app_inv_tail (en ++ [13; 10])). exact E.
  Qed.

  Lemma ver_block ok : forall cs ds, Forall2 (fun c d => b64_text c /\ b64_dec c = Ok d) cs ds ->
    ver_scan i st en first last ok true (map wline cs ++ [last; []]) = Ok (Some (concat ds)).
  Proof.
    induction 1 as [|c d cs ds [Hc Hd] Hr IH].
    - cbn [map app ver_scan]. unfold ps_ver_notsigned, ps_ver_is_last. cbn [andb negb]. now rewrite bytes_eqb_refl.
    - cbn [map app ver_scan]. destruct (map wline cs ++ [last; []]) as [|x y] eqn:E; [destruct cs; discriminate|]. rewrite <- E in *.
      unfold ps_ver_notsigned, ps_ver_is_last. cbn [andb negb].
      replace (bytes_eqb (wline c) last) with false by (symmetry; apply bytes_eqb_neq; now apply wline_neq_last).
      assert ((if i then from_utf16 (wline c) else wline c) = bline c) as ->.
      { unfold wline, spec_w. destruct i; [apply from_utf16_widen; now apply ascii_bline|reflexivity]. }
      unfold ps_ver_malformed. unfold bline at 1 2.
      rewrite has_prefix_app. replace (st ++ c ++ en ++ [13; 10]) with ((st ++ c) ++ en ++ [13; 10]) at 1 by now rewrite <- app_assoc.
      rewrite has_suffix_app. cbn [negb orb].
      unfold ps_ver_lo, ps_ver_hi, ps_ver_overlap.
      assert (zlen (bline c) - zlen en - 2 = zlen st + zlen c) as ->.
      { unfold bline. rewrite !zlen_app. change (zlen [13; 10]) with 2. lia. }
      replace (zlen st + zlen c <? zlen st) with false by (pose proof (zlen_nonneg c); lia).
      unfold bline. rewrite zslice_app_mid, Hd. cbn [bind]. rewrite IH. reflexivity.
  Qed.
End Block.

(* ================================================================== base64 chunks of the block decode to the blob *)
Lemma chunks_n_nil fuel n : chunks_n fuel n [] = [].
Proof. destruct fuel; reflexivity. Qed.
Lemma chunks_b64 : forall fuel blob, (length blob <= fuel)%nat ->
  chunks_n fuel 64 (b64_enc blob) = map b64_enc (chunks_n fuel 48 blob).
Proof.
  induction fuel as [|fuel IH]; intros blob H.
  - destruct blob; [reflexivity|cbn in H; lia].
  - destruct blob as [|x l]; [reflexivity|].
    destruct (b64_enc (x :: l)) as [|y ys] eqn:E; [apply (proj1 (b64_enc_nil_iff _)) in E; discriminate|]. rewrite <- E.
    replace (chunks_n (S fuel) 64 (b64_enc (x :: l))) with (firstn 64 (b64_enc (x :: l)) :: chunks_n fuel 64 (skipn 64 (b64_enc (x :: l))))
      by (rewrite E; reflexivity).
    cbn [chunks_n map].
    destruct (le_lt_dec 48 (length (x :: l))) as [Hge|Hlt].
    + destruct (b64_firstn (x :: l) Hge) as [E1 E2]. rewrite E1, E2. f_equal. apply IH.
      rewrite skipn_length. cbn [length] in *. lia.
    + rewrite (firstn_all2 (n:=64)) by (apply b64_short; exact Hlt).
      rewrite (firstn_all2 (n:=48)) by lia.
      rewrite (skipn_all2 (n:=64)) by (apply b64_short; exact Hlt).
      rewrite (skipn_all2 (n:=48)) by lia. now rewrite !chunks_n_nil.
Qed.
Lemma block_decodes blob : all_bytes blob = true ->
  exists ds, Forall2 (fun c d => b64_text c /\ b64_dec c = Ok d) (chunks64 (b64_enc blob)) ds /\ concat ds = blob.
Proof.
  intros H. set (F := (length (b64_enc blob) + length blob)%nat).
  exists (chunks_n F 48 blob). split.
  - unfold chunks64. rewrite (chunks_n_fuel 64 ltac:(lia) _ F) by (unfold F; lia).
    rewrite chunks_b64 by (unfold F; lia).
    assert (Forall (fun d => all_bytes d = true) (chunks_n F 48 blob)) as Hd.
    { apply chunks_forall; [intros l Hl; now apply all_bytes_forall|now apply all_bytes_forall]. }
    induction Hd as [|d ds Hd Hds IH]; [constructor|]. cbn [map]. constructor; [|exact IH].
    split; [now apply b64_enc_text|now apply b64_dec_enc].
  - apply concat_chunks; unfold F; lia.
Qed.

(* ================================================================== the PowerShell laws on the stated domain *)
Lemma is16_app A R : 2 <= zlen A -> ps_is16 (A ++ R) = ps_is16 A.
Proof.
  intros H. destruct A as [|a [|b A]]; [rewrite zlen_nil in H; lia|rewrite zlen_cons, zlen_nil in H; lia|reflexivity].
Qed.

Lemma ps_dom_style style f : ps_dom style f = true -> exists st en, style_lookup style = Some (st, en).
Proof. unfold ps_dom. destruct (style_lookup style) as [[st en]|]; [eauto|discriminate]. Qed.

Lemma ps_embed_shape style f blob g : ps_dom style f = true -> ps_embed style f blob = Ok g ->
  exists st en Ls s,
    style_lookup style = Some (st, en) /\ sty_ok st en /\
    Forall (cline (ps_is16 f)) (Ls ++ [s ++ crlfW (ps_is16 f)]) /\
    Forall (fun l => l <> firstW (ps_is16 f) st en) (Ls ++ [s ++ crlfW (ps_is16 f)]) /\
    g = (concat Ls ++ s) ++ ps_patch st en (ps_is16 f) blob /\
    ps_hashin style f = Ok (pre_of (ps_is16 f) Ls s) /\
    ztake (zlen (concat Ls ++ s)) f = concat Ls ++ s /\
    ((f = concat Ls ++ s /\ no10 s) \/ exists R, f = concat (Ls ++ [s ++ crlfW (ps_is16 f)]) ++ firstW (ps_is16 f) st en ++ R).
Proof.
  intros Hd He. unfold ps_dom in Hd. unfold ps_embed, ps_hashin, ps_digest in *.
  destruct (style_lookup style) as [[st en]|] eqn:Es; [|discriminate].
  pose proof (style_lookup_ok _ _ _ Es) as Hsty.
  pose proof (dom_shape (ps_is16 f) st en Hsty f Hd) as Hshape.
  destruct (dom_digest (ps_is16 f) st en Hsty f Hshape) as [Ls [s [H1 [H2 [[fd [ssz [H3 H4]]] [H5 H6]]]]]].
  unfold dig_of, firstW in H3. destruct (ps_lines (ps_is16 f) f) as [ls ok]. rewrite H3 in *. cbn [bind d_tsz d_ssz d_is16 d_pre] in *.
  assert (zlen (concat Ls ++ s) <= zlen f) as Hle.
  { destruct H6 as [[-> _]|[R ->]]; [lia|]. rewrite concat_app_single, !zlen_app. pose proof (zlen_nonneg R).
    pose proof (zlen_nonneg (firstW (ps_is16 f) st en)). pose proof (zlen_nonneg (crlfW (ps_is16 f))). lia. }
  replace (zlen f <? zlen (concat Ls ++ s)) with false in He by lia.
  injection He as Hg. subst g.
  exists st, en, Ls, s. split; [reflexivity|]. split; [exact Hsty|]. split; [exact H1|]. split; [exact H2|].
  split; [rewrite H5, (zdrop_all (zlen (concat Ls ++ s) + ssz)), app_nil_r by lia; reflexivity|].
  split; [reflexivity|]. split; [exact H5|exact H6].
Qed.

Section Signed.
  (* a file of the form  complete lines ++ begin line ++ block written for blob *)
  Variables (i : bool) (st en : bytes) (PL : list bytes) (blob : bytes).
  Hypothesis Hsty : sty_ok st en.
  Hypothesis Hcl : Forall (cline i) PL.
  Hypothesis Hnf : Forall (fun l => l <> firstW i st en) PL.
  Hypothesis Hb : all_bytes blob = true.
  Let g := concat PL ++ firstW i st en ++ concat (map (wline i st en) (chunks64 (b64_enc blob))) ++ lastW i st en.

  Lemma signed_lines : ps_lines i g =
    (PL ++ firstW i st en :: map (wline i st en) (chunks64 (b64_enc blob)) ++ [lastW i st en; []], true).
  Proof.
    unfold g.
    replace (concat PL ++ firstW i st en ++ concat (map (wline i st en) (chunks64 (b64_enc blob))) ++ lastW i st en)
      with (concat (PL ++ firstW i st en :: map (wline i st en) (chunks64 (b64_enc blob)) ++ [lastW i st en]) ++ []).
    - rewrite ps_lines_concat.
      + rewrite ps_lines_nil. f_equal. rewrite <- !app_assoc. cbn [app]. f_equal. f_equal. rewrite <- app_assoc. reflexivity.
      + apply Forall_app. split; [assumption|]. constructor; [now apply cline_first|].
        apply Forall_app. split; [|constructor; [now apply cline_last|constructor]].
        pose proof (b64_chunks_text blob Hb) as Hc. induction Hc; cbn [map]; constructor; auto. now apply cline_wline.
    - rewrite app_nil_r, concat_app. cbn [concat]. rewrite concat_app. cbn [concat]. now rewrite app_nil_r.
  Qed.

  Lemma signed_extract style : style_lookup style = Some (st, en) -> ps_is16 g = i -> ps_extract style g = Ok (Some blob).
  Proof.
    intros Es Ei. unfold ps_extract. rewrite Es, Ei, signed_lines.
    fold (firstW i st en). fold (lastW i st en).
    rewrite ver_skip by (auto; discriminate). rewrite ver_first by (destruct (chunks64 (b64_enc blob)); discriminate).
    destruct (block_decodes blob Hb) as [ds [Hds <-]]. now apply ver_block.
  Qed.

  Lemma signed_digest style Ls s : style_lookup style = Some (st, en) -> ps_is16 g = i -> PL = Ls ++ [s ++ crlfW i] ->
    ps_hashin style g = Ok (pre_of i Ls s).
  Proof.
    intros Es Ei EP. unfold ps_hashin, ps_digest. rewrite Es, Ei, signed_lines. fold (firstW i st en).
    pose proof (dig_scan_found i st en (zlen g) true PL [] 0 (map (wline i st en) (chunks64 (b64_enc blob)) ++ [lastW i st en; []]) Hnf) as Hd.
    cbv zeta in Hd. rewrite EP, last_last, (keep_crlf i) in Hd.
    replace (zlen s <? 0) with false in Hd by (pose proof (zlen_nonneg s); lia).
    rewrite <- EP in Hd at 1. rewrite Hd. cbn [bind d_pre]. f_equal.
    rewrite app_comm_cons, removelast_last. cbn [map concat]. rewrite (conv_nil i). cbn [app].
    unfold pre_of. f_equal. f_equal. apply ztake_app_exact.
  Qed.
End Signed.

(* ================================================================== the specification reader: substring search *)
Lemma find_sub_eq pat l pos :
  find_sub pat l pos = if has_prefix l pat then Some pos else match l with [] => None | _ :: r => find_sub pat r (pos + 1) end.
Proof. destruct l; reflexivity. Qed.
Lemma zdrop_succ_cons {A} k (x : A) l : 0 <= k -> zdrop (k + 1) (x :: l) = zdrop k l.
Proof. intros H. unfold zdrop. replace (Z.to_nat (k + 1)) with (S (Z.to_nat k)) by lia. reflexivity. Qed.
Lemma find_sub_skip pat : forall a r pos,
  (forall k, 0 <= k < zlen a -> has_prefix (zdrop k (a ++ r)) pat = false) ->
  find_sub pat (a ++ r) pos = find_sub pat r (pos + zlen a).
Proof.
  induction a as [|x a IH]; intros r pos H.
  - cbn [app]. rewrite zlen_nil. f_equal. lia.
  - rewrite find_sub_eq. pose proof (H 0) as H0. rewrite zdrop_0 in H0. rewrite H0 by (rewrite zlen_cons; pose proof (zlen_nonneg a); lia).
    cbn [app]. rewrite IH.
    + f_equal. rewrite zlen_cons. lia.
    + intros k Hk. rewrite <- (zdrop_succ_cons k x) by lia. apply H. rewrite zlen_cons. lia.
Qed.
Lemma no10_zdrop k l : no10 l -> no10 (zdrop k l).
Proof. unfold no10, zdrop. intros H Hin. apply H. rewrite <- (firstn_skipn (Z.to_nat k) l). apply in_or_app. now right. Qed.
Lemma bom_eq f : spec_bom16 f = ps_is16 f.
Proof. destruct f as [|a [|b r]]; reflexivity. Qed.

Section Find.
  Variables (i : bool) (st en : bytes).
  Hypothesis Hsty : sty_ok st en.
  Local Notation first := (firstW i st en).
  Local Notation crlf := (crlfW i).

  Lemma crlf_split : exists cr cz, crlf = cr ++ nl i /\ cr = 13 :: cz /\ no10 cr /\ (forall z r, nl i = 10 :: z :: r -> z <> 13).
  Proof.
    rewrite crlf_eq. destruct i.
    - exists [13; 0], [0]. repeat split; try reflexivity; [no10_tac|]. cbn [nl]. intros z r E. inversion E. lia.
    - exists [13], []. repeat split; try reflexivity; [no10_tac|]. cbn [nl]. intros z r E. inversion E.
  Qed.

  Lemma occ_in_line l rest k : cline i l -> 0 <= k < zlen l ->
    has_prefix (zdrop k (l ++ rest)) (crlf ++ first) = true ->
    k = zlen l - zlen crlf /\ has_prefix rest first = true.
  Proof.
    intros [body [-> Hb]] Hk H. apply has_prefix_spec in H as [y Hy].
    destruct crlf_split as [cr [cz [Ec [Ecr [Hcr Hz]]]]]. rewrite Ec in *.
    destruct (nl_head i) as [z [Ez Hzz]]. rewrite Ez in *. rewrite !zlen_app, zlen_cons in *.
    destruct (Z_le_gt_dec k (zlen body)) as [Hle|Hgt].
    - rewrite <- !app_assoc in Hy. rewrite zdrop_app_l in Hy by lia. cbn [app] in Hy.
      apply split_first10 in Hy as [E1 E2]; [|now apply no10_zdrop|assumption].
      apply app_inv_head in E2. split.
      + assert (zlen (zdrop k body) = zlen body - k) as Hl by (apply zlen_zdrop; lia). rewrite E1 in Hl. lia.
      + apply has_prefix_spec. exists y. exact E2.
    - (* k points into the terminator: only possible for the two-byte terminator, where the byte there is not CR *)
      exfalso. rewrite <- app_assoc, zdrop_app_r in Hy by lia.
      destruct z as [|z0 z']; [unfold zlen in Hk, Hgt; cbn [length] in Hk; lia|].
      assert (k - zlen body = 1) as Hk1.
      { destruct i; cbn [nl] in Ez; inversion Ez; subst. unfold zlen in Hk, Hgt |- *. cbn [length] in Hk. lia. }
      rewrite Hk1 in Hy. cbn [app] in Hy. change (zdrop 1 (10 :: z0 :: z' ++ rest)) with (z0 :: z' ++ rest) in Hy.
      rewrite Ecr in Hy. cbn [app] in Hy. inversion Hy. eapply Hz; eauto.
  Qed.
  Lemma occ_first_line l rest : cline i l -> has_prefix (l ++ rest) first = true -> l = first.
  Proof.
    intros Hl H. apply has_prefix_spec in H as [y Hy].
    destruct (cline_prefix_eq i l rest first y Hl (cline_first i st en Hsty) Hy) as [E _]. exact E.
  Qed.
  Lemma occ_first_no10 x : no10 x -> has_prefix x first = false.
  Proof.
    intros H. destruct (has_prefix x first) eqn:E; [|reflexivity]. exfalso.
    apply has_prefix_spec in E as [y ->]. apply H. apply in_or_app. left. eapply cline_has10. now apply cline_first.
  Qed.
  Lemma find_sub_no10 : forall l pos, no10 l -> find_sub (crlf ++ first) l pos = None.
  Proof.
    induction l as [|x l IH]; intros pos H; rewrite find_sub_eq.
    - destruct (has_prefix [] (crlf ++ first)) eqn:E; [|reflexivity]. apply has_prefix_spec in E as [y Hy].
      destruct crlf_split as [cr [cz [Ec [Ecr _]]]]. rewrite Ec, Ecr in Hy. discriminate.
    - destruct (has_prefix (x :: l) (crlf ++ first)) eqn:E.
      + exfalso. apply has_prefix_spec in E as [y Hy]. apply H. rewrite Hy. apply in_or_app. left. apply in_or_app. right.
        eapply cline_has10. now apply cline_first.
      + apply IH. apply no10_cons in H. tauto.
  Qed.

  Lemma find_sub_lines R : forall PL pos, Forall (cline i) PL -> Forall (fun l => l <> first) PL -> PL <> [] ->
    has_suffix (List.last PL []) crlf = true ->
    find_sub (crlf ++ first) (concat PL ++ first ++ R) pos = Some (pos + zlen (concat PL) - zlen crlf).
  Proof.
    induction PL as [|l PL IH]; intros pos Hc Hn Hne Hs; [contradiction|].
    inversion Hc as [|? ? Hl Hc']; subst. inversion Hn as [|? ? Hnl Hn']; subst.
    destruct PL as [|l2 PL'].
    - cbn [List.last concat] in *. rewrite app_nil_r. apply has_suffix_spec in Hs as [a ->].
      rewrite <- !app_assoc. rewrite find_sub_skip.
      + rewrite find_sub_eq. rewrite (app_assoc crlf first R), has_prefix_app. f_equal. rewrite zlen_app. lia.
      + intros k Hk. destruct (has_prefix (zdrop k (a ++ crlf ++ first ++ R)) (crlf ++ first)) eqn:E; [|reflexivity].
        exfalso. rewrite (app_assoc a crlf) in E. apply occ_in_line in E as [E _]; [|assumption|rewrite zlen_app; pose proof (zlen_nonneg crlf); lia].
        rewrite zlen_app in E. lia.
    - change (concat (l :: l2 :: PL')) with (l ++ concat (l2 :: PL')). rewrite <- app_assoc. rewrite find_sub_skip.
      + rewrite (IH (pos + zlen l)); auto; [|discriminate].
        f_equal. rewrite zlen_app. lia.
      + intros k Hk. destruct (has_prefix (zdrop k (l ++ concat (l2 :: PL') ++ first ++ R)) (crlf ++ first)) eqn:E; [|reflexivity].
        exfalso. apply occ_in_line in E as [_ E]; [|assumption|assumption].
        cbn [concat] in E. rewrite <- app_assoc in E. inversion Hc' as [|? ? Hl2 _]; subst. inversion Hn' as [|? ? Hn2 _]; subst.
        apply Hn2. eapply occ_first_line; eauto.
  Qed.

  Lemma find_sub_none : forall Ls s pos, Forall (cline i) Ls -> Forall (fun l => l <> first) Ls -> no10 s ->
    find_sub (crlf ++ first) (concat Ls ++ s) pos = None.
  Proof.
    induction Ls as [|l Ls IH]; intros s pos Hc Hn Hs.
    - cbn [concat app]. now apply find_sub_no10.
    - inversion Hc as [|? ? Hl Hc']; subst. inversion Hn as [|? ? Hnl Hn']; subst.
      cbn [concat]. rewrite <- app_assoc. rewrite find_sub_skip; [now apply IH|].
      intros k Hk. destruct (has_prefix (zdrop k (l ++ concat Ls ++ s)) (crlf ++ first)) eqn:E; [|reflexivity].
      exfalso. apply occ_in_line in E as [_ E]; [|assumption|assumption].
      destruct Ls as [|l2 Ls'].
      + cbn [concat app] in E. rewrite occ_first_no10 in E by assumption. discriminate.
      + cbn [concat] in E. rewrite <- app_assoc in E. inversion Hc' as [|? ? Hl2 _]; subst. inversion Hn' as [|? ? Hn2 _]; subst.
        apply Hn2. eapply occ_first_line; eauto.
  Qed.

  Lemma spec_pat_eq : spec_w i (spec_crlf ++ spec_begin_line st en) = crlf ++ first.
  Proof.
    rewrite spec_w_app, crlf_eq, (first_eq i st en Hsty). unfold spec_crlf, spec_begin_line, spec_crlf.
    rewrite <- !app_assoc. reflexivity.
  Qed.
End Find.

(* ================================================================== assembled: what embedding does on the domain *)
Lemma concat_PL i Ls s : concat (Ls ++ [s ++ crlfW i]) = (concat Ls ++ s) ++ crlfW i.
Proof. rewrite concat_app_single. now rewrite app_assoc. Qed.

Lemma zlen_crlf_ge i : 2 <= zlen (crlfW i).
Proof. rewrite zlen_crlf. destruct i; lia. Qed.

Record embedded (style : Z) (f blob g : bytes) (st en : bytes) (Ls : list bytes) (s : bytes) : Prop := mkEmbedded {
  em_style : style_lookup style = Some (st, en);
  em_sty : sty_ok st en;
  em_cl : Forall (cline (ps_is16 f)) (Ls ++ [s ++ crlfW (ps_is16 f)]);
  em_nf : Forall (fun l => l <> firstW (ps_is16 f) st en) (Ls ++ [s ++ crlfW (ps_is16 f)]);
  em_g : g = concat (Ls ++ [s ++ crlfW (ps_is16 f)]) ++ firstW (ps_is16 f) st en
             ++ concat (map (wline (ps_is16 f) st en) (chunks64 (b64_enc blob))) ++ lastW (ps_is16 f) st en;
  em_spec : g = (concat Ls ++ s) ++ spec_w (ps_is16 f) (spec_block_text st en blob);
  em_is16 : ps_is16 g = ps_is16 f;
  em_hash : ps_hashin style f = Ok (pre_of (ps_is16 f) Ls s);
  em_take : ztake (zlen (concat Ls ++ s)) f = concat Ls ++ s;
  em_f : (f = concat Ls ++ s /\ no10 s) \/
         exists R, f = concat (Ls ++ [s ++ crlfW (ps_is16 f)]) ++ firstW (ps_is16 f) st en ++ R
}.

Lemma embed_form style f blob g : ps_dom style f = true -> all_bytes blob = true -> ps_embed style f blob = Ok g ->
  exists st en Ls s, embedded style f blob g st en Ls s.
Proof.
  intros Hd Hb He. destruct (ps_embed_shape _ _ _ _ Hd He) as [st [en [Ls [s [H1 [H2 [H3 [H4 [H5 [H6 [H7 H8]]]]]]]]]]].
  exists st, en, Ls, s. destruct (patch_eq (ps_is16 f) st en H2 blob Hb) as [P1 P2].
  assert (g = concat (Ls ++ [s ++ crlfW (ps_is16 f)]) ++ firstW (ps_is16 f) st en
              ++ concat (map (wline (ps_is16 f) st en) (chunks64 (b64_enc blob))) ++ lastW (ps_is16 f) st en) as Eg.
  { rewrite H5, P1, concat_PL, <- !app_assoc. reflexivity. }
  constructor; auto.
  - rewrite H5, P2. reflexivity.
  - (* the encoding flag is read from the first two bytes, which signing keeps *)
    pose proof (zlen_crlf_ge (ps_is16 f)) as Hc.
    assert (ps_is16 g = ps_is16 ((concat Ls ++ s) ++ crlfW (ps_is16 f))) as E1.
    { rewrite Eg, concat_PL. apply is16_app. rewrite zlen_app. pose proof (zlen_nonneg (concat Ls ++ s)). lia. }
    rewrite E1. destruct H8 as [[Hf Hs]|[R Hf]].
    + rewrite <- Hf. destruct (Z_le_gt_dec 2 (zlen f)) as [Hge|Hlt]; [now apply is16_app|].
      assert (ps_is16 f = false) as Ef.
      { destruct f as [|a [|b r]]; try reflexivity. rewrite !zlen_cons in Hlt. pose proof (zlen_nonneg r). lia. }
      rewrite Ef. destruct f as [|a [|b r]]; [reflexivity| |rewrite !zlen_cons in Hlt; pose proof (zlen_nonneg r); lia].
      cbn. unfold ps_bom_cond. cbn. now rewrite andb_false_r.
    + rewrite Hf at 2. rewrite concat_PL. symmetry. apply is16_app. rewrite zlen_app. pose proof (zlen_nonneg (concat Ls ++ s)). lia.
Qed.

Theorem ps_law_extract_dom style f blob g :
  ps_dom style f = true -> all_bytes blob = true -> ps_embed style f blob = Ok g -> ps_extract style g = Ok (Some blob).
Proof.
  intros Hd Hb He. destruct (embed_form _ _ _ _ Hd Hb He) as [st [en [Ls [s E]]]]. destruct E.
  rewrite em_g0. apply signed_extract; auto. rewrite <- em_g0. exact em_is17.
Qed.
Theorem ps_law_hashin_dom style f blob g :
  ps_dom style f = true -> all_bytes blob = true -> ps_embed style f blob = Ok g -> ps_hashin style g = ps_hashin style f.
Proof.
  intros Hd Hb He. destruct (embed_form _ _ _ _ Hd Hb He) as [st [en [Ls [s E]]]]. destruct E.
  rewrite em_hash0, em_g0. eapply signed_digest; eauto. rewrite <- em_g0. exact em_is17.
Qed.

(* ================================================================== the specification reader on such files *)
Lemma payload_unsigned style f st en Ls s :
  style_lookup style = Some (st, en) -> sty_ok st en ->
  Forall (cline (ps_is16 f)) Ls -> Forall (fun l => l <> firstW (ps_is16 f) st en) Ls -> no10 s -> f = concat Ls ++ s ->
  ps_payload style f = Ok f /\ ps_spec_signed style f = false.
Proof.
  intros Es Hsty Hc Hn Hs Hf. unfold ps_payload, ps_spec_signed. rewrite spec_style_eq, Es, bom_eq, (spec_pat_eq _ _ _ Hsty).
  pose proof (find_sub_none (ps_is16 f) st en Hsty Ls s 0 Hc Hn Hs) as E. rewrite <- Hf in E. rewrite E. split; reflexivity.
Qed.
Lemma payload_signed style f st en Ls s R :
  style_lookup style = Some (st, en) -> sty_ok st en ->
  Forall (cline (ps_is16 f)) (Ls ++ [s ++ crlfW (ps_is16 f)]) ->
  Forall (fun l => l <> firstW (ps_is16 f) st en) (Ls ++ [s ++ crlfW (ps_is16 f)]) ->
  f = concat (Ls ++ [s ++ crlfW (ps_is16 f)]) ++ firstW (ps_is16 f) st en ++ R ->
  ps_payload style f = Ok (concat Ls ++ s) /\ ps_spec_signed style f = true.
Proof.
  intros Es Hsty Hc Hn Hf. unfold ps_payload, ps_spec_signed. rewrite spec_style_eq, Es, bom_eq, (spec_pat_eq _ _ _ Hsty).
  assert (find_sub (crlfW (ps_is16 f) ++ firstW (ps_is16 f) st en) f 0 = Some (zlen (concat Ls ++ s))) as E.
  { pose proof (find_sub_lines (ps_is16 f) st en Hsty R _ 0 Hc Hn) as E. rewrite <- Hf in E. rewrite E.
    - f_equal. rewrite concat_PL, zlen_app. lia.
    - destruct Ls; discriminate.
    - rewrite last_last. apply has_suffix_app. }
  rewrite E. split; [|reflexivity]. f_equal.
  assert (f = (concat Ls ++ s) ++ crlfW (ps_is16 f) ++ firstW (ps_is16 f) st en ++ R) as Hf2 by (rewrite Hf at 1; rewrite concat_PL, <- !app_assoc; reflexivity).
  rewrite Hf2 at 1. apply ztake_app_exact.
Qed.

Lemma Forall_app_l {A} (P : A -> Prop) a b : Forall P (a ++ b) -> Forall P a.
Proof. intros H. now apply Forall_app in H. Qed.

Lemma payload_of_embedded style f blob g st en Ls s : embedded style f blob g st en Ls s ->
  ps_payload style f = Ok (concat Ls ++ s) /\ ps_payload style g = Ok (concat Ls ++ s) /\ ps_spec_signed style g = true
  /\ (ps_spec_signed style f = false -> f = concat Ls ++ s).
Proof.
  intros E. destruct E. split; [|split; [|split]].
  - destruct em_f0 as [[Hf Hs]|[R Hf]].
    + destruct (payload_unsigned style f st en Ls s em_style0 em_sty0 (Forall_app_l _ _ _ em_cl0) (Forall_app_l _ _ _ em_nf0) Hs Hf) as [E _].
      rewrite E. f_equal. exact Hf.
    + eapply payload_signed; eauto.
  - rewrite <- em_is17 in em_cl0, em_nf0, em_g0. eapply payload_signed; eauto.
  - rewrite <- em_is17 in em_cl0, em_nf0, em_g0. eapply payload_signed; eauto.
  - intros Hu. destruct em_f0 as [[Hf Hs]|[R Hf]]; [exact Hf|].
    destruct (payload_signed _ _ _ _ _ _ _ em_style0 em_sty0 em_cl0 em_nf0 Hf) as [_ E]. congruence.
Qed.

Theorem ps_law_payload_dom style f blob g :
  ps_dom style f = true -> all_bytes blob = true -> ps_embed style f blob = Ok g -> ps_payload style g = ps_payload style f.
Proof.
  intros Hd Hb He. destruct (embed_form _ _ _ _ Hd Hb He) as [st [en [Ls [s E]]]].
  destruct (payload_of_embedded _ _ _ _ _ _ _ _ E) as [H1 [H2 _]]. congruence.
Qed.
(* C05 / C03: the signed file is the content followed by exactly the specified block, in the file's encoding *)
Theorem ps_embed_eq_spec_dom style f blob g st en :
  ps_dom style f = true -> all_bytes blob = true -> ps_embed style f blob = Ok g -> spec_style style = Some (st, en) ->
  exists p, ps_payload style f = Ok p /\ g = p ++ spec_w (spec_bom16 f) (spec_block_text st en blob).
Proof.
  intros Hd Hb He Hs. destruct (embed_form _ _ _ _ Hd Hb He) as [st' [en' [Ls [s E]]]].
  destruct (payload_of_embedded _ _ _ _ _ _ _ _ E) as [H1 _]. destruct E.
  rewrite spec_style_eq, em_style0 in Hs. injection Hs as E1 E2. rewrite <- E1, <- E2.
  exists (concat Ls ++ s). split; [exact H1|]. rewrite bom_eq. exact em_spec0.
Qed.
