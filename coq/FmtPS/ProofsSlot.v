(* FmtPS/ProofsSlot.v — the Debian signature SLOT: signing a package that already carries a signature of the same role — under
   either spelling of the member name, System V / GNU ("_gpgbuilder/", GNU ar, debsigs) or BSD / common ("_gpgbuilder", dpkg-deb,
   relic) — replaces that member.  Domain deb_wf2 (Model.v): every name field is a spelling of a proper logical name.
   The lemmas repeat the walk of ProofsDEB.v with the normalised name (m_cname = deb_norm hdr.Name, generated) in every test of
   Sign and the raw name in every test of Verify; the only fact about the normalisation they use is ProofsAR.deb_norm_is_logical. *)
From Relic Require Import Base.Prelude Base.Enc Generated.FmtPS_gen FmtPS.Model FmtPS.Lib FmtPS.ProofsAR FmtPS.ProofsDEB Laws.Pipeline.

Definition ent_good2 (e : ent) : Prop := ent_ok e = true /\ ent_spelled_ok e = true /\ ent_mode_ok e = true.
Definition cname_of (verify : bool) (e : ent) : bytes := if verify then ent_name e else ent_lname e.
Definition mem_of2 (verify : bool) (pos : Z) (e : ent) : member :=
  mkMember (ent_name e) (zlen (e_data e)) (e_data e) pos (cname_of verify e).
Fixpoint mems2 (verify : bool) (pos : Z) (es : list ent) : list member :=
  match es with [] => [] | e :: r => mem_of2 verify pos e :: mems2 verify (pos + zlen (ent_enc e)) r end.

Lemma mems2_app verify pos a b : mems2 verify pos (a ++ b) = mems2 verify pos a ++ mems2 verify (pos + zlen (enc_all a)) b.
Proof.
  revert pos; induction a as [|e a IH]; intros pos.
  - cbn [app mems2 enc_all map concat]. rewrite zlen_nil. f_equal. lia.
  - cbn [app mems2]. f_equal. rewrite IH, enc_all_cons, zlen_app. f_equal. f_equal. lia.
Qed.

(* ================================================================== the old domain is part of the new one *)
Lemma field16 e : ent_ok e = true -> length (zslice 0 16 (e_hdr e)) = 16%nat.
Proof.
  intros H. destruct (ent_ok_facts e H) as [H60 _ _ _]. unfold zslice, ztake, zdrop. cbn [Z.to_nat skipn]. rewrite firstn_length.
  unfold zlen in H60. change (Z.to_nat (16 - 0)) with 16%nat. lia.
Qed.
Lemma good_is_good2 e : ent_good e -> ent_good2 e.
Proof.
  intros [Hok [Hname Hmode]]. split; [exact Hok|split; [|exact Hmode]].
  pose proof (field16 e Hok) as L. destruct (name_field_relic e Hname) as [Htrim Hns].
  unfold ent_name_ok in Hname. apply andb_true_iff in Hname as [Hchars Hfirst].
  set (fld := zslice 0 16 (e_hdr e)) in *. set (n := rtrim fld).
  destruct (rtrim_prefix fld) as [k Hk]. fold n in Hk.
  assert (forallb name_char_ok n = true) as Hcn by (now apply rtrim_forallb).
  assert (forall c r, rev n = c :: r -> c <> 32) as Hlast by (intros c r E; eapply rtrim_last_not_sp; exact E).
  assert (forall c r, rev n = c :: r -> c <> 47) as Hsl.
  { intros c r E. rewrite <- forallb_rev, E in Hcn. cbn [forallb] in Hcn. apply andb_true_iff in Hcn as [Hc _]. unfold name_char_ok in Hc. lia. }
  assert (ent_lname e = n) as El by (unfold ent_lname, ar_logical; fold fld; fold n; now apply strip_slash_id).
  assert (exists c r, n = c :: r /\ c <> 32) as [c [r [En Hc]]].
  { destruct fld as [|c r] eqn:Ef; [discriminate|]. destruct n as [|c' r'] eqn:En.
    - cbn [app] in Hk. destruct k; [discriminate|]. cbn [repeat] in Hk. inversion Hk. subst c. cbn in Hfirst. discriminate.
    - cbn [app] in Hk. inversion Hk. subst c'. exists c, r'. split; [reflexivity|]. lia. }
  assert (length fld = (length n + k)%nat) as Lk by (rewrite Hk at 1; rewrite app_length, repeat_length; reflexivity).
  unfold ent_spelled_ok. fold fld. rewrite El. apply andb_true_iff. split.
  - unfold lname_ok. rewrite Hcn. cbn [andb]. rewrite En. replace (c =? 32) with false by lia. cbn [negb andb]. rewrite <- En.
    destruct (rev n) as [|c' r'] eqn:Er; [apply (f_equal (@rev Z)) in Er; rewrite rev_involutive in Er; rewrite Er in En; discriminate|].
    specialize (Hlast c' r' eq_refl). replace (c' =? 32) with false by lia. reflexivity.
  - unfold is_spelling. apply orb_true_iff. left. apply andb_true_iff. split; [|unfold zlen; lia].
    apply bytes_eqb_eq. unfold spell_plain, spec_field. replace (16 - length n)%nat with k by lia. exact Hk.
Qed.

(* ================================================================== one member, any spelling *)
Lemma scan_step2 fuel verify chk pos e rest : ent_good2 e ->
  ar_scan (S fuel) verify chk pos (ent_enc e ++ rest) =
    if negb (ent_is_sig e) && negb (chk (cname_of verify e) (e_data e)) then Err E_CONTROL
    else r <- ar_scan fuel verify chk (pos + zlen (ent_enc e)) rest ;; Ok (mem_of2 verify pos e :: fst r, snd r).
Proof.
  intros [Hok [Hname Hmode]]. destruct (ent_ok_facts e Hok) as [H60 Hmag Hsz Hsmall].
  destruct (spelled_of_ok e Hname) as [_ _ _ Hn]. pose proof (deb_norm_is_logical e Hname) as Hnorm. pose proof (lsig_is_sig e Hname) as Hsig.
  set (n := zlen (e_data e)) in *. assert (0 <= n) as Hn0 by apply zlen_nonneg.
  set (padb := if Z.odd n then [10] else @nil Z).
  assert (zlen padb = n mod 2) as Hpad by apply zlen_pad.
  assert (ent_enc e ++ rest = e_hdr e ++ e_data e ++ padb ++ rest) as Hl by (unfold ent_enc; fold n; fold padb; now rewrite <- !app_assoc).
  assert (zlen (ent_enc e ++ rest) = 60 + n + n mod 2 + zlen rest) as Hlen by (rewrite Hl, !zlen_app; lia).
  assert (ztake 60 (ent_enc e ++ rest) = e_hdr e) as Ht by (rewrite Hl, <- H60; apply ztake_app_exact).
  assert (zdrop 60 (ent_enc e ++ rest) = e_data e ++ padb ++ rest) as Hd by (rewrite Hl, <- H60; apply zdrop_app_exact).
  pose proof (zlen_nonneg rest) as Hr0.
  assert ((if verify then deb_v_is_gpg (ent_name e) else deb_is_gpg (ent_lname e)) = ent_is_sig e) as Hgpg
    by (destruct verify; [reflexivity|exact Hsig]).
  cbn [ar_scan]. rewrite Ht, Hd, Hlen.
  replace (60 + n + n mod 2 + zlen rest =? 0) with false by lia.
  replace (60 + n + n mod 2 + zlen rest <? 60) with false by lia.
  unfold ent_mode_ok in Hmode. replace (zlen (ar_trim (zslice 40 48 (e_hdr e))) <? 3) with false by lia.
  rewrite Hn, Hnorm, Hsz. fold (cname_of verify e).
  replace (if verify then deb_v_is_gpg (ent_name e) else deb_is_gpg (cname_of verify e)) with (ent_is_sig e)
    by (rewrite <- Hgpg; destruct verify; reflexivity).
  rewrite size_field_relic by lia. fold n. replace (n <? 0) with false by lia.
  assert (ztake n (e_data e ++ padb ++ rest) = e_data e) as -> by (unfold n; apply ztake_app_exact).
  destruct (negb (ent_is_sig e) && negb (chk (cname_of verify e) (e_data e))); [reflexivity|].
  rewrite !zlen_app, Hpad. fold n. replace (n + (n mod 2 + zlen rest) <? n + n mod 2) with false by lia.
  assert (zdrop (n + n mod 2) (e_data e ++ padb ++ rest) = rest) as ->.
  { rewrite app_assoc. replace (n + n mod 2) with (zlen (e_data e ++ padb)) by (rewrite zlen_app; lia). apply zdrop_app_exact. }
  replace (pos + 60 + n + n mod 2) with (pos + zlen (ent_enc e)) by (rewrite zlen_ent_enc by assumption; fold n; lia).
  reflexivity.
Qed.

Definition chk_all2 (verify : bool) (chk : bytes -> bytes -> bool) (es : list ent) : bool :=
  forallb (fun e => ent_is_sig e || chk (cname_of verify e) (e_data e)) es.

Lemma scan_all2 verify chk : forall es fuel pos, Forall ent_good2 es -> (length (enc_all es) <= fuel)%nat ->
  ar_scan fuel verify chk pos (enc_all es) =
    if chk_all2 verify chk es then Ok (mems2 verify pos es, pos + zlen (enc_all es)) else Err E_CONTROL.
Proof.
  induction es as [|e es IH]; intros fuel pos Hg Hf.
  - cbn [enc_all map concat chk_all2 forallb mems2]. rewrite zlen_nil, Z.add_0_r. destruct fuel; reflexivity.
  - inversion Hg as [|? ? He Hes]; subst. rewrite enc_all_cons in *. rewrite app_length in Hf.
    pose proof (ent_enc_len e (proj1 He)) as H60. destruct fuel as [|fuel]; [lia|].
    rewrite scan_step2 by assumption. cbn [chk_all2 forallb]. fold (chk_all2 verify chk es).
    rewrite <- negb_orb. destruct (ent_is_sig e || chk (cname_of verify e) (e_data e)); cbn [negb andb]; [|reflexivity].
    rewrite IH by (auto; lia). destruct (chk_all2 verify chk es); cbn [bind fst snd mems2]; [|reflexivity].
    rewrite zlen_app. do 2 f_equal. lia.
Qed.
Lemma members_spec2 verify chk es : Forall ent_good2 es ->
  ar_members verify chk (ar_spec_file es) =
    if chk_all2 verify chk es then Ok (mems2 verify 8 es, zlen (ar_spec_file es)) else Err E_CONTROL.
Proof.
  intros Hg. unfold ar_members, ar_spec_file. fold (enc_all es).
  replace (zdrop 8 (spec_ar_magic ++ enc_all es)) with (enc_all es) by (symmetry; apply (zdrop_app_exact spec_ar_magic)).
  rewrite zlen_app, zlen_magic. pose proof (zlen_nonneg (enc_all es)). replace (Z.min 8 (8 + zlen (enc_all es))) with 8 by lia.
  rewrite scan_all2 by (auto; rewrite app_length; lia). destruct (chk_all2 verify chk es); reflexivity.
Qed.

(* ================================================================== Sign's view: which members are skipped, listed, the slot *)
Definition has_control2 (es : list ent) : bool := existsb (fun e => deb_is_control (ent_lname e)) (filter nonsig es).

Lemma signed_mems_control2 : forall es pos, Forall ent_good2 es ->
  existsb (fun m => deb_is_control (m_cname m)) (deb_signed_members (mems2 false pos es)) = has_control2 es.
Proof.
  induction es as [|e es IH]; intros pos Hg; [reflexivity|]. inversion Hg as [|? ? He Hes]; subst.
  unfold deb_signed_members, has_control2 in *. cbn [mems2 filter].
  change (deb_is_gpg (m_cname (mem_of2 false pos e))) with (ent_is_lsig e). rewrite (lsig_is_sig e (proj1 (proj2 He))). unfold nonsig at 1.
  destruct (ent_is_sig e); cbn [negb existsb]; [now apply IH|]. now rewrite IH.
Qed.
Lemma signed_mems_ser2 : forall es pos, Forall ent_good2 es ->
  ser_members (deb_signed_members (mems2 false pos es)) = concat (map ent_ser (filter nonsig es)).
Proof.
  induction es as [|e es IH]; intros pos Hg; [reflexivity|]. inversion Hg as [|? ? He Hes]; subst.
  unfold deb_signed_members, ser_members in *. cbn [mems2 filter].
  change (deb_is_gpg (m_cname (mem_of2 false pos e))) with (ent_is_lsig e). rewrite (lsig_is_sig e (proj1 (proj2 He))). unfold nonsig at 1.
  destruct (ent_is_sig e); cbn [negb map concat]; [now apply IH|]. now rewrite IH.
Qed.
Lemma signed_mems_nd2 : forall es pos, Forall ent_good2 es ->
  map (fun m => (m_name m, m_data m)) (deb_signed_members (mems2 false pos es)) = map (fun e => (ent_name e, e_data e)) (filter nonsig es).
Proof.
  induction es as [|e es IH]; intros pos Hg; [reflexivity|]. inversion Hg as [|? ? He Hes]; subst.
  unfold deb_signed_members in *. cbn [mems2 filter].
  change (deb_is_gpg (m_cname (mem_of2 false pos e))) with (ent_is_lsig e). rewrite (lsig_is_sig e (proj1 (proj2 He))). unfold nonsig at 1.
  destruct (ent_is_sig e); cbn [negb map]; [now apply IH|]. now rewrite IH.
Qed.
Lemma vmems_nd2 : forall es pos,
  map (fun m => (m_name m, m_data m)) (filter (fun m => negb (deb_v_is_gpg (m_name m))) (mems2 true pos es)) = map (fun e => (ent_name e, e_data e)) (filter nonsig es).
Proof.
  induction es as [|e es IH]; intros pos; [reflexivity|]. cbn [mems2 filter].
  change (deb_v_is_gpg (m_name (mem_of2 true pos e))) with (ent_is_sig e). unfold nonsig at 1.
  destruct (ent_is_sig e); cbn [negb map]; [apply IH|]. now rewrite IH.
Qed.

Lemma deb_scan_spec2 ctl es : Forall ent_good2 es ->
  deb_scan ctl (ar_spec_file es) =
    if chk_all2 false (deb_chk ctl) es
    then (if has_control2 es then Ok (mkScan (mems2 false 8 es) (zlen (ar_spec_file es))) else Err E_NOCONTROL)
    else Err E_CONTROL.
Proof.
  intros Hg. unfold deb_scan. rewrite members_spec2 by assumption. destruct (chk_all2 false (deb_chk ctl) es); [|reflexivity].
  cbn [bind fst snd]. unfold deb_no_control. rewrite signed_mems_control2 by assumption. destruct (has_control2 es); reflexivity.
Qed.

Lemma mems2_forall (P : bytes -> Prop) : forall es pos, Forall (fun e => P (ent_lname e)) es -> Forall (fun m => P (m_cname m)) (mems2 false pos es).
Proof. induction es as [|e es IH]; intros pos H; [constructor|]. inversion H; subst. cbn [mems2]. constructor; auto. Qed.
Lemma deb_slot_none2 role es pos : Forall (fun e => lslot role e = false) es -> deb_slot (deb_filename role) (mems2 false pos es) = None.
Proof.
  intros H. unfold deb_slot. apply slot_fold.
  apply (mems2_forall (fun n => (deb_slot_before_skip || negb (deb_is_gpg n)) && deb_is_slot n (deb_filename role) = false)). exact H.
Qed.
Lemma deb_slot_some2 role a x b pos : lslot role x = true -> Forall (fun e => lslot role e = false) b ->
  deb_slot (deb_filename role) (mems2 false pos (a ++ x :: b)) = Some (mem_of2 false (pos + zlen (enc_all a)) x).
Proof.
  intros Hx Hb. unfold deb_slot. rewrite mems2_app, fold_left_app. cbn [mems2 fold_left].
  change (deb_slot_hit (deb_filename role) (mem_of2 false (pos + zlen (enc_all a)) x)) with (lslot role x). rewrite Hx.
  apply slot_fold. apply (mems2_forall (fun n => (deb_slot_before_skip || negb (deb_is_gpg n)) && deb_is_slot n (deb_filename role) = false)). exact Hb.
Qed.

Lemma spec_sign_l_none role new es : Forall (fun e => lslot role e = false) es -> spec_sign_l role new es = es ++ [new].
Proof. intros H. unfold spec_sign_l. now rewrite (replace_last_none (lslot role) new es H). Qed.
Lemma spec_sign_l_some role new a x b : lslot role x = true -> Forall (fun e => lslot role e = false) b ->
  spec_sign_l role new (a ++ x :: b) = a ++ new :: b.
Proof. intros Hx Hb. unfold spec_sign_l. now rewrite (replace_last_some (lslot role) new a x b Hx Hb). Qed.

(* relic's patch on a specified archive is the specification's signing operation on logical names *)
Lemma deb_embed_spec2 ctl role mtime es blob : Forall ent_good2 es -> chk_all2 false (deb_chk ctl) es = true -> has_control2 es = true ->
  deb_embed ctl role mtime (ar_spec_file es) blob = Ok (ar_spec_file (spec_sign_l role (new_ent role mtime blob) es)).
Proof.
  intros Hg Hc Hctl. unfold deb_embed. rewrite deb_scan_spec2, Hc, Hctl by assumption. cbn [bind ds_members ds_n].
  rewrite new_ent_enc. set (new := new_ent role mtime blob). set (f := ar_spec_file es).
  destruct (last_occ (lslot role) es) as [Hn|[a [x [b [Ees [Hx Hb]]]]]].
  - rewrite deb_slot_none2 by assumption. rewrite spec_sign_l_none by assumption.
    unfold deb_append_cond, deb_patch_eof. cbn [Z.eqb]. rewrite Z.ltb_irrefl.
    rewrite ztake_all by lia. rewrite zdrop_all by lia. rewrite app_nil_r.
    unfold f, ar_spec_file. fold (enc_all es). fold (enc_all (es ++ [new])). rewrite enc_all_app, enc_all_cons.
    unfold enc_all at 3. cbn [map concat]. now rewrite app_nil_r, <- app_assoc.
  - subst es. rewrite deb_slot_some2 by assumption. rewrite spec_sign_l_some by assumption.
    apply Forall_app in Hg as [Hga Hgxb]. inversion Hgxb as [|? ? Hgx Hgb]; subst.
    pose proof (zlen_ent_enc x (proj1 Hgx)) as Lx. pose proof (zlen_nonneg (e_data x)) as Hx0. pose proof (zlen_nonneg (enc_all a)) as Ha0.
    cbn [m_off m_size mem_of2]. unfold deb_patch_off, deb_patch_len, deb_append_cond.
    rewrite Z.quot_div_nonneg by lia.
    replace (60 + (zlen (e_data x) + 1) / 2 * 2) with (zlen (ent_enc x)) by (rewrite Lx; lia).
    replace (8 + zlen (enc_all a) + 60 - 60) with (8 + zlen (enc_all a)) by lia.
    replace (8 + zlen (enc_all a) =? 0) with false by lia.
    assert (f = (spec_ar_magic ++ enc_all a) ++ ent_enc x ++ enc_all b) as Ef
      by (unfold f, ar_spec_file; fold (enc_all (a ++ x :: b)); rewrite enc_all_app, enc_all_cons, <- app_assoc; reflexivity).
    assert (zlen (spec_ar_magic ++ enc_all a) = 8 + zlen (enc_all a)) as Lm by (rewrite zlen_app; reflexivity).
    replace (zlen f <? 8 + zlen (enc_all a)) with false by (rewrite Ef, zlen_app, Lm, zlen_app; pose proof (zlen_nonneg (enc_all b)); lia).
    rewrite <- Lm. rewrite Ef at 1. rewrite ztake_app_exact.
    replace (zdrop (zlen (spec_ar_magic ++ enc_all a) + zlen (ent_enc x)) f) with (enc_all b).
    2:{ rewrite Ef, app_assoc, <- zlen_app. symmetry. apply zdrop_app_exact. }
    unfold ar_spec_file. fold (enc_all (a ++ new :: b)). rewrite enc_all_app, enc_all_cons, <- !app_assoc. reflexivity.
Qed.

(* ================================================================== the domain, decomposed *)
Lemma good2_of_forallb es : forallb ent_ok es = true -> forallb ent_spelled_ok es = true -> forallb ent_mode_ok es = true -> Forall ent_good2 es.
Proof. rewrite !forallb_forall, Forall_forall. intros H1 H2 H3 e He. split; [|split]; auto. Qed.
Lemma forallb_of_good2 es : Forall ent_good2 es -> forallb ent_ok es = true /\ forallb ent_spelled_ok es = true /\ forallb ent_mode_ok es = true.
Proof. rewrite !forallb_forall, Forall_forall. intros H. repeat split; intros e He; destruct (H e He) as [H1 [H2 H3]]; assumption. Qed.

Record wf2_form (ctl : bytes -> bytes -> bool) (f : bytes) (es : list ent) : Prop := mkWf2 {
  w2_parse : ar_spec_parse f = Some es;
  w2_file : f = ar_spec_file es;
  w2_good : Forall ent_good2 es;
  w2_distinct : distinct_names (map ent_lname es) = true;
  w2_chk : chk_all2 false (deb_chk ctl) es = true;
  w2_ctl : has_control2 es = true
}.
Lemma deb_wf2_form ctl f : deb_wf2 ctl f = true -> exists es, wf2_form ctl f es.
Proof.
  unfold deb_wf2. destruct (ar_spec_parse f) as [es|] eqn:Ep; [|discriminate]. intros H.
  apply andb_true_iff in H as [H H5]. apply andb_true_iff in H as [H H4]. apply andb3 in H as [H1 [H2 H3]].
  pose proof (spec_parse_sound _ _ Ep) as Ef. pose proof (good2_of_forallb es H1 H2 H3) as Hg.
  exists es. rewrite Ef in H5. rewrite deb_scan_spec2 in H5 by assumption.
  destruct (chk_all2 false (deb_chk ctl) es) eqn:Ec; [|discriminate]. destruct (has_control2 es) eqn:Eh; [|discriminate].
  constructor; auto.
Qed.
Lemma wf2_form_wf ctl f es : ar_spec_parse f = Some es -> f = ar_spec_file es -> Forall ent_good2 es ->
  distinct_names (map ent_lname es) = true -> chk_all2 false (deb_chk ctl) es = true -> has_control2 es = true ->
  deb_wf2 ctl f = true.
Proof.
  intros Hp Hf Hg Hd Hc Hh. unfold deb_wf2. rewrite Hp. destruct (forallb_of_good2 es Hg) as [H1 [H2 H3]]. rewrite H1, H2, H3.
  rewrite Hd, Hf, deb_scan_spec2, Hc, Hh by assumption. reflexivity.
Qed.

(* ================================================================== distinct logical names: exactly one member per slot *)
Lemma existsb_app_ {A} (p : A -> bool) a b : existsb p (a ++ b) = existsb p a || existsb p b.
Proof. apply existsb_app. Qed.
Lemma distinct_app_single k : forall l, distinct_names l = true -> Forall (fun n => bytes_eqb n k = false) l -> distinct_names (l ++ [k]) = true.
Proof.
  induction l as [|n l IH]; intros Hd Hk; [reflexivity|]. cbn [app distinct_names] in *. apply andb_true_iff in Hd as [H1 H2].
  inversion Hk as [|? ? Hn Hl]; subst. rewrite existsb_app_. cbn [existsb]. rewrite Hn, orb_false_r. apply negb_true_iff in H1. rewrite H1.
  cbn [negb andb]. now apply IH.
Qed.
Lemma distinct_before k : forall x y, distinct_names (x ++ k :: y) = true -> Forall (fun n => bytes_eqb n k = false) x.
Proof.
  induction x as [|h x IH]; intros y H; [constructor|]. cbn [app distinct_names] in H. apply andb_true_iff in H as [H1 H2].
  constructor; [|now apply (IH y)]. apply negb_true_iff in H1. rewrite existsb_app_ in H1. apply orb_false_iff in H1 as [_ H1].
  cbn [existsb] in H1. now apply orb_false_iff in H1 as [H1 _].
Qed.
Lemma bytes_eqb_sym a b : bytes_eqb a b = bytes_eqb b a.
Proof.
  destruct (bytes_eqb a b) eqn:E1; destruct (bytes_eqb b a) eqn:E2; try reflexivity.
  - apply bytes_eqb_eq in E1. subst. now rewrite bytes_eqb_refl in E2.
  - apply bytes_eqb_eq in E2. subst. now rewrite bytes_eqb_refl in E1.
Qed.
Lemma distinct_replace k : forall x y, distinct_names (x ++ k :: y) = true -> forall k', k' = k -> distinct_names (x ++ k' :: y) = true.
Proof. intros x y H k' ->. exact H. Qed.

Lemma lslot_others role a x b : distinct_names (map ent_lname (a ++ x :: b)) = true -> lslot role x = true ->
  Forall (fun e => lslot role e = false) a /\ Forall (fun e => lslot role e = false) b.
Proof.
  intros Hd Hx. unfold lslot in *. apply bytes_eqb_eq in Hx. rewrite map_app in Hd. cbn [map] in Hd. rewrite Hx in Hd. split.
  - apply distinct_before in Hd. rewrite Forall_forall in *. intros e He. apply Hd. now apply in_map.
  - apply distinct_split in Hd. rewrite Forall_forall in *. intros e He. apply Hd. now apply in_map.
Qed.
Lemma filter_none {A} (p : A -> bool) l : Forall (fun x => p x = false) l -> filter p l = [].
Proof. induction 1 as [|x l Hx Hl IH]; [reflexivity|]. cbn [filter]. now rewrite Hx. Qed.
Lemma filter_all {A} (p : A -> bool) l : Forall (fun x => p x = false) l -> filter (fun x => negb (p x)) l = l.
Proof. induction 1 as [|x l Hx Hl IH]; [reflexivity|]. cbn [filter]. rewrite Hx. cbn [negb]. now rewrite IH. Qed.

(* ================================================================== the new member *)
Lemma new_ent_good2 role mtime blob : role_ok role = true -> zlen blob < 10000000000 ->
  ent_good2 (new_ent role mtime blob) /\ ent_name (new_ent role mtime blob) = spec_sig_name role /\ ent_lname (new_ent role mtime blob) = spec_sig_name role.
Proof.
  intros Hr Hb. destruct (new_ent_good role mtime blob Hr Hb) as [Hg Hn]. pose proof (good_is_good2 _ Hg) as Hg2. split; [exact Hg2|]. split; [exact Hn|].
  rewrite ent_lname_strip, Hn. apply strip_slash_id. intros c r E. destruct (role_ok_facts role Hr) as [Hl Hc].
  unfold spec_sig_name in E. rewrite rev_app_distr in E. destruct (rev role) as [|c' r'] eqn:Er.
  - apply (f_equal (@rev Z)) in Er. rewrite rev_involutive in Er. subst role. cbn in Hl. lia.
  - cbn [app] in E. inversion E. subst c'. apply Forall_rev in Hc. rewrite Er in Hc. inversion Hc. lia.
Qed.
Lemma lslot_is_sig role x : ent_spelled_ok x = true -> lslot role x = true -> ent_is_sig x = true.
Proof.
  intros Hs Hx. rewrite <- (lsig_is_sig x Hs). unfold ent_is_lsig, lslot in *. apply bytes_eqb_eq in Hx. rewrite Hx. apply has_prefix_app.
Qed.

(* ================================================================== signing at the level of entries *)
Lemma spec_sign_l_cases role new es : exists a old b,
  es = a ++ old ++ b /\ spec_sign_l role new es = a ++ new :: b /\ Forall (fun e => lslot role e = false) b /\
  ((old = [] /\ b = [] /\ Forall (fun e => lslot role e = false) a) \/ exists x, old = [x] /\ lslot role x = true).
Proof.
  destruct (last_occ (lslot role) es) as [Hn|[a [x [b [-> [Hx Hb]]]]]].
  - exists es, [], []. rewrite spec_sign_l_none by assumption. rewrite app_nil_r. repeat split; auto.
  - exists a, [x], b. rewrite spec_sign_l_some by assumption. repeat split; auto. right. eauto.
Qed.

Record embedded2 (ctl : bytes -> bytes -> bool) (role : bytes) (mtime : Z) (f blob g : bytes) (es : list ent) : Prop := mkEmb2 {
  e2_wf : wf2_form ctl f es;
  e2_role : role_ok role = true;
  e2_g : g = ar_spec_file (spec_sign_l role (new_ent role mtime blob) es);
  e2_good : Forall ent_good2 (spec_sign_l role (new_ent role mtime blob) es);
  e2_name : ent_name (new_ent role mtime blob) = spec_sig_name role;
  e2_lname : ent_lname (new_ent role mtime blob) = spec_sig_name role;
  e2_filter : filter nonsig (spec_sign_l role (new_ent role mtime blob) es) = filter nonsig es;
  e2_one : filter (lslot role) (spec_sign_l role (new_ent role mtime blob) es) = [new_ent role mtime blob];
  e2_rest : filter (fun e => negb (lslot role e)) (spec_sign_l role (new_ent role mtime blob) es) = filter (fun e => negb (lslot role e)) es;
  e2_distinct : distinct_names (map ent_lname (spec_sign_l role (new_ent role mtime blob) es)) = true
}.
Lemma deb_embed_form2 ctl role mtime f blob g : deb_embed_wf2 ctl role mtime f blob = Ok g -> exists es, embedded2 ctl role mtime f blob g es.
Proof.
  unfold deb_embed_wf2. destruct (deb_wf2 ctl f) eqn:Ew; [|discriminate]. destruct (role_ok role) eqn:Er; [|discriminate].
  destruct (zlen blob <? 10000000000) eqn:Eb; [|discriminate]. destruct (0 <=? mtime); [|discriminate]. cbn [andb].
  destruct (deb_wf2_form _ _ Ew) as [es W]. intros He. exists es. destruct W as [Wp Wf Wg Wd Wc Wh].
  rewrite Wf, deb_embed_spec2 in He by assumption. injection He as <-.
  destruct (new_ent_good2 role mtime blob Er ltac:(lia)) as [Hng [Hnn Hnl]]. set (new := new_ent role mtime blob) in *.
  assert (lslot role new = true) as Hnew by (unfold lslot; rewrite Hnl; apply bytes_eqb_refl).
  assert (ent_is_sig new = true) as Hnsig by (apply (lslot_is_sig role); [exact (proj1 (proj2 Hng))|exact Hnew]).
  assert (nonsig new = false) as Nn by (unfold nonsig; now rewrite Hnsig).
  destruct (spec_sign_l_cases role new es) as [a [old [b [Ees [Esign [Hb Hcase]]]]]].
  constructor; auto; fold new.
  - constructor; auto.
  - rewrite Esign. subst es. apply Forall_app in Wg as [Ha Hob]. apply Forall_app in Hob as [_ Hbb]. apply Forall_app. split; [exact Ha|constructor; assumption].
  - rewrite Esign. subst es. destruct Hcase as [[-> [-> _]]|[x [-> Hx]]].
    + rewrite !filter_app. cbn [filter app]. now rewrite Nn.
    + assert (nonsig x = false) as Nx.
      { unfold nonsig. rewrite (lslot_is_sig role x); [reflexivity| |exact Hx]. apply Forall_app in Wg as [_ Wg]. inversion Wg as [|? ? Hgx _]. exact (proj1 (proj2 Hgx)). }
      rewrite !filter_app. cbn [filter app]. now rewrite Nn, Nx.
  - rewrite Esign. subst es. destruct Hcase as [[-> [-> Ha]]|[x [-> Hx]]].
    + rewrite filter_app. cbn [filter]. rewrite Hnew. now rewrite (filter_none _ a Ha).
    + cbn [app] in Wd. destruct (lslot_others role a x b Wd Hx) as [Ha _].
      rewrite filter_app. cbn [filter]. rewrite Hnew. now rewrite (filter_none _ a Ha), (filter_none _ b Hb).
  - rewrite Esign. subst es. destruct Hcase as [[-> [-> Ha]]|[x [-> Hx]]].
    + rewrite !filter_app. cbn [filter app]. now rewrite Hnew.
    + rewrite !filter_app. cbn [filter app]. now rewrite Hnew, Hx.
  - rewrite Esign. subst es. destruct Hcase as [[-> [-> Ha]]|[x [-> Hx]]].
    + rewrite app_nil_r in Wd. rewrite map_app. cbn [map]. apply distinct_app_single; [exact Wd|].
      rewrite Forall_forall in *. intros n Hin. apply in_map_iff in Hin as [e [<- He]]. specialize (Ha e He). unfold lslot in Ha. now rewrite Hnl.
    + cbn [app] in Wd. rewrite map_app in *. cbn [map] in *. eapply distinct_replace; [exact Wd|]. rewrite Hnl. unfold lslot in Hx. apply bytes_eqb_eq in Hx. now symmetry.
Qed.
Lemma embedded2_scan ctl role mtime f blob g es : embedded2 ctl role mtime f blob g es ->
  chk_all2 false (deb_chk ctl) (spec_sign_l role (new_ent role mtime blob) es) = true /\ has_control2 (spec_sign_l role (new_ent role mtime blob) es) = true.
Proof.
  intros E. destruct E as [W _ _ _ _ _ Hf _ _ _]. destruct W as [_ _ _ _ Wc Wh].
  assert (forall l, chk_all2 false (deb_chk ctl) l = forallb (fun e => deb_chk ctl (ent_lname e) (e_data e)) (filter nonsig l)) as Hcf.
  { induction l as [|e l IH]; [reflexivity|]. unfold chk_all2 in *. cbn [forallb filter]. unfold nonsig at 1.
    destruct (ent_is_sig e); cbn [negb orb forallb]; now rewrite IH. }
  split.
  - rewrite Hcf, Hf, <- Hcf. assumption.
  - unfold has_control2. rewrite Hf. assumption.
Qed.

(* ================================================================== the slot theorem *)
(* C08: after Sign there is exactly one member whose logical name is _gpg<role>; it is the new signature; every other member is
   the same header and data, in the same order; the result is again in the domain (so this repeats) *)
Theorem deb_slot_replaced ctl role mtime f b g : deb_embed_wf2 ctl role mtime f b = Ok g ->
  exists es es', ar_spec_parse f = Some es /\ ar_spec_parse g = Some es' /\
    es' = spec_sign_l role (mkEnt (ar_whdr (spec_sig_name role) mtime 33188 (zlen b)) b) es /\
    filter (lslot role) es' = [mkEnt (ar_whdr (spec_sig_name role) mtime 33188 (zlen b)) b] /\
    filter (fun e => negb (lslot role e)) es' = filter (fun e => negb (lslot role e)) es.
Proof.
  intros He. destruct (deb_embed_form2 _ _ _ _ _ _ He) as [es E]. destruct E as [W _ -> Hg _ _ _ Hone Hrest _]. destruct W as [Wp _ _ _ _ _].
  exists es, (spec_sign_l role (new_ent role mtime b) es). split; [exact Wp|]. split.
  - apply spec_parse_complete. eapply Forall_impl; [|exact Hg]. intros e [H _]. exact H.
  - split; [reflexivity|]. split; [exact Hone|exact Hrest].
Qed.
Lemma ent_eqb_refl e : ent_eqb e e = true.
Proof. unfold ent_eqb. now rewrite !bytes_eqb_refl. Qed.
Lemma list_eqb_refl {A} (eqb : A -> A -> bool) : (forall x, eqb x x = true) -> forall l, list_eqb eqb l l = true.
Proof. intros H. induction l as [|x l IH]; [reflexivity|]. cbn [list_eqb]. now rewrite H, IH. Qed.
Theorem deb_slot_replaced_check ctl role mtime f b g es es' : deb_embed_wf2 ctl role mtime f b = Ok g ->
  ar_spec_parse f = Some es -> ar_spec_parse g = Some es' -> slot_replaced_ok role b es es' = true.
Proof.
  intros He Hp Hp'. destruct (deb_slot_replaced _ _ _ _ _ _ He) as [es0 [es0' [P [P' [_ [H1 H2]]]]]].
  rewrite Hp in P. injection P as <-. rewrite Hp' in P'. injection P' as <-.
  unfold slot_replaced_ok. rewrite H1, H2. cbn [e_data]. rewrite bytes_eqb_refl. cbn [andb]. apply list_eqb_refl. apply ent_eqb_refl.
Qed.
Theorem deb_wf2_preserved ctl role mtime f b g : deb_embed_wf2 ctl role mtime f b = Ok g -> deb_wf2 ctl g = true.
Proof.
  intros He. destruct (deb_embed_form2 _ _ _ _ _ _ He) as [es E]. destruct (embedded2_scan _ _ _ _ _ _ _ E) as [Hc Hh].
  destruct E as [W _ -> Hg _ _ _ _ _ Hd].
  eapply wf2_form_wf; eauto.
  apply spec_parse_complete. eapply Forall_impl; [|exact Hg]. intros e [H _]. exact H.
Qed.
Theorem deb_embed_total2 ctl role mtime f b : deb_wf2 ctl f = true -> role_ok role = true -> zlen b < 10000000000 -> 0 <= mtime ->
  exists g, deb_embed_wf2 ctl role mtime f b = Ok g.
Proof.
  intros Hw Hr Hb Hm. unfold deb_embed_wf2. rewrite Hw, Hr. replace (zlen b <? 10000000000) with true by lia. replace (0 <=? mtime) with true by lia.
  cbn [andb]. destruct (deb_wf2_form _ _ Hw) as [es W]. destruct W as [_ -> Wg _ Wc Wh]. rewrite deb_embed_spec2 by assumption. eauto.
Qed.
Lemma existsb_rev {A} (p : A -> bool) l : existsb p (rev l) = existsb p l.
Proof. induction l as [|x l IH]; [reflexivity|]. cbn [rev existsb]. rewrite existsb_app, IH. cbn [existsb]. now rewrite orb_false_r, orb_comm. Qed.
Lemma existsb_ext_in {A} (p q : A -> bool) l : (forall x, In x l -> p x = q x) -> existsb p l = existsb q l.
Proof. induction l as [|x l IH]; intros H; [reflexivity|]. cbn [existsb]. rewrite (H x (or_introl eq_refl)), IH; [reflexivity|]. intros y Hy. apply H. now right. Qed.
(* the old domain with one member per name is inside the new one *)
Theorem deb_wf_in_wf2 ctl f es : deb_wf ctl f = true -> ar_spec_parse f = Some es -> distinct_names (map ent_name es) = true -> deb_wf2 ctl f = true.
Proof.
  intros Hw Hp Hd. destruct (deb_wf_form _ _ Hw) as [es' W]. destruct W as [Wp Wf Wg _ Wc Wh]. rewrite Hp in Wp. injection Wp as <-.
  assert (Forall ent_good2 es) as Hg2 by (eapply Forall_impl; [|exact Wg]; apply good_is_good2).
  assert (forall e, In e es -> ent_lname e = ent_name e) as Hl.
  { intros e He. rewrite Forall_forall in Wg. destruct (Wg e He) as [_ [Hn _]]. destruct (name_field_relic e Hn) as [_ Hs].
    rewrite ent_lname_strip. apply strip_slash_id. intros c r E. unfold has_slash in Hs.
    assert (existsb (fun c => c =? 47) (rev (ent_name e)) = false) as Hs' by (rewrite existsb_rev; exact Hs).
    rewrite E in Hs'. cbn [existsb] in Hs'. apply orb_false_iff in Hs' as [Hs' _]. lia. }
  eapply wf2_form_wf; eauto.
  - rewrite (map_ext_in _ _ _ Hl). exact Hd.
  - unfold chk_all2, chk_all in *. rewrite forallb_forall in *. intros e He. cbn [cname_of]. rewrite (Hl e He). now apply Wc.
  - unfold has_control2, has_control in *. rewrite <- Wh. apply existsb_ext_in. intros e He. apply filter_In in He as [He _]. now rewrite (Hl e He).
Qed.

(* ================================================================== the laws on the extended domain *)
Definition deb_format2 (ctl : bytes -> bytes -> bool) (role : bytes) (mtime : Z) : format (list (bytes * bytes)) :=
  mkFormat (list (bytes * bytes)) (deb_hashin ctl) (deb_embed_wf2 ctl role mtime) (deb_extract role) deb_payload.

Lemma deb_hashin_spec2 ctl es : Forall ent_good2 es -> chk_all2 false (deb_chk ctl) es = true -> has_control2 es = true ->
  deb_hashin ctl (ar_spec_file es) = Ok (concat (map ent_ser (filter nonsig es))).
Proof.
  intros Hg Hc Hh. unfold deb_hashin. rewrite deb_scan_spec2, Hc, Hh by assumption. cbn [bind ds_members].
  change (deb_listed_members (mems2 false 8 es)) with (deb_signed_members (mems2 false 8 es)). now rewrite signed_mems_ser2.
Qed.
Theorem deb_law_hashin2 ctl role mtime : law_hashin _ (deb_format2 ctl role mtime).
Proof.
  unfold law_hashin, deb_format2. cbn [f_embed f_hashin]. intros f b g He.
  destruct (deb_embed_form2 _ _ _ _ _ _ He) as [es E]. destruct (embedded2_scan _ _ _ _ _ _ _ E) as [Hc Hh].
  destruct E as [W _ -> Hg _ _ Hf _ _ _]. destruct W as [_ -> Wg _ Wc Wh].
  rewrite !deb_hashin_spec2 by assumption. now rewrite Hf.
Qed.
Lemma deb_payload_spec2 es : Forall ent_good2 es -> deb_payload (ar_spec_file es) = Ok (spec_payload_of es).
Proof.
  intros Hg. unfold deb_payload. rewrite spec_parse_complete; [reflexivity|].
  eapply Forall_impl; [|exact Hg]. intros e [H _]. exact H.
Qed.
Theorem deb_law_payload2 ctl role mtime : law_payload _ (deb_format2 ctl role mtime).
Proof.
  unfold law_payload, deb_format2. cbn [f_embed f_payload]. intros f b g He.
  destruct (deb_embed_form2 _ _ _ _ _ _ He) as [es E]. destruct E as [W _ -> Hg _ _ Hf _ _ _]. destruct W as [_ -> Wg _ _ _].
  rewrite !deb_payload_spec2 by assumption. unfold spec_payload_of. fold nonsig. now rewrite Hf.
Qed.

(* Verify's role map on the result *)
Lemma sig_pairs_mems2 : forall es pos,
  map (fun m => (deb_v_sig_key (zdrop deb_v_role_from (deb_v_role_src (m_name m))), m_data m)) (filter (fun m => deb_v_is_gpg (m_name m)) (mems2 true pos es)) = sig_pairs es.
Proof.
  induction es as [|e es IH]; intros pos; [reflexivity|]. unfold sig_pairs in *. cbn [mems2 filter].
  change (deb_v_is_gpg (m_name (mem_of2 true pos e))) with (ent_is_sig e). destruct (ent_is_sig e); cbn [map]; now rewrite IH.
Qed.
Lemma chk_all2_true verify es : chk_all2 verify (fun _ _ => true) es = true.
Proof. unfold chk_all2. apply forallb_forall. intros e _. apply orb_true_r. Qed.
Lemma deb_sigs_spec2 es : Forall ent_good2 es -> deb_sigs (ar_spec_file es) = Ok (sig_pairs es).
Proof. intros Hg. unfold deb_sigs. rewrite members_spec2, chk_all2_true by assumption. cbn [bind fst]. now rewrite sig_pairs_mems2. Qed.

Lemma strip_slash_app_r p r : r <> [] -> strip_slash (p ++ r) = p ++ strip_slash r.
Proof.
  intros Hr. unfold strip_slash. rewrite rev_app_distr. destruct (rev r) as [|c t] eqn:E.
  - apply (f_equal (@rev Z)) in E. rewrite rev_involutive in E. contradiction.
  - cbn [app]. destruct (c =? 47); [|reflexivity]. now rewrite rev_app_distr, rev_involutive.
Qed.
(* a signature member whose role — with or without the System V terminator — is `role` occupies the slot *)
Lemma role_key_lslot role e : role <> [] -> ent_is_sig e = true -> strip_slash (zdrop deb_v_role_from (ent_name e)) = role -> lslot role e = true.
Proof.
  intros Hr Hs Hk. unfold ent_is_sig in Hs. apply has_prefix_spec in Hs as [r Er]. unfold lslot. rewrite ent_lname_strip, Er in *.
  change deb_v_role_from with (zlen spec_gpg) in Hk. rewrite zdrop_app_exact in Hk.
  destruct r as [|c r']; [cbn in Hk; congruence|]. rewrite strip_slash_app_r by discriminate. rewrite Hk. apply bytes_eqb_refl.
Qed.
Lemma in_sig_pairs r s es : In (r, s) (sig_pairs es) -> exists e, In e es /\ ent_is_sig e = true /\ r = zdrop deb_v_role_from (ent_name e) /\ s = e_data e.
Proof.
  unfold sig_pairs. intros H. apply in_map_iff in H as [e [E He]]. apply filter_In in He as [He Hs]. inversion E. eauto.
Qed.

Theorem deb_law_extract2 ctl role mtime : law_extract _ (deb_format2 ctl role mtime).
Proof.
  unfold law_extract, deb_format2. cbn [f_embed f_extract]. intros f b g He.
  destruct (deb_embed_form2 _ _ _ _ _ _ He) as [es E]. destruct E as [W Hrole -> Hg Hn Hl _ Hone _ _].
  unfold deb_extract. rewrite deb_sigs_spec2 by assumption. cbn [bind]. f_equal.
  destruct (role_ok_facts role Hrole) as [Hlen _]. assert (role <> []) as Hne by (intros ->; cbn in Hlen; lia).
  set (new := new_ent role mtime b) in *. set (es' := spec_sign_l role new es) in *.
  assert (In new es') as Hin by (assert (In new (filter (lslot role) es')) as H by (rewrite Hone; now left); now apply filter_In in H as [H _]).
  apply in_split in Hin as [a [bb Es]]. rewrite Es in *.
  assert (Forall (fun e => lslot role e = false) bb) as Hb.
  { rewrite filter_app in Hone. cbn [filter] in Hone. assert (lslot role new = true) as Hnew by (unfold lslot; rewrite Hl; apply bytes_eqb_refl).
    rewrite Hnew in Hone. apply Forall_forall. intros e Hie. destruct (lslot role e) eqn:E; [|reflexivity]. exfalso.
    assert (In e (filter (lslot role) bb)) as Hf by (apply filter_In; auto).
    apply (f_equal (@length ent)) in Hone. rewrite app_length in Hone. cbn [length] in Hone.
    destruct (filter (lslot role) bb); [contradiction|]. cbn [length] in Hone. lia. }
  change (a ++ new :: bb) with (a ++ [new] ++ bb). rewrite !sig_pairs_app.
  unfold lookup_last. rewrite !fold_left_app. rewrite lookup_keep.
  - unfold sig_pairs at 1. cbn [filter]. rewrite (sig_name_is_sig role _ Hn). cbn [map fold_left fst snd].
    rewrite Hn, zdrop_gpg, bytes_eqb_refl. reflexivity.
  - apply Forall_forall. intros [r s] Hrs. cbn [fst]. apply bytes_eqb_neq. intros ->.
    apply in_sig_pairs in Hrs as [e [Hie [Hs [Er _]]]]. rewrite Forall_forall in Hb. specialize (Hb e Hie).
    rewrite (role_key_lslot role e Hne Hs) in Hb; [discriminate|]. rewrite <- Er. apply strip_slash_id.
    intros c t E. destruct (role_ok_facts role Hrole) as [_ Hc]. apply Forall_rev in Hc. rewrite E in Hc. inversion Hc. lia.
Qed.
(* C08: no stale signature of the role is left for the verifier: every entry of Verify's role map whose role is `role`, with or
   without a terminating slash, is the new signature under the key `role` *)
Theorem deb_no_stale_signature ctl role mtime f b g : deb_embed_wf2 ctl role mtime f b = Ok g ->
  exists sg, deb_sigs g = Ok sg /\ lookup_last role sg = Some b /\
    forall r s, In (r, s) sg -> strip_slash r = role -> r = role /\ s = b.
Proof.
  intros He. pose proof (deb_law_extract2 ctl role mtime f b g He) as Hex. cbn [deb_format2 f_extract] in Hex.
  destruct (deb_embed_form2 _ _ _ _ _ _ He) as [es E]. destruct E as [W Hrole -> Hg Hn Hl _ Hone _ _].
  exists (sig_pairs (spec_sign_l role (new_ent role mtime b) es)). unfold deb_extract in Hex. rewrite deb_sigs_spec2 in * by assumption.
  cbn [bind] in Hex. split; [reflexivity|]. split; [now injection Hex|].
  intros r s Hrs Hk. destruct (role_ok_facts role Hrole) as [Hlen _]. assert (role <> []) as Hne by (intros ->; cbn in Hlen; lia).
  apply in_sig_pairs in Hrs as [e [He' [Hs [Er Es]]]]. rewrite Er in Hk. pose proof (role_key_lslot role e Hne Hs Hk) as Hsl.
  assert (In e (filter (lslot role) (spec_sign_l role (new_ent role mtime b) es))) as Hf by (apply filter_In; auto).
  rewrite Hone in Hf. destruct Hf as [<-|[]]. split; [|exact Es]. rewrite Er, Hn. apply zdrop_gpg.
Qed.

(* relic's manifest passes relic's check on the re-signed package, whatever the spelling of the member names *)
Lemma distinct_filter {A} (f : A -> bytes) (p : A -> bool) : forall l, distinct_names (map f l) = true -> distinct_names (map f (filter p l)) = true.
Proof.
  induction l as [|x l IH]; intros H; [reflexivity|]. cbn [map distinct_names] in H. apply andb_true_iff in H as [H1 H2]. cbn [filter].
  destruct (p x); [|now apply IH]. cbn [map distinct_names]. rewrite IH by assumption. rewrite andb_true_r.
  apply negb_true_iff in H1. apply negb_true_iff. destruct (existsb (bytes_eqb (f x)) (map f (filter p l))) eqn:E; [|reflexivity].
  apply existsb_exists in E as [n [Hin Hn]]. apply in_map_iff in Hin as [y [<- Hy]]. apply filter_In in Hy as [Hy _].
  assert (existsb (bytes_eqb (f x)) (map f l) = true); [|congruence]. apply existsb_exists. exists (f y). split; [now apply in_map|exact Hn].
Qed.
Lemma distinct_finer {A} (f g : A -> bytes) : (forall x y, g x = g y -> f x = f y) -> forall l, distinct_names (map f l) = true -> distinct_names (map g l) = true.
Proof.
  intros Hfg. induction l as [|x l IH]; intros H; [reflexivity|]. cbn [map distinct_names] in *. apply andb_true_iff in H as [H1 H2].
  rewrite IH by assumption. rewrite andb_true_r. apply negb_true_iff in H1. apply negb_true_iff.
  destruct (existsb (bytes_eqb (g x)) (map g l)) eqn:E; [|reflexivity].
  apply existsb_exists in E as [n [Hin Hn]]. apply in_map_iff in Hin as [y [<- Hy]]. apply bytes_eqb_eq in Hn.
  assert (existsb (bytes_eqb (f x)) (map f l) = true); [|congruence]. apply existsb_exists. exists (f y). split; [now apply in_map|].
  apply bytes_eqb_eq. now apply Hfg.
Qed.
Lemma deb_vmembers_spec2 es : Forall ent_good2 es ->
  deb_vmembers (ar_spec_file es) = Ok (filter (fun m => negb (deb_v_is_gpg (m_name m))) (mems2 true 8 es)).
Proof. intros Hg. unfold deb_vmembers. rewrite members_spec2, chk_all2_true by assumption. reflexivity. Qed.
Theorem deb_verifier_accepts_resigned ctl role mtime f b g D s ms :
  deb_embed_wf2 ctl role mtime f b = Ok g -> (forall d, D d <> []) -> deb_scan ctl f = Ok s -> deb_vmembers g = Ok ms ->
  deb_check (deb_lines D (deb_listed_members (ds_members s))) (deb_digests D ms) = Ok tt.
Proof.
  intros He HD Hs Hv. destruct (deb_embed_form2 _ _ _ _ _ _ He) as [es E]. destruct E as [W _ -> Hg _ _ Hf _ _ _].
  destruct W as [_ -> Wg Wd Wc Wh]. rewrite deb_scan_spec2, Wc, Wh in Hs by assumption. injection Hs as <-.
  rewrite deb_vmembers_spec2 in Hv by assumption. injection Hv as <-. cbn [ds_members].
  change (deb_listed_members (mems2 false 8 es)) with (deb_signed_members (mems2 false 8 es)).
  unfold deb_lines, deb_digests.
  set (l := map (fun e => (ent_name e, e_data e)) (filter nonsig es)).
  match goal with |- deb_check ?A ?B = _ =>
    assert (A = map (fun nd => (D (snd nd), fst nd)) l) as EA by (unfold l; rewrite <- (signed_mems_nd2 es 8 Wg), map_map; reflexivity);
    assert (B = map (fun nd => (fst nd, D (snd nd))) l) as EB
      by (unfold l; rewrite <- Hf, <- (vmems_nd2 (spec_sign_l role (new_ent role mtime b) es) 8), map_map; reflexivity);
    rewrite EA, EB
  end.
  apply check_self; [|exact HD]. unfold l. rewrite map_map. cbn [fst].
  apply distinct_filter. apply (distinct_finer ent_lname ent_name); [|exact Wd].
  intros x y Exy. now rewrite !ent_lname_strip, Exy.
Qed.

(* ================================================================== pipeline theorems on the extended domain *)
Section DEBCrypto2.
  Variables key pubk sigv : Type.
  Variable H : Z -> bytes -> bytes.
  Variable pub : key -> pubk.
  Variable sign : key -> bytes -> sigv.
  Variable vrfy : pubk -> bytes -> sigv -> bool.
  Hypothesis sign_correct : forall k m, vrfy (pub k) m (sign k m) = true.
  Variable tbs : Z -> bytes -> bytes.
  Variable ser : sigblob pubk sigv -> bytes.
  Variable deser : bytes -> option (sigblob pubk sigv).
  Hypothesis deser_ser : forall b, deser (ser b) = Some b.

  Theorem deb_sign_then_verify2 : forall ctl role mtime k a f g,
    sign_file key pubk sigv H pub sign tbs ser _ (deb_format2 ctl role mtime) k a f = Ok g ->
    verify_file pubk sigv H vrfy tbs deser _ (deb_format2 ctl role mtime) g = Accept pubk (pub k) a.
  Proof.
    intros ctl role mtime. apply (sign_then_verify key pubk sigv H pub sign vrfy sign_correct tbs ser deser deser_ser _ (deb_format2 ctl role mtime)).
    - apply deb_law_extract2.
    - apply deb_law_hashin2.
  Qed.
  (* histories: a package signed by a third party under either spelling, then signed by relic any number of times with any keys
     and digests: after every round it verifies under the last key only, is signed, has the original payload and digest input *)
  Theorem deb_resign_history2 : forall ctl role mtime hist f g k a,
    resign key pubk sigv H pub sign tbs ser _ (deb_format2 ctl role mtime) (hist ++ [(k, a)]) f = Ok g ->
    verify_file pubk sigv H vrfy tbs deser _ (deb_format2 ctl role mtime) g = Accept pubk (pub k) a
    /\ is_signed _ (deb_format2 ctl role mtime) g = true
    /\ deb_payload g = deb_payload f /\ deb_hashin ctl g = deb_hashin ctl f.
  Proof.
    intros ctl role mtime. apply (resign_history key pubk sigv H pub sign vrfy sign_correct tbs ser deser deser_ser _ (deb_format2 ctl role mtime)).
    - apply deb_law_extract2.
    - apply deb_law_hashin2.
    - apply deb_law_payload2.
  Qed.
End DEBCrypto2.

(* ================================================================== a truncated member header after well-formed members is refused *)
Lemma scan_tail2 verify chk : forall es fuel pos tail, Forall ent_good2 es -> (length es <= fuel)%nat ->
  ar_scan fuel verify chk pos (enc_all es ++ tail) =
    if chk_all2 verify chk es
    then r <- ar_scan (fuel - length es) verify chk (pos + zlen (enc_all es)) tail ;; Ok (mems2 verify pos es ++ fst r, snd r)
    else Err E_CONTROL.
Proof.
  induction es as [|e es IH]; intros fuel pos tail Hg Hf.
  - cbn [enc_all map concat app chk_all2 forallb mems2 length]. rewrite zlen_nil, Z.add_0_r, Nat.sub_0_r.
    destruct (ar_scan fuel verify chk pos tail) as [[a b]| |]; reflexivity.
  - inversion Hg as [|? ? He Hes]; subst. cbn [length] in Hf. destruct fuel as [|fuel]; [lia|].
    rewrite enc_all_cons, <- app_assoc. rewrite scan_step2 by assumption. cbn [chk_all2 forallb]. fold (chk_all2 verify chk es).
    rewrite <- negb_orb. destruct (ent_is_sig e || chk (cname_of verify e) (e_data e)); cbn [negb andb]; [|reflexivity].
    rewrite IH by (auto; lia). cbn [length Nat.sub]. destruct (chk_all2 verify chk es); cbn [bind]; [|reflexivity].
    rewrite zlen_app. replace (pos + zlen (ent_enc e) + zlen (enc_all es)) with (pos + (zlen (ent_enc e) + zlen (enc_all es))) by lia.
    destruct (ar_scan (fuel - length es) verify chk (pos + (zlen (ent_enc e) + zlen (enc_all es))) tail) as [[a b]| |]; reflexivity.
Qed.
Lemma enc_all_long es : Forall ent_good2 es -> (length es <= length (enc_all es))%nat.
Proof.
  induction 1 as [|e es He Hes IH]; [cbn; lia|]. rewrite enc_all_cons, app_length. cbn [length].
  pose proof (ent_enc_len e (proj1 He)). lia.
Qed.
(* C01: relic refuses a package whose last member header is cut short (the error of the ar reader is returned, not swallowed) *)
Theorem deb_truncated_header_refused ctl f junk : deb_wf2 ctl f = true -> 0 < zlen junk < 60 ->
  deb_hashin ctl (f ++ junk) = Err E_SHORT /\ forall role mtime b, deb_embed ctl role mtime (f ++ junk) b = Err E_SHORT.
Proof.
  intros Hw Hj. destruct (deb_wf2_form _ _ Hw) as [es W]. destruct W as [_ -> Wg _ Wc _].
  assert (deb_scan ctl (ar_spec_file es ++ junk) = Err E_SHORT) as Hs.
  { unfold deb_scan, ar_members, ar_spec_file. fold (enc_all es). rewrite <- app_assoc.
    replace (zdrop 8 (spec_ar_magic ++ enc_all es ++ junk)) with (enc_all es ++ junk) by (symmetry; apply (zdrop_app_exact spec_ar_magic)).
    rewrite scan_tail2 by (auto; pose proof (enc_all_long es Wg); rewrite !app_length; lia). rewrite Wc.
    remember (length (spec_ar_magic ++ enc_all es ++ junk) - length es)%nat as k eqn:Ek.
    destruct k as [|k].
    { exfalso. pose proof (enc_all_long es Wg). rewrite !app_length in Ek. unfold zlen in Hj. cbn [length spec_ar_magic] in Ek. lia. }
    cbn [ar_scan]. replace (zlen junk =? 0) with false by lia. replace (zlen junk <? 60) with true by lia. reflexivity. }
  split; [unfold deb_hashin; now rewrite Hs|]. intros role mtime b. unfold deb_embed. now rewrite Hs.
Qed.

(* ================================================================== witnesses *)
Definition w_name_gpgbuilder : bytes := spec_gpg ++ [98; 117; 105; 108; 100; 101; 114].                 (* "_gpgbuilder" *)
Definition w_role_builder : bytes := [98; 117; 105; 108; 100; 101; 114].
(* a package whose members were all written by GNU ar (names terminated by a slash), signed in role builder by debsigs *)
Definition w_deb_gnu : bytes :=
  spec_ar_magic ++ ar_wmember (w_name_control ++ [47]) 0 33188 [1; 2; 3] ++ ar_wmember (w_name_data ++ [47]) 0 33188 [4; 5]
  ++ ar_wmember (w_name_gpgbuilder ++ [47]) 0 33188 [9; 9; 9].
(* a dpkg-deb package with a debsigs signature appended by GNU ar *)
Definition w_deb_mixed : bytes := w_deb ++ ar_wmember (w_name_gpgbuilder ++ [47]) 0 33188 [9; 9; 9].
(* the role under BOTH spellings at once: outside the domain (logical names not pairwise different) *)
Definition w_deb_both : bytes := w_deb ++ ar_wmember (w_name_gpgbuilder ++ [47]) 0 33188 [9; 9; 9] ++ ar_wmember w_name_gpgbuilder 0 33188 [8; 8].
Theorem deb_slot_two_spellings_refuted : exists g es',
  deb_wf2 w_ctl w_deb_both = false /\ deb_embed w_ctl w_role_builder 0 w_deb_both [7] = Ok g /\ ar_spec_parse g = Some es' /\
  length (filter (lslot w_role_builder) es') = 2%nat.
Proof. eexists _, _. split; [vm_compute; reflexivity|]. split; [vm_compute; reflexivity|]. split; vm_compute; reflexivity. Qed.
(* an 11-character role: the member name has 15 characters, its System V spelling fills the 16-byte field *)
Definition w_role11 : bytes := repeat 97 11.
Definition w_deb_role11 : bytes := w_deb ++ ar_wmember (spec_gpg ++ w_role11 ++ [47]) 0 33188 [9; 9; 9].
