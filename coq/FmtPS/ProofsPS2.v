(* FmtPS/ProofsPS2.v — PowerShell, second part: the format record and the laws on the guarded embed, the instantiated
   pipeline theorems, the refusal classes, is_signed, ranges, the text conversions (UTF-8 / UTF-16), protection, and the
   witnesses that refute the unrestricted statements. *)
From Relic Require Import Base.Prelude Base.Enc Generated.FmtPS_gen FmtPS.Model FmtPS.Lib FmtPS.ProofsPS Laws.Pipeline.

(* ================================================================== the format and its laws *)
Definition ps_format (style : Z) : format bytes :=
  mkFormat bytes (ps_hashin style) (ps_embed_wf style) (ps_extract style) (ps_payload style).

Lemma embed_wf_inv style f b g : ps_embed_wf style f b = Ok g ->
  ps_dom style f = true /\ all_bytes b = true /\ ps_embed style f b = Ok g.
Proof.
  unfold ps_embed_wf. destruct (ps_dom style f); [|discriminate]. destruct (all_bytes b); [|discriminate]. cbn [andb]. auto.
Qed.

Theorem ps_law_extract style : law_extract bytes (ps_format style).
Proof.
  unfold law_extract, ps_format. cbn [f_embed f_extract]. intros f b g He.
  apply embed_wf_inv in He as [Hd [Hb He]]. eapply ps_law_extract_dom; eauto.
Qed.
Theorem ps_law_hashin style : law_hashin bytes (ps_format style).
Proof.
  unfold law_hashin, ps_format. cbn [f_embed f_hashin]. intros f b g He.
  apply embed_wf_inv in He as [Hd [Hb He]]. eapply ps_law_hashin_dom; eauto.
Qed.
Theorem ps_law_payload style : law_payload bytes (ps_format style).
Proof.
  unfold law_payload, ps_format. cbn [f_embed f_payload]. intros f b g He.
  apply embed_wf_inv in He as [Hd [Hb He]]. eapply ps_law_payload_dom; eauto.
Qed.

(* on the domain the signer succeeds *)
Lemma ps_digest_dom style f : ps_dom style f = true -> exists st en Ls s fd ssz,
  style_lookup style = Some (st, en) /\ sty_ok st en /\
  Forall (cline (ps_is16 f)) (Ls ++ [s ++ crlfW (ps_is16 f)]) /\
  Forall (fun l => l <> firstW (ps_is16 f) st en) (Ls ++ [s ++ crlfW (ps_is16 f)]) /\
  ps_digest style f = Ok (mkDig (pre_of (ps_is16 f) Ls s) (zlen (concat Ls ++ s)) ssz (ps_is16 f) fd) /\
  zlen (concat Ls ++ s) <= zlen f /\
  ((f = concat Ls ++ s /\ no10 s) \/ exists R, f = concat (Ls ++ [s ++ crlfW (ps_is16 f)]) ++ firstW (ps_is16 f) st en ++ R).
Proof.
  intros Hd. unfold ps_dom in Hd. unfold ps_digest.
  destruct (style_lookup style) as [[st en]|] eqn:Es; [|discriminate].
  pose proof (style_lookup_ok _ _ _ Es) as Hsty.
  pose proof (dom_shape (ps_is16 f) st en Hsty f Hd) as Hshape.
  destruct (dom_digest (ps_is16 f) st en Hsty f Hshape) as [Ls [s [H1 [H2 [[fd [ssz [H3 H4]]] [H5 H6]]]]]].
  unfold dig_of, firstW in H3. destruct (ps_lines (ps_is16 f) f) as [ls ok]. rewrite H3.
  exists st, en, Ls, s, fd, ssz.
  split; [reflexivity|]. split; [exact Hsty|]. split; [exact H1|]. split; [exact H2|]. split; [reflexivity|]. split; [|exact H6].
  destruct H6 as [[Hf _]|[R Hf]]; [rewrite <- Hf; lia|].
  apply (f_equal (@zlen Z)) in Hf. rewrite concat_app_single, !zlen_app in Hf. pose proof (zlen_nonneg R).
  pose proof (zlen_nonneg (firstW (ps_is16 f) st en)). pose proof (zlen_nonneg (crlfW (ps_is16 f))). rewrite zlen_app. lia.
Qed.
Theorem ps_embed_total_dom style f b : ps_dom style f = true -> all_bytes b = true -> exists g, ps_embed_wf style f b = Ok g.
Proof.
  intros Hd Hb. unfold ps_embed_wf. rewrite Hd, Hb. cbn [andb].
  destruct (ps_digest_dom _ _ Hd) as [st [en [Ls [s [fd [ssz [Es [_ [_ [_ [Hdig [Hle _]]]]]]]]]]]].
  unfold ps_embed. rewrite Es, Hdig. cbn [bind d_tsz d_ssz d_is16].
  replace (zlen f <? zlen (concat Ls ++ s)) with false by lia. eauto.
Qed.

(* ================================================================== the pipeline theorems, symbolic cryptography *)
Section PSCrypto.
  Variables key pubk sigv : Type.
  Variable H : Z -> bytes -> bytes.
  Variable pub : key -> pubk.
  Variable sign : key -> bytes -> sigv.
  Variable vrfy : pubk -> bytes -> sigv -> bool.
  Hypothesis sign_correct : forall k m, vrfy (pub k) m (sign k m) = true.
  Variable tbs : Z -> bytes -> bytes.
  Variable ser : sigblob pubk sigv -> bytes.
  Variable deser : bytes -> option (sigblob pubk sigv).
  Hypothesis deser_ser : forall b, deser (ser b) = Some b.

  Theorem ps_sign_then_verify : forall style k a f g,
    sign_file key pubk sigv H pub sign tbs ser bytes (ps_format style) k a f = Ok g ->
    verify_file pubk sigv H vrfy tbs deser bytes (ps_format style) g = Accept pubk (pub k) a.
  Proof.
    intros style. apply (sign_then_verify key pubk sigv H pub sign vrfy sign_correct tbs ser deser deser_ser bytes (ps_format style)).
    - apply ps_law_extract.
    - apply ps_law_hashin.
  Qed.
  Theorem ps_resign_history : forall style hist f g k a,
    resign key pubk sigv H pub sign tbs ser bytes (ps_format style) (hist ++ [(k, a)]) f = Ok g ->
    verify_file pubk sigv H vrfy tbs deser bytes (ps_format style) g = Accept pubk (pub k) a
    /\ is_signed bytes (ps_format style) g = true
    /\ ps_payload style g = ps_payload style f /\ ps_hashin style g = ps_hashin style f.
  Proof.
    intros style. apply (resign_history key pubk sigv H pub sign vrfy sign_correct tbs ser deser deser_ser bytes (ps_format style)).
    - apply ps_law_extract.
    - apply ps_law_hashin.
    - apply ps_law_payload.
  Qed.
End PSCrypto.

(* ================================================================== refusals *)
Lemma lshape_false_form i f ls ok : lshape i f ls ok -> ok = false ->
  i = true /\ exists pre z r, f = pre ++ 10 :: z :: r /\ z <> 0.
Proof.
  induction 1 as [l Hl|body Hi Hb|pre z r Hi Hp Hz|l r ls ok Hl Hr IH]; intros E; try discriminate.
  - split; [assumption|]. exists pre, z, r. auto.
  - destruct (IH E) as [Hi [pre [z [r' [-> Hz]]]]]. split; [assumption|]. exists (l ++ pre), z, r'. rewrite <- app_assoc. auto.
Qed.
Lemma lshape_true_nonempty i f ls ok : lshape i f ls ok -> ok = true -> ls <> [].
Proof. destruct 1; intros E; discriminate. Qed.
Lemma dig_scan_not_bad i first flen : forall ls saved pos, ls <> [] -> dig_scan i first flen true saved pos ls <> SBad.
Proof.
  induction ls as [|l ls IH]; intros saved pos Hne; [contradiction|].
  cbn [dig_scan]. destruct (ps_dig_is_first l first).
  - destruct (ps_dig_short _ _); [discriminate|]. destruct (Z.ltb _ 0); discriminate.
  - destruct ls as [|l2 ls2].
    + cbn [sprepend]. discriminate.
    + specialize (IH l (pos + zlen l) ltac:(discriminate)).
      destruct (dig_scan i first flen true l (pos + zlen l) (l2 :: ls2)); cbn [sprepend]; try discriminate. contradiction.
Qed.
Lemma dig_scan_malf i first flen ok : forall ls saved pos, dig_scan i first flen ok saved pos ls = SMalf -> begin_too_early i first saved ls.
Proof.
  induction ls as [|l ls IH]; intros saved pos E; [discriminate|].
  cbn [dig_scan] in E. unfold ps_dig_is_first in E. destruct (bytes_eqb l first) eqn:El.
  - apply bytes_eqb_eq in El. subst l. exists [], ls. split; [reflexivity|]. split; [constructor|]. cbn [List.last].
    destruct (ps_dig_short i (zlen saved)) eqn:Es.
    + unfold ps_dig_short in Es. destruct i; cbn [andb] in Es; lia.
    + destruct (Z.ltb _ 0); discriminate.
  - apply bytes_eqb_neq in El. destruct ls as [|l2 ls2].
    + destruct ok; cbn [sprepend] in E; discriminate.
    + destruct (dig_scan i first flen ok l (pos + zlen l) (l2 :: ls2)) eqn:E2; cbn [sprepend] in E; try discriminate.
      destruct (IH _ _ E2) as [Ls [rest [E3 [Hn Hs]]]]. exists (l :: Ls), rest. split; [rewrite E3; reflexivity|].
      split; [constructor; assumption|]. rewrite ProofsPS.last_cons. exact Hs.
Qed.
Lemma dig_scan_no_panic i first flen ok : forall ls saved pos, dig_scan i first flen ok saved pos ls <> SPanic.
Proof.
  induction ls as [|l ls IH]; intros saved pos; [discriminate|].
  cbn [dig_scan]. destruct (ps_dig_is_first l first).
  - destruct (ps_dig_short i (zlen saved)) eqn:Es; [discriminate|].
    replace ((if i then ps_dig_keep16 (zlen saved) else ps_dig_keep8 (zlen saved)) <? 0) with false; [discriminate|].
    unfold ps_dig_short, ps_dig_keep16, ps_dig_keep8 in *. destruct i; cbn [andb] in Es; lia.
  - destruct ls as [|l2 ls2].
    + destruct ok; cbn [sprepend]; discriminate.
    + specialize (IH l (pos + zlen l)). destruct (dig_scan i first flen ok l (pos + zlen l) (l2 :: ls2)); cbn [sprepend]; try discriminate. contradiction.
Qed.

(* hashin refuses (Err) exactly for an unknown style, in UTF-16 mode on a line feed byte followed by a non-zero byte, or when the begin line of a
   signature block comes first in the file / after a line too short to hold the line break that the signer would strip *)
Theorem ps_refuses_clean style f e : ps_hashin style f = Err e ->
  (spec_style style = None /\ e = E_STYLE) \/
  (e = E_UTF16 /\ spec_bom16 f = true /\ exists pre z r, f = pre ++ 10 :: z :: r /\ z <> 0) \/
  (e = E_MALFORMED /\ exists st en, spec_style style = Some (st, en) /\
     begin_too_early (spec_bom16 f) (ps_marker (spec_bom16 f) (ps_first_of st en)) [] (fst (ps_lines (spec_bom16 f) f))).
Proof.
  unfold ps_hashin, ps_digest. rewrite spec_style_eq. change (spec_bom16 f) with (ps_is16 f).
  destruct (style_lookup style) as [[st en]|]; [|cbn [bind]; intros E; inversion E; left; auto].
  pose proof (ps_lines_shape (ps_is16 f) f) as Hs. destruct (ps_lines (ps_is16 f) f) as [ls ok]. cbn [fst].
  destruct ok.
  - pose proof (dig_scan_not_bad (ps_is16 f) (ps_marker (ps_is16 f) (ps_first_of st en)) (zlen f) ls [] 0
                  (lshape_true_nonempty _ _ _ _ Hs eq_refl)) as Hn.
    destruct (dig_scan (ps_is16 f) (ps_marker (ps_is16 f) (ps_first_of st en)) (zlen f) true [] 0 ls) eqn:Ed; cbn [bind]; intros E; try discriminate.
    + contradiction.
    + inversion E. right. right. split; [reflexivity|]. exists st, en. split; [reflexivity|]. eapply dig_scan_malf; exact Ed.
  - destruct (lshape_false_form _ _ _ _ Hs eq_refl) as [Hi Hex]. intros E.
    destruct (dig_scan (ps_is16 f) (ps_marker (ps_is16 f) (ps_first_of st en)) (zlen f) false [] 0 ls) eqn:Ed; cbn [bind] in E; inversion E.
    + right. left. auto.
    + right. right. split; [reflexivity|]. exists st, en. split; [reflexivity|]. eapply dig_scan_malf; exact Ed.
Qed.
(* the model never panics in DigestPowershell (after relic commit 4f70e5f) *)
Theorem ps_hashin_no_panic style f p : ps_hashin style f <> Panic p.
Proof.
  unfold ps_hashin, ps_digest. destruct (style_lookup style) as [[st en]|]; [|discriminate].
  destruct (ps_lines (ps_is16 f) f) as [ls ok].
  pose proof (dig_scan_no_panic (ps_is16 f) (ps_marker (ps_is16 f) (ps_first_of st en)) (zlen f) ok ls [] 0) as Hn.
  destruct (dig_scan _ _ _ _ _ _ _); cbn [bind]; try discriminate. contradiction.
Qed.
(* the 8-bit reading never refuses a known style *)
Theorem ps_8bit_never_err style f e : spec_style style <> None -> spec_bom16 f = false -> e <> E_MALFORMED -> ps_hashin style f <> Err e.
Proof.
  intros Hs Hb Hm E. destruct (ps_refuses_clean _ _ _ E) as [[E1 _]|[[_ [E1 _]]|[E1 _]]]; congruence.
Qed.

(* embed adds one more refusal: the patch offset lies beyond the end of the file, only for a UTF-16 file ending in a lone line feed byte *)
Lemma ztake_len_le {A} n (l : list A) : zlen (ztake n l) <= zlen l.
Proof. unfold zlen, ztake. rewrite firstn_length. lia. Qed.
Lemma dig_scan_tsz i first flen ok : forall ls saved pos fd pre tsz ssz,
  dig_scan i first flen ok saved pos ls = SText fd pre tsz ssz -> tsz <= zlen saved + zlen (concat ls).
Proof.
  induction ls as [|l ls IH]; intros saved pos fd pre tsz ssz E; [discriminate|].
  cbn [dig_scan] in E. cbn [concat]. rewrite zlen_app. pose proof (zlen_nonneg l). pose proof (zlen_nonneg (concat ls)).
  destruct (ps_dig_is_first l first).
  - destruct (ps_dig_short _ _); [discriminate|]. destruct (Z.ltb _ 0); [discriminate|]. inversion E. pose proof (ztake_len_le (if i then ps_dig_keep16 (zlen saved) else ps_dig_keep8 (zlen saved)) saved). lia.
  - destruct ls as [|l2 ls2].
    + destruct ok; cbn [sprepend] in E; [|discriminate]. inversion E. cbn [concat]. rewrite zlen_nil. lia.
    + destruct (dig_scan i first flen ok l (pos + zlen l) (l2 :: ls2)) as [| | |fd' pre' tsz' ssz'] eqn:E2; cbn [sprepend] in E; try discriminate.
      inversion E. specialize (IH _ _ _ _ _ _ E2). lia.
Qed.
Lemma lshape_len i f ls ok : lshape i f ls ok -> zlen (concat ls) <= zlen f \/ (i = true /\ exists body, f = body ++ [10]).
Proof.
  induction 1 as [l Hl|body Hi Hb|pre z r Hi Hp Hz|l r ls ok Hl Hr IH].
  - left. cbn [concat]. rewrite app_nil_r. lia.
  - right. split; [assumption|]. now exists body.
  - left. cbn [concat]. rewrite zlen_nil. apply zlen_nonneg.
  - destruct IH as [IH|[Hi [body ->]]].
    + left. cbn [concat]. rewrite !zlen_app. lia.
    + right. split; [assumption|]. exists (l ++ body). now rewrite app_assoc.
Qed.
Theorem ps_embed_refuses_clean style f b e : ps_embed style f b = Err e ->
  ps_hashin style f = Err e \/ (e = E_COPY /\ spec_bom16 f = true /\ exists body, f = body ++ [10]).
Proof.
  unfold ps_embed, ps_hashin. change (spec_bom16 f) with (ps_is16 f).
  destruct (style_lookup style) as [[st en]|] eqn:Es.
  2:{ intros E. inversion E. left. unfold ps_digest. rewrite Es. reflexivity. }
  destruct (ps_digest style f) as [d| |] eqn:Ed; cbn [bind]; intros E; try (left; exact E).
  destruct (zlen f <? d_tsz d) eqn:Elt; [|discriminate]. inversion E. right. split; [reflexivity|].
  unfold ps_digest in Ed. rewrite Es in Ed.
  pose proof (ps_lines_shape (ps_is16 f) f) as Hs. destruct (ps_lines (ps_is16 f) f) as [ls ok].
  destruct (dig_scan (ps_is16 f) (ps_marker (ps_is16 f) (ps_first_of st en)) (zlen f) ok [] 0 ls) as [| | |fd pre tsz ssz] eqn:E2; try discriminate.
  inversion Ed. subst d. cbn [d_tsz] in Elt.
  pose proof (dig_scan_tsz _ _ _ _ _ _ _ _ _ _ _ E2) as Ht. rewrite zlen_nil in Ht.
  destruct (lshape_len _ _ _ _ Hs) as [Hl|[Hi Hex]]; [lia|]. split; assumption.
Qed.

(* ================================================================== is_signed against the specification reader *)
Lemma ver_found_not_none i st en first last ok : forall ls, ver_scan i st en first last ok true ls <> Ok None.
Proof.
  induction ls as [|l ls IH]; cbn [ver_scan]; [discriminate|].
  unfold ps_ver_notsigned. cbn [negb]. rewrite andb_false_r.
  destruct (match ls with [] => ok | _ :: _ => false end); [discriminate|].
  destruct (ps_ver_is_last true l last); [discriminate|].
  destruct (ps_ver_malformed _ st en); [discriminate|].
  destruct (ps_ver_overlap _ _); [discriminate|].
  destruct (Z.ltb _ _); [discriminate|].
  destruct (b64_dec _); cbn [bind]; try discriminate.
  destruct (ver_scan i st en first last ok true ls) as [[acc|]| |]; cbn [bind]; try discriminate. contradiction.
Qed.
Lemma b64_dec_q_no_panic : forall n l, (length l <= n)%nat -> forall q, b64_dec_q l <> Panic q.
Proof.
  induction n as [|n IH]; intros l Hl q.
  - destruct l; [discriminate|cbn in Hl; lia].
  - destruct l as [|c0 [|c1 [|c2 [|c3 r]]]]; try discriminate. cbn [b64_dec_q].
    destruct (b64_val c0); [|discriminate]. destruct (b64_val c1); [|discriminate].
    destruct (b64_val c2).
    + destruct (b64_val c3).
      * assert (Hr : (length r <= n)%nat) by (cbn [length] in Hl; lia).
        specialize (IH r Hr q). destruct (b64_dec_q r); cbn [bind]; try discriminate. exact IH.
      * destruct (c3 =? 61); [destruct r|]; discriminate.
    + destruct ((c2 =? 61) && (c3 =? 61)); [destruct r|]; discriminate.
Qed.
Lemma b64_dec_no_panic l q : b64_dec l = Panic q -> False.
Proof. unfold b64_dec. apply (b64_dec_q_no_panic _ _ (le_n _)). Qed.
(* VerifyPowershell never panics (after relic commit 0aded3e: overlapping comment prefix and suffix are refused) *)
Lemma ver_scan_no_panic i st en first last ok : forall ls found p, ver_scan i st en first last ok found ls <> Panic p.
Proof.
  induction ls as [|l ls IH]; intros found p; cbn [ver_scan]; [discriminate|].
  destruct (ps_ver_notsigned _ found); [discriminate|].
  destruct (match ls with [] => ok | _ :: _ => false end); [discriminate|].
  destruct (ps_ver_is_last found l last); [discriminate|].
  destruct found.
  - destruct (ps_ver_malformed _ st en); [discriminate|].
    unfold ps_ver_overlap. destruct (Z.ltb _ _) eqn:E; [discriminate|]. cbv iota.
    destruct (b64_dec _) as [d|e|q] eqn:Eb; cbn [bind]; try discriminate.
    + specialize (IH true p). destruct (ver_scan i st en first last ok true ls) as [[acc|]| |]; cbn [bind]; try discriminate.
      intros X. apply IH. exact X.
    + exfalso. eapply b64_dec_no_panic; exact Eb.
  - destruct (ps_ver_is_first l first); apply IH.
Qed.
Theorem ps_extract_no_panic style f p : ps_extract style f <> Panic p.
Proof.
  unfold ps_extract. destruct (style_lookup style) as [[st en]|]; [|discriminate].
  destruct (ps_lines (ps_is16 f) f) as [ls ok]. apply ver_scan_no_panic.
Qed.
Lemma ver_unsigned i st en first last : forall Ls s, Forall (fun l => l <> first) (Ls ++ [s]) ->
  ver_scan i st en first last true false (Ls ++ [s]) = Ok None.
Proof.
  induction Ls as [|l Ls IH]; intros s Hn.
  - reflexivity.
  - inversion Hn as [|? ? Hl Hn']; subst. cbn [app ver_scan].
    destruct (Ls ++ [s]) as [|x y] eqn:E; [destruct Ls; discriminate|]. rewrite <- E in *.
    unfold ps_ver_notsigned, ps_ver_is_last, ps_ver_is_first. cbn [andb negb].
    replace (bytes_eqb l first) with false by (symmetry; now apply bytes_eqb_neq). now apply IH.
Qed.

Theorem ps_is_signed_spec style f : ps_dom style f = true ->
  (ps_extract style f = Ok None <-> ps_spec_signed style f = false).
Proof.
  intros Hd. unfold ps_dom in Hd. destruct (style_lookup style) as [[st en]|] eqn:Es; [|discriminate].
  pose proof (style_lookup_ok _ _ _ Es) as Hsty.
  destruct (dom_shape (ps_is16 f) st en Hsty f Hd) as [Ls s H1 H2 H3 H4 H5 H6|Ls s lsR H1 H2 H3 H4 HlsR].
  - assert (ps_extract style f = Ok None) as ->.
    { unfold ps_extract. rewrite Es, H6. apply ver_unsigned. apply Forall_app. split; [exact H2|].
      constructor; [|constructor]. fold (firstW (ps_is16 f) st en). now apply first_neq_no10. }
    destruct (payload_unsigned style f st en Ls s Es Hsty H1 H2 H3 H5) as [_ ->]. tauto.
  - assert (ps_extract style f <> Ok None) as Hx.
    { unfold ps_extract. rewrite Es, H4. fold (firstW (ps_is16 f) st en). fold (lastW (ps_is16 f) st en).
      rewrite ver_skip by (auto; discriminate). rewrite ver_first by assumption. apply ver_found_not_none. }
    destruct (payload_signed style f st en Ls s (concat lsR) Es Hsty H1 H2 H3) as [_ ->].
    split; [intros E; contradiction|discriminate].
Qed.
(* ... and what the guarded signer writes is signed for both readers *)
Theorem ps_signed_after_embed style f b g : ps_embed_wf style f b = Ok g ->
  ps_spec_signed style g = true /\ ps_extract style g = Ok (Some b).
Proof.
  intros He. split; [|now apply (ps_law_extract style f b g)].
  apply embed_wf_inv in He as [Hd [Hb He]]. destruct (embed_form _ _ _ _ Hd Hb He) as [st [en [Ls [s E]]]].
  now destruct (payload_of_embedded _ _ _ _ _ _ _ _ E) as [_ [_ [H _]]].
Qed.

(* ================================================================== C03: only the tail differs *)
Theorem ps_only_these_ranges_differ style f b g st en :
  ps_embed_wf style f b = Ok g -> spec_style style = Some (st, en) ->
  exists p, ps_payload style f = Ok p /\ ztake (zlen p) f = p /\ ztake (zlen p) g = p
            /\ zdrop (zlen p) g = spec_w (spec_bom16 f) (spec_block_text st en b).
Proof.
  intros He Hs. apply embed_wf_inv in He as [Hd [Hb He]].
  destruct (embed_form _ _ _ _ Hd Hb He) as [st' [en' [Ls [s E]]]].
  destruct (payload_of_embedded _ _ _ _ _ _ _ _ E) as [H1 _]. destruct E as [Xstyle _ _ _ _ Xspec _ _ Xtake _].
  rewrite spec_style_eq, Xstyle in Hs. injection Hs as E1 E2. subst st' en'.
  exists (concat Ls ++ s). split; [exact H1|]. split; [exact Xtake|].
  change (spec_bom16 f) with (ps_is16 f). rewrite Xspec. split; [apply ztake_app_exact|apply zdrop_app_exact].
Qed.

(* ================================================================== text: []rune(string) resynchronises at a line feed *)
Lemma go_runes_n_fuel : forall n m l, (length l <= n)%nat -> (length l <= m)%nat -> go_runes_n n l = go_runes_n m l.
Proof.
  induction n as [|n IH]; intros m l Hn Hm.
  - destruct l; [|cbn in Hn; lia]. destruct m; reflexivity.
  - destruct l as [|b0 r]; [destruct m; reflexivity|]. destruct m as [|m]; [cbn in Hm; lia|].
    cbn [go_runes_n]. destruct (dec1 b0 r) as [c w]. f_equal. cbn [length] in *.
    apply IH; unfold zdrop; rewrite skipn_length; lia.
Qed.
Lemma go_runes_cons b0 r : go_runes (b0 :: r) = let '(c, w) := dec1 b0 r in c :: go_runes (zdrop (w - 1) r).
Proof.
  unfold go_runes. cbn [length go_runes_n]. destruct (dec1 b0 r) as [c w]. f_equal.
  apply go_runes_n_fuel; unfold zdrop; rewrite skipn_length; lia.
Qed.
Lemma go_runes_nil : go_runes [] = [].
Proof. reflexivity. Qed.

Lemma is_cont_10 : is_cont 10 = false.
Proof. reflexivity. Qed.
Ltac dec_fin :=
  repeat match goal with |- context [match ?l with [] => _ | _ :: _ => _ end] => destruct l end;
  repeat match goal with |- context [if ?c then _ else _] => destruct c end;
  eexists _, _; (split; [reflexivity|split; [reflexivity|
    rewrite ?zlen_cons, ?zlen_nil; try match goal with |- context [zlen ?x] => pose proof (zlen_nonneg x) end; split; lia]]).
Lemma dec1_lf b0 x r : no10 x -> exists c w,
  dec1 b0 (x ++ 10 :: r) = (c, w) /\ dec1 b0 (x ++ [10]) = (c, w) /\ 1 <= w /\ w - 1 <= zlen x.
Proof.
  intros Hx. unfold dec1.
  destruct (b0 <? 128). { exists b0, 1. pose proof (zlen_nonneg x). repeat split; lia. }
  destruct ((192 <=? b0) && (b0 <? 224)).
  { destruct x as [|b1 x]; cbn [app]; cbv beta iota; rewrite ?is_cont_10; cbn [andb]; dec_fin. }
  destruct ((224 <=? b0) && (b0 <? 240)).
  { destruct x as [|b1 [|b2 x]]; cbn [app]; cbv beta iota; rewrite ?is_cont_10, ?andb_false_r; cbn [andb]; dec_fin. }
  destruct ((240 <=? b0) && (b0 <? 248)).
  { destruct x as [|b1 [|b2 [|b3 x]]]; cbn [app]; cbv beta iota; rewrite ?is_cont_10, ?andb_false_r; cbn [andb]; dec_fin. }
  exists RUNE_ERR, 1. pose proof (zlen_nonneg x). repeat split; lia.
Qed.
Lemma go_runes_lf r : forall n body, (length body <= n)%nat -> no10 body ->
  go_runes (body ++ 10 :: r) = go_runes (body ++ [10]) ++ go_runes r.
Proof.
  induction n as [|n IH]; intros body Hn Hb.
  - destruct body; [|cbn in Hn; lia]. cbn [app]. rewrite !go_runes_cons. reflexivity.
  - destruct body as [|b0 x]; [cbn [app]; rewrite !go_runes_cons; reflexivity|].
    apply no10_cons in Hb as [Hb0 Hx]. cbn [app]. rewrite !go_runes_cons.
    destruct (dec1_lf b0 x r Hx) as [c [w [E1 [E2 [Hw1 Hw2]]]]]. rewrite E1, E2. cbn [app]. f_equal.
    rewrite !zdrop_app_l by lia. apply IH.
    + unfold zdrop. rewrite skipn_length. cbn [length] in Hn. lia.
    + now apply no10_zdrop.
Qed.
Lemma to_utf16_app_line l r : cline false l -> to_utf16 (l ++ r) = to_utf16 l ++ to_utf16 r.
Proof.
  intros [body [-> Hb]]. cbn [nl]. unfold to_utf16. rewrite <- app_assoc. cbn [app].
  rewrite (go_runes_lf r (length body) body) by (auto; lia). now rewrite !flat_map_app.
Qed.
Lemma to_utf16_concat Ls s : Forall (cline false) Ls -> to_utf16 (concat Ls ++ s) = concat (map to_utf16 Ls) ++ to_utf16 s.
Proof.
  induction 1 as [|l Ls Hl HLs IH]; [reflexivity|]. cbn [concat map]. rewrite <- !app_assoc, to_utf16_app_line by assumption. now rewrite IH.
Qed.
Lemma pre_of_conv i Ls s : Forall (cline i) Ls -> pre_of i Ls s = ps_conv i (concat Ls ++ s).
Proof.
  intros H. unfold pre_of. destruct i; cbn [ps_conv].
  - now rewrite map_id.
  - symmetry. now apply to_utf16_concat.
Qed.

(* hashin and payload of a file in the domain, together *)
Lemma dom_hash_payload style f : ps_dom style f = true -> exists p,
  ps_payload style f = Ok p /\ ps_hashin style f = Ok (ps_conv (ps_is16 f) p).
Proof.
  intros Hd. destruct (ps_digest_dom _ _ Hd) as [st [en [Ls [s [fd [ssz [Es [Hsty [H1 [H2 [Hdig [_ H6]]]]]]]]]]]].
  exists (concat Ls ++ s). split.
  - destruct H6 as [[Hf Hs]|[R Hf]].
    + destruct (payload_unsigned style f st en Ls s Es Hsty (Forall_app_l _ _ _ H1) (Forall_app_l _ _ _ H2) Hs Hf) as [E _].
      rewrite E. f_equal. exact Hf.
    + eapply payload_signed; eauto.
  - unfold ps_hashin. rewrite Hdig. cbn [bind d_pre]. f_equal. apply pre_of_conv. eapply Forall_app_l; eauto.
Qed.

(* ---- RFC 3629 round trip through Go's decoder, and RFC 2781 = utf16.Encode on scalar values *)
Lemma go_runes_enc1 c R : valid_scalar c = true -> go_runes (utf8_enc1 c ++ R) = c :: go_runes R.
Proof.
  intros Hv. unfold valid_scalar in Hv. unfold utf8_enc1.
  destruct (c <? 128) eqn:E1.
  { cbn [app]. rewrite go_runes_cons. unfold dec1. rewrite E1. reflexivity. }
  destruct (c <? 2048) eqn:E2.
  { cbn [app]. rewrite go_runes_cons. unfold dec1, is_cont.
    replace (192 + c / 64 <? 128) with false by lia.
    replace ((192 <=? 192 + c / 64) && (192 + c / 64 <? 224)) with true by lia.
    replace ((128 <=? 128 + c mod 64) && (128 + c mod 64 <=? 191)) with true by lia.
    replace ((192 + c / 64) mod 32 * 64 + (128 + c mod 64) mod 64) with c by lia.
    replace (127 <? c) with true by lia. reflexivity. }
  destruct (c <? 65536) eqn:E3.
  { cbn [app]. rewrite go_runes_cons. unfold dec1, is_cont.
    replace (224 + c / 4096 <? 128) with false by lia.
    replace ((192 <=? 224 + c / 4096) && (224 + c / 4096 <? 224)) with false by lia.
    replace ((224 <=? 224 + c / 4096) && (224 + c / 4096 <? 240)) with true by lia.
    replace ((128 <=? 128 + (c / 64) mod 64) && (128 + (c / 64) mod 64 <=? 191)) with true by lia.
    replace ((128 <=? 128 + c mod 64) && (128 + c mod 64 <=? 191)) with true by lia.
    replace ((224 + c / 4096) mod 16 * 4096 + (128 + (c / 64) mod 64) mod 64 * 64 + (128 + c mod 64) mod 64) with c by lia.
    replace (2047 <? c) with true by lia.
    replace (negb ((55296 <=? c) && (c <=? 57343))) with true by lia. reflexivity. }
  cbn [app]. rewrite go_runes_cons. unfold dec1, is_cont.
  replace (240 + c / 262144 <? 128) with false by lia.
  replace ((192 <=? 240 + c / 262144) && (240 + c / 262144 <? 224)) with false by lia.
  replace ((224 <=? 240 + c / 262144) && (240 + c / 262144 <? 240)) with false by lia.
  replace ((240 <=? 240 + c / 262144) && (240 + c / 262144 <? 248)) with true by lia.
  replace ((128 <=? 128 + (c / 4096) mod 64) && (128 + (c / 4096) mod 64 <=? 191)) with true by lia.
  replace ((128 <=? 128 + (c / 64) mod 64) && (128 + (c / 64) mod 64 <=? 191)) with true by lia.
  replace ((128 <=? 128 + c mod 64) && (128 + c mod 64 <=? 191)) with true by lia.
  replace ((240 + c / 262144) mod 8 * 262144 + (128 + (c / 4096) mod 64) mod 64 * 4096 + (128 + (c / 64) mod 64) mod 64 * 64 + (128 + c mod 64) mod 64) with c by lia.
  replace (65535 <? c) with true by lia. replace (c <=? 1114111) with true by lia. reflexivity.
Qed.
Lemma scalars_ok_forall cps : scalars_ok cps = true <-> Forall (fun c => valid_scalar c = true) cps.
Proof. unfold scalars_ok. rewrite forallb_forall, Forall_forall. tauto. Qed.
Lemma go_runes_utf8_enc cps : scalars_ok cps = true -> go_runes (utf8_enc cps) = cps.
Proof.
  intros H. apply scalars_ok_forall in H. induction H as [|c cps Hc Hr IH]; [reflexivity|].
  unfold utf8_enc. cbn [flat_map]. rewrite go_runes_enc1 by assumption. f_equal. exact IH.
Qed.
Lemma u16_units_rfc c : valid_scalar c = true -> u16_units c = rfc2781_units c.
Proof.
  unfold valid_scalar, u16_units, rfc2781_units. intros H.
  destruct (Z_lt_dec c 65536) as [E|E].
  - replace (((0 <=? c) && (c <? 55296)) || ((57344 <=? c) && (c <? 65536))) with true by lia.
    replace (c <? 65536) with true by lia. reflexivity.
  - replace (((0 <=? c) && (c <? 55296)) || ((57344 <=? c) && (c <? 65536))) with false by lia.
    replace (c <? 65536) with false by lia.
    replace ((65536 <=? c) && (c <=? 1114111)) with true by lia.
    replace (((c - 65536) / 1024) mod 1024) with ((c - 65536) / 1024) by lia. reflexivity.
Qed.
(* Go's conversion of UTF-8 text to UTF-16LE is the RFC 2781 encoding of the code points the RFC 3629 bytes stand for *)
Theorem to_utf16_spec cps : scalars_ok cps = true -> to_utf16 (utf8_enc cps) = utf16le_enc cps.
Proof.
  intros H. unfold to_utf16, utf16le_enc. rewrite go_runes_utf8_enc by assumption. f_equal.
  apply scalars_ok_forall in H. induction H as [|c cps Hc Hr IH]; [reflexivity|]. cbn [flat_map]. now rewrite IH, u16_units_rfc.
Qed.

(* C05: what relic digests is the specification's digest input: the content in front of the block — verbatim for a UTF-16LE
   file, as RFC 2781 UTF-16LE of its code points for a file that is RFC 3629 text *)
Theorem ps_hashin_eq_spec style f p : ps_dom style f = true -> ps_payload style f = Ok p ->
  (spec_bom16 f = true -> ps_hashin style f = Ok p) /\
  (spec_bom16 f = false -> forall cps, scalars_ok cps = true -> p = utf8_enc cps -> ps_hashin style f = Ok (utf16le_enc cps)).
Proof.
  intros Hd Hp. destruct (dom_hash_payload _ _ Hd) as [p' [Hp' Hh]]. rewrite Hp in Hp'. injection Hp' as <-.
  change (spec_bom16 f) with (ps_is16 f). split; intros Hb; rewrite Hb in Hh; cbn [ps_conv] in Hh.
  - exact Hh.
  - intros cps Hc ->. rewrite Hh. f_equal. now apply to_utf16_spec.
Qed.

(* ================================================================== C02: what equal digest inputs protect *)
Lemma units_of_le16 us : Forall (fun u => 0 <= u < 65536) us -> units_of (flat_map le16 us) = us.
Proof.
  induction 1 as [|u us Hu Hr IH]; [reflexivity|]. cbn [flat_map le16 app units_of]. rewrite IH. f_equal. lia.
Qed.
Lemma u16_units_range c : valid_scalar c = true -> Forall (fun u => 0 <= u < 65536) (u16_units c).
Proof.
  unfold valid_scalar, u16_units. intros H.
  destruct (((0 <=? c) && (c <? 55296)) || ((57344 <=? c) && (c <? 65536))) eqn:E; [constructor; [lia|constructor]|].
  replace ((65536 <=? c) && (c <=? 1114111)) with true by lia. constructor; [lia|constructor; [lia|constructor]].
Qed.
Lemma u16_decode_units rs : Forall (fun c => valid_scalar c = true) rs -> u16_decode (flat_map u16_units rs) = rs.
Proof.
  induction 1 as [|c rs Hc Hr IH]; [reflexivity|]. cbn [flat_map]. unfold valid_scalar in Hc. unfold u16_units at 1.
  destruct (((0 <=? c) && (c <? 55296)) || ((57344 <=? c) && (c <? 65536))) eqn:E.
  - cbn [app u16_decode]. replace ((c <? 55296) || (57344 <=? c)) with true by lia. now rewrite IH.
  - replace ((65536 <=? c) && (c <=? 1114111)) with true by lia. cbn [app u16_decode].
    set (hi := 55296 + ((c - 65536) / 1024) mod 1024). set (lo := 56320 + (c - 65536) mod 1024).
    replace ((hi <? 55296) || (57344 <=? hi)) with false by (unfold hi; lia).
    replace (hi <? 56320) with true by (unfold hi; lia).
    replace ((56320 <=? lo) && (lo <? 57344)) with true by (unfold lo; lia).
    rewrite IH. f_equal. unfold hi, lo. lia.
Qed.
Lemma units_range_flat rs : Forall (fun c => valid_scalar c = true) rs -> Forall (fun u => 0 <= u < 65536) (flat_map u16_units rs).
Proof. induction 1 as [|c rs Hc Hr IH]; [constructor|]. cbn [flat_map]. apply Forall_app. split; [now apply u16_units_range|exact IH]. Qed.

Lemma dec1_valid b0 r : 0 <= b0 -> valid_scalar (fst (dec1 b0 r)) = true /\ 1 <= snd (dec1 b0 r).
Proof.
  intros Hb. unfold dec1, valid_scalar, RUNE_ERR.
  destruct (b0 <? 128) eqn:E0; [cbn [fst snd]; split; lia|].
  destruct ((192 <=? b0) && (b0 <? 224)) eqn:E1.
  { destruct r as [|b1 r]; [cbn [fst snd]; split; lia|].
    destruct (is_cont b1 && (127 <? b0 mod 32 * 64 + b1 mod 64)) eqn:E; cbn [fst snd]; split; lia. }
  destruct ((224 <=? b0) && (b0 <? 240)) eqn:E2.
  { destruct r as [|b1 [|b2 r]]; try (cbn [fst snd]; split; lia).
    match goal with |- context [if ?c then _ else _] => destruct c eqn:E end; cbn [fst snd]; split; lia. }
  destruct ((240 <=? b0) && (b0 <? 248)) eqn:E3.
  { destruct r as [|b1 [|b2 [|b3 r]]]; try (cbn [fst snd]; split; lia).
    match goal with |- context [if ?c then _ else _] => destruct c eqn:E end; cbn [fst snd]; split; lia. }
  cbn [fst snd]; split; lia.
Qed.
Lemma go_runes_n_valid : forall n l, all_bytes l = true -> Forall (fun c => valid_scalar c = true) (go_runes_n n l).
Proof.
  induction n as [|n IH]; intros l Hl; [constructor|]. destruct l as [|b0 r]; [constructor|].
  cbn [go_runes_n]. apply all_bytes_forall in Hl. inversion Hl as [|? ? Hb Hr]; subst.
  pose proof (dec1_valid b0 r ltac:(lia)) as [Hv _]. destruct (dec1 b0 r) as [c w]. cbn [fst] in Hv.
  constructor; [exact Hv|]. apply IH. apply all_bytes_forall. unfold zdrop. now apply Forall_skipn_.
Qed.
Lemma to_utf16_inj a b : all_bytes a = true -> all_bytes b = true -> to_utf16 a = to_utf16 b -> go_runes a = go_runes b.
Proof.
  intros Ha Hb E. unfold to_utf16 in E.
  pose proof (go_runes_n_valid (length a) a Ha) as Va. pose proof (go_runes_n_valid (length b) b Hb) as Vb.
  fold (go_runes a) in Va. fold (go_runes b) in Vb.
  apply (f_equal units_of) in E. rewrite !units_of_le16 in E by (now apply units_range_flat).
  apply (f_equal u16_decode) in E. now rewrite !u16_decode_units in E.
Qed.
Lemma utf8_enc_inj_runes c1 c2 : scalars_ok c1 = true -> scalars_ok c2 = true ->
  go_runes (utf8_enc c1) = go_runes (utf8_enc c2) -> c1 = c2.
Proof. intros H1 H2. now rewrite !go_runes_utf8_enc. Qed.

Lemma all_bytes_ztake n l : all_bytes l = true -> all_bytes (ztake n l) = true.
Proof. intros H. apply all_bytes_forall. apply all_bytes_forall in H. unfold ztake. now apply Forall_firstn_. Qed.
Lemma payload_bytes style f p : all_bytes f = true -> ps_payload style f = Ok p -> all_bytes p = true.
Proof.
  unfold ps_payload. destruct (spec_style style) as [[st en]|]; [|discriminate].
  destruct (find_sub _ f 0); intros H E; inversion E; subst; [now apply all_bytes_ztake|exact H].
Qed.

(* two files of the domain in the same encoding with equal digest input have the same content in front of the block:
   byte for byte when UTF-16LE; as sequences of code points (Go's reading: an invalid byte is U+FFFD) when 8-bit, hence
   byte for byte when both contents are RFC 3629 text *)
Theorem ps_protect style g1 g2 p1 p2 :
  ps_dom style g1 = true -> ps_dom style g2 = true -> all_bytes g1 = true -> all_bytes g2 = true ->
  spec_bom16 g1 = spec_bom16 g2 -> ps_hashin style g1 = ps_hashin style g2 ->
  ps_payload style g1 = Ok p1 -> ps_payload style g2 = Ok p2 ->
  (spec_bom16 g1 = true -> p1 = p2) /\
  (spec_bom16 g1 = false -> go_runes p1 = go_runes p2 /\
     forall c1 c2, scalars_ok c1 = true -> scalars_ok c2 = true -> p1 = utf8_enc c1 -> p2 = utf8_enc c2 -> p1 = p2).
Proof.
  intros D1 D2 B1 B2 Hb Hh P1 P2.
  destruct (dom_hash_payload _ _ D1) as [q1 [Q1 H1]]. destruct (dom_hash_payload _ _ D2) as [q2 [Q2 H2]].
  rewrite P1 in Q1. rewrite P2 in Q2. injection Q1 as <-. injection Q2 as <-.
  change (spec_bom16 g1) with (ps_is16 g1) in *. change (spec_bom16 g2) with (ps_is16 g2) in *.
  rewrite H1, H2, <- Hb in Hh. injection Hh as Hh.
  split; intros E; rewrite E in Hh; cbn [ps_conv] in Hh; [exact Hh|].
  assert (go_runes p1 = go_runes p2) as Hr by (apply to_utf16_inj; eauto using payload_bytes).
  split; [exact Hr|]. intros c1 c2 S1 S2 -> ->. f_equal. now apply utf8_enc_inj_runes.
Qed.

(* ================================================================== witnesses: where the unrestricted statements fail *)
Definition w_hash_begin : bytes := ps_first_of [35; 32] [].      (* "# SIG # Begin signature block" CR LF *)
Definition w_hash_end : bytes := ps_last_of [35; 32] [].         (* "# SIG # End signature block" CR LF *)
Definition w_block1 : bytes := w_hash_begin ++ [35; 32; 65; 81; 61; 61; 13; 10] ++ w_hash_end.   (* block holding the blob [1]: "# AQ==" *)

(* W1 (C01) the last line of an unsigned script is the begin-marker text without line end: signing succeeds, the result
   is not verifiable (the verifier takes the old text line followed by the new CR LF as the begin line) and its digest differs *)
Definition w_marker_last : bytes := [120; 13; 10] ++ [35; 32] ++ ps_begin.
Theorem ps_law_extract_refuted : exists g,
  ps_embed 1 w_marker_last [1] = Ok g /\ ps_extract 1 g = Err E_B64 /\ ps_hashin 1 g <> ps_hashin 1 w_marker_last.
Proof. eexists. split; [vm_compute; reflexivity|]. split; [vm_compute; reflexivity|vm_compute; discriminate]. Qed.

(* W2 (C03) an existing block preceded by LF instead of CR LF: the signer strips two bytes, the last character of the script is lost *)
Definition w_foreign_lf : bytes := [97; 98; 10] ++ w_block1.
Theorem ps_law_payload_refuted : exists g,
  ps_embed 1 w_foreign_lf [1] = Ok g /\ ps_payload 1 w_foreign_lf = Ok w_foreign_lf /\ ps_payload 1 g = Ok [97]
  /\ ps_extract 1 g = Ok (Some [1]) /\ ztake 2 g <> ztake 2 w_foreign_lf.
Proof. eexists. split; [vm_compute; reflexivity|]. repeat split; try (vm_compute; reflexivity). vm_compute. discriminate. Qed.

(* W3 (C02) text after the end line is neither digested nor looked at by the verifier *)
Definition w_signed : bytes := [97; 13; 10] ++ w_block1.
Theorem ps_protect_trailing_refuted : let g2 := w_signed ++ [101; 118; 105; 108] in
  ps_hashin 1 g2 = ps_hashin 1 w_signed /\ ps_extract 1 g2 = ps_extract 1 w_signed /\ ps_extract 1 w_signed = Ok (Some [1])
  /\ ps_dom 1 g2 = true /\ ps_dom 1 w_signed = true.
Proof. vm_compute. repeat split; reflexivity. Qed.

(* W4 (C02) the byte in front of the LF that precedes the begin line is dropped unseen *)
Theorem ps_protect_separator_refuted : let g2 := [97; 88; 10] ++ w_block1 in
  ps_hashin 1 g2 = ps_hashin 1 w_signed /\ ps_extract 1 g2 = ps_extract 1 w_signed /\ ps_extract 1 w_signed = Ok (Some [1])
  /\ ps_payload 1 g2 = Ok g2 /\ ps_payload 1 w_signed = Ok [97].
Proof. vm_compute. repeat split; reflexivity. Qed.

(* W5 (C01) the begin marker as first line, or after a line shorter than the two bytes the signer strips: refused with
   "malformed powershell signature" (an index-out-of-range panic before relic commit 4f70e5f) although the verifier finds a block *)
Theorem ps_begin_first_refused :
  ps_hashin 1 w_block1 = Err E_MALFORMED /\ ps_embed 1 w_block1 [1] = Err E_MALFORMED /\ ps_hashin 1 (10 :: w_block1) = Err E_MALFORMED
  /\ ps_extract 1 w_block1 = Ok (Some [1]).
Proof. vm_compute. repeat split; reflexivity. Qed.

(* W6 (C01) a UTF-16LE script containing a code unit whose low byte is 0x0A (here U+010A) is refused as "malformed utf16";
   W7 a UTF-16 file ending in a lone line feed byte is digested but cannot be patched *)
Theorem ps_utf16_refused_refuted :
  ps_hashin 1 [255; 254; 10; 1] = Err E_UTF16 /\
  ps_hashin 1 [255; 254; 97; 0; 10] = Ok [255; 254; 97; 0; 10; 0] /\ ps_embed 1 [255; 254; 97; 0; 10] [1] = Err E_COPY.
Proof. vm_compute. repeat split; reflexivity. Qed.

(* ================================================================== the domain is closed under signing *)
Lemma dom_scan_found first crlf ok : forall PL saved rest, Forall (fun l => l <> first) PL ->
  dom_scan first crlf ok saved (PL ++ first :: rest) = has_suffix (List.last PL saved) crlf.
Proof.
  induction PL as [|l PL IH]; intros saved rest H.
  - cbn [app dom_scan List.last]. now rewrite bytes_eqb_refl.
  - inversion H as [|? ? Hl H']; subst. cbn [app dom_scan].
    replace (bytes_eqb l first) with false by (symmetry; now apply bytes_eqb_neq).
    destruct (PL ++ first :: rest) as [|x y] eqn:E; [destruct PL; discriminate|]. rewrite <- E.
    rewrite IH by assumption. now rewrite last_cons.
Qed.
Theorem ps_dom_preserved style f b g : ps_embed_wf style f b = Ok g -> ps_dom style g = true.
Proof.
  intros He. apply embed_wf_inv in He as [Hd [Hb He]].
  destruct (embed_form _ _ _ _ Hd Hb He) as [st [en [Ls [s E]]]]. destruct E as [Xstyle Xsty Xcl Xnf Xg _ Xis _ _ _].
  unfold ps_dom. rewrite Xstyle, Xis.
  pose proof (signed_lines (ps_is16 f) st en (Ls ++ [s ++ crlfW (ps_is16 f)]) b Xsty Xcl Hb) as Hl. cbv zeta in Hl. rewrite <- Xg in Hl.
  rewrite Hl. fold (firstW (ps_is16 f) st en). fold (crlfW (ps_is16 f)).
  rewrite dom_scan_found by assumption. rewrite last_last, has_suffix_app. cbn [andb]. apply Z.eqb_eq. f_equal.
  rewrite (concat_app (Ls ++ [s ++ crlfW (ps_is16 f)])). cbn [concat].
  rewrite (concat_app (map (wline (ps_is16 f) st en) (chunks64 (b64_enc b)))). cbn [concat]. rewrite !app_nil_r. symmetry. exact Xg.
Qed.
