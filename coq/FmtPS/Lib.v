(* FmtPS/Lib.v — lemmas about the library-level functions of FmtPS/Model.v: prefixes and slices, the text encoders,
   base64, decimal formatting and parsing. *)
From Relic Require Import Base.Prelude Base.Enc Generated.FmtPS_gen FmtPS.Model.

(* ------------------------------------------------------------------ lists, prefixes, slices *)
Lemma bytes_eqb_eq a b : bytes_eqb a b = true <-> a = b.
Proof. apply list_eqb_Z_eq. Qed.
Lemma bytes_eqb_refl a : bytes_eqb a a = true.
Proof. apply bytes_eqb_eq. reflexivity. Qed.
Lemma bytes_eqb_neq a b : bytes_eqb a b = false <-> a <> b.
Proof.
  split; intros H.
  - intros E. apply bytes_eqb_eq in E. congruence.
  - destruct (bytes_eqb a b) eqn:E; [|reflexivity]. apply bytes_eqb_eq in E. contradiction.
Qed.

Lemma has_prefix_app l r : has_prefix (l ++ r) l = true.
Proof. induction l as [|x l IH]; cbn; [reflexivity|]. now rewrite Z.eqb_refl, IH. Qed.
Lemma has_prefix_spec l p : has_prefix l p = true <-> exists r, l = p ++ r.
Proof.
  revert l; induction p as [|x p IH]; intros l; cbn.
  - split; [intros _; now exists l|reflexivity].
  - destruct l as [|y l]; [split; [discriminate|intros [r H]; discriminate]|].
    rewrite andb_true_iff, Z.eqb_eq, IH. split.
    + intros [-> [r ->]]. now exists r.
    + intros [r H]. inversion H; subst. split; [reflexivity|now exists r].
Qed.
Lemma has_prefix_nil l : has_prefix l [] = true.
Proof. destruct l; reflexivity. Qed.
Lemma has_suffix_app l r : has_suffix (l ++ r) r = true.
Proof. unfold has_suffix. rewrite rev_app_distr. apply has_prefix_app. Qed.
Lemma has_suffix_spec l s : has_suffix l s = true <-> exists a, l = a ++ s.
Proof.
  unfold has_suffix. rewrite has_prefix_spec. split; intros [r H].
  - exists (rev r). apply (f_equal (@rev Z)) in H. rewrite rev_involutive, rev_app_distr, rev_involutive in H. exact H.
  - exists (rev r). rewrite H, rev_app_distr. reflexivity.
Qed.

Lemma zlen_map {A B} (f : A -> B) l : zlen (map f l) = zlen l.
Proof. unfold zlen. now rewrite map_length. Qed.
Lemma zlen_rev {A} (l : list A) : zlen (rev l) = zlen l.
Proof. unfold zlen. now rewrite rev_length. Qed.
Lemma zlen_repeat {A} (x : A) n : zlen (repeat x n) = Z.of_nat n.
Proof. unfold zlen. now rewrite repeat_length. Qed.
Lemma zlen_0_nil {A} (l : list A) : zlen l = 0 -> l = [].
Proof. destruct l; [reflexivity|]. rewrite zlen_cons. pose proof (zlen_nonneg l). lia. Qed.

Lemma ztake_app_exact {A} (a b : list A) : ztake (zlen a) (a ++ b) = a.
Proof. rewrite ztake_app_l by lia. apply ztake_all. lia. Qed.
Lemma zdrop_app_exact {A} (a b : list A) : zdrop (zlen a) (a ++ b) = b.
Proof. rewrite zdrop_app_r by lia. now rewrite Z.sub_diag. Qed.
Lemma ztake_0 {A} (l : list A) : ztake 0 l = [].
Proof. reflexivity. Qed.
Lemma zslice_app_mid {A} (a b c : list A) : zslice (zlen a) (zlen a + zlen b) (a ++ b ++ c) = b.
Proof. unfold zslice. rewrite zdrop_app_exact. replace (zlen a + zlen b - zlen a) with (zlen b) by lia. apply ztake_app_exact. Qed.
Lemma zdrop_beyond {A} n (l : list A) : zlen l <= n -> zdrop n l = [].
Proof. apply zdrop_all. Qed.

Lemma Forall_app_iff {A} (P : A -> Prop) a b : Forall P (a ++ b) <-> Forall P a /\ Forall P b.
Proof. apply Forall_app. Qed.
Lemma concat_app_single {A} (ls : list (list A)) l : concat (ls ++ [l]) = concat ls ++ l.
Proof. rewrite concat_app. cbn. now rewrite app_nil_r. Qed.

Lemma flat_map_app_distr {A B} (f : A -> list B) a b : flat_map f (a ++ b) = flat_map f a ++ flat_map f b.
Proof. apply flat_map_app. Qed.

(* no occurrence of a value *)
Definition no10 (l : bytes) : Prop := ~ In 10 l.
Lemma no10_app a b : no10 (a ++ b) <-> no10 a /\ no10 b.
Proof. unfold no10. rewrite in_app_iff. tauto. Qed.
Lemma no10_cons x l : no10 (x :: l) <-> x <> 10 /\ no10 l.
Proof. unfold no10. cbn. split; [intros H; split; [intros E; apply H; left; congruence|tauto]|intros [H1 H2] [E|E]; [congruence|tauto]]. Qed.
Lemma no10_nil : no10 [].
Proof. intros []. Qed.

(* ------------------------------------------------------------------ ASCII text through the UTF conversions *)
Definition ascii (l : bytes) : Prop := Forall (fun c => 0 <= c < 128) l.
Lemma ascii_app a b : ascii (a ++ b) <-> ascii a /\ ascii b.
Proof. apply Forall_app. Qed.

Lemma go_runes_n_ascii n l : ascii l -> (length l <= n)%nat -> go_runes_n n l = l.
Proof.
  revert l; induction n as [|n IH]; intros l Ha Hn.
  - destruct l; [reflexivity|cbn in Hn; lia].
  - destruct l as [|c r]; [reflexivity|]. inversion Ha as [|? ? Hc Hr]; subst.
    cbn [go_runes_n]. unfold dec1. replace (c <? 128) with true by lia.
    replace (zdrop (1 - 1) r) with r by reflexivity. f_equal. apply IH; [assumption|cbn in Hn; lia].
Qed.
Lemma go_runes_ascii l : ascii l -> go_runes l = l.
Proof. intros H. apply go_runes_n_ascii; [assumption|lia]. Qed.
Lemma widen_app a b : widen (a ++ b) = widen a ++ widen b.
Proof. apply flat_map_app. Qed.
Lemma u16_units_ascii l : ascii l -> flat_map u16_units l = l.
Proof.
  induction 1 as [|c r Hc Hr IH]; [reflexivity|]. cbn [flat_map]. rewrite IH. unfold u16_units.
  replace (((0 <=? c) && (c <? 55296)) || ((57344 <=? c) && (c <? 65536))) with true by lia. reflexivity.
Qed.
Lemma le16_ascii l : ascii l -> flat_map le16 l = widen l.
Proof.
  induction 1 as [|c r Hc Hr IH]; [reflexivity|]. unfold widen. cbn [flat_map]. fold (widen r). rewrite IH. unfold le16.
  replace (c mod 256) with c by lia. replace (c / 256) with 0 by lia. reflexivity.
Qed.
Lemma to_utf16_ascii l : ascii l -> to_utf16 l = widen l.
Proof. intros H. unfold to_utf16. rewrite go_runes_ascii, u16_units_ascii by assumption. now apply le16_ascii. Qed.
Lemma units_of_widen l : units_of (widen l) = l.
Proof. induction l as [|c r IH]; [reflexivity|]. unfold widen. cbn [flat_map app units_of]. fold (widen r). rewrite IH. f_equal. lia. Qed.
Lemma u16_decode_ascii l : ascii l -> u16_decode l = l.
Proof.
  induction 1 as [|c r Hc Hr IH]; [reflexivity|]. cbn [u16_decode].
  replace ((c <? 55296) || (57344 <=? c)) with true by lia. now rewrite IH.
Qed.
Lemma go_utf8_ascii l : ascii l -> flat_map go_utf8_enc1 l = l.
Proof.
  induction 1 as [|c r Hc Hr IH]; [reflexivity|]. cbn [flat_map]. rewrite IH. unfold go_utf8_enc1, valid_scalar, utf8_enc1.
  replace (((0 <=? c) && (c <? 55296)) || ((57344 <=? c) && (c <=? 1114111))) with true by lia.
  replace (c <? 128) with true by lia. reflexivity.
Qed.
Lemma from_utf16_widen l : ascii l -> from_utf16 (widen l) = l.
Proof. intros H. unfold from_utf16. rewrite units_of_widen, u16_decode_ascii by assumption. now apply go_utf8_ascii. Qed.
Lemma zlen_widen l : zlen (widen l) = 2 * zlen l.
Proof. induction l as [|c r IH]; [reflexivity|]. cbn [widen flat_map app]. rewrite !zlen_cons. fold (widen r). lia. Qed.
Lemma widen_inj a b : widen a = widen b -> a = b.
Proof.
  revert b; induction a as [|x a IH]; intros [|y b] H; cbn in H; try discriminate; [reflexivity|].
  inversion H. f_equal. now apply IH.
Qed.
Lemma no10_widen l : no10 l -> no10 (widen l).
Proof.
  induction l as [|c r IH]; intros H; [exact H|]. apply no10_cons in H as [Hc Hr].
  cbn [widen flat_map app]. apply no10_cons. split; [assumption|]. apply no10_cons. split; [lia|]. now apply IH.
Qed.

(* ------------------------------------------------------------------ base64 *)
Lemma b64_val_char v : 0 <= v < 64 -> b64_val (b64_char v) = Some v.
Proof.
  intros H. unfold b64_char, b64_val.
  destruct (v <? 26) eqn:E1.
  { replace ((65 <=? 65 + v) && (65 + v <=? 90)) with true by lia. f_equal. lia. }
  destruct (v <? 52) eqn:E2.
  { replace ((65 <=? 71 + v) && (71 + v <=? 90)) with false by lia.
    replace ((97 <=? 71 + v) && (71 + v <=? 122)) with true by lia. f_equal. lia. }
  destruct (v <? 62) eqn:E3.
  { replace ((65 <=? v - 4) && (v - 4 <=? 90)) with false by lia.
    replace ((97 <=? v - 4) && (v - 4 <=? 122)) with false by lia.
    replace ((48 <=? v - 4) && (v - 4 <=? 57)) with true by lia. f_equal. lia. }
  destruct (v =? 62) eqn:E4; cbn; f_equal; lia.
Qed.
Definition b64_alpha (c : Z) : Prop := (65 <= c <= 90) \/ (97 <= c <= 122) \/ (48 <= c <= 57) \/ c = 43 \/ c = 47.
Lemma b64_char_alpha v : 0 <= v < 64 -> b64_alpha (b64_char v).
Proof.
  intros H. unfold b64_char, b64_alpha.
  destruct (v <? 26) eqn:E1; [lia|]. destruct (v <? 52) eqn:E2; [lia|]. destruct (v <? 62) eqn:E3; [lia|].
  destruct (v =? 62); lia.
Qed.
Definition b64_text (l : bytes) : Prop := Forall (fun c => b64_alpha c \/ c = 61) l.

(* induction three elements at a time *)
Lemma list_ind3 {A} (P : list A -> Prop) :
  P [] -> (forall a, P [a]) -> (forall a b, P [a; b]) -> (forall a b c r, P r -> P (a :: b :: c :: r)) -> forall l, P l.
Proof.
  intros H0 H1 H2 H3.
  assert (forall n l, (length l <= n)%nat -> P l) as G.
  { induction n as [|n IH]; intros l Hl.
    - destruct l; [exact H0|cbn in Hl; lia].
    - destruct l as [|a [|b [|c r]]]; auto. apply H3. apply IH. cbn in Hl. lia. }
  intros l. apply (G (length l)). lia.
Qed.

Lemma byte_parts a : 0 <= a < 256 -> 0 <= a / 4 < 64 /\ 0 <= a mod 4 < 4 /\ 0 <= a / 16 < 16 /\ 0 <= a mod 16 < 16 /\ 0 <= a / 64 < 4 /\ 0 <= a mod 64 < 64.
Proof. intros H. repeat split; lia. Qed.

Ltac b64t := unfold b64_text;
  repeat first [apply Forall_nil | apply Forall_cons; [first [left; apply b64_char_alpha; lia | right; reflexivity]|]].
Lemma b64_enc_text l : all_bytes l = true -> b64_text (b64_enc l).
Proof.
  induction l as [| a | a b | a b c r IH] using list_ind3; intros H.
  - constructor.
  - apply all_bytes_forall in H. inversion H as [|? ? Ha _]; subst. cbn [b64_enc]. b64t.
  - apply all_bytes_forall in H. inversion H as [|? ? Ha H']; subst. inversion H' as [|? ? Hb _]; subst. cbn [b64_enc]. b64t.
  - apply all_bytes_forall in H. inversion H as [|? ? Ha H']; subst. inversion H' as [|? ? Hb H'']; subst.
    inversion H'' as [|? ? Hc Hr]; subst. cbn [b64_enc].
    b64t. apply IH. apply all_bytes_forall. exact Hr.
Qed.
Lemma b64_alpha_not_crlf c : b64_alpha c \/ c = 61 -> not_crlf c = true.
Proof. unfold b64_alpha, not_crlf. intros H. lia. Qed.
Lemma b64_text_filter l : b64_text l -> filter not_crlf l = l.
Proof.
  induction 1 as [|c r Hc Hr IH]; [reflexivity|]. cbn [filter]. rewrite (b64_alpha_not_crlf _ Hc). now f_equal.
Qed.
Lemma b64_text_no10 l : b64_text l -> no10 l.
Proof. induction 1 as [|c r Hc Hr IH]; [apply no10_nil|]. apply no10_cons. split; [unfold b64_alpha in Hc; lia|exact IH]. Qed.
Lemma b64_text_ascii l : b64_text l -> ascii l.
Proof. unfold b64_text, ascii. apply Forall_impl. unfold b64_alpha. intros c H. lia. Qed.
Lemma b64_text_app a b : b64_text (a ++ b) <-> b64_text a /\ b64_text b.
Proof. apply Forall_app. Qed.

Lemma b64_dec_q_enc l : all_bytes l = true -> b64_dec_q (b64_enc l) = Ok l.
Proof.
  induction l as [| a | a b | a b c r IH] using list_ind3; intros H.
  - reflexivity.
  - apply all_bytes_forall in H. inversion H as [|? ? Ha _]; subst. cbn [b64_enc b64_dec_q].
    rewrite !b64_val_char by lia. cbn. f_equal. f_equal. lia.
  - apply all_bytes_forall in H. inversion H as [|? ? Ha H']; subst. inversion H' as [|? ? Hb _]; subst.
    cbn [b64_enc b64_dec_q]. rewrite !b64_val_char by lia. cbn. f_equal. f_equal; [lia|f_equal; lia].
  - apply all_bytes_forall in H. inversion H as [|? ? Ha H']; subst. inversion H' as [|? ? Hb H'']; subst.
    inversion H'' as [|? ? Hc Hr]; subst. cbn [b64_enc b64_dec_q].
    rewrite !b64_val_char by lia. rewrite IH by (apply all_bytes_forall; exact Hr). cbn [bind].
    f_equal. f_equal; [lia|]. f_equal; [lia|]. f_equal. lia.
Qed.
Lemma b64_dec_enc l : all_bytes l = true -> b64_dec (b64_enc l) = Ok l.
Proof. intros H. unfold b64_dec. rewrite b64_text_filter by (now apply b64_enc_text). now apply b64_dec_q_enc. Qed.

Lemma b64_enc_length l : length (b64_enc l) = (4 * ((length l + 2) / 3))%nat.
Proof.
  induction l as [| a | a b | a b c r IH] using list_ind3; try reflexivity.
  cbn [b64_enc length]. rewrite IH.
  replace (S (S (S (length r))) + 2)%nat with (length r + 2 + 1 * 3)%nat by lia.
  rewrite Nat.div_add by lia. lia.
Qed.
(* 48 input bytes <-> 64 output characters *)
Lemma b64_enc_app3 a l : (length a mod 3 = 0)%nat -> b64_enc (a ++ l) = b64_enc a ++ b64_enc l.
Proof.
  induction a as [| x | x y | x y z r IH] using list_ind3; intros H.
  - reflexivity.
  - cbn in H. discriminate.
  - cbn in H. discriminate.
  - cbn [app b64_enc]. rewrite IH; [reflexivity|]. cbn [length] in H.
    replace (S (S (S (length r)))) with (length r + 1 * 3)%nat in H by lia. now rewrite Nat.mod_add in H by lia.
Qed.
Lemma b64_firstn l : (48 <= length l)%nat -> firstn 64 (b64_enc l) = b64_enc (firstn 48 l) /\ skipn 64 (b64_enc l) = b64_enc (skipn 48 l).
Proof.
  intros H. rewrite <- (firstn_skipn 48 l) at 1 3.
  assert (length (firstn 48 l) = 48%nat) as L by (rewrite firstn_length; lia).
  rewrite b64_enc_app3 by (rewrite L; reflexivity).
  assert (length (b64_enc (firstn 48 l)) = 64%nat) as L2 by (rewrite b64_enc_length, L; reflexivity).
  set (A := b64_enc (firstn 48 l)) in *. set (B := b64_enc (skipn 48 l)).
  split.
  - rewrite firstn_app, L2, Nat.sub_diag, firstn_O, app_nil_r. apply firstn_all2. lia.
  - rewrite skipn_app, L2, Nat.sub_diag, skipn_O, skipn_all2 by lia. reflexivity.
Qed.
Lemma b64_short l : (length l < 48)%nat -> (length (b64_enc l) <= 64)%nat.
Proof.
  intros H. rewrite b64_enc_length.
  assert ((length l + 2) / 3 < 17)%nat; [|lia].
  apply Nat.div_lt_upper_bound; lia.
Qed.
Lemma b64_enc_nil_iff l : b64_enc l = [] <-> l = [].
Proof.
  split; [|intros ->; reflexivity]. destruct l as [|a [|b [|c r]]]; cbn; intros H; try discriminate; reflexivity.
Qed.

(* ------------------------------------------------------------------ decimal / octal digits *)
Lemma digits_le_value n base z :
  1 < base <= 10 -> 0 <= z < base ^ Z.of_nat n ->
  fold_right (fun d acc => acc * base + (d - 48)) 0 (digits_le n base z) = z.
Proof.
  intros Hb. revert z; induction n as [|n IH]; intros z Hz.
  - change (Z.of_nat 0) with 0 in Hz. rewrite Z.pow_0_r in Hz. cbn [digits_le fold_right]. lia.
  - cbn [digits_le fold_right]. destruct (z <? base) eqn:E.
    + cbn [fold_right]. rewrite Z.mod_small by lia. lia.
    + rewrite IH.
      * pose proof (Z.div_mod z base). lia.
      * rewrite Nat2Z.inj_succ, Z.pow_succ_r in Hz by lia. split; [apply Z.div_pos; lia|apply Z.div_lt_upper_bound; lia].
Qed.
Lemma digits_le_digits n base z : 1 < base <= 10 -> 0 <= z -> Forall (fun c => 48 <= c <= 57) (digits_le n base z).
Proof.
  intros Hb. revert z; induction n as [|n IH]; intros z Hz; [constructor|].
  cbn [digits_le]. constructor; [pose proof (Z.mod_pos_bound z base); lia|].
  destruct (z <? base); [constructor|]. apply IH. apply Z.div_pos; lia.
Qed.
Lemma digits_le_length n base z k :
  1 < base -> 0 <= z < base ^ Z.of_nat k -> (1 <= k)%nat -> (length (digits_le n base z) <= k)%nat.
Proof.
  intros Hb. revert z k; induction n as [|n IH]; intros z k Hz Hk; [cbn; lia|].
  cbn [digits_le length]. destruct (z <? base) eqn:E; [cbn; lia|].
  destruct k as [|k]; [lia|]. destruct k as [|k].
  - cbn in Hz. lia.
  - assert (length (digits_le n base (z / base)) <= S k)%nat; [|lia].
    apply IH; [|lia]. rewrite Nat2Z.inj_succ, Z.pow_succ_r in Hz by lia.
    split; [apply Z.div_pos; lia|apply Z.div_lt_upper_bound; lia].
Qed.
Lemma digits_le_nonempty n base z : digits_le (S n) base z <> [].
Proof. cbn. discriminate. Qed.
Lemma forallb_is_digit l : Forall (fun c => 48 <= c <= 57) l -> forallb is_digit l = true.
Proof. induction 1 as [|c r Hc Hr IH]; [reflexivity|]. cbn. rewrite IH. unfold is_digit. lia. Qed.
Lemma fold_left_rev_right {A B} (f : A -> B -> A) l a : fold_left f (rev l) a = fold_right (fun x acc => f acc x) a l.
Proof. rewrite <- fold_left_rev_right. rewrite rev_involutive. reflexivity. Qed.

Lemma parse_udec_spec_dec z : 0 <= z < 10 ^ 64 -> parse_udec (spec_dec z) = Some z.
Proof.
  intros Hz. unfold parse_udec, spec_dec.
  destruct (rev (digits_le 64 10 z)) eqn:E.
  - apply (f_equal (@rev Z)) in E. rewrite rev_involutive in E. cbn in E. discriminate.
  - rewrite <- E. rewrite forallb_is_digit.
    + f_equal. rewrite fold_left_rev_right. apply (digits_le_value 64 10 z); [lia|exact Hz].
    + apply Forall_rev. apply digits_le_digits; lia.
Qed.
Lemma spec_dec_digits z : 0 <= z -> Forall (fun c => 48 <= c <= 57) (spec_dec z).
Proof. intros H. unfold spec_dec. apply Forall_rev. apply digits_le_digits; lia. Qed.
Lemma spec_dec_nonempty z : spec_dec z <> [].
Proof. unfold spec_dec. cbn [digits_le rev]. intros H. apply app_eq_nil in H as [_ H]. discriminate. Qed.
Lemma spec_dec_length z k : 0 <= z < 10 ^ Z.of_nat k -> (1 <= k)%nat -> (length (spec_dec z) <= k)%nat.
Proof. intros Hz Hk. unfold spec_dec. rewrite rev_length. apply digits_le_length; [lia|exact Hz|exact Hk]. Qed.
Lemma fmt_int_nonneg z : 0 <= z -> fmt_int z = spec_dec z.
Proof. intros H. unfold fmt_int, fmt_base, spec_dec. replace (z <? 0) with false by lia. reflexivity. Qed.

Lemma go_parse_int_dec z : 0 <= z < 10 ^ 64 -> go_parse_int (spec_dec z) = z.
Proof.
  intros Hz. unfold go_parse_int. pose proof (spec_dec_digits z (proj1 Hz)) as Hd.
  destruct (spec_dec z) as [|c r] eqn:E; [exfalso; now apply (spec_dec_nonempty z)|].
  inversion Hd as [|? ? Hc _]; subst.
  replace (c =? 43) with false by lia. replace (c =? 45) with false by lia.
  rewrite <- E, parse_udec_spec_dec by exact Hz. reflexivity.
Qed.

(* trimming *)
Lemma drop_sp_repeat n l : drop_sp (repeat 32 n ++ l) = drop_sp l.
Proof. induction n as [|n IH]; [reflexivity|]. cbn. exact IH. Qed.
Lemma rtrim_field s n : (forall c r, rev s = c :: r -> c <> 32) -> rtrim (s ++ repeat 32 n) = s.
Proof.
  intros H. unfold rtrim. rewrite rev_app_distr.
  replace (rev (repeat 32 n)) with (repeat 32 n).
  2:{ clear. induction n as [|n IH]; [reflexivity|]. cbn [repeat rev]. rewrite <- IH. clear.
      induction n as [|n IH]; [reflexivity|]. cbn. now rewrite <- IH. }
  rewrite drop_sp_repeat. destruct (rev s) as [|c r] eqn:E.
  - cbn. apply (f_equal (@rev Z)) in E. now rewrite rev_involutive in E.
  - cbn [drop_sp]. specialize (H c r eq_refl). replace (c =? 32) with false by lia.
    rewrite <- E. apply rev_involutive.
Qed.
Lemma ar_trim_rtrim l : match l with c :: _ => c <> 32 | [] => True end -> ar_trim l = rtrim l.
Proof.
  destruct l as [|c r]; intros H; [reflexivity|]. unfold ar_trim, rtrim.
  cbn [rev]. generalize (rev r) as q. intros q.
  (* drop_sp (q ++ [c]) = drop_sp q ++ [c]   because c is not a space *)
  assert (forall q, drop_sp (q ++ [c]) = drop_sp q ++ [c] \/ (drop_sp q = [] /\ drop_sp (q ++ [c]) = [c])) as G.
  { induction q0 as [|x q0 IH]; cbn.
    - replace (c =? 32) with false by lia. right. split; reflexivity.
    - destruct (x =? 32); [exact IH|left; reflexivity]. }
  destruct (G q) as [E|[E1 E2]].
  - rewrite E, rev_app_distr. reflexivity.
  - rewrite E1, E2. reflexivity.
Qed.

Lemma Forall_firstn_ {A} (P : A -> Prop) n : forall l, Forall P l -> Forall P (firstn n l).
Proof. induction n as [|n IH]; intros l H; [constructor|]. destruct l; [constructor|]. inversion H; subst. cbn. constructor; auto. Qed.
Lemma Forall_skipn_ {A} (P : A -> Prop) n : forall l, Forall P l -> Forall P (skipn n l).
Proof. induction n as [|n IH]; intros l H; [exact H|]. destruct l; [constructor|]. inversion H; subst. cbn. auto. Qed.
