(* FmtPS/Properties.v — property theorems only, for the two formats of this module:
   ps_  PowerShell script signatures (lib/authenticode/powershell.go),  deb_  Debian package signatures (lib/signdeb).
   Each theorem is closed by a lemma of FmtPS/ProofsPS.v, FmtPS/ProofsPS2.v or FmtPS/ProofsDEB.v.  Grouped by the property
   served (C01 C08 C03 C02 C05); checks/fmtps.py ASPECT_THEOREMS lists the same names.
   Where the faithful model violates a statement at full strength, the full statement is quoted in the comment, the theorem
   `*_refuted` exhibits a concrete witness (replayed on the real code by checks/fmtps.py) and the theorem itself is stated on
   the decidable domain ps_dom / deb_wf. *)
From Relic Require Import Base.Prelude Base.Enc Generated.FmtPS_gen FmtPS.Model FmtPS.Lib FmtPS.ProofsPS FmtPS.ProofsPS2 FmtPS.ProofsAR FmtPS.ProofsDEB FmtPS.ProofsSlot FmtPS.ModelText FmtPS.ProofsText Laws.Pipeline.

(* ====================================================================================================== PowerShell *)
(* the format handed to Laws/Pipeline.v is  ps_format style = (ps_hashin style, ps_embed_wf style, ps_extract style, ps_payload style);
   ps_embed_wf style f b = ps_embed style f b  when  ps_dom style f && all_bytes b,  Err E_DOMAIN otherwise.
   ps_dom (Model.v): known style; the signer's scan neither fails nor panics; an existing begin line is preceded by CR LF; the
   last line of an unsigned script followed by CR LF is not the begin line; the lines read are exactly the file. *)

(* ---- C01 *)
(* Laws.law_extract (ps_format style).  Full statement, without ps_dom: fails, see ps_law_extract_refuted *)
Theorem ps_law_extract : forall style f b g,
  ps_dom style f = true -> all_bytes b = true -> ps_embed style f b = Ok g -> ps_extract style g = Ok (Some b).
Proof. exact FmtPS.ProofsPS.ps_law_extract_dom. Qed.
(* witness W1: "x" CR LF "# SIG # Begin signature block" (no line end), blob [1]: signing succeeds, the verifier fails with a
   base64 error on the signed file and the digest of the signed file differs from that of the script *)
Theorem ps_law_extract_refuted : exists g,
  ps_embed 1 w_marker_last [1] = Ok g /\ ps_extract 1 g = Err E_B64 /\ ps_hashin 1 g <> ps_hashin 1 w_marker_last.
Proof. exact FmtPS.ProofsPS2.ps_law_extract_refuted. Qed.

(* C01 + C08: Laws.law_hashin (ps_format style): the digest input ignores the signature just written.  Without ps_dom: W1 *)
Theorem ps_law_hashin : forall style f b g,
  ps_dom style f = true -> all_bytes b = true -> ps_embed style f b = Ok g -> ps_hashin style g = ps_hashin style f.
Proof. exact FmtPS.ProofsPS.ps_law_hashin_dom. Qed.

(* on the domain the signer always succeeds (so the hypotheses of the laws are satisfiable on all of ps_dom) *)
Theorem ps_embed_total : forall style f b, ps_dom style f = true -> all_bytes b = true -> exists g, ps_embed_wf style f b = Ok g.
Proof. exact FmtPS.ProofsPS2.ps_embed_total_dom. Qed.

(* refusals.  The digest refuses (ordinary error) exactly for an unknown style, or — UTF-16 reading only — at a line feed byte
   followed by a non-zero byte, or when the begin line of a signature block has no previous line (or one shorter than the line break
   the signer strips) in front of it; embedding adds one case, a UTF-16 file ending in a lone line feed byte (patch offset past EOF).
   Full statement "every input is either signed or refused with an error": holds since relic commit 4f70e5f (ps_hashin_no_panic);
   before it the third class was an index-out-of-range panic. *)
Theorem ps_refuses_clean : forall style f e, ps_hashin style f = Err e ->
  (spec_style style = None /\ e = E_STYLE) \/
  (e = E_UTF16 /\ spec_bom16 f = true /\ exists pre z r, f = pre ++ 10 :: z :: r /\ z <> 0) \/
  (e = E_MALFORMED /\ exists st en, spec_style style = Some (st, en) /\
     begin_too_early (spec_bom16 f) (ps_marker (spec_bom16 f) (ps_first_of st en)) [] (fst (ps_lines (spec_bom16 f) f))).
Proof. exact FmtPS.ProofsPS2.ps_refuses_clean. Qed.
Theorem ps_hashin_no_panic : forall style f p, ps_hashin style f <> Panic p.
Proof. exact FmtPS.ProofsPS2.ps_hashin_no_panic. Qed.
(* C11: the verifier's scan (VerifyPowershell up to the PKCS#7 parser) never panics either, on any byte string *)
Theorem ps_extract_no_panic : forall style f p, ps_extract style f <> Panic p.
Proof. exact FmtPS.ProofsPS2.ps_extract_no_panic. Qed.
Theorem ps_embed_refuses_clean : forall style f b e, ps_embed style f b = Err e ->
  ps_hashin style f = Err e \/ (e = E_COPY /\ spec_bom16 f = true /\ exists body, f = body ++ [10]).
Proof. exact FmtPS.ProofsPS2.ps_embed_refuses_clean. Qed.
(* witness W5: the begin line as first line of the file, or after a one-byte line: refused cleanly (third class above is inhabited) *)
Theorem ps_begin_first_refused :
  ps_hashin 1 w_block1 = Err E_MALFORMED /\ ps_embed 1 w_block1 [1] = Err E_MALFORMED /\ ps_hashin 1 (10 :: w_block1) = Err E_MALFORMED
  /\ ps_extract 1 w_block1 = Ok (Some [1]).
Proof. exact FmtPS.ProofsPS2.ps_begin_first_refused. Qed.
(* witnesses W6 / W7: a valid UTF-16LE script containing U+010A (bytes 0A 01) is refused as "malformed utf16"; a UTF-16 file
   ending in a lone 0A byte is digested (with a zero byte that is not in the file) and then cannot be patched *)
Theorem ps_utf16_refused_refuted :
  ps_hashin 1 [255; 254; 10; 1] = Err E_UTF16 /\
  ps_hashin 1 [255; 254; 97; 0; 10] = Ok [255; 254; 97; 0; 10; 0] /\ ps_embed 1 [255; 254; 97; 0; 10] [1] = Err E_COPY.
Proof. exact FmtPS.ProofsPS2.ps_utf16_refused_refuted. Qed.

(* ---- C08 *)
(* NotSignedError coincides with the specification reader's "no CR LF + begin line" *)
Theorem ps_is_signed_spec : forall style f, ps_dom style f = true ->
  (ps_extract style f = Ok None <-> ps_spec_signed style f = false).
Proof. exact FmtPS.ProofsPS2.ps_is_signed_spec. Qed.
Theorem ps_signed_after_embed : forall style f b g, ps_embed_wf style f b = Ok g ->
  ps_spec_signed style g = true /\ ps_extract style g = Ok (Some b).
Proof. exact FmtPS.ProofsPS2.ps_signed_after_embed. Qed.
(* the signed script is again in the domain: signing can be repeated *)
Theorem ps_dom_preserved : forall style f b g, ps_embed_wf style f b = Ok g -> ps_dom style g = true.
Proof. exact FmtPS.ProofsPS2.ps_dom_preserved. Qed.

(* ---- C03 *)
(* Laws.law_payload (ps_format style): the specification reader's content (everything in front of CR LF + begin line) is
   unchanged.  Full statement without ps_dom: fails, see ps_law_payload_refuted *)
Theorem ps_law_payload : forall style f b g,
  ps_dom style f = true -> all_bytes b = true -> ps_embed style f b = Ok g -> ps_payload style g = ps_payload style f.
Proof. exact FmtPS.ProofsPS.ps_law_payload_dom. Qed.
(* witness W2: "ab" LF + a well-formed block: the signer strips two bytes in front of the begin line, the "b" is lost *)
Theorem ps_law_payload_refuted : exists g,
  ps_embed 1 w_foreign_lf [1] = Ok g /\ ps_payload 1 w_foreign_lf = Ok w_foreign_lf /\ ps_payload 1 g = Ok [97]
  /\ ps_extract 1 g = Ok (Some [1]) /\ ztake 2 g <> ztake 2 w_foreign_lf.
Proof. exact FmtPS.ProofsPS2.ps_law_payload_refuted. Qed.
(* input and output agree on the content; everything behind it in the output is exactly the specified block *)
Theorem ps_only_these_ranges_differ : forall style f b g st en,
  ps_embed_wf style f b = Ok g -> spec_style style = Some (st, en) ->
  exists p, ps_payload style f = Ok p /\ ztake (zlen p) f = p /\ ztake (zlen p) g = p
            /\ zdrop (zlen p) g = spec_w (spec_bom16 f) (spec_block_text st en b).
Proof. exact FmtPS.ProofsPS2.ps_only_these_ranges_differ. Qed.

(* ---- C02 *)
(* protected = the content in front of the block.  Two files of the domain in the same encoding with equal digest input have
   equal content: byte for byte (UTF-16LE); as code point sequences in Go's reading, hence byte for byte when both are
   RFC 3629 text (8-bit).  (The extracted blobs need not be compared for this.)
   Full statement "equal digest input and equal blob imply equal files outside the block": fails, W3 and W4 *)
Theorem ps_protect : forall style g1 g2 p1 p2,
  ps_dom style g1 = true -> ps_dom style g2 = true -> all_bytes g1 = true -> all_bytes g2 = true ->
  spec_bom16 g1 = spec_bom16 g2 -> ps_hashin style g1 = ps_hashin style g2 ->
  ps_payload style g1 = Ok p1 -> ps_payload style g2 = Ok p2 ->
  (spec_bom16 g1 = true -> p1 = p2) /\
  (spec_bom16 g1 = false -> go_runes p1 = go_runes p2 /\
     forall c1 c2, scalars_ok c1 = true -> scalars_ok c2 = true -> p1 = utf8_enc c1 -> p2 = utf8_enc c2 -> p1 = p2).
Proof. exact FmtPS.ProofsPS2.ps_protect. Qed.
(* witness W3: text appended after "# SIG # End signature block" — same digest input, same blob, both files in the domain *)
Theorem ps_protect_trailing_refuted : let g2 := w_signed ++ [101; 118; 105; 108] in
  ps_hashin 1 g2 = ps_hashin 1 w_signed /\ ps_extract 1 g2 = ps_extract 1 w_signed /\ ps_extract 1 w_signed = Ok (Some [1])
  /\ ps_dom 1 g2 = true /\ ps_dom 1 w_signed = true.
Proof. exact FmtPS.ProofsPS2.ps_protect_trailing_refuted. Qed.
(* witness W4: "a" CR LF block  against  "aX" LF block — the byte in front of the LF is dropped unseen *)
Theorem ps_protect_separator_refuted : let g2 := [97; 88; 10] ++ w_block1 in
  ps_hashin 1 g2 = ps_hashin 1 w_signed /\ ps_extract 1 g2 = ps_extract 1 w_signed /\ ps_extract 1 w_signed = Ok (Some [1])
  /\ ps_payload 1 g2 = Ok g2 /\ ps_payload 1 w_signed = Ok [97].
Proof. exact FmtPS.ProofsPS2.ps_protect_separator_refuted. Qed.

(* ---- C05 *)
(* relic's digest input is the specification's: the content verbatim (UTF-16LE file), or the RFC 2781 UTF-16LE encoding of
   the code points whose RFC 3629 encoding the content is (8-bit file) *)
Theorem ps_hashin_eq_spec : forall style f p, ps_dom style f = true -> ps_payload style f = Ok p ->
  (spec_bom16 f = true -> ps_hashin style f = Ok p) /\
  (spec_bom16 f = false -> forall cps, scalars_ok cps = true -> p = utf8_enc cps -> ps_hashin style f = Ok (utf16le_enc cps)).
Proof. exact FmtPS.ProofsPS2.ps_hashin_eq_spec. Qed.
Theorem ps_text_conversion_spec : forall cps, scalars_ok cps = true -> to_utf16 (utf8_enc cps) = utf16le_enc cps.
Proof. exact FmtPS.ProofsPS2.to_utf16_spec. Qed.
(* the signed file is the content followed by exactly the specified block in the file's encoding *)
Theorem ps_embed_eq_spec : forall style f blob g st en,
  ps_dom style f = true -> all_bytes blob = true -> ps_embed style f blob = Ok g -> spec_style style = Some (st, en) ->
  exists p, ps_payload style f = Ok p /\ g = p ++ spec_w (spec_bom16 f) (spec_block_text st en blob).
Proof. exact FmtPS.ProofsPS.ps_embed_eq_spec_dom. Qed.

(* ====================================================================================================== Debian *)
(* deb_format ctl role mtime = (deb_hashin ctl, deb_embed_wf ctl role mtime, deb_extract role, deb_payload);
   ctl = the control.tar oracle (is this member data a readable control tarball with Package and Version?);
   deb_embed_wf = deb_embed when  deb_wf ctl f && role_ok role && |blob| < 10^10 && 0 <= mtime,  Err E_DOMAIN otherwise.
   deb_wf (Model.v): the strict ar reader of the specification accepts f; canonical size fields; printable names without '/'
   not starting with a blank; mode fields of at least 3 characters; distinct names of the non-signature members;
   relic's scan succeeds (control.tar present and readable).  role_ok: 1..12 lower-case letters. *)

(* ---- C01 *)
(* Laws.law_extract.  Full statement (any role): fails, see deb_law_extract_refuted *)
Theorem deb_law_extract : forall ctl role mtime f b g,
  deb_embed_wf ctl role mtime f b = Ok g -> deb_extract role g = Ok (Some b).
Proof. exact FmtPS.ProofsDEB.deb_law_extract. Qed.
(* witness: role of 13 letters — stored under a truncated member name: not found under the role, and signing again appends a
   second signature member instead of replacing the first (C08) *)
Theorem deb_law_extract_refuted : exists g g2,
  deb_embed w_ctl w_longrole 0 w_deb [7] = Ok g /\ deb_extract w_longrole g = Ok None /\
  deb_embed w_ctl w_longrole 0 g [8] = Ok g2 /\ zlen g2 = zlen g + 62 /\ deb_wf w_ctl w_deb = true.
Proof. exact FmtPS.ProofsDEB.deb_law_extract_refuted. Qed.
(* C01 + C08: Laws.law_hashin *)
Theorem deb_law_hashin : forall ctl role mtime f b g,
  deb_embed_wf ctl role mtime f b = Ok g -> deb_hashin ctl g = deb_hashin ctl f.
Proof. exact FmtPS.ProofsDEB.deb_law_hashin. Qed.
Theorem deb_embed_total : forall ctl role mtime f b,
  deb_wf ctl f = true -> role_ok role = true -> zlen b < 10000000000 -> 0 <= mtime -> exists g, deb_embed_wf ctl role mtime f b = Ok g.
Proof. exact FmtPS.ProofsDEB.deb_embed_total. Qed.
(* refusals: truncated member header (E_SHORT), unreadable / unknown control.tar (E_CONTROL), no control.tar (E_NOCONTROL);
   E_UNMODELLED = a member name containing '/', which the model does not follow.  Full statement "signed or refused with an
   error": fails, see deb_refuses_clean_refuted *)
Theorem deb_refuses_clean : forall ctl f e, deb_hashin ctl f = Err e ->
  e = E_SHORT \/ e = E_UNMODELLED \/ e = E_CONTROL \/ e = E_NOCONTROL.
Proof. exact FmtPS.ProofsDEB.deb_refuses_clean. Qed.
Theorem deb_embed_refuses_clean : forall ctl role mtime f b e, deb_embed ctl role mtime f b = Err e -> deb_hashin ctl f = Err e \/ e = E_COPY.
Proof. exact FmtPS.ProofsDEB.deb_embed_refuses_clean. Qed.
(* witnesses: a member header whose mode field is blank (index out of range in the ar reader), a negative size field *)
Theorem deb_refuses_clean_refuted :
  deb_hashin w_ctl (w_deb ++ w_hdr_shortmode) = Panic 3 /\ deb_hashin w_ctl (w_deb ++ w_hdr_negsize) = Panic 4
  /\ deb_extract [120] (w_deb ++ w_hdr_shortmode) = Panic 3 /\ deb_extract [120] (w_deb ++ w_hdr_negsize) = Panic 4.
Proof. exact FmtPS.ProofsDEB.deb_refuses_clean_refuted. Qed.
(* relic's manifest of the package passes relic's checkSig against the members of the signed package (D = the per-member digest pair) *)
Theorem deb_verifier_accepts_signed : forall ctl role mtime f b g (D : bytes -> bytes) s ms,
  deb_embed_wf ctl role mtime f b = Ok g -> (forall d, D d <> []) -> deb_scan ctl f = Ok s -> deb_vmembers g = Ok ms ->
  deb_check (deb_lines D (deb_signed_members (ds_members s))) (deb_digests D ms) = Ok tt.
Proof. exact FmtPS.ProofsDEB.deb_verifier_accepts_signed. Qed.

(* ---- C08 *)
Theorem deb_is_signed_spec : forall ctl f, deb_wf ctl f = true -> deb_is_signed f = Ok (deb_spec_signed f).
Proof. exact FmtPS.ProofsDEB.deb_is_signed_spec. Qed.
Theorem deb_wf_preserved : forall ctl role mtime f b g, deb_embed_wf ctl role mtime f b = Ok g -> deb_wf ctl g = true.
Proof. exact FmtPS.ProofsDEB.deb_wf_preserved. Qed.

(* ---- C03 *)
(* Laws.law_payload: name field and data of every non-signature member, in order *)
Theorem deb_law_payload : forall ctl role mtime f b g,
  deb_embed_wf ctl role mtime f b = Ok g -> deb_payload g = deb_payload f.
Proof. exact FmtPS.ProofsDEB.deb_law_payload. Qed.
(* the files differ only in the slot: the last member named _gpg<role> (header, data, padding), or the end of file *)
Theorem deb_only_these_ranges_differ : forall ctl role mtime f b g, deb_embed_wf ctl role mtime f b = Ok g ->
  exists pre old post, f = pre ++ old ++ post /\ g = pre ++ ar_wmember (spec_sig_name role) mtime 33188 b ++ post /\
    ((old = [] /\ post = []) \/ exists x, old = ent_enc x /\ ent_name x = spec_sig_name role).
Proof. exact FmtPS.ProofsDEB.deb_only_these_ranges_differ. Qed.

(* ---- C02 *)
(* equal digest inputs: equal payloads (name fields, data, order) *)
Theorem deb_protect : forall ctl g1 g2, deb_wf ctl g1 = true -> deb_wf ctl g2 = true ->
  deb_hashin ctl g1 = deb_hashin ctl g2 -> deb_payload g1 = deb_payload g2.
Proof. exact FmtPS.ProofsDEB.deb_protect. Qed.
(* what checkSig (the verifier's comparison of the signed manifest with the archive) guarantees when it accepts *)
Theorem deb_check_sound : forall lines dg, deb_check lines dg = Ok tt ->
  (forall sums name, In (sums, name) lines -> lookup_last name dg = Some sums /\ sums <> []) /\
  (forall name c, In (name, c) dg -> exists sums, In (sums, name) lines).
Proof. exact FmtPS.ProofsDEB.deb_check_sound. Qed.
(* ... and what it does not: the order of the members, and a member in front of a later member of the same name *)
Theorem deb_check_order_refuted :
  let lines := [([1], w_name_control); ([2], w_name_data)] in
  deb_check lines [(w_name_control, [1]); (w_name_data, [2])] = Ok tt /\ deb_check lines [(w_name_data, [2]); (w_name_control, [1])] = Ok tt.
Proof. exact FmtPS.ProofsDEB.deb_check_order_refuted. Qed.
Theorem deb_check_shadow_refuted :
  let lines := [([1], w_name_control); ([2], w_name_data)] in
  deb_check lines [(w_name_control, [1]); (w_name_data, [66]); (w_name_data, [2])] = Ok tt.
Proof. exact FmtPS.ProofsDEB.deb_check_shadow_refuted. Qed.

(* ---- C05 *)
Theorem deb_hashin_eq_spec : forall ctl f, deb_wf ctl f = true -> deb_hashin ctl f = deb_spec_hashin f.
Proof. exact FmtPS.ProofsDEB.deb_hashin_eq_spec. Qed.
(* the signed package is the specification's signing operation (replace the last member _gpg<role>, or append) applied to the
   members the strict reader finds, written back in the common ar format *)
Theorem deb_embed_eq_spec : forall ctl role mtime f b g es, deb_embed_wf ctl role mtime f b = Ok g -> ar_spec_parse f = Some es ->
  g = ar_spec_file (spec_sign role (mkEnt (ar_whdr (spec_sig_name role) mtime 33188 (zlen b)) b) es).
Proof. exact FmtPS.ProofsDEB.deb_embed_eq_spec. Qed.

(* ====================================================================================================== Debian: signature slots by LOGICAL member name
   Domain deb_wf2 (Model.v): as deb_wf, but every 16-byte name field may be either spelling of a proper logical name — BSD / common
   ("_gpgbuilder" + blanks: dpkg-deb, BSD ar, relic) or System V / GNU ("_gpgbuilder/" + blanks: GNU ar, debsigs) — and logical names
   are pairwise different.  ar_logical / is_spelling are written from ar(5) and deb(5); deb_norm is GENERATED from
   `name := path.Clean(hdr.Name)` in lib/signdeb/debsign.go, and every test of the member loop is made on it in the model. *)

(* C08 (specification): both spellings of a name have that name as their logical name *)
Theorem ar_logical_of_spellings : forall n field, lname_ok n = true -> is_spelling n field = true -> ar_logical field = n.
Proof. exact FmtPS.ProofsAR.ar_logical_of_spellings. Qed.
(* C08 (the tie): the name relic's signer compares with "_gpg"+role is the logical name, for every spelling *)
Theorem deb_norm_is_logical : forall e, ent_spelled_ok e = true -> deb_norm (ent_name e) = ent_lname e.
Proof. exact FmtPS.ProofsAR.deb_norm_is_logical. Qed.
Theorem deb_norm_spellings : forall n, lname_ok n = true -> deb_norm n = n /\ deb_norm (n ++ [47]) = n.
Proof. exact FmtPS.ProofsAR.deb_norm_spellings. Qed.
(* C08: after Sign there is exactly one member whose logical name is _gpg<role>, it is the new signature, every other member
   is byte-identical and in order; the signed package is the specification's operation on logical names *)
Theorem deb_slot_replaced : forall ctl role mtime f b g, deb_embed_wf2 ctl role mtime f b = Ok g ->
  exists es es', ar_spec_parse f = Some es /\ ar_spec_parse g = Some es' /\
    es' = spec_sign_l role (mkEnt (ar_whdr (spec_sig_name role) mtime 33188 (zlen b)) b) es /\
    filter (lslot role) es' = [mkEnt (ar_whdr (spec_sig_name role) mtime 33188 (zlen b)) b] /\
    filter (fun e => negb (lslot role e)) es' = filter (fun e => negb (lslot role e)) es.
Proof. exact FmtPS.ProofsSlot.deb_slot_replaced. Qed.
Theorem deb_slot_replaced_check : forall ctl role mtime f b g es es', deb_embed_wf2 ctl role mtime f b = Ok g ->
  ar_spec_parse f = Some es -> ar_spec_parse g = Some es' -> slot_replaced_ok role b es es' = true.
Proof. exact FmtPS.ProofsSlot.deb_slot_replaced_check. Qed.
(* C08: the result is in the domain again (signing repeats), and the old domain with one member per name is inside the new one *)
Theorem deb_wf2_preserved : forall ctl role mtime f b g, deb_embed_wf2 ctl role mtime f b = Ok g -> deb_wf2 ctl g = true.
Proof. exact FmtPS.ProofsSlot.deb_wf2_preserved. Qed.
Theorem deb_wf_in_wf2 : forall ctl f es, deb_wf ctl f = true -> ar_spec_parse f = Some es -> distinct_names (map ent_name es) = true -> deb_wf2 ctl f = true.
Proof. exact FmtPS.ProofsSlot.deb_wf_in_wf2. Qed.
(* C08: Verify's role map holds the new signature under `role` and no other entry for that role under either spelling *)
Theorem deb_no_stale_signature : forall ctl role mtime f b g, deb_embed_wf2 ctl role mtime f b = Ok g ->
  exists sg, deb_sigs g = Ok sg /\ lookup_last role sg = Some b /\
    forall r s, In (r, s) sg -> strip_slash r = role -> r = role /\ s = b.
Proof. exact FmtPS.ProofsSlot.deb_no_stale_signature. Qed.
(* C08: the digest input ignores the existing signature, whatever its spelling *)
Theorem deb_law_hashin2 : forall ctl role mtime f b g,
  deb_embed_wf2 ctl role mtime f b = Ok g -> deb_hashin ctl g = deb_hashin ctl f.
Proof. exact FmtPS.ProofsSlot.deb_law_hashin2. Qed.
(* C03 *)
Theorem deb_law_payload2 : forall ctl role mtime f b g,
  deb_embed_wf2 ctl role mtime f b = Ok g -> deb_payload g = deb_payload f.
Proof. exact FmtPS.ProofsSlot.deb_law_payload2. Qed.
(* C01 *)
Theorem deb_law_extract2 : forall ctl role mtime f b g,
  deb_embed_wf2 ctl role mtime f b = Ok g -> deb_extract role g = Ok (Some b).
Proof. exact FmtPS.ProofsSlot.deb_law_extract2. Qed.
Theorem deb_embed_total2 : forall ctl role mtime f b,
  deb_wf2 ctl f = true -> role_ok role = true -> zlen b < 10000000000 -> 0 <= mtime -> exists g, deb_embed_wf2 ctl role mtime f b = Ok g.
Proof. exact FmtPS.ProofsSlot.deb_embed_total2. Qed.
(* C01: a package whose last member header is cut short is refused (the ar reader's error is returned by Sign, not swallowed) *)
Theorem deb_truncated_header_refused : forall ctl f junk, deb_wf2 ctl f = true -> 0 < zlen junk < 60 ->
  deb_hashin ctl (f ++ junk) = Err E_SHORT /\ forall role mtime b, deb_embed ctl role mtime (f ++ junk) b = Err E_SHORT.
Proof. exact FmtPS.ProofsSlot.deb_truncated_header_refused. Qed.
(* C01: relic's manifest (names as stored) passes relic's check on the re-signed package (digest map keyed by the stored names) *)
Theorem deb_verifier_accepts_resigned : forall ctl role mtime f b g (D : bytes -> bytes) s ms,
  deb_embed_wf2 ctl role mtime f b = Ok g -> (forall d, D d <> []) -> deb_scan ctl f = Ok s -> deb_vmembers g = Ok ms ->
  deb_check (deb_lines D (deb_listed_members (ds_members s))) (deb_digests D ms) = Ok tt.
Proof. exact FmtPS.ProofsSlot.deb_verifier_accepts_resigned. Qed.
(* the hypothesis "logical names pairwise different" is needed: a package that already carries the role under BOTH spellings keeps
   one of them (only the last member of the slot is replaced) *)
Theorem deb_slot_two_spellings_refuted : exists g es',
  deb_wf2 w_ctl w_deb_both = false /\ deb_embed w_ctl w_role_builder 0 w_deb_both [7] = Ok g /\ ar_spec_parse g = Some es' /\
  length (filter (lslot w_role_builder) es') = 2%nat.
Proof. exact FmtPS.ProofsSlot.deb_slot_two_spellings_refuted. Qed.

(* ====================================================================================================== the pipeline *)
(* C01 / C08: Laws.Pipeline.sign_then_verify and resign_history for both formats; cryptography symbolic *)
Section Crypto.
  Variables key pubk sigv : Type.
  Variable H : Z -> bytes -> bytes.
  Variable pub : key -> pubk.
  Variable sign : key -> bytes -> sigv.
  Variable vrfy : pubk -> bytes -> sigv -> bool.
  Hypothesis sign_correct : forall k m, vrfy (pub k) m (sign k m) = true.
  Variable tbs : Z -> bytes -> bytes.
  Variable ser : sigblob pubk sigv -> bytes.
  Variable deser : bytes -> option (sigblob pubk sigv).
  Hypothesis deser_ser : forall b, deser (ser b) = Some b.

  Theorem ps_sign_then_verify : forall style k a f g,
    sign_file key pubk sigv H pub sign tbs ser bytes (ps_format style) k a f = Ok g ->
    verify_file pubk sigv H vrfy tbs deser bytes (ps_format style) g = Accept pubk (pub k) a.
  Proof. exact (FmtPS.ProofsPS2.ps_sign_then_verify key pubk sigv H pub sign vrfy sign_correct tbs ser deser deser_ser). Qed.
  Theorem ps_resign_history : forall style hist f g k a,
    resign key pubk sigv H pub sign tbs ser bytes (ps_format style) (hist ++ [(k, a)]) f = Ok g ->
    verify_file pubk sigv H vrfy tbs deser bytes (ps_format style) g = Accept pubk (pub k) a
    /\ is_signed bytes (ps_format style) g = true
    /\ ps_payload style g = ps_payload style f /\ ps_hashin style g = ps_hashin style f.
  Proof. exact (FmtPS.ProofsPS2.ps_resign_history key pubk sigv H pub sign vrfy sign_correct tbs ser deser deser_ser). Qed.

  Theorem deb_sign_then_verify : forall ctl role mtime k a f g,
    sign_file key pubk sigv H pub sign tbs ser _ (deb_format ctl role mtime) k a f = Ok g ->
    verify_file pubk sigv H vrfy tbs deser _ (deb_format ctl role mtime) g = Accept pubk (pub k) a.
  Proof. exact (FmtPS.ProofsDEB.deb_sign_then_verify key pubk sigv H pub sign vrfy sign_correct tbs ser deser deser_ser). Qed.
  Theorem deb_resign_history : forall ctl role mtime hist f g k a,
    resign key pubk sigv H pub sign tbs ser _ (deb_format ctl role mtime) (hist ++ [(k, a)]) f = Ok g ->
    verify_file pubk sigv H vrfy tbs deser _ (deb_format ctl role mtime) g = Accept pubk (pub k) a
    /\ is_signed _ (deb_format ctl role mtime) g = true
    /\ deb_payload g = deb_payload f /\ deb_hashin ctl g = deb_hashin ctl f.
  Proof. exact (FmtPS.ProofsDEB.deb_resign_history key pubk sigv H pub sign vrfy sign_correct tbs ser deser deser_ser). Qed.
  (* C01 / C08 on the extended domain: histories that start from a package signed by a third party under either spelling *)
  Theorem deb_sign_then_verify2 : forall ctl role mtime k a f g,
    sign_file key pubk sigv H pub sign tbs ser _ (deb_format2 ctl role mtime) k a f = Ok g ->
    verify_file pubk sigv H vrfy tbs deser _ (deb_format2 ctl role mtime) g = Accept pubk (pub k) a.
  Proof. exact (FmtPS.ProofsSlot.deb_sign_then_verify2 key pubk sigv H pub sign vrfy sign_correct tbs ser deser deser_ser). Qed.
  Theorem deb_resign_history2 : forall ctl role mtime hist f g k a,
    resign key pubk sigv H pub sign tbs ser _ (deb_format2 ctl role mtime) (hist ++ [(k, a)]) f = Ok g ->
    verify_file pubk sigv H vrfy tbs deser _ (deb_format2 ctl role mtime) g = Accept pubk (pub k) a
    /\ is_signed _ (deb_format2 ctl role mtime) g = true
    /\ deb_payload g = deb_payload f /\ deb_hashin ctl g = deb_hashin ctl f.
  Proof. exact (FmtPS.ProofsSlot.deb_resign_history2 key pubk sigv H pub sign vrfy sign_correct tbs ser deser deser_ser). Qed.
End Crypto.

(* ====================================================================================================== non-vacuity *)
(* a UTF-16LE .ps1xml script "a" CR LF "b" (with BOM), a UTF-8 .ps1 script with a two-byte character and LF line ends, and a
   .mof script that already carries a block are in the domain; signing them computes, and the result verifies in the model *)
Definition ex_u16 : bytes := [255; 254] ++ widen [97; 13; 10; 98].
Definition ex_u8 : bytes := [195; 164; 10; 98; 10].
Example ps_dom_inhabited : ps_dom 2 ex_u16 = true /\ ps_dom 1 ex_u8 = true /\ ps_dom 1 w_signed = true /\ ps_dom 1 w_marker_last = false /\ ps_dom 1 w_foreign_lf = false.
Proof. vm_compute. repeat split; reflexivity. Qed.
Example ps_laws_computed :
  match ps_embed_wf 2 ex_u16 [1; 2; 3] with
  | Ok g => ps_extract 2 g = Ok (Some [1; 2; 3]) /\ ps_hashin 2 g = Ok ex_u16 /\ ps_payload 2 g = Ok ex_u16 /\ ps_dom 2 g = true
  | _ => False
  end /\
  match ps_embed_wf 1 w_signed [9] with
  | Ok g => ps_extract 1 g = Ok (Some [9]) /\ ps_hashin 1 g = Ok [97; 0] /\ ps_payload 1 g = Ok [97]
  | _ => False
  end /\
  ps_hashin 1 ex_u8 = Ok [228; 0; 10; 0; 98; 0; 10; 0].
Proof. vm_compute. repeat split; reflexivity. Qed.

(* a package with control.tar (odd length: padding byte) and data.tar, unsigned / carrying a signature of another role /
   carrying one of the same role, is in the domain; signing appends or replaces, and the result is again in the domain *)
Definition ex_role : bytes := [111; 114; 105; 103; 105; 110].     (* "origin" *)
Definition ex_deb_other : bytes := w_deb ++ ar_wmember (spec_sig_name [120]) 5 33188 [1].
Example deb_wf_inhabited : deb_wf w_ctl w_deb = true /\ deb_wf w_ctl ex_deb_other = true /\ role_ok ex_role = true /\ role_ok w_longrole = false.
Proof. vm_compute. repeat split; reflexivity. Qed.
Example deb_laws_computed :
  match deb_embed_wf w_ctl ex_role 7 ex_deb_other [1; 2; 3] with
  | Ok g => deb_extract ex_role g = Ok (Some [1; 2; 3]) /\ deb_extract [120] g = Ok (Some [1]) /\ deb_payload g = deb_payload w_deb /\ deb_wf w_ctl g = true /\
            match deb_embed_wf w_ctl ex_role 8 g [4] with
            | Ok g2 => deb_extract ex_role g2 = Ok (Some [4]) /\ zlen g2 = zlen g - 2 /\ deb_hashin w_ctl g2 = deb_hashin w_ctl w_deb
            | _ => False
            end
  | _ => False
  end.
Proof. vm_compute. repeat split; reflexivity. Qed.

(* the symbolic cryptography of the pipeline theorems has a model: a toy scheme with unit keys, for which signing a script
   succeeds (so the hypothesis of ps_sign_then_verify / deb_sign_then_verify is satisfiable) *)
Definition toy_ser (b : sigblob unit unit) : bytes := sb_alg unit unit b :: sb_digest unit unit b.
Definition toy_deser (l : bytes) : option (sigblob unit unit) := match l with a :: d => Some (mkBlob unit unit a d tt tt) | [] => None end.
Example toy_deser_ser : forall b, toy_deser (toy_ser b) = Some b.
Proof. intros [a d [] []]. reflexivity. Qed.
Example sign_hypothesis_satisfiable :
  is_ok (sign_file unit unit unit (fun a m => [a; zlen m]) (fun _ => tt) (fun _ _ => tt) (fun _ d => d) toy_ser bytes (ps_format 1) tt 4 ex_u8) = true /\
  is_ok (sign_file unit unit unit (fun a m => [a; zlen m mod 256]) (fun _ => tt) (fun _ _ => tt) (fun _ d => d) toy_ser _ (deb_format w_ctl ex_role 0) tt 4 w_deb) = true.
Proof. vm_compute. split; reflexivity. Qed.

(* packages written by GNU ar (every name terminated by a slash) or by dpkg-deb with a debsigs signature appended by GNU ar are in
   the extended domain (and outside the old one); signing in the occupied role replaces the member under either spelling, twice;
   an 11-character role (15-character member name: the System V spelling fills the field) and a 12-character role work too *)
Example deb_wf2_inhabited :
  deb_wf2 w_ctl w_deb_gnu = true /\ deb_wf2 w_ctl w_deb_mixed = true /\ deb_wf w_ctl w_deb_mixed = false /\ deb_wf2 w_ctl w_deb = true
  /\ deb_wf2 w_ctl w_deb_role11 = true.
Proof. vm_compute. repeat split; reflexivity. Qed.
Example deb_slot_computed :
  match deb_embed_wf2 w_ctl w_role_builder 7 w_deb_mixed [1; 2; 3], ar_spec_parse w_deb_mixed with
  | Ok g, Some es =>
      zlen g = zlen w_deb_mixed /\ deb_extract w_role_builder g = Ok (Some [1; 2; 3]) /\ deb_sigs g = Ok [(w_role_builder, [1; 2; 3])] /\
      match ar_spec_parse g with Some es' => slot_replaced_ok w_role_builder [1; 2; 3] es es' = true /\ length es' = length es | None => False end /\
      match deb_embed_wf2 w_ctl w_role_builder 8 g [4] with
      | Ok g2 => deb_sigs g2 = Ok [(w_role_builder, [4])] /\ deb_payload g2 = deb_payload w_deb /\ deb_hashin w_ctl g2 = deb_hashin w_ctl w_deb_mixed
      | _ => False
      end
  | _, _ => False
  end /\
  match deb_embed_wf2 w_ctl w_role_builder 7 w_deb_gnu [5] with
  | Ok g => deb_sigs g = Ok [(w_role_builder, [5])] /\ deb_payload g = deb_payload w_deb_gnu /\ deb_wf2 w_ctl g = true
  | _ => False
  end /\
  match deb_embed_wf2 w_ctl w_role11 7 w_deb_role11 [6] with
  | Ok g => deb_sigs g = Ok [(w_role11, [6])] /\ zlen g = zlen w_deb_role11 - 2
  | _ => False
  end.
Proof. vm_compute. repeat split; reflexivity. Qed.
(* the tie is sensitive to the normalisation: trimming blanks (or nothing) leaves the System V terminator in place *)
Example deb_norm_sensitive :
  go_path_clean (w_name_gpgbuilder ++ [47]) = w_name_gpgbuilder /\ go_trim_space (w_name_gpgbuilder ++ [47]) <> w_name_gpgbuilder
  /\ go_trim_suffix (w_name_gpgbuilder ++ [47]) [47] = w_name_gpgbuilder /\ go_path_base (w_name_gpgbuilder ++ [47]) = w_name_gpgbuilder.
Proof. vm_compute. repeat split; try reflexivity. discriminate. Qed.
Example sign_hypothesis_satisfiable2 :
  is_ok (sign_file unit unit unit (fun a m => [a; zlen m mod 256]) (fun _ => tt) (fun _ _ => tt) (fun _ d => d) toy_ser _ (deb_format2 w_ctl w_role_builder 0) tt 4 w_deb_mixed) = true.
Proof. vm_compute. reflexivity. Qed.

(* ====================================================================================================== text encoding step
   writeUtf16 / toUtf16 of lib/authenticode/powershell.go. ps_w16_rune / ps_t16_rune / ps_w16_pass are GENERATED from the Go
   source (Generated/FmtPS_gen.v): the bytes emitted for one rune of the UTF-8 text, and what the UTF-16 path writes. *)
(* ---- C02 *)
(* the generated encoder is the conversion the digest model ps_hashin uses (ps_conv), for both paths *)
Theorem ps_write_utf16_model : forall is16 x, ps_write_utf16 is16 x = ps_conv is16 x.
Proof. exact FmtPS.ProofsText.ps_write_utf16_model. Qed.
(* for all valid UTF-8 texts: equal digest input implies equal text (every change of a character, in any plane, changes it) *)
Theorem ps_utf16_encode_injective : forall cps1 cps2 t1 t2,
  scalars_ok cps1 = true -> t1 = utf8_enc cps1 -> scalars_ok cps2 = true -> t2 = utf8_enc cps2 ->
  ps_write_utf16 false t1 = ps_write_utf16 false t2 -> t1 = t2 /\ cps1 = cps2.
Proof. exact FmtPS.ProofsText.ps_utf16_encode_injective. Qed.
Theorem ps_conv_injective : forall cps1 cps2, scalars_ok cps1 = true -> scalars_ok cps2 = true ->
  ps_conv false (utf8_enc cps1) = ps_conv false (utf8_enc cps2) -> utf8_enc cps1 = utf8_enc cps2.
Proof. exact FmtPS.ProofsText.ps_conv_injective. Qed.
Theorem ps_utf16_char_change : forall pre c1 c2 post,
  scalars_ok (pre ++ c1 :: post) = true -> scalars_ok (pre ++ c2 :: post) = true -> c1 <> c2 ->
  ps_write_utf16 false (utf8_enc (pre ++ c1 :: post)) <> ps_write_utf16 false (utf8_enc (pre ++ c2 :: post)).
Proof. exact FmtPS.ProofsText.ps_utf16_char_change. Qed.
(* the UTF-16 path hands the text to the hash unchanged (injective trivially) *)
Theorem ps_utf16_pass_identity : forall x, ps_write_utf16 true x = x.
Proof. exact FmtPS.ProofsText.ps_utf16_pass_identity. Qed.
(* ---- C05 *)
(* the emitted bytes are the UTF-16-LE of the Unicode standard: per scalar value, with surrogate pairs for planes 1..16, and for a text *)
Theorem ps_w16_rune_is_spec : forall c, valid_scalar c = true -> ps_w16_rune c = uni_utf16le_cp c.
Proof. exact FmtPS.ProofsText.ps_w16_rune_is_spec. Qed.
Theorem ps_w16_rune_surrogates : forall c, 65536 <= c <= 1114111 ->
  ps_w16_rune c = [ (55296 + (c - 65536) / 1024) mod 256; (55296 + (c - 65536) / 1024) / 256;
                    (56320 + (c - 65536) mod 1024) mod 256; (56320 + (c - 65536) mod 1024) / 256 ].
Proof. exact FmtPS.ProofsText.ps_w16_rune_surrogates. Qed.
Theorem ps_utf16_is_spec : forall cps, scalars_ok cps = true -> ps_write_utf16 false (utf8_enc cps) = uni_utf16le cps.
Proof. exact FmtPS.ProofsText.ps_utf16_is_spec. Qed.
Theorem ps_to_utf16_model : forall x, ps_to_utf16 x = to_utf16 x.
Proof. exact FmtPS.ProofsText.ps_to_utf16_model. Qed.
Theorem ps_bom_is_spec : forall b0 b1 r, ps_is16 (b0 :: b1 :: r) = bytes_eqb [b0; b1] uni_bom.
Proof. exact FmtPS.ProofsText.ps_bom_is_spec. Qed.
(* non-vacuity: U+1F600 is f0 9f 98 80 in UTF-8 and the pair D83D DE00 in the digest input; U+2F600 and U+F600 (same low 16 bits)
   give different digest inputs; the hypotheses of ps_utf16_char_change are satisfiable with an astral character *)
Example ps_astral_bytes :
  utf8_enc [128512] = [240; 159; 152; 128] /\ ps_write_utf16 false [240; 159; 152; 128] = [61; 216; 0; 222]
  /\ ps_write_utf16 false [240; 175; 152; 128] = [125; 216; 0; 222] /\ ps_write_utf16 false [239; 152; 128] = [0; 246]
  /\ ps_write_utf16 false (utf8_enc [65536]) = [0; 216; 0; 220] /\ ps_write_utf16 false (utf8_enc [1114111]) = [255; 219; 255; 223].
Proof. vm_compute. repeat split; reflexivity. Qed.
Example ps_astral_change_satisfiable :
  scalars_ok ([39] ++ 128512 :: [39]) = true /\ scalars_ok ([39] ++ 193024 :: [39]) = true /\ 128512 <> 193024.
Proof. split; [reflexivity|split; [reflexivity|discriminate]]. Qed.
