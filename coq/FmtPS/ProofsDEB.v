(* FmtPS/ProofsDEB.v — lemmas about the Debian (ar) half of FmtPS/Model.v. *)
From Relic Require Import Base.Prelude Base.Enc Generated.FmtPS_gen FmtPS.Model FmtPS.Lib FmtPS.ProofsAR Laws.Pipeline.

(* ================================================================== small facts *)
Lemma andb3 a b c : a && b && c = true -> a = true /\ b = true /\ c = true.
Proof. destruct a, b, c; cbn; intros H; try discriminate; auto. Qed.
Lemma Zodd_mod2 n : n mod 2 = if Z.odd n then 1 else 0.
Proof. apply Zmod_odd. Qed.
Lemma odd_pad_eq n : (if n mod 2 =? 1 then [10] else @nil Z) = (if Z.odd n then [10] else []).
Proof. rewrite Zodd_mod2. destruct (Z.odd n); reflexivity. Qed.
Lemma zlen_pad n : zlen (if Z.odd n then [10] else @nil Z) = n mod 2.
Proof. rewrite Zodd_mod2. destruct (Z.odd n); reflexivity. Qed.

Lemma pad_sp_length n s : length (pad_sp n s) = n.
Proof. unfold pad_sp. rewrite firstn_length, app_length, repeat_length. lia. Qed.
Lemma zlen_pad_sp n s : zlen (pad_sp n s) = Z.of_nat n.
Proof. unfold zlen. now rewrite pad_sp_length. Qed.
Lemma repeat_app_ {A} (x : A) a b : repeat x (a + b) = repeat x a ++ repeat x b.
Proof. induction a as [|a IH]; [reflexivity|]. cbn. now rewrite IH. Qed.
Lemma pad_sp_short n s : (length s <= n)%nat -> pad_sp n s = spec_field n s.
Proof.
  intros H. unfold pad_sp, spec_field. replace n with ((n - length s) + length s)%nat at 2 by lia.
  rewrite repeat_app_, app_assoc. rewrite firstn_app.
  replace (n - length (s ++ repeat 32%Z (n - length s)))%nat with 0%nat by (rewrite app_length, repeat_length; lia).
  cbn [firstn]. rewrite app_nil_r. apply firstn_all2. rewrite app_length, repeat_length. lia.
Qed.
Lemma zslice_at {A} (a b c : list A) lo hi : zlen a = lo -> zlen b = hi - lo -> zslice lo hi (a ++ b ++ c) = b.
Proof. intros <- H. replace hi with (zlen a + zlen b) by lia. apply zslice_app_mid. Qed.
Lemma zslice_at_end {A} (a b : list A) lo hi : zlen a = lo -> zlen b = hi - lo -> zslice lo hi (a ++ b) = b.
Proof. intros H1 H2. rewrite <- (app_nil_r b) at 1. now apply zslice_at. Qed.
Lemma zslice_0 {A} (b c : list A) hi : zlen b = hi -> zslice 0 hi (b ++ c) = b.
Proof. intros H. apply (zslice_at [] b c 0 hi); [reflexivity|lia]. Qed.

(* rtrim keeps a prefix *)
Lemma drop_sp_suffix l : exists k, l = repeat 32 k ++ drop_sp l.
Proof.
  induction l as [|c l [k IH]]; [exists 0%nat; reflexivity|]. cbn [drop_sp]. destruct (c =? 32) eqn:E.
  - exists (S k). cbn. apply Z.eqb_eq in E. subst c. now rewrite <- IH.
  - exists 0%nat. reflexivity.
Qed.
Lemma rev_repeat {A} (x : A) n : rev (repeat x n) = repeat x n.
Proof.
  induction n as [|n IH]; [reflexivity|]. cbn [repeat rev]. rewrite IH. clear.
  induction n as [|n IH]; [reflexivity|]. cbn. now rewrite <- IH.
Qed.
Lemma rtrim_prefix l : exists k, l = rtrim l ++ repeat 32 k.
Proof.
  unfold rtrim. destruct (drop_sp_suffix (rev l)) as [k H]. exists k.
  apply (f_equal (@rev Z)) in H. rewrite rev_involutive, rev_app_distr, rev_repeat in H. exact H.
Qed.
Lemma forallb_app_l {A} (p : A -> bool) a b : forallb p (a ++ b) = true -> forallb p a = true.
Proof. rewrite forallb_app. intros H. now apply andb_true_iff in H. Qed.
Lemma rtrim_forallb p l : forallb p l = true -> forallb p (rtrim l) = true.
Proof. destruct (rtrim_prefix l) as [k H]. rewrite H at 1. apply forallb_app_l. Qed.
Lemma rtrim_last_not_sp l c r : rev (rtrim l) = c :: r -> c <> 32.
Proof.
  unfold rtrim. rewrite rev_involutive. generalize (rev l). clear. induction l as [|x l IH]; cbn [drop_sp]; [discriminate|].
  destruct (x =? 32) eqn:E; [exact IH|]. intros H. inversion H. subst. lia.
Qed.
Lemma parse_udec_nonneg l v : parse_udec l = Some v -> 0 <= v.
Proof.
  unfold parse_udec. destruct l as [|c r]; [discriminate|]. destruct (forallb is_digit (c :: r)) eqn:E; [|discriminate].
  intros H. inversion H. clear H H1. assert (forall l a, forallb is_digit l = true -> 0 <= a -> 0 <= fold_left (fun a d => a * 10 + (d - 48)) l a) as G.
  { induction l as [|d l IH]; intros a Hd Ha; [exact Ha|]. cbn [fold_left]. cbn [forallb] in Hd. apply andb_true_iff in Hd as [H1 H2].
    apply IH; [exact H2|]. unfold is_digit in H1. lia. }
  exact (G (c :: r) 0 E ltac:(lia)).
Qed.

(* ================================================================== entries, as relic's reader sees them *)
Definition enc_all (es : list ent) : bytes := concat (map ent_enc es).
(* on names without a slash (the domain of this file) Sign's normalised name is the name itself: m_cname = m_name *)
Definition mem_of (pos : Z) (e : ent) : member := mkMember (ent_name e) (zlen (e_data e)) (e_data e) pos (ent_name e).
Fixpoint mems (pos : Z) (es : list ent) : list member :=
  match es with [] => [] | e :: r => mem_of pos e :: mems (pos + zlen (ent_enc e)) r end.
Definition ent_good (e : ent) : Prop := ent_ok e = true /\ ent_name_ok e = true /\ ent_mode_ok e = true.

Lemma enc_all_cons e es : enc_all (e :: es) = ent_enc e ++ enc_all es.
Proof. reflexivity. Qed.
Lemma enc_all_app a b : enc_all (a ++ b) = enc_all a ++ enc_all b.
Proof. unfold enc_all. now rewrite map_app, concat_app. Qed.
Lemma mems_app pos a b : mems pos (a ++ b) = mems pos a ++ mems (pos + zlen (enc_all a)) b.
Proof.
  revert pos; induction a as [|e a IH]; intros pos.
  - cbn [app mems enc_all map concat]. rewrite zlen_nil. f_equal. lia.
  - cbn [app mems]. f_equal. rewrite IH, enc_all_cons, zlen_app. f_equal. f_equal. lia.
Qed.

Record ent_facts (e : ent) : Prop := mkFacts {
  ef_hlen : zlen (e_hdr e) = 60;
  ef_magic : zslice 58 60 (e_hdr e) = [96; 10];
  ef_sizefld : zslice 48 58 (e_hdr e) = spec_field 10 (spec_dec (zlen (e_data e)));
  ef_small : zlen (e_data e) < 10000000000
}.
Lemma ent_ok_facts e : ent_ok e = true -> ent_facts e.
Proof.
  unfold ent_ok. intros H. apply andb_true_iff in H as [H H4]. apply andb3 in H as [H1 [H2 H3]].
  constructor; [lia|now apply bytes_eqb_eq|now apply bytes_eqb_eq|lia].
Qed.
Lemma zlen_ent_enc e : ent_ok e = true -> zlen (ent_enc e) = 60 + zlen (e_data e) + zlen (e_data e) mod 2.
Proof. intros H. destruct (ent_ok_facts e H). unfold ent_enc. rewrite !zlen_app, zlen_pad. lia. Qed.

(* the size field: canonical decimal, read back by both readers *)
Lemma spec_dec_last_digit z c r : 0 <= z -> rev (spec_dec z) = c :: r -> c <> 32.
Proof.
  intros Hz E. pose proof (spec_dec_digits z Hz) as Hd. apply Forall_rev in Hd. rewrite E in Hd. inversion Hd. lia.
Qed.
Lemma size_field_relic z : 0 <= z < 10 ^ 64 -> go_parse_int (ar_trim (spec_field 10 (spec_dec z))) = z.
Proof.
  intros Hz. unfold spec_field.
  rewrite ar_trim_rtrim.
  - rewrite rtrim_field; [now apply go_parse_int_dec|]. intros c r. now apply spec_dec_last_digit.
  - pose proof (spec_dec_digits z (proj1 Hz)) as Hd. destruct (spec_dec z) as [|c r] eqn:E; [exfalso; now apply (spec_dec_nonempty z)|].
    cbn [app]. inversion Hd. lia.
Qed.
Lemma size_field_spec z : 0 <= z < 10 ^ 64 -> spec_parse_size (spec_field 10 (spec_dec z)) = Some z.
Proof.
  intros Hz. unfold spec_parse_size, spec_field. rewrite rtrim_field; [now apply parse_udec_spec_dec|].
  intros c r. now apply spec_dec_last_digit.
Qed.

(* the name field *)
Lemma if_same {A} (b : bool) (x : A) : (if b then x else x) = x.
Proof. destruct b; reflexivity. Qed.
Lemma name_field_relic e : ent_name_ok e = true -> ar_trim (zslice 0 16 (e_hdr e)) = ent_name e /\ has_slash (ent_name e) = false.
Proof.
  unfold ent_name_ok, ent_name. intros H. apply andb_true_iff in H as [H1 H2]. split.
  - apply ar_trim_rtrim. destruct (zslice 0 16 (e_hdr e)) as [|c r]; [discriminate|]. lia.
  - apply rtrim_forallb in H1. unfold has_slash. revert H1. generalize (rtrim (zslice 0 16 (e_hdr e))). clear. intros l.
    induction l as [|c l IH]; [reflexivity|]. cbn [forallb existsb]. intros H. apply andb_true_iff in H as [H1 H2].
    rewrite IH by assumption. unfold name_char_ok in H1. lia.
Qed.
Lemma gpg_flag (verify : bool) n : (if verify then deb_v_is_gpg n else deb_is_gpg n) = has_prefix n spec_gpg.
Proof. destruct verify; reflexivity. Qed.

Lemma name_field_norm e : ent_name_ok e = true -> deb_norm (ent_name e) = ent_name e.
Proof.
  intros H. destruct (name_field_relic e H) as [Hn Hs]. apply deb_norm_noslash; [exact Hs|]. rewrite <- Hn.
  unfold ent_name_ok in H. apply andb_true_iff in H as [_ H]. destruct (zslice 0 16 (e_hdr e)); [discriminate|]. cbn [ar_trim]. discriminate.
Qed.
(* one member *)
Lemma scan_step fuel verify chk pos e rest : ent_good e ->
  ar_scan (S fuel) verify chk pos (ent_enc e ++ rest) =
    if negb (ent_is_sig e) && negb (chk (ent_name e) (e_data e)) then Err E_CONTROL
    else r <- ar_scan fuel verify chk (pos + zlen (ent_enc e)) rest ;; Ok (mem_of pos e :: fst r, snd r).
Proof.
  intros [Hok [Hname Hmode]]. destruct (ent_ok_facts e Hok) as [H60 Hmag Hsz Hsmall].
  destruct (name_field_relic e Hname) as [Hn Hslash].
  set (n := zlen (e_data e)) in *. assert (0 <= n) as Hn0 by apply zlen_nonneg.
  set (padb := if Z.odd n then [10] else @nil Z).
  assert (zlen padb = n mod 2) as Hpad by apply zlen_pad.
  assert (ent_enc e ++ rest = e_hdr e ++ e_data e ++ padb ++ rest) as Hl by (unfold ent_enc; fold n; fold padb; now rewrite <- !app_assoc).
  assert (zlen (ent_enc e ++ rest) = 60 + n + n mod 2 + zlen rest) as Hlen by (rewrite Hl, !zlen_app; lia).
  assert (ztake 60 (ent_enc e ++ rest) = e_hdr e) as Ht by (rewrite Hl, <- H60; apply ztake_app_exact).
  assert (zdrop 60 (ent_enc e ++ rest) = e_data e ++ padb ++ rest) as Hd by (rewrite Hl, <- H60; apply zdrop_app_exact).
  pose proof (zlen_nonneg rest) as Hr0.
  cbn [ar_scan]. rewrite Ht, Hd, Hlen.
  replace (60 + n + n mod 2 + zlen rest =? 0) with false by lia.
  replace (60 + n + n mod 2 + zlen rest <? 60) with false by lia.
  unfold ent_mode_ok in Hmode. replace (zlen (ar_trim (zslice 40 48 (e_hdr e))) <? 3) with false by lia.
  rewrite Hn, (name_field_norm e Hname), if_same, gpg_flag, Hsz. fold (ent_is_sig e).
  rewrite size_field_relic by lia. fold n. replace (n <? 0) with false by lia.
  assert (ztake n (e_data e ++ padb ++ rest) = e_data e) as -> by (unfold n; apply ztake_app_exact).
  destruct (negb (ent_is_sig e) && negb (chk (ent_name e) (e_data e))); [reflexivity|].
  rewrite !zlen_app, Hpad. fold n. replace (n + (n mod 2 + zlen rest) <? n + n mod 2) with false by lia.
  assert (zdrop (n + n mod 2) (e_data e ++ padb ++ rest) = rest) as ->.
  { rewrite app_assoc. replace (n + n mod 2) with (zlen (e_data e ++ padb)) by (rewrite zlen_app; lia). apply zdrop_app_exact. }
  replace (pos + 60 + n + n mod 2) with (pos + zlen (ent_enc e)) by (rewrite zlen_ent_enc by assumption; fold n; lia).
  reflexivity.
Qed.

(* ================================================================== relic's reader on a specified archive *)
Definition chk_all (chk : bytes -> bytes -> bool) (es : list ent) : bool :=
  forallb (fun e => ent_is_sig e || chk (ent_name e) (e_data e)) es.

Lemma ent_enc_len e : ent_ok e = true -> (60 <= length (ent_enc e))%nat.
Proof. intros H. pose proof (zlen_ent_enc e H) as E. pose proof (zlen_nonneg (e_data e)). unfold zlen in *. lia. Qed.

Lemma scan_all verify chk : forall es fuel pos, Forall ent_good es -> (length (enc_all es) <= fuel)%nat ->
  ar_scan fuel verify chk pos (enc_all es) =
    if chk_all chk es then Ok (mems pos es, pos + zlen (enc_all es)) else Err E_CONTROL.
Proof.
  induction es as [|e es IH]; intros fuel pos Hg Hf.
  - cbn [enc_all map concat chk_all forallb mems]. rewrite zlen_nil, Z.add_0_r. destruct fuel; reflexivity.
  - inversion Hg as [|? ? He Hes]; subst. rewrite enc_all_cons in *. rewrite app_length in Hf.
    pose proof (ent_enc_len e (proj1 He)) as H60. destruct fuel as [|fuel]; [lia|].
    rewrite scan_step by assumption. cbn [chk_all forallb]. fold (chk_all chk es).
    rewrite <- negb_orb. destruct (ent_is_sig e || chk (ent_name e) (e_data e)); cbn [negb andb]; [|reflexivity].
    rewrite IH by (auto; lia). destruct (chk_all chk es); cbn [bind fst snd mems]; [|reflexivity].
    rewrite zlen_app. do 2 f_equal. lia.
Qed.

Lemma zlen_magic : zlen spec_ar_magic = 8.
Proof. reflexivity. Qed.
Lemma members_spec verify chk es : Forall ent_good es ->
  ar_members verify chk (ar_spec_file es) =
    if chk_all chk es then Ok (mems 8 es, zlen (ar_spec_file es)) else Err E_CONTROL.
Proof.
  intros Hg. unfold ar_members, ar_spec_file. fold (enc_all es).
  replace (zdrop 8 (spec_ar_magic ++ enc_all es)) with (enc_all es) by (symmetry; apply (zdrop_app_exact spec_ar_magic)).
  rewrite zlen_app, zlen_magic. pose proof (zlen_nonneg (enc_all es)). replace (Z.min 8 (8 + zlen (enc_all es))) with 8 by lia.
  rewrite scan_all by (auto; rewrite app_length; lia). destruct (chk_all chk es); reflexivity.
Qed.

(* ================================================================== the strict reader of the specification *)
Lemma spec_ents_sound : forall fuel l es, ar_spec_ents fuel l = Some es -> l = enc_all es.
Proof.
  induction fuel as [|fuel IH]; intros l es H; [discriminate|]. cbn [ar_spec_ents] in H.
  destruct l as [|x l']; [inversion H; reflexivity|]. set (l := x :: l') in *.
  destruct (zlen l <? 60) eqn:E60; [discriminate|].
  destruct (negb (bytes_eqb (zslice 58 60 (ztake 60 l)) [96; 10])); [discriminate|].
  destruct (spec_parse_size (zslice 48 58 (ztake 60 l))) as [n|] eqn:En; [|discriminate].
  set (body := zdrop 60 l) in *.
  destruct (zlen body <? n + (if Z.odd n then 1 else 0)) eqn:Eb; [discriminate|].
  destruct (Z.odd n && negb (bytes_eqb (zslice n (n + 1) body) [10])) eqn:Ep; [discriminate|].
  destruct (ar_spec_ents fuel (zdrop (n + (if Z.odd n then 1 else 0)) body)) as [es'|] eqn:Er; [|discriminate].
  inversion H; subst es. apply IH in Er.
  assert (0 <= n) as Hn0 by (unfold spec_parse_size in En; eapply parse_udec_nonneg; exact En).
  assert (zlen (ztake n body) = n) as Hn by (apply zlen_ztake; destruct (Z.odd n); lia).
  rewrite enc_all_cons. unfold ent_enc. cbn [e_hdr e_data]. rewrite Hn, <- Er.
  rewrite <- (ztake_zdrop 60 l) at 1. rewrite <- !app_assoc. f_equal. fold body.
  rewrite <- (ztake_zdrop n body) at 1. f_equal.
  destruct (Z.odd n) eqn:Eo.
  - cbn [andb] in Ep. apply negb_false_iff, bytes_eqb_eq in Ep. unfold zslice in Ep. replace (n + 1 - n) with 1 in Ep by lia.
    rewrite <- (ztake_zdrop 1 (zdrop n body)), Ep. rewrite zdrop_zdrop by lia. replace (1 + n) with (n + 1) by lia. reflexivity.
  - cbn [app]. now rewrite Z.add_0_r.
Qed.
Lemma spec_parse_sound f es : ar_spec_parse f = Some es -> f = ar_spec_file es.
Proof.
  unfold ar_spec_parse, ar_spec_file. destruct (bytes_eqb (ztake 8 f) spec_ar_magic) eqn:E; [|discriminate].
  apply bytes_eqb_eq in E. intros H. apply spec_ents_sound in H. fold (enc_all es). rewrite <- H, <- E. symmetry. apply ztake_zdrop.
Qed.

Lemma spec_ents_complete : forall es fuel, Forall (fun e => ent_ok e = true) es -> (length (enc_all es) < fuel)%nat ->
  ar_spec_ents fuel (enc_all es) = Some es.
Proof.
  induction es as [|e es IH]; intros fuel Hg Hf.
  - destruct fuel; [cbn in Hf; lia|reflexivity].
  - inversion Hg as [|? ? Hok Hes]; subst. rewrite enc_all_cons in *. rewrite app_length in Hf.
    pose proof (ent_enc_len e Hok) as H60. destruct fuel as [|fuel]; [lia|].
    destruct (ent_ok_facts e Hok) as [Hh Hmag Hsz Hsmall].
    set (rest := enc_all es) in *. set (n := zlen (e_data e)) in *. assert (0 <= n) as Hn0 by apply zlen_nonneg.
    set (padb := if Z.odd n then [10] else @nil Z).
    assert (zlen padb = n mod 2) as Hpad by apply zlen_pad.
    assert (ent_enc e ++ rest = e_hdr e ++ e_data e ++ padb ++ rest) as Hl by (unfold ent_enc; fold n; fold padb; now rewrite <- !app_assoc).
    assert (zlen (ent_enc e ++ rest) = 60 + n + n mod 2 + zlen rest) as Hlen by (rewrite Hl, !zlen_app; lia).
    assert (ztake 60 (ent_enc e ++ rest) = e_hdr e) as Ht by (rewrite Hl, <- Hh; apply ztake_app_exact).
    assert (zdrop 60 (ent_enc e ++ rest) = e_data e ++ padb ++ rest) as Hd by (rewrite Hl, <- Hh; apply zdrop_app_exact).
    pose proof (zlen_nonneg rest) as Hr0.
    cbn [ar_spec_ents]. destruct (ent_enc e ++ rest) as [|x l'] eqn:El; [rewrite zlen_nil in Hlen; lia|]. rewrite <- El in *.
    rewrite Ht, Hd, Hlen. replace (60 + n + n mod 2 + zlen rest <? 60) with false by lia.
    rewrite Hmag, bytes_eqb_refl. cbn [negb]. rewrite Hsz, size_field_spec by (fold n; lia). fold n.
    rewrite !zlen_app, Hpad. fold n. rewrite <- Zodd_mod2.
    replace (n + (n mod 2 + zlen rest) <? n + n mod 2) with false by lia.
    assert (Z.odd n && negb (bytes_eqb (zslice n (n + 1) (e_data e ++ padb ++ rest)) [10]) = false) as ->.
    { unfold padb. destruct (Z.odd n); [|reflexivity]. cbn [andb].
      rewrite (zslice_at (e_data e) [10] rest n (n + 1)) by (auto; cbn; lia). reflexivity. }
    assert (zdrop (n + n mod 2) (e_data e ++ padb ++ rest) = rest) as ->.
    { rewrite app_assoc. replace (n + n mod 2) with (zlen (e_data e ++ padb)) by (rewrite zlen_app; lia). apply zdrop_app_exact. }
    unfold rest. rewrite IH by (auto; lia).
    assert (ztake n (e_data e ++ padb ++ enc_all es) = e_data e) as -> by (unfold n; apply ztake_app_exact).
    destruct e; reflexivity.
Qed.
Lemma spec_parse_complete es : Forall (fun e => ent_ok e = true) es -> ar_spec_parse (ar_spec_file es) = Some es.
Proof.
  intros H. unfold ar_spec_parse, ar_spec_file. fold (enc_all es).
  replace (ztake 8 (spec_ar_magic ++ enc_all es)) with spec_ar_magic by (symmetry; apply (ztake_app_exact spec_ar_magic)).
  rewrite bytes_eqb_refl.
  replace (zdrop 8 (spec_ar_magic ++ enc_all es)) with (enc_all es) by (symmetry; apply (zdrop_app_exact spec_ar_magic)).
  apply spec_ents_complete; [exact H|]. rewrite app_length. lia.
Qed.

(* ================================================================== the slot: last member named _gpg<role> *)
Definition is_slot (role : bytes) (e : ent) : bool := bytes_eqb (ent_name e) (spec_sig_name role).

Lemma last_occ {A} (p : A -> bool) : forall l,
  Forall (fun x => p x = false) l \/ exists a x b, l = a ++ x :: b /\ p x = true /\ Forall (fun y => p y = false) b.
Proof.
  induction l as [|x l [IH|[a [y [b [-> [Hy Hb]]]]]]].
  - left. constructor.
  - destruct (p x) eqn:E; [right; exists [], x, l; auto|left; constructor; auto].
  - right. exists (x :: a), y, b. auto.
Qed.
Lemma replace_last_none p new es : Forall (fun e => p e = false) es -> replace_last p new es = None.
Proof. induction 1 as [|e es He Hes IH]; [reflexivity|]. cbn [replace_last]. now rewrite IH, He. Qed.
Lemma replace_last_some p new : forall a x b, p x = true -> Forall (fun e => p e = false) b ->
  replace_last p new (a ++ x :: b) = Some (a ++ new :: b).
Proof.
  induction a as [|y a IH]; intros x b Hx Hb; cbn [app replace_last].
  - now rewrite (replace_last_none p new b Hb), Hx.
  - now rewrite IH.
Qed.
Lemma slot_fold filename : forall ms acc, Forall (fun m => deb_slot_hit filename m = false) ms ->
  fold_left (fun acc m => if deb_slot_hit filename m then Some m else acc) ms acc = acc.
Proof. induction ms as [|m ms IH]; intros acc H; [reflexivity|]. inversion H as [|? ? Hm Hms]; subst. cbn [fold_left]. rewrite Hm. now apply IH. Qed.
Lemma mems_forall (P : bytes -> Prop) : forall es pos, Forall (fun e => P (ent_name e)) es -> Forall (fun m => P (m_cname m)) (mems pos es).
Proof. induction es as [|e es IH]; intros pos H; [constructor|]. inversion H; subst. cbn [mems]. constructor; auto. Qed.

Lemma deb_slot_none role es pos : Forall (fun e => is_slot role e = false) es -> deb_slot (deb_filename role) (mems pos es) = None.
Proof.
  intros H. unfold deb_slot. apply slot_fold.
  apply (mems_forall (fun n => (deb_slot_before_skip || negb (deb_is_gpg n)) && deb_is_slot n (deb_filename role) = false)). exact H.
Qed.
Lemma deb_slot_some role a x b pos : is_slot role x = true -> Forall (fun e => is_slot role e = false) b ->
  deb_slot (deb_filename role) (mems pos (a ++ x :: b)) = Some (mem_of (pos + zlen (enc_all a)) x).
Proof.
  intros Hx Hb. unfold deb_slot. rewrite mems_app, fold_left_app. cbn [mems fold_left].
  change (deb_slot_hit (deb_filename role) (mem_of (pos + zlen (enc_all a)) x)) with (is_slot role x). rewrite Hx.
  apply slot_fold. apply (mems_forall (fun n => (deb_slot_before_skip || negb (deb_is_gpg n)) && deb_is_slot n (deb_filename role) = false)). exact Hb.
Qed.

(* ================================================================== the member written by relic *)
Definition new_ent (role : bytes) (mtime : Z) (blob : bytes) : ent :=
  mkEnt (ar_whdr (spec_sig_name role) mtime deb_hdr_mode (zlen blob)) blob.
Lemma new_ent_enc role mtime blob :
  ar_wmember (deb_hdr_name (deb_filename role)) mtime deb_hdr_mode blob = ent_enc (new_ent role mtime blob).
Proof. unfold ar_wmember, ent_enc, new_ent. cbn [e_hdr e_data]. rewrite odd_pad_eq. reflexivity. Qed.

Lemma zslice_skip {A} (a r : list A) k lo hi : zlen a = k -> k <= lo -> zslice lo hi (a ++ r) = zslice (lo - k) (hi - k) r.
Proof. intros <- H. unfold zslice. rewrite zdrop_app_r by lia. f_equal. lia. Qed.

Lemma role_ok_facts role : role_ok role = true ->
  1 <= zlen role <= 12 /\ Forall (fun c => 97 <= c <= 122) role.
Proof.
  unfold role_ok. intros H. apply andb3 in H as [H1 [H2 H3]]. split; [lia|].
  rewrite forallb_forall in H3. apply Forall_forall. intros c Hc. specialize (H3 c Hc). lia.
Qed.
Lemma sig_name_last role c r : role_ok role = true -> rev (spec_sig_name role) = c :: r -> c <> 32.
Proof.
  intros H E. destruct (role_ok_facts role H) as [Hl Hc]. unfold spec_sig_name in E. rewrite rev_app_distr in E.
  destruct (rev role) as [|c' r'] eqn:Er.
  - apply (f_equal (@rev Z)) in Er. rewrite rev_involutive in Er. subst role. cbn in Hl. lia.
  - cbn [app] in E. inversion E. subst c'. apply Forall_rev in Hc. rewrite Er in Hc. inversion Hc. lia.
Qed.

Lemma new_ent_good role mtime blob : role_ok role = true -> zlen blob < 10000000000 ->
  ent_good (new_ent role mtime blob) /\ ent_name (new_ent role mtime blob) = spec_sig_name role.
Proof.
  intros Hr Hb. destruct (role_ok_facts role Hr) as [Hl Hc]. pose proof (zlen_nonneg blob) as Hb0.
  set (F1 := pad_sp 16 (spec_sig_name role)). set (F2 := pad_sp 12 (fmt_int mtime)). set (F3 := pad_sp 6 (fmt_int 0)).
  set (F5 := pad_sp 8 ([49; 48; 48] ++ fmt_base 8 deb_hdr_mode)). set (F6 := pad_sp 10 (fmt_int (zlen blob))).
  assert (e_hdr (new_ent role mtime blob) = F1 ++ F2 ++ F3 ++ F3 ++ F5 ++ F6 ++ [96; 10]) as Hh by reflexivity.
  assert (zlen F1 = 16 /\ zlen F2 = 12 /\ zlen F3 = 6 /\ zlen F5 = 8 /\ zlen F6 = 10) as [L1 [L2 [L3 [L5 L6]]]]
    by (unfold F1, F2, F3, F5, F6; rewrite !zlen_pad_sp; repeat split; reflexivity).
  assert (length (spec_sig_name role) <= 16)%nat as Hnl by (unfold spec_sig_name; rewrite app_length; unfold zlen in Hl; cbn; lia).
  assert (F1 = spec_field 16 (spec_sig_name role)) as E1 by (apply pad_sp_short; exact Hnl).
  assert (F6 = spec_field 10 (spec_dec (zlen blob))) as E6.
  { unfold F6. rewrite fmt_int_nonneg by lia. apply pad_sp_short. apply spec_dec_length; [|lia]. change (10 ^ Z.of_nat 10) with 10000000000. lia. }
  assert (zslice 0 16 (e_hdr (new_ent role mtime blob)) = F1) as S1 by (rewrite Hh; now apply zslice_0).
  assert (zslice 40 48 (e_hdr (new_ent role mtime blob)) = F5) as S5.
  { rewrite Hh. rewrite (zslice_skip F1 _ 16) by (auto; lia). rewrite (zslice_skip F2 _ 12) by (auto; lia).
    rewrite (zslice_skip F3 _ 6) by (auto; lia). rewrite (zslice_skip F3 _ 6) by (auto; lia). now apply zslice_0. }
  assert (zslice 48 58 (e_hdr (new_ent role mtime blob)) = F6) as S6.
  { rewrite Hh. rewrite (zslice_skip F1 _ 16) by (auto; lia). rewrite (zslice_skip F2 _ 12) by (auto; lia).
    rewrite (zslice_skip F3 _ 6) by (auto; lia). rewrite (zslice_skip F3 _ 6) by (auto; lia).
    rewrite (zslice_skip F5 _ 8) by (auto; lia). now apply zslice_0. }
  assert (zslice 58 60 (e_hdr (new_ent role mtime blob)) = [96; 10]) as S7.
  { rewrite Hh. rewrite (zslice_skip F1 _ 16) by (auto; lia). rewrite (zslice_skip F2 _ 12) by (auto; lia).
    rewrite (zslice_skip F3 _ 6) by (auto; lia). rewrite (zslice_skip F3 _ 6) by (auto; lia).
    rewrite (zslice_skip F5 _ 8) by (auto; lia). rewrite (zslice_skip F6 _ 10) by (auto; lia). reflexivity. }
  assert (ent_name (new_ent role mtime blob) = spec_sig_name role) as En.
  { unfold ent_name. rewrite S1, E1. unfold spec_field. apply rtrim_field. intros c r. now apply sig_name_last. }
  split; [|exact En]. split; [|split].
  - unfold ent_ok. rewrite S7, S6, E6, Hh, !zlen_app, L1, L2, L3, L5, L6. change (e_data (new_ent role mtime blob)) with blob. rewrite !bytes_eqb_refl.
    change (zlen [96; 10]) with 2. replace (zlen blob <? 10000000000) with true by lia. reflexivity.
  - unfold ent_name_ok. rewrite S1, E1. unfold spec_field, spec_sig_name. rewrite <- app_assoc, !forallb_app.
    apply andb_true_iff. split; [apply andb_true_iff; split; [reflexivity|apply andb_true_iff; split]|reflexivity].
    + apply forallb_forall. intros c Hin. rewrite Forall_forall in Hc. specialize (Hc c Hin). unfold name_char_ok. lia.
    + generalize (16 - length (spec_gpg ++ role))%nat. intros k. induction k as [|k IH]; [reflexivity|]. cbn [repeat forallb]. now rewrite IH.
  - unfold ent_mode_ok. rewrite S5. reflexivity.
Qed.
Lemma sig_name_is_sig role e : ent_name e = spec_sig_name role -> ent_is_sig e = true.
Proof. intros H. unfold ent_is_sig. rewrite H. apply has_prefix_app. Qed.

(* ================================================================== deb_scan on a specified archive *)
Definition nonsig (e : ent) : bool := negb (ent_is_sig e).
Definition has_control (es : list ent) : bool := existsb (fun e => deb_is_control (ent_name e)) (filter nonsig es).
Definition ent_ser (e : ent) : bytes :=
  pad_sp 16 (ent_name e) ++ be_enc 8 (zlen (e_data e)) ++ be_enc 8 (zlen (e_data e)) ++ e_data e.

Lemma signed_mems_control : forall es pos,
  existsb (fun m => deb_is_control (m_cname m)) (deb_signed_members (mems pos es)) = has_control es.
Proof.
  induction es as [|e es IH]; intros pos; [reflexivity|]. unfold deb_signed_members, has_control in *. cbn [mems filter].
  change (deb_is_gpg (m_cname (mem_of pos e))) with (ent_is_sig e). unfold nonsig at 1.
  destruct (ent_is_sig e); cbn [negb existsb]; [apply IH|]. now rewrite IH.
Qed.
Lemma signed_mems_ser : forall es pos,
  ser_members (deb_signed_members (mems pos es)) = concat (map ent_ser (filter nonsig es)).
Proof.
  induction es as [|e es IH]; intros pos; [reflexivity|]. unfold deb_signed_members, ser_members in *. cbn [mems filter].
  change (deb_is_gpg (m_cname (mem_of pos e))) with (ent_is_sig e). unfold nonsig at 1.
  destruct (ent_is_sig e); cbn [negb map concat]; [apply IH|]. now rewrite IH.
Qed.
Lemma deb_scan_spec ctl es : Forall ent_good es ->
  deb_scan ctl (ar_spec_file es) =
    if chk_all (deb_chk ctl) es
    then (if has_control es then Ok (mkScan (mems 8 es) (zlen (ar_spec_file es))) else Err E_NOCONTROL)
    else Err E_CONTROL.
Proof.
  intros Hg. unfold deb_scan. rewrite members_spec by assumption. destruct (chk_all (deb_chk ctl) es); [|reflexivity].
  cbn [bind fst snd]. unfold deb_no_control. rewrite signed_mems_control. destruct (has_control es); reflexivity.
Qed.

Lemma spec_sign_none role new es : Forall (fun e => is_slot role e = false) es -> spec_sign role new es = es ++ [new].
Proof. intros H. pose proof (replace_last_none (is_slot role) new es H) as E. unfold is_slot in E. unfold spec_sign. now rewrite E. Qed.
Lemma spec_sign_some role new a x b : is_slot role x = true -> Forall (fun e => is_slot role e = false) b ->
  spec_sign role new (a ++ x :: b) = a ++ new :: b.
Proof. intros Hx Hb. pose proof (replace_last_some (is_slot role) new a x b Hx Hb) as E. unfold is_slot in E. unfold spec_sign. now rewrite E. Qed.

(* C05 / C03: on a specified archive relic's patch is the specification's signing operation *)
Lemma deb_embed_spec ctl role mtime es blob : Forall ent_good es -> chk_all (deb_chk ctl) es = true -> has_control es = true ->
  deb_embed ctl role mtime (ar_spec_file es) blob = Ok (ar_spec_file (spec_sign role (new_ent role mtime blob) es)).
Proof.
  intros Hg Hc Hctl. unfold deb_embed. rewrite deb_scan_spec, Hc, Hctl by assumption. cbn [bind ds_members ds_n].
  rewrite new_ent_enc. set (new := new_ent role mtime blob). set (f := ar_spec_file es).
  destruct (last_occ (is_slot role) es) as [Hn|[a [x [b [Ees [Hx Hb]]]]]].
  - rewrite deb_slot_none by assumption. rewrite spec_sign_none by assumption.
    unfold deb_append_cond, deb_patch_eof. cbn [Z.eqb]. rewrite Z.ltb_irrefl.
    rewrite ztake_all by lia. rewrite zdrop_all by lia. rewrite app_nil_r.
    unfold f, ar_spec_file. fold (enc_all es). fold (enc_all (es ++ [new])). rewrite enc_all_app, enc_all_cons.
    unfold enc_all at 3. cbn [map concat]. now rewrite app_nil_r, <- app_assoc.
  - subst es. rewrite deb_slot_some by assumption. rewrite spec_sign_some by assumption.
    apply Forall_app in Hg as [Hga Hgxb]. inversion Hgxb as [|? ? Hgx Hgb]; subst.
    pose proof (zlen_ent_enc x (proj1 Hgx)) as Lx. pose proof (zlen_nonneg (e_data x)) as Hx0. pose proof (zlen_nonneg (enc_all a)) as Ha0.
    cbn [m_off m_size mem_of]. unfold deb_patch_off, deb_patch_len, deb_append_cond.
    rewrite Z.quot_div_nonneg by lia.
    replace (60 + (zlen (e_data x) + 1) / 2 * 2) with (zlen (ent_enc x)) by (rewrite Lx; lia).
    replace (8 + zlen (enc_all a) + 60 - 60) with (8 + zlen (enc_all a)) by lia.
    replace (8 + zlen (enc_all a) =? 0) with false by lia.
    assert (f = (spec_ar_magic ++ enc_all a) ++ ent_enc x ++ enc_all b) as Ef
      by (unfold f, ar_spec_file; fold (enc_all (a ++ x :: b)); rewrite enc_all_app, enc_all_cons, <- app_assoc; reflexivity).
    assert (zlen (spec_ar_magic ++ enc_all a) = 8 + zlen (enc_all a)) as Lm by (rewrite zlen_app; reflexivity).
    replace (zlen f <? 8 + zlen (enc_all a)) with false by (rewrite Ef, zlen_app, Lm, zlen_app; pose proof (zlen_nonneg (enc_all b)); lia).
    rewrite <- Lm. rewrite Ef at 1. rewrite ztake_app_exact.
    replace (zdrop (zlen (spec_ar_magic ++ enc_all a) + zlen (ent_enc x)) f) with (enc_all b).
    2:{ rewrite Ef, app_assoc, <- zlen_app. symmetry. apply zdrop_app_exact. }
    unfold ar_spec_file. fold (enc_all (a ++ new :: b)). rewrite enc_all_app, enc_all_cons, <- !app_assoc. reflexivity.
Qed.

(* ================================================================== the well-formedness domain, decomposed *)
Lemma forallb_Forall {A} (p : A -> bool) l : forallb p l = true <-> Forall (fun x => p x = true) l.
Proof. rewrite forallb_forall, Forall_forall. tauto. Qed.
Lemma good_of_forallb es : forallb ent_ok es = true -> forallb ent_name_ok es = true -> forallb ent_mode_ok es = true -> Forall ent_good es.
Proof.
  rewrite !forallb_forall, Forall_forall. intros H1 H2 H3 e He. split; [|split]; auto.
Qed.
Lemma forallb_of_good es : Forall ent_good es -> forallb ent_ok es = true /\ forallb ent_name_ok es = true /\ forallb ent_mode_ok es = true.
Proof.
  rewrite !forallb_forall, Forall_forall. intros H. repeat split; intros e He; destruct (H e He) as [H1 [H2 H3]]; assumption.
Qed.

Record wf_form (ctl : bytes -> bytes -> bool) (f : bytes) (es : list ent) : Prop := mkWf {
  wf_parse : ar_spec_parse f = Some es;
  wf_file : f = ar_spec_file es;
  wf_good : Forall ent_good es;
  wf_distinct : distinct_names (map ent_name (filter nonsig es)) = true;
  wf_chk : chk_all (deb_chk ctl) es = true;
  wf_ctl : has_control es = true
}.
Lemma deb_wf_form ctl f : deb_wf ctl f = true -> exists es, wf_form ctl f es.
Proof.
  unfold deb_wf. destruct (ar_spec_parse f) as [es|] eqn:Ep; [|discriminate]. intros H.
  apply andb_true_iff in H as [H H5]. apply andb_true_iff in H as [H H4]. apply andb3 in H as [H1 [H2 H3]].
  pose proof (spec_parse_sound _ _ Ep) as Ef. pose proof (good_of_forallb es H1 H2 H3) as Hg.
  exists es. rewrite Ef in H5. rewrite deb_scan_spec in H5 by assumption.
  destruct (chk_all (deb_chk ctl) es) eqn:Ec; [|discriminate]. destruct (has_control es) eqn:Eh; [|discriminate].
  constructor; auto.
Qed.
Lemma wf_form_wf ctl f es : ar_spec_parse f = Some es -> f = ar_spec_file es -> Forall ent_good es ->
  distinct_names (map ent_name (filter nonsig es)) = true -> chk_all (deb_chk ctl) es = true -> has_control es = true ->
  deb_wf ctl f = true.
Proof.
  intros Hp Hf Hg Hd Hc Hh. unfold deb_wf. rewrite Hp. destruct (forallb_of_good es Hg) as [H1 [H2 H3]]. rewrite H1, H2, H3.
  fold nonsig. rewrite Hd, Hf, deb_scan_spec, Hc, Hh by assumption. reflexivity.
Qed.

(* ================================================================== signing at the level of entries *)
Lemma is_slot_sig role x : is_slot role x = true -> ent_is_sig x = true.
Proof. unfold is_slot. intros H. apply bytes_eqb_eq in H. eapply sig_name_is_sig; eauto. Qed.
Lemma spec_sign_cases role new es : exists a old b,
  es = a ++ old ++ b /\ spec_sign role new es = a ++ new :: b /\ Forall (fun e => is_slot role e = false) b /\
  ((old = [] /\ b = []) \/ exists x, old = [x] /\ is_slot role x = true).
Proof.
  destruct (last_occ (is_slot role) es) as [Hn|[a [x [b [-> [Hx Hb]]]]]].
  - exists es, [], []. rewrite spec_sign_none by assumption. rewrite app_nil_r. repeat split; auto.
  - exists a, [x], b. rewrite spec_sign_some by assumption. repeat split; auto. right. eauto.
Qed.
Lemma filter_nonsig_sign role new es : ent_is_sig new = true -> filter nonsig (spec_sign role new es) = filter nonsig es.
Proof.
  intros Hn. assert (nonsig new = false) as Nn by (unfold nonsig; now rewrite Hn).
  destruct (spec_sign_cases role new es) as [a [old [b [-> [-> [_ [[-> ->]|[x [-> Hx]]]]]]]]].
  - rewrite !filter_app. cbn [filter app]. now rewrite Nn.
  - assert (nonsig x = false) as Nx by (unfold nonsig; now rewrite (is_slot_sig _ _ Hx)).
    rewrite !filter_app. cbn [filter app]. now rewrite Nn, Nx.
Qed.
Lemma good_sign role new es : Forall ent_good es -> ent_good new -> Forall ent_good (spec_sign role new es).
Proof.
  intros Hg Hn. destruct (spec_sign_cases role new es) as [a [old [b [-> [-> _]]]]].
  apply Forall_app in Hg as [Ha Hob]. apply Forall_app in Hob as [_ Hb]. apply Forall_app. split; [exact Ha|constructor; assumption].
Qed.
Lemma chk_all_filter chk es : chk_all chk es = forallb (fun e => chk (ent_name e) (e_data e)) (filter nonsig es).
Proof.
  induction es as [|e es IH]; [reflexivity|]. unfold chk_all in *. cbn [forallb filter]. unfold nonsig at 1.
  destruct (ent_is_sig e); cbn [negb orb forallb]; now rewrite IH.
Qed.

Record embedded (ctl : bytes -> bytes -> bool) (role : bytes) (mtime : Z) (f blob g : bytes) (es : list ent) : Prop := mkEmb {
  em_wf : wf_form ctl f es;
  em_role : role_ok role = true;
  em_g : g = ar_spec_file (spec_sign role (new_ent role mtime blob) es);
  em_good : Forall ent_good (spec_sign role (new_ent role mtime blob) es);
  em_new : ent_name (new_ent role mtime blob) = spec_sig_name role;
  em_filter : filter nonsig (spec_sign role (new_ent role mtime blob) es) = filter nonsig es
}.
Lemma deb_embed_form ctl role mtime f blob g : deb_embed_wf ctl role mtime f blob = Ok g -> exists es, embedded ctl role mtime f blob g es.
Proof.
  unfold deb_embed_wf. destruct (deb_wf ctl f) eqn:Ew; [|discriminate]. destruct (role_ok role) eqn:Er; [|discriminate].
  destruct (zlen blob <? 10000000000) eqn:Eb; [|discriminate]. destruct (0 <=? mtime); [|discriminate]. cbn [andb].
  destruct (deb_wf_form _ _ Ew) as [es W]. intros He. exists es. destruct W as [Wp Wf Wg Wd Wc Wh].
  rewrite Wf, deb_embed_spec in He by assumption. injection He as <-.
  destruct (new_ent_good role mtime blob Er ltac:(lia)) as [Hng Hnn].
  constructor; auto.
  - constructor; auto.
  - now apply good_sign.
  - apply filter_nonsig_sign. eapply sig_name_is_sig; eauto.
Qed.
Lemma embedded_scan ctl role mtime f blob g es : embedded ctl role mtime f blob g es ->
  chk_all (deb_chk ctl) (spec_sign role (new_ent role mtime blob) es) = true /\ has_control (spec_sign role (new_ent role mtime blob) es) = true.
Proof.
  intros [W _ _ _ _ Hf]. destruct W. split.
  - rewrite chk_all_filter, Hf, <- chk_all_filter. assumption.
  - unfold has_control. rewrite Hf. assumption.
Qed.

(* ================================================================== the laws *)
Definition deb_format (ctl : bytes -> bytes -> bool) (role : bytes) (mtime : Z) : format (list (bytes * bytes)) :=
  mkFormat (list (bytes * bytes)) (deb_hashin ctl) (deb_embed_wf ctl role mtime) (deb_extract role) deb_payload.

Lemma deb_hashin_spec ctl es : Forall ent_good es -> chk_all (deb_chk ctl) es = true -> has_control es = true ->
  deb_hashin ctl (ar_spec_file es) = Ok (concat (map ent_ser (filter nonsig es))).
Proof.
  intros Hg Hc Hh. unfold deb_hashin. rewrite deb_scan_spec, Hc, Hh by assumption. cbn [bind ds_members].
  change (deb_listed_members (mems 8 es)) with (deb_signed_members (mems 8 es)). now rewrite signed_mems_ser.
Qed.
Theorem deb_law_hashin ctl role mtime : law_hashin _ (deb_format ctl role mtime).
Proof.
  unfold law_hashin, deb_format. cbn [f_embed f_hashin]. intros f b g He.
  destruct (deb_embed_form _ _ _ _ _ _ He) as [es E]. destruct (embedded_scan _ _ _ _ _ _ _ E) as [Hc Hh].
  destruct E as [W _ -> Hg _ Hf]. destruct W as [_ -> Wg _ Wc Wh].
  rewrite !deb_hashin_spec by assumption. now rewrite Hf.
Qed.

Lemma deb_payload_spec es : Forall ent_good es -> deb_payload (ar_spec_file es) = Ok (spec_payload_of es).
Proof.
  intros Hg. unfold deb_payload. rewrite spec_parse_complete; [reflexivity|].
  eapply Forall_impl; [|exact Hg]. intros e [H _]. exact H.
Qed.
Theorem deb_law_payload ctl role mtime : law_payload _ (deb_format ctl role mtime).
Proof.
  unfold law_payload, deb_format. cbn [f_embed f_payload]. intros f b g He.
  destruct (deb_embed_form _ _ _ _ _ _ He) as [es E]. destruct E as [W _ -> Hg _ Hf]. destruct W as [_ -> Wg _ _ _].
  rewrite !deb_payload_spec by assumption. unfold spec_payload_of. fold nonsig. now rewrite Hf.
Qed.

(* the verifier's view of the signature members *)
Definition sig_pairs (es : list ent) : list (bytes * bytes) :=
  map (fun e => (zdrop deb_v_role_from (ent_name e), e_data e)) (filter ent_is_sig es).
Lemma sig_pairs_mems : forall es pos,
  map (fun m => (zdrop deb_v_role_from (m_name m), m_data m)) (filter (fun m => deb_v_is_gpg (m_name m)) (mems pos es)) = sig_pairs es.
Proof.
  induction es as [|e es IH]; intros pos; [reflexivity|]. unfold sig_pairs in *. cbn [mems filter].
  change (deb_v_is_gpg (m_name (mem_of pos e))) with (ent_is_sig e). destruct (ent_is_sig e); cbn [map]; now rewrite IH.
Qed.
Lemma chk_all_true es : chk_all (fun _ _ => true) es = true.
Proof. unfold chk_all. apply forallb_forall. intros e _. apply orb_true_r. Qed.
Lemma deb_sigs_spec es : Forall ent_good es -> deb_sigs (ar_spec_file es) = Ok (sig_pairs es).
Proof. intros Hg. unfold deb_sigs. rewrite members_spec, chk_all_true by assumption. cbn [bind fst]. now rewrite sig_pairs_mems. Qed.
Lemma sig_pairs_app a b : sig_pairs (a ++ b) = sig_pairs a ++ sig_pairs b.
Proof. unfold sig_pairs. now rewrite filter_app, map_app. Qed.
Lemma lookup_keep k : forall (m : list (bytes * bytes)) (acc : option bytes), Forall (fun kv => bytes_eqb (fst kv) k = false) m ->
  fold_left (fun acc kv => if bytes_eqb (fst kv) k then Some (snd kv) else acc) m acc = acc.
Proof. induction m as [|kv m IH]; intros acc H; [reflexivity|]. inversion H as [|? ? H1 H2]; subst. cbn [fold_left]. rewrite H1. now apply IH. Qed.
Lemma zdrop_gpg role : zdrop deb_v_role_from (spec_sig_name role) = role.
Proof. unfold spec_sig_name. apply (zdrop_app_exact spec_gpg). Qed.
Lemma sig_pairs_noslot role b : Forall (fun e => is_slot role e = false) b -> Forall (fun kv => bytes_eqb (fst kv) role = false) (sig_pairs b).
Proof.
  induction 1 as [|e b He Hb IH]; [constructor|]. unfold sig_pairs in *. cbn [filter]. destruct (ent_is_sig e) eqn:Es; [|exact IH].
  cbn [map]. constructor; [|exact IH]. cbn [fst]. apply bytes_eqb_neq. intros E. unfold is_slot in He. apply bytes_eqb_neq in He. apply He.
  unfold ent_is_sig in Es. apply has_prefix_spec in Es as [r Hr]. rewrite Hr in E |- *.
  change deb_v_role_from with (zlen spec_gpg) in E. rewrite zdrop_app_exact in E. now subst r.
Qed.

Theorem deb_law_extract ctl role mtime : law_extract _ (deb_format ctl role mtime).
Proof.
  unfold law_extract, deb_format. cbn [f_embed f_extract]. intros f b g He.
  destruct (deb_embed_form _ _ _ _ _ _ He) as [es E]. destruct E as [W _ -> Hg Hn _].
  unfold deb_extract. rewrite deb_sigs_spec by assumption. cbn [bind]. f_equal.
  destruct (spec_sign_cases role (new_ent role mtime b) es) as [a [old [bb [_ [-> [Hb _]]]]]].
  change (a ++ new_ent role mtime b :: bb) with (a ++ [new_ent role mtime b] ++ bb). rewrite !sig_pairs_app.
  unfold lookup_last. rewrite !fold_left_app. rewrite lookup_keep by (now apply sig_pairs_noslot).
  unfold sig_pairs at 1. cbn [filter]. rewrite (sig_name_is_sig role _ Hn). cbn [map fold_left fst snd].
  rewrite Hn, zdrop_gpg, bytes_eqb_refl. reflexivity.
Qed.

(* C05 / C03: the signed package is the specification's signing operation applied to the parsed package; the output is again in the domain *)
Theorem deb_embed_eq_spec ctl role mtime f b g es : deb_embed_wf ctl role mtime f b = Ok g -> ar_spec_parse f = Some es ->
  g = ar_spec_file (spec_sign role (mkEnt (ar_whdr (spec_sig_name role) mtime 33188 (zlen b)) b) es).
Proof.
  intros He Hp. destruct (deb_embed_form _ _ _ _ _ _ He) as [es' E]. destruct E as [W _ -> _ _ _]. destruct W as [Wp _ _ _ _ _].
  rewrite Hp in Wp. injection Wp as <-. reflexivity.
Qed.
Theorem deb_wf_preserved ctl role mtime f b g : deb_embed_wf ctl role mtime f b = Ok g -> deb_wf ctl g = true.
Proof.
  intros He. destruct (deb_embed_form _ _ _ _ _ _ He) as [es E]. destruct (embedded_scan _ _ _ _ _ _ _ E) as [Hc Hh].
  destruct E as [W _ -> Hg _ Hf]. destruct W as [_ _ Wg Wd _ _].
  eapply wf_form_wf; eauto.
  - apply spec_parse_complete. eapply Forall_impl; [|exact Hg]. intros e [H _]. exact H.
  - now rewrite Hf.
Qed.
Theorem deb_embed_total ctl role mtime f b : deb_wf ctl f = true -> role_ok role = true -> zlen b < 10000000000 -> 0 <= mtime ->
  exists g, deb_embed_wf ctl role mtime f b = Ok g.
Proof.
  intros Hw Hr Hb Hm. unfold deb_embed_wf. rewrite Hw, Hr. replace (zlen b <? 10000000000) with true by lia. replace (0 <=? mtime) with true by lia.
  cbn [andb]. destruct (deb_wf_form _ _ Hw) as [es W]. destruct W as [_ -> Wg _ Wc Wh]. rewrite deb_embed_spec by assumption. eauto.
Qed.

(* ================================================================== pipeline theorems, symbolic cryptography *)
Section DEBCrypto.
  Variables key pubk sigv : Type.
  Variable H : Z -> bytes -> bytes.
  Variable pub : key -> pubk.
  Variable sign : key -> bytes -> sigv.
  Variable vrfy : pubk -> bytes -> sigv -> bool.
  Hypothesis sign_correct : forall k m, vrfy (pub k) m (sign k m) = true.
  Variable tbs : Z -> bytes -> bytes.
  Variable ser : sigblob pubk sigv -> bytes.
  Variable deser : bytes -> option (sigblob pubk sigv).
  Hypothesis deser_ser : forall b, deser (ser b) = Some b.

  Theorem deb_sign_then_verify : forall ctl role mtime k a f g,
    sign_file key pubk sigv H pub sign tbs ser _ (deb_format ctl role mtime) k a f = Ok g ->
    verify_file pubk sigv H vrfy tbs deser _ (deb_format ctl role mtime) g = Accept pubk (pub k) a.
  Proof.
    intros ctl role mtime. apply (sign_then_verify key pubk sigv H pub sign vrfy sign_correct tbs ser deser deser_ser _ (deb_format ctl role mtime)).
    - apply deb_law_extract.
    - apply deb_law_hashin.
  Qed.
  Theorem deb_resign_history : forall ctl role mtime hist f g k a,
    resign key pubk sigv H pub sign tbs ser _ (deb_format ctl role mtime) (hist ++ [(k, a)]) f = Ok g ->
    verify_file pubk sigv H vrfy tbs deser _ (deb_format ctl role mtime) g = Accept pubk (pub k) a
    /\ is_signed _ (deb_format ctl role mtime) g = true
    /\ deb_payload g = deb_payload f /\ deb_hashin ctl g = deb_hashin ctl f.
  Proof.
    intros ctl role mtime. apply (resign_history key pubk sigv H pub sign vrfy sign_correct tbs ser deser deser_ser _ (deb_format ctl role mtime)).
    - apply deb_law_extract.
    - apply deb_law_hashin.
    - apply deb_law_payload.
  Qed.
End DEBCrypto.

(* ================================================================== refusals *)
Lemma ar_scan_err : forall fuel verify chk pos l e, ar_scan fuel verify chk pos l = Err e ->
  e = E_SHORT \/ e = E_UNMODELLED \/ e = E_CONTROL.
Proof.
  induction fuel as [|fuel IH]; intros verify chk pos l e H; [discriminate|]. cbn [ar_scan] in H.
  repeat match type of H with
         | context [if ?c then _ else _] => destruct c eqn:?; try discriminate; try (inversion H; subst; auto; fail)
         end;
  match type of H with
  | context [ar_scan fuel ?v ?c ?p ?x] => destruct (ar_scan fuel v c p x) eqn:E; cbn [bind] in H; try discriminate; inversion H; subst; eapply IH; eauto
  end.
Qed.
(* relic refuses a package with: a truncated member header; an unreadable / unknown control.tar; no control.tar at all
   (E_UNMODELLED: a member name containing '/', which the model does not follow) *)
Theorem deb_refuses_clean ctl f e : deb_hashin ctl f = Err e ->
  e = E_SHORT \/ e = E_UNMODELLED \/ e = E_CONTROL \/ e = E_NOCONTROL.
Proof.
  unfold deb_hashin, deb_scan, ar_members. 
  destruct (ar_scan (length f) false (deb_chk ctl) (Z.min 8 (zlen f)) (zdrop 8 f)) as [r| |] eqn:E; cbn [bind]; try discriminate.
  - destruct (deb_no_control _); cbn [bind]; intros H; inversion H. auto.
  - intros H. inversion H. subst. destruct (ar_scan_err _ _ _ _ _ _ E) as [?|[?|?]]; auto.
Qed.
Theorem deb_embed_refuses_clean ctl role mtime f b e : deb_embed ctl role mtime f b = Err e -> deb_hashin ctl f = Err e \/ e = E_COPY.
Proof.
  unfold deb_embed, deb_hashin. destruct (deb_scan ctl f) as [s| |]; cbn [bind]; try (intros H; left; exact H); try discriminate.
  destruct (deb_slot _ _); destruct (deb_append_cond _); destruct (Z.ltb _ _); intros H; inversion H; auto.
Qed.

(* ================================================================== is_signed *)
Lemma sig_pairs_exists es : negb (match sig_pairs es with [] => true | _ :: _ => false end) = existsb ent_is_sig es.
Proof.
  induction es as [|e es IH]; [reflexivity|]. unfold sig_pairs in *. cbn [filter existsb]. destruct (ent_is_sig e); [reflexivity|exact IH].
Qed.
Theorem deb_is_signed_spec ctl f : deb_wf ctl f = true -> deb_is_signed f = Ok (deb_spec_signed f).
Proof.
  intros Hw. destruct (deb_wf_form _ _ Hw) as [es W]. destruct W as [Wp Wf Wg _ _ _].
  unfold deb_is_signed, deb_spec_signed. rewrite Wp. rewrite Wf, deb_sigs_spec by assumption. cbn [bind]. now rewrite sig_pairs_exists.
Qed.

(* ================================================================== C03: only the slot differs *)
Theorem deb_only_these_ranges_differ ctl role mtime f b g : deb_embed_wf ctl role mtime f b = Ok g ->
  exists pre old post, f = pre ++ old ++ post /\ g = pre ++ ar_wmember (spec_sig_name role) mtime 33188 b ++ post /\
    ((old = [] /\ post = []) \/ exists x, old = ent_enc x /\ ent_name x = spec_sig_name role).
Proof.
  intros He. destruct (deb_embed_form _ _ _ _ _ _ He) as [es E]. destruct E as [W _ -> _ _ _]. destruct W as [_ -> _ _ _ _].
  destruct (spec_sign_cases role (new_ent role mtime b) es) as [a [old [bb [-> [-> [_ Hc]]]]]].
  exists (spec_ar_magic ++ enc_all a), (enc_all old), (enc_all bb). unfold ar_spec_file.
  fold (enc_all (a ++ old ++ bb)). fold (enc_all (a ++ new_ent role mtime b :: bb)).
  rewrite !enc_all_app, enc_all_cons, <- !app_assoc. split; [reflexivity|]. split.
  - change (ar_wmember (spec_sig_name role) mtime 33188 b) with (ar_wmember (deb_hdr_name (deb_filename role)) mtime deb_hdr_mode b).
    now rewrite new_ent_enc.
  - destruct Hc as [[-> ->]|[x [-> Hx]]]; [left; split; reflexivity|right]. exists x. split.
    + unfold enc_all. cbn [map concat]. now rewrite app_nil_r.
    + unfold is_slot in Hx. now apply bytes_eqb_eq in Hx.
Qed.

(* ================================================================== C05: digest input = the specification's *)
Lemma name16 e : ent_ok e = true -> pad_sp 16 (ent_name e) = zslice 0 16 (e_hdr e).
Proof.
  intros H. destruct (ent_ok_facts e H) as [H60 _ _ _]. unfold ent_name. set (n16 := zslice 0 16 (e_hdr e)).
  assert (length n16 = 16%nat) as L.
  { unfold n16, zslice, ztake, zdrop. cbn [Z.to_nat skipn]. rewrite firstn_length. unfold zlen in H60. change (Z.to_nat (16 - 0)) with 16%nat. lia. }
  destruct (rtrim_prefix n16) as [k Hk]. assert (length n16 = (length (rtrim n16) + k)%nat) as Lk by (rewrite Hk at 1; rewrite app_length, repeat_length; reflexivity).
  rewrite pad_sp_short by lia. unfold spec_field. replace (16 - length (rtrim n16))%nat with k by lia. now rewrite <- Hk.
Qed.
Lemma ent_ser_spec e : ent_ok e = true -> ent_ser e = spec_ser (zslice 0 16 (e_hdr e), e_data e).
Proof. intros H. unfold ent_ser, spec_ser. cbn [fst snd]. now rewrite name16. Qed.
Theorem deb_hashin_eq_spec ctl f : deb_wf ctl f = true -> deb_hashin ctl f = deb_spec_hashin f.
Proof.
  intros Hw. destruct (deb_wf_form _ _ Hw) as [es W]. destruct W as [Wp Wf Wg _ Wc Wh].
  unfold deb_spec_hashin. rewrite Wp. rewrite Wf, deb_hashin_spec by assumption. f_equal. f_equal.
  unfold spec_payload_of. fold nonsig. rewrite map_map. apply map_ext_in. intros e He.
  apply filter_In in He as [He _]. rewrite Forall_forall in Wg. apply ent_ser_spec. apply (Wg e He).
Qed.

(* ================================================================== C02: equal digest inputs, equal payloads *)
Lemma app_eq_len {A} : forall (a a' b b' : list A), length a = length a' -> a ++ b = a' ++ b' -> a = a' /\ b = b'.
Proof.
  induction a as [|x a IH]; intros [|y a'] b b' L E; cbn in L; try discriminate; [auto|].
  cbn [app] in E. inversion E. subst. destruct (IH a' b b' ltac:(lia) H1) as [-> ->]. auto.
Qed.
Definition nd_ok (nd : bytes * bytes) : Prop := length (fst nd) = 16%nat /\ zlen (snd nd) < 256 ^ 8.
Lemma spec_ser_inj : forall l1 l2, Forall nd_ok l1 -> Forall nd_ok l2 -> concat (map spec_ser l1) = concat (map spec_ser l2) -> l1 = l2.
Proof.
  induction l1 as [|[n1 d1] l1 IH]; intros [|[n2 d2] l2] H1 H2 E; cbn [map concat] in E.
  - reflexivity.
  - exfalso. inversion H2 as [|? ? [L _] _]; subst. cbn [fst] in L. apply (f_equal (@length Z)) in E. unfold spec_ser in E. cbn [fst] in E.
    rewrite !app_length in E. cbn [length] in E. lia.
  - exfalso. inversion H1 as [|? ? [L _] _]; subst. cbn [fst] in L. apply (f_equal (@length Z)) in E. unfold spec_ser in E. cbn [fst] in E.
    rewrite !app_length in E. cbn [length] in E. lia.
  - inversion H1 as [|? ? [La Lb] H1']; subst. inversion H2 as [|? ? [Lc Ld] H2']; subst. cbn [fst snd] in *.
    unfold spec_ser in E. cbn [fst snd] in E. rewrite <- !app_assoc in E.
    apply app_eq_len in E as [-> E]; [|lia].
    apply app_eq_len in E as [E8 E]; [|now rewrite !be_enc_length].
    apply (f_equal be_dec) in E8. pose proof (zlen_nonneg d1). pose proof (zlen_nonneg d2).
    rewrite !be_dec_enc in E8 by (change (Z.of_nat 8) with 8; lia).
    apply app_eq_len in E as [_ E]; [|now rewrite !be_enc_length].
    apply app_eq_len in E as [-> E]; [|unfold zlen in E8; lia].
    f_equal. now apply IH.
Qed.
Lemma payload_nd_ok es : Forall ent_good es -> Forall nd_ok (spec_payload_of es).
Proof.
  intros Hg. unfold spec_payload_of. apply Forall_forall. intros nd Hin. apply in_map_iff in Hin as [e [<- He]].
  apply filter_In in He as [He _]. rewrite Forall_forall in Hg. destruct (Hg e He) as [Hok _].
  destruct (ent_ok_facts e Hok) as [H60 _ _ Hs]. split; cbn [fst snd].
  - unfold zslice, ztake, zdrop. cbn [Z.to_nat skipn]. rewrite firstn_length. unfold zlen in H60. change (Z.to_nat (16 - 0)) with 16%nat. lia.
  - change (256 ^ 8) with 18446744073709551616. lia.
Qed.
Theorem deb_protect ctl g1 g2 : deb_wf ctl g1 = true -> deb_wf ctl g2 = true ->
  deb_hashin ctl g1 = deb_hashin ctl g2 -> deb_payload g1 = deb_payload g2.
Proof.
  intros W1 W2. rewrite !deb_hashin_eq_spec by assumption.
  destruct (deb_wf_form _ _ W1) as [e1 [P1 _ G1 _ _ _]]. destruct (deb_wf_form _ _ W2) as [e2 [P2 _ G2 _ _ _]].
  unfold deb_spec_hashin, deb_payload. rewrite P1, P2. intros E. injection E as E. f_equal.
  apply spec_ser_inj; auto using payload_nd_ok.
Qed.

(* ================================================================== checkSig *)
Lemma check_lines_ok : forall lines dg, check_lines lines dg = Ok tt ->
  Forall (fun ln => lookup_last (snd ln) dg = Some (fst ln) /\ fst ln <> []) lines.
Proof.
  induction lines as [|[sums name] lines IH]; intros dg H; [constructor|]. cbn [check_lines] in H.
  unfold deb_cs_unknown, deb_cs_mismatch in H.
  destruct (lookup_last name dg) as [c|] eqn:El; [|discriminate].
  destruct (bytes_eqb c []) eqn:E1; [discriminate|]. destruct (bytes_eqb c sums) eqn:E2; [|discriminate]. cbn [negb] in H.
  apply bytes_eqb_eq in E2. subst c. apply bytes_eqb_neq in E1. constructor; [cbn [fst snd]; auto|now apply IH].
Qed.
(* what an accepted manifest guarantees: every listed file is in the archive (the last member of that name) with exactly the
   listed sums, and every member name of the archive is listed *)
Theorem deb_check_sound lines dg : deb_check lines dg = Ok tt ->
  (forall sums name, In (sums, name) lines -> lookup_last name dg = Some sums /\ sums <> []) /\
  (forall name c, In (name, c) dg -> exists sums, In (sums, name) lines).
Proof.
  unfold deb_check. destruct (check_lines lines dg) as [[]| |] eqn:E; cbn [bind]; try discriminate.
  destruct (forallb _ dg) eqn:Ef; [|discriminate]. intros _. split.
  - intros sums name Hin. pose proof (check_lines_ok _ _ E) as Hl. rewrite Forall_forall in Hl. exact (Hl _ Hin).
  - intros name c Hin. rewrite forallb_forall in Ef. specialize (Ef _ Hin). apply existsb_exists in Ef as [[s n] [Hl Hn]].
    cbn [fst snd] in Hn. apply bytes_eqb_eq in Hn. subst n. eauto.
Qed.

(* relic's own manifest passes relic's check: lines and digests built from the same (distinctly named) members *)
Lemma distinct_split k : forall x y, distinct_names (x ++ k :: y) = true -> Forall (fun n => bytes_eqb n k = false) y.
Proof.
  induction x as [|h x IH]; intros y H; cbn [app distinct_names] in H; apply andb_true_iff in H as [H1 H2].
  - apply negb_true_iff in H1. apply Forall_forall. intros n Hn. destruct (bytes_eqb n k) eqn:E; [|reflexivity].
    apply bytes_eqb_eq in E. subst n. exfalso. assert (existsb (bytes_eqb k) y = true); [|congruence].
    apply existsb_exists. exists k. split; [assumption|apply bytes_eqb_refl].
  - now apply IH.
Qed.
Lemma lookup_last_distinct (kvs : list (bytes * bytes)) k v : distinct_names (map fst kvs) = true -> In (k, v) kvs -> lookup_last k kvs = Some v.
Proof.
  intros Hd Hin. apply in_split in Hin as [a [b ->]]. rewrite map_app in Hd. cbn [map fst] in Hd.
  apply distinct_split in Hd. unfold lookup_last. rewrite fold_left_app. cbn [fold_left fst snd]. rewrite bytes_eqb_refl.
  apply lookup_keep. apply Forall_forall. intros kv Hkv. rewrite Forall_forall in Hd. apply Hd. now apply in_map.
Qed.
Lemma check_self D (l : list (bytes * bytes)) : distinct_names (map fst l) = true -> (forall d, D d <> []) ->
  deb_check (map (fun nd => (D (snd nd), fst nd)) l) (map (fun nd => (fst nd, D (snd nd))) l) = Ok tt.
Proof.
  intros Hd HD. set (dg := map (fun nd => (fst nd, D (snd nd))) l).
  assert (map fst dg = map fst l) as Hk by (unfold dg; rewrite map_map; reflexivity).
  assert (distinct_names (map fst dg) = true) as Hd' by (rewrite Hk; exact Hd).
  assert (forall sub, incl sub l -> check_lines (map (fun nd => (D (snd nd), fst nd)) sub) dg = Ok tt) as G.
  { induction sub as [|[n d] sub IH]; intros Hi; [reflexivity|]. cbn [map check_lines fst snd].
    assert (lookup_last n dg = Some (D d)) as ->.
    { apply lookup_last_distinct; [exact Hd'|]. unfold dg. apply in_map_iff. exists (n, d). split; [reflexivity|]. apply Hi. now left. }
    unfold deb_cs_unknown, deb_cs_mismatch. rewrite bytes_eqb_refl. cbn [negb].
    replace (bytes_eqb (D d) []) with false by (symmetry; apply bytes_eqb_neq; apply HD).
    apply IH. intros x Hx. apply Hi. now right. }
  unfold deb_check. rewrite (G l (incl_refl l)). cbn [bind].
  replace (forallb _ dg) with true; [reflexivity|]. symmetry. apply forallb_forall. intros [n c] Hin.
  unfold dg in Hin. apply in_map_iff in Hin as [[n' d] [E Hin]]. inversion E; subst. apply existsb_exists.
  exists (D d, n). split; [|cbn [fst snd]; apply bytes_eqb_refl]. apply in_map_iff. exists (n, d). auto.
Qed.
Lemma signed_mems_nd : forall es pos, map (fun m => (m_name m, m_data m)) (deb_signed_members (mems pos es)) = map (fun e => (ent_name e, e_data e)) (filter nonsig es).
Proof.
  induction es as [|e es IH]; intros pos; [reflexivity|]. unfold deb_signed_members in *. cbn [mems filter].
  change (deb_is_gpg (m_cname (mem_of pos e))) with (ent_is_sig e). unfold nonsig at 1.
  destruct (ent_is_sig e); cbn [negb map]; [apply IH|]. now rewrite IH.
Qed.
Lemma vfilter_mems : forall es pos, filter (fun m => negb (deb_v_is_gpg (m_name m))) (mems pos es) = deb_signed_members (mems pos es).
Proof. induction es as [|e es IH]; intros pos; [reflexivity|]. unfold deb_signed_members in *. cbn [mems filter]. now rewrite IH. Qed.
Lemma deb_vmembers_spec es : Forall ent_good es ->
  deb_vmembers (ar_spec_file es) = Ok (filter (fun m => negb (deb_v_is_gpg (m_name m))) (mems 8 es)).
Proof. intros Hg. unfold deb_vmembers. rewrite members_spec, chk_all_true by assumption. reflexivity. Qed.
Theorem deb_verifier_accepts_signed ctl role mtime f b g D s ms :
  deb_embed_wf ctl role mtime f b = Ok g -> (forall d, D d <> []) -> deb_scan ctl f = Ok s -> deb_vmembers g = Ok ms ->
  deb_check (deb_lines D (deb_signed_members (ds_members s))) (deb_digests D ms) = Ok tt.
Proof.
  intros He HD Hs Hv. destruct (deb_embed_form _ _ _ _ _ _ He) as [es E]. destruct E as [W _ -> Hg _ Hf].
  destruct W as [_ -> Wg Wd Wc Wh]. rewrite deb_scan_spec, Wc, Wh in Hs by assumption. injection Hs as <-.
  rewrite deb_vmembers_spec in Hv by assumption. injection Hv as <-. cbn [ds_members].
  unfold deb_lines, deb_digests. rewrite vfilter_mems.
  set (l := map (fun e => (ent_name e, e_data e)) (filter nonsig es)).
  match goal with |- deb_check ?A ?B = _ =>
    assert (A = map (fun nd => (D (snd nd), fst nd)) l) as EA by (unfold l; rewrite <- (signed_mems_nd es 8), map_map; reflexivity);
    assert (B = map (fun nd => (fst nd, D (snd nd))) l) as EB
      by (unfold l; rewrite <- Hf, <- (signed_mems_nd (spec_sign role (new_ent role mtime b) es) 8), map_map; reflexivity);
    rewrite EA, EB
  end.
  apply check_self; [|exact HD]. unfold l. rewrite map_map. exact Wd.
Qed.

(* ================================================================== witnesses *)
Definition w_ctl : bytes -> bytes -> bool := fun _ _ => true.
Definition w_name_control : bytes := [99; 111; 110; 116; 114; 111; 108; 46; 116; 97; 114].     (* "control.tar" *)
Definition w_name_data : bytes := [100; 97; 116; 97; 46; 116; 97; 114].                        (* "data.tar" *)
Definition w_deb : bytes := spec_ar_magic ++ ar_wmember w_name_control 0 33188 [1; 2; 3] ++ ar_wmember w_name_data 0 33188 [4; 5].

(* the member walk panics on a mode field shorter than three characters and on a negative size field *)
Definition w_hdr_shortmode : bytes := pad_sp 16 [97] ++ pad_sp 12 [48] ++ pad_sp 6 [48] ++ pad_sp 6 [48] ++ pad_sp 8 [] ++ pad_sp 10 [48] ++ [96; 10].
Definition w_hdr_negsize : bytes := pad_sp 16 [97] ++ pad_sp 12 [48] ++ pad_sp 6 [48] ++ pad_sp 6 [48] ++ pad_sp 8 [49; 48; 48; 54; 52; 52] ++ pad_sp 10 [45; 49] ++ [96; 10].
Theorem deb_refuses_clean_refuted :
  deb_hashin w_ctl (w_deb ++ w_hdr_shortmode) = Panic 3 /\ deb_hashin w_ctl (w_deb ++ w_hdr_negsize) = Panic 4
  /\ deb_extract [120] (w_deb ++ w_hdr_shortmode) = Panic 3 /\ deb_extract [120] (w_deb ++ w_hdr_negsize) = Panic 4.
Proof. vm_compute. repeat split; reflexivity. Qed.

(* a role longer than 12 characters is stored under a truncated member name: the verifier does not find it under the role,
   and signing again appends a second member instead of replacing the first *)
Definition w_longrole : bytes := repeat 97 13.
Theorem deb_law_extract_refuted : exists g g2,
  deb_embed w_ctl w_longrole 0 w_deb [7] = Ok g /\ deb_extract w_longrole g = Ok None /\
  deb_embed w_ctl w_longrole 0 g [8] = Ok g2 /\ zlen g2 = zlen g + 62 /\ deb_wf w_ctl w_deb = true.
Proof. eexists _, _. split; [vm_compute; reflexivity|]. split; [vm_compute; reflexivity|]. split; [vm_compute; reflexivity|]. split; vm_compute; reflexivity. Qed.

(* checkSig compares names and sums as sets: the archive order of the members is not protected, and a member placed in front
   of a later member of the same name is not looked at *)
Theorem deb_check_order_refuted :
  let lines := [([1], w_name_control); ([2], w_name_data)] in
  deb_check lines [(w_name_control, [1]); (w_name_data, [2])] = Ok tt /\ deb_check lines [(w_name_data, [2]); (w_name_control, [1])] = Ok tt.
Proof. vm_compute. split; reflexivity. Qed.
Theorem deb_check_shadow_refuted :
  let lines := [([1], w_name_control); ([2], w_name_data)] in
  deb_check lines [(w_name_control, [1]); (w_name_data, [66]); (w_name_data, [2])] = Ok tt.
Proof. vm_compute. reflexivity. Qed.
