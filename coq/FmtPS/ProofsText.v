(* FmtPS/ProofsText.v — the text encoding step: the generated per-rune encoder is Go's utf16.Encode + little-endian write (the
   hand model used by ps_hashin), it is the UTF-16-LE of the Unicode standard on every scalar value (surrogate pairs for planes
   1..16), and it is injective on valid UTF-8 texts: a change of any character, in any plane, changes the digest input. *)
From Relic Require Import Base.Prelude Base.Enc Generated.FmtPS_gen FmtPS.Model FmtPS.Lib FmtPS.ProofsPS FmtPS.ProofsPS2 FmtPS.ModelText.

Lemma flat_map_flat_map {A B C} (f : B -> list C) (g : A -> list B) l :
  flat_map f (flat_map g l) = flat_map (fun x => flat_map f (g x)) l.
Proof. induction l as [|a l IH]; [reflexivity|]. cbn [flat_map]. now rewrite flat_map_app, IH. Qed.

(* the generated encoder expression of writeUtf16 / toUtf16 is the hand model the digest model is built on *)
Lemma ps_w16_rune_model r : ps_w16_rune r = flat_map le16 (u16_units r).
Proof. reflexivity. Qed.
Lemma ps_t16_rune_model r : ps_t16_rune r = flat_map le16 (u16_units r).
Proof. reflexivity. Qed.
Theorem ps_write_utf16_model is16 x : ps_write_utf16 is16 x = ps_conv is16 x.
Proof.
  unfold ps_write_utf16, ps_conv, to_utf16. destruct is16; [reflexivity|].
  rewrite flat_map_flat_map. apply flat_map_ext. intros r. apply ps_w16_rune_model.
Qed.
Theorem ps_to_utf16_model x : ps_to_utf16 x = to_utf16 x.
Proof.
  unfold ps_to_utf16, to_utf16. rewrite flat_map_flat_map. apply flat_map_ext. intros r. apply ps_t16_rune_model.
Qed.
(* the UTF-16 path hands the line to the hash unchanged *)
Theorem ps_utf16_pass_identity x : ps_write_utf16 true x = x.
Proof. reflexivity. Qed.

(* per scalar value: exactly the bytes of the standard, in every plane *)
Theorem ps_w16_rune_is_spec c : valid_scalar c = true -> ps_w16_rune c = uni_utf16le_cp c.
Proof.
  intros H. rewrite ps_w16_rune_model, (u16_units_rfc c H). reflexivity.
Qed.
Theorem ps_w16_rune_surrogates c : 65536 <= c <= 1114111 ->
  ps_w16_rune c = [ (55296 + (c - 65536) / 1024) mod 256; (55296 + (c - 65536) / 1024) / 256;
                    (56320 + (c - 65536) mod 1024) mod 256; (56320 + (c - 65536) mod 1024) / 256 ].
Proof.
  intros H. rewrite ps_w16_rune_is_spec by (unfold valid_scalar; lia).
  unfold uni_utf16le_cp, uni_units. replace (c <? 65536) with false by lia. reflexivity.
Qed.
Lemma uni_utf16le_rfc cps : uni_utf16le cps = utf16le_enc cps.
Proof. unfold uni_utf16le, utf16le_enc. now rewrite flat_map_flat_map. Qed.
(* whole text *)
Theorem ps_utf16_is_spec cps : scalars_ok cps = true -> ps_write_utf16 false (utf8_enc cps) = uni_utf16le cps.
Proof. intros H. rewrite ps_write_utf16_model, uni_utf16le_rfc. cbn [ps_conv]. now apply to_utf16_spec. Qed.

(* injectivity: the digest input determines the text *)
Lemma scalars_forall cps : scalars_ok cps = true -> Forall (fun c => valid_scalar c = true) cps.
Proof. unfold scalars_ok. rewrite forallb_forall, Forall_forall. auto. Qed.
Theorem ps_utf16_decodes cps : scalars_ok cps = true ->
  u16_decode (units_of (ps_write_utf16 false (utf8_enc cps))) = cps.
Proof.
  intros H. rewrite ps_write_utf16_model. cbn [ps_conv]. unfold to_utf16. rewrite go_runes_utf8_enc by assumption.
  pose proof (scalars_forall _ H) as HF. rewrite units_of_le16 by (now apply units_range_flat). now apply u16_decode_units.
Qed.
Theorem ps_utf16_encode_injective cps1 cps2 t1 t2 :
  scalars_ok cps1 = true -> t1 = utf8_enc cps1 -> scalars_ok cps2 = true -> t2 = utf8_enc cps2 ->
  ps_write_utf16 false t1 = ps_write_utf16 false t2 -> t1 = t2 /\ cps1 = cps2.
Proof.
  intros H1 -> H2 -> E. assert (cps1 = cps2) as ->.
  { rewrite <- (ps_utf16_decodes cps1 H1), <- (ps_utf16_decodes cps2 H2). now rewrite E. }
  split; reflexivity.
Qed.
(* in the form used on a signed script: two UTF-8 contents with equal digest input are the same content *)
Theorem ps_conv_injective cps1 cps2 : scalars_ok cps1 = true -> scalars_ok cps2 = true ->
  ps_conv false (utf8_enc cps1) = ps_conv false (utf8_enc cps2) -> utf8_enc cps1 = utf8_enc cps2.
Proof.
  intros H1 H2 E. rewrite <- !ps_write_utf16_model in E.
  exact (proj1 (ps_utf16_encode_injective cps1 cps2 _ _ H1 eq_refl H2 eq_refl E)).
Qed.
(* a single character replaced (any plane, any position) changes the digest input *)
Theorem ps_utf16_char_change pre c1 c2 post : scalars_ok (pre ++ c1 :: post) = true -> scalars_ok (pre ++ c2 :: post) = true ->
  c1 <> c2 -> ps_write_utf16 false (utf8_enc (pre ++ c1 :: post)) <> ps_write_utf16 false (utf8_enc (pre ++ c2 :: post)).
Proof.
  intros H1 H2 Hne E. destruct (ps_utf16_encode_injective _ _ _ _ H1 eq_refl H2 eq_refl E) as [_ Hc].
  apply app_inv_head in Hc. injection Hc as Hc. contradiction.
Qed.
(* the byte order mark relic tests for is U+FEFF in the serialisation of the standard *)
Theorem ps_bom_is_spec b0 b1 r : ps_is16 (b0 :: b1 :: r) = bytes_eqb [b0; b1] uni_bom.
Proof.
  unfold ps_is16, ps_bom_cond, uni_bom, uni_le. cbn. destruct (b0 =? 255) eqn:E0, (b1 =? 254) eqn:E1; cbn; try reflexivity.
Qed.
