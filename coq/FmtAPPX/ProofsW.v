(* FmtAPPX/ProofsW.v — concrete witnesses (closed by computation): where the full statements fail for the code as it is, and
   what the alternative shapes of the source would do. *)
From Relic Require Import Base.Prelude Base.Enc Generated.C17_gen C17.Model Generated.FmtAPPX_gen FmtAPPX.Model FmtAPPX.ProofsA FmtAPPX.ProofsB.
From Relic Require Generated.C09_gen C09.Model.

Definition w_ent (method usize crc csize : Z) : cdent := mkEnt 45 20 0 method 0 0 crc csize usize [] [] [] 0 0 0 [].
(* an empty deflated member the way MakeAppx stores it: the two bytes of an empty final block *)
Definition w_empty : amember := mkAM (w_ent 8 0 0 2) [] [3; 0] [] [mkSeg [3; 0] []] [] 0.
(* the same stream followed by 4096 bytes that belong to no deflate block (CompressedSize counts them) *)
Definition w_trail : amember := mkAM (w_ent 8 0 0 4098) [] ([3; 0] ++ repeat 0 4096) [] [mkSeg [3; 0] []] (repeat 0 4096) 0.

Lemma w_empty_ok : am_ok w_empty /\ am_tight w_empty.
Proof. unfold am_ok, am_tight. cbn. repeat split; auto. Qed.
Lemma w_trail_ok : am_ok w_trail.
Proof. unfold am_ok. repeat split; auto. Qed.

(* regression (relic 71d8dc1): before the reader drained the tee at EOF only the first buffer fill (4096 of 4098 bytes) was hashed *)
Lemma w_trail_reads : member_read w_trail ToEOF [] = Ok (am_raw w_trail, []).
Proof. vm_compute. reflexivity. Qed.
Lemma w_trail_not_tight : am_trail w_trail <> [] /\ zlen (am_raw w_trail) = 4098.
Proof. split; [discriminate|reflexivity]. Qed.
(* ... and a reader that is not driven to EOF still leaves everything behind the data it was asked for unread *)
Lemma w_trail_to_size : member_read w_trail ToSize [] = Ok ([], []).
Proof. vm_compute. reflexivity. Qed.

(* a reader that stops after UncompressedSize bytes never asks the inflater for the final block *)
Lemma w_empty_to_size : member_read w_empty ToSize [] = Ok ([], []).
Proof. vm_compute. reflexivity. Qed.
Lemma w_empty_to_eof : member_read w_empty ToEOF [] = Ok ([3; 0], []).
Proof. vm_compute. reflexivity. Qed.

(* two AXPC records: relic's reader takes the last one, the format has exactly one *)
Definition w_dup_blob : bytes := T_APPX ++ T_AXPC ++ [1] ++ T_AXPC ++ [2].
Lemma w_dup_relic : exists m, blob_parse 1 w_dup_blob = Ok m /\ dm_get T_AXPC m = Some [2].
Proof. eexists. split; vm_compute; reflexivity. Qed.
Lemma w_dup_spec : spec_blob 1 w_dup_blob = None.
Proof. vm_compute. reflexivity. Qed.

(* an old block map that lists nothing: CopySizes succeeds (and clears the flag that would make Marshal refuse), the Block of a
   deflated member stays without Size *)
Definition w_defl : amember := mkAM (w_ent 8 3 0 5) (repeat 0 31) [1; 2; 3; 4; 5] [] [mkSeg [1; 2; 3; 4; 5] [7; 8; 9]] [] 0.
Lemma w_nosizes : copy_sizes [] [plain_bfile w_defl] = Ok [plain_bfile w_defl] /\ appx_copysizes_clears_flag = true /\
  map bb_size (bf_blocks (plain_bfile w_defl)) = [0] /\ map bb_size (bf_blocks (spec_bfile w_defl [5])) = [5].
Proof. repeat split; vm_compute; reflexivity. Qed.

(* content types: what the package declared is replaced *)
Definition s_png : bytes := [112; 110; 103].
Definition w_ct0 : ctypes := mkCT [(s_png, [105; 109; 97; 103; 101; 47; 120; 45; 112; 110; 103])] [].      (* png -> image/x-png *)
Definition w_name : bytes := [97; 46; 112; 110; 103].                                                         (* a.png *)
Lemma w_ct_overwritten : ct_find w_name w_ct0 = [105; 109; 97; 103; 101; 47; 120; 45; 112; 110; 103] /\
  ct_find w_name (ct_regen w_ct0 [w_name] 0) = [105; 109; 97; 103; 101; 47; 112; 110; 103].                  (* image/png *)
Proof. split; vm_compute; reflexivity. Qed.
Definition w_ct1 : ctypes := mkCT [] [(47 :: appx_n_blockmap, [116; 101; 120; 116; 47; 120; 109; 108])].     (* /AppxBlockMap.xml -> text/xml *)
Lemma w_ovr_overwritten : ct_find appx_n_blockmap w_ct1 = [116; 101; 120; 116; 47; 120; 109; 108] /\
  ct_find appx_n_blockmap (ct_regen w_ct1 [appx_n_blockmap] 0) = amap_get (47 :: appx_n_blockmap) appx_ct_default_ovr /\
  amap_get (47 :: appx_n_blockmap) appx_ct_default_ovr <> [116; 101; 120; 116; 47; 120; 109; 108].
Proof. repeat split; try (vm_compute; reflexivity). vm_compute. discriminate. Qed.

(* a tiny package — one stored payload member, then the manifest — goes through DigestAppxTar and Sign: the hypotheses of the
   sign / verify theorems are satisfiable *)
Definition ex_payload : amember := mkAM (mkEnt 45 20 0 0 0 0 0 3 3 [97] [] [] 0 0 0 []) (repeat 0 31) [1; 2; 3] [] [] [] 0.
Definition ex_manifest : amember := mkAM (mkEnt 45 20 0 0 0 0 0 2 2 appx_n_manifest [] [] 0 0 34 []) (repeat 0 46) [9; 9] [] [] [] 0.
Definition ex_digest := digest_appx (fun _ => None) (fun _ => None) [ex_payload; ex_manifest] 200 [].
Definition ex_sign (st : dinfo) := sign_appx (fun x => [zlen x mod 256]) (fun x => x) (fun _ => 0) (fun _ => [1]) (fun _ => [2]) (fun x => x) [3] (fun b => b) st.
Lemma ex_signs : exists st sg, ex_digest = Ok st /\ ex_sign st = Ok sg /\ di_manifest st = Some [9; 9] /\ di_unverified st = false /\
  map am_name (sg_members sg) = [[97]; appx_n_manifest; appx_n_blockmap; appx_n_contenttypes; appx_n_signature] /\ sg_patch_start sg = 34.
Proof.
  destruct ex_digest as [st| |] eqn:E; try (vm_compute in E; discriminate).
  destruct (ex_sign st) as [sg| |] eqn:E2.
  - exists st, sg. vm_compute in E. injection E as <-. vm_compute in E2. injection E2 as <-. repeat split; reflexivity.
  - vm_compute in E. injection E as <-. vm_compute in E2. discriminate.
  - vm_compute in E. injection E as <-. vm_compute in E2. discriminate.
Qed.
