(* FmtAPPX/ProofsC.v — Sign appends well-formed members whose bytes the verifier recomputes: the five digests of a package
   relic signed, recomputed from the signed file; the block map relic wrote passes verifyBlockMap's walk. *)
From Relic Require Import Base.Prelude Base.Enc Generated.C17_gen C17.Model C17.Bytes Generated.FmtAPPX_gen FmtAPPX.Model FmtAPPX.ProofsA FmtAPPX.ProofsB.
From Relic Require Generated.C09_gen C09.Model C09.Proofs C09.Properties.

Lemma last_snoc {A} (l : list A) x d : last (l ++ [x]) d = x.
Proof. induction l as [|a l IH]; [reflexivity|]. cbn [app]. destruct (l ++ [x]) eqn:E; [destruct l; discriminate|]. cbn [last]. exact IH. Qed.

Section SignProofs.
  Variable H : bytes -> bytes.
  Variable deflate : bytes -> bytes.
  Variable crc32 : bytes -> Z.
  Variable ser_bm : list bfile -> bytes.
  Variable ser_ct : ctypes -> bytes.
  Variable repub : bytes -> bytes.
  Variable mkcat : bytes.
  Variable mksig : bytes -> bytes.

  (* the member addZipEntry appends when the directory ends at dirloc *)
  Definition placed (name contents : bytes) (mt : Z * Z) (dirloc : Z) : amember :=
    let m0 := new_member deflate crc32 name contents mt in
    mkAM (last (fst (add_file [] dirloc (am_ent m0) (am_total_go m0))) ent0) (am_lfh m0) (am_raw m0) (am_dd m0) (am_segs m0) (am_trail m0) (am_crc m0).

  Lemma placed_facts name contents mt dirloc : let m := placed name contents mt dirloc in
    am_ok m /\ am_tight m /\ e_offset (am_ent m) = dirloc /\ am_name m = name /\ am_out m = contents /\
    am_method m = (if appx_entry_deflate name then 8 else 0) /\ am_total_go m = am_total m.
  Proof.
    intros m. unfold m, placed, new_member, add_file, new_file. cbn [fst snd am_ent app last].
    change (af_offset dirloc) with dirloc.
    unfold am_ok, am_tight, am_name, am_method, am_out, seg_raw, am_total_go, am_total, am_extent.
    cbn [am_ent am_lfh am_raw am_dd am_segs am_trail am_crc e_method e_csize e_usize e_crc e_offset e_name].
    unfold nf_file_method. destruct (appx_entry_deflate name); cbn [Z.eqb map concat sg_raw sg_out];
      rewrite ?app_nil_r; repeat split; auto; try (intros; discriminate); rewrite ?zlen_app; lia.
  Qed.

  Lemma add_zip_entry_ok name contents mt (st : sstate) : let m := placed name contents mt (ss_dirloc st) in
    add_zip_entry deflate crc32 name contents mt st =
    Ok (mkSS (ss_new st ++ [m]) (ss_axpc st ++ am_extent m) (if am_listed m then ss_bm st ++ [plain_bfile m] else ss_bm st)
             (ss_files st ++ [am_ent m]) (ss_dirloc st + am_total m)).
  Proof.
    intros m. pose proof (placed_facts name contents mt (ss_dirloc st)) as (Hok & Ht & Hoff & Hn & Ho & Hm & Htot). fold m in Hok, Ht, Hoff, Hn, Ho, Hm, Htot.
    unfold add_zip_entry. change (appx_entry_newfile_args && appx_entry_feeds_axpc) with true. cbn [negb].
    set (m0 := new_member deflate crc32 name contents mt).
    assert (Em : mkAM (last (fst (add_file (ss_files st) (ss_dirloc st) (am_ent m0) (am_total_go m0))) ent0) (am_lfh m0) (am_raw m0) (am_dd m0) (am_segs m0) (am_trail m0) (am_crc m0) = m).
    { unfold m, placed. fold m0. f_equal. unfold add_file. cbn [fst]. rewrite !last_snoc. reflexivity. }
    rewrite Em. rewrite (add_file_appx_ok m [] [] Hok). cbn [bind ar_raw ar_file].
    f_equal. unfold add_file. cbn [fst snd]. change af_advances_dirloc with true. cbv iota.
    assert (Ee : am_ent m = mkEnt (e_creator (am_ent m0)) (e_reader (am_ent m0)) (e_flags (am_ent m0)) (e_method (am_ent m0)) (e_mtime (am_ent m0)) (e_mdate (am_ent m0)) (e_crc (am_ent m0))
                  (e_csize (am_ent m0)) (e_usize (am_ent m0)) (e_name (am_ent m0)) (e_extra (am_ent m0)) (e_comment (am_ent m0)) (e_iattrs (am_ent m0)) (e_eattrs (am_ent m0))
                  (af_offset (ss_dirloc st)) (if af_drop_raw (e_offset (am_ent m0)) (af_offset (ss_dirloc st)) then [] else e_raw (am_ent m0))).
    { unfold m, placed. fold m0. cbn [am_ent]. unfold add_file. cbn [fst app last]. reflexivity. }
    rewrite <- Ee.
    assert (Et : am_total_go m0 = am_total m).
    { rewrite <- Htot. unfold am_total_go, m, placed. fold m0. cbn [am_lfh am_dd am_ent]. unfold add_file. cbn [fst app last e_csize]. reflexivity. }
    rewrite Et. destruct (am_listed m); reflexivity.
  Qed.

  (* ---- lists of members lying back to back *)
  Lemma spec_axpc_app a b : spec_axpc (a ++ b) = spec_axpc a ++ spec_axpc b.
  Proof. unfold spec_axpc. now rewrite map_app, concat_app. Qed.
  Lemma laid_out_app : forall a b p, laid_out p (a ++ b) <-> laid_out p a /\ laid_out (p + zlen (spec_axpc a)) b.
  Proof.
    induction a as [|m a IH]; intros b p.
    - cbn [app laid_out spec_axpc map concat]. change (zlen (@nil Z)) with 0. rewrite Z.add_0_r. tauto.
    - cbn [app laid_out]. rewrite IH. unfold spec_axpc. cbn [map concat]. rewrite zlen_app. unfold am_total.
      replace (p + (zlen (am_extent m) + zlen (concat (map am_extent a)))) with (p + zlen (am_extent m) + zlen (concat (map am_extent a))) by lia. tauto.
  Qed.

  (* invariant of the output directory while Sign appends members behind the kept ones *)
  Definition sinv (kept : list amember) (s : sstate) : Prop :=
    Forall am_ok (kept ++ ss_new s) /\ ss_axpc s = spec_axpc (kept ++ ss_new s) /\
    ss_files s = map am_ent (kept ++ ss_new s) /\ laid_out 0 (kept ++ ss_new s) /\ ss_dirloc s = zlen (spec_axpc (kept ++ ss_new s)).

  Lemma sinv_step kept s name contents mt : sinv kept s -> let m := placed name contents mt (ss_dirloc s) in
    exists s', add_zip_entry deflate crc32 name contents mt s = Ok s' /\ sinv kept s' /\ ss_new s' = ss_new s ++ [m] /\
               ss_bm s' = (if am_listed m then ss_bm s ++ [plain_bfile m] else ss_bm s) /\
               am_name m = name /\ am_out m = contents /\ e_offset (am_ent m) = ss_dirloc s.
  Proof.
    intros (I1 & I3 & I4 & I5 & I6) m.
    pose proof (placed_facts name contents mt (ss_dirloc s)) as (Hok & Ht & Hoff & Hn & Ho & Hm & Htot). fold m in Hok, Ht, Hoff, Hn, Ho, Hm, Htot.
    eexists. split; [apply add_zip_entry_ok|]. fold m. cbn [ss_new ss_axpc ss_bm ss_files ss_dirloc].
    split; [|repeat split; auto].
    unfold sinv. cbn [ss_new ss_axpc ss_files ss_dirloc]. rewrite !app_assoc.
    repeat split.
    - apply Forall_app. split; [exact I1|constructor; [exact Hok|constructor]].
    - rewrite spec_axpc_app, I3. unfold spec_axpc at 3. cbn [map concat]. now rewrite app_nil_r.
    - rewrite map_app, I4. reflexivity.
    - apply laid_out_app. split; [exact I5|]. cbn [laid_out]. split; [|exact I]. rewrite Hoff, I6. lia.
    - rewrite spec_axpc_app, zlen_app, I6. unfold spec_axpc at 3. cbn [map concat]. rewrite app_nil_r. reflexivity.
  Qed.

  (* what DigestAppxTar leaves behind for a package whose kept members are well-formed *)
  Definition dinv (st : dinfo) : Prop :=
    Forall am_ok (di_kept st) /\ di_axpc st = spec_axpc (di_kept st) /\
    di_files st = map am_ent (di_kept st) /\ laid_out 0 (di_kept st) /\ di_dirloc st = zlen (spec_axpc (di_kept st)).

  (* the signed package: kept members, then manifest, block map, content types, [catalog], signature; the five preimages *)
  Theorem sign_shape st man sg : dinv st -> di_manifest st = Some man -> di_unverified st = false ->
    sign_appx H deflate crc32 ser_bm ser_ct repub mkcat mksig st = Ok sg ->
    exists front sigm mB mC,
      sg_members sg = front ++ [sigm] /\ (exists mid, front = di_kept st ++ mid) /\
      Forall am_ok front /\ laid_out 0 front /\
      sg_files sg = map am_ent (front ++ [sigm]) /\ e_offset (am_ent sigm) = zlen (spec_axpc front) /\
      am_name sigm = appx_n_signature /\ am_out sigm = appx_pkcx_magic ++ mksig (sg_blob sg) /\
      sg_axpc sg = spec_axpc front /\
      sg_axcd sg = cd_bytes (map am_ent front) ++ wd_tail (map am_ent front) (e_offset (am_ent sigm)) true /\
      In mB front /\ am_name mB = appx_n_blockmap /\ am_out mB = sg_axbm sg /\ sg_axbm sg = ser_bm (sg_bm sg) /\
      In mC front /\ am_name mC = appx_n_contenttypes /\ am_out mC = sg_axct sg /\
      (match sg_axci sg with Some c => (exists mK, In mK front /\ am_name mK = appx_n_codeintegrity /\ am_out mK = c) | None => True end) /\
      sg_blob sg = blob_marshal (H (sg_axpc sg)) (H (sg_axcd sg)) (H (sg_axct sg)) (H (sg_axbm sg)) (match sg_axci sg with Some c => H c | None => [] end) /\
      sg_directory sg = cd_bytes (sg_files sg) ++ wd_tail (sg_files sg) (sg_dirloc sg) true /\
      sg_dirloc sg = zlen (spec_axpc (front ++ [sigm])) /\ sg_patch_start sg = di_patch_start st /\
      (exists mM midr, front = di_kept st ++ mM :: midr /\ am_name mM = appx_n_manifest /\ e_offset (am_ent mM) = zlen (spec_axpc (di_kept st))).
  Proof.
    intros (D1 & D3 & D4 & D5 & D6) Hman Hunv Hs. unfold sign_appx in Hs.
    match type of Hs with (if negb ?c then _ else _) = _ => change c with true in Hs end. cbn [negb] in Hs.
    rewrite Hman in Hs. change (appx_manifest_is_package false) with true in Hs. cbv iota in Hs.
    set (mt := di_mtime st) in *.
    set (s0 := mkSS [] (di_axpc st) (di_bm st) (di_files st) (di_dirloc st)) in *.
    assert (I0 : sinv (di_kept st) s0).
    { unfold sinv, s0. cbn [ss_new ss_axpc ss_files ss_dirloc]. rewrite app_nil_r. repeat split; assumption. }
    destruct (sinv_step _ s0 appx_n_manifest (repub man) mt I0) as (s1 & E1 & I1 & N1 & B1 & NM & _ & FM). rewrite E1 in Hs. cbn [bind] in Hs.
    set (mM := placed appx_n_manifest (repub man) mt (ss_dirloc s0)) in *.
    assert (FM' : e_offset (am_ent mM) = zlen (spec_axpc (di_kept st))) by (rewrite FM; unfold s0; cbn [ss_dirloc]; exact D6).
    rewrite Hunv in Hs. change (appx_marshal_refuses false) with false in Hs. cbv iota in Hs.
    destruct (sinv_step _ s1 appx_n_blockmap (ser_bm (ss_bm s1)) mt I1) as (s2 & E2 & I2 & N2 & B2 & NB & OB & _). rewrite E2 in Hs. cbn [bind] in Hs.
    set (ct := ct_regen (di_ct st) (map e_name (ss_files s2)) (di_npe st)) in *.
    destruct (sinv_step _ s2 appx_n_contenttypes (ser_ct ct) mt I2) as (s3 & E3 & I3 & N3 & B3 & NC & OC & _). rewrite E3 in Hs. cbn [bind] in Hs.
    change appx_axct_is_plain_ctypes with true in Hs. change appx_axbm_is_plain_blockmap with true in Hs. change appx_axci_is_plain_catalog with true in Hs. cbv iota in Hs.
    set (mB := placed appx_n_blockmap (ser_bm (ss_bm s1)) mt (ss_dirloc s1)) in *.
    set (mC := placed appx_n_contenttypes (ser_ct ct) mt (ss_dirloc s2)) in *.
    destruct (appx_no_catalog (di_npe st)) eqn:Ecat.
    - (* no catalog *)
      cbn [bind] in Hs.
      set (axcd := cd_bytes (ss_files s3) ++ wd_tail (ss_files s3) (ss_dirloc s3) true) in *.
      set (blob := blob_marshal (H (ss_axpc s3)) (H axcd) (H (ser_ct ct)) (H (ser_bm (ss_bm s1))) []) in *.
      destruct (sinv_step _ s3 appx_n_signature (appx_pkcx_magic ++ mksig blob) mt I3) as (s5 & E5 & I5 & N5 & B5 & NS & OS & FS). rewrite E5 in Hs. cbn [bind] in Hs.
      injection Hs as <-. cbn [sg_members sg_files sg_dirloc sg_directory sg_patch_start sg_axpc sg_axcd sg_axct sg_axbm sg_axci sg_blob sg_bm].
      destruct I3 as (J1 & J3 & J4 & J5 & J6). destruct I5 as (K1 & K3 & K4 & K5 & K6).
      exists (di_kept st ++ ss_new s3), (placed appx_n_signature (appx_pkcx_magic ++ mksig blob) mt (ss_dirloc s3)), mB, mC.
      rewrite N5 in *. rewrite app_assoc in K4, K6 |- *.
      assert (InB : In mB (di_kept st ++ ss_new s3)) by (rewrite N3, N2; apply in_or_app; right; apply in_or_app; left; apply in_or_app; right; left; reflexivity).
      assert (InC : In mC (di_kept st ++ ss_new s3)) by (rewrite N3; apply in_or_app; right; apply in_or_app; right; left; reflexivity).
      repeat split; auto.
      + exists (ss_new s3). reflexivity.
      + unfold axcd. rewrite J4, FS. reflexivity.
      + exists mM, [mB; mC]. rewrite N3, N2, N1. unfold s0. cbn [ss_new app]. auto.
    - (* with a catalog *)
      destruct (sinv_step _ s3 appx_n_codeintegrity mkcat mt I3) as (s4 & E4 & I4 & N4 & B4 & NK & OK & _). rewrite E4 in Hs. cbn [bind] in Hs.
      set (mK := placed appx_n_codeintegrity mkcat mt (ss_dirloc s3)) in *.
      set (axcd := cd_bytes (ss_files s4) ++ wd_tail (ss_files s4) (ss_dirloc s4) true) in *.
      set (blob := blob_marshal (H (ss_axpc s4)) (H axcd) (H (ser_ct ct)) (H (ser_bm (ss_bm s1))) (H mkcat)) in *.
      destruct (sinv_step _ s4 appx_n_signature (appx_pkcx_magic ++ mksig blob) mt I4) as (s5 & E5 & I5 & N5 & B5 & NS & OS & FS). rewrite E5 in Hs. cbn [bind] in Hs.
      injection Hs as <-. cbn [sg_members sg_files sg_dirloc sg_directory sg_patch_start sg_axpc sg_axcd sg_axct sg_axbm sg_axci sg_blob sg_bm].
      destruct I4 as (J1 & J3 & J4 & J5 & J6). destruct I5 as (K1 & K3 & K4 & K5 & K6).
      exists (di_kept st ++ ss_new s4), (placed appx_n_signature (appx_pkcx_magic ++ mksig blob) mt (ss_dirloc s4)), mB, mC.
      rewrite N5 in *. rewrite app_assoc in K4, K6 |- *.
      assert (InB : In mB (di_kept st ++ ss_new s4)) by (rewrite N4, N3, N2; apply in_or_app; right; apply in_or_app; left; apply in_or_app; left; apply in_or_app; right; left; reflexivity).
      assert (InC : In mC (di_kept st ++ ss_new s4)) by (rewrite N4, N3; apply in_or_app; right; apply in_or_app; left; apply in_or_app; right; left; reflexivity).
      repeat split; auto.
      + exists (ss_new s4). reflexivity.
      + unfold axcd. rewrite J4, FS. reflexivity.
      + exists mK. split; [rewrite N4; apply in_or_app; right; apply in_or_app; right; left; reflexivity|]. split; assumption.
      + exists mM, [mB; mC; mK]. rewrite N4, N3, N2, N1. unfold s0. cbn [ss_new app]. auto.
  Qed.
End SignProofs.
