(* FmtAPPX/Run.v — evaluation of the model and of the specification functions on harness cases.  run : val -> val.
   [0 hs blob]                                   -> [status [[tag value] ...] spec_status [axpc axcd axct axbm axci_present axci]]
   [1 axpc axcd axct axbm axci]                  -> [blob]
   [2 method usize ecrc acrc csize [[rawlen outlen] ...] trail demand script]
                                                 -> [status teed_len out_len]             (raw bytes are zeros: only lengths matter)
   [3 [[k v] ...] [[k v] ...] [name ...] npe [probe ...]] -> [ext_pairs ovr_pairs [find-before ...] [find-after ...]]
   [4 [old file ...] [new file ...]]  file = [name size lfh [block_size ...]]  -> [status [file ...]]
   [5 [entry_bytes ...] sig_entry sig_offset]    -> [axcd_preimage spec_axcd_equal truncate_status truncate_equal]
   [6 package]                                   -> see run_sign *)
From Relic Require Import Base.Prelude Base.Enc Base.Val Generated.C17_gen C17.Model Generated.FmtAPPX_gen FmtAPPX.Model.
From Relic Require Generated.C09_gen C09.Model.

Definition st_of {A} (r : result A) : Z := match r with Ok _ => 0 | Err e => e | Panic e => 100 + e end.
Definition vpairs (l : list (bytes * bytes)) : val := VL (map (fun p => VL [VB (fst p); VB (snd p)]) l).
Definition zeros_n (n : Z) : bytes := repeat 0 (Z.to_nat n).

Definition run_blob (v : val) : val :=
  let hs := vz (vnth 1 v) in
  let b := vb (vnth 2 v) in
  let r := blob_parse hs b in
  VL [VZ (st_of r); match r with Ok l => vpairs l | _ => VL [] end;
      match spec_blob hs b with
      | Some g => VL [VZ 1; VB (dg_axpc g); VB (dg_axcd g); VB (dg_axct g); VB (dg_axbm g);
                      match dg_axci g with Some x => VL [VZ 1; VB x] | None => VL [VZ 0; VB []] end]
      | None => VL [VZ 0]
      end].
Definition run_marshal (v : val) : val :=
  VL [VB (blob_marshal (vb (vnth 1 v)) (vb (vnth 2 v)) (vb (vnth 3 v)) (vb (vnth 4 v)) (vb (vnth 5 v)))].

Fixpoint mk_segs (l : list val) : list seg :=
  match l with [] => [] | x :: r => mkSeg (zeros_n (vz (vnth 0 x))) (zeros_n (vz (vnth 1 x))) :: mk_segs r end.
Definition ent_of (method usize crc csize : Z) : cdent := mkEnt 45 20 0 method 0 0 crc csize usize [] [] [] 0 0 0 [].
Definition run_member (v : val) : val :=
  let method := vz (vnth 1 v) in
  let usize := vz (vnth 2 v) in
  let m := mkAM (ent_of method usize (vz (vnth 3 v)) (vz (vnth 5 v))) [] (zeros_n (vz (vnth 5 v))) []
                (mk_segs (vl (vnth 6 v))) (zeros_n (vz (vnth 7 v))) (vz (vnth 4 v)) in
  let dm := if vz (vnth 8 v) =? 0 then ToEOF else ToSize in
  let r := member_read m dm (map vz (vl (vnth 9 v))) in
  VL [VZ (st_of r); VZ (match r with Ok x => zlen (fst x) | _ => -1 end); VZ (match r with Ok x => zlen (snd x) | _ => -1 end);
      VZ (match addfile_demand with Some ToEOF => 0 | Some ToSize => 1 | None => 2 end)].

Definition amap_of (v : val) : amap := map (fun p => (vb (vnth 0 p), vb (vnth 1 p))) (vl v).
Definition run_ctypes (v : val) : val :=
  let c0 := mkCT (amap_of (vnth 1 v)) (amap_of (vnth 2 v)) in
  let names := map vb (vl (vnth 3 v)) in
  let c1 := ct_regen c0 names (vz (vnth 4 v)) in
  let probes := map vb (vl (vnth 5 v)) in
  VL [vpairs (ct_ext c1); vpairs (ct_ovr c1); VL (map (fun n => VB (ct_find n c0)) probes); VL (map (fun n => VB (ct_find n c1)) probes)].

Definition bfile_of (v : val) : bfile :=
  mkBF (vb (vnth 0 v)) (vz (vnth 1 v)) (vz (vnth 2 v)) (map (fun s => mkBB [] (vz s)) (vl (vnth 3 v))).
Definition vbfile (f : bfile) : val :=
  VL [VB (bf_name f); VZ (bf_size f); VZ (bf_lfh f); VL (map (fun b => VL [VZ (zlen (bb_data b)); VZ (bb_size b)]) (bf_blocks f))].
Definition run_copysizes (v : val) : val :=
  let r := copy_sizes (map bfile_of (vl (vnth 1 v))) (map bfile_of (vl (vnth 2 v))) in
  VL [VZ (st_of r); match r with Ok l => VL (map vbfile l) | _ => VL [] end].

Definition raw_ent (raw : bytes) (off : Z) : cdent := mkEnt 45 20 0 0 0 0 0 0 0 [] [] [] 0 0 off raw.
Definition run_axcd (v : val) : val :=
  let files := map (fun e => raw_ent (vb e) 0) (vl (vnth 1 v)) in
  let off := vz (vnth 3 v) in
  let sg := raw_ent (vb (vnth 2 v)) off in
  let pre := cd_bytes files ++ wd_tail files off true in
  let t := truncate_dir (reread_dir (files ++ [sg]) (off + 1) 0) (zlen files) in
  VL [VB pre; of_bool (bytes_eqb pre (spec_axcd (map dir_header files) off)); VZ (st_of t);
      of_bool (match t with Ok b => bytes_eqb b pre | _ => false end)].

(* ---- whole package: [6 size [member ...] [old block map file ...] old_ext old_ovr new_manifest blockmap_xml ctypes_xml catalog p7
                          [[contents compressed crc] ...] bm_status ct_status]
   member = [name lfh raw dd method usize crc offset [[rawlen outlen] ...] trail_len central_entry mtime mdate acrc]
   The library functions are instantiated with what the harness observed: deflate and CRC-32 by table, the XML serialisers,
   manifest rewriting, catalog and PKCS#7 blob by constants; H is the identity, so the "digests" in the blob are preimages. *)
Fixpoint split_segs (raw : bytes) (l : list val) : list seg :=
  match l with
  | [] => []
  | x :: r => mkSeg (ztake (vz (vnth 0 x)) raw) (zeros_n (vz (vnth 1 x))) :: split_segs (zdrop (vz (vnth 0 x)) raw) r
  end.
Definition member_of (v : val) : amember :=
  let raw := vb (vnth 2 v) in
  let segl := vl (vnth 8 v) in
  let used := fold_left (fun a x => a + vz (vnth 0 x)) segl 0 in
  mkAM (mkEnt 45 20 0 (vz (vnth 4 v)) (vz (vnth 11 v)) (vz (vnth 12 v)) (vz (vnth 6 v)) (zlen raw) (vz (vnth 5 v))
              (vb (vnth 0 v)) [] [] 0 0 (vz (vnth 7 v)) (vb (vnth 10 v)))
       (vb (vnth 1 v)) raw (vb (vnth 3 v)) (split_segs raw segl) (zdrop used raw) (vz (vnth 13 v)).
Definition tab_get (k : bytes) (t : list (bytes * bytes * Z)) : option (bytes * Z) :=
  match find (fun e => bytes_eqb (fst (fst e)) k) t with Some e => Some (snd (fst e), snd e) | None => None end.
Definition vsigned (s : signed) : val :=
  VL [VB (sg_axpc s); VB (sg_axcd s); VB (sg_axct s); VB (sg_axbm s);
      match sg_axci s with Some c => VL [VZ 1; VB c] | None => VL [VZ 0; VB []] end;
      VZ (sg_patch_start s); VB (sg_patch s); VL (map vbfile (sg_bm s)); vpairs (ct_ext (sg_ct s)); vpairs (ct_ovr (sg_ct s));
      VL (map (fun m => VB (am_name m)) (sg_members s))].
Definition run_sign (v : val) : val :=
  let size := vz (vnth 1 v) in
  let ms := map member_of (vl (vnth 2 v)) in
  let oldbm := map bfile_of (vl (vnth 3 v)) in
  let oldct := mkCT (amap_of (vnth 4 v)) (amap_of (vnth 5 v)) in
  let tab := map (fun e => (vb (vnth 0 e), vb (vnth 1 e), vz (vnth 2 e))) (vl (vnth 11 v)) in
  let deflate := fun c => match tab_get c tab with Some (z, _) => z | None => [] end in
  let crc := fun c => match tab_get c tab with Some (_, k) => k | None => 0 end in
  let parse_bm := fun _ : bytes => if vz (vnth 12 v) =? 0 then Some oldbm else None in
  let parse_ct := fun _ : bytes => if vz (vnth 13 v) =? 0 then Some oldct else None in
  let d := digest_appx parse_bm parse_ct ms size [] in
  match d with
  | Ok st =>
      let s := sign_appx (fun x => x) deflate crc (fun _ => vb (vnth 7 v)) (fun _ => vb (vnth 8 v)) (fun _ => vb (vnth 6 v))
                         (vb (vnth 9 v)) (fun _ => vb (vnth 10 v)) st in
      VL [VZ 0; VZ (st_of s); match s with Ok x => vsigned x | _ => VL [] end;
          VL [VB (di_axpc st); VZ (di_patch_start st); VZ (di_patch_len st); VZ (di_npe st); of_bool (di_unverified st);
              VL (map vbfile (di_bm st))]]
  | _ => VL [VZ (st_of d); VZ (-1); VL []; VL []]
  end.

Definition run (v : val) : val :=
  let k := vz (vnth 0 v) in
  if k =? 0 then run_blob v else if k =? 1 then run_marshal v else if k =? 2 then run_member v
  else if k =? 3 then run_ctypes v else if k =? 4 then run_copysizes v else if k =? 5 then run_axcd v
  else if k =? 6 then run_sign v else VL [].
